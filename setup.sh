#!/bin/bash
# Build everything from files on disk (offline): Gen/ from /repo, full .vo build, extraction, engine.
set -e
cd "$(dirname "$0")"
export PYTHONHASHSEED=0
mkdir -p .work evidence replays coq/theories/Gen
PYTHONPATH="$PWD" /venv/bin/python harness/translate/main.py > .work/translate.log
/venv/bin/python harness/mkcoqproject.py
cd coq
coq_makefile -f _CoqProject -o Makefile > /dev/null
# -k: a Gen unit refused by the translator must not stop the rest of the build
timeout 3000 make -k -j16 > ../.work/setup_make.log 2>&1 || { tail -30 ../.work/setup_make.log; echo "setup: some targets failed (see above)"; }
cd ..
mv -f coq/pan.ml coq/pan.mli engine/ 2>/dev/null || true
cd engine
ocamlfind ocamlopt -w -a -package zarith -linkpkg pan.mli pan.ml driver.ml -o pan_engine.new && mv -f pan_engine.new pan_engine
echo "setup done"
