(* Engine entry points for C18: run_c18 sub-op case.  (stub until the property's model exists) *)
From Pan Require Import Base.Common Base.Sx.
Definition run_c18 (sub : Z) (x : sx) : sx := SL [SZ (-1)].
