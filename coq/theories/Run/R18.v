(* Engine entry points for C18: decode an S-expression case, run the model, encode the result.
   Cells are strings (code-point lists); numbers use Model/Tsv.v's reference codec. *)
From Pan Require Import Base.Common Base.Sx Model.Stats Model.Tsv.

Definition ofName (n : name) : sx := ofZs n.
Definition ofNames (l : list name) : sx := SL (map ofName l).
Definition sNames (s : sx) : list name := map sZs (sL s).
Definition ofCol (c : col) : sx := SL (map (ofOpt ofQ) c).
Definition ofVd (vd : vdict) : sx :=
  SL (map (fun ggd => SL [ofName (fst ggd); SL (map (fun mc => SL [ofName (fst mc); ofCol (snd mc)]) (snd ggd))]) vd).
Definition ofStat (st : stat) : sx :=
  SL [ofNames (st_subjects st); ofNames (groupnames st); ofNames (metricnames st); ofVd (st_vd st)].
Definition ofRes18 {A} (f : A -> sx) (r : res A) : sx :=
  match r with Ok a => SL [SZ 0; f a] | Err c => SL [SZ 1; SZ c] end.
Definition ofTable (t : list (list name)) : sx := SL (map ofNames t).
Definition sTable (s : sx) : list (list name) := map sNames (sL s).

(* rdict = ((key fval) ...) ; subject = (name ((group rdict) ...)) *)
Definition sRdict (s : sx) : rdict := map (fun kv => (sZs (sNth 0 kv), sF (sNth 1 kv))) (sL s).
Definition sSubject (s : sx) : subject :=
  let per_group := map (fun gr => (sZs (sNth 0 gr), sRdict (sNth 1 gr))) (sL (sNth 1 s)) in
  (sZs (sNth 0 s), fun g => match alookup g per_group with Some d => d | None => [] end).

(* 1: (groups ev_keys log_times subjects) -> (keys_ok written-table load-result) *)
Definition run_write (x : sx) : sx :=
  let G := sNames (sNth 0 x) in
  let K := agg_keys (sNames (sNth 1 x)) (sB (sNth 2 x)) in
  let subs := map sSubject (sL (sNth 3 x)) in
  let t := write toy_print G K subs in
  SL [ofB (keys_ok K); ofTable t; ofRes18 ofStat (load toy_parse t)].
(* 2: table of cells -> load-result *)
Definition run_load (x : sx) : sx := ofRes18 ofStat (load toy_parse (sTable x)).
(* 3: lower-cased given group names -> dict keys *)
Definition run_groups (x : sx) : sx := ofNames (class_group_names (fun n => n) (sNames x)).
(* 4: header cell -> split *)
Definition run_split (x : sx) : sx :=
  ofRes18 (fun gm => SL [ofName (fst gm); ofName (snd gm)]) (split_cell (sZs x)).

Definition run_c18 (sub : Z) (x : sx) : sx :=
  if sub =? 1 then run_write x else
  if sub =? 2 then run_load x else
  if sub =? 3 then run_groups x else
  if sub =? 4 then run_split x else SL [SZ (-1)].
