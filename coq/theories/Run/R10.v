(* Engine entry points for C10: run_c10 sub-op case.  (stub until the property's model exists) *)
From Pan Require Import Base.Common Base.Sx.
Definition run_c10 (sub : Z) (x : sx) : sx := SL [SZ (-1)].
