(* Engine entry points for C01: run_c01 sub-op case.  (stub until the property's model exists) *)
From Pan Require Import Base.Common Base.Sx.
Definition run_c01 (sub : Z) (x : sx) : sx := SL [SZ (-1)].
