(* Engine entry points for the pipeline (C01, C02, C09-C12). *)
From Pan Require Import Base.Common Base.Sx Model.MetricTable Model.Metrics Model.EdgeCase Model.Result Model.Matcher
  Model.Relabel Model.Pipeline Model.CCA Model.Semantic Run.Codec Run.R14 Run.R05.

Definition dec_metrics (s : sx) : list metric := map (fun e => metric_of_Z (sZ e)) (sL s).
(* cfg = (matcher mmetric mthr ems dm dthr handler) *)
Definition dec_cfg (s : sx) : cfg :=
  {| c_matcher := sZ (sNth 0 s); c_mmetric := metric_of_Z (sZ (sNth 1 s)); c_mthr := sQ (sNth 2 s);
     c_ems := dec_metrics (sNth 3 s); c_dm := sMetricOpt (sNth 4 s); c_dthr := sQOpt (sNth 5 s);
     c_handler := dec_handler (sNth 6 s) |}.
(* ext = (inst-table pair-table union-table): ((metric label q)...) ((ref pred q)...) ((ref (labels) q)...) *)
Definition dec_ext (s : sx) : ext :=
  let it := map (fun e => (sZ (sNth 0 e), sZ (sNth 1 e), sQ (sNth 2 e))) (sL (sNth 0 s)) in
  let pt := map (fun e => (sZ (sNth 0 e), sZ (sNth 1 e), sQ (sNth 2 e))) (sL (sNth 1 s)) in
  {| x_inst := fun m l => match find (fun e => (fst (fst e) =? Z_of_metric m) && (snd (fst e) =? l)) it with
                          | Some e => snd e | None => (-7 # 1)%Q end;
     x_pair := fun rp => match find (fun e => (fst (fst e) =? fst rp) && (snd (fst e) =? snd rp)) pt with
                         | Some e => snd e | None => (-7 # 1)%Q end;
     x_union := table_su (dec_tbl (sNth 2 s)) |}.
Definition dec_arr (s : sx) : arr2 := map sZZ (sL s).

(* sub 1: (cfg ext arr2) -> result *)
Definition run_pipeline (x : sx) : sx :=
  ofRes enc_result (pipeline (dec_ext (sNth 1 x)) (dec_cfg (sNth 0 x)) (dec_arr (sNth 2 x))).
(* sub 2: (cfg ext arr2) -> relabelled prediction after matching *)
Definition run_match_phase (x : sx) : sx :=
  ofRes (fun a => SL (map (fun v => SZ (snd v)) a)) (match_phase (dec_ext (sNth 1 x)) (dec_cfg (sNth 0 x)) (dec_arr (sNth 2 x))).
(* sub 3: (cfg ext bk ndim pred ref) -> result of the whole semantic path (CCA inside the model); bk = () | (b);
   pred / ref are sparse maps ((coords label) ...) *)
Definition run_semantic (x : sx) : sx :=
  let bk := match sNth 2 x with SL [b] => Some (dec_backend b) | _ => None end in
  ofRes enc_result (semantic_pipeline bk (sZ (sNth 3 x)) (dec_ext (sNth 1 x)) (dec_cfg (sNth 0 x))
                      (dec_smap (sNth 4 x)) (dec_smap (sNth 5 x))).
Definition run_c01 (sub : Z) (x : sx) : sx :=
  if sub =? 1 then run_pipeline x else if sub =? 2 then run_match_phase x else if sub =? 3 then run_semantic x else SL [SZ (-1)].
