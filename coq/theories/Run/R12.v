(* Engine entry points for C12: run_c12 sub-op case.  (stub until the property's model exists) *)
From Pan Require Import Base.Common Base.Sx.
Definition run_c12 (sub : Z) (x : sx) : sx := SL [SZ (-1)].
