(* Engine entry points for C19.  S-expression formats (all decoding happens here):
     str    = (cp ...)                       num = (0 z) | (1 (n d)) | (2) inf | (3) -inf | (4) nan
     yaml   = (0) | (1 b) | (2 num) | (3 str) | (4 tag val) | (5 (item ...)) | (6 tagopt ((k v) ...)) | (7 code)
     opt x  = () | (x)
     config = (input approx matcher handler groups inst glob dmetric dthr sgt log verbose)
       input/metric/backend/ecres = member index;  approx = opt (opt backend)
       matcher = opt ((0 metric num many_to_one) | (1 metric num))
       handler = (((metric (no ep er normal)) ...) std)
       groups  = opt ((name kind labels single) ...)     kind 0 LabelGroup, 1 LabelMergeGroup
   ops: 1901 config -> (yaml  decode-of-it  wf  tables_ok)        1902 yaml -> decode
        1903 (kind component) -> (yaml  decode-of-it)            1904 (kind yaml) -> decode of the component
        1905 ((name kind labels single) ...)  the user's dictionary, keys as given -> (dictionary  labels  rebuilt-dictionary) *)
From Pan Require Import Base.Common Base.Sx Model.MetricTable Model.Config Model.GroupCtor.
Open Scope Z_scope.

Definition T0 := model_tables.

Definition ofStr (s : str) : sx := SL (map SZ s).
Definition sStr (s : sx) : str := sZs s.
Definition ofNum (n : num) : sx :=
  match n with
  | NInt z => SL [SZ 0; SZ z] | NFlt q => SL [SZ 1; ofQ q]
  | NInf => SL [SZ 2] | NNegInf => SL [SZ 3] | NNan => SL [SZ 4]
  end.
Definition sNum (s : sx) : num :=
  match s with
  | SL [SZ 0; SZ z] => NInt z
  | SL [SZ 1; q] => NFlt (Qred (sQ q))
  | SL [SZ 2] => NInf | SL [SZ 3] => NNegInf | _ => NNan
  end.

Fixpoint ofYaml (y : yaml) : sx :=
  match y with
  | YNull => SL [SZ 0]
  | YBool b => SL [SZ 1; ofB b]
  | YNum n => SL [SZ 2; ofNum n]
  | YStr s => SL [SZ 3; ofStr s]
  | YTag t v => SL [SZ 4; ofStr t; ofStr v]
  | YSeq l => SL [SZ 5; SL (map ofYaml l)]
  | YMap t m => SL [SZ 6; ofOpt ofStr t; SL (map (fun kv => let '(k, v) := kv in SL [ofYaml k; ofYaml v]) m)]
  | YRaise c => SL [SZ 7; SZ c]
  end.

Fixpoint sYaml (s : sx) : yaml :=
  match s with
  | SL [SZ 1; b] => YBool (sB b)
  | SL [SZ 2; n] => YNum (sNum n)
  | SL [SZ 3; x] => YStr (sStr x)
  | SL [SZ 4; t; v] => YTag (sStr t) (sStr v)
  | SL [SZ 5; SL items] => YSeq (map sYaml items)
  | SL [SZ 6; tag; SL entries] =>
      YMap (sOpt sStr tag)
           (map (fun e => match e with SL [k; v] => (sYaml k, sYaml v) | _ => (YNull, YNull) end) entries)
  | SL [SZ 7; SZ c] => YRaise c
  | _ => YNull
  end.

Definition nthd {A} (l : list A) (i : Z) (d : A) : A := nth (Z.to_nat i) l d.
Definition sMetric (s : sx) : metric := nthd all_metrics (sZ s) DSC.
Definition ofMetric (m : metric) : sx := SZ (Z.of_nat (metric_idx m)).
Definition sEcres (s : sx) : ecres := nthd all_ecres (sZ s) R_NONE.
Definition ofEcres (r : ecres) : sx := SZ (Z.of_nat (ecres_idx r)).
Definition sInput (s : sx) : input_type := nthd all_inputs (sZ s) IT_MATCHED.
Definition ofInput (i : input_type) : sx := SZ (Z.of_nat (input_idx i)).
Definition sBackend (s : sx) : backend := nthd all_backends (sZ s) B_cc3d.
Definition ofBackend (b : backend) : sx := SZ (Z.of_nat (backend_idx b)).
Definition sZerotp (s : sx) : zerotp := nthd all_zerotp (sZ s) Z_NORMAL.
Definition ofZerotp (z : zerotp) : sx := SZ (Z.of_nat (zerotp_idx z)).

Definition sApprox (s : sx) : approx := ACC (sOpt sBackend s).
Definition ofApprox (a : approx) : sx := match a with ACC b => ofOpt ofBackend b end.
Definition sMatcher (s : sx) : matcher :=
  if sZ (sNth 0 s) =? 0 then MNaive (sMetric (sNth 1 s)) (sNum (sNth 2 s)) (sB (sNth 3 s))
  else MMerge (sMetric (sNth 1 s)) (sNum (sNth 2 s)).
Definition ofMatcher (m : matcher) : sx :=
  match m with
  | MNaive x t b => SL [SZ 0; ofMetric x; ofNum t; ofB b]
  | MMerge x t => SL [SZ 1; ofMetric x; ofNum t]
  end.
Definition sMzh (s : sx) : mzh :=
  {| mz_no := sEcres (sNth 0 s); mz_ep := sEcres (sNth 1 s); mz_er := sEcres (sNth 2 s); mz_normal := sEcres (sNth 3 s) |}.
Definition ofMzh (z : mzh) : sx := SL [ofEcres (mz_no z); ofEcres (mz_ep z); ofEcres (mz_er z); ofEcres (mz_normal z)].
Definition sHandler (s : sx) : handler :=
  {| h_table := map (fun e => (sMetric (sNth 0 e), sMzh (sNth 1 e))) (sL (sNth 0 s)); h_std := sEcres (sNth 1 s) |}.
Definition ofHandler (h : handler) : sx :=
  SL [SL (map (fun mz => SL [ofMetric (fst mz); ofMzh (snd mz)]) (h_table h)); ofEcres (h_std h)].
Definition sLgroup (s : sx) : lgroup :=
  {| g_kind := if sZ (sNth 0 s) =? 0 then GPlain else GMerge; g_labels := sZs (sNth 1 s); g_single := sB (sNth 2 s) |}.
Definition ofLgroup (g : lgroup) : sx :=
  SL [SZ (match g_kind g with GPlain => 0 | GMerge => 1 end); ofZs (g_labels g); ofB (g_single g)].
Definition sGroups (s : sx) : groups :=
  match s with
  | SL [SL es] => GList (map (fun e => (sStr (sNth 0 e), sLgroup (SL (tl (sL e))))) es)
  | _ => GNone
  end.
Definition ofGroups (g : groups) : sx :=
  match g with
  | GNone => SL []
  | GList l => SL [SL (map (fun ng => SL (ofStr (fst ng) :: sL (ofLgroup (snd ng)))) l)]
  end.
Definition sConfig (s : sx) : config :=
  {| c_input := sInput (sNth 0 s); c_approx := sOpt sApprox (sNth 1 s); c_matcher := sOpt sMatcher (sNth 2 s);
     c_handler := sHandler (sNth 3 s); c_groups := sGroups (sNth 4 s);
     c_inst := map sMetric (sL (sNth 5 s)); c_glob := map sMetric (sL (sNth 6 s));
     c_dmetric := sOpt sMetric (sNth 7 s); c_dthr := sOpt sNum (sNth 8 s);
     c_sgt := sB (sNth 9 s); c_log := sB (sNth 10 s); c_verbose := sB (sNth 11 s) |}.
Definition ofConfig (c : config) : sx :=
  SL [ofInput (c_input c); ofOpt ofApprox (c_approx c); ofOpt ofMatcher (c_matcher c); ofHandler (c_handler c);
      ofGroups (c_groups c); SL (map ofMetric (c_inst c)); SL (map ofMetric (c_glob c));
      ofOpt ofMetric (c_dmetric c); ofOpt ofNum (c_dthr c); ofB (c_sgt c); ofB (c_log c); ofB (c_verbose c)].

Definition ofRes19 {A} (f : A -> sx) (r : res A) : sx :=
  match r with Ok a => SL [SZ 0; f a] | Err c => SL [SZ 1; SZ c] end.

Definition run_config (x : sx) : sx :=
  let c := sConfig x in
  let y := encode T0 c in
  SL [ofYaml y; ofRes19 ofConfig (decode T0 y); ofB (wf_config c); ofB (tables_ok T0)].

Definition pair_out {A} (f : A -> sx) (y : yaml) (r : res A) : sx := SL [ofYaml y; ofRes19 f r].

(* kind: 0 matcher 1 approximator 2 handler 3 zero-tp handling 4 label group 5 class groups 6 any-group
         7 Metric 8 InputType 9 CCABackend 10 EdgeCaseResult 11 EdgeCaseZeroTP *)
Definition run_component (x : sx) : sx :=
  let k := sZ (sNth 0 x) in let p := sNth 1 x in
  if k =? 0 then let v := sMatcher p in let y := enc_matcher T0 v in pair_out ofMatcher y (dec_matcher T0 y)
  else if k =? 1 then let v := sApprox p in let y := enc_approx T0 v in pair_out ofApprox y (dec_approx T0 y)
  else if k =? 2 then let v := sHandler p in let y := enc_handler T0 v in pair_out ofHandler y (dec_handler T0 y)
  else if k =? 3 then let v := sMzh p in let y := enc_mzh T0 v in pair_out ofMzh y (dec_mzh T0 y)
  else if k =? 4 then let v := sLgroup p in let y := enc_lgroup T0 v in pair_out ofLgroup y (dec_lgroup T0 y)
  else if k =? 5 then let v := sGroups p in let y := enc_groups T0 v in pair_out ofGroups y (dec_groups T0 y)
  else if k =? 6 then let y := enc_any T0 in pair_out (fun _ => SL []) y (dec_any T0 y)
  else if k =? 7 then let y := enc_metric T0 (sMetric p) in pair_out ofMetric y (dec_metric T0 y)
  else if k =? 8 then let y := enc_input T0 (sInput p) in pair_out ofInput y (dec_input T0 y)
  else if k =? 9 then let y := enc_backend T0 (sBackend p) in pair_out ofBackend y (dec_backend T0 y)
  else if k =? 10 then let y := enc_ecres T0 (sEcres p) in pair_out ofEcres y (dec_ecres T0 y)
  else if k =? 11 then let y := enc_zerotp T0 (sZerotp p) in pair_out ofZerotp y (dec_zerotp T0 y)
  else SL [SZ (-1)].

Definition run_decode_component (x : sx) : sx :=
  let k := sZ (sNth 0 x) in let y := sYaml (sNth 1 x) in
  if k =? 0 then ofRes19 ofMatcher (dec_matcher T0 y)
  else if k =? 1 then ofRes19 ofApprox (dec_approx T0 y)
  else if k =? 2 then ofRes19 ofHandler (dec_handler T0 y)
  else if k =? 3 then ofRes19 ofMzh (dec_mzh T0 y)
  else if k =? 4 then ofRes19 ofLgroup (dec_lgroup T0 y)
  else if k =? 5 then ofRes19 ofGroups (dec_groups T0 y)
  else if k =? 6 then ofRes19 (fun _ => SL []) (dec_any T0 y)
  else if k =? 7 then ofRes19 ofMetric (dec_metric T0 y)
  else if k =? 8 then ofRes19 ofInput (dec_input T0 y)
  else if k =? 9 then ofRes19 ofBackend (dec_backend T0 y)
  else if k =? 10 then ofRes19 ofEcres (dec_ecres T0 y)
  else if k =? 11 then ofRes19 ofZerotp (dec_zerotp T0 y)
  else SL [SZ (-1)].

Definition run_group_ctor (x : sx) : sx :=
  let entries := map (fun e => (sStr (sNth 0 e), sLgroup (SL (tl (sL e))))) (sL x) in
  SL [ofGroups (GList (ctor_dict entries)); ofZs (ctor_labels entries); ofGroups (GList (reconstructed entries))].

Definition run_c19 (sub : Z) (x : sx) : sx :=
  if sub =? 1 then run_config x
  else if sub =? 2 then ofRes19 ofConfig (decode T0 (sYaml x))
  else if sub =? 3 then run_component x
  else if sub =? 4 then run_decode_component x
  else if sub =? 5 then run_group_ctor x
  else SL [SZ (-1)].
