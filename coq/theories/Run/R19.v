(* Engine entry points for C19: run_c19 sub-op case.  (stub until the property's model exists) *)
From Pan Require Import Base.Common Base.Sx.
Definition run_c19 (sub : Z) (x : sx) : sx := SL [SZ (-1)].
