(* Engine entry points for C14: run_c14 sub-op case.  (stub until the property's model exists) *)
From Pan Require Import Base.Common Base.Sx.
Definition run_c14 (sub : Z) (x : sx) : sx := SL [SZ (-1)].
