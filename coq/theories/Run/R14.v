(* Engine entry point for C14: the merge matcher driven by a finite table of combined scores. *)
From Pan Require Import Base.Common Base.Sx Model.MetricTable Model.Matcher Model.Merge Run.Codec Run.R03.

Fixpoint zs_eqb (a b : list Z) : bool :=
  match a, b with [] , [] => true | x :: a', y :: b' => (x =? y) && zs_eqb a' b' | _, _ => false end.
Definition table_su (tbl : list (Z * list Z * Q)) (r : Z) (ps : list Z) : Q :=
  match find (fun e => (fst (fst e) =? r) && zs_eqb (sortZ (snd (fst e))) (sortZ ps)) tbl with
  | Some e => snd e | None => (-7 # 1)%Q end.
Definition dec_tbl (s : sx) : list (Z * list Z * Q) :=
  map (fun e => (sZ (sNth 0 e), sZs (sNth 1 e), sQ (sNth 2 e))) (sL s).

(* sub 1: (decr thr cands table) -> ((pred ref)...) ((ref score)...) *)
Definition run_merge (x : sx) : sx :=
  let decr := sB (sNth 0 x) in let thr := sQ (sNth 1 x) in
  let st := merge_match (better_eq decr) Qeq_bool (fun s => beats decr s thr) (table_su (dec_tbl (sNth 3 x)))
              (map dec_cand (sL (sNth 2 x))) in
  SL [SL (map ofZZ (ms_map st)); SL (map (fun e => SL [SZ (fst e); ofQ (snd e)]) (ms_score st))].

Definition run_c14 (sub : Z) (x : sx) : sx := if sub =? 1 then run_merge x else SL [SZ (-1)].
