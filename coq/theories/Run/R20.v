(* Engine entry points for C20: a table of cells is loaded with the model's loader (Model/Tsv.v), then
   every summary, the across-groups summary and the per-subject lookups are computed by Model/Stats.v. *)
From Pan Require Import Base.Common Base.Sx Model.Stats Model.Tsv Run.R18.

Definition ofVsum (v : vsum) : sx :=
  SL [SL (map ofQ (vs_values v)); ofQ (vs_avg v); ofQ (vs_var v); ofQ (vs_min v); ofQ (vs_max v)].
Definition ofOne (r : list (name * list (name * option Q))) : sx :=
  SL (map (fun gl => SL [ofName (fst gl); SL (map (fun mv => SL [ofName (fst mv); ofOpt ofQ (snd mv)]) (snd gl))]) r).

(* 1: (table queries) -> (load-result summaries across one-subject-results)
      summaries = per group (in groupnames order) per metric (metricnames order) *)
Definition run_stats (x : sx) : sx :=
  match load toy_parse (sTable (sNth 0 x)) with
  | Err c => SL [SL [SZ 1; SZ c]; SL []; SL []; SL []]
  | Ok st =>
      SL [SL [SZ 0; ofStat st];
          SL (map (fun g => SL (map (fun m => ofRes18 ofVsum (get_summary st g m)) (metricnames st))) (groupnames st));
          ofRes18 (fun r => SL (map (fun mv => SL [ofName (fst mv); ofVsum (snd mv)]) r)) (get_summary_across_groups st);
          SL (map (fun s => ofRes18 ofOne (get_one_subject st s)) (sNames (sNth 1 x)))]
  end.
(* 2: (table group metric) -> get on names that may be absent *)
Definition run_get (x : sx) : sx :=
  match load toy_parse (sTable (sNth 0 x)) with
  | Err c => SL [SZ 1; SZ c]
  | Ok st => ofRes18 ofCol (get st (sZs (sNth 1 x)) (sZs (sNth 2 x)))
  end.

Definition run_c20 (sub : Z) (x : sx) : sx :=
  if sub =? 1 then run_stats x else
  if sub =? 2 then run_get x else SL [SZ (-1)].
