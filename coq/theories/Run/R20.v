(* Engine entry points for C20: run_c20 sub-op case.  (stub until the property's model exists) *)
From Pan Require Import Base.Common Base.Sx.
Definition run_c20 (sub : Z) (x : sx) : sx := SL [SZ (-1)].
