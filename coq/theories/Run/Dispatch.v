(* op = 100 * property number + sub-op; op 1 = Rnd64 validation *)
From Pan Require Import Base.Common Base.Sx Run.R01 Run.R02 Run.R03 Run.R04 Run.R05 Run.R06 Run.R07 Run.R08 Run.R09 Run.R10 Run.R11 Run.R12 Run.R13 Run.R14 Run.R15 Run.R16 Run.R17 Run.R18 Run.R19 Run.R20.

Definition dispatch (op : Z) (x : sx) : sx :=
  if op =? 1 then run_rnd x else
  let p := op / 100 in let sub := op mod 100 in
  if p =? 1 then run_c01 sub x else
  if p =? 2 then run_c02 sub x else
  if p =? 3 then run_c03 sub x else
  if p =? 4 then run_c04 sub x else
  if p =? 5 then run_c05 sub x else
  if p =? 6 then run_c06 sub x else
  if p =? 7 then run_c07 sub x else
  if p =? 8 then run_c08 sub x else
  if p =? 9 then run_c09 sub x else
  if p =? 10 then run_c10 sub x else
  if p =? 11 then run_c11 sub x else
  if p =? 12 then run_c12 sub x else
  if p =? 13 then run_c13 sub x else
  if p =? 14 then run_c14 sub x else
  if p =? 15 then run_c15 sub x else
  if p =? 16 then run_c16 sub x else
  if p =? 17 then run_c17 sub x else
  if p =? 18 then run_c18 sub x else
  if p =? 19 then run_c19 sub x else
  if p =? 20 then run_c20 sub x else
  SL [SZ (-1)].
