From Pan Require Import Base.Common Base.Sx Run.R06.

Definition dispatch (op : Z) (x : sx) : sx :=
  if op =? 1 then run_rnd x
  else if op =? 601 then run_metric x
  else SL [SZ (-1)].
