(* Engine entry points for C16 (and, shared, C17): decode a case, run the aggregator model's
   executable scheduler or one of the oracles, encode the answer.
   sub 1: (components events) -> states after every event
   sub 2: oracle check(s) on OBSERVED file states   sub 3: buffer file name of an output file name *)
From Pan Require Import Base.Common Base.Sx Model.Aggregator.

Definition dec_line (s : sx) : line :=
  if sZ (sNth 0 s) =? 0 then LH (sZ (sNth 1 s)) else LR (sZs (sNth 1 s)) (sZ (sNth 2 s)).
Definition enc_line (l : line) : sx :=
  match l with LH h => SL [SZ 0; SZ h] | LR n p => SL [SZ 1; ofZs n; SZ p] end.
Definition dec_file {A} (f : sx -> A) (s : sx) : file A :=
  if sZ (sNth 0 s) =? 0 then None else Some (map f (sL (sNth 1 s))).
Definition enc_file {A} (f : A -> sx) (o : file A) : sx :=
  match o with None => SL [SZ 0] | Some l => SL [SZ 1; SL (map f l)] end.
Definition dec_call (s : sx) : call :=
  if sZ (sNth 0 s) =? 0 then mkEval (sZs (sNth 1 s)) (sZ (sNth 2 s)) else mkStat.
Definition dec_row (s : sx) : row := (sZs (sNth 0 s), sZ (sNth 1 s)).

Definition enc_pc (p : pc) : sx :=
  match p with
  | Start => SL [SZ 0] | HoldE => SL [SZ 1] | ReadE false => SL [SZ 2] | ReadE true => SL [SZ 3]
  | ClaimedE => SL [SZ 4] | Evaluating => SL [SZ 5] | WantF => SL [SZ 6] | HoldF => SL [SZ 7]
  | WroteF => SL [SZ 8] | Done false => SL [SZ 9] | Done true => SL [SZ 10]
  | RStart => SL [SZ 11] | RHold => SL [SZ 12]
  | RRead s => SL [SZ 13; SL (map enc_line s)] | RDone s => SL [SZ 14; SL (map enc_line s)]
  end.
Definition enc_cpc (c : cpc) : Z :=
  match c with
  | C0 => 0 | CWriteH => 1 | CBuf => 2 | CBufCreate => 3 | CAcqE => 4 | CAcqF => 5 | CLoad => 6
  | CCopy _ => 7 | CRelF => 8 | CRelE => 9 | CDone => 10 | CFail => 11
  end.

Definition dec_comp (s : sx) : ast :=
  mkAst (dec_file dec_line (sNth 0 s)) (dec_file sZs (sNth 1 s)) (sZ (sNth 2 s))
        (if sZ (sNth 3 s) =? 0 then C0 else CDone) (map dec_call (sL (sNth 4 s))).
Definition enc_comp (s : ast) : sx :=
  SL [enc_file enc_line (out s); enc_file ofZs (buf s); SZ (enc_cpc (ctor s));
      SL (map (fun t => enc_pc (cp t)) (calls s))].

Definition dec_event (s : sx) : event :=
  let k := Z.to_nat (sZ (sNth 1 s)) in
  let tag := sZ (sNth 0 s) in
  if tag =? 0 then EvCall k (Z.to_nat (sZ (sNth 2 s)))
  else if tag =? 1 then EvCtor k
  else if tag =? 2 then EvCrash k (sZ (sNth 2 s)) (map dec_call (sL (sNth 3 s)))
  else if tag =? 3 then EvFinish k (sZ (sNth 2 s)) (map dec_call (sL (sNth 3 s)))
  else EvCrashAll (map (fun x => (sZ (sNth 0 x), map dec_call (sL (sNth 1 x)))) (sL (sNth 1 s))).

Definition run_sched (x : sx) : sx :=
  let ms := map dec_comp (sL (sNth 0 x)) in
  let es := map dec_event (sL (sNth 1 x)) in
  SL (map (fun m => SL (map enc_comp m)) (run_events ms es)).

Definition run_oracle1 (x : sx) : sx :=
  let k := sZ (sNth 0 x) in
  if k =? 0 then ofB (wf_outb (dec_file dec_line (sNth 1 x)))
  else if k =? 1 then ofB (call_phaseb (sZ (sNth 1 x)) (dec_file dec_line (sNth 2 x)) (dec_file sZs (sNth 3 x)))
  else if k =? 2 then ofB (monob (dec_file dec_line (sNth 1 x)) (dec_file dec_line (sNth 2 x)))
  else if k =? 3 then ofB (finalb (sZ (sNth 1 x)) (map dec_row (sL (sNth 2 x))) (map dec_row (sL (sNth 3 x)))
                                  (dec_file dec_line (sNth 4 x)))
  else SZ (-1).
Definition run_oracle (x : sx) : sx := SL (map run_oracle1 (sL x)).

Definition run_c16 (sub : Z) (x : sx) : sx :=
  if sub =? 1 then run_sched x
  else if sub =? 2 then run_oracle x
  else if sub =? 3 then ofZs (buf_name (sZs x))
  else SL [SZ (-1)].
