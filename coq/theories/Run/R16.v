(* Engine entry points for C16: run_c16 sub-op case.  (stub until the property's model exists) *)
From Pan Require Import Base.Common Base.Sx.
Definition run_c16 (sub : Z) (x : sx) : sx := SL [SZ (-1)].
