(* Engine entry points for C13: run_c13 sub-op case.  (stub until the property's model exists) *)
From Pan Require Import Base.Common Base.Sx.
Definition run_c13 (sub : Z) (x : sx) : sx := SL [SZ (-1)].
