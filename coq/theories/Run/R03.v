(* Engine entry points for C03: run_c03 sub-op case.  (stub until the property's model exists) *)
From Pan Require Import Base.Common Base.Sx.
Definition run_c03 (sub : Z) (x : sx) : sx := SL [SZ (-1)].
