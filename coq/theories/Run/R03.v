(* Engine entry points for C03 / C14: matching. *)
From Pan Require Import Base.Common Base.Sx Model.MetricTable Model.Metrics Model.Matcher Run.Codec.

(* scores travel as reduced fractions: structural equality is the harness' identity on doubles *)
Definition dec_cand (s : sx) : qcand := (sQ (sNth 0 s), (sZ (sNth 1 s), sZ (sNth 2 s))).
Definition enc_cand (c : qcand) : sx := SL [ofQ (fst c); SZ (cref c); SZ (cpred c)].
Definition dec_arr2 (s : sx) : arr2 := map sZZ (sL s).

(* sub 1: (decr m2o thr cands) -> model's matching *)
Definition run_naive (x : sx) : sx :=
  ofRes (fun M => SL (map enc_cand M))
    (naive_match (sB (sNth 0 x)) (sB (sNth 1 x)) (sQ (sNth 2 x)) (map dec_cand (sL (sNth 3 x)))).
(* sub 2: (decr m2o thr cands matching) -> check_valid *)
Definition run_check_valid (x : sx) : sx :=
  let decr := sB (sNth 0 x) in let thr := sQ (sNth 2 x) in
  ofB (check_valid (fun s => beats decr s thr) (better_eq decr) Qeq_struct (sB (sNth 1 x))
         (map dec_cand (sL (sNth 3 x))) (map dec_cand (sL (sNth 4 x)))).
(* sub 3: (metric arr2) -> candidates with scores, in the code's pre-sort order *)
Definition run_candidates (x : sx) : sx :=
  SL (map enc_cand (candidates (metric_of_Z (sZ (sNth 0 x))) (dec_arr2 (sNth 1 x)))).

Definition run_c03 (sub : Z) (x : sx) : sx :=
  if sub =? 1 then run_naive x else if sub =? 2 then run_check_valid x
  else if sub =? 3 then run_candidates x else SL [SZ (-1)].
