(* Engine entry points for C08 / C13 / C02: the result object. *)
From Pan Require Import Base.Common Base.Sx Model.MetricTable Model.EdgeCase Model.Result Run.Codec.

(* sub 1: (np nr tp lists handler) -> result *)
Definition run_result (x : sx) : sx :=
  ofRes enc_result (panoptica_result
    {| r_np := sZ (sNth 0 x); r_nr := sZ (sNth 1 x); r_tp := sZ (sNth 2 x);
       r_lists := dec_lists (sNth 3 x); r_handler := dec_handler (sNth 4 x) |}).

(* sub 2: (handler metric pe re mval) -> global_bin value *)
Definition run_global (x : sx) : sx :=
  ofRes ofF (global_bin (dec_handler (sNth 0 x)) (metric_of_Z (sZ (sNth 1 x)))
                        (sB (sNth 2 x)) (sB (sNth 3 x)) (sRes sF (sNth 4 x))).

Definition run_c08 (sub : Z) (x : sx) : sx :=
  if sub =? 1 then run_result x else if sub =? 2 then run_global x else SL [SZ (-1)].
