(* Engine entry points for C08: run_c08 sub-op case.  (stub until the property's model exists) *)
From Pan Require Import Base.Common Base.Sx.
Definition run_c08 (sub : Z) (x : sx) : sx := SL [SZ (-1)].
