(* Engine entry points for C09: run_c09 sub-op case.  (stub until the property's model exists) *)
From Pan Require Import Base.Common Base.Sx.
Definition run_c09 (sub : Z) (x : sx) : sx := SL [SZ (-1)].
