(* Engine entry points for C02: run_c02 sub-op case.  (stub until the property's model exists) *)
From Pan Require Import Base.Common Base.Sx.
Definition run_c02 (sub : Z) (x : sx) : sx := SL [SZ (-1)].
