(* Engine entry points for C04: run_c04 sub-op case.  (stub until the property's model exists) *)
From Pan Require Import Base.Common Base.Sx.
Definition run_c04 (sub : Z) (x : sx) : sx := SL [SZ (-1)].
