(* Engine entry point for C04: relabelling. *)
From Pan Require Import Base.Common Base.Sx Model.Metrics Model.Relabel Run.Codec.
(* sub 1: (M arr2) -> new prediction labels per voxel *)
Definition run_relabel (x : sx) : sx :=
  SL (map (fun v => SZ (snd v)) (map_instance_labels (map sZZ (sL (sNth 0 x))) (map sZZ (sL (sNth 1 x))))).
Definition run_c04 (sub : Z) (x : sx) : sx := if sub =? 1 then run_relabel x else SL [SZ (-1)].
