(* Extraction: ExtrOcamlBasic only (bool, option, unit, list, prod, sumbool, sumor mapped to the
   OCaml types; andb/orb inlined).  Z stays Coq's binary Z. *)
From Coq Require Import ExtrOcamlBasic.
From Pan Require Import Base.Sx Run.Dispatch.
Extraction Language OCaml.
Extraction "pan.ml" dispatch sx_eqb.
