(* Engine entry points for C05: decode an S-expression case, run the model / the checker, encode.
   sub-op 1: (b m)          -> (lab n)                 the model's labelling      (b: 0 cc3d, 1 scipy)
   sub-op 2: (b m lab n)    -> (holds (wf coords count range used partition))   holds_C05 + diagnosis bits
   sub-op 3: (ndim v)       -> (backend width)         default_backend, smallest_fitting_uint
   sub-op 4: (bk ndim p r)  -> (0 (lp np) (lr nr) width) | (1 code)   approximate_instances; bk = () | (b)
   a sparse map is ((coords label) ...), coords = (z y x) *)
From Pan Require Import Base.Common Base.Sx Model.CCA.

Definition dec_backend (s : sx) : backend := if sZ s =? 0 then Cc3d else Scipy.
Definition enc_backend (b : backend) : sx := SZ (match b with Cc3d => 0 | Scipy => 1 end).
Definition dec_smap (s : sx) : smap := map (fun e => (sZs (sNth 0 e), sZ (sNth 1 e))) (sL s).
Definition enc_smap (m : smap) : sx := SL (map (fun p => SL [ofZs (fst p); SZ (snd p)]) m).

Definition run_cca (s : sx) : sx :=
  let (lab, n) := cca (dec_backend (sNth 0 s)) (dec_smap (sNth 1 s)) in SL [enc_smap lab; SZ n].

Definition run_holds (s : sx) : sx :=
  let b := dec_backend (sNth 0 s) in
  let m := dec_smap (sNth 1 s) in
  let lab := dec_smap (sNth 2 s) in
  let n := sZ (sNth 3 s) in
  let (lab0, n0) := cca b m in
  SL [ofB (holds_C05 b m lab n);
      SL [ofB (wf_b m); ofB (same_coords m lab); ofB (n =? n0); ofB (labels_in_range lab n);
          ofB (if n =? n0 then labels_all_used lab n else false);
          ofB (same_partition (map snd lab0) (map snd lab))]].

Definition run_rules (s : sx) : sx :=
  SL [enc_backend (default_backend (sZ (sNth 0 s))); SZ (smallest_fitting_uint (sZ (sNth 1 s)))].

Definition run_approx (s : sx) : sx :=
  let bk := match sNth 0 s with SL [b] => Some (dec_backend b) | _ => None end in
  match approx_instances bk (sZ (sNth 1 s)) (dec_smap (sNth 2 s)) (dec_smap (sNth 3 s)) with
  | Ok (p, r, w) => SL [SZ 0; SL [enc_smap (fst p); SZ (snd p)]; SL [enc_smap (fst r); SZ (snd r)]; SZ w]
  | Err c => SL [SZ 1; SZ c]
  end.

Definition run_c05 (sub : Z) (x : sx) : sx :=
  if sub =? 1 then run_cca x
  else if sub =? 2 then run_holds x
  else if sub =? 3 then run_rules x
  else if sub =? 4 then run_approx x
  else SL [SZ (-1)].
