(* Engine entry points for C05: run_c05 sub-op case.  (stub until the property's model exists) *)
From Pan Require Import Base.Common Base.Sx.
Definition run_c05 (sub : Z) (x : sx) : sx := SL [SZ (-1)].
