(* Engine entry points for C06: decode an S-expression case, run the model, encode the result. *)
From Pan Require Import Base.Common Base.Sx Base.Rnd64 Model.Metrics.

Definition ofRes {A} (f : A -> sx) (r : res A) : sx :=
  match r with Ok a => SL [SZ 0; f a] | Err c => SL [SZ 1; SZ c] end.

Definition dec_sel (s : sx) : option (Z * list Z) :=
  match s with SL [SZ ri; pis] => Some (ri, sZs pis) | _ => None end.
Definition dec_arr2 (s : sx) : arr2 := map sZZ (sL s).
Definition dec_arr4 (s : sx) : arr4 :=
  map (fun v => ((sZ (sNth 0 v), sZ (sNth 1 v)), (sB (sNth 2 v), sB (sNth 3 v)))) (sL s).

(* case = (kind sel arr) ; kind 0 dice 1 iou 2 rvd 3 cldice *)
Definition run_metric (s : sx) : sx :=
  let kind := sZ (sNth 0 s) in
  let sel := dec_sel (sNth 1 s) in
  if kind =? 0 then ofRes ofQ (Ok (dice sel (dec_arr2 (sNth 2 s))))
  else if kind =? 1 then ofRes ofQ (Ok (iou sel (dec_arr2 (sNth 2 s))))
  else if kind =? 2 then ofRes ofQ (rvd sel (dec_arr2 (sNth 2 s)))
  else match cldice_exact (dec_arr4 (sNth 2 s)) with
       | Some q => ofRes ofQ (Ok q) | None => SL [SZ 1; SZ E_ZERODIV] end.

(* rnd itself, for validating Rnd64 against Python's division: case = (n d) *)
Definition run_rnd (s : sx) : sx := ofQ (rnd (sQ s)).

Definition run_c06 (sub : Z) (x : sx) : sx :=
  if sub =? 1 then run_metric x else SL [SZ (-1)].
