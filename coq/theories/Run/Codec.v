(* Shared decoders/encoders of the engine protocol. *)
From Pan Require Import Base.Common Base.Sx Model.MetricTable Model.EdgeCase Model.Result.

Definition ofRes {A} (f : A -> sx) (r : res A) : sx :=
  match r with Ok a => SL [SZ 0; f a] | Err c => SL [SZ 1; SZ c] end.
Definition sRes {A} (f : sx -> A) (s : sx) : res A :=
  match s with SL [SZ 0; a] => Ok (f a) | SL [SZ 1; SZ c] => Err c | _ => Err (-1) end.

Definition metric_of_Z (z : Z) : metric :=
  if z =? 0 then DSC else if z =? 1 then IOU else if z =? 2 then ASSD else if z =? 3 then clDSC else RVD.
Definition Z_of_metric (m : metric) : Z :=
  match m with DSC => 0 | IOU => 1 | ASSD => 2 | clDSC => 3 | RVD => 4 end.
Definition ecr_of_Z (z : Z) : ecr :=
  if z =? 0 then INF else if z =? 1 then NAN else if z =? 2 then ZERO else if z =? 3 then ONE else NONE.
Definition sMetricOpt (s : sx) : option metric := sOpt (fun x => metric_of_Z (sZ x)) s.
Definition sQOpt (s : sx) : option Q := sOpt sQ s.

Definition dec_mhandler (s : sx) : metric * mhandler :=
  (metric_of_Z (sZ (sNth 0 s)),
   mh4 (ecr_of_Z (sZ (sNth 1 s))) (ecr_of_Z (sZ (sNth 2 s))) (ecr_of_Z (sZ (sNth 3 s))) (ecr_of_Z (sZ (sNth 4 s)))).
Definition dec_handler (s : sx) : handler :=
  {| h_table := map dec_mhandler (sL (sNth 0 s)); h_std := ecr_of_Z (sZ (sNth 1 s)) |}.
Definition dec_lists (s : sx) : list (metric * list Q) :=
  map (fun e => (metric_of_Z (sZ (sNth 0 e)), map sQ (sL (sNth 1 e)))) (sL s).

Definition enc_mres (r : mres) : sx :=
  SL [SZ (Z_of_metric (m_metric r)); ofF (m_sq r); ofF (m_var r); ofOpt ofF (m_pq r); SL (map ofQ (m_all r))].
Definition enc_result (r : result) : sx :=
  SL [SZ (o_np r); SZ (o_nr r); SZ (o_tp r); SZ (o_fp r); SZ (o_fn r);
      ofOpt ofF (o_prec r); ofOpt ofF (o_rec r); ofF (o_rq r); SL (map enc_mres (o_metrics r))].
