(* Engine entry points for C07: run_c07 sub-op case.  (stub until the property's model exists) *)
From Pan Require Import Base.Common Base.Sx.
Definition run_c07 (sub : Z) (x : sx) : sx := SL [SZ (-1)].
