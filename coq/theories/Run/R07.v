(* Engine entry points for C07 (ASSD).
   701: (ndim X Y)      -> ((asd_sq X Y) (asd_sq Y X))      X = reference voxels, Y = prediction voxels
   702: (k ndim X Y)    -> (assd_lo assd_hi)                rational enclosure of the real ASSD
   703: (shape X Y)     -> dense variant with an explicit array shape (out-of-box = background)
   704: (ndim X)        -> border X
   Ill-formed input (a voxel whose length differs from ndim, ndim < 1) -> (-2). *)
From Pan Require Import Base.Common Base.Sx Model.Assd.

Definition dec_voxs (s : sx) : list vox := map sZs (sL s).
Definition wf_b (nd : Z) (A : list vox) : bool :=
  (1 <=? nd) && forallb (fun v => Z.of_nat (length v) =? nd) A.
Definition of2 (p : list Z * list Z) : sx := SL [ofZs (fst p); ofZs (snd p)].

Definition run_c07 (sub : Z) (x : sx) : sx :=
  if sub =? 1 then
    let nd := sZ (sNth 0 x) in let X := dec_voxs (sNth 1 x) in let Y := dec_voxs (sNth 2 x) in
    if wf_b nd X && wf_b nd Y then of2 (assd_sq X Y) else SL [SZ (-2)]
  else if sub =? 2 then
    let k := sZ (sNth 0 x) in
    let nd := sZ (sNth 1 x) in let X := dec_voxs (sNth 2 x) in let Y := dec_voxs (sNth 3 x) in
    if wf_b nd X && wf_b nd Y && (0 <=? k) then
      let ls := assd_sq X Y in SL [ofQ (assd_lo k ls); ofQ (assd_hi k ls)]
    else SL [SZ (-2)]
  else if sub =? 3 then
    let shape := sZs (sNth 0 x) in let X := dec_voxs (sNth 1 x) in let Y := dec_voxs (sNth 2 x) in
    let nd := Z.of_nat (length shape) in
    if wf_b nd X && wf_b nd Y then of2 (assd_sq_dense shape X Y) else SL [SZ (-2)]
  else if sub =? 4 then
    let nd := sZ (sNth 0 x) in let X := dec_voxs (sNth 1 x) in
    if wf_b nd X then SL (map ofZs (border X)) else SL [SZ (-2)]
  else SL [SZ (-1)].
