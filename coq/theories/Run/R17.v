(* Engine entry points for C17: the same scheduler and oracles as C16 (sessions, crashes and several
   components are events / components of the same executable model). *)
From Pan Require Import Base.Common Base.Sx Model.Aggregator Run.R16.
Definition run_c17 (sub : Z) (x : sx) : sx := run_c16 sub x.
