(* Engine entry points for C17: run_c17 sub-op case.  (stub until the property's model exists) *)
From Pan Require Import Base.Common Base.Sx.
Definition run_c17 (sub : Z) (x : sx) : sx := SL [SZ (-1)].
