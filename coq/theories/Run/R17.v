(* Engine entry points for C17: the same scheduler and oracles as C16 (sessions, crashes and several
   components are events / components of the same executable model);
   sub 4: a sequential history over live sessions (Model/AggHistory.v): (rows ops) -> states after every operation *)
From Pan Require Import Base.Common Base.Sx Model.Aggregator Model.AggHistory Run.R16.

Definition dec_qop (s : sx) : qop :=
  let tag := sZ (sNth 0 s) in
  if tag =? 0 then QNew else if tag =? 1 then QOk (sZs (sNth 1 s)) (sZ (sNth 2 s)) else QDie (sZs (sNth 1 s)).
Definition enc_qst (s : qst) : sx :=
  SL [SL (map (fun r : row => SL [ofZs (fst r); SZ (snd r)]) (qout s)); SL (map ofZs (qbuf s))].
Definition run_history (x : sx) : sx :=
  let R := map dec_row (sL (sNth 0 x)) in
  SL (map enc_qst (qtrace (qstart R) (map dec_qop (sL (sNth 1 x))))).

Definition run_c17 (sub : Z) (x : sx) : sx := if sub =? 4 then run_history x else run_c16 sub x.
