(* Engine entry points for C15: run_c15 sub-op case.  (stub until the property's model exists) *)
From Pan Require Import Base.Common Base.Sx.
Definition run_c15 (sub : Z) (x : sx) : sx := SL [SZ (-1)].
