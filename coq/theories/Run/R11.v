(* Engine entry points for C11: run_c11 sub-op case.  (stub until the property's model exists) *)
From Pan Require Import Base.Common Base.Sx.
Definition run_c11 (sub : Z) (x : sx) : sx := SL [SZ (-1)].
