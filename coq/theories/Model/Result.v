(* Executable model of PanopticaResult (panoptica_result.py) and Evaluation_List_Metric
   (metrics/metrics.py:339-377): what the result dictionary contains, given the instance counts,
   tp, the per-TP value lists and the edge case handler.  Means/variances/products are exact
   rationals (numpy's float summation order is not modelled: the harness compares within 2^-30). *)
From Pan Require Import Base.Common Base.Sx Base.Rnd64 Model.MetricTable Model.EdgeCase.

Definition sumQ (l : list Q) : Q := fold_right Qplus 0%Q l.
Definition lenQ (l : list Q) : Q := inject_Z (Z.of_nat (length l)).
Definition meanQ (l : list Q) : Q := (sumQ l / lenQ l)%Q.
Definition varQ (l : list Q) : Q :=                       (* population variance = np.std ** 2 *)
  let mu := meanQ l in (sumQ (map (fun x => (x - mu) * (x - mu)) l) / lenQ l)%Q.

(* Evaluation_List_Metric: AVG, and STD as its square (exact) or the configured special value *)
Record lsum := { l_all : list Q; l_avg : fval; l_var : fval }.
Definition list_metric (h : handler) (m : metric) (tp np nr : Z) (vals : list Q) : res lsum :=
  match handle_zero_tp h m tp np nr with
  | Err c => Err c
  | Ok (is_edge, v) =>
      Ok {| l_all := vals;
            l_avg := if is_edge then v
                     else match vals with [] => FNan | _ => FQ (meanQ vals) end;   (* np.average([]) = nan *)
            l_var := match vals with [] => ecr_value (h_std h) | _ => FQ (varQ vals) end |}
  end.

(* python float product sq * rq, on exact values; None operand raises TypeError -> metric absent *)
Definition fmul (a b : fval) : option fval :=
  match a, b with
  | FNone, _ | _, FNone => None
  | FNan, _ | _, FNan => Some FNan
  | FQ x, FQ y => Some (FQ (x * y))
  | FQ x, FInf | FInf, FQ x =>
      Some (if Qeq_bool x 0 then FNan else if Qle_bool 0 x then FInf else FNInf)
  | FQ x, FNInf | FNInf, FQ x =>
      Some (if Qeq_bool x 0 then FNan else if Qle_bool 0 x then FNInf else FInf)
  | FInf, FInf | FNInf, FNInf => Some FInf
  | FInf, FNInf | FNInf, FInf => Some FNInf
  end.

(* calculators of panoptica_result.py:549-649 *)
Definition calc_fp (np tp : Z) : Z := np - tp.
Definition calc_fn (nr tp : Z) : Z := nr - tp.
Definition rq_exact (tp fp fn : Z) : Q := (inject_Z tp / (inject_Z tp + (1 # 2) * inject_Z fp + (1 # 2) * inject_Z fn))%Q.
Definition calc_rq (np nr tp : Z) : fval :=
  if tp =? 0 then (if 0 <? np + nr then FQ 0 else FNan)
  else FQ (rnd (rq_exact tp (calc_fp np tp) (calc_fn nr tp))).
Definition calc_prec (np tp : Z) : option fval :=          (* tp / (tp + fp): ZeroDivisionError -> absent *)
  if tp + calc_fp np tp =? 0 then None else Some (FQ (rnd (qdiv tp (tp + calc_fp np tp)))).
Definition calc_rec (nr tp : Z) : option fval :=
  if tp + calc_fn nr tp =? 0 then None else Some (FQ (rnd (qdiv tp (tp + calc_fn nr tp)))).

Record rin := { r_np : Z; r_nr : Z; r_tp : Z; r_lists : list (metric * list Q); r_handler : handler }.

(* per evaluated metric: sq_m, sq_m_std (as variance), pq_m (absent for ASSD/RVD, which have no pq) *)
Record mres := { m_metric : metric; m_sq : fval; m_var : fval; m_pq : option fval; m_all : list Q }.
Definition has_pq (m : metric) : bool := match m with ASSD | RVD => false | _ => true end.

Record result := {
  o_np : Z; o_nr : Z; o_tp : Z; o_fp : Z; o_fn : Z;
  o_prec : option fval; o_rec : option fval; o_rq : fval;
  o_metrics : list mres }.

Fixpoint build_metrics (i : rin) (rq : fval) (ms : list metric) : res (list mres) :=
  match ms with
  | [] => Ok []
  | m :: t =>
      match lookup_m m (r_lists i) with
      | None => build_metrics i rq t                  (* not evaluated: sq_m could not be computed, absent *)
      | Some vals =>
          match list_metric (r_handler i) m (r_tp i) (r_np i) (r_nr i) vals with
          | Err c => Err c                              (* raised inside the constructor *)
          | Ok s =>
              match build_metrics i rq t with
              | Err c => Err c
              | Ok rest =>
                  Ok ({| m_metric := m; m_sq := l_avg s; m_var := l_var s;
                         m_pq := if has_pq m then fmul (l_avg s) rq else None;
                         m_all := l_all s |} :: rest)
              end
          end
      end
  end.

Definition panoptica_result (i : rin) : res result :=
  let rq := calc_rq (r_np i) (r_nr i) (r_tp i) in
  match build_metrics i rq all_metrics with
  | Err c => Err c
  | Ok ms =>
      Ok {| o_np := r_np i; o_nr := r_nr i; o_tp := r_tp i;
            o_fp := calc_fp (r_np i) (r_tp i); o_fn := calc_fn (r_nr i) (r_tp i);
            o_prec := calc_prec (r_np i) (r_tp i); o_rec := calc_rec (r_nr i) (r_tp i);
            o_rq := rq; o_metrics := ms |}
  end.

(* _calc_global_bin_metric (panoptica_result.py:287-328): [mval] is the metric applied to the two
   binarised arrays (C06/C07 models); pe/re say whether the prediction / reference foreground is empty *)
Definition global_bin (h : handler) (m : metric) (pe re : bool) (mval : res fval) : res fval :=
  if pe || re then
    match handle_zero_tp h m 0 (b2z (negb pe)) (b2z (negb re)) with
    | Err c => Err c
    | Ok (true, v) => Ok v
    | Ok (false, _) => mval
    end
  else mval.
