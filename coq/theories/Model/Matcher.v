(* Executable model of the threshold matcher (instance_matcher.py:180-222, utils/instancelabelmap.py,
   _functionals.py:13-78): candidate pairs, best-first stable ordering, greedy assignment.
   Definitions only; generic in the score type so that the proofs need only a total preorder. *)
From Pan Require Import Base.Common Base.Rnd64 Model.MetricTable Model.Metrics.

Section Generic.
  Variable score : Type.
  Definition cand := (score * (Z * Z))%type.          (* (score, (ref label, pred label)) as in the code *)
  Definition cref (c : cand) : Z := fst (snd c).
  Definition cpred (c : cand) : Z := snd (snd c).

  (* InstanceLabelMap.contains_or(pred, ref) against one entry / contains_pred *)
  Definition competingb (c d : cand) : bool := (cref c =? cref d) || (cpred c =? cpred d).
  Definition same_predb (c d : cand) : bool := cpred c =? cpred d.
  Definition conflictb (m2o : bool) (c d : cand) : bool := if m2o then same_predb c d else competingb c d.

  Variable beats : score -> bool.                      (* score_beats_threshold(score, threshold) *)

  (* the loop body as written (after the many-to-one repair): conflict test, threshold test,
     add_labelmap_entry which raises if the prediction is already mapped to another reference *)
  Definition add_entry (M : list cand) (c : cand) : res (list cand) :=
    if existsb (fun d => (cpred d =? cpred c) && negb (cref d =? cref c)) M then Err E_EXC
    else Ok (M ++ [c]).
  Definition step_res (m2o : bool) (M : list cand) (c : cand) : res (list cand) :=
    if (existsb (competingb c) M && negb m2o) || existsb (same_predb c) M then Ok M
    else if beats (fst c) then add_entry M c else Ok M.
  Fixpoint greedy_res (m2o : bool) (cs : list cand) (M : list cand) : res (list cand) :=
    match cs with
    | [] => Ok M
    | c :: t => match step_res m2o M c with Ok M' => greedy_res m2o t M' | Err e => Err e end
    end.

  (* the same loop without the (unreachable) error branch *)
  Definition step (m2o : bool) (M : list cand) (c : cand) : list cand :=
    if existsb (conflictb m2o c) M then M else if beats (fst c) then M ++ [c] else M.
  Definition greedy (m2o : bool) (cs : list cand) : list cand := fold_left (step m2o) cs [].

  (* stable best-first sort: sorted(key=score, reverse=not decreasing) *)
  Variable geb : score -> score -> bool.               (* first at least as good as second *)
  Fixpoint ins (c : cand) (l : list cand) : list cand :=
    match l with
    | [] => [c]
    | d :: t => if geb (fst c) (fst d) then c :: l else d :: ins c t
    end.
  Definition sort_cands (l : list cand) : list cand := fold_right ins [] l.

  (* decidable check of the relational specification (what the harness applies to the
     implementation's matching): P1 conflict-free, P2 sound, P3 maximal, P4 best-first *)
  Variable score_eqb : score -> score -> bool.
  Definition cand_eqb (c d : cand) : bool :=
    score_eqb (fst c) (fst d) && (cref c =? cref d) && (cpred c =? cpred d).
  Definition memc (c : cand) (l : list cand) : bool := existsb (cand_eqb c) l.
  Definition check_P1 (m2o : bool) (M : list cand) : bool :=
    forallb (fun c => forallb (fun d => implb (conflictb m2o c d) (cand_eqb c d)) M) M.
  Definition check_P2 (cs M : list cand) : bool :=
    forallb (fun c => memc c cs && beats (fst c)) M.
  Definition check_P4 (m2o : bool) (cs M : list cand) : bool :=
    forallb (fun c => implb (beats (fst c) && negb (memc c M))
                        (existsb (fun d => conflictb m2o c d && geb (fst d) (fst c)) M)) cs.
  Definition check_P3 (m2o : bool) (cs M : list cand) : bool :=
    forallb (fun c => implb (beats (fst c)) (existsb (conflictb m2o c) M)) cs.
  Definition check_valid (m2o : bool) (cs M : list cand) : bool :=
    check_P1 m2o M && check_P2 cs M && check_P3 m2o cs M && check_P4 m2o cs M.
End Generic.

Arguments cref {score} c. Arguments cpred {score} c.
Arguments competingb {score} c d. Arguments same_predb {score} c d. Arguments conflictb {score} m2o c d.
Arguments step {score} beats m2o M c. Arguments greedy {score} beats m2o cs.
Arguments step_res {score} beats m2o M c. Arguments greedy_res {score} beats m2o cs M.
Arguments add_entry {score} M c.
Arguments ins {score} geb c l. Arguments sort_cands {score} geb l.
Arguments check_valid {score} beats geb score_eqb m2o cs M.
Arguments check_P1 {score} score_eqb m2o M. Arguments check_P2 {score} beats score_eqb cs M.
Arguments check_P3 {score} beats m2o cs M. Arguments check_P4 {score} beats geb score_eqb m2o cs M.
Arguments cand_eqb {score} score_eqb c d. Arguments memc {score} score_eqb c l.

(* ---------- instantiation at IEEE doubles (exact rationals) with a direction flag ---------- *)
Definition better_eq (decr : bool) (a b : Q) : bool := if decr then Qle_bool a b else Qle_bool b a.
Definition qcand := cand Q.
(* structural equality of fractions (the harness sends reduced fractions) *)
Definition Qeq_struct (a b : Q) : bool := (Qnum a =? Qnum b) && Pos.eqb (Qden a) (Qden b).
Definition naive_match (decr m2o : bool) (thr : Q) (cs : list qcand) : res (list qcand) :=
  greedy_res (fun s => beats decr s thr) m2o (sort_cands (better_eq decr) cs) [].

(* ---------- candidates from the voxels (_functionals.py:13-40) ---------- *)
(* joint voxel list: (reference label, prediction label) per voxel, as in Model.Metrics.arr2 *)
Definition pair_ltb (a b : Z * Z) : bool :=           (* order of the integer pair code: by pred, then ref *)
  (snd a <? snd b) || ((snd a =? snd b) && (fst a <? fst b)).
Definition pair_eqb (a b : Z * Z) : bool := (fst a =? fst b) && (snd a =? snd b).
Fixpoint ins_pair (x : Z * Z) (l : list (Z * Z)) : list (Z * Z) :=
  match l with
  | [] => [x]
  | y :: t => if pair_eqb x y then l else if pair_ltb x y then x :: l else y :: ins_pair x t
  end.
(* np.unique of the codes of voxels where both labels are non-zero; each pair is (ref, pred) *)
Definition overlap_pairs (a : arr2) : list (Z * Z) :=
  fold_right ins_pair [] (filter (fun v => nz (fst v) && nz (snd v)) a).

Definition score_overlap (m : metric) (a : arr2) (rp : Z * Z) : Q :=
  match m with
  | DSC => dice (Some (fst rp, [snd rp])) a
  | _ => iou (Some (fst rp, [snd rp])) a       (* IOU; ASSD needs geometry: Model.Pipeline supplies it *)
  end.
Definition candidates (m : metric) (a : arr2) : list qcand :=
  map (fun rp => (score_overlap m a rp, rp)) (overlap_pairs a).

(* ---------- the loop bodies as decision tables (tied to the source by Gen/MatcherLoop) ---------- *)
Inductive action := ASkip | AAdd | ANone.
(* cor = labelmap.contains_or(pred, ref), cp = labelmap.contains_pred(pred), beat = score meets threshold *)
Definition naive_action (m2o cor cp beat : bool) : action :=
  if (cor && negb m2o) || cp then ASkip else if beat then AAdd else ANone.
(* pred * (max_ref + 1) + ref, zero where the reference is background; decoded by mod / div *)
Definition pair_code (p r maxref : Z) : Z := if r =? 0 then 0 else p * (maxref + 1) + r.
Definition pair_decode (i maxref : Z) : Z * Z := (i mod (maxref + 1), i / (maxref + 1)).
