(* Executable model of MaximizeMergeMatching._match_instances (instance_matcher.py:259-316).
   The score of a reference against a list of prediction labels (their union) is a function
   [score_union]; the candidate score of (r, p) is score_union r [p] (same metric call). *)
From Pan Require Import Base.Common Model.Matcher.

Inductive maction := BSkip | BMerge | BSeed | BNone.
(* cp = contains_pred(pred), cr = contains_ref(ref), beat = candidate meets the threshold,
   nb = new score at least as good as the old one (direction-aware), ne = new score equals old *)
Definition merge_action (cp cr beat nb ne : bool) : maction :=
  if cp then BSkip else if cr then (if negb ne && nb then BMerge else BNone) else if beat then BSeed else BNone.

Section Merge.
  Variable score : Type.
  Variable geb : score -> score -> bool.
  Variable score_eqb : score -> score -> bool.
  Variable beats : score -> bool.
  Variable score_union : Z -> list Z -> score.

  (* labelmap as (pred, ref) entries in insertion order; score_ref as association list *)
  Record mstate := { ms_map : list (Z * Z); ms_score : list (Z * score) }.
  Definition has_pred (p : Z) (M : list (Z * Z)) : bool := existsb (fun e => fst e =? p) M.
  Definition has_ref (r : Z) (M : list (Z * Z)) : bool := existsb (fun e => snd e =? r) M.
  Definition preds_of (r : Z) (M : list (Z * Z)) : list Z := map fst (filter (fun e => snd e =? r) M).
  Fixpoint lookup_score (r : Z) (l : list (Z * score)) : option score :=
    match l with [] => None | (k, v) :: t => if k =? r then Some v else lookup_score r t end.
  Fixpoint update_score (r : Z) (s : score) (l : list (Z * score)) : list (Z * score) :=
    match l with [] => [] | (k, v) :: t => if k =? r then (k, s) :: t else (k, v) :: update_score r s t end.

  Definition merge_step (st : mstate) (c : cand score) : mstate :=
    let r := cref c in let p := cpred c in let M := ms_map st in
    match lookup_score r (ms_score st) with
    | Some old =>
        let new := score_union r (preds_of r M ++ [p]) in
        match merge_action (has_pred p M) (has_ref r M) (beats (fst c)) (geb new old) (score_eqb new old) with
        | BMerge => {| ms_map := M ++ [(p, r)]; ms_score := update_score r new (ms_score st) |}
        | BSeed => {| ms_map := M ++ [(p, r)]; ms_score := ms_score st ++ [(r, fst c)] |}
        | _ => st
        end
    | None =>
        (* no score recorded: contains_ref is false (invariant); the merge branch would raise KeyError *)
        match merge_action (has_pred p M) false (beats (fst c)) false false with
        | BSeed => {| ms_map := M ++ [(p, r)]; ms_score := ms_score st ++ [(r, fst c)] |}
        | _ => st
        end
    end.
  Definition merge_match (cs : list (cand score)) : mstate :=
    fold_left merge_step (sort_cands geb cs) {| ms_map := []; ms_score := [] |}.
End Merge.
Arguments ms_map {score} m. Arguments ms_score {score} m.
Arguments merge_step {score} geb score_eqb beats score_union st c.
Arguments merge_match {score} geb score_eqb beats score_union cs.
Arguments lookup_score {score} r l.
