(* Executable model of map_instance_labels (instance_matcher.py:91-136) and _map_labels
   (_functionals.py:81-101, after the widening repair: no wrap-around at any dtype). *)
From Pan Require Import Base.Common Model.Metrics.

Definition lmap := list (Z * Z).                       (* (old prediction label, new label), first match wins *)
Fixpoint lookupZ (p : Z) (l : lmap) : option Z :=
  match l with [] => None | (k, v) :: t => if k =? p then Some v else lookupZ p t end.
Definition has_key (p : Z) (l : lmap) : bool := match lookupZ p l with Some _ => true | None => false end.

(* missed predictions receive max(ref)+1, max(ref)+2, ... in the order of pred_labels *)
Fixpoint assign_fresh (next : Z) (ps : list Z) (M : lmap) : lmap :=
  match ps with
  | [] => []
  | p :: t => if has_key p M then assign_fresh next t M else (p, next) :: assign_fresh (next + 1) t M
  end.
Definition full_map (M : lmap) (pred_labels : list Z) (maxref : Z) : lmap :=
  M ++ assign_fresh (maxref + 1) pred_labels M.

(* the lookup table starts as the identity (np.arange) and only the keys are overwritten *)
Definition new_label (lm : lmap) (x : Z) : Z := match lookupZ x lm with Some y => y | None => x end.
Definition relabel (lm : lmap) (a : arr2) : arr2 := map (fun v => (fst v, new_label lm (snd v))) a.

Definition pred_labels_of (a : arr2) : list Z := uniqueZ (filter nz (map snd a)).
Definition ref_labels_of (a : arr2) : list Z := uniqueZ (filter nz (map fst a)).
(* match_instances: relabel the prediction with the matching M = (pred, ref) entries *)
Definition map_instance_labels (M : lmap) (a : arr2) : arr2 :=
  relabel (full_map M (pred_labels_of a) (maxZ (ref_labels_of a))) a.
