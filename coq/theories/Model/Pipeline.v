(* Executable model of the evaluation pipeline for instance input (panoptica_evaluator.py:231-375,
   instance_evaluator.py, instance_matcher.py): zero-instance early exit -> matching -> relabelling ->
   per-instance metrics with decision threshold -> result object.
   Arrays are geometry-free voxel lists (reference label, prediction label); whole-pair and
   per-instance crops do not appear (they only translate coordinates; their harmlessness is
   validated by correspondence and, for ASSD, proved in the Assd proofs).  Metric values that need
   geometry (ASSD, clDice) are supplied per label (pair) by [ext]: the harness takes them from the
   geometry model / the implementation. *)
From Pan Require Import Base.Common Base.Sx Base.Rnd64 Model.MetricTable Model.Metrics Model.EdgeCase
  Model.Result Model.ZeroCase Model.Matcher Model.Merge Model.Relabel.

Record ext := {
  x_inst : metric -> Z -> Q;                 (* ASSD / clDSC of matched label l (reference l vs prediction l) *)
  x_pair : Z * Z -> Q;                       (* ASSD of candidate pair (ref, pred) when it is the matching metric *)
  x_union : Z -> list Z -> Q }.              (* matching metric of reference r against the union of prediction labels *)

(* ---- third phase: evaluate_matched_instance ---- *)
Definition matched_labels (a : arr2) : list Z :=
  filter (fun p => memZ p (ref_labels_of a)) (pred_labels_of a).
Definition instance_value (x : ext) (a : arr2) (l : Z) (m : metric) : res Q :=
  match m with
  | DSC => Ok (dice (Some (l, [l])) a)
  | IOU => Ok (iou (Some (l, [l])) a)
  | RVD => rvd (Some (l, [l])) a
  | ASSD => Ok (x_inst x ASSD l)
  | clDSC => Ok (x_inst x clDSC l)
  end.
Fixpoint instance_dict (x : ext) (a : arr2) (l : Z) (ems : list metric) : res (list (metric * Q)) :=
  match ems with
  | [] => Ok []
  | m :: t => match instance_value x a l m with
              | Err c => Err c
              | Ok v => match instance_dict x a l t with Err c => Err c | Ok r => Ok ((m, v) :: r) end
              end
  end.
Fixpoint lookup_mq (m : metric) (d : list (metric * Q)) : Q :=
  match d with [] => 0%Q | (k, v) :: t => if metric_eqb k m then v else lookup_mq m t end.
Fixpoint all_dicts (x : ext) (a : arr2) (ls : list Z) (ems : list metric) : res (list (list (metric * Q))) :=
  match ls with
  | [] => Ok []
  | l :: t => match instance_dict x a l ems with
              | Err c => Err c
              | Ok d => match all_dicts x a t ems with Err c => Err c | Ok r => Ok (d :: r) end
              end
  end.
Definition dedup_metrics (ems : list metric) : list metric :=
  filter (fun m => existsb (metric_eqb m) ems) all_metrics.     (* dict keys: one list per distinct metric *)

Definition evaluate_matched (x : ext) (ems : list metric) (dmo : option metric) (thr : option Q) (a : arr2)
  : res (Z * list (metric * list Q)) :=
  let ok_cfg := match dmo with
                | None => true
                | Some dm => existsb (metric_eqb dm) ems && match thr with Some _ => true | None => false end
                end in
  if negb ok_cfg then Err E_ASSERT else
  match all_dicts x a (matched_labels a) ems with
  | Err c => Err c
  | Ok dicts =>
      let kept := filter (fun d => passes_decision dmo thr (fun m => lookup_mq m d)) dicts in
      Ok (Z.of_nat (length kept),
          map (fun m => (m, map (lookup_mq m) kept)) (dedup_metrics ems))
  end.

Definition n_pred_inst (a : arr2) : Z := Z.of_nat (length (pred_labels_of a)).
Definition n_ref_inst (a : arr2) : Z := Z.of_nat (length (ref_labels_of a)).

Record cfg := {
  c_matcher : Z;                (* 0 = matched input (no matching), 1 = naive, 2 = naive many-to-one, 3 = merge *)
  c_mmetric : metric; c_mthr : Q;
  c_ems : list metric; c_dm : option metric; c_dthr : option Q;
  c_handler : handler }.

Definition eval_phase (x : ext) (c : cfg) (a : arr2) : res result :=
  match zero_case (n_pred_inst a) (n_ref_inst a) with
  | Some (nr, np) =>
      panoptica_result {| r_np := np; r_nr := nr; r_tp := 0;
                          r_lists := map (fun m => (m, [])) (dedup_metrics (c_ems c)); r_handler := c_handler c |}
  | None =>
      match evaluate_matched x (c_ems c) (c_dm c) (c_dthr c) a with
      | Err e => Err e
      | Ok (tp, lists) =>
          panoptica_result {| r_np := n_pred_inst a; r_nr := n_ref_inst a; r_tp := tp;
                              r_lists := lists; r_handler := c_handler c |}
      end
  end.

(* ---- second phase: matching ---- *)
Definition cand_list (x : ext) (m : metric) (a : arr2) : list qcand :=
  match m with
  | ASSD => map (fun rp => (x_pair x rp, rp)) (overlap_pairs a)
  | _ => candidates m a
  end.
Definition match_phase (x : ext) (c : cfg) (a : arr2) : res arr2 :=
  let decr := decreasing (c_mmetric c) in
  let cs := cand_list x (c_mmetric c) a in
  if c_matcher c =? 3 then
    let st := merge_match (better_eq decr) Qeq_bool (fun s => beats decr s (c_mthr c)) (x_union x) cs in
    Ok (map_instance_labels (ms_map st) a)
  else
    match naive_match decr (c_matcher c =? 2) (c_mthr c) cs with
    | Err e => Err e
    | Ok M => Ok (map_instance_labels (map (fun d => (cpred d, cref d)) M) a)
    end.

Definition pipeline (x : ext) (c : cfg) (a : arr2) : res result :=
  if c_matcher c =? 0 then eval_phase x c a
  else match zero_case (n_pred_inst a) (n_ref_inst a) with
       | Some (nr, np) =>
           panoptica_result {| r_np := np; r_nr := nr; r_tp := 0;
                               r_lists := map (fun m => (m, [])) (dedup_metrics (c_ems c)); r_handler := c_handler c |}
       | None => match match_phase x c a with Err e => Err e | Ok a' => eval_phase x c a' end
       end.
