(* _handle_zero_instances_cases (panoptica_evaluator.py:378-430): the early exit to a result with
   tp = 0 and empty lists when either side has no instance; returns (num_ref, num_pred) of that result. *)
From Pan Require Import Base.Common Model.MetricTable.
Definition zero_case (np nr : Z) : option (Z * Z) :=
  if (np =? 0) || (nr =? 0) then Some (nr, np) else None.

(* instance_evaluator.py:54-62: does a matched instance count as a true positive (and enter the lists)? *)
Definition passes_decision (dmo : option metric) (thr : option Q) (score : metric -> Q) : bool :=
  match dmo with
  | None => true
  | Some dm => match thr with None => false | Some t => metric_beats dm (score dm) t end
  end.
