(* Executable model of panoptica/metrics/assd.py (average symmetric surface distance).

   A binary mask is the list of its foreground voxels (np.argwhere, C order); a voxel is its list of
   integer coordinates (length = ndim).  The model is shape-free: scipy's binary_erosion is called with
   border_value = 0, so a neighbour outside the array counts as background, and whether a voxel is a
   border voxel depends on the voxel SET only.

   assd.py                                             here
   ---------------------------------------------------------------------------------------------
   generate_binary_structure(ndim, 1)                  face_neighbours (2*ndim voxels at distance 1)
   m ^ binary_erosion(m, footprint, iterations=1)      border m
   _distance_transform_edt(~border_ref)[p]             sqrt of nearest_sq p (border ref)
   __surface_distances(reference, prediction)          asd_sq prediction reference   (squared)
        = dt[result_border]: one value per border voxel of `prediction`, C order
   _average_symmetric_surface_distance(reference X, prediction Y)
        = mean( mean sqrt (asd_sq X Y), mean sqrt (asd_sq Y X) )        assd_sq X Y (the two lists)

   Which list is which (assd.py:39-54): the FIRST element of the tuple handed to np.mean is
   _average_surface_distance(reference=prediction, prediction=reference), i.e. the distances of the
   border voxels of the REFERENCE X to the border of the prediction Y  = asd_sq X Y ; the second is
   asd_sq Y X (border voxels of the prediction to the reference border).

   Values are kept as exact squared distances (integers); the real number is Model/AssdR.v, and
   assd_lo/assd_hi below give a sound rational enclosure of it.  No proofs in this file. *)
From Coq Require Import ZArith List QArith Bool.
Import ListNotations.
Open Scope Z_scope.

Definition vox := list Z.

Fixpoint vox_eqb (a b : vox) : bool :=
  match a, b with
  | [], [] => true
  | x :: a', y :: b' => (x =? y) && vox_eqb a' b'
  | _, _ => false
  end.

Definition mem_vox (v : vox) (A : list vox) : bool := existsb (vox_eqb v) A.

(* the 2*ndim voxels that differ from v by +-1 in exactly one coordinate *)
Fixpoint face_neighbours (v : vox) : list vox :=
  match v with
  | [] => []
  | x :: t => ((x - 1) :: t) :: ((x + 1) :: t) :: map (cons x) (face_neighbours t)
  end.

(* v has a face neighbour that is not foreground (background or outside the array) *)
Definition is_border (A : list vox) (v : vox) : bool :=
  existsb (fun n => negb (mem_vox n A)) (face_neighbours v).

Definition border (A : list vox) : list vox := filter (is_border A) A.

(* squared Euclidean distance (voxelspacing = None) *)
Fixpoint sqdist (a b : vox) : Z :=
  match a, b with
  | x :: a', y :: b' => (x - y) * (x - y) + sqdist a' b'
  | _, _ => 0
  end.

Fixpoint nearest_sq (p : vox) (B : list vox) : option Z :=
  match B with
  | [] => None
  | b :: t => match nearest_sq p t with
              | None => Some (sqdist p b)
              | Some m => Some (Z.min (sqdist p b) m)
              end
  end.

(* one value per border voxel of A, in A's order: squared distance to the nearest border voxel of B.
   (If B has no border voxel -- B = [] -- there is no distance and the list is empty; panoptica never
   calls the metric on an empty mask.) *)
Definition asd_sq (A B : list vox) : list Z :=
  let bB := border B in
  flat_map (fun p => match nearest_sq p bB with Some d => [d] | None => [] end) (border A).

(* X = reference, Y = prediction; see the header for the order *)
Definition assd_sq (X Y : list vox) : list Z * list Z := (asd_sq X Y, asd_sq Y X).

(* ---- dense variant: the array has a shape, neighbours outside the box count as background ---- *)
Fixpoint in_box (shape : list Z) (v : vox) : bool :=
  match shape, v with
  | [], [] => true
  | s :: shape', x :: v' => (0 <=? x) && (x <? s) && in_box shape' v'
  | _, _ => false
  end.

Definition is_border_dense (shape : list Z) (A : list vox) (v : vox) : bool :=
  existsb (fun n => negb (in_box shape n && mem_vox n A)) (face_neighbours v).

Definition border_dense (shape : list Z) (A : list vox) : list vox :=
  filter (is_border_dense shape A) A.

Definition asd_sq_dense (shape : list Z) (A B : list vox) : list Z :=
  let bB := border_dense shape B in
  flat_map (fun p => match nearest_sq p bB with Some d => [d] | None => [] end) (border_dense shape A).

Definition assd_sq_dense (shape : list Z) (X Y : list vox) : list Z * list Z :=
  (asd_sq_dense shape X Y, asd_sq_dense shape Y X).

(* ---- grid maps used by the invariance theorems and by the per-instance crop ---- *)
(* translation by t (coordinates beyond the length of t are left alone) *)
Fixpoint vadd (t : vox) (v : vox) : vox :=
  match v, t with
  | x :: v', d :: t' => (x + d) :: vadd t' v'
  | _, _ => v
  end.
(* negate coordinate i (numpy flip along axis i of an array of extent n is this followed by +n-1) *)
Fixpoint vflip (i : nat) (v : vox) : vox :=
  match v, i with
  | [], _ => []
  | x :: v', O => (- x) :: v'
  | x :: v', S j => x :: vflip j v'
  end.
(* numpy.transpose(axes = pi): new coordinate k is old coordinate pi[k] *)
Definition vperm (pi : list nat) (v : vox) : vox := map (fun i => nth i v 0) pi.

(* ---- rational enclosure of (mean sqrt l1 + mean sqrt l2) / 2 ----
   sqrt d = sqrt (d * 4^k) / 2^k  and  Z.sqrt n <= sqrt n <= Z.sqrt n + 1 (no +1 for perfect squares) *)
Definition isqrt_lo (k d : Z) : Z := Z.sqrt (d * 4 ^ k).
Definition isqrt_hi (k d : Z) : Z :=
  let n := d * 4 ^ k in let s := Z.sqrt n in if s * s =? n then s else s + 1.
Definition sum_lo (k : Z) (l : list Z) : Z := fold_right (fun d acc => isqrt_lo k d + acc) 0 l.
Definition sum_hi (k : Z) (l : list Z) : Z := fold_right (fun d acc => isqrt_hi k d + acc) 0 l.
Definition mean_q (k s : Z) (l : list Z) : Q :=
  (inject_Z s / inject_Z (2 ^ k * Z.of_nat (length l)))%Q.
Definition assd_lo (k : Z) (ls : list Z * list Z) : Q :=
  ((mean_q k (sum_lo k (fst ls)) (fst ls) + mean_q k (sum_lo k (snd ls)) (snd ls)) / inject_Z 2)%Q.
Definition assd_hi (k : Z) (ls : list Z * list Z) : Q :=
  ((mean_q k (sum_hi k (fst ls)) (fst ls) + mean_q k (sum_hi k (snd ls)) (snd ls)) / inject_Z 2)%Q.
