(* The metric enumeration, its direction flags and the direction-aware threshold test
   (metrics/metrics.py:111-126, 147-161, 193-207). *)
From Pan Require Import Base.Common.

Inductive metric := DSC | IOU | ASSD | clDSC | RVD.
Definition all_metrics : list metric := [DSC; IOU; ASSD; clDSC; RVD].   (* enum definition order *)
Definition metric_eqb (a b : metric) : bool :=
  match a, b with DSC, DSC | IOU, IOU | ASSD, ASSD | clDSC, clDSC | RVD, RVD => true | _, _ => false end.
Definition decreasing (m : metric) : bool :=
  match m with ASSD | RVD => true | _ => false end.
(* score meets threshold, equality included, in the metric's preferred direction *)
Definition beats (decr : bool) (s t : Q) : bool := if decr then Qle_bool s t else Qle_bool t s.
Definition metric_beats (m : metric) (s t : Q) : bool := beats (decreasing m) s t.
(* code points of the function each member is bound to *)
Definition metric_function_name (m : metric) : list Z :=
  match m with
  | DSC => [95;99;111;109;112;117;116;101;95;105;110;115;116;97;110;99;101;95;118;111;108;117;109;101;116;114;105;99;95;100;105;99;101]
  | IOU => [95;99;111;109;112;117;116;101;95;105;110;115;116;97;110;99;101;95;105;111;117]
  | ASSD => [95;99;111;109;112;117;116;101;95;105;110;115;116;97;110;99;101;95;97;118;101;114;97;103;101;95;115;121;109;109;101;116;114;105;99;95;115;117;114;102;97;99;101;95;100;105;115;116;97;110;99;101]
  | clDSC => [95;99;111;109;112;117;116;101;95;99;101;110;116;101;114;108;105;110;101;95;100;105;99;101]
  | RVD => [95;99;111;109;112;117;116;101;95;105;110;115;116;97;110;99;101;95;114;101;108;97;116;105;118;101;95;118;111;108;117;109;101;95;100;105;102;102;101;114;101;110;99;101]
  end.
