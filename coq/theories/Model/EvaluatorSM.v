(* The evaluator as a state machine (C15): what a Panoptica_Evaluator remembers between calls and
   what each operation returns (panoptica_evaluator.py:111-228, panoptica_aggregator.py:58-64).
   The only mutable state is the lazily cached list of metric keys, which the evaluator hands out BY
   REFERENCE; [copies] says whether the aggregator copies that list before appending to it (tied to the
   source by Gen/EvalSM).  Evaluation itself is the pure function [eval] (Model.Pipeline). *)
From Pan Require Import Base.Common.

Section SM.
  Variables (Cfg Input Res Yaml : Type).
  Variable eval : Cfg -> Input -> Res.               (* group results of one evaluate call *)
  Variable keys_of : Cfg -> list Z.                  (* keys of to_dict() on the dummy input *)
  Variable save : Cfg -> Yaml.
  Variable TIME_KEY : Z.

  Record opts := { o_result_all : bool; o_save_group_times : option bool; o_log_times : option bool; o_verbose : option bool }.
  Record estate := { e_cfg : Cfg; e_ctor_sgt : bool; e_cache : option (list Z) }.

  Inductive op :=
  | Evaluate (x : Input) (o : opts)
  | MetricKeys
  | NewAggregator (log_times : bool)
  | NewEvaluator                                     (* constructing another evaluator / handler / matcher *)
  | SaveConfig.
  Inductive out :=
  | OResult (r : Res) (time_reported : bool)
  | OKeys (k : list Z)
  | OAgg (k : list Z)
  | ONone
  | OConfig (y : Yaml)
  | OErr (code : Z).

  (* _evaluate_group: start_time is taken under [start], used under [stop] *)
  Definition timing (start stop : bool) : res bool := if stop && negb start then Err E_UNBOUND else Ok stop.
  Variable start_cond stop_cond : bool -> bool -> bool.   (* functions of (constructor flag, effective per-call flag) *)
  Definition effective (ctor : bool) (call : option bool) : bool := match call with Some b => b | None => ctor end.

  Variable copies : bool.

  Definition fill (s : estate) : list Z := match e_cache s with Some k => k | None => keys_of (e_cfg s) end.
  Definition step (s : estate) (o : op) : estate * out :=
    match o with
    | Evaluate x ops =>
        let eff := effective (e_ctor_sgt s) (o_save_group_times ops) in
        match timing (start_cond (e_ctor_sgt s) eff) (stop_cond (e_ctor_sgt s) eff) with
        | Err c => (s, OErr c)
        | Ok t => (s, OResult (eval (e_cfg s) x) t)
        end
    | MetricKeys => ({| e_cfg := e_cfg s; e_ctor_sgt := e_ctor_sgt s; e_cache := Some (fill s) |}, OKeys (fill s))
    | NewAggregator lt =>
        let k := fill s in
        let k' := if lt then k ++ [TIME_KEY] else k in
        ({| e_cfg := e_cfg s; e_ctor_sgt := e_ctor_sgt s; e_cache := Some (if copies then k else k') |}, OAgg k')
    | NewEvaluator => (s, ONone)
    | SaveConfig => (s, OConfig (save (e_cfg s)))
    end.

  Fixpoint run (s : estate) (ops : list op) : list out :=
    match ops with [] => [] | o :: t => let (s', r) := step s o in r :: run s' t end.
  Fixpoint final (s : estate) (ops : list op) : estate :=
    match ops with [] => s | o :: t => final (fst (step s o)) t end.
End SM.
