(* Semantic input: instance approximation (Model/CCA) composed with the instance pipeline (Model/Pipeline).
   The two labelled sparse maps are joined into the geometry-free voxel list of (reference label, prediction label)
   pairs; voxels that are background in both maps are omitted (they do not influence the pipeline: Props/C10). *)
From Pan Require Import Base.Common Base.Sx Base.Rnd64 Model.MetricTable Model.Metrics Model.EdgeCase Model.Result Model.Pipeline Model.CCA.
Open Scope Z_scope.

Fixpoint slookup (v : cvox) (m : smap) : Z :=
  match m with [] => 0 | (w, l) :: t => if cvox_eqb v w then l else slookup v t end.

Definition join (lr lp : smap) : arr2 :=
  map (fun e => (snd e, slookup (fst e) lp)) lr ++
  map (fun e => (0, snd e)) (filter (fun e => slookup (fst e) lr =? 0) lp).

Definition semantic_pipeline (bk : option backend) (ndim : Z) (x : ext) (c : cfg) (pred ref : smap) : res result :=
  match approx_instances bk ndim pred ref with
  | Err e => Err e
  | Ok ((lp, _), (lr, _), _) => pipeline x c (join lr lp)
  end.
