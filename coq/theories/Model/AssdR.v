(* Real-valued interpretation of the two squared-distance lists of Model/Assd.v:
      ASSD = ( mean (sqrt d) over the first list  +  mean (sqrt d) over the second list ) / 2
   exactly the expression of assd.py:39-55 (np.mean of the two `sds.mean()`), over Coq's Reals.
   Used only for the laws of Props/C07.v; the executable counterpart is Assd.assd_lo / assd_hi. *)
From Coq Require Import Reals ZArith List.
Import ListNotations.
Open Scope R_scope.

Definition sum_sqrt (l : list Z) : R := fold_right (fun d acc => sqrt (IZR d) + acc) 0 l.
Definition mean_sqrt (l : list Z) : R := sum_sqrt l / INR (length l).
Definition assd_R (ls : list Z * list Z) : R := (mean_sqrt (fst ls) + mean_sqrt (snd ls)) / 2.
