(* Executable model of panoptica/metrics/{metrics,dice,iou,relative_volume_difference,cldice}.py.
   Arrays are flattened: one (reference value, prediction value) pair per voxel; the overlap
   metrics do not look at geometry.  Results are IEEE doubles represented as exact rationals. *)
From Pan Require Import Base.Common Base.Rnd64.

Definition arr2 := list (Z * Z).               (* (ref value, pred value) per voxel *)

(* _Metric.__call__ : label selection happens only when BOTH indices are given (metrics.py:71-78) *)
Definition select (ri : Z) (pis : list Z) (a : arr2) : arr2 :=
  map (fun v => (b2z (fst v =? ri), b2z (memZ (snd v) pis))) a.
Definition metric_input (sel : option (Z * list Z)) (a : arr2) : arr2 :=
  match sel with Some (ri, pis) => select ri pis a | None => a end.

Definition nz (x : Z) : bool := negb (x =? 0).
Definition n_inter (a : arr2) : Z := cntZ (fun v => nz (fst v) && nz (snd v)) a.
Definition n_union (a : arr2) : Z := cntZ (fun v => nz (fst v) || nz (snd v)) a.
Definition sum_ref (a : arr2) : Z := sumZ (map fst a).
Definition sum_pred (a : arr2) : Z := sumZ (map snd a).

(* The formulas as exact rational functions of the four counts sr = sum(ref), sp = sum(pred),
   ni = #(ref and pred), nu = #(ref or pred); the code performs exactly one IEEE division, so the
   returned double is rnd of these. *)
(* dice.py:42-72 *)
Definition dice_exact (sr sp ni : Z) : Q :=
  if (sr =? 0) && (sp =? 0) then 0%Q else qdiv (2 * ni) (sr + sp).
(* iou.py:32-58 *)
Definition iou_exact (ni nu : Z) : Q := if nu =? 0 then 0%Q else qdiv ni nu.
(* relative_volume_difference.py:42-69 : python floats, so ref = 0 /\ pred <> 0 raises *)
Definition rvd_exact (sr sp : Z) : res Q :=
  if (sr =? 0) && (sp =? 0) then Ok 0%Q
  else if sr =? 0 then Err E_ZERODIV
  else Ok (qdiv (sp - sr) sr).

Definition dice_raw (a : arr2) : Q := rnd (dice_exact (sum_ref a) (sum_pred a) (n_inter a)).
Definition iou_raw (a : arr2) : Q := rnd (iou_exact (n_inter a) (n_union a)).
Definition rvd_raw (a : arr2) : res Q :=
  match rvd_exact (sum_ref a) (sum_pred a) with Ok q => Ok (rnd q) | Err c => Err c end.

Definition dice (sel : option (Z * list Z)) (a : arr2) : Q := dice_raw (metric_input sel a).
Definition iou (sel : option (Z * list Z)) (a : arr2) : Q := iou_raw (metric_input sel a).
Definition rvd (sel : option (Z * list Z)) (a : arr2) : res Q := rvd_raw (metric_input sel a).

(* cldice.py : the skeleton is supplied per mask by the caller (skimage is an oracle).
   A voxel is (ref value, pred value, in skeleton of ref, in skeleton of pred). *)
Definition arr4 := list ((Z * Z) * (bool * bool)).
Definition cl_score_num (vol : (Z * Z) * (bool * bool) -> Z) (sk : (Z * Z) * (bool * bool) -> bool)
  (a : arr4) : Z := sumZ (map (fun v => vol v * b2z (sk v)) a).
Definition cl_score_den (sk : (Z * Z) * (bool * bool) -> bool) (a : arr4) : Z := cntZ sk a.
(* tprec = sum(pred * skel(ref)) / sum(skel(ref)); tsens = sum(ref * skel(pred)) / sum(skel(pred)) *)
Definition cldice_exact (a : arr4) : option Q :=
  let pn := cl_score_num (fun v => snd (fst v)) (fun v => fst (snd v)) a in
  let pd := cl_score_den (fun v => fst (snd v)) a in
  let sn := cl_score_num (fun v => fst (fst v)) (fun v => snd (snd v)) a in
  let sd := cl_score_den (fun v => snd (snd v)) a in
  if (pd =? 0) || (sd =? 0) then None
  else let tp := qdiv pn pd in let ts := qdiv sn sd in
       if Qeq_bool (tp + ts) 0 then None else Some (2 * tp * ts / (tp + ts))%Q.
