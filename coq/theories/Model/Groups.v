(* Executable model of class groups: utils/label_group.py:58-98,119-148 (label extraction,
   binarisation), utils/segmentation_class.py:66-93 (undefined-label check),
   panoptica_evaluator.py:111-156, 182-228 (per-group evaluation, single-instance shortcut). *)
From Pan Require Import Base.Common Model.Metrics.

Inductive gkind := GPlain | GMerge | GSingle.
Record group := { g_name : list Z; g_kind : gkind; g_labels : list Z }.

(* array[np.isin(array, value_labels, invert=True)] = 0 ; merge groups: array[array != 0] = 1 *)
Definition extract (ls : list Z) (binar : bool) (x : Z) : Z :=
  if memZ x ls then (if binar then (if x =? 0 then 0 else 1) else x) else 0.
Definition is_merge (k : gkind) : bool := match k with GMerge => true | _ => false end.
Definition extract_arr (g : group) (a : arr2) : arr2 :=
  map (fun v => (extract (g_labels g) (is_merge (g_kind g)) (fst v), extract (g_labels g) (is_merge (g_kind g)) (snd v))) a.

(* has_defined_labels_for(prediction) and (reference), raise_error=True *)
Definition all_labels (gs : list group) : list Z := flat_map g_labels gs.
Definition labels_defined (gs : list group) (a : arr2) : bool :=
  forallb (fun v => ((fst v =? 0) || memZ (fst v) (all_labels gs)) && ((snd v =? 0) || memZ (snd v) (all_labels gs))) a.

Section Eval.
  Variable R : Type.
  (* the ungrouped evaluation of a pair of arrays under the group's mode:
     [as_single = true]: as matched input, one instance, decision threshold forced to 0.0 *)
  Variable run : bool -> arr2 -> R.
  (* single_instance_mode and not isinstance(processing_pair, MatchedInstancePair) *)
  Definition use_single (k : gkind) (input_is_matched : bool) : bool :=
    match k with GSingle => negb input_is_matched | _ => false end.
  Definition evaluate_groups (input_is_matched : bool) (gs : list group) (a : arr2) : res (list (list Z * R)) :=
    if labels_defined gs a
    then Ok (map (fun g => (g_name g, run (use_single (g_kind g) input_is_matched) (extract_arr g a))) gs)
    else Err E_ASSERT.
End Eval.
