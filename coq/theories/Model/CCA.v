(* Executable model of instance approximation by connected-component analysis
   (panoptica/instance_approximator.py, _functionals.py:_connected_components,
   utils/numpy_utils.py:_get_smallest_fitting_uint).  Total Gallina functions, no proofs inside.

   A semantic map is sparse: `list (cvox * Z)` = the non-zero voxels in C (row-major) order with
   their labels, distinct coordinates.  `cvox` is a local copy of Model/Assd.v's `vox` so that this
   file depends on Base/Common.v only.

   The two C libraries are MODELLED by their documented behaviour, not verified:
     cc3d.connected_components(array, return_N=True)  -- default connectivity 26 (8 in 2-D, 2 in 1-D),
                                                         multi-label: only equal values are joined
     scipy.ndimage.label(array)                       -- default structure = face neighbours (4/6),
                                                         every non-zero value is foreground *)
From Pan Require Import Base.Common.
Open Scope Z_scope.

Definition cvox := list Z.
Fixpoint cvox_eqb (a b : cvox) : bool :=
  match a, b with
  | [], [] => true
  | x :: a', y :: b' => (x =? y) && cvox_eqb a' b'
  | _, _ => false
  end.

Definition smap := list (cvox * Z).

Inductive backend := Cc3d | Scipy.
Definition backend_eqb (a b : backend) : bool :=
  match a, b with Cc3d, Cc3d | Scipy, Scipy => true | _, _ => false end.

(* instance_approximator.py:149-154: CCABackend.cc3d if n_dim >= 3 else CCABackend.scipy *)
Definition default_backend (ndim : Z) : backend := if 3 <=? ndim then Cc3d else Scipy.

(* which library call serves a backend (_functionals.py:128-136): name, positional args, keywords *)
Definition str := list Z.
Definition backend_call (b : backend) : str * list str * list (str * str) :=
  match b with
  | Cc3d => (* "cc3d.connected_components" ["array"] [("return_N","True")] *)
      ([99; 99; 51; 100; 46; 99; 111; 110; 110; 101; 99; 116; 101; 100; 95; 99; 111; 109; 112; 111; 110; 101; 110; 116; 115],
       [[97; 114; 114; 97; 121]], [([114; 101; 116; 117; 114; 110; 95; 78], [84; 114; 117; 101])])
  | Scipy => (* "scipy.ndimage.label" ["array"] [] *)
      ([115; 99; 105; 112; 121; 46; 110; 100; 105; 109; 97; 103; 101; 46; 108; 97; 98; 101; 108],
       [[97; 114; 114; 97; 121]], [])
  end.

(* same number of axes and every coordinate differs by at most 1 *)
Fixpoint cheb_le1 (a b : cvox) : bool :=
  match a, b with
  | [], [] => true
  | x :: a', y :: b' => (Z.abs (x - y) <=? 1) && cheb_le1 a' b'
  | _, _ => false
  end.
(* Manhattan distance, None when the numbers of axes differ *)
Fixpoint manh (a b : cvox) : option Z :=
  match a, b with
  | [], [] => Some 0
  | x :: a', y :: b' => match manh a' b' with Some d => Some (Z.abs (x - y) + d) | None => None end
  | _, _ => None
  end.

(* cc3d: Chebyshev distance exactly 1 (8/26-neighbourhood) AND equal semantic label;
   scipy: Manhattan distance exactly 1 (4/6-neighbourhood), labels irrelevant (all listed voxels are non-zero) *)
Definition adjacent (b : backend) (v w : cvox * Z) : bool :=
  match b with
  | Cc3d => cheb_le1 (fst v) (fst w) && negb (cvox_eqb (fst v) (fst w)) && (snd v =? snd w)
  | Scipy => match manh (fst v) (fst w) with Some d => d =? 1 | None => false end
  end.

(* ---- component labelling.  Voxels are added one at a time (structurally, from the tail of the list);
   the new voxel gets a fresh label and every class that contains one of its neighbours is merged
   into it.  `raw_labels` is aligned with `m`; labels are arbitrary distinct positive numbers. *)
Fixpoint nbr_labels (b : backend) (v : cvox * Z) (m : smap) (ls : list Z) : list Z :=
  match m, ls with
  | w :: m', l :: ls' => if adjacent b v w then l :: nbr_labels b v m' ls' else nbr_labels b v m' ls'
  | _, _ => []
  end.
Definition merge_into (f : Z) (nl : list Z) (l : Z) : Z := if memZ l nl then f else l.
Fixpoint raw_labels (b : backend) (m : smap) : list Z :=
  match m with
  | [] => []
  | v :: m' =>
      let ls := raw_labels b m' in
      let f := Z.of_nat (length m') + 1 in
      f :: map (merge_into f (nbr_labels b v m' ls)) ls
  end.

(* distinct elements in order of first occurrence; position of an element *)
Fixpoint firsts (l : list Z) : list Z :=
  match l with [] => [] | x :: t => x :: filter (fun y => negb (y =? x)) (firsts t) end.
Fixpoint index_of (x : Z) (l : list Z) : nat :=
  match l with [] => O | y :: t => if x =? y then O else S (index_of x t) end.
Definition renumber (fs : list Z) (l : Z) : Z := Z.of_nat (S (index_of l fs)).

(* the labelling of the same voxels (same order) with 1..n, components numbered by first occurrence; n *)
Definition cca (b : backend) (m : smap) : smap * Z :=
  let r := raw_labels b m in
  let fs := firsts r in
  (combine (map fst m) (map (renumber fs) r), Z.of_nat (length fs)).

(* ---- decidable well-formedness of a sparse map: distinct coordinates, no zero label *)
Definition mem_cvox (c : cvox) (l : list cvox) : bool := existsb (cvox_eqb c) l.
Fixpoint nodup_cvox (l : list cvox) : bool :=
  match l with [] => true | c :: t => negb (mem_cvox c t) && nodup_cvox t end.
Definition wf_b (m : smap) : bool :=
  nodup_cvox (map fst m) && forallb (fun p => negb (snd p =? 0)) m.

(* ---- decidable certificate check: `lab` with count `n` is a valid component labelling of `m`
   iff it labels the same voxels, uses exactly 1..n, and induces the same partition as the model's
   labelling (Proofs/CCACheck.v: check_cca b m lab n = true <-> is_cca b m lab n for well-formed m). *)
Fixpoint list_eqb {A} (e : A -> A -> bool) (a b : list A) : bool :=
  match a, b with
  | [], [] => true
  | x :: a', y :: b' => e x y && list_eqb e a' b'
  | _, _ => false
  end.
Fixpoint upto (n : nat) : list Z :=      (* [n; n-1; ...; 1] *)
  match n with O => [] | S k => Z.of_nat n :: upto k end.
Definition same_coords (m lab : smap) : bool := list_eqb cvox_eqb (map fst lab) (map fst m).
Definition labels_in_range (lab : smap) (n : Z) : bool :=
  forallb (fun p => (1 <=? snd p) && (snd p <=? n)) lab.
Definition labels_all_used (lab : smap) (n : Z) : bool :=
  forallb (fun k => memZ k (map snd lab)) (upto (Z.to_nat n)).
Definition same_partition (l0 l : list Z) : bool :=
  let ps := combine l0 l in
  forallb (fun p => forallb (fun q => Bool.eqb (fst p =? fst q) (snd p =? snd q)) ps) ps.

Definition check_cca (b : backend) (m lab : smap) (n : Z) : bool :=
  if same_coords m lab then
    let (lab0, n0) := cca b m in
    if n =? n0 then
      labels_in_range lab n && labels_all_used lab n && same_partition (map snd lab0) (map snd lab)
    else false
  else false.

(* what the harness applies to the implementation's output *)
Definition holds_C05 (b : backend) (m lab : smap) (n : Z) : bool :=
  if wf_b m then check_cca b m lab n else false.

(* ---- dtype selection, utils/numpy_utils.py:40-62.  NOTE the third threshold is 4294967295 (= 2^32 - 1),
   not 2^32: the value 2^32 - 1 itself is sent to uint64.  Modelled as written. *)
Definition smallest_fitting_uint (max_value : Z) : Z :=
  if max_value <? 256 then 8
  else if max_value <? 65536 then 16
  else if max_value <? 4294967295 then 32
  else 64.

(* ---- approximate_instances (instance_approximator.py:66-101, 137-178) on a SemanticPair:
   negative labels -> AssertionError; backend None -> default by dimensionality; CCA of both maps;
   the reported instance counts; the output dtype = smallest uint fitting the larger count. *)
(* the assertion `min_value >= 0` on the smallest label; a map fails it iff one of its labels does *)
Definition negative_ok (min_value : Z) : bool := 0 <=? min_value.
Definition has_negative (m : smap) : bool := existsb (fun p => negb (negative_ok (snd p))) m.
Definition pick_backend (bk : option backend) (ndim : Z) : backend :=
  match bk with Some b => b | None => default_backend ndim end.
Definition approx_instances (bk : option backend) (ndim : Z) (pred ref : smap)
  : res ((smap * Z) * (smap * Z) * Z) :=
  if has_negative pred || has_negative ref then Err E_ASSERT
  else
    let b := pick_backend bk ndim in
    let p := cca b pred in
    let r := cca b ref in
    Ok (p, r, smallest_fitting_uint (Z.max (snd p) (snd r))).
