(* Executable model of SegmentationClassGroups.__init__ (utils/segmentation_class.py:28-62), dict form:
     for i, g in groups.items(): self.__group_dictionary[str(i).lower()] = g          (a later key that folds to the same name
                                                                                        replaces the value, the position stays)
     self.__labels = [l for lg in self.__group_dictionary.values() for l in lg.value_labels]   (of the groups KEPT)
   and of what has_defined_labels_for answers.  Names are ASCII strings (as in Model.Config); the list form names its groups
   group_0, group_1, ... which never collide. *)
From Pan Require Import Base.Common Model.Config.
Open Scope Z_scope.

(* d[k] = g on an insertion-ordered dictionary *)
Fixpoint dset (d : list (str * lgroup)) (k : str) (g : lgroup) : list (str * lgroup) :=
  match d with
  | [] => [(k, g)]
  | (k', g') :: t => if str_eqb k k' then (k', g) :: t else (k', g') :: dset t k g
  end.
(* d.get(k) *)
Fixpoint dget (k : str) (d : list (str * lgroup)) : option lgroup :=
  match d with [] => None | (k', g) :: t => if str_eqb k k' then Some g else dget k t end.
Definition ctor_dict (entries : list (str * lgroup)) : list (str * lgroup) :=
  fold_left (fun d e => dset d (lower (fst e)) (snd e)) entries [].
Definition dict_labels (d : list (str * lgroup)) : list Z := flat_map (fun ng => g_labels (snd ng)) d.
(* the labels the constructed object answers for *)
Definition ctor_labels (entries : list (str * lgroup)) : list Z := dict_labels (ctor_dict entries).
(* has_defined_labels_for(list of labels) *)
Definition defined_for (labels : list Z) (ls : list Z) : bool := forallb (fun x => memZ x labels) ls.
(* what _yaml_repr hands to the dumper and the loader hands back to the constructor: the dictionary itself *)
Definition reconstructed (entries : list (str * lgroup)) : list (str * lgroup) := ctor_dict (ctor_dict entries).
