(* Sequential histories over several LIVE aggregator sessions of one output file (C17: "histories of several
   aggregator sessions on the same ... output files").  No proofs in this file.

   In a sequential history every evaluate() call runs to its end (or is interrupted after its claim) before the
   next operation starts, so a call is one atomic operation here; the fine-grained interleavings and crash points
   are Model/Aggregator.v's job.  A session object carries no state of its own beyond the two file names (the
   AggOps unit re-extracts that evaluate() re-reads the buffer file on every call), hence the session through which
   an operation is submitted does not appear in the model: that is the content of the correspondence.
     qout : the rows of the output file after the header, in file order
     qbuf : the entries of the buffer file
     QNew      : another aggregator is constructed on the file (continuing, the default): the buffer is removed,
                 recreated and filled with the names of the recorded rows
     QOk n v   : evaluate(.., n) through any live session, evaluation returns the payload v
     QDie n    : the same, interrupted after the claim was written (no row)                                   *)
From Pan Require Import Base.Common Model.Aggregator.

Record qst := mkQ { qout : list row; qbuf : list name }.
Inductive qop := QNew | QOk (n : name) (v : Z) | QDie (n : name).

Definition qstep (s : qst) (o : qop) : qst :=
  match o with
  | QNew => mkQ (qout s) (names (qout s))
  | QOk n v => if memn n (qbuf s) then s else mkQ (qout s ++ [(n, v)]) (qbuf s ++ [n])
  | QDie n => if memn n (qbuf s) then s else mkQ (qout s) (qbuf s ++ [n])
  end.
Fixpoint qrun (s : qst) (ops : list qop) : qst := match ops with [] => s | o :: t => qrun (qstep s o) t end.
(* the first session constructed on an absent / empty / header-only file *)
Definition qinit : qst := mkQ [] [].
(* a session constructed on a file that already holds the rows R *)
Definition qstart (R : list row) : qst := mkQ R (names R).
(* every subject of [subs] submitted once, with the payload [val] assigns to it *)
Definition resubmit (val : name -> Z) (subs : list name) : list qop := map (fun n => QOk n (val n)) subs.
(* the operation mentions only subjects of [subs], with their payloads *)
Definition op_of (val : name -> Z) (subs : list name) (o : qop) : Prop :=
  match o with QNew => True | QOk n v => In n subs /\ v = val n | QDie n => In n subs end.
(* all states of a run, for the correspondence *)
Fixpoint qtrace (s : qst) (ops : list qop) : list qst :=
  match ops with [] => [] | o :: t => qstep s o :: qtrace (qstep s o) t end.
