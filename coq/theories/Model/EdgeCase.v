(* Executable model of panoptica/utils/edge_case_handling.py. *)
From Pan Require Import Base.Common Base.Sx Model.MetricTable.

Inductive ecr := INF | NAN | ZERO | ONE | NONE.                  (* EdgeCaseResult *)
Definition all_ecr : list ecr := [INF; NAN; ZERO; ONE; NONE].
Definition ecr_value (r : ecr) : fval :=                          (* EdgeCaseResult.__call__ *)
  match r with INF => FInf | NAN => FNan | ZERO => FQ 0 | ONE => FQ 1 | NONE => FNone end.

Inductive scenario := NO_INSTANCES | EMPTY_PRED | EMPTY_REF | NORMAL.   (* EdgeCaseZeroTP *)

Record mhandler := { e_noinst : ecr; e_emptypred : ecr; e_emptyref : ecr; e_normal : ecr }.
Definition entry (h : mhandler) (s : scenario) : ecr :=
  match s with NO_INSTANCES => e_noinst h | EMPTY_PRED => e_emptypred h
             | EMPTY_REF => e_emptyref h | NORMAL => e_normal h end.

Definition is_some {A} (o : option A) : bool := match o with Some _ => true | None => false end.
Definition dflt {A} (o d : option A) : option A := match o with Some _ => o | None => d end.

(* MetricZeroTPEdgeCaseHandling.__init__ : unspecified entries take default_result *)
Definition mk_mhandler (default noinst emptypred emptyref normal : option ecr) : res mhandler :=
  if is_some default || (is_some noinst && is_some emptypred && is_some emptyref && is_some normal)
  then match dflt noinst default, dflt emptypred default, dflt emptyref default, dflt normal default with
       | Some a, Some b, Some c, Some d =>
           Ok {| e_noinst := a; e_emptypred := b; e_emptyref := c; e_normal := d |}
       | _, _, _, _ => Err E_ASSERT
       end
  else Err E_ASSERT.

(* the scenario dispatch of MetricZeroTPEdgeCaseHandling.__call__ (lines 118-135), for tp = 0 *)
Definition classify (np nr : Z) : option scenario :=
  if np + nr =? 0 then Some NO_INSTANCES
  else if nr =? 0 then Some EMPTY_REF
  else if np =? 0 then Some EMPTY_PRED
  else if (0 <? np) && (0 <? nr) then Some NORMAL
  else None.

Definition mh_call (h : mhandler) (tp np nr : Z) : res (bool * fval) :=
  if negb (tp =? 0) then Ok (false, FNone)
  else match classify np nr with
       | Some s => Ok (true, ecr_value (entry h s))
       | None => Err E_NOTIMPL
       end.

Record handler := { h_table : list (metric * mhandler); h_std : ecr }.
Fixpoint lookup_m {A} (m : metric) (l : list (metric * A)) : option A :=
  match l with [] => None | (k, v) :: t => if metric_eqb k m then Some v else lookup_m m t end.

(* EdgeCaseHandler.handle_zero_tp *)
Definition handle_zero_tp (h : handler) (m : metric) (tp np nr : Z) : res (bool * fval) :=
  if negb (tp =? 0) then Ok (false, FNone)
  else match lookup_m m (h_table h) with
       | None => Err E_NOTIMPL
       | Some mh => mh_call mh tp np nr
       end.

(* the default table of EdgeCaseHandler.__init__ *)
Definition mh4 a b c d := {| e_noinst := a; e_emptypred := b; e_emptyref := c; e_normal := d |}.
Definition default_handler : handler :=
  {| h_table := [ (DSC, mh4 NAN ZERO ZERO ZERO); (clDSC, mh4 NAN ZERO ZERO ZERO);
                  (IOU, mh4 NAN ZERO ZERO ZERO); (ASSD, mh4 NAN INF INF INF);
                  (RVD, mh4 NAN NAN NAN NAN) ];
     h_std := NAN |}.
