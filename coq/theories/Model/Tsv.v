(* The aggregator's output table (panoptica_aggregator.py:61-64, 93-97, 181-204) and the statistics
   loader (panoptica_statistics.py:80-127).  Executable model, no proofs.
   A file is the list of its rows, a row the list of its cells, a cell a string (code points): the csv
   module's quoting is an abstract injective encoding below this level (assumed, validated by the harness).
   The text of a number is abstract too: `print` / `parse` are Section variables. *)
From Pan Require Import Base.Common Base.Sx Model.Stats.

Definition DASH : Z := 45.
Definition SUBJ : name := [115;117;98;106;101;99;116;95;110;97;109;101].                  (* "subject_name" *)
Definition CTIME : name := [99;111;109;112;117;116;97;116;105;111;110;95;116;105;109;101]. (* "computation_time" *)

(* ---------------------------------------------------------------- value classification *)
Inductive vclass := CFin | CNan | CPInf | CNInf | CNone.
Definition classify (v : fval) : vclass :=
  match v with FQ _ => CFin | FNan => CNan | FInf => CPInf | FNInf => CNInf | FNone => CNone end.
(* `value is not None and not np.isnan(value) and not np.isinf(value)` *)
Definition keep (c : vclass) : bool := match c with CFin => true | _ => false end.
Definition conv (v : fval) : option Q :=
  if keep (classify v) then match v with FQ q => Some q | _ => None end else None.

(* ---------------------------------------------------------------- str.split variants *)
Inductive split_kind := RSplit1 | Split1 | SplitAll.
(* position of the last separator: Some (before, after) *)
Fixpoint rsplit (sep : Z) (c : name) : option (name * name) :=
  match c with
  | [] => None
  | x :: t => match rsplit sep t with
              | Some (a, b) => Some (x :: a, b)
              | None => if x =? sep then Some ([], t) else None
              end
  end.
Fixpoint lsplit (sep : Z) (c : name) : option (name * name) :=
  match c with
  | [] => None
  | x :: t => if x =? sep then Some ([], t) else
              match lsplit sep t with Some (a, b) => Some (x :: a, b) | None => None end
  end.
Fixpoint split_all (sep : Z) (c : name) : list name :=
  match c with
  | [] => [[]]
  | x :: t => if x =? sep then [] :: split_all sep t else
              match split_all sep t with h :: r => (x :: h) :: r | [] => [[x]] end
  end.
Definition split_by (k : split_kind) (sep : Z) (c : name) : list name :=
  match k with
  | RSplit1 => match rsplit sep c with Some (a, b) => [a; b] | None => [c] end
  | Split1 => match lsplit sep c with Some (a, b) => [a; b] | None => [c] end
  | SplitAll => split_all sep c
  end.
(* the call the loader makes on a header cell: c.rsplit("-", 1) *)
Definition header_split : split_kind * Z := (RSplit1, DASH).
(* tuple(...) then k[0], k[1] and the later 2-unpacking *)
Definition to_key (parts : list name) : res (name * name) :=
  match parts with
  | [a; b] => Ok (a, b)
  | [] | [_] => Err E_INDEX
  | _ => Err E_VALUE
  end.
Definition split_cell (c : name) : res (name * name) :=
  to_key (split_by (fst header_split) (snd header_split) c).

(* generic "append if not yet present" (python: `if x not in l: l.append(x)`; dict insertion order) *)
Fixpoint nub_first {A} (key : A -> name) (seen : list name) (l : list A) : list A :=
  match l with
  | [] => []
  | x :: t => if memn (key x) seen then nub_first key seen t
              else x :: nub_first key (key x :: seen) t
  end.

(* SegmentationClassGroups given as a dict: keys are lower-cased (str.lower is abstract here) and
   stored in a dict -- a later group whose lower-cased name collides REPLACES the earlier one and
   keeps its position, so the evaluator and the file have one column block for both. *)
Definition class_group_names (lower : name -> name) (given : list name) : list name :=
  nub_first (fun x => x) [] (map lower given).

(* ---------------------------------------------------------------- writer *)
Definition rdict := list (name * fval).          (* result.to_dict() (+ computation_time) *)
Definition subject := (name * (name -> rdict))%type.   (* name, result_grouped[g] *)
Definition agg_keys (ev_keys : list name) (log_times : bool) : list name :=
  if log_times then ev_keys ++ [CTIME] else ev_keys.      (* on a copy of the evaluator's list *)
Definition join (g m : name) : name := g ++ DASH :: m.  (* f"{g}-{m}" *)
Definition pairs (groups keys : list name) : list (name * name) :=
  flat_map (fun g => map (pair g) keys) groups.           (* for g in groups for m in keys *)

Definition missing_cell : name := [].           (* the "" default of a key the result lacks *)

Section Layout.
  Variable print : fval -> name.                  (* str(value) as csv.writer emits it; None -> '' *)
  Variable parse : name -> option fval.           (* float(text); None = ValueError *)

  Definition header (groups keys : list name) : list name :=
    SUBJ :: map (fun p => join (fst p) (snd p)) (pairs groups keys).
  (* mvalue = result_dict[e] if e in result_dict else "" *)
  Definition cell_of (d : rdict) (k : name) : name :=
    match alookup k d with Some v => print v | None => missing_cell end.
  Definition row (groups keys : list name) (sr : subject) : list name :=
    fst sr :: map (fun p => cell_of (snd sr (fst p)) (snd p)) (pairs groups keys).
  (* evaluate() skips a subject name that is already in the buffer file; the header cell is not a name *)
  Definition recorded (subs : list subject) : list subject := nub_first fst [] subs.
  Definition write (groups keys : list name) (subs : list subject) : list (list name) :=
    header groups keys :: map (row groups keys) (recorded subs).

  (* ---------------------------------------------------------------- loader *)
  Definition cell_value (c : name) : res (option Q) :=
    match c with
    | [] => Ok None                                  (* len(value) > 0 is false *)
    | _ => match parse c with None => Err E_VALUE | Some v => Ok (conv v) end
    end.

  Definition has_key {B} (k : name) (d : list (name * B)) : bool :=
    existsb (fun p => name_eqb (fst p) k) d.
  (* d[k] = f(d[k]) on a dict with unique keys *)
  Definition upd {B} (k : name) (f : B -> B) (d : list (name * B)) : list (name * B) :=
    map (fun p => if name_eqb (fst p) k then (fst p, f (snd p)) else p) d.
  Definition ensure_group (mn : list name) (g : name) (vd : vdict) : vdict :=
    if has_key g vd then vd else vd ++ [(g, map (fun m => (m, [])) mn)].
  Definition put (mn : list name) (g m : name) (v : option Q) (vd : vdict) : vdict :=
    upd g (upd m (fun c => c ++ [v])) (ensure_group mn g vd).

  (* for idx, value in enumerate(r[1:]): group, metric = keys_in_order[idx]; ... *)
  Fixpoint row_cells (mn : list name) (kio : list (name * name)) (cells : list name) (vd : vdict)
    : res vdict :=
    match cells with
    | [] => Ok vd
    | c :: ct =>
        match kio with
        | [] => Err E_INDEX
        | (g, m) :: kt =>
            match cell_value c with
            | Err e => Err e
            | Ok v => row_cells mn kt ct (put mn g m v vd)
            end
        end
    end.
  Fixpoint rows_loop (mn : list name) (kio : list (name * name)) (rows : list (list name))
           (subs : list name) (vd : vdict) : res (list name * vdict) :=
    match rows with
    | [] => Ok (subs, vd)
    | [] :: _ => Err E_INDEX                         (* r[0] *)
    | (sn :: cells) :: rt =>
        match row_cells mn kio cells vd with
        | Err e => Err e
        | Ok vd' => rows_loop mn kio rt (subs ++ [sn]) vd'
        end
    end.

  Definition row_skip : nat := 1.      (* for r in rows[1:] *)
  Definition load (rows : list (list name)) : res stat :=
    match rows with
    | [] => Err E_INDEX                              (* rows[0] *)
    | [] :: _ => Err E_INDEX                         (* header[0] *)
    | (h0 :: hcells) :: _ =>
        if negb (name_eqb h0 SUBJ) then Err E_ASSERT else
        match mapR split_cell hcells with
        | Err e => Err e
        | Ok kio =>
            let mn := nub_first (fun x => x) [] (map snd kio) in
            match rows_loop mn kio (skipn row_skip rows) [] [] with
            | Err e => Err e
            | Ok (subs, vd) => mk_stat subs vd
            end
        end
    end.
End Layout.

(* side condition on the metric keys of the header: none contains '-', no key twice *)
Fixpoint nodupb (l : list name) : bool :=
  match l with [] => true | x :: t => negb (memn x t) && nodupb t end.
Definition keys_ok (keys : list name) : bool :=
  forallb (fun k => negb (existsb (Z.eqb DASH) k)) keys && nodupb keys.

(* what the loader is expected to hold after reading the file written for `subs` *)
Definition value_of (d : rdict) (m : name) : option Q :=
  match alookup m d with Some v => conv v | None => None end.
Definition table_of (subs : list subject) : rowtab :=
  map (fun sr => (fst sr, fun g m => value_of (snd sr g) m)) subs.

(* ---------------------------------------------------------------- reference cell codec (engine)
   The engine runs the model with this stand-in for str()/float(): a finite value q is the "text"
   [35; numerator; denominator]; the harness maps every real cell text t to this form through Python's
   own float(t), so the abstraction is exactly `parse`.  It satisfies the codec hypotheses
   (Proofs/TsvFacts.v: toy_codec_ok), which shows that they are satisfiable. *)
Definition toy_print (v : fval) : name :=
  match v with
  | FNone => []
  | FNan => [110; 97; 110]
  | FInf => [105; 110; 102]
  | FNInf => [45; 105; 110; 102]
  | FQ q => [35; Qnum q; Zpos (Qden q)]
  end.
Definition toy_parse (c : name) : option fval :=
  match c with
  | [35; n; d] => if 0 <? d then Some (FQ (Qmake n (Z.to_pos d))) else None
  | [110; 97; 110] => Some FNan
  | [105; 110; 102] => Some FInf
  | [45; 105; 110; 102] => Some FNInf
  | _ => None
  end.
