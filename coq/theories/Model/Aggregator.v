(* Executable model of panoptica_aggregator.py (C16, C17): a transition system over two files and
   program counters.  No proofs in this file.

   One "component" = one Panoptica_Aggregator object family on one output file:
     out  : the output .tsv   (None = absent, Some [] = empty, header line, row lines)
     buf  : its buffer file "panoptica_aggregator_tmp_<output name>" (claimed subject names)
     ctor : program counter of the constructor of the current session
     calls: evaluate() / make_statistic() calls with their program counters
   The two module-level locks are not separate state: a lock is held iff some program counter lies
   in the corresponding critical section.  [xE]/[xF] say whether a party outside the component
   (a sibling aggregator of the same process) holds the eval-lock / file-lock.
   "Stuck" (step = None) on a read of an absent file or a duplicate-carrying buffer models the
   exception python raises there; the progress theorems show these are unreachable.
   Assumption stated in the harness module: one buffered append of a short row is atomic. *)
From Pan Require Import Base.Common.

Definition name := list Z.
Fixpoint name_eqb (a b : name) : bool :=
  match a, b with
  | [], [] => true
  | x :: a', y :: b' => (x =? y) && name_eqb a' b'
  | _, _ => false
  end.
Definition memn (x : name) (l : list name) : bool := existsb (name_eqb x) l.
Fixpoint nodupb (l : list name) : bool :=
  match l with [] => true | x :: t => negb (memn x t) && nodupb t end.

Inductive line := LH (h : Z) | LR (n : name) (p : Z).
(* "subject_name" *)
Definition SUBJ : name := [115; 117; 98; 106; 101; 99; 116; 95; 110; 97; 109; 101].
Definition first_col (l : line) : name := match l with LH _ => SUBJ | LR n _ => n end.
Definition row := (name * Z)%type.
Definition lrow (r : row) : line := LR (fst r) (snd r).
Definition names (rs : list row) : list name := map fst rs.

Definition file (A : Type) := option (list A).
(* open(f, "a") ... write rows ... close: creates the file when absent *)
Definition fappend {A} (f : file A) (xs : list A) : file A :=
  Some (match f with Some l => l | None => [] end ++ xs).
(* _load_first_column_entries(file, skip_header) on lines *)
Definition load_ids (skip : bool) (l : list line) : list name :=
  map first_col (if skip then tl l else l).
Definition rows_of_lines (l : list line) : list row :=
  flat_map (fun x => match x with LR n p => [(n, p)] | LH _ => [] end) l.
Definition rows_of (o : file line) : list row :=
  match o with Some (_ :: l) => rows_of_lines l | _ => [] end.

(* ------------------------------------------------------------------ buffer file name *)
(* "panoptica_aggregator_tmp_" *)
Definition buf_prefix : list Z :=
  [112; 97; 110; 111; 112; 116; 105; 99; 97; 95; 97; 103; 103; 114; 101; 103; 97; 116; 111; 114; 95; 116; 109; 112; 95].
Definition buf_name (outname : list Z) : list Z := buf_prefix ++ outname.

(* ------------------------------------------------------------------ instruction vocabulary (T1) *)
Inductive lockid := LkE | LkF.          (* inevalfilelock, filelock *)
Inductive fileid := FOut | FBuf.
Inductive wkind := WHeader | WIds | WClaim | WRow.
Inductive cond := CAbsent (f : fileid) | CExists (f : fileid) | CFirstRowEmpty | CDupName | CContinue.
Inductive instr :=
| IWith (l : lockid) (body : list instr)
| IIf (c : cond) (th el : list instr)
| IReadFirstRow (f : fileid)
| ILoad (f : fileid) (skip_header : bool)
| IWrite (f : fileid) (w : wkind)
| IRemove (f : fileid)
| ITouch (f : fileid)
| IAssertHeader
| ISetContinue
| IEvaluate
| IStatRead (f : fileid)
| IReturn
| IAtexit.

Definition prog_ctor : list instr :=
  [ IIf (CAbsent FOut) [IWrite FOut WHeader]
        [IReadFirstRow FOut; IIf CFirstRowEmpty [IWrite FOut WHeader; ISetContinue] [IAssertHeader]];
    IIf (CExists FBuf) [IRemove FBuf] [];
    ITouch FBuf;
    IIf CContinue [IWith LkE [IWith LkF [ILoad FOut true; IWrite FBuf WIds]]] [];
    IAtexit ].
Definition prog_evaluate : list instr :=
  [ IWith LkE [ILoad FBuf false; IIf CDupName [IReturn] []; IWrite FBuf WClaim];
    IEvaluate;
    IWith LkF [IWrite FOut WRow] ].
Definition prog_stat : list instr := [ IWith LkF [IStatRead FOut] ].
Definition prog_atexit : list instr := [ IIf (CExists FBuf) [IRemove FBuf] [] ].

(* ------------------------------------------------------------------ calls *)
Inductive pc :=
| Start | HoldE | ReadE (dup : bool) | ClaimedE | Evaluating | WantF | HoldF | WroteF | Done (skipped : bool)
| RStart | RHold | RRead (snap : list line) | RDone (snap : list line).
Record call := mkCall { cn : name; ci : Z; cp : pc }.
Definition setpc (t : call) (p : pc) : call := mkCall (cn t) (ci t) p.
Definition mkEval (n : name) (i : Z) : call := mkCall n i Start.
Definition mkStat : call := mkCall [] 0 RStart.

Definition inE (t : call) : bool := match cp t with HoldE | ReadE _ | ClaimedE => true | _ => false end.
Definition inF (t : call) : bool := match cp t with HoldF | WroteF | RHold | RRead _ => true | _ => false end.
Definition owns (t : call) : bool := match cp t with ClaimedE | Evaluating | WantF | HoldF => true | _ => false end.
Definition wrote (t : call) : bool := match cp t with WroteF | Done false => true | _ => false end.
Definition finished (t : call) : bool := match cp t with Done _ | RDone _ => true | _ => false end.
Definition idle (t : call) : bool := match cp t with Start | RStart => true | _ => false end.
Definition is_eval (t : call) : bool :=
  match cp t with RStart | RHold | RRead _ | RDone _ => false | _ => true end.
Definition crow (t : call) : row := (cn t, ci t).

(* one step of call t; others = the other calls of the component *)
Definition lstep (xE xF : bool) (b : file name) (o : file line) (others : list call) (t : call)
  : option (file name * file line * call) :=
  match cp t with
  | Start => if xE || existsb inE others then None else Some (b, o, setpc t HoldE)
  | HoldE => match b with
             | Some l => if nodupb l then Some (b, o, setpc t (ReadE (memn (cn t) l))) else None
             | None => None
             end
  | ReadE true => Some (b, o, setpc t (Done true))
  | ReadE false => Some (fappend b [cn t], o, setpc t ClaimedE)
  | ClaimedE => Some (b, o, setpc t Evaluating)
  | Evaluating => Some (b, o, setpc t WantF)
  | WantF => if xF || existsb inF others then None else Some (b, o, setpc t HoldF)
  | HoldF => Some (b, fappend o [lrow (crow t)], setpc t WroteF)
  | WroteF => Some (b, o, setpc t (Done false))
  | Done _ => None
  | RStart => if xF || existsb inF others then None else Some (b, o, setpc t RHold)
  | RHold => match o with Some l => Some (b, o, setpc t (RRead l)) | None => None end
  | RRead s => Some (b, o, setpc t (RDone s))
  | RDone _ => None
  end.

(* instruction executed at a program counter, and the locks held while it executes *)
Definition pc_instr (p : pc) : option instr :=
  match p with
  | HoldE => Some (ILoad FBuf false)
  | ReadE true => Some IReturn
  | ReadE false => Some (IWrite FBuf WClaim)
  | Evaluating => Some IEvaluate
  | HoldF => Some (IWrite FOut WRow)
  | RHold => Some (IStatRead FOut)
  | _ => None
  end.
Definition pc_locks (p : pc) : list lockid :=
  let t := mkCall [] 0 p in (if inE t then [LkE] else []) ++ (if inF t then [LkF] else []).

(* ------------------------------------------------------------------ constructor *)
Inductive cpc :=
| C0 | CWriteH | CBuf | CBufCreate | CAcqE | CAcqF | CLoad | CCopy (ids : list name) | CRelF | CRelE | CDone | CFail.
Definition cinE (c : cpc) : bool := match c with CAcqF | CLoad | CCopy _ | CRelF | CRelE => true | _ => false end.
Definition cinF (c : cpc) : bool := match c with CLoad | CCopy _ | CRelF => true | _ => false end.
Definition cfinished (c : cpc) : bool := match c with CDone | CFail => true | _ => false end.

Definition line_eqb (a b : line) : bool :=
  match a, b with
  | LH x, LH y => x =? y
  | LR n p, LR m q => name_eqb n m && (p =? q)
  | _, _ => false
  end.

(* one step of the constructor (continue_file = True, the default); eE/eF: lock held by anyone else *)
Definition cstep (eE eF : bool) (h : Z) (o : file line) (b : file name) (c : cpc)
  : option (file line * file name * cpc) :=
  match c with
  | C0 => match o with
          | None => Some (Some [], b, CWriteH)                 (* open(...,"a") creates the file *)
          | Some [] => Some (o, b, CWriteH)                    (* first row empty: start with header *)
          | Some (l :: _) => if line_eqb l (LH h) then Some (o, b, CBuf) else Some (o, b, CFail)
          end
  | CWriteH => Some (fappend o [LH h], b, CBuf)
  | CBuf => match b with
            | Some _ => Some (o, None, CBufCreate)             (* os.remove(buffer) *)
            | None => Some (o, Some [], CAcqE)                 (* open(buffer,"a").close() *)
            end
  | CBufCreate => Some (o, fappend b [], CAcqE)
  | CAcqE => if eE then None else Some (o, b, CAcqF)
  | CAcqF => if eF then None else Some (o, b, CLoad)
  | CLoad => match o with
             | Some l => let ids := load_ids true l in
                         if nodupb ids then Some (o, b, CCopy ids) else Some (o, b, CFail)
             | None => None
             end
  | CCopy ids => Some (o, fappend b ids, CRelF)
  | CRelF => Some (o, b, CRelE)
  | CRelE => Some (o, b, CDone)
  | CDone | CFail => None
  end.

Definition cpc_instr (c : cpc) (out_absent buf_exists : bool) : option instr :=
  match c with
  | C0 => Some (if out_absent then IWrite FOut WHeader else IReadFirstRow FOut)
  | CWriteH => Some (IWrite FOut WHeader)
  | CBuf => Some (if buf_exists then IRemove FBuf else ITouch FBuf)
  | CBufCreate => Some (ITouch FBuf)
  | CLoad => Some (ILoad FOut true)
  | CCopy _ => Some (IWrite FBuf WIds)
  | _ => None
  end.
Definition cpc_locks (c : cpc) : list lockid :=
  (if cinE c then [LkE] else []) ++ (if cinF c then [LkF] else []).

(* ------------------------------------------------------------------ component *)
Record ast := mkAst { out : file line; buf : file name; hdr : Z; ctor : cpc; calls : list call }.

Definition heldE (s : ast) : bool := cinE (ctor s) || existsb inE (calls s).
Definition heldF (s : ast) : bool := cinF (ctor s) || existsb inF (calls s).

Inductive astep (xE xF : bool) : ast -> ast -> Prop :=
| A_ctor o b h c cs o' b' c' :
    cstep (xE || existsb inE cs) (xF || existsb inF cs) h o b c = Some (o', b', c') ->
    astep xE xF (mkAst o b h c cs) (mkAst o' b' h c' cs)
| A_call o b h l1 t l2 b' o' t' :
    lstep xE xF b o (l1 ++ l2) t = Some (b', o', t') ->
    astep xE xF (mkAst o b h CDone (l1 ++ t :: l2)) (mkAst o' b' h CDone (l1 ++ t' :: l2)).

Definition all_idle (cs : list call) : Prop := forall t, In t cs -> idle t = true.
Definition all_done (s : ast) : Prop :=
  ctor s = CDone /\ forall t, In t (calls s) -> finished t = true.

(* a new session on the same files: new process, new constructor, new submitted calls *)
Definition session (o : file line) (b : file name) (h : Z) (cs : list call) : ast := mkAst o b h C0 cs.
(* atexit handler of a normally ending process *)
Definition atexit_buf (b : file name) : file name := None.

Inductive sstep : ast -> ast -> Prop :=
| S_crash s h' cs' : all_idle cs' -> sstep s (session (out s) (buf s) h' cs')          (* kill -9 anywhere *)
| S_finish s h' cs' : all_done s -> all_idle cs' ->
                      sstep s (session (out s) (atexit_buf (buf s)) h' cs').           (* normal exit *)
Definition hstep (s s' : ast) : Prop := astep false false s s' \/ sstep s s'.

(* several aggregators with distinct output files (hence distinct buffer files) sharing the locks *)
Definition others_heldE (m1 m2 : list ast) : bool := existsb heldE (m1 ++ m2).
Definition others_heldF (m1 m2 : list ast) : bool := existsb heldF (m1 ++ m2).
Inductive mstep : list ast -> list ast -> Prop :=
| M_step m1 s m2 s' :
    astep (others_heldE m1 m2) (others_heldF m1 m2) s s' -> mstep (m1 ++ s :: m2) (m1 ++ s' :: m2)
| M_sess m1 s m2 s' :                                  (* that aggregator's session ends / is killed *)
    sstep s s' -> mstep (m1 ++ s :: m2) (m1 ++ s' :: m2)
| M_crash_all ms ms' :                                 (* the common process is killed *)
    Forall2 (fun s s' => exists h' cs', all_idle cs' /\ s' = session (out s) (buf s) h' cs') ms ms' ->
    mstep ms ms'.

(* ------------------------------------------------------------------ file predicates (oracles) *)
Definition is_row (l : line) : bool := match l with LR _ _ => true | LH _ => false end.
Definition wf_outb (o : file line) : bool :=
  match o with
  | None | Some [] => true
  | Some (LH _ :: l) => forallb is_row l && nodupb (names (rows_of_lines l))
  | Some (LR _ _ :: _) => false
  end.
Fixpoint subsetn (a b : list name) : bool :=
  match a with [] => true | x :: t => memn x b && subsetn t b end.
(* call phase: header h, duplicate-free rows, duplicate-free claims, rows subset of claims *)
Definition call_phaseb (h : Z) (o : file line) (b : file name) : bool :=
  match o, b with
  | Some (LH h' :: l), Some cl =>
      (h' =? h) && forallb is_row l && nodupb (names (rows_of_lines l)) && nodupb cl
      && subsetn (names (rows_of_lines l)) cl
  | _, _ => false
  end.
Fixpoint prefixb (a b : list line) : bool :=
  match a, b with
  | [], _ => true
  | x :: a', y :: b' => line_eqb x y && prefixb a' b'
  | _ :: _, [] => false
  end.
(* rows are only ever appended *)
Definition monob (o o' : file line) : bool :=
  match o, o' with
  | Some l, Some l' => prefixb l l'
  | None, _ => true
  | Some _, None => false
  end.
Definition row_eqb (r s : row) : bool := name_eqb (fst r) (fst s) && (snd r =? snd s).
(* final state of an uninterrupted session: header h, old rows kept in place, new rows = the
   submitted names not yet present, each with the payload of a submitted call of that name *)
Definition finalb (h : Z) (old : list row) (submitted : list row) (o : file line) : bool :=
  match o with
  | Some (LH h' :: l) =>
      let rs := rows_of_lines l in
      (h' =? h) && forallb is_row l && nodupb (names rs)
      && prefixb (map lrow old) l
      && subsetn (names rs) (names old ++ names submitted)
      && subsetn (names old ++ names submitted) (names rs)
      && forallb (fun r => existsb (row_eqb r) (old ++ submitted)) rs
  | _ => false
  end.

(* ------------------------------------------------------------------ executable scheduler *)
Fixpoint split_at {A} (i : nat) (l : list A) : option (list A * A * list A) :=
  match l with
  | [] => None
  | x :: t => match i with
              | O => Some ([], x, t)
              | S j => match split_at j t with
                       | Some (l1, y, l2) => Some (x :: l1, y, l2)
                       | None => None
                       end
              end
  end.

Inductive event :=
| EvCall (k i : nat)                         (* step call i of component k; no move if blocked *)
| EvCtor (k : nat)                           (* step the constructor of component k *)
| EvCrash (k : nat) (h : Z) (cs : list call) (* kill component k's process; next session *)
| EvFinish (k : nat) (h : Z) (cs : list call)(* normal exit (only when all done); next session *)
| EvCrashAll (hc : list (Z * list call)).    (* kill the common process *)

Definition all_doneb (s : ast) : bool :=
  match ctor s with CDone => forallb finished (calls s) | _ => false end.
Definition restart (s : ast) (h : Z) (cs : list call) : ast := session (out s) (buf s) h cs.
Definition reset_calls (cs : list call) : list call :=
  map (fun t => setpc t (if is_eval t then Start else RStart)) cs.

Definition exec_comp (xE xF : bool) (s : ast) (who : option nat) : ast :=
  match who with
  | None =>
      match cstep (xE || existsb inE (calls s)) (xF || existsb inF (calls s)) (hdr s) (out s) (buf s) (ctor s) with
      | Some (o', b', c') => mkAst o' b' (hdr s) c' (calls s)
      | None => s
      end
  | Some i =>
      match ctor s with
      | CDone =>
          match split_at i (calls s) with
          | Some (l1, t, l2) =>
              match lstep xE xF (buf s) (out s) (l1 ++ l2) t with
              | Some (b', o', t') => mkAst o' b' (hdr s) CDone (l1 ++ t' :: l2)
              | None => s
              end
          | None => s
          end
      | _ => s
      end
  end.

Fixpoint restart_all (ms : list ast) (hc : list (Z * list call)) : list ast :=
  match ms with
  | [] => []
  | s :: t => match hc with
              | (h, cs) :: hc' => restart s h (reset_calls cs) :: restart_all t hc'
              | [] => restart s (hdr s) [] :: restart_all t []
              end
  end.

Definition exec_event (ms : list ast) (e : event) : list ast :=
  match e with
  | EvCall k i =>
      match split_at k ms with
      | Some (m1, s, m2) => m1 ++ exec_comp (others_heldE m1 m2) (others_heldF m1 m2) s (Some i) :: m2
      | None => ms
      end
  | EvCtor k =>
      match split_at k ms with
      | Some (m1, s, m2) => m1 ++ exec_comp (others_heldE m1 m2) (others_heldF m1 m2) s None :: m2
      | None => ms
      end
  | EvCrash k h cs =>
      match split_at k ms with
      | Some (m1, s, m2) => m1 ++ restart s h (reset_calls cs) :: m2
      | None => ms
      end
  | EvFinish k h cs =>
      match split_at k ms with
      | Some (m1, s, m2) =>
          if all_doneb s then m1 ++ session (out s) (atexit_buf (buf s)) h (reset_calls cs) :: m2 else ms
      | None => ms
      end
  | EvCrashAll hc => restart_all ms hc
  end.

Fixpoint run_events (ms : list ast) (es : list event) : list (list ast) :=
  match es with
  | [] => []
  | e :: t => let ms' := exec_event ms e in ms' :: run_events ms' t
  end.

(* number of steps a call / constructor can still take: the termination measure *)
Definition pc_measure (p : pc) : nat :=
  match p with
  | Start => 8 | HoldE => 7 | ReadE _ => 6 | ClaimedE => 5 | Evaluating => 4 | WantF => 3 | HoldF => 2
  | WroteF => 1 | Done _ => 0 | RStart => 3 | RHold => 2 | RRead _ => 1 | RDone _ => 0
  end%nat.
Definition cpc_measure (c : cpc) : nat :=
  match c with
  | C0 => 10 | CWriteH => 9 | CBuf => 8 | CBufCreate => 7 | CAcqE => 6 | CAcqF => 5 | CLoad => 4
  | CCopy _ => 3 | CRelF => 2 | CRelE => 1 | CDone => 0 | CFail => 0
  end%nat.
Definition measure (s : ast) : nat :=
  (cpc_measure (ctor s) + fold_right (fun t a => pc_measure (cp t) + a) 0 (calls s))%nat.
