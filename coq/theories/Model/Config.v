(* Executable model of configuration save/load (C19):
     panoptica/utils/config.py        SupportsConfig.to_yaml / from_yaml  (tagged mapping <-> cls( **data ))
     panoptica/utils/constants.py     _Enum_Compare.to_yaml / from_yaml   (tagged scalar, by member name)
     every _yaml_repr / __init__ of the configurable classes.
   The YAML side is a tree (ruamel's text layer is not modelled).  Every class is described by a
   *table* (emitted keys with the attribute each reads; constructor parameters with default, the
   attribute each is stored into and how).  encode / decode are driven by these tables; the typed
   configuration only says which attribute holds which setting.  No proofs in this file. *)
From Coq Require String Ascii.
Import String.StringSyntax.
From Pan Require Import Base.Common Model.MetricTable.
Open Scope Z_scope.
Local Open Scope string_scope.

(* ------------------------------------------------------------------ strings *)
Definition str := list Z.                      (* code points *)
Fixpoint zs (s : String.string) : str :=
  match s with
  | String.EmptyString => []
  | String.String a r => Z.of_N (Ascii.N_of_ascii a) :: zs r
  end.
Fixpoint str_eqb (a b : str) : bool :=
  match a, b with
  | [], [] => true
  | x :: a', y :: b' => (x =? y) && str_eqb a' b'
  | _, _ => false
  end.
Definition memS (x : str) (l : list str) : bool := existsb (str_eqb x) l.
Fixpoint nodupS (l : list str) : bool :=
  match l with [] => true | x :: t => negb (memS x t) && nodupS t end.
Fixpoint index_of (x : str) (l : list str) : option nat :=
  match l with
  | [] => None
  | y :: t => if str_eqb y x then Some O else match index_of x t with Some i => Some (S i) | None => None end
  end.
(* str.lower() on ASCII; names with other code points are outside the model *)
Definition lower_cp (z : Z) : Z := if (65 <=? z) && (z <=? 90) then z + 32 else z.
Definition lower (s : str) : str := map lower_cp s.
Definition ascii_str (s : str) : bool := forallb (fun z => (0 <=? z) && (z <? 128)) s.

(* ------------------------------------------------------------------ YAML trees *)
Inductive num := NInt (z : Z) | NFlt (q : Q) | NInf | NNegInf | NNan.
Inductive yaml :=
| YNull
| YBool (b : bool)
| YNum (n : num)
| YStr (s : str)
| YTag (tag val : str)                              (* tagged scalar: an enum member *)
| YSeq (l : list yaml)
| YMap (tag : option str) (m : list (yaml * yaml))  (* mapping, tagged for class instances *)
| YRaise (code : Z).                                (* the representer raised while producing this node *)

Definition is_null (y : yaml) : bool := match y with YNull => true | _ => false end.

(* error codes beyond Base/Common *)
Definition E_TYPE : Z := 8.        (* TypeError: unexpected / missing keyword, duplicate key *)
Definition E_ATTR : Z := 9.        (* AttributeError *)
Definition E_DOMAIN : Z := 99.     (* a tree outside the modelled configuration space *)

Definition rmap {A B} (f : A -> B) (r : res A) : res B := rbind r (fun a => Ok (f a)).
Fixpoint mapM {A B} (f : A -> res B) (l : list A) : res (list B) :=
  match l with
  | [] => Ok []
  | x :: t => rbind (f x) (fun y => rbind (mapM f t) (fun ys => Ok (y :: ys)))
  end.
Definition assertR (b : bool) (code : Z) : res unit := if b then Ok tt else Err code.

(* ------------------------------------------------------------------ class tables *)
(* how a constructor parameter reaches its attribute *)
Inductive kind :=
| KPlain                    (* self.a = p *)
| KOrParam (q : str)        (* self.a = p if p is not None else q          (q another parameter) *)
| KOrNew (cls : str)        (* self.a = p if p is not None else cls()      *)
| KLabels                   (* int -> [int]; sorted(set(p)); self.a = p    (LabelGroup) *)
| KGroups.                  (* list / dict of groups -> dict with lower-cased names (SegmentationClassGroups) *)
Definition kind_eqb (a b : kind) : bool :=
  match a, b with
  | KPlain, KPlain | KLabels, KLabels | KGroups, KGroups => true
  | KOrParam x, KOrParam y | KOrNew x, KOrNew y => str_eqb x y
  | _, _ => false
  end.

Record param := { p_name : str; p_default : option yaml; p_attr : str; p_kind : kind }.
Record ctable := {
  ct_cls : str;                       (* class name = YAML tag *)
  ct_repr : list (str * str);         (* _yaml_repr: emitted key, attribute it reads *)
  ct_params : list param              (* __init__: parameters in signature order *)
}.
Record etable := { e_cls : str; e_members : list str }.   (* enum class, member names in definition order *)

Record tables := {
  t_ev : ctable; t_naive : ctable; t_merge : ctable; t_cc : ctable; t_mzh : ctable; t_ech : ctable;
  t_lg : ctable; t_lmg : ctable; t_any : ctable; t_scg : ctable; t_noscg : ctable;
  e_metric : etable; e_input : etable; e_backend : etable; e_ecres : etable; e_zerotp : etable;
  f_tag_is_class_name : bool;     (* to_yaml: represent_mapping("!" + cls.__name__, cls._yaml_repr(node)) *)
  f_load_by_kwargs : bool;        (* from_yaml: cls( **construct_mapping(node, deep=True)) *)
  f_enum_out_by_name : bool;      (* enum to_yaml: represent_scalar("!" + cls.__name__, str(node.name)) *)
  f_enum_in_by_name : bool;       (* enum from_yaml: cls[node.value] *)
  f_no_override : bool            (* no configurable class overrides to_yaml / from_yaml *)
}.

(* ---- generic object <-> tagged mapping, driven by a class table *)
Definition fields := list (str * yaml).         (* attribute name -> serialised value *)
Fixpoint aget (a : str) (f : fields) : option yaml :=
  match f with [] => None | (k, y) :: t => if str_eqb k a then Some y else aget a t end.
Definition aget_or_raise (a : str) (f : fields) : yaml :=
  match aget a f with Some y => y | None => YRaise E_ATTR end.

(* _yaml_repr + represent_mapping: one entry per emitted key *)
Definition emit (repr : list (str * str)) (f : fields) : list (yaml * yaml) :=
  map (fun ka => (YStr (fst ka), aget_or_raise (snd ka) f)) repr.
Definition enc_obj (ct : ctable) (f : fields) : yaml := YMap (Some (ct_cls ct)) (emit (ct_repr ct) f).

(* cls( **data ) *)
Definition key_str (y : yaml) : option str := match y with YStr s => Some s | _ => None end.
Fixpoint mget (k : str) (m : list (yaml * yaml)) : option yaml :=
  match m with
  | [] => None
  | (YStr s, y) :: t => if str_eqb s k then Some y else mget k t
  | _ :: t => mget k t
  end.
Fixpoint map_keys (m : list (yaml * yaml)) : option (list str) :=
  match m with
  | [] => Some []
  | (YStr s, _) :: t => match map_keys t with Some l => Some (s :: l) | None => None end
  | _ :: _ => None
  end.
Definition find_param (n : str) (ps : list param) : option param :=
  find (fun p => str_eqb (p_name p) n) ps.
Definition arg (m : list (yaml * yaml)) (p : param) : res yaml :=
  match mget (p_name p) m with
  | Some y => Ok y
  | None => match p_default p with Some d => Ok d | None => Err E_TYPE end    (* missing required argument *)
  end.
Definition stored (ps : list param) (m : list (yaml * yaml)) (p : param) : res yaml :=
  rbind (arg m p) (fun y =>
    match p_kind p with
    | KOrParam q =>
        if is_null y then match find_param q ps with Some pq => arg m pq | None => Err E_EXC end
        else Ok y
    | KOrNew c => Ok (if is_null y then YMap (Some c) [] else y)
    | _ => Ok y
    end).
(* the attribute store after __init__ ran on the keyword arguments m *)
Definition bind_args (ct : ctable) (m : list (yaml * yaml)) : res fields :=
  match map_keys m with
  | None => Err E_TYPE                                    (* keywords must be strings *)
  | Some ks =>
      if negb (nodupS ks) then Err E_TYPE                 (* ruamel: duplicate key *)
      else if negb (forallb (fun k => existsb (fun p => str_eqb (p_name p) k) (ct_params ct)) ks)
      then Err E_TYPE                                     (* unexpected keyword argument *)
      else mapM (fun p => rmap (fun y => (p_attr p, y)) (stored (ct_params ct) m p)) (ct_params ct)
  end.
Definition sget (a : str) (st : fields) : res yaml :=
  match aget a st with Some y => Ok y | None => Err E_ATTR end.
(* from_yaml of class ct applied to a node *)
Definition dec_obj (ct : ctable) (y : yaml) : res fields :=
  match y with
  | YMap (Some tag) m => if str_eqb tag (ct_cls ct) then bind_args ct m else Err E_DOMAIN
  | _ => Err E_DOMAIN
  end.

(* ---- enums: tagged scalar carrying the member *name* *)
Definition enc_enum (E : etable) (i : nat) : yaml := YTag (e_cls E) (nth i (e_members E) []).
Definition dec_enum {A} (E : etable) (all : list A) (y : yaml) : res A :=
  match y with
  | YTag t v =>
      if str_eqb t (e_cls E) then
        match index_of v (e_members E) with
        | Some i => match nth_error all i with Some a => Ok a | None => Err E_INDEX end
        | None => Err E_INDEX                              (* cls[name]: KeyError *)
        end
      else Err E_DOMAIN
  | _ => Err E_DOMAIN
  end.

(* ------------------------------------------------------------------ the typed configuration *)
Inductive input_type := IT_SEMANTIC | IT_UNMATCHED | IT_MATCHED.
Definition all_inputs := [IT_SEMANTIC; IT_UNMATCHED; IT_MATCHED].
Definition input_idx (i : input_type) : nat :=
  match i with IT_SEMANTIC => 0 | IT_UNMATCHED => 1 | IT_MATCHED => 2 end%nat.
Inductive backend := B_cc3d | B_scipy.
Definition all_backends := [B_cc3d; B_scipy].
Definition backend_idx (b : backend) : nat := match b with B_cc3d => 0 | B_scipy => 1 end%nat.
Inductive ecres := R_INF | R_NAN | R_ZERO | R_ONE | R_NONE.
Definition all_ecres := [R_INF; R_NAN; R_ZERO; R_ONE; R_NONE].
Definition ecres_idx (r : ecres) : nat :=
  match r with R_INF => 0 | R_NAN => 1 | R_ZERO => 2 | R_ONE => 3 | R_NONE => 4 end%nat.
Inductive zerotp := Z_NO_INSTANCES | Z_EMPTY_PRED | Z_EMPTY_REF | Z_NORMAL.
Definition all_zerotp := [Z_NO_INSTANCES; Z_EMPTY_PRED; Z_EMPTY_REF; Z_NORMAL].
Definition zerotp_idx (z : zerotp) : nat :=
  match z with Z_NO_INSTANCES => 0 | Z_EMPTY_PRED => 1 | Z_EMPTY_REF => 2 | Z_NORMAL => 3 end%nat.
Definition metric_idx (m : metric) : nat :=
  match m with DSC => 0 | IOU => 1 | ASSD => 2 | clDSC => 3 | RVD => 4 end%nat.

(* MetricZeroTPEdgeCaseHandling: the state is the four-entry table (the default only fills it) *)
Record mzh := { mz_no : ecres; mz_ep : ecres; mz_er : ecres; mz_normal : ecres }.
Record handler := { h_table : list (metric * mzh); h_std : ecres }.
Inductive matcher := MNaive (m : metric) (t : num) (many_to_one : bool) | MMerge (m : metric) (t : num).
Inductive approx := ACC (b : option backend).
Inductive gkind := GPlain | GMerge.                    (* LabelGroup | LabelMergeGroup *)
Record lgroup := { g_kind : gkind; g_labels : list Z; g_single : bool }.
Inductive groups := GNone | GList (l : list (str * lgroup)).   (* _NoSegmentationClassGroups | SegmentationClassGroups *)
Record config := {
  c_input : input_type;
  c_approx : option approx;
  c_matcher : option matcher;
  c_handler : handler;
  c_groups : groups;
  c_inst : list metric;
  c_glob : list metric;
  c_dmetric : option metric;
  c_dthr : option num;
  c_sgt : bool; c_log : bool; c_verbose : bool
}.

(* attribute names (after name mangling) holding each setting *)
Definition A_ev_input := zs "_Panoptica_Evaluator__expected_input".
Definition A_ev_approx := zs "_Panoptica_Evaluator__instance_approximator".
Definition A_ev_matcher := zs "_Panoptica_Evaluator__instance_matcher".
Definition A_ev_handler := zs "_Panoptica_Evaluator__edge_case_handler".
Definition A_ev_groups := zs "_Panoptica_Evaluator__segmentation_class_groups".
Definition A_ev_inst := zs "_Panoptica_Evaluator__eval_metrics".
Definition A_ev_glob := zs "_Panoptica_Evaluator__global_metrics".
Definition A_ev_dmetric := zs "_Panoptica_Evaluator__decision_metric".
Definition A_ev_dthr := zs "_Panoptica_Evaluator__decision_threshold".
Definition A_ev_sgt := zs "_Panoptica_Evaluator__save_group_times".
Definition A_ev_log := zs "_Panoptica_Evaluator__log_times".
Definition A_ev_verbose := zs "_Panoptica_Evaluator__verbose".
Definition A_m_metric := zs "_matching_metric".
Definition A_m_thr := zs "_matching_threshold".
Definition A_m_m2o := zs "_allow_many_to_one".
Definition A_cc_backend := zs "cca_backend".
Definition A_mz_no := zs "_edgecase_dict[NO_INSTANCES]".
Definition A_mz_ep := zs "_edgecase_dict[EMPTY_PRED]".
Definition A_mz_er := zs "_edgecase_dict[EMPTY_REF]".
Definition A_mz_normal := zs "_edgecase_dict[NORMAL]".
Definition P_mz_default := zs "default_result".
Definition A_h_table := zs "_EdgeCaseHandler__listmetric_zeroTP_handling".
Definition A_h_std := zs "_EdgeCaseHandler__empty_list_std".
Definition A_g_labels := zs "_LabelGroup__value_labels".
Definition A_g_single := zs "_LabelGroup__single_instance".
Definition A_s_dict := zs "_SegmentationClassGroups__group_dictionary".

(* ------------------------------------------------------------------ typed codecs over the tables *)
Section Codec.
Variable T : tables.

Definition enc_metric (m : metric) := enc_enum (e_metric T) (metric_idx m).
Definition dec_metric := dec_enum (e_metric T) all_metrics.
Definition enc_input (i : input_type) := enc_enum (e_input T) (input_idx i).
Definition dec_input := dec_enum (e_input T) all_inputs.
Definition enc_backend (b : backend) := enc_enum (e_backend T) (backend_idx b).
Definition dec_backend := dec_enum (e_backend T) all_backends.
Definition enc_ecres (r : ecres) := enc_enum (e_ecres T) (ecres_idx r).
Definition dec_ecres := dec_enum (e_ecres T) all_ecres.
Definition enc_zerotp (z : zerotp) := enc_enum (e_zerotp T) (zerotp_idx z).
Definition dec_zerotp := dec_enum (e_zerotp T) all_zerotp.

Definition enc_opt {A} (e : A -> yaml) (o : option A) : yaml := match o with Some a => e a | None => YNull end.
Definition dec_opt {A} (d : yaml -> res A) (y : yaml) : res (option A) :=
  match y with YNull => Ok None | _ => rmap Some (d y) end.
Definition dec_bool (y : yaml) : res bool := match y with YBool b => Ok b | _ => Err E_DOMAIN end.
Definition dec_num (y : yaml) : res num := match y with YNum n => Ok n | _ => Err E_DOMAIN end.
Definition dec_int (y : yaml) : res Z := match y with YNum (NInt z) => Ok z | _ => Err E_DOMAIN end.
Definition enc_metrics (l : list metric) : yaml := YSeq (map enc_metric l).
Definition dec_metrics (y : yaml) : res (list metric) :=
  match y with YSeq l => mapM dec_metric l | _ => Err E_DOMAIN end.

(* matchers *)
Definition fields_matcher (x : matcher) : fields :=
  match x with
  | MNaive m t b => [(A_m_metric, enc_metric m); (A_m_thr, YNum t); (A_m_m2o, YBool b)]
  | MMerge m t => [(A_m_metric, enc_metric m); (A_m_thr, YNum t)]
  end.
Definition enc_matcher (x : matcher) : yaml :=
  enc_obj (match x with MNaive _ _ _ => t_naive T | MMerge _ _ => t_merge T end) (fields_matcher x).
Definition dec_matcher (y : yaml) : res matcher :=
  match y with
  | YMap (Some tag) _ =>
      if str_eqb tag (ct_cls (t_naive T)) then
        rbind (dec_obj (t_naive T) y) (fun st =>
        rbind (rbind (sget A_m_metric st) dec_metric) (fun m =>
        rbind (rbind (sget A_m_thr st) dec_num) (fun t =>
        rbind (rbind (sget A_m_m2o st) dec_bool) (fun b => Ok (MNaive m t b)))))
      else if str_eqb tag (ct_cls (t_merge T)) then
        rbind (dec_obj (t_merge T) y) (fun st =>
        rbind (rbind (sget A_m_metric st) dec_metric) (fun m =>
        rbind (rbind (sget A_m_thr st) dec_num) (fun t => Ok (MMerge m t))))
      else Err E_DOMAIN
  | _ => Err E_DOMAIN
  end.

(* approximator *)
Definition enc_approx (x : approx) : yaml :=
  match x with ACC b => enc_obj (t_cc T) [(A_cc_backend, enc_opt enc_backend b)] end.
Definition dec_approx (y : yaml) : res approx :=
  rbind (dec_obj (t_cc T) y) (fun st =>
  rbind (rbind (sget A_cc_backend st) (dec_opt dec_backend)) (fun b => Ok (ACC b))).

(* MetricZeroTPEdgeCaseHandling.  bind_args already applied `p if p is not None else default_result`;
   the assert (default given, or all four given) fails exactly when a filled entry is still None. *)
Definition fields_mzh (z : mzh) : fields :=
  [(A_mz_no, enc_ecres (mz_no z)); (A_mz_ep, enc_ecres (mz_ep z));
   (A_mz_er, enc_ecres (mz_er z)); (A_mz_normal, enc_ecres (mz_normal z))].
Definition enc_mzh (z : mzh) : yaml := enc_obj (t_mzh T) (fields_mzh z).
Definition dec_entry (y : yaml) : res ecres := if is_null y then Err E_ASSERT else dec_ecres y.
Definition dec_mzh (y : yaml) : res mzh :=
  rbind (dec_obj (t_mzh T) y) (fun st =>
  rbind (rbind (sget A_mz_no st) dec_entry) (fun a =>
  rbind (rbind (sget A_mz_ep st) dec_entry) (fun b =>
  rbind (rbind (sget A_mz_er st) dec_entry) (fun c =>
  rbind (rbind (sget A_mz_normal st) dec_entry) (fun d =>
  Ok {| mz_no := a; mz_ep := b; mz_er := c; mz_normal := d |}))))).

(* EdgeCaseHandler: dict keyed by Metric members *)
Definition enc_htable (l : list (metric * mzh)) : yaml :=
  YMap None (map (fun mz => (enc_metric (fst mz), enc_mzh (snd mz))) l).
Fixpoint nodup_metrics (l : list metric) : bool :=
  match l with [] => true | x :: t => negb (existsb (metric_eqb x) t) && nodup_metrics t end.
Definition dec_htable (y : yaml) : res (list (metric * mzh)) :=
  match y with
  | YMap None kv =>
      rbind (mapM (fun e => rbind (dec_metric (fst e)) (fun m => rbind (dec_mzh (snd e)) (fun z => Ok (m, z)))) kv)
        (fun l => if nodup_metrics (map fst l) then Ok l else Err E_TYPE)
  | _ => Err E_DOMAIN
  end.
Definition fields_handler (h : handler) : fields :=
  [(A_h_table, enc_htable (h_table h)); (A_h_std, enc_ecres (h_std h))].
Definition enc_handler (h : handler) : yaml := enc_obj (t_ech T) (fields_handler h).
Definition dec_handler (y : yaml) : res handler :=
  rbind (dec_obj (t_ech T) y) (fun st =>
  rbind (rbind (sget A_h_table st) dec_htable) (fun tb =>
  rbind (rbind (sget A_h_std st) dec_ecres) (fun s => Ok {| h_table := tb; h_std := s |}))).

(* LabelGroup / LabelMergeGroup *)
Definition fields_lgroup (g : lgroup) : fields :=
  [(A_g_labels, YSeq (map (fun z => YNum (NInt z)) (g_labels g))); (A_g_single, YBool (g_single g))].
Definition lg_table (k : gkind) : ctable := match k with GPlain => t_lg T | GMerge => t_lmg T end.
Definition enc_lgroup (g : lgroup) : yaml := enc_obj (lg_table (g_kind g)) (fields_lgroup g).
Definition dec_labels (y : yaml) : res (list Z) :=
  match y with
  | YNum (NInt z) => Ok [z]                       (* isinstance(value_labels, int) *)
  | YSeq l => mapM dec_int l
  | _ => Err E_DOMAIN
  end.
Definition build_lgroup (k : gkind) (st : fields) : res lgroup :=
  rbind (rbind (sget A_g_labels st) dec_labels) (fun raw =>
  let ls := uniqueZ raw in                         (* sorted(set(value_labels)) *)
  rbind (assertR (negb (Nat.eqb (length ls) 0)) E_ASSERT) (fun _ =>
  rbind (assertR (forallb (fun v => 0 <? v) ls) E_ASSERT) (fun _ =>
  rbind (rbind (sget A_g_single st) dec_bool) (fun s =>
  rbind (assertR (negb s || Nat.eqb (length ls) 1) E_ASSERT) (fun _ =>
  Ok {| g_kind := k; g_labels := ls; g_single := s |}))))).
Definition dec_lgroup (y : yaml) : res lgroup :=
  match y with
  | YMap (Some tag) _ =>
      if str_eqb tag (ct_cls (t_lg T)) then rbind (dec_obj (t_lg T) y) (build_lgroup GPlain)
      else if str_eqb tag (ct_cls (t_lmg T)) then rbind (dec_obj (t_lmg T) y) (build_lgroup GMerge)
      else Err E_DOMAIN
  | _ => Err E_DOMAIN
  end.
(* _LabelGroupAny: no state *)
Definition enc_any : yaml := enc_obj (t_any T) [].
Definition dec_any (y : yaml) : res unit := rbind (dec_obj (t_any T) y) (fun _ => Ok tt).

(* SegmentationClassGroups (dict form with LabelGroup values) / _NoSegmentationClassGroups *)
Definition enc_gdict (l : list (str * lgroup)) : yaml :=
  YMap None (map (fun ng => (YStr (fst ng), enc_lgroup (snd ng))) l).
Definition dec_gdict (y : yaml) : res (list (str * lgroup)) :=
  match y with
  | YMap None kv =>
      rbind (mapM (fun e => match fst e with
                            | YStr n => if ascii_str n then rbind (dec_lgroup (snd e)) (fun g => Ok (lower n, g))
                                        else Err E_DOMAIN
                            | _ => Err E_DOMAIN end) kv)
        (fun l => if nodupS (map fst l) then Ok l else Err E_DOMAIN)
  | _ => Err E_DOMAIN                              (* list form / tuple values: outside the model *)
  end.
Definition enc_groups (g : groups) : yaml :=
  match g with
  | GNone => enc_obj (t_noscg T) []
  | GList l => enc_obj (t_scg T) [(A_s_dict, enc_gdict l)]
  end.
Definition dec_groups (y : yaml) : res groups :=
  match y with
  | YMap (Some tag) _ =>
      if str_eqb tag (ct_cls (t_noscg T)) then rbind (dec_obj (t_noscg T) y) (fun _ => Ok GNone)
      else if str_eqb tag (ct_cls (t_scg T)) then
        rbind (dec_obj (t_scg T) y) (fun st => rbind (rbind (sget A_s_dict st) dec_gdict) (fun l => Ok (GList l)))
      else Err E_DOMAIN
  | _ => Err E_DOMAIN
  end.

(* Panoptica_Evaluator *)
Definition fields_ev (c : config) : fields :=
  [(A_ev_input, enc_input (c_input c));
   (A_ev_approx, enc_opt enc_approx (c_approx c));
   (A_ev_matcher, enc_opt enc_matcher (c_matcher c));
   (A_ev_handler, enc_handler (c_handler c));
   (A_ev_groups, enc_groups (c_groups c));
   (A_ev_inst, enc_metrics (c_inst c));
   (A_ev_glob, enc_metrics (c_glob c));
   (A_ev_dmetric, enc_opt enc_metric (c_dmetric c));
   (A_ev_dthr, enc_opt YNum (c_dthr c));
   (A_ev_sgt, YBool (c_sgt c)); (A_ev_log, YBool (c_log c)); (A_ev_verbose, YBool (c_verbose c))].
Definition encode (c : config) : yaml := enc_obj (t_ev T) (fields_ev c).
Definition is_some {A} (o : option A) : bool := match o with Some _ => true | None => false end.
Definition decode (y : yaml) : res config :=
  rbind (dec_obj (t_ev T) y) (fun st =>
  rbind (rbind (sget A_ev_input st) dec_input) (fun i =>
  rbind (rbind (sget A_ev_approx st) (dec_opt dec_approx)) (fun a =>
  rbind (rbind (sget A_ev_matcher st) (dec_opt dec_matcher)) (fun m =>
  rbind (rbind (sget A_ev_handler st) dec_handler) (fun h =>
  rbind (rbind (sget A_ev_groups st) dec_groups) (fun g =>
  rbind (rbind (sget A_ev_inst st) dec_metrics) (fun im =>
  rbind (rbind (sget A_ev_glob st) dec_metrics) (fun gm =>
  rbind (rbind (sget A_ev_dmetric st) (dec_opt dec_metric)) (fun dm =>
  rbind (rbind (sget A_ev_dthr st) (dec_opt dec_num)) (fun dt =>
  rbind (rbind (sget A_ev_sgt st) dec_bool) (fun s =>
  rbind (rbind (sget A_ev_log st) dec_bool) (fun l =>
  rbind (rbind (sget A_ev_verbose st) dec_bool) (fun v =>
  (* assert: decision metric set => decision threshold set *)
  rbind (assertR (negb (is_some dm) || is_some dt) E_ASSERT) (fun _ =>
  Ok {| c_input := i; c_approx := a; c_matcher := m; c_handler := h; c_groups := g; c_inst := im;
        c_glob := gm; c_dmetric := dm; c_dthr := dt; c_sgt := s; c_log := l; c_verbose := v |})))))))))))))).

(* ---- what the model expects of the tables: the attributes holding the state, with their store kind *)
Definition spec_ev : list (str * kind) :=
  [(A_ev_input, KPlain); (A_ev_approx, KPlain); (A_ev_matcher, KPlain);
   (A_ev_handler, KOrNew (ct_cls (t_ech T))); (A_ev_groups, KOrNew (ct_cls (t_noscg T)));
   (A_ev_inst, KPlain); (A_ev_glob, KPlain); (A_ev_dmetric, KPlain); (A_ev_dthr, KPlain);
   (A_ev_sgt, KPlain); (A_ev_log, KPlain); (A_ev_verbose, KPlain)].
Definition spec_naive : list (str * kind) := [(A_m_metric, KPlain); (A_m_thr, KPlain); (A_m_m2o, KPlain)].
Definition spec_merge : list (str * kind) := [(A_m_metric, KPlain); (A_m_thr, KPlain)].
Definition spec_cc : list (str * kind) := [(A_cc_backend, KPlain)].
Definition spec_mzh : list (str * kind) :=
  [(A_mz_no, KOrParam P_mz_default); (A_mz_ep, KOrParam P_mz_default);
   (A_mz_er, KOrParam P_mz_default); (A_mz_normal, KOrParam P_mz_default)].
Definition spec_ech : list (str * kind) := [(A_h_table, KPlain); (A_h_std, KPlain)].
Definition spec_lg : list (str * kind) := [(A_g_labels, KLabels); (A_g_single, KPlain)].
Definition spec_scg : list (str * kind) := [(A_s_dict, KGroups)].

(* class table against the model's expectation: emitted keys = accepted parameters, every key reads the
   attribute its parameter writes, required parameters are emitted, every state attribute is emitted *)
Definition ct_ok (spec : list (str * kind)) (ct : ctable) : bool :=
  nodupS (map fst (ct_repr ct))
  && nodupS (map p_name (ct_params ct))
  && nodupS (map p_attr (ct_params ct))
  && forallb (fun ka => existsb (fun p => str_eqb (p_name p) (fst ka) && str_eqb (p_attr p) (snd ka)) (ct_params ct))
             (ct_repr ct)
  && forallb (fun ka => memS (snd ka) (map fst spec)) (ct_repr ct)
  && forallb (fun p => is_some (p_default p) || memS (p_name p) (map fst (ct_repr ct))) (ct_params ct)
  && forallb (fun p => match p_kind p with
                       | KOrParam q => match find_param q (ct_params ct) with
                                       | Some pq => is_some (p_default pq) || memS q (map fst (ct_repr ct))
                                       | None => false end
                       | _ => true end) (ct_params ct)
  && forallb (fun ak => existsb (fun p => str_eqb (p_attr p) (fst ak) && kind_eqb (p_kind p) (snd ak)
                                          && memS (p_name p) (map fst (ct_repr ct))) (ct_params ct)) spec
  && nodupS (map fst spec).

Definition enum_ok (E : etable) (n : nat) : bool := Nat.eqb (length (e_members E)) n && nodupS (e_members E).

Definition tables_ok : bool :=
  ct_ok spec_ev (t_ev T) && ct_ok spec_naive (t_naive T) && ct_ok spec_merge (t_merge T)
  && ct_ok spec_cc (t_cc T) && ct_ok spec_mzh (t_mzh T) && ct_ok spec_ech (t_ech T)
  && ct_ok spec_lg (t_lg T) && ct_ok spec_lg (t_lmg T) && ct_ok [] (t_any T)
  && ct_ok spec_scg (t_scg T) && ct_ok [] (t_noscg T)
  && enum_ok (e_metric T) 5 && enum_ok (e_input T) 3 && enum_ok (e_backend T) 2
  && enum_ok (e_ecres T) 5 && enum_ok (e_zerotp T) 4
  (* a tag identifies its class where the loader has to tell two classes apart *)
  && negb (str_eqb (ct_cls (t_naive T)) (ct_cls (t_merge T)))
  && negb (str_eqb (ct_cls (t_lg T)) (ct_cls (t_lmg T)))
  && negb (str_eqb (ct_cls (t_scg T)) (ct_cls (t_noscg T)))
  && f_tag_is_class_name T && f_load_by_kwargs T && f_enum_out_by_name T && f_enum_in_by_name T
  && f_no_override T.

(* ---- states the constructors can produce (class invariants); boolean *)
Fixpoint list_eqbZ (a b : list Z) : bool :=
  match a, b with [] , [] => true | x :: a', y :: b' => (x =? y) && list_eqbZ a' b' | _, _ => false end.
Definition wf_lgroup (g : lgroup) : bool :=
  list_eqbZ (uniqueZ (g_labels g)) (g_labels g)            (* strictly increasing, duplicate free *)
  && negb (Nat.eqb (length (g_labels g)) 0)
  && forallb (fun v => 0 <? v) (g_labels g)
  && (negb (g_single g) || Nat.eqb (length (g_labels g)) 1).
Definition wf_name (n : str) : bool := ascii_str n && str_eqb (lower n) n.
Definition wf_groups (g : groups) : bool :=
  match g with
  | GNone => true
  | GList l => forallb (fun ng => wf_name (fst ng) && wf_lgroup (snd ng)) l && nodupS (map fst l)
  end.
Definition wf_handler (h : handler) : bool := nodup_metrics (map fst (h_table h)).
Definition wf_config (c : config) : bool :=
  wf_handler (c_handler c) && wf_groups (c_groups c) && (negb (is_some (c_dmetric c)) || is_some (c_dthr c)).

End Codec.

(* ------------------------------------------------------------------ the tables of the current source *)
Definition mkp (n : String.string) (d : option yaml) (a : String.string) (k : kind) : param :=
  {| p_name := zs n; p_default := d; p_attr := zs a; p_kind := k |}.
Definition ytag (t v : String.string) : yaml := YTag (zs t) (zs v).
Definition ykw (cls : String.string) (kw : list (String.string * yaml)) : yaml :=
  YMap (Some (zs cls)) (map (fun p => (YStr (zs (fst p)), snd p)) kw).

Definition default_handler_table : yaml :=
  YMap None
    [(ytag "Metric" "DSC", ykw "MetricZeroTPEdgeCaseHandling"
        [("no_instances_result", ytag "EdgeCaseResult" "NAN"); ("default_result", ytag "EdgeCaseResult" "ZERO")]);
     (ytag "Metric" "clDSC", ykw "MetricZeroTPEdgeCaseHandling"
        [("no_instances_result", ytag "EdgeCaseResult" "NAN"); ("default_result", ytag "EdgeCaseResult" "ZERO")]);
     (ytag "Metric" "IOU", ykw "MetricZeroTPEdgeCaseHandling"
        [("no_instances_result", ytag "EdgeCaseResult" "NAN"); ("empty_prediction_result", ytag "EdgeCaseResult" "ZERO");
         ("default_result", ytag "EdgeCaseResult" "ZERO")]);
     (ytag "Metric" "ASSD", ykw "MetricZeroTPEdgeCaseHandling"
        [("no_instances_result", ytag "EdgeCaseResult" "NAN"); ("default_result", ytag "EdgeCaseResult" "INF")]);
     (ytag "Metric" "RVD", ykw "MetricZeroTPEdgeCaseHandling"
        [("no_instances_result", ytag "EdgeCaseResult" "NAN"); ("default_result", ytag "EdgeCaseResult" "NAN")])].

Definition model_tables : tables := {|
  t_ev := {| ct_cls := zs "Panoptica_Evaluator";
    ct_repr := [(zs "decision_metric", A_ev_dmetric); (zs "decision_threshold", A_ev_dthr);
                (zs "edge_case_handler", A_ev_handler); (zs "expected_input", A_ev_input);
                (zs "global_metrics", A_ev_glob); (zs "instance_approximator", A_ev_approx);
                (zs "instance_matcher", A_ev_matcher); (zs "instance_metrics", A_ev_inst);
                (zs "log_times", A_ev_log); (zs "save_group_times", A_ev_sgt);
                (zs "segmentation_class_groups", A_ev_groups); (zs "verbose", A_ev_verbose)];
    ct_params := [
      mkp "expected_input" (Some (ytag "InputType" "MATCHED_INSTANCE")) "_Panoptica_Evaluator__expected_input" KPlain;
      mkp "instance_approximator" (Some YNull) "_Panoptica_Evaluator__instance_approximator" KPlain;
      mkp "instance_matcher" (Some YNull) "_Panoptica_Evaluator__instance_matcher" KPlain;
      mkp "edge_case_handler" (Some YNull) "_Panoptica_Evaluator__edge_case_handler" (KOrNew (zs "EdgeCaseHandler"));
      mkp "segmentation_class_groups" (Some YNull) "_Panoptica_Evaluator__segmentation_class_groups"
          (KOrNew (zs "_NoSegmentationClassGroups"));
      mkp "instance_metrics" (Some (YSeq [ytag "Metric" "DSC"; ytag "Metric" "IOU"; ytag "Metric" "ASSD"; ytag "Metric" "RVD"]))
          "_Panoptica_Evaluator__eval_metrics" KPlain;
      mkp "global_metrics" (Some (YSeq [ytag "Metric" "DSC"])) "_Panoptica_Evaluator__global_metrics" KPlain;
      mkp "decision_metric" (Some YNull) "_Panoptica_Evaluator__decision_metric" KPlain;
      mkp "decision_threshold" (Some YNull) "_Panoptica_Evaluator__decision_threshold" KPlain;
      mkp "save_group_times" (Some (YBool false)) "_Panoptica_Evaluator__save_group_times" KPlain;
      mkp "log_times" (Some (YBool false)) "_Panoptica_Evaluator__log_times" KPlain;
      mkp "verbose" (Some (YBool false)) "_Panoptica_Evaluator__verbose" KPlain] |};
  t_naive := {| ct_cls := zs "NaiveThresholdMatching";
    ct_repr := [(zs "allow_many_to_one", A_m_m2o); (zs "matching_metric", A_m_metric); (zs "matching_threshold", A_m_thr)];
    ct_params := [mkp "matching_metric" (Some (ytag "Metric" "IOU")) "_matching_metric" KPlain;
                  mkp "matching_threshold" (Some (YNum (NFlt (1 # 2)))) "_matching_threshold" KPlain;
                  mkp "allow_many_to_one" (Some (YBool false)) "_allow_many_to_one" KPlain] |};
  t_merge := {| ct_cls := zs "MaximizeMergeMatching";
    ct_repr := [(zs "matching_metric", A_m_metric); (zs "matching_threshold", A_m_thr)];
    ct_params := [mkp "matching_metric" (Some (ytag "Metric" "IOU")) "_matching_metric" KPlain;
                  mkp "matching_threshold" (Some (YNum (NFlt (1 # 2)))) "_matching_threshold" KPlain] |};
  t_cc := {| ct_cls := zs "ConnectedComponentsInstanceApproximator";
    ct_repr := [(zs "cca_backend", A_cc_backend)];
    ct_params := [mkp "cca_backend" (Some YNull) "cca_backend" KPlain] |};
  t_mzh := {| ct_cls := zs "MetricZeroTPEdgeCaseHandling";
    ct_repr := [(zs "empty_prediction_result", A_mz_ep); (zs "empty_reference_result", A_mz_er);
                (zs "no_instances_result", A_mz_no); (zs "normal", A_mz_normal)];
    ct_params := [mkp "default_result" (Some YNull) "_default_result" KPlain;
                  mkp "no_instances_result" (Some YNull) "_edgecase_dict[NO_INSTANCES]" (KOrParam P_mz_default);
                  mkp "empty_prediction_result" (Some YNull) "_edgecase_dict[EMPTY_PRED]" (KOrParam P_mz_default);
                  mkp "empty_reference_result" (Some YNull) "_edgecase_dict[EMPTY_REF]" (KOrParam P_mz_default);
                  mkp "normal" (Some YNull) "_edgecase_dict[NORMAL]" (KOrParam P_mz_default)] |};
  t_ech := {| ct_cls := zs "EdgeCaseHandler";
    ct_repr := [(zs "empty_list_std", A_h_std); (zs "listmetric_zeroTP_handling", A_h_table)];
    ct_params := [mkp "listmetric_zeroTP_handling" (Some default_handler_table)
                      "_EdgeCaseHandler__listmetric_zeroTP_handling" KPlain;
                  mkp "empty_list_std" (Some (ytag "EdgeCaseResult" "NAN")) "_EdgeCaseHandler__empty_list_std" KPlain] |};
  t_lg := {| ct_cls := zs "LabelGroup";
    ct_repr := [(zs "single_instance", A_g_single); (zs "value_labels", A_g_labels)];
    ct_params := [mkp "value_labels" None "_LabelGroup__value_labels" KLabels;
                  mkp "single_instance" (Some (YBool false)) "_LabelGroup__single_instance" KPlain] |};
  t_lmg := {| ct_cls := zs "LabelMergeGroup";
    ct_repr := [(zs "single_instance", A_g_single); (zs "value_labels", A_g_labels)];
    ct_params := [mkp "value_labels" None "_LabelGroup__value_labels" KLabels;
                  mkp "single_instance" (Some (YBool false)) "_LabelGroup__single_instance" KPlain] |};
  t_any := {| ct_cls := zs "_LabelGroupAny"; ct_repr := []; ct_params := [] |};
  t_scg := {| ct_cls := zs "SegmentationClassGroups";
    ct_repr := [(zs "groups", A_s_dict)];
    ct_params := [mkp "groups" None "_SegmentationClassGroups__group_dictionary" KGroups] |};
  t_noscg := {| ct_cls := zs "_NoSegmentationClassGroups"; ct_repr := []; ct_params := [] |};
  e_metric := {| e_cls := zs "Metric"; e_members := [zs "DSC"; zs "IOU"; zs "ASSD"; zs "clDSC"; zs "RVD"] |};
  e_input := {| e_cls := zs "InputType"; e_members := [zs "SEMANTIC"; zs "UNMATCHED_INSTANCE"; zs "MATCHED_INSTANCE"] |};
  e_backend := {| e_cls := zs "CCABackend"; e_members := [zs "cc3d"; zs "scipy"] |};
  e_ecres := {| e_cls := zs "EdgeCaseResult"; e_members := [zs "INF"; zs "NAN"; zs "ZERO"; zs "ONE"; zs "NONE"] |};
  e_zerotp := {| e_cls := zs "EdgeCaseZeroTP"; e_members := [zs "NO_INSTANCES"; zs "EMPTY_PRED"; zs "EMPTY_REF"; zs "NORMAL"] |};
  f_tag_is_class_name := true; f_load_by_kwargs := true; f_enum_out_by_name := true; f_enum_in_by_name := true;
  f_no_override := true
|}.
