(* Panoptica_Statistic and ValueSummary (panoptica_statistics.py:16-42, 45-68, 129-222): the loaded
   table, get / get_one_subject / get_summary / get_summary_across_groups.  Executable model, no proofs.
   Values are exact rationals (the doubles the loader kept); None = missing (empty / NaN / +-inf cell).
   The standard deviation is represented by its square (np.std = sqrt of the population variance). *)
From Pan Require Import Base.Common.

Definition name := list Z.                    (* code points *)
Fixpoint name_eqb (a b : name) : bool :=
  match a, b with
  | [], [] => true
  | x :: a', y :: b' => (x =? y) && name_eqb a' b'
  | _, _ => false
  end.
Definition memn (x : name) (l : list name) : bool := existsb (name_eqb x) l.

(* python dict with str keys, in insertion order (keys are unique by construction) *)
Fixpoint alookup {B} (k : name) (d : list (name * B)) : option B :=
  match d with [] => None | (k', b) :: t => if name_eqb k' k then Some b else alookup k t end.

Definition col := list (option Q).            (* one value per subject, in subject order *)
Definition gdict := list (name * col).        (* metric -> values *)
Definition vdict := list (name * gdict).      (* group -> metric -> values *)
Record stat := { st_subjects : list name; st_vd : vdict }.

Definition groupnames (st : stat) : list name := map fst (st_vd st).
Definition metricnames (st : stat) : list name :=
  match st_vd st with [] => [] | (_, gd) :: _ => map fst gd end.

Fixpoint mapR {A B} (f : A -> res B) (l : list A) : res (list B) :=
  match l with
  | [] => Ok []
  | x :: t => match f x with Err e => Err e | Ok y =>
              match mapR f t with Err e => Err e | Ok r => Ok (y :: r) end end
  end.

(* get(group, metric): three assertions, then the stored list *)
Definition get (st : stat) (g m : name) : res col :=
  if negb (memn g (groupnames st)) then Err E_ASSERT else
  if negb (memn m (metricnames st)) then Err E_ASSERT else
  match alookup g (st_vd st) with
  | None => Err E_ASSERT
  | Some gd => match alookup m gd with None => Err E_ASSERT | Some c => Ok c end
  end.

(* Panoptica_Statistic.__init__: groupnames[0] (IndexError on an empty dict), then the length assertions *)
Definition mk_stat (subs : list name) (vd : vdict) : res stat :=
  let st := {| st_subjects := subs; st_vd := vd |} in
  match vd with
  | [] => Err E_INDEX
  | _ :: _ =>
      if forallb (fun ggd =>
           Nat.eqb (length (metricnames st)) (length (snd ggd)) &&
           forallb (fun m => match get st (fst ggd) m with
                             | Ok c => Nat.eqb (length c) (length subs)
                             | Err _ => false end) (metricnames st)) vd
      then Ok st else Err E_ASSERT
  end.

(* [i for i in values if i is not None] *)
Definition somes (c : col) : list Q :=
  flat_map (fun o => match o with Some q => [q] | None => [] end) c.
Definition summary_removes_nones : bool := true.       (* get_summary passes remove_nones=True *)
Definition get_vals (st : stat) (g m : name) : res (list Q) :=
  match get st g m with
  | Err e => Err e
  | Ok c => if summary_removes_nones then Ok (somes c)
            else if forallb (fun o => match o with Some _ => true | None => false end) c
                 then Ok (somes c) else Err E_EXC       (* numpy raises TypeError on a None entry *)
  end.

(* list.index: first occurrence *)
Fixpoint index_of (s : name) (l : list name) : option nat :=
  match l with
  | [] => None
  | x :: t => if name_eqb x s then Some O else
              match index_of s t with Some i => Some (S i) | None => None end
  end.

Definition get_one_subject (st : stat) (s : name) : res (list (name * list (name * option Q))) :=
  match index_of s (st_subjects st) with
  | None => Err E_ASSERT
  | Some i =>
      mapR (fun g =>
        match mapR (fun m => match get st g m with
                             | Err e => Err e
                             | Ok c => match nth_error c i with
                                       | Some v => Ok (m, v) | None => Err E_INDEX end
                             end) (metricnames st) with
        | Err e => Err e | Ok l => Ok (g, l) end) (groupnames st)
  end.

(* ---------------------------------------------------------------- ValueSummary *)
(* every intermediate result is reduced (Qred q == q): keeps the extracted engine's numbers small *)
Definition qsum (l : list Q) : Q := fold_right (fun x acc => Qred (x + acc)) 0%Q l.
Definition qlen (l : list Q) : Q := inject_Z (Z.of_nat (length l)).
Definition mean (l : list Q) : Q := Qred (qsum l / qlen l).
Definition sqdev (a x : Q) : Q := Qred ((x - a) * (x - a)).
(* sum of squared deviations from the mean over (n - ddof); ddof = 0 is numpy's default *)
Definition var_ddof (ddof : Z) (l : list Q) : Q :=
  Qred (qsum (map (sqdev (mean l)) l) / inject_Z (Z.of_nat (length l) - ddof)).
Definition variance (l : list Q) : Q := var_ddof 0 l.
(* builtin min / max: first extremal element; the caller guards non-emptiness *)
Fixpoint qmin_l (cur : Q) (l : list Q) : Q :=
  match l with [] => cur | y :: t => qmin_l (if Qle_bool cur y then cur else y) t end.
Fixpoint qmax_l (cur : Q) (l : list Q) : Q :=
  match l with [] => cur | y :: t => qmax_l (if Qle_bool y cur then cur else y) t end.

(* which library function fills which attribute (tied to the source by Gen/StatParse) *)
Inductive stat_field := FAvg | FStd | FMin | FMax.
Inductive stat_fn := NpAverage | NpMean | NpStd (ddof : Z) | PyMin | PyMax.
Definition field_fn (f : stat_field) : stat_fn :=
  match f with FAvg => NpAverage | FStd => NpStd 0 | FMin => PyMin | FMax => PyMax end.
Definition stat_table : list (stat_field * stat_fn) :=
  map (fun f => (f, field_fn f)) [FAvg; FStd; FMin; FMax].
(* value of a library function on a non-empty list x :: t (np.std reported as its square) *)
Definition eval_fn (fn : stat_fn) (x : Q) (t : list Q) : Q :=
  match fn with
  | NpAverage | NpMean => mean (x :: t)
  | NpStd d => var_ddof d (x :: t)
  | PyMin => qmin_l x t
  | PyMax => qmax_l x t
  end.

Record vsum := { vs_values : list Q; vs_avg : Q; vs_var : Q; vs_min : Q; vs_max : Q }.
(* ValueSummary(value_list): on an empty list np.average gives nan (warning) and min() raises ValueError *)
Definition value_summary (l : list Q) : res vsum :=
  match l with
  | [] => Err E_VALUE
  | x :: t => Ok {| vs_values := l;
                    vs_avg := eval_fn (field_fn FAvg) x t; vs_var := eval_fn (field_fn FStd) x t;
                    vs_min := eval_fn (field_fn FMin) x t; vs_max := eval_fn (field_fn FMax) x t |}
  end.

Definition get_summary (st : stat) (g m : name) : res vsum :=
  match get_vals st g m with Err e => Err e | Ok l => value_summary l end.

(* per metric: the statistics of the per-group averages, groups in groupnames order *)
Definition group_avgs (st : stat) (m : name) : res (list Q) :=
  mapR (fun g => match get_summary st g m with Err e => Err e | Ok v => Ok (vs_avg v) end) (groupnames st).
Definition get_summary_across_groups (st : stat) : res (list (name * vsum)) :=
  mapR (fun m => match group_avgs st m with
                 | Err e => Err e
                 | Ok l => match value_summary l with Err e => Err e | Ok v => Ok (m, v) end
                 end) (metricnames st).

(* ---------------------------------------------------------------- the table, row-wise
   a dataset = list of (subject name, its value under every (group, metric)); of_rows is the
   Panoptica_Statistic object holding it. *)
Definition rowtab := list (name * (name -> name -> option Q)).
Definition column (rows : rowtab) (g m : name) : col := map (fun r => snd r g m) rows.
Definition of_rows (G M : list name) (rows : rowtab) : stat :=
  {| st_subjects := map fst rows;
     st_vd := map (fun g => (g, map (fun m => (m, column rows g m)) M)) G |}.
