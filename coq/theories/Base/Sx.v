(* S-expressions: the only data format crossing the Coq / harness boundary.
   All decoding of test cases happens inside Coq, so the OCaml driver stays generic. *)
From Coq Require Import ZArith List QArith Bool.
Import ListNotations.
Open Scope Z_scope.

Inductive sx := SZ (z : Z) | SL (l : list sx).

Definition sZ (s : sx) : Z := match s with SZ z => z | SL _ => 0 end.
Definition sL (s : sx) : list sx := match s with SL l => l | SZ _ => [] end.
Definition sB (s : sx) : bool := negb (sZ s =? 0).
Definition ofB (b : bool) : sx := SZ (if b then 1 else 0).
Definition sNth (n : nat) (s : sx) : sx := nth n (sL s) (SZ 0).
Definition sQ (s : sx) : Q :=
  match s with SL [SZ n; SZ d] => Qmake n (Z.to_pos d) | _ => 0%Q end.
Definition ofQ (q : Q) : sx := let r := Qred q in SL [SZ (Qnum r); SZ (Zpos (Qden r))].
Definition sZs (s : sx) : list Z := map sZ (sL s).
Definition ofZs (l : list Z) : sx := SL (map SZ l).
Definition sZZ (s : sx) : Z * Z := (sZ (sNth 0 s), sZ (sNth 1 s)).
Definition ofZZ (p : Z * Z) : sx := SL [SZ (fst p); SZ (snd p)].
Definition sOpt {A} (f : sx -> A) (s : sx) : option A :=
  match s with SL [x] => Some (f x) | _ => None end.
Definition ofOpt {A} (f : A -> sx) (o : option A) : sx :=
  match o with Some a => SL [f a] | None => SL [] end.

Fixpoint sx_eqb (a b : sx) {struct a} : bool :=
  match a, b with
  | SZ x, SZ y => x =? y
  | SL l, SL m =>
      (fix go (l : list sx) (m : list sx) {struct l} : bool :=
         match l, m with
         | [], [] => true
         | x :: l', y :: m' => sx_eqb x y && go l' m'
         | _, _ => false
         end) l m
  | _, _ => false
  end.

(* a float-like value as panoptica reports it *)
Inductive fval := FQ (q : Q) | FInf | FNInf | FNan | FNone.
Definition ofF (v : fval) : sx :=
  match v with
  | FQ q => SL [SZ 0; ofQ q] | FInf => SL [SZ 1] | FNInf => SL [SZ 2]
  | FNan => SL [SZ 3] | FNone => SL [SZ 4]
  end.
Definition sF (s : sx) : fval :=
  match s with
  | SL [SZ 0; q] => FQ (sQ q) | SL [SZ 1] => FInf | SL [SZ 2] => FNInf
  | SL [SZ 3] => FNan | _ => FNone
  end.
Definition fval_eqb (a b : fval) : bool :=
  match a, b with
  | FQ x, FQ y => Qeq_bool x y
  | FInf, FInf | FNInf, FNInf | FNan, FNan | FNone, FNone => true
  | _, _ => false
  end.
