(* Small shared vocabulary of the executable model. *)
From Coq Require Export ZArith List QArith Bool Lia.
Export ListNotations.
Open Scope Z_scope.

Inductive res (A : Type) := Ok (a : A) | Err (code : Z).
Arguments Ok {A} a. Arguments Err {A} code.
Definition rbind {A B} (r : res A) (f : A -> res B) : res B :=
  match r with Ok a => f a | Err c => Err c end.

(* Error codes shared with the harness *)
Definition E_ZERODIV : Z := 1.      (* ZeroDivisionError *)
Definition E_ASSERT : Z := 2.       (* AssertionError *)
Definition E_EXC : Z := 3.          (* generic Exception *)
Definition E_NOTIMPL : Z := 4.      (* NotImplementedError *)
Definition E_INDEX : Z := 5.        (* IndexError / KeyError *)
Definition E_VALUE : Z := 6.        (* ValueError *)
Definition E_UNBOUND : Z := 7.      (* UnboundLocalError *)

Definition b2z (b : bool) : Z := if b then 1 else 0.

Fixpoint cntZ {A} (f : A -> bool) (l : list A) : Z :=
  match l with [] => 0 | x :: t => b2z (f x) + cntZ f t end.
Fixpoint sumZ (l : list Z) : Z :=
  match l with [] => 0 | x :: t => x + sumZ t end.

Definition memZ (x : Z) (l : list Z) : bool := existsb (Z.eqb x) l.

Fixpoint dedupZ (l : list Z) : list Z :=
  match l with [] => [] | x :: t => if memZ x t then dedupZ t else x :: dedupZ t end.

(* insertion sort on Z, ascending: numpy.unique order *)
Fixpoint insZ (x : Z) (l : list Z) : list Z :=
  match l with [] => [x] | y :: t => if x <=? y then x :: l else y :: insZ x t end.
Definition sortZ (l : list Z) : list Z := fold_right insZ [] l.
Definition uniqueZ (l : list Z) : list Z := sortZ (dedupZ l).

Definition maxZ (l : list Z) : Z := fold_right Z.max 0 l.

(* exact quotient of two integers as a rational; the caller guards d <> 0 *)
Definition qdiv (n d : Z) : Q := (inject_Z n / inject_Z d)%Q.
