(* IEEE-754 binary64 round-to-nearest-even of an exact rational, as an exact rational, by pure
   Z arithmetic.  Python's int/int true division and numpy's int64/int64 division return exactly
   this value for operands below 2^53 (validated by the harness on every run, see harness/rnd.py).
   Subnormals/overflow are outside the domain used here (ratios of voxel counts). *)
From Coq Require Import ZArith QArith Lia.
Open Scope Z_scope.

Definition bitlen (n : Z) : Z := if n =? 0 then 0 else Z.log2 n + 1.
Definition rnd_pos (n d : Z) : Q :=       (* n > 0, d > 0 *)
  let e0 := bitlen n - bitlen d in
  let ge := if 0 <=? e0 then d * 2 ^ e0 <=? n else d <=? n * 2 ^ (- e0) in
  let e := if ge then e0 else e0 - 1 in
  let s := 52 - e in
  let num := if 0 <=? s then n * 2 ^ s else n in
  let den := if 0 <=? s then d else d * 2 ^ (- s) in
  let m := num / den in
  let r := num mod den in
  let m' := if (den <? 2 * r) || ((2 * r =? den) && Z.odd m) then m + 1 else m in
  if 0 <=? s then Qmake m' (Z.to_pos (2 ^ s)) else inject_Z (m' * 2 ^ (- s)).
Definition rnd (q : Q) : Q :=
  let n := Qnum q in let d := Zpos (Qden q) in
  if n =? 0 then 0%Q else if 0 <? n then rnd_pos n d else Qopp (rnd_pos (- n) d).

Example rnd_tenth : Qeq_bool (rnd (1 # 10)) (3602879701896397 # 36028797018963968) = true.
Proof. vm_compute. reflexivity. Qed.
Example rnd_third : Qeq_bool (rnd (1 # 3)) (6004799503160661 # 18014398509481984) = true.
Proof. vm_compute. reflexivity. Qed.
Example rnd_dyadic : Qeq_bool (rnd (3 # 4)) (3 # 4) = true.
Proof. vm_compute. reflexivity. Qed.
Example rnd_neg : Qeq_bool (rnd (-1 # 3)) (Qopp (rnd (1 # 3))) = true.
Proof. vm_compute. reflexivity. Qed.
