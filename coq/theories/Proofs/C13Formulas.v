(* C13, concrete overlap metrics: the global Dice / IoU / RVD of a pair of label maps are the
   published set formulas of the two FOREGROUNDS of the original (multi-label) arrays -- the instance
   labels, the number of instances and the order of the voxels do not enter. *)
From Coq Require Import Permutation.
From Pan Require Import Base.Common Base.Rnd64 Base.Sx Model.MetricTable Model.EdgeCase Model.Result Model.Metrics
  Proofs.ResultFacts Proofs.MetricsFacts Proofs.C13Proofs Proofs.Invariance.
Open Scope Z_scope.

Lemma nz_b2z_nz x : nz (b2z (nz x)) = nz x.
Proof. destruct (nz x); reflexivity. Qed.

Lemma binarise_binary a : binary (binarise a).
Proof.
  intros v Hv. unfold binarise in Hv. apply in_map_iff in Hv. destruct Hv as [w [<- _]].
  cbn [fst snd]. unfold is01. split.
  - destruct (nz (fst w)); cbn [b2z]; auto.
  - destruct (nz (snd w)); cbn [b2z]; auto.
Qed.

Lemma n_ref_binarise a : n_ref (binarise a) = n_ref a.
Proof.
  unfold n_ref, binarise. rewrite cntZ_map. apply cntZ_ext. intros v _. cbn [fst]. apply nz_b2z_nz.
Qed.
Lemma n_pred_binarise a : n_pred (binarise a) = n_pred a.
Proof.
  unfold n_pred, binarise. rewrite cntZ_map. apply cntZ_ext. intros v _. cbn [snd]. apply nz_b2z_nz.
Qed.
Lemma n_inter_binarise a : n_inter (binarise a) = n_inter a.
Proof.
  unfold n_inter, binarise. rewrite cntZ_map. apply cntZ_ext. intros v _. cbn [fst snd].
  now rewrite !nz_b2z_nz.
Qed.
Lemma n_union_binarise a : n_union (binarise a) = n_union a.
Proof.
  unfold n_union, binarise. rewrite cntZ_map. apply cntZ_ext. intros v _. cbn [fst snd].
  now rewrite !nz_b2z_nz.
Qed.

(* global Dice = 2 |R n P| / (|R| + |P|) of the foregrounds of the ORIGINAL arrays (one IEEE division) *)
Lemma global_dice_formula a :
  dice None (binarise a) =
  rnd (if n_ref a + n_pred a =? 0 then 0%Q else qdiv (2 * n_inter a) (n_ref a + n_pred a)).
Proof.
  unfold dice, metric_input, dice_raw. rewrite (dice_exact_binary _ (binarise_binary a)).
  now rewrite n_ref_binarise, n_pred_binarise, n_inter_binarise.
Qed.

(* global IoU = |R n P| / |R u P| *)
Lemma global_iou_formula a :
  iou None (binarise a) = rnd (if n_union a =? 0 then 0%Q else qdiv (n_inter a) (n_union a)).
Proof.
  unfold iou, metric_input, iou_raw, iou_exact. now rewrite n_inter_binarise, n_union_binarise.
Qed.

(* global RVD = (|P| - |R|) / |R|; division by an empty reference raises unless both are empty *)
Lemma global_rvd_formula a :
  rvd None (binarise a) =
  match rvd_exact (n_ref a) (n_pred a) with Ok q => Ok (rnd q) | Err c => Err c end.
Proof.
  unfold rvd, metric_input, rvd_raw.
  rewrite (sum_ref_binary _ (binarise_binary a)), (sum_pred_binary _ (binarise_binary a)).
  now rewrite n_ref_binarise, n_pred_binarise.
Qed.

(* the four counts, hence the three metrics and the emptiness flags, do not depend on the voxel order *)
Lemma binarise_perm a a' : Permutation a a' -> Permutation (binarise a) (binarise a').
Proof. intros H. unfold binarise. now apply Permutation_map. Qed.

Lemma fg_flags_counts a :
  fg_ref_empty a = (n_ref a =? 0) /\ fg_pred_empty a = (n_pred a =? 0).
Proof.
  unfold fg_ref_empty, fg_pred_empty.
  rewrite (sum_ref_binary _ (binarise_binary a)), (sum_pred_binary _ (binarise_binary a)).
  now rewrite n_ref_binarise, n_pred_binarise.
Qed.

Lemma counts_perm a a' : Permutation a a' ->
  n_ref a = n_ref a' /\ n_pred a = n_pred a' /\ n_inter a = n_inter a' /\ n_union a = n_union a'.
Proof. intros H. unfold n_ref, n_pred, n_inter, n_union. repeat split; now apply cntZ_perm. Qed.

Definition gF_dice (b : arr2) : res fval := Ok (FQ (dice None b)).
Definition gF_iou (b : arr2) : res fval := Ok (FQ (iou None b)).
Definition gF_rvd (b : arr2) : res fval := match rvd None b with Ok q => Ok (FQ q) | Err c => Err c end.

(* same four foreground counts -> same global Dice, IoU and RVD entry (handler branches included) *)
Lemma global_overlap_counts h m a a' :
  n_ref a = n_ref a' -> n_pred a = n_pred a' -> n_inter a = n_inter a' -> n_union a = n_union a' ->
  global_value gF_dice h m a = global_value gF_dice h m a' /\
  global_value gF_iou h m a = global_value gF_iou h m a' /\
  global_value gF_rvd h m a = global_value gF_rvd h m a'.
Proof.
  intros Hr Hp Hi Hu. unfold global_value.
  destruct (fg_flags_counts a) as [-> ->]. destruct (fg_flags_counts a') as [-> ->].
  unfold gF_dice, gF_iou, gF_rvd.
  rewrite !global_dice_formula, !global_iou_formula, !global_rvd_formula.
  now rewrite Hr, Hp, Hi, Hu.
Qed.

Lemma global_overlap_perm h m a a' : Permutation a a' ->
  global_value gF_dice h m a = global_value gF_dice h m a' /\
  global_value gF_iou h m a = global_value gF_iou h m a' /\
  global_value gF_rvd h m a = global_value gF_rvd h m a'.
Proof.
  intros H. destruct (counts_perm a a' H) as [Hr [Hp [Hi Hu]]]. now apply global_overlap_counts.
Qed.

(* exchanging the two arrays leaves global Dice and IoU unchanged (RVD is not symmetric) *)
Lemma global_dice_iou_exchange a :
  dice None (binarise (swap2 a)) = dice None (binarise a) /\
  iou None (binarise (swap2 a)) = iou None (binarise a).
Proof.
  assert (E : binarise (swap2 a) = swap2 (binarise a)).
  { unfold binarise, swap2. rewrite !map_map. apply map_ext. intros [r p]. reflexivity. }
  rewrite E. unfold dice, iou, metric_input. split; [apply dice_symmetric|apply iou_symmetric].
Qed.
