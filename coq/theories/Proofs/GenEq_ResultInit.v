(* T1 leaf: PanopticaResult.__init__ as read by the translator agrees with the model (Model/Result.v, Proofs/C13Proofs.v). *)
From Pan Require Import Base.Common Base.Sx Model.MetricTable Model.Metrics Model.EdgeCase Model.Result Proofs.C13Proofs Gen.ResultInit.
From Coq Require Import ZifyBool.
Open Scope Z_scope.

(* the arrays handed to the global metrics are binarised voxel by voxel with `!= 0` *)
Lemma geneq_binarise a : binarise a = map (fun v => (gen_binarise (fst v), gen_binarise (snd v))) a.
Proof.
  unfold binarise, gen_binarise. apply map_ext. intros v. unfold nz, b2z.
  destruct (fst v =? 0), (snd v =? 0); reflexivity.
Qed.

(* a list-metric object (and its handle_zero_tp call) exists exactly for the evaluated metrics: build_metrics skips the others *)
Lemma geneq_list_metric_exists b : gen_list_metric_exists b = b.
Proof. reflexivity. Qed.
Lemma geneq_unevaluated_skipped i rq m t : lookup_m m (r_lists i) = None -> build_metrics i rq (m :: t) = build_metrics i rq t.
Proof. intros H. cbn [build_metrics]. now rewrite H. Qed.

(* a global metric is calculated iff it was requested and the arrays are present *)
Lemma geneq_global_calculated a b : gen_global_calculated a b = a && b.
Proof. reflexivity. Qed.
