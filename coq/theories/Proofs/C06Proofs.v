(* Property-level statements of C06, proved from MetricsFacts. *)
From Pan Require Import Base.Common Base.Rnd64 Model.Metrics Proofs.MetricsFacts.
Open Scope Z_scope.

Section Selected.
  Variables (ri : Z) (pis : list Z) (a : arr2).
  (* the voxel sets selected by the reference label and the prediction label list *)
  Definition inX (v : Z * Z) : bool := fst v =? ri.
  Definition inY (v : Z * Z) : bool := memZ (snd v) pis.
  Definition cX := cntZ inX a.
  Definition cY := cntZ inY a.
  Definition cI := cntZ (fun v => inX v && inY v) a.
  Definition cU := cntZ (fun v => inX v || inY v) a.

  Lemma inY_union v : inY v = true <-> In (snd v) pis.
  Proof. apply memZ_In. Qed.

  Lemma sel_incl_excl : cU + cI = cX + cY.
  Proof. apply incl_excl. Qed.

  Lemma dice_sel_def :
    dice (Some (ri, pis)) a = rnd (if cX + cY =? 0 then 0%Q else qdiv (2 * cI) (cX + cY)).
  Proof.
    unfold dice, metric_input, dice_raw. rewrite (dice_exact_binary _ (select_binary ri pis a)).
    rewrite n_ref_select, n_pred_select, n_inter_select. reflexivity.
  Qed.

  Lemma iou_sel_def :
    iou (Some (ri, pis)) a = rnd (if cU =? 0 then 0%Q else qdiv cI cU).
  Proof.
    unfold iou, metric_input, iou_raw, iou_exact. rewrite n_inter_select, n_union_select. reflexivity.
  Qed.

  Lemma rvd_sel_def :
    rvd (Some (ri, pis)) a =
      if (cX =? 0) && (cY =? 0) then Ok 0%Q
      else if cX =? 0 then Err E_ZERODIV else Ok (rnd (qdiv (cY - cX) cX)).
  Proof.
    unfold rvd, metric_input, rvd_raw, rvd_exact.
    rewrite (sum_ref_binary _ (select_binary ri pis a)), (sum_pred_binary _ (select_binary ri pis a)).
    rewrite n_ref_select, n_pred_select. unfold cX, cY, inX, inY.
    destruct (cntZ (fun v : Z * Z => fst v =? ri) a =? 0), (cntZ (fun v : Z * Z => memZ (snd v) pis) a =? 0);
      reflexivity.
  Qed.
End Selected.

(* without label selection the functions are documented for binary masks *)
Lemma dice_bin_def a : binary a ->
  dice None a = rnd (if n_ref a + n_pred a =? 0 then 0%Q else qdiv (2 * n_inter a) (n_ref a + n_pred a)).
Proof. intros Hb. unfold dice, metric_input, dice_raw. now rewrite (dice_exact_binary a Hb). Qed.
Lemma iou_bin_def a :
  iou None a = rnd (if n_union a =? 0 then 0%Q else qdiv (n_inter a) (n_union a)).
Proof. reflexivity. Qed.
Lemma rvd_bin_def a : binary a -> n_ref a <> 0 ->
  rvd None a = Ok (rnd (qdiv (n_pred a - n_ref a) (n_ref a))).
Proof.
  intros Hb Hr. unfold rvd, metric_input, rvd_raw.
  rewrite (sum_ref_binary a Hb), (sum_pred_binary a Hb), (rvd_exact_spec _ _ Hr). reflexivity.
Qed.

(* clDice on binary masks: harmonic mean of the two skeleton coverages *)
Definition binary4 (a : arr4) : Prop :=
  forall v, In v a -> is01 (fst (fst v)) /\ is01 (snd (fst v)).
Lemma cl_num_binary_p (a : arr4) : binary4 a ->
  cl_score_num (fun v => snd (fst v)) (fun v => fst (snd v)) a
  = cntZ (fun v => nz (snd (fst v)) && fst (snd v)) a.
Proof.
  unfold cl_score_num. induction a as [|v a IH]; intros Hb; cbn [map sumZ cntZ]; [reflexivity|].
  rewrite IH; [|intros w Hw; apply Hb; now right].
  destruct (Hb v (or_introl eq_refl)) as [_ [H|H]]; rewrite H; destruct (fst (snd v)); reflexivity.
Qed.
Lemma cl_num_binary_r (a : arr4) : binary4 a ->
  cl_score_num (fun v => fst (fst v)) (fun v => snd (snd v)) a
  = cntZ (fun v => nz (fst (fst v)) && snd (snd v)) a.
Proof.
  unfold cl_score_num. induction a as [|v a IH]; intros Hb; cbn [map sumZ cntZ]; [reflexivity|].
  rewrite IH; [|intros w Hw; apply Hb; now right].
  destruct (Hb v (or_introl eq_refl)) as [[H|H] _]; rewrite H; destruct (snd (snd v)); reflexivity.
Qed.

Lemma cldice_harmonic (a : arr4) q : binary4 a -> cldice_exact a = Some q ->
  let skX := cntZ (fun v => fst (snd v)) a in            (* |skel X| *)
  let skY := cntZ (fun v => snd (snd v)) a in            (* |skel Y| *)
  let tprec := qdiv (cntZ (fun v => nz (snd (fst v)) && fst (snd v)) a) skX in   (* |Y n skel X| / |skel X| *)
  let tsens := qdiv (cntZ (fun v => nz (fst (fst v)) && snd (snd v)) a) skY in   (* |X n skel Y| / |skel Y| *)
  skX <> 0 /\ skY <> 0 /\ q = (2 * tprec * tsens / (tprec + tsens))%Q.
Proof.
  intros Hb. unfold cldice_exact, cl_score_den.
  rewrite (cl_num_binary_p a Hb), (cl_num_binary_r a Hb).
  destruct (cntZ (fun v => fst (snd v)) a =? 0) eqn:E1; cbn [orb]; [discriminate|].
  destruct (cntZ (fun v => snd (snd v)) a =? 0) eqn:E2; [discriminate|].
  match goal with |- context[Qeq_bool ?x 0] => destruct (Qeq_bool x 0) end; [discriminate|].
  intros [= <-]. repeat split; lia.
Qed.
