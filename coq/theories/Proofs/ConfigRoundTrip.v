(* Round trips of every configurable component and of the evaluator configuration, for ANY tables that
   pass tables_ok; by structural induction over the configuration (lists of metrics, handler entries,
   groups, labels), using the generic class lemma of ConfigFacts. *)
From Pan Require Import Base.Common Model.MetricTable Model.Config Proofs.ConfigFacts.
Open Scope Z_scope.

Lemma pass_nonnull (spec : list (str * kind)) (f : fields) :
  (forall a y, aget a f = Some y -> is_null y = false) ->
  forall a k y, In (a, k) spec -> aget a f = Some y -> passes k y = true.
Proof. intros H a k y _ Hy. specialize (H a y Hy). destruct k; simpl; try reflexivity; rewrite H; reflexivity. Qed.

Lemma pass_plain_or (spec : list (str * kind)) (f : fields) :
  (forall a k, In (a, k) spec -> k = KPlain \/ k = KLabels \/ k = KGroups
                                 \/ forall y, aget a f = Some y -> is_null y = false) ->
  forall a k y, In (a, k) spec -> aget a f = Some y -> passes k y = true.
Proof.
  intros H a k y Hin Hy. destruct (H a k Hin) as [->|[->|[->|Hn]]]; try reflexivity.
  specialize (Hn y Hy). destruct k; simpl; try reflexivity; rewrite Hn; reflexivity.
Qed.

Lemma list_eqbZ_eq a b : list_eqbZ a b = true -> a = b.
Proof.
  revert b. induction a as [|x a IH]; intros [|y b]; simpl; try discriminate; [reflexivity|].
  intros H. apply andb_true_iff in H as [H1 H2]. apply Z.eqb_eq in H1. f_equal; [exact H1|apply IH, H2].
Qed.

Section RT.
Variable T : tables.
Hypothesis HT : tables_ok T = true.

Ltac part := pose proof HT as H; unfold tables_ok in H; repeat rewrite andb_true_iff in H; decompose [and] H; assumption.
Lemma ok_ev : ct_ok (spec_ev T) (t_ev T) = true. Proof. part. Qed.
Lemma ok_naive : ct_ok spec_naive (t_naive T) = true. Proof. part. Qed.
Lemma ok_merge : ct_ok spec_merge (t_merge T) = true. Proof. part. Qed.
Lemma ok_cc : ct_ok spec_cc (t_cc T) = true. Proof. part. Qed.
Lemma ok_mzh : ct_ok spec_mzh (t_mzh T) = true. Proof. part. Qed.
Lemma ok_ech : ct_ok spec_ech (t_ech T) = true. Proof. part. Qed.
Lemma ok_lg : ct_ok spec_lg (t_lg T) = true. Proof. part. Qed.
Lemma ok_lmg : ct_ok spec_lg (t_lmg T) = true. Proof. part. Qed.
Lemma ok_any : ct_ok [] (t_any T) = true. Proof. part. Qed.
Lemma ok_scg : ct_ok spec_scg (t_scg T) = true. Proof. part. Qed.
Lemma ok_noscg : ct_ok [] (t_noscg T) = true. Proof. part. Qed.
Lemma ok_e_metric : enum_ok (e_metric T) 5 = true. Proof. part. Qed.
Lemma ok_e_input : enum_ok (e_input T) 3 = true. Proof. part. Qed.
Lemma ok_e_backend : enum_ok (e_backend T) 2 = true. Proof. part. Qed.
Lemma ok_e_ecres : enum_ok (e_ecres T) 5 = true. Proof. part. Qed.
Lemma ok_e_zerotp : enum_ok (e_zerotp T) 4 = true. Proof. part. Qed.
Lemma ne_naive_merge : str_eqb (ct_cls (t_naive T)) (ct_cls (t_merge T)) = false.
Proof. apply negb_true_iff. part. Qed.
Lemma ne_lg_lmg : str_eqb (ct_cls (t_lg T)) (ct_cls (t_lmg T)) = false.
Proof. apply negb_true_iff. part. Qed.
Lemma ne_scg_noscg : str_eqb (ct_cls (t_scg T)) (ct_cls (t_noscg T)) = false.
Proof. apply negb_true_iff. part. Qed.

(* ---- enums: saved by name, loaded by name *)
Lemma rt_metric m : dec_metric T (enc_metric T m) = Ok m.
Proof. apply (dec_enc_enum _ _ 5%nat); [apply ok_e_metric|destruct m; simpl; lia|destruct m; reflexivity]. Qed.
Lemma rt_input i : dec_input T (enc_input T i) = Ok i.
Proof. apply (dec_enc_enum _ _ 3%nat); [apply ok_e_input|destruct i; simpl; lia|destruct i; reflexivity]. Qed.
Lemma rt_backend b : dec_backend T (enc_backend T b) = Ok b.
Proof. apply (dec_enc_enum _ _ 2%nat); [apply ok_e_backend|destruct b; simpl; lia|destruct b; reflexivity]. Qed.
Lemma rt_ecres r : dec_ecres T (enc_ecres T r) = Ok r.
Proof. apply (dec_enc_enum _ _ 5%nat); [apply ok_e_ecres|destruct r; simpl; lia|destruct r; reflexivity]. Qed.
Lemma rt_zerotp z : dec_zerotp T (enc_zerotp T z) = Ok z.
Proof. apply (dec_enc_enum _ _ 4%nat); [apply ok_e_zerotp|destruct z; simpl; lia|destruct z; reflexivity]. Qed.

Lemma rt_opt {A} (e : A -> yaml) (d : yaml -> res A) (o : option A) :
  (forall a, d (e a) = Ok a) -> (forall a, is_null (e a) = false) -> dec_opt d (enc_opt e o) = Ok o.
Proof.
  intros Hd Hn. destruct o as [a|]; simpl; [|reflexivity].
  specialize (Hd a). specialize (Hn a). unfold dec_opt.
  destruct (e a) eqn:E; try discriminate; rewrite Hd; reflexivity.
Qed.

Lemma rt_metrics l : dec_metrics T (enc_metrics T l) = Ok l.
Proof. unfold dec_metrics, enc_metrics. apply mapM_map. intros x _. apply rt_metric. Qed.

Lemma rbind_Ok {A B} (a : A) (f : A -> res B) : rbind (Ok a) f = f a.
Proof. reflexivity. Qed.
Ltac step := rewrite ?rbind_Ok; cbv beta.
Ltac unfold_specs := unfold spec_ev, spec_naive, spec_merge, spec_cc, spec_mzh, spec_ech, spec_lg, spec_scg.
Ltac getA Hg A := erewrite (Hg A); [ | unfold_specs; cbn [map fst In]; tauto | reflexivity ].
Ltac plain_pass :=
  let a := fresh in let k := fresh in let y := fresh in let Hin := fresh in let E := fresh in
  intros a k y Hin _; unfold spec_ev, spec_naive, spec_merge, spec_cc, spec_mzh, spec_ech, spec_lg, spec_scg in Hin; cbn [In] in Hin;
  repeat (destruct Hin as [E|Hin]; [inversion E; reflexivity|]); contradiction.

(* ---- matchers *)
Theorem rt_matcher x : dec_matcher T (enc_matcher T x) = Ok x.
Proof.
  destruct x as [m t b|m t].
  - destruct (dec_enc_obj spec_naive (t_naive T) (fields_matcher T (MNaive m t b)) ok_naive) as [st [Hd Hg]];
      [plain_pass|].
    unfold dec_matcher, enc_matcher. unfold enc_obj at 1. rewrite str_eqb_refl. rewrite Hd. step.
    getA Hg A_m_metric. step. rewrite rt_metric. step.
    getA Hg A_m_thr. step. getA Hg A_m_m2o. reflexivity.
  - destruct (dec_enc_obj spec_merge (t_merge T) (fields_matcher T (MMerge m t)) ok_merge) as [st [Hd Hg]];
      [plain_pass|].
    unfold dec_matcher, enc_matcher. unfold enc_obj at 1.
    rewrite (str_eqb_sym (ct_cls (t_merge T))), ne_naive_merge, str_eqb_refl. rewrite Hd. step.
    getA Hg A_m_metric. step. rewrite rt_metric. step.
    getA Hg A_m_thr. reflexivity.
Qed.

(* ---- approximator *)
Theorem rt_approx x : dec_approx T (enc_approx T x) = Ok x.
Proof.
  destruct x as [b]. unfold dec_approx, enc_approx.
  destruct (dec_enc_obj spec_cc (t_cc T) [(A_cc_backend, enc_opt (enc_backend T) b)] ok_cc) as [st [Hd Hg]];
    [plain_pass|].
  rewrite Hd. step. getA Hg A_cc_backend. step.
  rewrite (rt_opt _ _ b rt_backend) by (intros; reflexivity). reflexivity.
Qed.

(* ---- MetricZeroTPEdgeCaseHandling: only the four filled entries are emitted; loading them with
        default_result = None reproduces the same four-entry table *)
Lemma rt_entry r : dec_entry T (enc_ecres T r) = Ok r.
Proof. unfold dec_entry. change (is_null (enc_ecres T r)) with false. apply rt_ecres. Qed.

Theorem rt_mzh z : dec_mzh T (enc_mzh T z) = Ok z.
Proof.
  unfold dec_mzh, enc_mzh.
  destruct (dec_enc_obj spec_mzh (t_mzh T) (fields_mzh T z) ok_mzh) as [st [Hd Hg]].
  { apply pass_nonnull. intros a y Hy. unfold fields_mzh in Hy. cbn [aget] in Hy.
    repeat (match type of Hy with (if ?c then _ else _) = _ => destruct c end;
            [inversion Hy; reflexivity|]). discriminate. }
  rewrite Hd. step.
  getA Hg A_mz_no. step. rewrite rt_entry. step.
  getA Hg A_mz_ep. step. rewrite rt_entry. step.
  getA Hg A_mz_er. step. rewrite rt_entry. step.
  getA Hg A_mz_normal. step. rewrite rt_entry. step.
  destruct z; reflexivity.
Qed.

(* ---- EdgeCaseHandler: induction over the per-metric table *)
Lemma nodup_metrics_map (l : list (metric * mzh)) : map fst (map (fun mz => (fst mz, snd mz)) l) = map fst l.
Proof. induction l as [|[m z] l IH]; simpl; [reflexivity|]. rewrite IH. reflexivity. Qed.

Lemma rt_htable l : nodup_metrics (map fst l) = true -> dec_htable T (enc_htable T l) = Ok l.
Proof.
  intros Hnd. unfold dec_htable, enc_htable.
  rewrite (mapM_map _ (fun mz : metric * mzh => (enc_metric T (fst mz), enc_mzh T (snd mz))) l).
  - step. rewrite Hnd. reflexivity.
  - intros [m z] _. cbn [fst snd]. rewrite rt_metric. step. rewrite rt_mzh. reflexivity.
Qed.

Theorem rt_handler h : wf_handler h = true -> dec_handler T (enc_handler T h) = Ok h.
Proof.
  intros Hwf. unfold dec_handler, enc_handler.
  destruct (dec_enc_obj spec_ech (t_ech T) (fields_handler T h) ok_ech) as [st [Hd Hg]]; [plain_pass|].
  rewrite Hd. step.
  getA Hg A_h_table. step. rewrite (rt_htable _ Hwf). step.
  getA Hg A_h_std. step. rewrite rt_ecres. step. destruct h; reflexivity.
Qed.

(* ---- LabelGroup / LabelMergeGroup: the tag decides the class that comes back *)
Lemma rt_labels l : dec_labels (YSeq (map (fun z => YNum (NInt z)) l)) = Ok l.
Proof. unfold dec_labels. apply mapM_map. intros; reflexivity. Qed.

Lemma pass_lg g : forall a k y, In (a, k) spec_lg -> aget a (fields_lgroup g) = Some y -> passes k y = true.
Proof.
  intros a k y Hin _. unfold spec_lg in Hin. cbn [In] in Hin.
  destruct Hin as [E|[E|[]]]; inversion E; reflexivity.
Qed.

Lemma build_ok k g st : wf_lgroup g = true -> g_kind g = k ->
  sget A_g_labels st = Ok (YSeq (map (fun z => YNum (NInt z)) (g_labels g))) ->
  sget A_g_single st = Ok (YBool (g_single g)) ->
  build_lgroup k st = Ok g.
Proof.
  intros Hwf Hk H1 H2. unfold wf_lgroup in Hwf. repeat rewrite andb_true_iff in Hwf.
  destruct Hwf as [[[W1 W2] W3] W4]. apply list_eqbZ_eq in W1.
  unfold build_lgroup. rewrite H1. step. rewrite rt_labels. step.
  rewrite W1, W2, W3, H2. cbn [assertR rbind dec_bool]. rewrite W4. cbn [assertR rbind].
  destruct g; simpl in *; subst; reflexivity.
Qed.

Theorem rt_lgroup g : wf_lgroup g = true -> dec_lgroup T (enc_lgroup T g) = Ok g.
Proof.
  intros Hwf. unfold dec_lgroup, enc_lgroup. destruct (g_kind g) eqn:Ek; unfold lg_table.
  - destruct (dec_enc_obj spec_lg (t_lg T) (fields_lgroup g) ok_lg (pass_lg g)) as [st [Hd Hg]].
    unfold enc_obj at 1. rewrite str_eqb_refl, Hd. step.
    apply build_ok; [exact Hwf|exact Ek| |].
    + getA Hg A_g_labels. reflexivity.
    + getA Hg A_g_single. reflexivity.
  - destruct (dec_enc_obj spec_lg (t_lmg T) (fields_lgroup g) ok_lmg (pass_lg g)) as [st [Hd Hg]].
    unfold enc_obj at 1. rewrite (str_eqb_sym (ct_cls (t_lmg T))), ne_lg_lmg, str_eqb_refl, Hd. step.
    apply build_ok; [exact Hwf|exact Ek| |].
    + getA Hg A_g_labels. reflexivity.
    + getA Hg A_g_single. reflexivity.
Qed.

Theorem rt_any : dec_any T (enc_any T) = Ok tt.
Proof.
  unfold dec_any, enc_any.
  destruct (dec_enc_obj [] (t_any T) [] ok_any) as [st [Hd _]]; [intros ? ? ? []|].
  rewrite Hd. reflexivity.
Qed.

(* ---- SegmentationClassGroups: induction over the named groups *)
Lemma rt_gdict l :
  forallb (fun ng => wf_name (fst ng) && wf_lgroup (snd ng)) l = true -> nodupS (map fst l) = true ->
  dec_gdict T (enc_gdict T l) = Ok l.
Proof.
  intros Hall Hnd. unfold dec_gdict, enc_gdict.
  rewrite (mapM_map _ (fun ng : str * lgroup => (YStr (fst ng), enc_lgroup T (snd ng))) l).
  - step. rewrite Hnd. reflexivity.
  - intros [n g] Hin. rewrite forallb_forall in Hall. specialize (Hall _ Hin). simpl in Hall.
    apply andb_true_iff in Hall as [Hn Hg]. unfold wf_name in Hn. apply andb_true_iff in Hn as [Ha Hl].
    apply str_eqb_eq in Hl. cbn [fst snd]. rewrite Ha, (rt_lgroup g Hg). step. rewrite Hl. reflexivity.
Qed.

Theorem rt_groups g : wf_groups g = true -> dec_groups T (enc_groups T g) = Ok g.
Proof.
  intros Hwf. unfold dec_groups, enc_groups. destruct g as [|l].
  - destruct (dec_enc_obj [] (t_noscg T) [] ok_noscg) as [st [Hd _]]; [intros ? ? ? []|].
    unfold enc_obj at 1. rewrite str_eqb_refl, Hd. reflexivity.
  - simpl in Hwf. apply andb_true_iff in Hwf as [Hall Hnd].
    destruct (dec_enc_obj spec_scg (t_scg T) [(A_s_dict, enc_gdict T l)] ok_scg) as [st [Hd Hg]].
    { intros a k y Hin _. unfold spec_scg in Hin. cbn [In] in Hin. destruct Hin as [E|[]]; inversion E; reflexivity. }
    unfold enc_obj at 1. rewrite ne_scg_noscg, str_eqb_refl, Hd. step.
    getA Hg A_s_dict. step. rewrite (rt_gdict l Hall Hnd). reflexivity.
Qed.

(* ---- the evaluator *)
Lemma null_handler h : is_null (enc_handler T h) = false. Proof. reflexivity. Qed.
Lemma null_groups g : is_null (enc_groups T g) = false. Proof. destruct g; reflexivity. Qed.

Lemma pass_ev c : forall a k y, In (a, k) (spec_ev T) -> aget a (fields_ev T c) = Some y -> passes k y = true.
Proof.
  apply pass_plain_or. intros a k Hin. unfold spec_ev in Hin. cbn [In] in Hin.
  repeat (destruct Hin as [E|Hin]; [inversion E; subst; clear E; try (left; reflexivity)|]); try contradiction.
  - right; right; right. intros y Hy.
    assert (Hv : aget A_ev_handler (fields_ev T c) = Some (enc_handler T (c_handler c))) by reflexivity.
    rewrite Hv in Hy. inversion Hy. apply null_handler.
  - right; right; right. intros y Hy.
    assert (Hv : aget A_ev_groups (fields_ev T c) = Some (enc_groups T (c_groups c))) by reflexivity.
    rewrite Hv in Hy. inversion Hy. apply null_groups.
Qed.

Theorem rt_config c : wf_config c = true -> decode T (encode T c) = Ok c.
Proof.
  intros Hwf. unfold wf_config in Hwf. repeat rewrite andb_true_iff in Hwf. destruct Hwf as [[Wh Wg] Wd].
  unfold decode, encode.
  destruct (dec_enc_obj (spec_ev T) (t_ev T) (fields_ev T c) ok_ev (pass_ev c)) as [st [Hd Hg]].
  rewrite Hd. step.
  getA Hg A_ev_input. step. rewrite rt_input. step.
  getA Hg A_ev_approx. step. rewrite (rt_opt _ _ (c_approx c) rt_approx) by (intros []; reflexivity). step.
  getA Hg A_ev_matcher. step. rewrite (rt_opt _ _ (c_matcher c) rt_matcher) by (intros []; reflexivity). step.
  getA Hg A_ev_handler. step. rewrite (rt_handler _ Wh). step.
  getA Hg A_ev_groups. step. rewrite (rt_groups _ Wg). step.
  getA Hg A_ev_inst. step. rewrite rt_metrics. step.
  getA Hg A_ev_glob. step. rewrite rt_metrics. step.
  getA Hg A_ev_dmetric. step. rewrite (rt_opt _ _ (c_dmetric c) rt_metric) by (intros; reflexivity). step.
  getA Hg A_ev_dthr. step.
  rewrite (rt_opt YNum dec_num (c_dthr c)) by (intros; reflexivity). step.
  getA Hg A_ev_sgt. step. getA Hg A_ev_log. step. getA Hg A_ev_verbose. step.
  rewrite Wd. step. destruct c; reflexivity.
Qed.

(* saving the loaded object reproduces the same tree *)
Theorem resave_config c : wf_config c = true ->
  exists c', decode T (encode T c) = Ok c' /\ encode T c' = encode T c.
Proof. intros Hwf. exists c. split; [apply rt_config; exact Hwf|reflexivity]. Qed.

End RT.
