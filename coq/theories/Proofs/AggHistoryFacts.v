(* Proofs about Model/AggHistory.v: invariant over every history, rows never altered, final resubmission. *)
From Pan Require Import Base.Common Model.Aggregator Model.AggHistory Proofs.AggBase.

Definition QInv (s : qst) : Prop :=
  NoDup (names (qout s)) /\ NoDup (qbuf s) /\ incl (names (qout s)) (qbuf s).

Lemma names_app a b : names (a ++ b) = names a ++ names b.
Proof. unfold names. apply map_app. Qed.

Lemma NoDup_snoc {A} (l : list A) x : NoDup l -> ~ In x l -> NoDup (l ++ [x]).
Proof.
  intros Hl Hx. induction l as [|a l IH]; cbn.
  - constructor; [intros []|constructor].
  - inversion Hl as [|? ? Ha Hl']; subst. constructor.
    + rewrite in_app_iff. intros [H|[H|[]]]; [exact (Ha H)|]. subst. apply Hx. left; reflexivity.
    + apply IH; [exact Hl'|]. intro H. apply Hx. right; exact H.
Qed.

Lemma qinit_inv : QInv qinit.
Proof. repeat split; cbn; try constructor. intros x []. Qed.

Lemma qstart_inv R : NoDup (names R) -> QInv (qstart R).
Proof. intro H. repeat split; cbn; try exact H. apply incl_refl. Qed.

Lemma qstep_inv s o : QInv s -> QInv (qstep s o).
Proof.
  intros (Ho & Hb & Hi). destruct o as [|n v|n]; cbn.
  - repeat split; cbn; try exact Ho. apply incl_refl.
  - destruct (memn n (qbuf s)) eqn:E; [repeat split; assumption|].
    apply memn_false in E. repeat split; cbn.
    + rewrite names_app. cbn. apply NoDup_snoc; [exact Ho|]. intro H. apply E, Hi, H.
    + apply NoDup_snoc; assumption.
    + rewrite names_app. cbn. intros x Hx. apply in_app_iff in Hx. apply in_app_iff.
      destruct Hx as [Hx|Hx]; [left; apply Hi, Hx|right; exact Hx].
  - destruct (memn n (qbuf s)) eqn:E; [repeat split; assumption|].
    apply memn_false in E. repeat split; cbn; try exact Ho.
    + apply NoDup_snoc; assumption.
    + intros x Hx. apply in_app_iff. left. apply Hi, Hx.
Qed.

Lemma qrun_inv ops : forall s, QInv s -> QInv (qrun s ops).
Proof.
  induction ops as [|o ops IH]; intros s H; cbn; [exact H|]. apply IH, qstep_inv, H.
Qed.

(* recorded rows are never altered, removed or reordered: the old rows are a prefix of the new ones *)
Lemma qstep_prefix s o : exists t, qout (qstep s o) = qout s ++ t.
Proof.
  destruct o as [|n v|n]; cbn.
  - exists []. symmetry. apply app_nil_r.
  - destruct (memn n (qbuf s)); [exists []; symmetry; apply app_nil_r|exists [(n, v)]; reflexivity].
  - destruct (memn n (qbuf s)); exists []; symmetry; apply app_nil_r.
Qed.
Lemma qrun_prefix ops : forall s, exists t, qout (qrun s ops) = qout s ++ t.
Proof.
  induction ops as [|o ops IH]; intros s; cbn.
  - exists []. symmetry. apply app_nil_r.
  - destruct (qstep_prefix s o) as [t1 E1]. destruct (IH (qstep s o)) as [t2 E2].
    exists (t1 ++ t2). rewrite E2, E1. symmetry. apply app_assoc.
Qed.

(* every row carries the payload of its subject, whatever the history *)
Definition valued (val : name -> Z) (s : qst) : Prop := forall r, In r (qout s) -> snd r = val (fst r).
Lemma qstep_valued val subs s o : op_of val subs o -> valued val s -> valued val (qstep s o).
Proof.
  intros Ho Hv. destruct o as [|n v|n]; cbn; try exact Hv.
  - destruct (memn n (qbuf s)); [exact Hv|]. intros r Hr. cbn in Hr. apply in_app_iff in Hr.
    destruct Hr as [Hr|[<-|[]]]; [apply Hv, Hr|]. cbn. destruct Ho as [_ ->]. reflexivity.
  - destruct (memn n (qbuf s)); exact Hv.
Qed.
Lemma qrun_valued val subs ops : forall s, Forall (op_of val subs) ops -> valued val s -> valued val (qrun s ops).
Proof.
  induction ops as [|o ops IH]; intros s Hf Hv; cbn; [exact Hv|].
  inversion Hf as [|? ? Ho Hf']; subst. apply IH; [exact Hf'|]. eapply qstep_valued; eassumption.
Qed.
Lemma resubmit_ops val subs : Forall (op_of val subs) (resubmit val subs).
Proof.
  unfold resubmit. apply Forall_forall. intros o Ho. apply in_map_iff in Ho. destruct Ho as (n & <- & Hn).
  cbn. split; [exact Hn|reflexivity].
Qed.

(* only subjects that were submitted get a row *)
Lemma qstep_names_sub val subs base s o : op_of val subs o ->
  incl (names (qout s)) (base ++ subs) -> incl (names (qout (qstep s o))) (base ++ subs).
Proof.
  intros Ho Hi. destruct o as [|n v|n]; cbn; try exact Hi.
  - destruct (memn n (qbuf s)); [exact Hi|]. cbn. rewrite names_app. cbn. intros x Hx.
    apply in_app_iff in Hx. destruct Hx as [Hx|[<-|[]]]; [apply Hi, Hx|]. apply in_app_iff. right. apply Ho.
  - destruct (memn n (qbuf s)); exact Hi.
Qed.
Lemma qrun_names_sub val subs base ops : forall s, Forall (op_of val subs) ops ->
  incl (names (qout s)) (base ++ subs) -> incl (names (qout (qrun s ops))) (base ++ subs).
Proof.
  induction ops as [|o ops IH]; intros s Hf Hi; cbn; [exact Hi|].
  inversion Hf as [|? ? Ho Hf']; subst. apply IH; [exact Hf'|]. eapply qstep_names_sub; eassumption.
Qed.

(* in a state whose buffer lists exactly the recorded names (right after a constructor), submitting a subject
   records it, and the buffer keeps listing exactly the recorded names *)
Definition synced (s : qst) : Prop := qbuf s = names (qout s).
Lemma qok_synced s n v : synced s -> synced (qstep s (QOk n v)) /\ In n (names (qout (qstep s (QOk n v)))).
Proof.
  unfold synced. intro E. cbn. destruct (memn n (qbuf s)) eqn:M.
  - split; [exact E|]. apply memn_spec in M. rewrite <- E. exact M.
  - cbn. rewrite names_app, E. cbn. split; [reflexivity|]. apply in_app_iff. right. left. reflexivity.
Qed.
Lemma qstep_names_mono s o x : In x (names (qout s)) -> In x (names (qout (qstep s o))).
Proof.
  intro H. destruct (qstep_prefix s o) as [t ->]. rewrite names_app. apply in_app_iff. left. exact H.
Qed.
Lemma qrun_names_mono ops : forall s x, In x (names (qout s)) -> In x (names (qout (qrun s ops))).
Proof.
  induction ops as [|o ops IH]; intros s x H; cbn; [exact H|]. apply IH, qstep_names_mono, H.
Qed.
Lemma resubmit_records val subs : forall s, synced s ->
  synced (qrun s (resubmit val subs)) /\ forall n, In n subs -> In n (names (qout (qrun s (resubmit val subs)))).
Proof.
  induction subs as [|m subs IH]; intros s Hs; cbn.
  - split; [exact Hs|]. intros n [].
  - destruct (qok_synced s m (val m) Hs) as [Hs' Hm]. destruct (IH _ Hs') as [Hs'' Hall]. split; [exact Hs''|].
    intros n [<-|Hn]; [apply qrun_names_mono, Hm|apply Hall, Hn].
Qed.

(* once a subject is claimed, submitting it again -- through whichever session, completed or interrupted -- changes
   nothing *)
Lemma qstep_claimed_noop s o : (match o with QNew => False | QOk n _ | QDie n => In n (qbuf s) end) -> qstep s o = s.
Proof.
  destruct o as [|n v|n]; cbn; intros H; try contradiction; apply memn_spec in H; rewrite H; reflexivity.
Qed.
Lemma qrun_claimed_noop ops : forall s,
  Forall (fun o => match o with QNew => False | QOk n _ | QDie n => In n (qbuf s) end) ops -> qrun s ops = s.
Proof.
  induction ops as [|o ops IH]; intros s Hf; cbn; [reflexivity|].
  inversion Hf as [|? ? Ho Hf']; subst. rewrite (qstep_claimed_noop s o Ho). apply IH, Hf'.
Qed.

(* ---- the history theorem: after ANY history of operations over the subjects [subs] (new sessions, completed and
   interrupted submissions through any live session), from a file holding the rows R, a fresh session that resubmits
   every subject ends with: the earlier rows unchanged and in place; exactly one row per subject (and per earlier
   name), each with its subject's payload; nothing else; and any further submission through any session, old or new,
   changes neither file *)
Theorem live_sessions_history val subs R ops :
  NoDup (names R) -> (forall r, In r R -> snd r = val (fst r)) -> Forall (op_of val subs) ops ->
  let s1 := qrun (qstart R) ops in
  let s2 := qrun (qstep s1 QNew) (resubmit val subs) in
  (exists mid, qout s1 = R ++ mid) /\ (exists t, qout s2 = qout s1 ++ t)
  /\ NoDup (names (qout s2))
  /\ (forall n, In n subs -> In (n, val n) (qout s2))
  /\ (forall r, In r (qout s2) -> snd r = val (fst r) /\ In (fst r) (names R ++ subs))
  /\ (forall more, Forall (fun o => match o with QNew => False | QOk n _ | QDie n => In n subs end) more ->
        qrun s2 more = s2).
Proof.
  intros HR HvR Hops s1 s2.
  assert (I1 : QInv s1) by (apply qrun_inv, qstart_inv, HR).
  assert (I1' : QInv (qstep s1 QNew)) by (apply qstep_inv, I1).
  assert (I2 : QInv s2) by (apply qrun_inv, I1').
  assert (V1 : valued val s1) by (eapply qrun_valued; [exact Hops|exact HvR]).
  assert (V2 : valued val s2).
  { eapply qrun_valued; [apply resubmit_ops|]. exact V1. }
  assert (S1 : synced (qstep s1 QNew)) by reflexivity.
  destruct (resubmit_records val subs _ S1) as [S2 Hall].
  split; [apply (qrun_prefix ops (qstart R))|].
  split; [apply (qrun_prefix (resubmit val subs) (qstep s1 QNew))|].
  split; [apply I2|].
  split.
  { intros n Hn. specialize (Hall n Hn). fold s2 in Hall. unfold names in Hall. apply in_map_iff in Hall.
    destruct Hall as ([n' v] & E & Hin). cbn in E. subst n'. specialize (V2 _ Hin). cbn in V2. subst v. exact Hin. }
  split.
  { intros r Hr. split; [apply V2, Hr|].
    assert (N1 : incl (names (qout s1)) (names R ++ subs)).
    { eapply qrun_names_sub; [exact Hops|]. cbn. apply incl_appl, incl_refl. }
    assert (N2 : incl (names (qout s2)) (names R ++ subs)).
    { eapply qrun_names_sub; [apply resubmit_ops|]. exact N1. }
    apply N2. unfold names. apply in_map. exact Hr. }
  intros more Hm. apply qrun_claimed_noop. eapply Forall_impl; [|exact Hm].
  intros o Ho. destruct o as [|n v|n]; try exact Ho; fold s2 in S2; rewrite S2; apply Hall, Ho.
Qed.
