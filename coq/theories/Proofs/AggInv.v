(* Aggregator protocol, call phase: the invariant CI and its preservation by every step of every
   call, for any number of calls, any names, any schedule, any state of the sibling aggregators. *)
From Coq Require Import Permutation.
From Pan Require Import Base.Common Model.Aggregator Proofs.AggBase.

Definition cnt (f : call -> bool) (l : list call) : nat := length (filter f l).
Definition b2n (b : bool) : nat := if b then 1%nat else 0%nat.

Lemma cnt_app f l1 l2 : cnt f (l1 ++ l2) = (cnt f l1 + cnt f l2)%nat.
Proof. unfold cnt. now rewrite filter_app, app_length. Qed.
Lemma cnt_mid f l1 t l2 : cnt f (l1 ++ t :: l2) = (b2n (f t) + cnt f (l1 ++ l2))%nat.
Proof. rewrite !cnt_app. unfold cnt at 2. simpl. destruct (f t); simpl; unfold cnt; lia. Qed.
Lemma existsb_false_cnt f l : existsb f l = false -> cnt f l = 0%nat.
Proof.
  induction l as [|a l IH]; simpl; intros H; [reflexivity|].
  apply orb_false_iff in H as [Ha Hl]. unfold cnt in *. simpl. rewrite Ha. now apply IH.
Qed.
Lemma cnt_zero_existsb f l : cnt f l = 0%nat -> existsb f l = false.
Proof.
  induction l as [|a l IH]; simpl; intros H; [reflexivity|].
  unfold cnt in *. simpl in H. destruct (f a); simpl in *; [discriminate|]. now apply IH.
Qed.
Lemma cnt_pos_in f l t : In t l -> f t = true -> (cnt f l >= 1)%nat.
Proof.
  intros Ht Hf. unfold cnt. assert (In t (filter f l)) as F by (apply filter_In; auto).
  destruct (filter f l); [destruct F|simpl; lia].
Qed.

Record CI (h : Z) (R0 : list row) (b : list name) (rows : list row) (cs : list call) : Prop := {
  ci_pb : PB b rows R0 (map absB cs);
  ci_read : forall t d, In t cs -> cp t = ReadE d -> d = memn (cn t) b;
  ci_skip : forall t, In t cs -> cp t = Done true -> In (cn t) b;
  ci_snap : forall t sn, In t cs -> cp t = RRead sn \/ cp t = RDone sn ->
              exists k rest, sn = LH h :: map lrow k /\ rows = k ++ rest;
  ci_mE : (cnt inE cs <= 1)%nat;
  ci_mF : (cnt inF cs <= 1)%nat;
}.

Lemma map_absB_mid l1 t l2 : map absB (l1 ++ t :: l2) = map absB l1 ++ absB t :: map absB l2.
Proof. now rewrite map_app. Qed.

Lemma CI_frame h R0 b rows l1 t l2 t' :
  CI h R0 b rows (l1 ++ t :: l2) ->
  absB t' = absB t -> cn t' = cn t ->
  (b2n (inE t') + cnt inE (l1 ++ l2) <= 1)%nat ->
  (b2n (inF t') + cnt inF (l1 ++ l2) <= 1)%nat ->
  (forall d, cp t' = ReadE d -> d = memn (cn t) b) ->
  (cp t' = Done true -> In (cn t) b) ->
  (forall sn, cp t' = RRead sn \/ cp t' = RDone sn -> exists k rest, sn = LH h :: map lrow k /\ rows = k ++ rest) ->
  CI h R0 b rows (l1 ++ t' :: l2).
Proof.
  intros [Hpb Hrd Hsk Hsn HmE HmF] Ha Hn HE HF H1 H2 H3. constructor.
  - rewrite map_absB_mid in *. now rewrite Ha.
  - intros u d Hu Hp. apply in_mid in Hu as [->|Hu]; [rewrite Hn; now apply H1|].
    apply (Hrd u d); auto. apply in_mid. now right.
  - intros u Hu Hp. apply in_mid in Hu as [->|Hu]; [rewrite Hn; now apply H2|].
    apply Hsk; auto. apply in_mid. now right.
  - intros u sn Hu Hp. apply in_mid in Hu as [->|Hu]; [now apply H3|].
    apply (Hsn u sn); auto. apply in_mid. now right.
  - now rewrite cnt_mid.
  - now rewrite cnt_mid.
Qed.

Ltac absb Hp := unfold absB, owns, wrote, crow, setpc; cbn [cp cn ci]; rewrite Hp; reflexivity.

Theorem lstep_inv xE xF h R0 b rows l1 t l2 b' o' t' :
  CI h R0 b rows (l1 ++ t :: l2) ->
  lstep xE xF (Some b) (Some (LH h :: map lrow rows)) (l1 ++ l2) t = Some (b', o', t') ->
  exists b2 rows2, b' = Some b2 /\ o' = Some (LH h :: map lrow rows2) /\ CI h R0 b2 rows2 (l1 ++ t' :: l2).
Proof.
  intros HI Hl.
  pose proof (ci_mE _ _ _ _ _ HI) as HmE. pose proof (ci_mF _ _ _ _ _ HI) as HmF.
  rewrite cnt_mid in HmE, HmF.
  assert (Hin : In t (l1 ++ t :: l2)) by (apply in_mid; now left).
  unfold lstep in Hl. destruct (cp t) as [| |dup| | | | | |sk| | |sn|sn] eqn:Hp.
  - (* Start: acquire E *)
    destruct (xE || existsb inE (l1 ++ l2)) eqn:EE; [discriminate|]. inversion Hl; subst; clear Hl.
    apply orb_false_iff in EE as [_ EE]. apply existsb_false_cnt in EE.
    exists b, rows. split; [reflexivity|split; [reflexivity|]].
    apply (CI_frame _ _ _ _ _ t); auto; try (cbn; intros; try discriminate; try (destruct H; discriminate)).
    + absb Hp.
    + rewrite EE. unfold inE. cbn. lia.
    + unfold inF in *. rewrite Hp in HmF. cbn in *. lia.
  - (* HoldE: read the buffer *)
    destruct (nodupb b); [|discriminate]. inversion Hl; subst; clear Hl.
    exists b, rows. split; [reflexivity|split; [reflexivity|]].
    apply (CI_frame _ _ _ _ _ t); auto; try (cbn; intros; try discriminate; try (destruct H; discriminate)).
    + absb Hp.
    + unfold inE in *. rewrite Hp in HmE. cbn in *. lia.
    + unfold inF in *. rewrite Hp in HmF. cbn in *. lia.
    + now inversion H.
  - (* ReadE *)
    pose proof (ci_read _ _ _ _ _ HI t dup Hin Hp) as Hd.
    destruct dup.
    + (* duplicate: release, return *)
      inversion Hl; subst; clear Hl.
      exists b, rows. split; [reflexivity|split; [reflexivity|]].
      apply (CI_frame _ _ _ _ _ t); auto; try (cbn; intros; try discriminate; try (destruct H; discriminate)).
      * absb Hp.
      * unfold inE in *. rewrite Hp in HmE. cbn in *. lia.
      * unfold inF in *. rewrite Hp in HmF. cbn in *. lia.
      * apply memn_spec. now symmetry.
    + (* claim *)
      inversion Hl; subst; clear Hl.
      assert (Hnb : ~ In (cn t) b) by (apply memn_false; now symmetry).
      assert (HE0 : cnt inE (l1 ++ l2) = 0%nat).
      { unfold inE in HmE at 1. rewrite Hp in HmE. cbn in HmE. lia. }
      exists (b ++ [cn t]), rows. split; [reflexivity|split; [reflexivity|]].
      destruct HI as [Hpb Hrd Hsk Hsn _ _]. constructor.
      * rewrite map_absB_mid in *.
        replace (absB t) with (mkab (crow t) false false) in Hpb by (symmetry; absb Hp).
        replace (absB (setpc t ClaimedE)) with (mkab (crow t) true false) by (unfold absB; reflexivity).
        apply (PB_claim _ _ _ _ _ (crow t)); auto.
      * intros u d Hu Hpu. apply in_mid in Hu as [->|Hu]; [discriminate|]. exfalso.
        assert (cnt inE (l1 ++ l2) >= 1)%nat; [|lia].
        apply (cnt_pos_in _ _ u); auto. unfold inE. now rewrite Hpu.
      * intros u Hu Hpu. apply in_mid in Hu as [->|Hu]; [discriminate|].
        apply in_or_app. left. apply Hsk; auto. apply in_mid. now right.
      * intros u sn Hu Hpu. apply in_mid in Hu as [->|Hu]; [destruct Hpu; discriminate|].
        apply (Hsn u sn); auto. apply in_mid. now right.
      * rewrite cnt_mid. unfold inE at 1. cbn. lia.
      * rewrite cnt_mid. unfold inF in *. rewrite Hp in HmF. cbn in *. lia.
  - (* ClaimedE: release E *)
    inversion Hl; subst; clear Hl.
    exists b, rows. split; [reflexivity|split; [reflexivity|]].
    apply (CI_frame _ _ _ _ _ t); auto; try (cbn; intros; try discriminate; try (destruct H; discriminate)).
    + absb Hp.
    + unfold inE in *. rewrite Hp in HmE. cbn in *. lia.
    + unfold inF in *. rewrite Hp in HmF. cbn in *. lia.
  - (* Evaluating *)
    inversion Hl; subst; clear Hl.
    exists b, rows. split; [reflexivity|split; [reflexivity|]].
    apply (CI_frame _ _ _ _ _ t); auto; try (cbn; intros; try discriminate; try (destruct H; discriminate)).
    + absb Hp.
    + unfold inE in *. rewrite Hp in HmE. cbn in *. lia.
    + unfold inF in *. rewrite Hp in HmF. cbn in *. lia.
  - (* WantF: acquire F *)
    destruct (xF || existsb inF (l1 ++ l2)) eqn:EF; [discriminate|]. inversion Hl; subst; clear Hl.
    apply orb_false_iff in EF as [_ EF]. apply existsb_false_cnt in EF.
    exists b, rows. split; [reflexivity|split; [reflexivity|]].
    apply (CI_frame _ _ _ _ _ t); auto; try (cbn; intros; try discriminate; try (destruct H; discriminate)).
    + absb Hp.
    + unfold inE in *. rewrite Hp in HmE. cbn in *. lia.
    + rewrite EF. unfold inF. cbn. lia.
  - (* HoldF: append the row *)
    inversion Hl; subst; clear Hl.
    exists b, (rows ++ [crow t]). split; [reflexivity|split].
    { unfold fappend. rewrite map_app. reflexivity. }
    destruct HI as [Hpb Hrd Hsk Hsn _ _]. constructor.
    + rewrite map_absB_mid in *.
      replace (absB t) with (mkab (crow t) true false) in Hpb by (symmetry; absb Hp).
      replace (absB (setpc t WroteF)) with (mkab (crow t) false true) by (unfold absB; reflexivity).
      now apply PB_write.
    + intros u d Hu Hpu. apply in_mid in Hu as [->|Hu]; [discriminate|].
      apply (Hrd u d); auto. apply in_mid. now right.
    + intros u Hu Hpu. apply in_mid in Hu as [->|Hu]; [discriminate|].
      apply Hsk; auto. apply in_mid. now right.
    + intros u sn Hu Hpu. apply in_mid in Hu as [->|Hu]; [destruct Hpu; discriminate|].
      destruct (Hsn u sn) as [k [rest [E1 E2]]]; auto; [apply in_mid; now right|].
      exists k, (rest ++ [crow t]). split; auto. rewrite E2. now rewrite app_assoc.
    + rewrite cnt_mid. unfold inE in *. rewrite Hp in HmE. cbn in *. lia.
    + rewrite cnt_mid. unfold inF in *. rewrite Hp in HmF. cbn in *. lia.
  - (* WroteF: release F *)
    inversion Hl; subst; clear Hl.
    exists b, rows. split; [reflexivity|split; [reflexivity|]].
    apply (CI_frame _ _ _ _ _ t); auto; try (cbn; intros; try discriminate; try (destruct H; discriminate)).
    + absb Hp.
    + unfold inE in *. rewrite Hp in HmE. cbn in *. lia.
    + unfold inF in *. rewrite Hp in HmF. cbn in *. lia.
  - discriminate.
  - (* RStart: acquire F *)
    destruct (xF || existsb inF (l1 ++ l2)) eqn:EF; [discriminate|]. inversion Hl; subst; clear Hl.
    apply orb_false_iff in EF as [_ EF]. apply existsb_false_cnt in EF.
    exists b, rows. split; [reflexivity|split; [reflexivity|]].
    apply (CI_frame _ _ _ _ _ t); auto; try (cbn; intros; try discriminate; try (destruct H; discriminate)).
    + absb Hp.
    + unfold inE in *. rewrite Hp in HmE. cbn in *. lia.
    + rewrite EF. unfold inF. cbn. lia.
  - (* RHold: read the output file *)
    inversion Hl; subst; clear Hl.
    exists b, rows. split; [reflexivity|split; [reflexivity|]].
    apply (CI_frame _ _ _ _ _ t); auto; try (cbn; intros; try discriminate; try (destruct H; discriminate)).
    + absb Hp.
    + unfold inE in *. rewrite Hp in HmE. cbn in *. lia.
    + unfold inF in *. rewrite Hp in HmF. cbn in *. lia.
    + destruct H as [H|H]; inversion H; subst. exists rows, []. split; auto. now rewrite app_nil_r.
  - (* RRead: release F *)
    inversion Hl; subst; clear Hl.
    exists b, rows. split; [reflexivity|split; [reflexivity|]].
    apply (CI_frame _ _ _ _ _ t); auto; try (cbn; intros; try discriminate; try (destruct H; discriminate)).
    + absb Hp.
    + unfold inE in *. rewrite Hp in HmE. cbn in *. lia.
    + unfold inF in *. rewrite Hp in HmF. cbn in *. lia.
    + destruct H as [H|H]; inversion H; subst. apply (ci_snap _ _ _ _ _ HI t); auto.
  - discriminate.
Qed.
