(* Laws of the relational specification: any two valid labellings induce the same partition (classes
   are the equivalence classes of the reflexive-transitive closure of adjacency) and have the same
   count; n is the number of distinct labels; bijective renaming preserves validity. *)
From Pan Require Import Base.Common Model.CCA Proofs.CCASpec Proofs.CCAFacts.
Open Scope Z_scope.

Lemma same_label_sym lab c d : same_label lab c d -> same_label lab d c.
Proof. intros (k&?&?). exists k; auto. Qed.
Lemma same_label_trans lab c d e :
  NoDup (map fst lab) -> same_label lab c d -> same_label lab d e -> same_label lab c e.
Proof.
  intros Hn (k&H1&H2) (k'&H3&H4). assert (k = k') by (eapply nodup_fst_functional; eauto). subst.
  exists k'; auto.
Qed.

Section Laws.
Variable b : backend.
Variable m : smap.
Hypothesis Hwf : wf m.

Lemma is_cca_nodup lab n : is_cca b m lab n -> NoDup (map fst lab).
Proof. intros (E&_). rewrite E. apply Hwf. Qed.

Lemma is_cca_in_lab lab n v : is_cca b m lab n -> In v m -> exists k, In (fst v, k) lab.
Proof.
  intros (E&_) Hv. apply (in_map fst) in Hv. rewrite <- E in Hv. apply in_map_iff in Hv.
  destruct Hv as ([c k]&Hc&Hp). cbn in Hc. subst c. eauto.
Qed.
Lemma is_cca_in_m lab n c k : is_cca b m lab n -> In (c, k) lab -> exists s, In (c, s) m.
Proof.
  intros (E&_) Hv. apply (in_map fst) in Hv. rewrite E in Hv. apply in_map_iff in Hv.
  destruct Hv as ([c' s]&Hc&Hp). cbn in Hc. subst c'. eauto.
Qed.

(* a path never leaves a class *)
Lemma conn_same_label lab n v w :
  is_cca b m lab n -> conn b m v w -> same_label lab (fst v) (fst w).
Proof.
  intros H. induction 1 as [v Hv|v w u Hv Hw A _ IH].
  - destruct (is_cca_in_lab lab n v H Hv) as (k&Hk). exists k; auto.
  - eapply same_label_trans; [eapply is_cca_nodup; eauto| |exact IH].
    destruct H as (_&_&_&_&Hadj&_). apply Hadj; auto.
Qed.

Lemma partition_incl l1 n1 l2 n2 c d :
  is_cca b m l1 n1 -> is_cca b m l2 n2 -> same_label l1 c d -> same_label l2 c d.
Proof.
  intros H1 H2 (k&Hc&Hd).
  destruct (is_cca_in_m _ _ _ _ H1 Hc) as (sc&Hsc). destruct (is_cca_in_m _ _ _ _ H1 Hd) as (sd&Hsd).
  assert (C : conn b m (c, sc) (d, sd)).
  { destruct H1 as (_&_&_&_&_&Hconn). apply Hconn; auto. exists k; auto. }
  exact (conn_same_label l2 n2 _ _ H2 C).
Qed.

Theorem unique_partition l1 n1 l2 n2 :
  is_cca b m l1 n1 -> is_cca b m l2 n2 -> forall c d, same_label l1 c d <-> same_label l2 c d.
Proof. intros H1 H2 c d. split; eapply partition_incl; eauto. Qed.

(* position by position: labels agree in one labelling iff they agree in the other *)
Lemma partition_pairs l1 n1 l2 n2 p q :
  is_cca b m l1 n1 -> is_cca b m l2 n2 ->
  In p (combine (map snd l1) (map snd l2)) -> In q (combine (map snd l1) (map snd l2)) ->
  (fst p = fst q <-> snd p = snd q).
Proof.
  intros H1 H2 Hp Hq. destruct p as [a1 a2], q as [b1 b2]. cbn.
  assert (E : map fst l1 = map fst l2) by (destruct H1 as (->&_), H2 as (->&_); reflexivity).
  destruct (in_combine_labellings _ _ _ _ E Hp) as (c&Hc1&Hc2).
  destruct (in_combine_labellings _ _ _ _ E Hq) as (d&Hd1&Hd2).
  split; intros ->.
  - assert (S : same_label l2 c d) by (eapply partition_incl; [exact H1|exact H2|exists b1; auto]).
    destruct S as (k&Hk1&Hk2).
    pose proof (is_cca_nodup _ _ H2) as Hn.
    rewrite (nodup_fst_functional _ _ _ _ Hn Hc2 Hk1), (nodup_fst_functional _ _ _ _ Hn Hd2 Hk2). reflexivity.
  - assert (S : same_label l1 c d) by (eapply partition_incl; [exact H2|exact H1|exists b2; auto]).
    destruct S as (k&Hk1&Hk2).
    pose proof (is_cca_nodup _ _ H1) as Hn.
    rewrite (nodup_fst_functional _ _ _ _ Hn Hc1 Hk1), (nodup_fst_functional _ _ _ _ Hn Hd1 Hk2). reflexivity.
Qed.
End Laws.

(* ---------------------------------------------------------------- counting *)
Lemma distinct_count_pairs (ps : list (Z * Z)) :
  (forall p q, In p ps -> In q ps -> (fst p = fst q <-> snd p = snd q)) ->
  length (dedupZ (map fst ps)) = length (dedupZ (map snd ps)).
Proof.
  induction ps as [|p t IH]; intros H; [reflexivity|]. cbn [map dedupZ].
  assert (E : memZ (fst p) (map fst t) = memZ (snd p) (map snd t)).
  { apply eq_true_iff_eq. rewrite !memZ_In, !in_map_iff. split; intros (q&Hq&Hin); exists q; split; auto.
    - symmetry. apply (H p q); [left; auto|right; auto|auto].
    - symmetry. apply (H p q); [left; auto|right; auto|auto]. }
  rewrite E. assert (IH' := IH (fun p q Hp Hq => H p q (or_intror Hp) (or_intror Hq))).
  destruct (memZ (snd p) (map snd t)); cbn [length]; congruence.
Qed.

(* n is the number of distinct labels *)
Theorem count_is_distinct_labels b m lab n : is_cca b m lab n -> n = n_distinct_labels lab.
Proof.
  intros (_&Hn0&Hrange&Hused&_). unfold n_distinct_labels.
  set (L := map snd lab).
  assert (Hin : forall k, In k (dedupZ L) <-> In k (upto (Z.to_nat n))).
  { intros k. rewrite dedupZ_In, upto_In, Z2Nat.id by assumption. unfold L. rewrite in_map_iff. split.
    - intros (p&<-&Hp). apply Hrange; assumption.
    - intros Hk. destruct (Hused k Hk) as (c&Hc). exists (c, k); auto. }
  assert (length (dedupZ L) <= length (upto (Z.to_nat n)))%nat
    by (apply NoDup_incl_length; [apply dedupZ_NoDup|intros k; apply Hin]).
  assert (length (upto (Z.to_nat n)) <= length (dedupZ L))%nat
    by (apply NoDup_incl_length; [apply upto_NoDup|intros k; apply Hin]).
  rewrite upto_length in *. lia.
Qed.

Theorem unique_count b m l1 n1 l2 n2 : wf m -> is_cca b m l1 n1 -> is_cca b m l2 n2 -> n1 = n2.
Proof.
  intros Hwf H1 H2.
  rewrite (count_is_distinct_labels _ _ _ _ H1), (count_is_distinct_labels _ _ _ _ H2).
  unfold n_distinct_labels. f_equal.
  assert (E : length (map snd l1) = length (map snd l2)).
  { destruct H1 as (E1&_), H2 as (E2&_). rewrite !map_length.
    rewrite <- (map_length fst l1), <- (map_length fst l2), E1, E2. reflexivity. }
  pose proof (distinct_count_pairs (combine (map snd l1) (map snd l2))
                (fun p q => partition_pairs b m Hwf l1 n1 l2 n2 p q H1 H2)) as D.
  rewrite map_fst_combine, map_snd_combine in D by assumption. exact D.
Qed.

(* ---------------------------------------------------------------- renaming *)
Lemma in_relabel f lab c k : In (c, k) (relabel f lab) <-> exists k0, In (c, k0) lab /\ k = f k0.
Proof.
  unfold relabel. rewrite in_map_iff. split.
  - intros ([c' k0]&[= <- <-]&H). eauto.
  - intros (k0&H&->). exists (c, k0); auto.
Qed.

Theorem is_cca_rename b m lab n f g :
  is_cca b m lab n ->
  (forall k, 1 <= k <= n -> 1 <= f k <= n /\ g (f k) = k) ->
  (forall k, 1 <= k <= n -> 1 <= g k <= n /\ f (g k) = k) ->
  is_cca b m (relabel f lab) n.
Proof.
  intros (E&Hn0&Hrange&Hused&Hadj&Hconn) Hf Hg. repeat split.
  - rewrite <- E. unfold relabel. rewrite map_map. reflexivity.
  - assumption.
  - destruct p as [c k]. apply in_relabel in H. destruct H as (k0&H&->). cbn.
    apply Hf. apply (Hrange _ H).
  - destruct p as [c k]. apply in_relabel in H. destruct H as (k0&H&->). cbn.
    apply Hf. apply (Hrange _ H).
  - intros k Hk. destruct (Hg k Hk) as (Hgk&Efg). destruct (Hused _ Hgk) as (c&Hc).
    exists c. apply in_relabel. exists (g k). auto.
  - intros v w Hv Hw A. destruct (Hadj v w Hv Hw A) as (k&H1&H2).
    exists (f k). split; apply in_relabel; eauto.
  - intros v w Hv Hw (k&H1&H2). apply Hconn; auto.
    apply in_relabel in H1. destruct H1 as (k1&H1&->).
    apply in_relabel in H2. destruct H2 as (k2&H2&E2).
    assert (k1 = k2).
    { destruct (Hf k1 (Hrange _ H1)) as (_&<-). destruct (Hf k2 (Hrange _ H2)) as (_&<-). congruence. }
    subst k2. exists k1; auto.
Qed.

(* ---------------------------------------------------------------- backend-specific consequences *)
Lemma conn_cc3d_same_semantic m v w : conn Cc3d m v w -> snd v = snd w.
Proof.
  induction 1 as [|v w u _ _ A _ IH]; [reflexivity|].
  rewrite <- IH. apply adjacent_cc3d_same_label; assumption.
Qed.

Theorem cc3d_never_joins_different_semantic_labels m lab n c d sc sd :
  is_cca Cc3d m lab n -> In (c, sc) m -> In (d, sd) m -> same_label lab c d -> sc = sd.
Proof.
  intros (_&_&_&_&_&Hconn) Hc Hd S.
  exact (conn_cc3d_same_semantic m _ _ (Hconn (c, sc) (d, sd) Hc Hd S)).
Qed.

(* scipy: the labelling depends on the coordinates only *)
Lemma nbr_labels_scipy v v' m m' ls :
  fst v = fst v' -> map fst m = map fst m' -> nbr_labels Scipy v m ls = nbr_labels Scipy v' m' ls.
Proof.
  intros Ev. revert m' ls; induction m as [|w m IH]; destruct m' as [|w' m']; cbn [map]; try discriminate; auto.
  intros ls [= Ew Em]. destruct ls as [|l ls]; cbn [nbr_labels]; auto.
  replace (adjacent Scipy v' w') with (adjacent Scipy v w) by (unfold adjacent; rewrite Ev, Ew; reflexivity).
  rewrite (IH _ _ Em). reflexivity.
Qed.
Lemma raw_labels_scipy m m' : map fst m = map fst m' -> raw_labels Scipy m = raw_labels Scipy m'.
Proof.
  revert m'; induction m as [|v m IH]; destruct m' as [|v' m']; cbn [map]; try discriminate; auto.
  intros [= Ev Em]. cbn [raw_labels]. rewrite <- (IH _ Em).
  rewrite (nbr_labels_scipy v v' m m' _ Ev Em).
  rewrite <- (map_length fst m), <- (map_length fst m'), Em. reflexivity.
Qed.
Theorem scipy_ignores_labels m m' : map fst m = map fst m' -> cca Scipy m = cca Scipy m'.
Proof. intros E. unfold cca. rewrite (raw_labels_scipy _ _ E), E. reflexivity. Qed.
