(* C11 at the level of the whole evaluation: exchanging prediction and reference mirrors the result object
   (num_pred <-> num_ref, fp <-> fn, precision <-> recall; the same tp, rq, per-instance IoU/Dice/ASSD lists up to
   order, sq, std, pq).  RVD is not symmetric (each value r becomes -r/(1+r): Props/C11) and is excluded here. *)
From Pan Require Import Base.Common Base.Sx Base.Rnd64 Model.MetricTable Model.Metrics Model.EdgeCase Model.Result Model.ZeroCase
  Model.Matcher Model.Merge Model.Relabel Model.Pipeline Proofs.ListFacts Proofs.RelabelFacts Proofs.MetricsFacts Proofs.Matching
  Proofs.MatcherQ Proofs.C04Proofs Proofs.C01Proofs Proofs.Invariance Proofs.PipelineInvariance Proofs.ResultEquiv Proofs.ExchangeResult
  Proofs.RenameInvariance Proofs.RenameUnmatched.
From Coq Require Import Permutation Sorted ZifyBool.
Open Scope Z_scope.

Definition mirror_cfg (c : cfg) : cfg :=
  {| c_matcher := c_matcher c; c_mmetric := c_mmetric c; c_mthr := c_mthr c; c_ems := c_ems c; c_dm := c_dm c; c_dthr := c_dthr c;
     c_handler := mirror_handler (c_handler c) |}.

(* ---- labels of the exchanged pair ---- *)
Lemma labels_swap a : pred_labels_of (swap2 a) = ref_labels_of a /\ ref_labels_of (swap2 a) = pred_labels_of a.
Proof. unfold pred_labels_of, ref_labels_of, swap2. rewrite !map_map. split; reflexivity. Qed.

Lemma filter_sorted (f : Z -> bool) l : StronglySorted Z.le l -> StronglySorted Z.le (filter f l).
Proof.
  induction 1 as [|x l Hs IH Hall]; cbn [filter]; [constructor|]. destruct (f x); [|exact IH].
  constructor; [exact IH|]. rewrite Forall_forall in *. intros y Hy. apply filter_In in Hy. now apply Hall.
Qed.

Lemma matched_labels_swap a : matched_labels (swap2 a) = matched_labels a.
Proof.
  unfold matched_labels. destruct (labels_swap a) as [-> ->].
  apply sorted_NoDup_ext.
  - apply filter_sorted. unfold ref_labels_of, uniqueZ. apply sortZ_sorted.
  - apply filter_sorted. unfold pred_labels_of, uniqueZ. apply sortZ_sorted.
  - apply NoDup_filter, uniqueZ_NoDup.
  - apply NoDup_filter, uniqueZ_NoDup.
  - intros x. rewrite !filter_In, !memZ_spec. tauto.
Qed.

(* ---- the third phase on exchanged matched arrays ---- *)
Definition no_rvd (ems : list metric) : Prop := ~ In RVD ems.

Lemma instance_value_swap x x' a l m : m <> RVD -> x_inst x' m l = x_inst x m l ->
  instance_value x' (swap2 a) l m = instance_value x a l m.
Proof.
  intros Hm Hx. destruct (metrics_exchange l l a) as [Ei Ed]. unfold instance_value. destruct m; try congruence.
Qed.
Lemma instance_dict_swap x x' a l ems : no_rvd ems -> (forall m, x_inst x' m l = x_inst x m l) ->
  instance_dict x' (swap2 a) l ems = instance_dict x a l ems.
Proof.
  intros Hn Hx. induction ems as [|m ems IH]; cbn [instance_dict]; [reflexivity|].
  rewrite (instance_value_swap x x' a l m); [|intros ->; apply Hn; now left|apply Hx].
  rewrite IH; [reflexivity|]. intros H. apply Hn. now right.
Qed.
Lemma all_dicts_swap x x' a ls ems : no_rvd ems -> (forall m l, In l ls -> x_inst x' m l = x_inst x m l) ->
  all_dicts x' (swap2 a) ls ems = all_dicts x a ls ems.
Proof.
  intros Hn Hx. induction ls as [|l ls IH]; cbn [all_dicts]; [reflexivity|].
  rewrite (instance_dict_swap x x' a l ems Hn); [|intros m; apply Hx; now left].
  rewrite IH; [reflexivity|]. intros m l' Hl. apply Hx. now right.
Qed.

Lemma n_inst_swap a : n_pred_inst (swap2 a) = n_ref_inst a /\ n_ref_inst (swap2 a) = n_pred_inst a.
Proof. unfold n_pred_inst, n_ref_inst. destruct (labels_swap a) as [-> ->]. auto. Qed.
Lemma n_inst_nonneg a : 0 <= n_pred_inst a /\ 0 <= n_ref_inst a.
Proof. unfold n_pred_inst, n_ref_inst. lia. Qed.

Theorem eval_phase_swap x x' c a : no_rvd (c_ems c) ->
  (forall m l, In l (matched_labels a) -> x_inst x' m l = x_inst x m l) ->
  res_rel result_mirror (eval_phase x c a) (eval_phase x' (mirror_cfg c) (swap2 a)).
Proof.
  intros Hn Hx. destruct (n_inst_swap a) as [Ep Er]. destruct (n_inst_nonneg a) as [Np Nr].
  unfold eval_phase. rewrite Ep, Er. cbn [mirror_cfg c_ems c_dm c_dthr c_handler].
  unfold zero_case. rewrite (orb_comm (n_ref_inst a =? 0)).
  destruct ((n_pred_inst a =? 0) || (n_ref_inst a =? 0)).
  - apply (panoptica_result_mirror {| r_np := n_pred_inst a; r_nr := n_ref_inst a; r_tp := 0;
                                      r_lists := map (fun m => (m, [])) (dedup_metrics (c_ems c)); r_handler := c_handler c |}); assumption.
  - unfold evaluate_matched. destruct (negb _); [reflexivity|].
    rewrite matched_labels_swap, (all_dicts_swap x x' a _ (c_ems c) Hn Hx).
    destruct (all_dicts x a (matched_labels a) (c_ems c)) as [d|e]; [|reflexivity].
    match goal with |- res_rel _ (panoptica_result ?i) _ => apply (panoptica_result_mirror i) end; assumption.
Qed.

(* ---- candidates of the exchanged pair ---- *)
Definition exch (rp : Z * Z) : Z * Z := (snd rp, fst rp).

Lemma overlap_pairs_swap a rp : In rp (overlap_pairs (swap2 a)) <-> In (exch rp) (overlap_pairs a).
Proof.
  rewrite !overlap_pairs_spec. unfold swap2, exch. rewrite in_map_iff. cbn [fst snd]. split.
  - intros [(v & <- & Hv) [H1 H2]]. cbn [fst snd] in *. destruct v as [r p]. cbn [fst snd] in *. tauto.
  - intros (Hv & H1 & H2). split; [|tauto]. exists (snd rp, fst rp). split; [destruct rp; reflexivity|exact Hv].
Qed.
Lemma score_overlap_swap m a rp : score_overlap m (swap2 a) rp = score_overlap m a (exch rp).
Proof.
  destruct (metrics_exchange (fst rp) (snd rp) a) as [Ei Ed]. unfold score_overlap, exch. cbn [fst snd]. destruct m; assumption.
Qed.

Lemma cand_list_swap x x' m a d : (forall rp, In rp (overlap_pairs a) -> x_pair x' (exch rp) = x_pair x rp) ->
  In d (cand_list x' m (swap2 a)) <-> In d (map (mapc Q exch) (cand_list x m a)).
Proof.
  intros Hx.
  assert (G : forall (s' s : Z * Z -> Q), (forall rp, In rp (overlap_pairs a) -> s' (exch rp) = s rp) ->
              In d (map (fun rp => (s' rp, rp)) (overlap_pairs (swap2 a))) <-> In d (map (mapc Q exch) (map (fun rp => (s rp, rp)) (overlap_pairs a)))).
  { intros s' s Hs. rewrite map_map, !in_map_iff. unfold mapc. cbn [fst snd]. split.
    - intros (rp & <- & Hin). apply overlap_pairs_swap in Hin. exists (exch rp). split; [|exact Hin].
      rewrite <- (Hs (exch rp) Hin). destruct rp; reflexivity.
    - intros (rp & <- & Hin). exists (exch rp). split; [now rewrite Hs|]. apply overlap_pairs_swap. destruct rp; exact Hin. }
  unfold cand_list, candidates. destruct m; try (apply G; intros rp Hin; rewrite score_overlap_swap; destruct rp; reflexivity).
  apply G. exact Hx.
Qed.

(* ---- the relabelled arrays of the two runs: the exchanged run relabels the other side ---- *)
Section Sigma.
  Variables (a : arr2) (L Ls : lmap).
  Hypothesis Hnn : nonneg_arr a.
  Hypothesis Hwf : wf_matching L a.
  Hypothesis Hwfs : wf_matching Ls (swap2 a).
  Hypothesis HLs : forall r p, In (r, p) Ls <-> In (p, r) L.
  Hypothesis Hone : forall p q r, In (p, r) L -> In (q, r) L -> p = q.          (* one-to-one matching *)

  Let pls := pred_labels_of a.
  Let mx := maxZ (ref_labels_of a).
  Let g := new_label (full_map L pls mx).
  Let rls := pred_labels_of (swap2 a).
  Let mxs := maxZ (ref_labels_of (swap2 a)).
  Let gs := new_label (full_map Ls rls mxs).
  Let b := map_instance_labels L a.
  Let bs := map_instance_labels Ls (swap2 a).

  Lemma nonneg_swap : nonneg_arr (swap2 a).
  Proof. intros v Hv. unfold swap2 in Hv. apply in_map_iff in Hv as (w & <- & Hw). cbn [fst snd]. destruct (Hnn w Hw). auto. Qed.

  Lemma rls_eq : rls = ref_labels_of a.
  Proof. unfold rls. now destruct (labels_swap a). Qed.
  Lemma mxs_eq : mxs = maxZ pls.
  Proof. unfold mxs, pls. now destruct (labels_swap a) as [_ ->]. Qed.

  Lemma L_fun p r r' : In (p, r) L -> In (p, r') L -> r = r'.
  Proof.
    intros H1 H2. pose proof (lookupZ_NoDup p r L (proj1 Hwf) H1) as E1. pose proof (lookupZ_NoDup p r' L (proj1 Hwf) H2) as E2. congruence.
  Qed.

  Lemma g_m p r : In (p, r) L -> g p = r.
  Proof. apply matched_label. exact (proj1 Hwf). Qed.
  Lemma gs_m p r : In (p, r) L -> gs r = p.
  Proof. intros H. apply matched_label; [exact (proj1 Hwfs)|]. now apply HLs. Qed.
  Lemma gs_key r q : In (r, q) Ls -> gs r = q.
  Proof. apply matched_label. exact (proj1 Hwfs). Qed.
  Lemma g_0 : g 0 = 0.
  Proof. apply background_kept; [apply pls_pos|apply (M_keys_ok L a Hwf)]. Qed.
  Lemma gs_0 : gs 0 = 0.
  Proof. apply background_kept; [apply pls_pos|apply (M_keys_ok Ls (swap2 a) Hwfs)]. Qed.
  Lemma g_nz p : In p pls -> g p <> 0.
  Proof. intros H. apply foreground_kept; [exact (proj1 Hwf)|apply (M_refs_ok L a Hnn Hwf)|apply uniqueZ_NoDup|exact H|apply maxZ_nonneg]. Qed.
  Lemma gs_nz r : In r rls -> gs r <> 0.
  Proof.
    intros H. apply foreground_kept; [exact (proj1 Hwfs)|apply (M_refs_ok Ls (swap2 a) nonneg_swap Hwfs)|apply uniqueZ_NoDup|exact H|apply maxZ_nonneg].
  Qed.

  Lemma g_inj p q : In p (0 :: pls) -> In q (0 :: pls) -> g p = g q -> p = q.
  Proof.
    intros [<-|H1] [<-|H2] E; [reflexivity| | |].
    - rewrite g_0 in E. symmetry in E. now apply g_nz in E.
    - rewrite g_0 in E. now apply g_nz in E.
    - apply (same_label_iff L pls mx (proj1 Hwf) (M_refs_ok L a Hnn Hwf) (uniqueZ_NoDup _) p q H1 H2) in E as [E|(r & Hp & Hq)]; [exact E|].
      exact (Hone p q r Hp Hq).
  Qed.
  Lemma gs_inj r s : In r (0 :: rls) -> In s (0 :: rls) -> gs r = gs s -> r = s.
  Proof.
    intros [<-|H1] [<-|H2] E; [reflexivity| | |].
    - rewrite gs_0 in E. symmetry in E. now apply gs_nz in E.
    - rewrite gs_0 in E. now apply gs_nz in E.
    - apply (same_label_iff Ls rls mxs (proj1 Hwfs) (M_refs_ok Ls (swap2 a) nonneg_swap Hwfs) (uniqueZ_NoDup _) r s H1 H2) in E as [E|(p & Hr & Hs)]; [exact E|].
      apply HLs in Hr, Hs. exact (L_fun p r s Hr Hs).
  Qed.

  Definition sigma (y : Z) : Z := match find (fun p => g p =? y) (0 :: pls) with Some p => p | None => 0 end.
  Lemma sigma_g p : In p (0 :: pls) -> sigma (g p) = p.
  Proof.
    intros Hin. unfold sigma. destruct (find (fun q => g q =? g p) (0 :: pls)) as [q|] eqn:E.
    - apply find_some in E as [Hq Eq]. apply Z.eqb_eq in Eq. now apply g_inj.
    - apply (find_none _ _ E) in Hin. apply Z.eqb_neq in Hin. congruence.
  Qed.
  Lemma sigma_0 : sigma 0 = 0.
  Proof. rewrite <- g_0 at 1. apply sigma_g. now left. Qed.

  Lemma snd_pls v : In v a -> In (snd v) (0 :: pls).
  Proof. intros Hv. destruct (Z.eq_dec (snd v) 0) as [E|E]; [left; congruence|right; now apply arr_new_label]. Qed.
  Lemma fst_rls v : In v a -> In (fst v) (0 :: rls).
  Proof.
    intros Hv. destruct (Z.eq_dec (fst v) 0) as [E|E]; [left; congruence|right]. rewrite rls_eq. apply ref_labels_spec. split; eauto.
  Qed.

  Lemma relabelled_swap : bs = rename sigma gs (swap2 b).
  Proof.
    unfold bs, b, map_instance_labels, relabel, rename, swap2. rewrite !map_map. apply map_ext_in. intros v Hv. cbn [fst snd].
    fold (swap2 a). fold rls. fold mxs. fold gs. fold pls. fold mx. fold g. f_equal. symmetry. apply sigma_g. now apply snd_pls.
  Qed.

  Lemma fst_swap_b y : In y (0 :: map fst (swap2 b)) -> exists p, In p (0 :: pls) /\ y = g p.
  Proof.
    intros [<-|H]; [exists 0; split; [now left|now rewrite g_0]|].
    unfold b, map_instance_labels, relabel, swap2 in H. rewrite !map_map in H. apply in_map_iff in H as (v & <- & Hv). cbn [fst snd].
    exists (snd v). split; [now apply snd_pls|reflexivity].
  Qed.
  Lemma snd_swap_b y : In y (0 :: map snd (swap2 b)) -> In y (0 :: rls).
  Proof.
    intros [<-|H]; [now left|].
    unfold b, map_instance_labels, relabel, swap2 in H. rewrite !map_map in H. apply in_map_iff in H as (v & <- & Hv). cbn [fst snd].
    now apply fst_rls.
  Qed.

  Lemma sigma_inj : inj_on sigma (0 :: map fst (swap2 b)).
  Proof.
    intros y z Hy Hz E. apply fst_swap_b in Hy as (p & Hpin & ->). apply fst_swap_b in Hz as (q & Hqin & ->).
    rewrite !sigma_g in E by assumption. now subst.
  Qed.
  Lemma gs_inj_on : inj_on gs (0 :: map snd (swap2 b)).
  Proof. intros y z Hy Hz. apply gs_inj; now apply snd_swap_b. Qed.

  Lemma has_key_L p : has_key p L = true <-> exists r, In (p, r) L.
  Proof. apply has_key_iff. Qed.

  Lemma sigma_compat r' p' : In r' (ref_labels_of (swap2 b)) -> In p' (pred_labels_of (swap2 b)) -> (sigma r' = gs p' <-> r' = p').
  Proof.
    destruct (labels_swap b) as [Eb1 Eb2]. rewrite Eb1, Eb2. unfold b. rewrite ref_labels_relabel. intros Hr' Hp'.
    apply pred_labels_spec in Hr' as [Hn0 (w & Hw & Ew)].
    unfold map_instance_labels, relabel in Hw. apply in_map_iff in Hw as (v & <- & Hv). cbn [snd] in Ew.
    fold pls in Ew. fold mx in Ew. fold g in Ew. subst r'.
    assert (Hin : In (snd v) pls).
    { destruct (snd_pls v Hv) as [E|H]; [|exact H]. rewrite <- E, g_0 in Hn0. contradiction. }
    rewrite sigma_g by now right.
    assert (Hp'r : In p' rls) by now rewrite rls_eq.
    split.
    - intros E. destruct (has_key p' Ls) eqn:Ek.
      + apply has_key_iff in Ek as [q Hq]. rewrite (gs_key p' q Hq) in E. subst q.
        apply HLs in Hq. now apply g_m.
      + pose proof (fresh_outside_refs Ls rls mxs (uniqueZ_NoDup _) p' Hp'r Ek) as H1. fold gs in H1.
        pose proof (maxZ_ge (snd v) pls Hin) as H2. rewrite mxs_eq in H1. lia.
    - intros E. destruct (has_key (snd v) L) eqn:Ek.
      + apply has_key_iff in Ek as [r Hr]. rewrite (g_m _ _ Hr) in E. subst r. symmetry. now apply gs_m.
      + pose proof (fresh_outside_refs L pls mx (uniqueZ_NoDup _) (snd v) Hin Ek) as H1. fold g in H1.
        pose proof (maxZ_ge p' _ Hp') as H2. fold mx in H2. lia.
  Qed.

  Lemma gs_matched l : In l (matched_labels (swap2 b)) -> exists p, In (p, l) L /\ gs l = p.
  Proof.
    rewrite matched_labels_swap. intros H. apply (matched_labels_relabel L a Hnn Hwf) in H as [p Hin]. exists p. split; [exact Hin|now apply gs_m].
  Qed.

  Theorem eval_exchanged_relabelled x x' c' :
    (forall m p r, In (p, r) L -> x_inst x' m p = x_inst x m r) ->
    res_rel result_equiv (eval_phase x c' (swap2 b)) (eval_phase x' c' bs).
  Proof.
    intros Hx. rewrite relabelled_swap. apply eval_phase_rename.
    - exact sigma_inj.
    - exact gs_inj_on.
    - exact sigma_0.
    - exact gs_0.
    - exact sigma_compat.
    - intros m l Hl. destruct (gs_matched l Hl) as (p & Hin & ->). now apply Hx.
  Qed.
End Sigma.

(* ---- the pipeline ---- *)
Lemma res_rel_mirror_equiv (A B C : res result) :
  res_rel result_mirror A B -> res_rel result_equiv B C -> res_rel result_mirror A C.
Proof.
  destruct A as [r|e], B as [s|e'], C as [t|e'']; cbn [res_rel]; try tauto; try congruence.
  apply result_mirror_equiv_r.
Qed.

Theorem pipeline_exchange x x' c a :
  nonneg_arr a -> c_matcher c = 1 -> no_rvd (c_ems c) ->
  (* the geometric matching metric, if used, is symmetric *)
  (forall rp, In rp (overlap_pairs a) -> x_pair x' (exch rp) = x_pair x rp) ->
  (* the geometric per-instance values of the two runs agree on matched pairs: in the exchanged run the instance
     carries the label of the original prediction *)
  (forall M, naive_match (decreasing (c_mmetric c)) false (c_mthr c) (cand_list x (c_mmetric c) a) = Ok M ->
     forall m d, In d M -> x_inst x' m (cpred d) = x_inst x m (cref d)) ->
  competing_distinct Q (better_eq (decreasing (c_mmetric c))) (fun s => beats (decreasing (c_mmetric c)) s (c_mthr c)) false
    (cand_list x (c_mmetric c) a) ->
  res_rel result_mirror (pipeline x c a) (pipeline x' (mirror_cfg c) (swap2 a)).
Proof.
  intros Hnn Hk Hn Hxp Hxi Hties.
  set (decr := decreasing (c_mmetric c)) in *. set (cs := cand_list x (c_mmetric c) a) in *.
  set (cs' := cand_list x' (c_mmetric c) (swap2 a)).
  unfold pipeline. cbn [mirror_cfg c_matcher]. rewrite Hk. cbn [Z.eqb Pos.eqb].
  destruct (n_inst_swap a) as [Ep Er]. destruct (n_inst_nonneg a) as [Np Nr]. rewrite Ep, Er.
  unfold zero_case. rewrite (orb_comm (n_ref_inst a =? 0)).
  destruct ((n_pred_inst a =? 0) || (n_ref_inst a =? 0)).
  { cbn [c_ems c_handler].
    apply (panoptica_result_mirror {| r_np := n_pred_inst a; r_nr := n_ref_inst a; r_tp := 0;
                                      r_lists := map (fun m => (m, [])) (dedup_metrics (c_ems c)); r_handler := c_handler c |}); assumption. }
  assert (Hk1 : c_matcher c = 1 \/ c_matcher c = 2) by now left.
  assert (Hk1' : c_matcher (mirror_cfg c) = 1 \/ c_matcher (mirror_cfg c) = 2) by now left.
  destruct (match_phase_naive x c a Hk1) as (M & HM & Hmp & H1 & H2 & _ & H4 & Hwf).
  destruct (match_phase_naive x' (mirror_cfg c) (swap2 a) Hk1') as (M' & _ & Hmp' & H1' & H2' & _ & H4' & Hwf').
  cbn [mirror_cfg c_matcher c_mmetric c_mthr] in H1', H2', H4'. rewrite Hk in *. cbn [Z.eqb Pos.eqb] in *.
  fold decr in H2, H4, H2', H4', HM. fold cs in H2, H4, HM. fold cs' in H2', H4'.
  rewrite Hmp, Hmp'.
  assert (Hmem : forall d, In d (map (mapc Q exch) cs) <-> In d cs').
  { intros d. symmetry. now apply cand_list_swap. }
  assert (HMM : forall d, In d M' <-> In d (map (mapc Q exch) M)).
  { apply (naive_match_unique decr false (c_mthr c) cs').
    - apply (competing_distinct_members _ _ _ _ _ Hmem). apply competing_distinct_transport; [intros u v; apply exchange_conf|exact Hties].
    - split; [exact H1'|split; [exact H2'|exact H4']].
    - apply (valid_members _ _ _ _ _ _ Hmem). apply valid_transport; [intros u v; apply exchange_conf|]. split; [exact H1|split; [exact H2|exact H4]]. }
  assert (HLs : forall r p, In (r, p) (lmap_of M') <-> In (p, r) (lmap_of M)).
  { intros r p. unfold lmap_of. rewrite !in_map_iff. split.
    - intros (d' & [= <- <-] & Hd'). apply HMM in Hd'. apply in_map_iff in Hd' as (d & <- & Hd). exists d. split; [reflexivity|exact Hd].
    - intros (d & [= <- <-] & Hd). exists (mapc Q exch d). split; [reflexivity|]. apply HMM. now apply in_map. }
  assert (Hone : forall p q r, In (p, r) (lmap_of M) -> In (q, r) (lmap_of M) -> p = q).
  { intros p q r Hp Hq. unfold lmap_of in Hp, Hq. apply in_map_iff in Hp as (d1 & [= <- <-] & Hd1). apply in_map_iff in Hq as (d2 & [= <- E] & Hd2).
    assert (Hc : conf Q false d1 d2).
    { unfold conf, conflictb, competingb. rewrite E, Z.eqb_refl. reflexivity. }
    now rewrite (H1 d1 d2 Hd1 Hd2 Hc). }
  eapply res_rel_mirror_equiv.
  - apply (eval_phase_swap x x c (map_instance_labels (lmap_of M) a) Hn). reflexivity.
  - apply (eval_exchanged_relabelled a (lmap_of M) (lmap_of M') Hnn Hwf Hwf' HLs Hone x x' (mirror_cfg c)).
    intros m p r Hin. unfold lmap_of in Hin. apply in_map_iff in Hin as (d & [= <- <-] & Hd). exact (Hxi M HM m d Hd).
Qed.
