(* Why _map_labels must apply the label map AT ONCE (a lookup table indexed by the ORIGINAL values) and not entry by entry on the array
   being rewritten: the two agree exactly when no entry's new label is the old label of a LATER entry (no chain) -- which a matching
   does not guarantee: prediction 5 -> reference 7 while another prediction is labelled 7 (seeded changes C03-o, C11-o). *)
From Coq Require Import Lia.
From Pan Require Import Base.Common Model.Metrics Model.Relabel.
Open Scope Z_scope.

(* relabelled[relabelled == old] = new, for the entries in order *)
Definition step_label (kv : Z * Z) (x : Z) : Z := if x =? fst kv then snd kv else x.
Definition seq_label (lm : lmap) (x : Z) : Z := fold_left (fun y kv => step_label kv y) lm x.
Definition relabel_seq (lm : lmap) (a : arr2) : arr2 := map (fun v => (fst v, seq_label lm (snd v))) a.

(* no chain: the new label of an entry is not the old label of a later entry; keys distinct *)
Fixpoint chain_free (lm : lmap) : Prop :=
  match lm with
  | [] => True
  | (k, v) :: t => (forall k' v', In (k', v') t -> k' <> v /\ k' <> k) /\ chain_free t
  end.

Lemma seq_label_fixed lm x : (forall k v, In (k, v) lm -> k <> x) -> seq_label lm x = x.
Proof.
  unfold seq_label. revert x. induction lm as [|[k v] t IH]; cbn [fold_left]; intros x H; [reflexivity|].
  unfold step_label at 2. cbn [fst snd]. destruct (x =? k) eqn:E.
  - exfalso. apply (H k v); [left; reflexivity|]. lia.
  - apply IH. intros k' v' Hin. apply (H k' v'). right. exact Hin.
Qed.

Theorem seq_equals_table lm x : chain_free lm -> seq_label lm x = new_label lm x.
Proof.
  unfold new_label. revert x. induction lm as [|[k v] t IH]; cbn [chain_free lookupZ]; intros x Hc; [reflexivity|].
  destruct Hc as [Hk Ht]. unfold seq_label. cbn [fold_left]. unfold step_label at 2. cbn [fst snd].
  destruct (k =? x) eqn:E.
  - assert (x = k) by lia. subst x. rewrite Z.eqb_refl. apply seq_label_fixed. intros k' v' Hin. apply (Hk k' v' Hin).
  - replace (x =? k) with false by lia. apply (IH x Ht).
Qed.

Theorem relabel_seq_equals_table lm a : chain_free lm -> relabel_seq lm a = relabel lm a.
Proof.
  intros Hc. unfold relabel_seq, relabel. apply map_ext. intros v. rewrite (seq_equals_table lm (snd v) Hc). reflexivity.
Qed.

(* with a chain they differ: prediction 5 is matched to reference 7, prediction 7 to reference 9 -- entry by entry both end as 9 *)
Theorem relabel_seq_chain_differs :
  let lm := [(5, 7); (7, 9)] in let a : arr2 := [(7, 5); (9, 7)] in
  relabel lm a = [(7, 7); (9, 9)] /\ relabel_seq lm a = [(7, 9); (9, 9)].
Proof. vm_compute. split; reflexivity. Qed.
