(* The model's labelling `cca b m` satisfies the relational specification `is_cca` (for every
   well-formed map; the algorithm is structurally recursive, so there is no fuel and no failure case). *)
From Pan Require Import Base.Common Model.CCA Proofs.CCASpec Proofs.CCAFacts Proofs.CCARaw.
Open Scope Z_scope.

Lemma in_relabelled (m : smap) (r : list Z) (h : Z -> Z) c k :
  In (c, k) (combine (map fst m) (map h r)) <->
  exists v l, In (v, l) (combine m r) /\ c = fst v /\ k = h l.
Proof.
  rewrite in_combine_map_r. split.
  - intros (l&H&->). apply in_combine_map_l in H. destruct H as (v&H&->). eauto.
  - intros (v&l&H&->&->). exists l. split; auto. apply in_combine_map_l. eauto.
Qed.

(* from a zipped partition with arbitrary labels to is_cca, through an injective renumbering onto 1..n *)
Lemma zip_to_is_cca b (m : smap) (r : list Z) (h : Z -> Z) n :
  NoDup (map fst m) ->
  length r = length m ->
  lab_closed b (combine m r) -> lab_conn b m (combine m r) ->
  (forall l l', In l r -> In l' r -> h l = h l' -> l = l') ->
  0 <= n ->
  (forall l, In l r -> 1 <= h l <= n) ->
  (forall k, 1 <= k <= n -> exists l, In l r /\ h l = k) ->
  is_cca b m (combine (map fst m) (map h r)) n.
Proof.
  intros Hnd Hlen Hc Hn Hinj Hn0 Hrange Hused.
  assert (Hlen' : length (map fst m) = length (map h r)) by (rewrite !map_length; auto).
  repeat split.
  - apply map_fst_combine; assumption.
  - assumption.
  - destruct p as [c k]. apply in_relabelled in H. destruct H as (v&l&H&_&->). cbn.
    apply Hrange. eapply in_combine_r; eauto.
  - destruct p as [c k]. apply in_relabelled in H. destruct H as (v&l&H&_&->). cbn.
    apply Hrange. eapply in_combine_r; eauto.
  - intros k Hk. destruct (Hused k Hk) as (l&Hl&<-).
    destruct (in_combine_ex_l m r l (eq_sym Hlen) Hl) as (v&Hv).
    exists (fst v). apply in_relabelled. eauto.
  - intros v w Hv Hw A.
    destruct (in_combine_ex_r m r v (eq_sym Hlen) Hv) as (lv&Hlv).
    destruct (in_combine_ex_r m r w (eq_sym Hlen) Hw) as (lw&Hlw).
    assert (lv = lw) by (eapply Hc; eauto). subst lw.
    exists (h lv). split; apply in_relabelled; eauto.
  - intros v w Hv Hw (k&H1&H2).
    apply in_relabelled in H1. destruct H1 as (v'&l&H1&E1&->).
    apply in_relabelled in H2. destruct H2 as (w'&l'&H2&E2&E).
    assert (v' = v) by (eapply nodup_fst_eq; eauto; eapply in_combine_l; eauto). subst v'.
    assert (w' = w) by (eapply nodup_fst_eq; eauto; eapply in_combine_l; eauto). subst w'.
    assert (l = l') by (apply Hinj; auto; eapply in_combine_r; eauto). subst l'.
    eapply Hn; eauto.
Qed.

Theorem cca_sound b m : wf m -> is_cca b m (fst (cca b m)) (snd (cca b m)).
Proof.
  intros [Hnd _]. unfold cca. cbn [fst snd].
  set (r := raw_labels b m). set (fs := firsts r).
  assert (Hfs : forall l, In l r -> In l fs) by (intros; apply firsts_In; assumption).
  destruct (raw_closed_conn b m) as [Hc Hn].
  assert (Hinj : forall l l', In l r -> In l' r -> renumber fs l = renumber fs l' -> l = l').
  { intros l l' Hl Hl' E. unfold renumber in E. apply Nat2Z.inj in E. injection E as E.
    apply (index_of_inj l l' fs); auto. }
  assert (Hrange : forall l, In l r -> 1 <= renumber fs l <= Z.of_nat (length fs)).
  { intros l Hl. unfold renumber. pose proof (index_of_lt l fs (Hfs _ Hl)). lia. }
  assert (Hused : forall k, 1 <= k <= Z.of_nat (length fs) -> exists l, In l r /\ renumber fs l = k).
  { intros k Hk. set (i := Z.to_nat (k - 1)).
    assert (Hi : (i < length fs)%nat) by (unfold i; lia).
    exists (nth i fs 0). split.
    - apply firsts_In. apply nth_In. assumption.
    - unfold renumber. rewrite index_of_nth; [unfold i; lia|apply firsts_NoDup|assumption]. }
  exact (zip_to_is_cca b m r (renumber fs) _ Hnd (raw_length b m) Hc Hn Hinj (Nat2Z.is_nonneg _) Hrange Hused).
Qed.

Corollary cca_sound_let b m : wf m -> let (lab, n) := cca b m in is_cca b m lab n.
Proof. intros H. pose proof (cca_sound b m H) as S. destruct (cca b m); exact S. Qed.

(* the numbering convention of the model: labels appear in increasing order of first occurrence *)
Lemma cca_coords b m : map fst (fst (cca b m)) = map fst m.
Proof.
  unfold cca. cbn [fst]. apply map_fst_combine. rewrite !map_length, raw_length. reflexivity.
Qed.
