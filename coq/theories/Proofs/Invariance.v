(* The geometry-free pipeline depends only on the multiset of (reference, prediction) label pairs of
   the voxels, and not on background voxels: invariance under voxel permutations (flips, axis
   permutations, any re-ordering) and under insertion/removal of background voxels (padding, cropping
   empty margins).  Also: invariance of the overlap metrics under injective label renaming, and their
   behaviour under exchanging prediction and reference. *)
From Pan Require Import Base.Common Base.Rnd64 Model.MetricTable Model.Metrics Model.EdgeCase Model.Result Model.ZeroCase
  Model.Matcher Model.Merge Model.Relabel Model.Pipeline Proofs.ListFacts Proofs.MetricsFacts Proofs.MatcherQ Proofs.C04Proofs.
From Coq Require Import Permutation Sorted ZifyBool Qfield.
Open Scope Z_scope.

(* ---------- counts under permutation ---------- *)
Lemma cntZ_perm {A} (f : A -> bool) l l' : Permutation l l' -> cntZ f l = cntZ f l'.
Proof. induction 1; cbn [cntZ]; lia. Qed.
Lemma sumZ_perm l l' : Permutation l l' -> sumZ l = sumZ l'.
Proof. induction 1; cbn [sumZ]; lia. Qed.

Lemma raw_counts_perm a a' : Permutation a a' ->
  sum_ref a = sum_ref a' /\ sum_pred a = sum_pred a' /\ n_inter a = n_inter a' /\ n_union a = n_union a'.
Proof.
  intros H. unfold sum_ref, sum_pred, n_inter, n_union. repeat split.
  - apply sumZ_perm. now apply Permutation_map.
  - apply sumZ_perm. now apply Permutation_map.
  - now apply cntZ_perm.
  - now apply cntZ_perm.
Qed.
Lemma metric_input_perm sel a a' : Permutation a a' -> Permutation (metric_input sel a) (metric_input sel a').
Proof. intros H. unfold metric_input. destruct sel as [[ri pis]|]; [unfold select; now apply Permutation_map|exact H]. Qed.

Theorem metrics_perm sel a a' : Permutation a a' ->
  iou sel a = iou sel a' /\ dice sel a = dice sel a' /\ rvd sel a = rvd sel a'.
Proof.
  intros H. pose proof (raw_counts_perm _ _ (metric_input_perm sel a a' H)) as (E1 & E2 & E3 & E4).
  unfold iou, dice, rvd, iou_raw, dice_raw, rvd_raw. now rewrite E1, E2, E3, E4.
Qed.

(* ---------- background voxels do not count ---------- *)
Definition is_bg (v : Z * Z) : bool := (fst v =? 0) && (snd v =? 0).
Definition strip (a : arr2) : arr2 := filter (fun v => negb (is_bg v)) a.

Lemma select_bg_counts ri pis a : ri <> 0 -> ~ In 0 pis ->
  let s := select ri pis a in let s' := select ri pis (strip a) in
  sum_ref s = sum_ref s' /\ sum_pred s = sum_pred s' /\ n_inter s = n_inter s' /\ n_union s = n_union s'.
Proof.
  intros Hr Hp. cbn zeta. unfold strip, select, sum_ref, sum_pred, n_inter, n_union.
  induction a as [|v a IH]; [cbn; auto|]. cbn [filter map]. destruct IH as (I1 & I2 & I3 & I4).
  destruct (is_bg v) eqn:Eb; cbn [negb map sumZ cntZ fst snd].
  - unfold is_bg in Eb. apply andb_true_iff in Eb as [E1 E2]. apply Z.eqb_eq in E1, E2. rewrite E1, E2.
    assert (Er : (0 =? ri) = false) by lia. assert (Em : memZ 0 pis = false).
    { destruct (memZ 0 pis) eqn:E; [apply memZ_spec in E; contradiction|reflexivity]. }
    rewrite Er, Em. cbn [b2z nz Z.eqb negb andb orb]. repeat split; lia.
  - cbn [map sumZ cntZ fst snd]. repeat split; lia.
Qed.

Theorem metrics_strip ri pis a : ri <> 0 -> ~ In 0 pis ->
  iou (Some (ri, pis)) a = iou (Some (ri, pis)) (strip a) /\
  dice (Some (ri, pis)) a = dice (Some (ri, pis)) (strip a) /\
  rvd (Some (ri, pis)) a = rvd (Some (ri, pis)) (strip a).
Proof.
  intros Hr Hp. destruct (select_bg_counts ri pis a Hr Hp) as (E1 & E2 & E3 & E4).
  unfold iou, dice, rvd, metric_input, iou_raw, dice_raw, rvd_raw. now rewrite E1, E2, E3, E4.
Qed.

(* ---------- canonical sorted duplicate-free lists ---------- *)
Lemma psorted_ext l l' : psorted l -> psorted l' -> (forall x, In x l <-> In x l') -> l = l'.
Proof.
  revert l'. induction l as [|x l IH]; intros l' Hs Hs' Hin.
  - destruct l' as [|y l']; [reflexivity|]. exfalso. apply (Hin y). now left.
  - destruct l' as [|y l']; [exfalso; apply (Hin x); now left|].
    inversion Hs as [|? ? Hsl Hall]; subst. inversion Hs' as [|? ? Hsl' Hall']; subst.
    rewrite Forall_forall in Hall, Hall'.
    assert (x = y).
    { destruct (proj1 (Hin x) (or_introl eq_refl)) as [->|Hx]; [reflexivity|].
      destruct (proj2 (Hin y) (or_introl eq_refl)) as [->|Hy]; [reflexivity|].
      exfalso. apply (pair_lt_irrefl x). eapply pair_lt_trans; [apply (Hall y Hy)|apply (Hall' x Hx)]. }
    subst y. f_equal. apply IH; [exact Hsl|exact Hsl'|]. intros z. split; intros Hz.
    + destruct (proj1 (Hin z) (or_intror Hz)) as [<-|H']; [|exact H']. exfalso. exact (pair_lt_irrefl x (Hall x Hz)).
    + destruct (proj2 (Hin z) (or_intror Hz)) as [<-|H']; [|exact H']. exfalso. exact (pair_lt_irrefl x (Hall' x Hz)).
Qed.

Theorem overlap_pairs_ext a a' : (forall v, nz (fst v) && nz (snd v) = true -> (In v a <-> In v a')) ->
  overlap_pairs a = overlap_pairs a'.
Proof.
  intros H. apply psorted_ext; try apply overlap_pairs_sorted. intros rp. rewrite !overlap_pairs_spec.
  assert (Hk : fst rp <> 0 -> snd rp <> 0 -> nz (fst rp) && nz (snd rp) = true).
  { intros H1 H2. unfold nz. apply andb_true_iff. split; apply negb_true_iff, Z.eqb_neq; assumption. }
  split; intros (Hin & Hr & Hp); (split; [apply (H rp (Hk Hr Hp)); exact Hin|split; assumption]).
Qed.

Lemma overlap_pairs_perm a a' : Permutation a a' -> overlap_pairs a = overlap_pairs a'.
Proof. intros H. apply overlap_pairs_ext. intros v _. split; apply Permutation_in; [exact H|now apply Permutation_sym]. Qed.
Lemma overlap_pairs_strip a : overlap_pairs a = overlap_pairs (strip a).
Proof.
  apply overlap_pairs_ext. intros v Hv. unfold strip. rewrite filter_In. split; [|tauto]. intros Hin. split; [exact Hin|].
  unfold is_bg. apply andb_true_iff in Hv as [H1 _]. unfold nz in H1. apply negb_true_iff in H1. now rewrite H1.
Qed.

(* candidate lists (pairs and overlap scores) *)
Theorem candidates_perm m a a' : Permutation a a' -> candidates m a = candidates m a'.
Proof.
  intros H. unfold candidates. rewrite (overlap_pairs_perm a a' H). apply map_ext. intros rp. f_equal.
  unfold score_overlap. destruct (metrics_perm (Some (fst rp, [snd rp])) a a' H) as (E1 & E2 & _). destruct m; assumption.
Qed.
Theorem candidates_strip m a : candidates m a = candidates m (strip a).
Proof.
  unfold candidates. rewrite <- (overlap_pairs_strip a). apply map_ext_in. intros rp Hin. f_equal.
  apply overlap_pairs_spec in Hin as (_ & Hr & Hp).
  assert (Hn : ~ In 0 [snd rp]) by (intros [E|[]]; congruence).
  unfold score_overlap. destruct (metrics_strip (fst rp) [snd rp] a Hr Hn) as (E1 & E2 & _). destruct m; assumption.
Qed.

(* ---------- injective renaming of the labels ---------- *)
Definition rename (sr sp : Z -> Z) (a : arr2) : arr2 := map (fun v => (sr (fst v), sp (snd v))) a.
Definition injective (f : Z -> Z) : Prop := forall x y, f x = f y -> x = y.

Lemma select_rename sr sp r ps a : injective sr -> injective sp ->
  select (sr r) (map sp ps) (rename sr sp a) = select r ps a.
Proof.
  intros Hr Hp. unfold select, rename. rewrite map_map. apply map_ext. intros v. cbn [fst snd]. f_equal.
  - f_equal. destruct (Z.eqb_spec (sr (fst v)) (sr r)) as [E|E], (Z.eqb_spec (fst v) r) as [E'|E']; try reflexivity.
    + apply Hr in E. contradiction. + subst. contradiction.
  - f_equal. destruct (memZ (snd v) ps) eqn:E.
    + apply memZ_spec in E. apply memZ_spec. now apply in_map.
    + destruct (memZ (sp (snd v)) (map sp ps)) eqn:E2; [|reflexivity]. apply memZ_spec in E2.
      apply in_map_iff in E2 as (y & Hy & Hin). apply Hp in Hy. subst y. apply memZ_spec in Hin. congruence.
Qed.

Theorem metrics_rename sr sp r ps a : injective sr -> injective sp ->
  iou (Some (sr r, map sp ps)) (rename sr sp a) = iou (Some (r, ps)) a /\
  dice (Some (sr r, map sp ps)) (rename sr sp a) = dice (Some (r, ps)) a /\
  rvd (Some (sr r, map sp ps)) (rename sr sp a) = rvd (Some (r, ps)) a.
Proof. intros Hr Hp. unfold iou, dice, rvd, metric_input. rewrite (select_rename sr sp r ps a Hr Hp). repeat split. Qed.

(* the overlapping pairs of the renamed maps are the renamed overlapping pairs *)
Theorem overlap_pairs_rename sr sp a rp : injective sr -> injective sp -> sr 0 = 0 -> sp 0 = 0 ->
  (In (sr (fst rp), sp (snd rp)) (overlap_pairs (rename sr sp a)) <-> In rp (overlap_pairs a)).
Proof.
  intros Hr Hp Hr0 Hp0. rewrite !overlap_pairs_spec. unfold rename. rewrite in_map_iff. cbn [fst snd]. split.
  - intros ((v & [= E1 E2] & Hv) & N1 & N2). apply Hr in E1. apply Hp in E2.
    assert (v = rp) by (destruct v, rp; cbn in *; congruence). subst v. repeat split; [exact Hv| |].
    + intros E. apply N1. now rewrite E. + intros E. apply N2. now rewrite E.
  - intros (Hv & N1 & N2). repeat split.
    + exists rp. split; [reflexivity|exact Hv].
    + intros E. apply N1. apply Hr. now rewrite E. + intros E. apply N2. apply Hp. now rewrite E.
Qed.

(* ---------- exchanging prediction and reference ---------- *)
Lemma select_swap r p a : select r [p] (swap2 a) = swap2 (select p [r] a).
Proof.
  unfold select, swap2. rewrite !map_map. apply map_ext. intros v. cbn [fst snd memZ existsb].
  rewrite !orb_false_r. f_equal; f_equal; apply Z.eqb_sym.
Qed.
Theorem metrics_exchange r p a :
  iou (Some (r, [p])) (swap2 a) = iou (Some (p, [r])) a /\ dice (Some (r, [p])) (swap2 a) = dice (Some (p, [r])) a.
Proof.
  unfold iou, dice, metric_input. rewrite select_swap. split; [apply iou_symmetric|apply dice_symmetric].
Qed.
(* RVD under exchange: r' = -r/(1+r), on the exact quotients (both volumes non-zero) *)
Theorem rvd_exchange x y : x <> 0 -> y <> 0 ->
  (qdiv (x - y) y == - (qdiv (y - x) x) / (1 + qdiv (y - x) x))%Q.
Proof.
  intros Hx Hy. unfold qdiv. unfold Z.sub. rewrite !inject_Z_plus, !inject_Z_opp.
  assert (Hx' : ~ (inject_Z x == 0)%Q) by (unfold Qeq, inject_Z; cbn; lia).
  assert (Hy' : ~ (inject_Z y == 0)%Q) by (unfold Qeq, inject_Z; cbn; lia).
  field. repeat split; try assumption.
  intro E. apply Hy'. setoid_replace (inject_Z y) with (inject_Z x + (inject_Z y - inject_Z x))%Q by ring. exact E.
Qed.

(* ---------- the matching specification under renaming / exchange of the label pairs ---------- *)
From Pan Require Import Proofs.Matching.
Section Transport.
  Variable score : Type.
  Variable geb : score -> score -> bool.
  Variable beats : score -> bool.
  Variable m2o : bool.
  Notation cand := (cand score).
  Variable f : Z * Z -> Z * Z.                         (* a map of the (ref, pred) label pair *)
  Definition mapc (c : cand) : cand := (fst c, f (snd c)).
  (* f preserves and reflects the conflict relation and is injective: e.g. (sr r, sp p) for injective
     sr, sp; or the exchange (p, r) when matching is one-to-one *)
  Hypothesis f_conf : forall c d : cand, conflictb m2o (mapc c) (mapc d) = conflictb m2o c d.
  Hypothesis f_inj : forall x y, f x = f y -> x = y.

  Lemma mapc_inj c d : mapc c = mapc d -> c = d.
  Proof. destruct c as [s k], d as [s' k']. unfold mapc. cbn. intros [= -> E]. apply f_inj in E. now subst. Qed.
  Lemma In_mapc c l : In (mapc c) (map mapc l) <-> In c l.
  Proof. split; [|apply in_map]. intros H. apply in_map_iff in H as (d & E & Hd). apply mapc_inj in E. now subst. Qed.

  Theorem valid_transport cs M :
    valid score geb beats m2o cs M -> valid score geb beats m2o (map mapc cs) (map mapc M).
  Proof.
    intros (H1 & H2 & H4). repeat split.
    - intros c d Hc Hd Hcf. apply in_map_iff in Hc as (c0 & <- & Hc0). apply in_map_iff in Hd as (d0 & <- & Hd0).
      unfold conf in Hcf. rewrite f_conf in Hcf. now rewrite (H1 c0 d0 Hc0 Hd0 Hcf).
    - apply in_map_iff in H as (c0 & <- & Hc0). apply in_map. now apply H2.
    - apply in_map_iff in H as (c0 & <- & Hc0). cbn. now apply H2.
    - intros c Hc Hb Hn. apply in_map_iff in Hc as (c0 & <- & Hc0).
      destruct (H4 c0 Hc0 Hb) as (d & Hd & Hcf & Hg); [intros Hin; apply Hn; now apply in_map|].
      exists (mapc d). repeat split; [now apply in_map| |exact Hg]. unfold conf. now rewrite f_conf.
  Qed.

  Theorem competing_distinct_transport cs :
    competing_distinct score geb beats m2o cs -> competing_distinct score geb beats m2o (map mapc cs).
  Proof.
    intros H c d Hc Hd Bc Bd Hcf Hne. apply in_map_iff in Hc as (c0 & <- & Hc0). apply in_map_iff in Hd as (d0 & <- & Hd0).
    apply (H c0 d0 Hc0 Hd0 Bc Bd); [unfold conf in *; now rewrite f_conf in Hcf|]. intros ->. now apply Hne.
  Qed.
End Transport.

(* injective renamings and (for one-to-one matching) the exchange satisfy the hypotheses *)
Lemma rename_conf {score} m2o sr sp (c d : cand score) : injective sr -> injective sp ->
  conflictb m2o (mapc score (fun rp => (sr (fst rp), sp (snd rp))) c) (mapc score (fun rp => (sr (fst rp), sp (snd rp))) d)
  = conflictb m2o c d.
Proof.
  intros Hr Hp. unfold conflictb, same_predb, competingb, mapc, cref, cpred. cbn [fst snd].
  assert (E1 : (sr (fst (snd c)) =? sr (fst (snd d))) = (fst (snd c) =? fst (snd d))).
  { destruct (Z.eqb_spec (sr (fst (snd c))) (sr (fst (snd d)))) as [E|E], (Z.eqb_spec (fst (snd c)) (fst (snd d))) as [E'|E']; try reflexivity;
      [apply Hr in E; contradiction|rewrite E' in E; contradiction]. }
  assert (E2 : (sp (snd (snd c)) =? sp (snd (snd d))) = (snd (snd c) =? snd (snd d))).
  { destruct (Z.eqb_spec (sp (snd (snd c))) (sp (snd (snd d)))) as [E|E], (Z.eqb_spec (snd (snd c)) (snd (snd d))) as [E'|E']; try reflexivity;
      [apply Hp in E; contradiction|rewrite E' in E; contradiction]. }
  rewrite E1, E2. reflexivity.
Qed.
Lemma exchange_conf {score} (c d : cand score) :
  conflictb false (mapc score (fun rp => (snd rp, fst rp)) c) (mapc score (fun rp => (snd rp, fst rp)) d) = conflictb false c d.
Proof. unfold conflictb, competingb, mapc, cref, cpred. cbn [fst snd]. apply orb_comm. Qed.
