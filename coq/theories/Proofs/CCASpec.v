(* Relational specification of connected-component labelling (definitions only).
   No arrays, no numbering convention: what it means for `lab` (with count n) to be a component
   labelling of the sparse semantic map `m` under a backend's adjacency. *)
From Pan Require Import Base.Common Model.CCA.
Open Scope Z_scope.

(* well-formed sparse map: distinct coordinates, no zero label *)
Definition wf (m : smap) : Prop := NoDup (map fst m) /\ forall p, In p m -> snd p <> 0.

(* two coordinates carry the same label in a labelling *)
Definition same_label (lab : smap) (c d : cvox) : Prop :=
  exists k, In (c, k) lab /\ In (d, k) lab.

(* joined by a path of adjacent voxels, every voxel of the path in m *)
Inductive conn (b : backend) (m : smap) : cvox * Z -> cvox * Z -> Prop :=
| conn_refl v : In v m -> conn b m v v
| conn_step v w u : In v m -> In w m -> adjacent b v w = true -> conn b m w u -> conn b m v u.

Definition is_cca (b : backend) (m lab : smap) (n : Z) : Prop :=
  map fst lab = map fst m                                                     (* same voxels, same order *)
  /\ 0 <= n
  /\ (forall p, In p lab -> 1 <= snd p <= n)                                  (* labels within 1..n *)
  /\ (forall k, 1 <= k <= n -> exists c, In (c, k) lab)                       (* each of 1..n used *)
  /\ (forall v w, In v m -> In w m -> adjacent b v w = true ->
        same_label lab (fst v) (fst w))                                       (* adjacent => joined *)
  /\ (forall v w, In v m -> In w m -> same_label lab (fst v) (fst w) ->
        conn b m v w).                                                        (* every class connected *)

(* relabelling *)
Definition relabel (f : Z -> Z) (lab : smap) : smap := map (fun p => (fst p, f (snd p))) lab.

(* number of distinct labels *)
Definition n_distinct_labels (lab : smap) : Z := Z.of_nat (length (dedupZ (map snd lab))).
