(* C14: the final score of a matched reference is at least as good as the single score of EVERY candidate prediction of that reference
   that was not given to another reference (its best free single candidate), for every candidate list, score function and
   threshold.  Needs the best-first order: the invariant speaks about the processed prefix of the sorted candidate list. *)
From Pan Require Import Base.Common Model.Matcher Model.Merge Proofs.Matching Proofs.MergeFacts.
From Coq Require Import Sorted Permutation.
Open Scope Z_scope.

Section MergeFree.
  Variable score : Type.
  Variable geb : score -> score -> bool.
  Notation ge a b := (geb a b = true).
  Hypothesis geb_refl : forall a, ge a a.
  Hypothesis geb_trans : forall a b c, ge a b -> ge b c -> ge a c.
  Variable score_eqb : score -> score -> bool.
  Variable beats : score -> bool.
  Hypothesis beats_up : forall a b, ge a b -> beats b = true -> beats a = true.
  Variable score_union : Z -> list Z -> score.
  Notation cand := (cand score).
  Notation mstate := (mstate score).
  Notation step := (merge_step geb score_eqb beats score_union).
  Notation MInv := (MInv score geb beats score_union).
  Notation sortedD := (sortedD score geb).

  (* p is unassigned, or assigned to r *)
  Definition free_for (p r : Z) (M : list (Z * Z)) : Prop := forall r', In (p, r') M -> r' = r.

  Record FInv (pre : list cand) (st : mstate) : Prop := {
    (* every processed candidate ended up with its prediction assigned, or its reference matched, or it misses the threshold *)
    fi_done : forall d, In d pre -> has_pred (cpred d) (ms_map st) = true \/ has_ref (cref d) (ms_map st) = true \/ beats (fst d) = false;
    (* the recorded score of a reference is at least as good as every processed candidate of it whose prediction is free for it *)
    fi_free : forall d S, In d pre -> free_for (cpred d) (cref d) (ms_map st) ->
                lookup_score (cref d) (ms_score st) = Some S -> ge S (fst d) }.

  Lemma step_map_grows st c : exists t, ms_map (step st c) = ms_map st ++ t.
  Proof.
    unfold merge_step. destruct (lookup_score (cref c) (ms_score st)); destruct (merge_action _ _ _ _ _);
      cbn [ms_map]; first [exists []; symmetry; apply app_nil_r | eexists; reflexivity].
  Qed.

  Lemma free_for_mono p r M t : free_for p r (M ++ t) -> free_for p r M.
  Proof. intros H r' Hin. apply H. apply in_or_app. now left. Qed.

  Lemma step_finv pre c post st : sortedD (pre ++ c :: post) -> seed_ok score score_union c ->
    MInv pre st -> FInv pre st -> FInv (pre ++ [c]) (step st c).
  Proof.
    intros Hsort Hseed HI [K F].
    assert (Hge : forall d, In d pre -> ge (fst d) (fst c)) by (intros d Hd; exact (sorted_app_ge score geb pre c post Hsort d Hd)).
    destruct HI as [H1 H2 H3 H4].
    unfold merge_step. set (r := cref c). set (p := cpred c). set (M := ms_map st) in *.
    destruct (lookup_score r (ms_score st)) as [old|] eqn:El.
    - (* the reference is matched, with recorded score old >= its seed >= c *)
      assert (Hcr : has_ref r M = true) by (apply H2; eauto).
      destruct (H3 r old El) as (_ & _ & e & He & Her & _ & _ & Hoe).
      assert (Hold : ge old (fst c)) by (eapply geb_trans; [exact Hoe|apply Hge, He]).
      unfold merge_action. rewrite Hcr. destruct (has_pred p M) eqn:Ep.
      + (* prediction already assigned: nothing changes *)
        constructor.
        * intros d Hd. apply in_app_or in Hd as [Hd|[<-|[]]]; [apply K, Hd|left; exact Ep].
        * intros d S Hd Hfree Hl. apply in_app_or in Hd as [Hd|[<-|[]]]; [apply (F d S Hd Hfree Hl)|].
          fold r in Hl. rewrite El in Hl. injection Hl as <-. exact Hold.
      + set (new := score_union r (preds_of r M ++ [p])).
        destruct (score_eqb new old) eqn:Ee; cbn [negb andb].
        * constructor.
          -- intros d Hd. apply in_app_or in Hd as [Hd|[<-|[]]]; [apply K, Hd|right; left; exact Hcr].
          -- intros d S Hd Hfree Hl. apply in_app_or in Hd as [Hd|[<-|[]]]; [apply (F d S Hd Hfree Hl)|].
             fold r in Hl. rewrite El in Hl. injection Hl as <-. exact Hold.
        * destruct (geb new old) eqn:Eg.
          -- (* merged: the score of r becomes new >= old *)
             constructor; cbn [ms_map ms_score].
             ++ intros d Hd. apply in_app_or in Hd as [Hd|[<-|[]]].
                ** destruct (K d Hd) as [Hk|[Hk|Hk]]; [left|right; left|right; right; exact Hk].
                   --- rewrite has_pred_app, Hk. reflexivity.
                   --- rewrite has_ref_app, Hk. reflexivity.
                ** left. rewrite has_pred_app. cbn [fst]. fold p. rewrite Z.eqb_refl. apply orb_true_r.
             ++ intros d S Hd Hfree Hl. rewrite (lookup_update score) in Hl.
                assert (Hfree' : d = c \/ free_for (cpred d) (cref d) M) by (right; exact (free_for_mono _ _ _ _ Hfree)).
                apply in_app_or in Hd as [Hd|[<-|[]]].
                ** destruct (r =? cref d) eqn:Er.
                   --- apply Z.eqb_eq in Er. rewrite <- Er in Hl. rewrite El in Hl. injection Hl as <-.
                       eapply geb_trans; [exact Eg|]. apply (F d old Hd); [exact (free_for_mono _ _ _ _ Hfree)|rewrite <- Er; exact El].
                   --- apply (F d S Hd); [exact (free_for_mono _ _ _ _ Hfree)|exact Hl].
                ** fold r in Hl. rewrite Z.eqb_refl, El in Hl. injection Hl as <-. eapply geb_trans; [exact Eg|exact Hold].
          -- constructor.
             ++ intros d Hd. apply in_app_or in Hd as [Hd|[<-|[]]]; [apply K, Hd|right; left; exact Hcr].
             ++ intros d S Hd Hfree Hl. apply in_app_or in Hd as [Hd|[<-|[]]]; [apply (F d S Hd Hfree Hl)|].
                fold r in Hl. rewrite El in Hl. injection Hl as <-. exact Hold.
    - (* the reference is not matched yet *)
      assert (Hcr : has_ref r M = false).
      { destruct (has_ref r M) eqn:E; [|reflexivity]. apply H2 in E as [s Hs]. congruence. }
      unfold merge_action. destruct (has_pred p M) eqn:Ep.
      + constructor.
        * intros d Hd. apply in_app_or in Hd as [Hd|[<-|[]]]; [apply K, Hd|left; exact Ep].
        * intros d S Hd Hfree Hl. apply in_app_or in Hd as [Hd|[<-|[]]]; [apply (F d S Hd Hfree Hl)|].
          fold r in Hl. congruence.
      + destruct (beats (fst c)) eqn:Eb.
        * (* c seeds r *)
          constructor; cbn [ms_map ms_score].
          -- intros d Hd. apply in_app_or in Hd as [Hd|[<-|[]]].
             ++ destruct (K d Hd) as [Hk|[Hk|Hk]]; [left|right; left|right; right; exact Hk].
                ** rewrite has_pred_app, Hk. reflexivity.
                ** rewrite has_ref_app, Hk. reflexivity.
             ++ left. rewrite has_pred_app. cbn [fst]. fold p. rewrite Z.eqb_refl. apply orb_true_r.
          -- intros d S Hd Hfree Hl. rewrite (lookup_app_new score) in Hl.
             apply in_app_or in Hd as [Hd|[<-|[]]].
             ++ destruct (lookup_score (cref d) (ms_score st)) as [v|] eqn:Eld.
                ** injection Hl as <-. apply (F d v Hd); [exact (free_for_mono _ _ _ _ Hfree)|exact Eld].
                ** destruct (r =? cref d) eqn:Er; [|discriminate]. apply Z.eqb_eq in Er. exfalso.
                   (* d was processed while r was unmatched: its prediction was taken by another reference, or it misses the threshold *)
                   destruct (K d Hd) as [Hk|[Hk|Hk]].
                   --- apply (has_pred_In) in Hk as [r'' Hin].
                       assert (r'' = cref d) by (apply Hfree; apply in_or_app; left; exact Hin). subst r''.
                       assert (has_ref (cref d) M = true) by (apply has_ref_In; eauto). rewrite <- Er in H. congruence.
                   --- rewrite <- Er in Hk. congruence.
                   --- pose proof (beats_up (fst d) (fst c) (Hge d Hd) Eb). congruence.
             ++ fold r in Hl. rewrite El, Z.eqb_refl in Hl. injection Hl as <-. apply geb_refl.
        * constructor.
          -- intros d Hd. apply in_app_or in Hd as [Hd|[<-|[]]]; [apply K, Hd|right; right; exact Eb].
          -- intros d S Hd Hfree Hl. apply in_app_or in Hd as [Hd|[<-|[]]]; [apply (F d S Hd Hfree Hl)|].
             fold r in Hl. congruence.
  Qed.

  Lemma fold_finv post : forall pre st, sortedD (pre ++ post) -> (forall c, In c post -> seed_ok score score_union c) ->
    MInv pre st -> FInv pre st -> FInv (pre ++ post) (fold_left step post st).
  Proof.
    induction post as [|c post IH]; intros pre st Hs Hseed HI HF; cbn [fold_left]; [now rewrite app_nil_r|].
    replace (pre ++ c :: post) with ((pre ++ [c]) ++ post) by (rewrite <- app_assoc; reflexivity).
    apply IH.
    - rewrite <- app_assoc. exact Hs.
    - intros d Hd. apply Hseed. now right.
    - apply (step_inv score geb geb_refl geb_trans score_eqb beats beats_up score_union); [apply Hseed; now left|exact HI].
    - apply (step_finv pre c post st Hs); [apply Hseed; now left|exact HI|exact HF].
  Qed.

  Hypothesis geb_total : forall a b, ge a b \/ ge b a.

  Theorem merge_final_beats_free_candidates cs : (forall c, In c cs -> seed_ok score score_union c) ->
    let st := merge_match geb score_eqb beats score_union cs in
    forall c S, In c cs -> lookup_score (cref c) (ms_score st) = Some S ->
      (forall r', In (cpred c, r') (ms_map st) -> r' = cref c) -> ge S (fst c).
  Proof.
    intros Hseed st c S Hc Hl Hfree.
    assert (HS : sortedD (sort_cands geb cs)) by (apply sort_sorted; [exact geb_trans|exact geb_total]).
    assert (Hs' : forall d, In d (sort_cands geb cs) -> seed_ok score score_union d).
    { intros d Hd. apply Hseed. exact (Permutation_in _ (Permutation_sym (sort_perm score geb cs)) Hd). }
    pose proof (fold_finv (sort_cands geb cs) [] {| ms_map := []; ms_score := [] |} HS Hs'
                  (MInv_init score geb beats score_union)) as HF.
    assert (F0 : FInv [] {| ms_map := []; ms_score := [] |}) by (constructor; [intros d []|intros d S0 []]).
    specialize (HF F0).
    cbn [app] in HF. destruct HF as [_ F]. apply (F c S); [|exact Hfree|exact Hl].
    exact (Permutation_in _ (sort_perm score geb cs) Hc).
  Qed.
End MergeFree.
