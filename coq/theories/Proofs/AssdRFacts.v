(* Facts about the real-valued ASSD (Model/AssdR.v): sign, zero, symmetry, and the soundness of the
   rational enclosure assd_lo <= assd_R <= assd_hi.  Uses Coq's Reals (three stdlib axioms). *)
From Coq Require Import Reals QArith Qreals ZArith List Lra Lia.
From Pan Require Import Model.Assd Model.AssdR Proofs.AssdFacts.
Import ListNotations.
Open Scope R_scope.

Lemma sum_sqrt_nonneg l : 0 <= sum_sqrt l.
Proof. induction l as [|d l IH]; simpl; [lra|]. pose proof (sqrt_pos (IZR d)). lra. Qed.

Lemma mean_sqrt_nil : mean_sqrt [] = 0.
Proof. unfold mean_sqrt. simpl. unfold Rdiv. apply Rmult_0_l. Qed.

Lemma INR_length_pos {A} (l : list A) : l <> [] -> 0 < INR (length l).
Proof. intros H. destruct l; [congruence|]. apply lt_0_INR. simpl. lia. Qed.

Lemma mean_sqrt_nonneg l : 0 <= mean_sqrt l.
Proof.
  destruct l as [|d l]; [rewrite mean_sqrt_nil; lra|].
  unfold mean_sqrt. apply Rmult_le_pos; [apply sum_sqrt_nonneg|].
  left. apply Rinv_0_lt_compat. apply INR_length_pos. discriminate.
Qed.

Lemma assd_R_nonneg ls : 0 <= assd_R ls.
Proof.
  unfold assd_R. pose proof (mean_sqrt_nonneg (fst ls)). pose proof (mean_sqrt_nonneg (snd ls)). lra.
Qed.

Lemma assd_R_swap l1 l2 : assd_R (l1, l2) = assd_R (l2, l1).
Proof. unfold assd_R. simpl. lra. Qed.

Lemma sum_sqrt_zero l : Forall (fun d => (0 <= d)%Z) l ->
  (sum_sqrt l = 0 <-> Forall (fun d => d = 0%Z) l).
Proof.
  induction 1 as [|d l Hd Hl IH]; simpl.
  - split; auto.
  - pose proof (sqrt_pos (IZR d)). pose proof (sum_sqrt_nonneg l). split.
    + intros E. assert (E1 : sqrt (IZR d) = 0) by lra. assert (E2 : sum_sqrt l = 0) by lra.
      constructor; [|apply IH; assumption].
      apply sqrt_eq_0 in E1; [|apply IZR_le; assumption]. apply eq_IZR. assumption.
    + intros F. inversion F as [|? ? F1 F2]; subst. rewrite sqrt_0. apply IH in F2. lra.
Qed.

Lemma mean_sqrt_zero l : l <> [] -> Forall (fun d => (0 <= d)%Z) l ->
  (mean_sqrt l = 0 <-> Forall (fun d => d = 0%Z) l).
Proof.
  intros Hne Hnn. rewrite <- sum_sqrt_zero by assumption. unfold mean_sqrt.
  pose proof (INR_length_pos l Hne) as Hp. split.
  - intros E. apply (Rmult_eq_compat_r (INR (length l))) in E. unfold Rdiv in E.
    rewrite Rmult_assoc, Rinv_l, Rmult_1_r, Rmult_0_l in E by lra. assumption.
  - intros ->. unfold Rdiv. apply Rmult_0_l.
Qed.

(* ASSD = 0 iff the two borders coincide as sets *)
Lemma assd_R_zero n X Y : X <> [] -> Y <> [] -> wf (S n) X -> wf (S n) Y ->
  (assd_R (assd_sq X Y) = 0 <-> (forall p, In p (border X) <-> In p (border Y))).
Proof.
  intros HX HY WX WY.
  assert (BX : border X <> []) by (apply border_nonempty; [assumption|eapply wf_S_nonempty; eassumption]).
  assert (BY : border Y <> []) by (apply border_nonempty; [assumption|eapply wf_S_nonempty; eassumption]).
  assert (N1 : asd_sq X Y <> []).
  { intros E. apply (f_equal (@length Z)) in E. rewrite asd_sq_length in E by assumption.
    destruct (border X); [congruence|discriminate]. }
  assert (N2 : asd_sq Y X <> []).
  { intros E. apply (f_equal (@length Z)) in E. rewrite asd_sq_length in E by assumption.
    destruct (border Y); [congruence|discriminate]. }
  unfold assd_R, assd_sq. cbn [fst snd].
  pose proof (mean_sqrt_nonneg (asd_sq X Y)) as P1. pose proof (mean_sqrt_nonneg (asd_sq Y X)) as P2.
  pose proof (mean_sqrt_zero _ N1 (asd_sq_nonneg X Y)) as Z1.
  pose proof (mean_sqrt_zero _ N2 (asd_sq_nonneg Y X)) as Z2.
  rewrite (asd_sq_all_zero (S n) X Y WX WY BY) in Z1.
  rewrite (asd_sq_all_zero (S n) Y X WY WX BX) in Z2.
  split.
  - intros E. assert (E1 : mean_sqrt (asd_sq X Y) = 0) by lra. assert (E2 : mean_sqrt (asd_sq Y X) = 0) by lra.
    destruct Z1 as [Z1 _]. destruct Z2 as [Z2 _]. specialize (Z1 E1). specialize (Z2 E2). intros p. split; auto.
  - intros H. assert (E1 : mean_sqrt (asd_sq X Y) = 0) by (apply Z1; intros p; apply H).
    assert (E2 : mean_sqrt (asd_sq Y X) = 0) by (apply Z2; intros p; apply H). lra.
Qed.

(* ------------------------------------------------------------------ enclosure *)
Lemma pow4 k : (4 ^ k = 2 ^ k * 2 ^ k)%Z.
Proof. change 4%Z with (2 * 2)%Z. apply Z.pow_mul_l. Qed.

Lemma Q2R_inject_Z z : Q2R (inject_Z z) = IZR z.
Proof. unfold Q2R, inject_Z. simpl. rewrite Rinv_1. apply Rmult_1_r. Qed.

(* h >= 0 and d*P*P <= h*h  ->  sqrt d * P <= h ;  s >= 0 and s*s <= d*P*P  ->  s <= sqrt d * P *)
Lemma sqrt_scaled_le (d P h : Z) : (0 < P)%Z -> (0 <= h)%Z -> (d * (P * P) <= h * h)%Z ->
  sqrt (IZR d) * IZR P <= IZR h.
Proof.
  intros HP Hh Hle. assert (0 < IZR P) by (apply IZR_lt; assumption).
  assert (0 <= IZR h) by (apply IZR_le; assumption).
  destruct (Z_lt_le_dec d 0) as [Hneg|Hpos].
  - rewrite sqrt_neg_0; [lra|]. apply IZR_le. lia.
  - assert (0 <= IZR d) by (apply IZR_le; assumption).
    apply Rsqr_incr_0_var; [|assumption]. unfold Rsqr.
    replace (sqrt (IZR d) * IZR P * (sqrt (IZR d) * IZR P)) with ((sqrt (IZR d) * sqrt (IZR d)) * (IZR P * IZR P)) by ring.
    rewrite sqrt_sqrt by assumption. rewrite <- !mult_IZR. apply IZR_le. assumption.
Qed.

Lemma sqrt_scaled_ge (d P s : Z) : (0 < P)%Z -> (0 <= s)%Z -> (s * s <= d * (P * P))%Z ->
  IZR s <= sqrt (IZR d) * IZR P.
Proof.
  intros HP Hs Hle. assert (0 < IZR P) by (apply IZR_lt; assumption).
  assert (Hd : (0 <= d)%Z) by nia.
  assert (0 <= IZR d) by (apply IZR_le; assumption).
  pose proof (sqrt_pos (IZR d)).
  apply Rsqr_incr_0_var; [|apply Rmult_le_pos; lra]. unfold Rsqr.
  replace (sqrt (IZR d) * IZR P * (sqrt (IZR d) * IZR P)) with ((sqrt (IZR d) * sqrt (IZR d)) * (IZR P * IZR P)) by ring.
  rewrite sqrt_sqrt by assumption. rewrite <- !mult_IZR. apply IZR_le. assumption.
Qed.

Lemma isqrt_lo_sound k d : (0 <= k)%Z -> IZR (isqrt_lo k d) <= sqrt (IZR d) * IZR (2 ^ k).
Proof.
  intros Hk. unfold isqrt_lo. rewrite pow4.
  assert (HP : (0 < 2 ^ k)%Z) by (apply Z.pow_pos_nonneg; lia).
  set (P := (2 ^ k)%Z) in *.
  destruct (Z_lt_le_dec (d * (P * P)) 0) as [Hneg|Hpos].
  - rewrite Z.sqrt_neg by assumption.
    assert (0 < IZR P) by (apply IZR_lt; assumption). pose proof (sqrt_pos (IZR d)).
    apply Rmult_le_pos; lra.
  - apply sqrt_scaled_ge; [assumption|apply Z.sqrt_nonneg|].
    pose proof (Z.sqrt_spec _ Hpos) as S. cbv zeta in S. lia.
Qed.

Lemma isqrt_hi_sound k d : (0 <= k)%Z -> sqrt (IZR d) * IZR (2 ^ k) <= IZR (isqrt_hi k d).
Proof.
  intros Hk. unfold isqrt_hi. rewrite pow4.
  assert (HP : (0 < 2 ^ k)%Z) by (apply Z.pow_pos_nonneg; lia).
  set (P := (2 ^ k)%Z) in *. set (nn := (d * (P * P))%Z).
  pose proof (Z.sqrt_nonneg nn) as Hs.
  destruct (Z.eqb_spec (Z.sqrt nn * Z.sqrt nn) nn) as [E|NE].
  - apply sqrt_scaled_le; [assumption|assumption|]. fold nn. lia.
  - apply sqrt_scaled_le; [assumption|lia|]. fold nn.
    destruct (Z_lt_le_dec nn 0) as [Hneg|Hpos]; [nia|].
    pose proof (Z.sqrt_spec _ Hpos) as S. cbv zeta in S. lia.
Qed.

Lemma sum_lo_sound k l : (0 <= k)%Z -> IZR (sum_lo k l) <= sum_sqrt l * IZR (2 ^ k).
Proof.
  intros Hk. induction l as [|d l IH]; simpl; [lra|].
  rewrite plus_IZR. pose proof (isqrt_lo_sound k d Hk). lra.
Qed.

Lemma sum_hi_sound k l : (0 <= k)%Z -> sum_sqrt l * IZR (2 ^ k) <= IZR (sum_hi k l).
Proof.
  intros Hk. induction l as [|d l IH]; simpl; [lra|].
  rewrite plus_IZR. pose proof (isqrt_hi_sound k d Hk). lra.
Qed.

Lemma mean_q_R k s l : (0 <= k)%Z -> l <> [] ->
  Q2R (mean_q k s l) = IZR s / IZR (2 ^ k) / INR (length l).
Proof.
  intros Hk Hne. unfold mean_q.
  assert (HP : (0 < 2 ^ k)%Z) by (apply Z.pow_pos_nonneg; lia).
  assert (HL : (0 < Z.of_nat (length l))%Z) by (destruct l; [congruence|simpl; lia]).
  rewrite Q2R_div.
  - rewrite !Q2R_inject_Z, mult_IZR, <- INR_IZR_INZ.
    assert (0 < IZR (2 ^ k)) by (apply IZR_lt; assumption).
    pose proof (INR_length_pos l Hne). field. split; lra.
  - unfold Qeq. simpl. lia.
Qed.

Lemma mean_lo_sound k l : (0 <= k)%Z -> Q2R (mean_q k (sum_lo k l) l) <= mean_sqrt l.
Proof.
  intros Hk. destruct l as [|d l].
  - rewrite mean_sqrt_nil. unfold mean_q. simpl. rewrite Z.mul_0_r. unfold Qdiv, Qmult, Q2R. simpl. lra.
  - rewrite mean_q_R by (auto; discriminate). unfold mean_sqrt.
    assert (HP : (0 < 2 ^ k)%Z) by (apply Z.pow_pos_nonneg; lia).
    assert (0 < IZR (2 ^ k)) by (apply IZR_lt; assumption).
    assert (HL : 0 < INR (length (d :: l))) by (apply INR_length_pos; discriminate).
    pose proof (sum_lo_sound k (d :: l) Hk) as S.
    apply Rmult_le_compat_r; [left; apply Rinv_0_lt_compat; assumption|].
    apply Rmult_le_reg_r with (IZR (2 ^ k)); [assumption|].
    unfold Rdiv. rewrite Rmult_assoc, Rinv_l, Rmult_1_r by lra. assumption.
Qed.

Lemma mean_hi_sound k l : (0 <= k)%Z -> mean_sqrt l <= Q2R (mean_q k (sum_hi k l) l).
Proof.
  intros Hk. destruct l as [|d l].
  - rewrite mean_sqrt_nil. unfold mean_q. simpl. rewrite Z.mul_0_r. unfold Qdiv, Qmult, Q2R. simpl. lra.
  - rewrite mean_q_R by (auto; discriminate). unfold mean_sqrt.
    assert (HP : (0 < 2 ^ k)%Z) by (apply Z.pow_pos_nonneg; lia).
    assert (0 < IZR (2 ^ k)) by (apply IZR_lt; assumption).
    assert (HL : 0 < INR (length (d :: l))) by (apply INR_length_pos; discriminate).
    pose proof (sum_hi_sound k (d :: l) Hk) as S.
    apply Rmult_le_compat_r; [left; apply Rinv_0_lt_compat; assumption|].
    apply Rmult_le_reg_r with (IZR (2 ^ k)); [assumption|].
    unfold Rdiv. rewrite Rmult_assoc, Rinv_l, Rmult_1_r by lra. assumption.
Qed.

Lemma half_Q2R q : Q2R (q / inject_Z 2) = Q2R q / 2.
Proof. rewrite Q2R_div; [rewrite Q2R_inject_Z; reflexivity|]. unfold Qeq; simpl; lia. Qed.

Lemma assd_enclosure k ls : (0 <= k)%Z ->
  Q2R (assd_lo k ls) <= assd_R ls <= Q2R (assd_hi k ls).
Proof.
  intros Hk. unfold assd_lo, assd_hi, assd_R. rewrite !half_Q2R, !Q2R_plus.
  pose proof (mean_lo_sound k (fst ls) Hk). pose proof (mean_lo_sound k (snd ls) Hk).
  pose proof (mean_hi_sound k (fst ls) Hk). pose proof (mean_hi_sound k (snd ls) Hk).
  lra.
Qed.

(* the mean depends on the multiset of distances only *)
Lemma sum_sqrt_perm l l' : Permutation.Permutation l l' -> sum_sqrt l = sum_sqrt l'.
Proof. induction 1; simpl; lra. Qed.

Lemma mean_sqrt_perm l l' : Permutation.Permutation l l' -> mean_sqrt l = mean_sqrt l'.
Proof.
  intros H. unfold mean_sqrt. rewrite (sum_sqrt_perm _ _ H), (Permutation.Permutation_length H). reflexivity.
Qed.
