(* The incremental labelling `raw_labels` partitions m into its connected components:
   adjacent voxels get equal raw labels, and equal raw labels imply a path inside m. *)
From Pan Require Import Base.Common Model.CCA Proofs.CCASpec Proofs.CCAFacts.
Open Scope Z_scope.

Section Raw.
Variable b : backend.

(* z = voxels zipped with their labels *)
Definition lab_closed (z : list ((cvox * Z) * Z)) : Prop :=
  forall v w l l', In (v, l) z -> In (w, l') z -> adjacent b v w = true -> l = l'.
Definition lab_conn (m : smap) (z : list ((cvox * Z) * Z)) : Prop :=
  forall v w l, In (v, l) z -> In (w, l) z -> conn b m v w.

Lemma nbr_labels_In v m ls l :
  In l (nbr_labels b v m ls) <-> exists u, In (u, l) (combine m ls) /\ adjacent b v u = true.
Proof.
  revert ls; induction m as [|w m IH]; destruct ls as [|l0 ls]; cbn; try (split; [tauto|intros (?&[]&_)]).
  destruct (adjacent b v w) eqn:E; cbn; rewrite IH; split.
  - intros [<-|(u&?&?)]; eauto.
  - intros (u&[[= <- <-]|?]&?); eauto.
  - intros (u&?&?); eauto.
  - intros (u&[[= <- <-]|?]&?); [congruence|eauto].
Qed.

Lemma raw_length m : length (raw_labels b m) = length m.
Proof. induction m as [|v m IH]; cbn; auto. rewrite map_length, IH. reflexivity. Qed.

Lemma raw_range m l : In l (raw_labels b m) -> 1 <= l <= Z.of_nat (length m).
Proof.
  revert l; induction m as [|v m IH]; cbn [raw_labels length In]; [tauto|].
  intros l [<-|H]; [lia|]. apply in_map_iff in H. destruct H as (l0&<-&H0). specialize (IH _ H0).
  unfold merge_into. destruct (memZ _ _); lia.
Qed.

Lemma raw_closed_conn m :
  lab_closed (combine m (raw_labels b m)) /\ lab_conn m (combine m (raw_labels b m)).
Proof.
  induction m as [|x m [IHc IHn]]; [split; intros ? ? ? ? []|].
  cbn [raw_labels combine].
  set (ls := raw_labels b m) in *. set (f := Z.of_nat (length m) + 1).
  set (nl := nbr_labels b x m ls). set (g := merge_into f nl).
  assert (Hf : forall u l, In (u, l) (combine m ls) -> l <> f).
  { intros u l H. apply in_combine_r in H. apply raw_range in H. unfold f. lia. }
  assert (Hg_nb : forall u l, In (u, l) (combine m ls) -> adjacent b x u = true -> g l = f).
  { intros u l H A. unfold g, merge_into. replace (memZ l nl) with true; auto.
    symmetry. apply memZ_In. apply nbr_labels_In. eauto. }
  assert (Hg_f : forall l, g l = f -> l = f \/ In l nl).
  { intros l. unfold g, merge_into. destruct (memZ l nl) eqn:E; [right; apply memZ_In; assumption|auto]. }
  assert (Hg_id : forall l, g l <> f -> g l = l).
  { intros l. unfold g, merge_into. destruct (memZ l nl); congruence. }
  assert (Hmono : forall u w, conn b m u w -> conn b (x :: m) u w).
  { intros u w. apply conn_mono. intros ? ?; right; assumption. }
  (* a voxel of m whose new label is f is joined to x *)
  assert (Hx : forall u l, In (u, l) (combine m ls) -> g l = f -> conn b (x :: m) x u).
  { intros u l H E. destruct (Hg_f _ E) as [->|Hin]; [exfalso; eapply Hf; eauto|].
    apply nbr_labels_In in Hin. destruct Hin as (u'&Hu'&A).
    eapply conn_step; [left; reflexivity|right; eapply in_combine_l; eauto|exact A|].
    apply Hmono. eapply IHn; eauto. }
  split.
  - intros v w l l' [[= <- <-]|Hv] [[= <- <-]|Hw] A.
    + reflexivity.
    + apply in_combine_map_r in Hw. destruct Hw as (l0&Hw&->). symmetry. eapply Hg_nb; eauto.
    + apply in_combine_map_r in Hv. destruct Hv as (l0&Hv&->). rewrite adjacent_sym in A. eapply Hg_nb; eauto.
    + apply in_combine_map_r in Hv. destruct Hv as (lv&Hv&->).
      apply in_combine_map_r in Hw. destruct Hw as (lw&Hw&->).
      f_equal. eapply IHc; eauto.
  - intros v w l [Hv|Hv] [Hw|Hw].
    + inversion Hv; inversion Hw; subst. apply conn_refl. left; reflexivity.
    + inversion Hv; subst. apply in_combine_map_r in Hw. destruct Hw as (lw&Hw&E). eapply Hx; eauto.
    + inversion Hw; subst. apply in_combine_map_r in Hv. destruct Hv as (lv&Hv&E'). apply conn_sym. eapply Hx; eauto.
    + apply in_combine_map_r in Hv. destruct Hv as (lv&Hv&->).
      apply in_combine_map_r in Hw. destruct Hw as (lw&Hw&E).
      destruct (Z.eq_dec (g lv) f) as [Ef|Ef].
      * eapply conn_trans; [apply conn_sym; eapply Hx; eauto|eapply Hx; eauto; congruence].
      * assert (lv = lw) by (rewrite <- (Hg_id lv Ef), E; apply Hg_id; congruence). subst lw.
        apply Hmono. eapply IHn; eauto.
Qed.
End Raw.
