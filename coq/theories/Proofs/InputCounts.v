(* C02: the instance counts a result reports are those of the INPUT: the reference is never changed by matching, and a one-to-one
   matching relabels the predictions injectively, so tp + fn = number of reference instances of the input and, for matched input
   and the one-to-one threshold matcher, tp + fp = number of predicted instances of the input (many-to-one / merge matching can only
   lower the number of predicted instances). *)
From Pan Require Import Base.Common Base.Sx Base.Rnd64 Model.MetricTable Model.Metrics Model.EdgeCase Model.Result Model.ZeroCase
  Model.Matcher Model.Merge Model.Relabel Model.Pipeline Proofs.ListFacts Proofs.ResultFacts Proofs.Matching Proofs.MatcherQ
  Proofs.C04Proofs Proofs.C01Proofs Proofs.PipelineFacts.
From Coq Require Import Permutation Lia.
Open Scope Z_scope.

Lemma card_image (f : Z -> Z) A B : NoDup A -> NoDup B ->
  (forall x y, In x A -> In y A -> f x = f y -> x = y) ->
  (forall b, In b B <-> exists x, In x A /\ f x = b) -> length B = length A.
Proof.
  intros HA HB Hinj Himg.
  assert (HN : NoDup (map f A)).
  { clear Himg HB. induction A as [|x A IH]; cbn; [constructor|]. inversion HA as [|? ? Hx HA']; subst. constructor.
    - intro H. apply in_map_iff in H as (y & E & Hy). assert (y = x) by (apply Hinj; [right; exact Hy|left; reflexivity|exact E]). subst. contradiction.
    - apply IH; [exact HA'|]. intros a b Ha Hb. apply Hinj; right; assumption. }
  rewrite <- (map_length f A). apply Permutation_length. apply NoDup_Permutation; [exact HB|exact HN|].
  intros b. rewrite Himg, in_map_iff. split; intros (x & H1 & H2); exists x; tauto.
Qed.

Definition one_to_one (M : lmap) : Prop := forall p q r, In (p, r) M -> In (q, r) M -> p = q.

Lemma n_pred_relabel_one_to_one M a : nonneg_arr a -> wf_matching M a -> one_to_one M ->
  n_pred_inst (map_instance_labels M a) = n_pred_inst a.
Proof.
  intros Hnn Hwf H11. unfold n_pred_inst. f_equal.
  set (lm := full_map M (pred_labels_of a) (maxZ (ref_labels_of a))).
  apply (card_image (new_label lm)).
  - apply uniqueZ_NoDup.
  - apply uniqueZ_NoDup.
  - intros p q Hp Hq E. apply pred_labels_spec in Hp as [Np (v & Hv & Ev)]. apply pred_labels_spec in Hq as [Nq (w & Hw & Ew)]. subst p q.
    apply (relabel_partition M a Hnn Hwf v w Hv Hw Np Nq) in E. destruct E as [E|(r & H1 & H2)]; [exact E|]. exact (H11 _ _ r H1 H2).
  - intros b. rewrite pred_labels_spec. unfold map_instance_labels, relabel. fold lm. split.
    + intros [Nb (w & Hw & Ew)]. apply in_map_iff in Hw as (v & <- & Hv). cbn [snd] in Ew. exists (snd v). split; [|exact Ew].
      apply pred_labels_spec. split; [|eauto]. intro E0. apply Nb. rewrite <- Ew. apply (relabel_foreground M a Hnn Hwf v Hv). exact E0.
    + intros (p & Hp & E). apply pred_labels_spec in Hp as [Np (v & Hv & Ev)]. subst p. split.
      * rewrite <- E. intro E0. apply Np. apply (relabel_foreground M a Hnn Hwf v Hv). exact E0.
      * exists (fst v, new_label lm (snd v)). split; [apply in_map_iff; exists v; split; [reflexivity|exact Hv]|exact E].
Qed.

(* a one-to-one threshold matching (P1 without many-to-one) is one-to-one as a label map *)
Lemma P1_one_to_one (M : list qcand) : P1 Q false M -> one_to_one (lmap_of M).
Proof.
  intros H1 p q r Hp Hq. unfold lmap_of in Hp, Hq. apply in_map_iff in Hp as (c & Ec & Hc). apply in_map_iff in Hq as (d & Ed & Hd).
  injection Ec as Ecp Ecr. injection Ed as Edp Edr.
  assert (E : c = d).
  { apply (H1 c d Hc Hd). unfold conf, conflictb, competingb. apply orb_true_iff. left. apply Z.eqb_eq. congruence. }
  subst d. congruence.
Qed.

Theorem pipeline_counts_of_input x c a r : nonneg_arr a -> pipeline x c a = Ok r ->
  o_nr r = n_ref_inst a /\ o_tp r + o_fn r = n_ref_inst a /\
  ((c_matcher c = 0 \/ c_matcher c = 1) -> o_np r = n_pred_inst a /\ o_tp r + o_fp r = n_pred_inst a).
Proof.
  intros Hnn Hp. unfold pipeline in Hp. destruct (c_matcher c =? 0) eqn:E0.
  - destruct (eval_phase_bookkeeping x c a r Hp) as (H1 & H2 & _ & H4 & H5 & _). repeat split; auto.
  - destruct (zero_case (n_pred_inst a) (n_ref_inst a)) as [[nr np]|] eqn:Ez.
    + assert (E : nr = n_ref_inst a /\ np = n_pred_inst a).
      { unfold zero_case in Ez. destruct ((n_pred_inst a =? 0) || (n_ref_inst a =? 0)); [injection Ez as <- <-; split; reflexivity|discriminate]. }
      destruct E as [-> ->]. destruct (panoptica_result_fields _ _ Hp) as (F1 & F2 & F3 & F4 & F5 & _). cbn [r_np r_nr r_tp] in *.
      repeat split; try lia.
    + destruct (match_phase x c a) as [a'|] eqn:Em; [|discriminate].
      destruct (eval_phase_bookkeeping x c a' r Hp) as (H1 & H2 & _ & H4 & H5 & _).
      (* the matching phase hands on arrays relabelled by some label map: the reference labels are those of the input *)
      assert (Hr : n_ref_inst a' = n_ref_inst a).
      { unfold match_phase in Em. destruct (c_matcher c =? 3).
        - injection Em as <-. unfold n_ref_inst. now rewrite ref_labels_relabel.
        - destruct (naive_match _ _ _ _) as [M|]; [|discriminate]. injection Em as <-. unfold n_ref_inst. now rewrite ref_labels_relabel. }
      split; [lia|]. split; [lia|]. intros [Hk|Hk]; [rewrite Hk in E0; discriminate|].
      destruct (match_phase_naive x c a (or_introl Hk)) as (M & _ & Hmp & P1' & _ & _ & _ & Hwf).
      rewrite Hmp in Em. injection Em as <-.
      assert (E2 : (c_matcher c =? 2) = false) by (rewrite Hk; reflexivity). rewrite E2 in P1'.
      rewrite (n_pred_relabel_one_to_one (lmap_of M) a Hnn Hwf (P1_one_to_one M P1')) in H1, H4. split; lia.
Qed.
