(* T1 tie: the lock/file instruction structure translated from panoptica_aggregator.py on this run
   equals the instruction lists the model's program counters are derived from. *)
From Pan Require Import Base.Common Model.Aggregator Gen.AggOps.

Lemma geneq_prog_ctor : gen_prog_ctor = prog_ctor.
Proof. vm_compute. reflexivity. Qed.
Lemma geneq_prog_evaluate : gen_prog_evaluate = prog_evaluate.
Proof. vm_compute. reflexivity. Qed.
Lemma geneq_prog_stat : gen_prog_stat = prog_stat.
Proof. vm_compute. reflexivity. Qed.
Lemma geneq_prog_atexit : gen_prog_atexit = prog_atexit.
Proof. vm_compute. reflexivity. Qed.
Lemma geneq_buf_prefix : gen_buf_prefix = buf_prefix.
Proof. vm_compute. reflexivity. Qed.
Lemma geneq_operands_consistent : gen_operands_consistent = true.
Proof. vm_compute. reflexivity. Qed.
