(* Aggregator protocol: list facts, reflection of the boolean helpers, and the "claims / rows"
   part of the invariant stated over an abstraction of the call list. *)
From Coq Require Import Permutation.
From Pan Require Import Base.Common Model.Aggregator.

Lemma name_eqb_eq a b : name_eqb a b = true <-> a = b.
Proof.
  revert b. induction a as [|x a IH]; intros [|y b]; simpl; split; intros H; try discriminate; auto.
  - apply andb_true_iff in H as [H1 H2]. apply Z.eqb_eq in H1. apply IH in H2. now subst.
  - inversion H; subst. rewrite Z.eqb_refl. simpl. now apply IH.
Qed.
Lemma memn_spec x l : memn x l = true <-> In x l.
Proof.
  unfold memn. rewrite existsb_exists. split.
  - intros [y [Hy E]]. apply name_eqb_eq in E. now subst.
  - intros H. exists x. split; auto. now apply name_eqb_eq.
Qed.
Lemma memn_false x l : memn x l = false <-> ~ In x l.
Proof. rewrite <- memn_spec. destruct (memn x l); split; intros; try discriminate; auto. now exfalso. Qed.
Lemma nodupb_spec l : nodupb l = true <-> NoDup l.
Proof.
  induction l as [|x l IH]; simpl.
  - split; auto. constructor.
  - rewrite andb_true_iff, negb_true_iff, memn_false, IH. split.
    + intros [A B]. now constructor.
    + intros H. inversion H; auto.
Qed.
Lemma subsetn_spec a b : subsetn a b = true <-> incl a b.
Proof.
  induction a as [|x a IH]; simpl.
  - split; auto. intros _ y [].
  - rewrite andb_true_iff, memn_spec, IH. split.
    + intros [A B] y [<-|Hy]; auto.
    + intros H. split; [apply H; now left|intros y Hy; apply H; now right].
Qed.
Lemma line_eqb_eq a b : line_eqb a b = true <-> a = b.
Proof.
  destruct a, b; simpl; try (split; intros; discriminate).
  - rewrite Z.eqb_eq. split; [now intros ->|now inversion 1].
  - rewrite andb_true_iff, name_eqb_eq, Z.eqb_eq. split; [now intros [-> ->]|now inversion 1].
Qed.
Lemma prefixb_spec a b : prefixb a b = true <-> exists r, b = a ++ r.
Proof.
  revert b. induction a as [|x a IH]; intros b; simpl.
  - split; eauto.
  - destruct b as [|y b].
    + split; [discriminate|intros [r H]; discriminate].
    + rewrite andb_true_iff, line_eqb_eq, IH. split.
      * intros [-> [r ->]]. now exists r.
      * intros [r H]. inversion H; subst. split; eauto.
Qed.
Lemma row_eqb_eq r s : row_eqb r s = true <-> r = s.
Proof.
  destruct r, s. unfold row_eqb. simpl. rewrite andb_true_iff, name_eqb_eq, Z.eqb_eq.
  split; [now intros [-> ->]|now inversion 1].
Qed.

(* ------------------------------------------------------------------ lists *)
Lemma in_mid {A} (x t : A) l1 l2 : In x (l1 ++ t :: l2) <-> x = t \/ In x (l1 ++ l2).
Proof. rewrite !in_app_iff. simpl. intuition. Qed.
Lemma ex_mid {A} (P : A -> Prop) l1 t l2 :
  (exists u, In u (l1 ++ t :: l2) /\ P u) <-> P t \/ exists u, In u (l1 ++ l2) /\ P u.
Proof.
  split.
  - intros [u [Hu HP]]. apply in_mid in Hu as [->|Hu]; [now left|right; eauto].
  - intros [HP|[u [Hu HP]]]; [exists t|exists u]; split; auto; apply in_mid; auto.
Qed.
Lemma filter_mid {A} (f : A -> bool) l1 t l2 :
  filter f (l1 ++ t :: l2) = filter f l1 ++ (if f t then [t] else []) ++ filter f l2.
Proof. rewrite filter_app. simpl. destruct (f t); reflexivity. Qed.
Lemma NoDup_mid_add {A} (x : A) a b : NoDup (a ++ b) -> ~ In x (a ++ b) -> NoDup (a ++ x :: b).
Proof.
  intros H Hn. apply (Permutation_NoDup (l := x :: a ++ b)).
  - apply Permutation_middle.
  - constructor; auto.
Qed.
Lemma NoDup_snoc {A} (x : A) l : NoDup l -> ~ In x l -> NoDup (l ++ [x]).
Proof.
  intros H Hn. apply (Permutation_NoDup (l := x :: l)); [apply Permutation_cons_append|now constructor].
Qed.
Lemma names_app a b : names (a ++ b) = names a ++ names b.
Proof. apply map_app. Qed.
Lemma in_names x rs : In x (names rs) <-> exists r, In r rs /\ fst r = x.
Proof. unfold names. rewrite in_map_iff. split; intros [r [A B]]; eauto. Qed.

(* ------------------------------------------------------------------ abstraction of a call *)
Definition ab := (row * (bool * bool))%type.
Definition a_row (a : ab) : row := fst a.
Definition a_name (a : ab) : name := fst (fst a).
Definition a_owns (a : ab) : bool := fst (snd a).
Definition a_wrote (a : ab) : bool := snd (snd a).
Definition mkab (r : row) (o w : bool) : ab := (r, (o, w)).
Definition absB (t : call) : ab := mkab (crow t) (owns t) (wrote t).

Definition owners (A : list ab) : list name := map a_name (filter a_owns A).

Record PB (b : list name) (rows R0 : list row) (A : list ab) : Prop := {
  pb_claims_nd : NoDup b;
  pb_rows_nd : NoDup (names rows);
  pb_owners_nd : NoDup (owners A);
  pb_claims : forall x, In x b <-> In x (names rows) \/ exists a, In a A /\ (a_owns a = true /\ a_name a = x);
  pb_rows : forall r, In r rows <-> In r R0 \/ exists a, In a A /\ (a_wrote a = true /\ a_row a = r);
  pb_unwritten : forall a, In a A -> a_owns a = true -> ~ In (a_name a) (names rows);
  pb_ext : exists new, rows = R0 ++ new;
}.

Lemma owners_mid A1 a A2 : owners (A1 ++ a :: A2) = owners A1 ++ (if a_owns a then [a_name a] else []) ++ owners A2.
Proof. unfold owners. rewrite filter_mid, !map_app. destruct (a_owns a); reflexivity. Qed.
Lemma in_owners x A : In x (owners A) <-> exists a, In a A /\ (a_owns a = true /\ a_name a = x).
Proof.
  unfold owners. rewrite in_map_iff. split.
  - intros [a [E Ha]]. apply filter_In in Ha as [Ha Hf]. eauto.
  - intros [a [Ha [Hf E]]]. exists a. split; auto. apply filter_In. auto.
Qed.

(* a call that neither owns nor wrote claims its name (check passed: name not yet claimed) *)
Lemma PB_claim b rows R0 A1 A2 r :
  PB b rows R0 (A1 ++ mkab r false false :: A2) -> ~ In (fst r) b ->
  PB (b ++ [fst r]) rows R0 (A1 ++ mkab r true false :: A2).
Proof.
  intros [Hb Hr Ho Hc Hw Hu He] Hn.
  assert (Hno : ~ In (fst r) (owners (A1 ++ A2))).
  { intros Hin. apply Hn. apply Hc. right. apply in_owners in Hin as [a [Ha HP]].
    exists a. split; auto. apply in_mid. now right. }
  rewrite owners_mid in Ho. cbn [a_owns mkab snd fst app] in Ho.
  constructor.
  - now apply NoDup_snoc.
  - exact Hr.
  - rewrite owners_mid. cbn [a_owns a_name mkab snd fst app].
    unfold owners in *. rewrite filter_app, map_app in Hno. now apply NoDup_mid_add.
  - intros x. rewrite in_app_iff, Hc. rewrite !(ex_mid (fun a => a_owns a = true /\ a_name a = x)).
    cbn [a_owns a_name mkab snd fst In]. intuition; try discriminate; subst; auto.
  - intros x. rewrite Hw. rewrite !(ex_mid (fun a => a_wrote a = true /\ a_row a = x)).
    cbn [a_wrote a_row mkab snd fst]. intuition; try discriminate.
  - intros a Ha Hoa. apply in_mid in Ha as [->|Ha].
    + cbn [a_name mkab fst]. intros Hin. apply Hn. apply Hc. now left.
    + apply Hu; auto. apply in_mid. now right.
  - exact He.
Qed.

(* the owner of a claimed name appends its row *)
Lemma PB_write b rows R0 A1 A2 r :
  PB b rows R0 (A1 ++ mkab r true false :: A2) ->
  PB b (rows ++ [r]) R0 (A1 ++ mkab r false true :: A2).
Proof.
  intros [Hb Hr Ho Hc Hw Hu He].
  assert (Hnr : ~ In (fst r) (names rows)).
  { apply (Hu (mkab r true false)); [apply in_mid; now left|reflexivity]. }
  rewrite owners_mid in Ho. cbn [a_owns a_name mkab snd fst app] in Ho.
  assert (Hno : ~ In (fst r) (owners A1 ++ owners A2)) by (now apply NoDup_remove_2 in Ho).
  constructor.
  - exact Hb.
  - rewrite names_app. cbn. now apply NoDup_snoc.
  - rewrite owners_mid. cbn [a_owns mkab snd fst app]. now apply NoDup_remove_1 in Ho.
  - intros x. rewrite Hc, names_app, in_app_iff.
    rewrite !(ex_mid (fun a => a_owns a = true /\ a_name a = x)).
    cbn [a_owns a_name mkab snd fst In names map]. intuition; try discriminate; subst; auto.
  - intros x. rewrite in_app_iff, Hw. rewrite !(ex_mid (fun a => a_wrote a = true /\ a_row a = x)).
    cbn [a_wrote a_row mkab snd fst In]. intuition; try discriminate; subst; auto.
  - intros a Ha Hoa. apply in_mid in Ha as [->|Ha]; [discriminate|].
    rewrite names_app, in_app_iff. cbn [names map In]. intros [Hin|[E|[]]].
    + revert Hin. apply Hu; auto. apply in_mid. now right.
    + apply Hno. rewrite E.
      change (In (a_name a) (owners A1 ++ owners A2)).
      unfold owners. rewrite <- map_app, <- filter_app. apply in_owners. eauto.
  - destruct He as [new ->]. exists (new ++ [r]). now rewrite app_assoc.
Qed.

(* any change of a call that keeps its abstraction keeps PB *)
Lemma PB_frame b rows R0 (cs cs' : list call) :
  map absB cs' = map absB cs -> PB b rows R0 (map absB cs) -> PB b rows R0 (map absB cs').
Proof. now intros ->. Qed.
