(* T1 tie for C19: the tables re-extracted from the Python sources on this run are the model's tables,
   and they satisfy the side condition of the round-trip theorems.  Both by computation. *)
From Pan Require Import Base.Common Model.Config Gen.ConfigTables.

Lemma gen_tables_ok : tables_ok gen_tables = true.
Proof. vm_compute. reflexivity. Qed.

Lemma gen_tables_eq : gen_tables = model_tables.
Proof. vm_compute. reflexivity. Qed.
