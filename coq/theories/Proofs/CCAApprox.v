(* Facts about the wrapper: default backend, dtype selection, negative-label rejection,
   and approximate_instances as a whole. *)
From Pan Require Import Base.Common Model.CCA Proofs.CCASpec Proofs.CCAFacts Proofs.CCASound.
Open Scope Z_scope.

Lemma default_backend_rule nd :
  (3 <= nd -> default_backend nd = Cc3d) /\ (nd < 3 -> default_backend nd = Scipy).
Proof. unfold default_backend. destruct (Z.leb_spec 3 nd); split; intros; auto; lia. Qed.

(* the selected unsigned width holds the value ... *)
Lemma smallest_fitting_uint_fits v : 0 <= v < 2 ^ 64 -> v < 2 ^ smallest_fitting_uint v.
Proof.
  unfold smallest_fitting_uint. intros H.
  destruct (Z.ltb_spec v 256); [change (2 ^ 8) with 256; lia|].
  destruct (Z.ltb_spec v 65536); [change (2 ^ 16) with 65536; lia|].
  destruct (Z.ltb_spec v 4294967295); [change (2 ^ 32) with 4294967296; lia|lia].
Qed.
(* ... and is the smallest such width among 8/16/32/64, except for the single value 2^32 - 1 *)
Lemma smallest_fitting_uint_minimal v w :
  0 <= v -> v <> 4294967295 -> In w [8; 16; 32; 64] -> v < 2 ^ w -> smallest_fitting_uint v <= w.
Proof.
  unfold smallest_fitting_uint. intros H0 Hne Hw Hlt.
  destruct Hw as [<-|[<-|[<-|[<-|[]]]]];
    [change (2 ^ 8) with 256 in Hlt|change (2 ^ 16) with 65536 in Hlt
    |change (2 ^ 32) with 4294967296 in Hlt|clear Hlt];
    destruct (Z.ltb_spec v 256); try lia; destruct (Z.ltb_spec v 65536); try lia;
    destruct (Z.ltb_spec v 4294967295); lia.
Qed.

Lemma has_negative_spec m : has_negative m = true <-> exists p, In p m /\ snd p < 0.
Proof.
  unfold has_negative. rewrite existsb_exists. split; intros (p&H&E); exists p; split; auto.
  - unfold negative_ok in E. rewrite negb_true_iff, Z.leb_gt in E. assumption.
  - unfold negative_ok. rewrite negb_true_iff, Z.leb_gt. assumption.
Qed.

Theorem approx_negative_rejected bk nd pred ref :
  (exists p, (In p pred \/ In p ref) /\ snd p < 0) -> approx_instances bk nd pred ref = Err E_ASSERT.
Proof.
  intros (p&[H|H]&Hn); unfold approx_instances.
  - replace (has_negative pred) with true; [reflexivity|]. symmetry. apply has_negative_spec. eauto.
  - replace (has_negative ref) with true; [rewrite orb_true_r; reflexivity|].
    symmetry. apply has_negative_spec. eauto.
Qed.

Theorem approx_ok bk nd pred ref :
  wf pred -> wf ref ->
  (forall p, In p pred \/ In p ref -> 0 < snd p) ->
  exists lp np lr nr,
    approx_instances bk nd pred ref = Ok ((lp, np), (lr, nr), smallest_fitting_uint (Z.max np nr))
    /\ is_cca (pick_backend bk nd) pred lp np /\ is_cca (pick_backend bk nd) ref lr nr.
Proof.
  intros Wp Wr Hpos. unfold approx_instances.
  assert (Np : has_negative pred = false).
  { destruct (has_negative pred) eqn:E; auto. apply has_negative_spec in E. destruct E as (p&H&Hn).
    specialize (Hpos p (or_introl H)). lia. }
  assert (Nr : has_negative ref = false).
  { destruct (has_negative ref) eqn:E; auto. apply has_negative_spec in E. destruct E as (p&H&Hn).
    specialize (Hpos p (or_intror H)). lia. }
  rewrite Np, Nr. cbn [orb].
  pose proof (cca_sound (pick_backend bk nd) pred Wp) as Sp.
  pose proof (cca_sound (pick_backend bk nd) ref Wr) as Sr.
  destruct (cca (pick_backend bk nd) pred) as [lp np], (cca (pick_backend bk nd) ref) as [lr nr].
  exists lp, np, lr, nr. cbn [fst snd] in *. auto.
Qed.
