(* The matcher at IEEE doubles (exact rationals) with a direction flag; candidates from voxels. *)
From Pan Require Import Base.Common Model.MetricTable Model.Metrics Model.Matcher Proofs.Matching Proofs.MetricsFacts.
From Coq Require Import Sorted Permutation.
Open Scope Z_scope.

Lemma better_eq_refl decr a : better_eq decr a a = true.
Proof. unfold better_eq. destruct decr; apply Qle_bool_iff; apply Qle_refl. Qed.
Lemma better_eq_trans decr a b c : better_eq decr a b = true -> better_eq decr b c = true -> better_eq decr a c = true.
Proof. unfold better_eq. destruct decr; rewrite !Qle_bool_iff; intros H1 H2; eapply Qle_trans; eassumption. Qed.
Lemma better_eq_total decr a b : better_eq decr a b = true \/ better_eq decr b a = true.
Proof.
  unfold better_eq. destruct decr; rewrite !Qle_bool_iff; destruct (Qlt_le_dec a b) as [H|H]; auto using Qlt_le_weak.
Qed.

(* scores exactly at the threshold match *)
Lemma beats_at_threshold decr t : beats decr t t = true.
Proof. unfold beats. destruct decr; apply Qle_bool_iff; apply Qle_refl. Qed.

(* beats is upward closed in the metric's direction; a stricter threshold beats less *)
Lemma beats_up decr thr a b : better_eq decr a b = true -> beats decr b thr = true -> beats decr a thr = true.
Proof. unfold better_eq, beats. destruct decr; rewrite !Qle_bool_iff; intros H1 H2; eapply Qle_trans; eassumption. Qed.
Definition stricter_thr (decr : bool) (t' t : Q) : Prop := beats decr t' t = true.   (* t' at least as demanding as t *)
Lemma beats_stricter decr t' t s : stricter_thr decr t' t -> beats decr s t' = true -> beats decr s t = true.
Proof. unfold stricter_thr, beats. destruct decr; rewrite !Qle_bool_iff; intros H1 H2; eapply Qle_trans; eassumption. Qed.

(* structural equality on Q reflects Leibniz equality *)
Lemma Qeq_struct_spec a b : Qeq_struct a b = true <-> a = b.
Proof.
  unfold Qeq_struct. rewrite andb_true_iff, Z.eqb_eq, Pos.eqb_eq. destruct a, b; cbn.
  split; [intros [-> ->]; reflexivity|intros [= -> ->]; auto].
Qed.
Lemma qcand_eq_dec (c d : qcand) : {c = d} + {c <> d}.
Proof.
  destruct (cand_eqb Qeq_struct c d) eqn:E.
  - left. now apply (cand_eqb_spec Q Qeq_struct Qeq_struct_spec).
  - right. intros H. apply (cand_eqb_spec Q Qeq_struct Qeq_struct_spec) in H. congruence.
Qed.

(* ---- the whole matcher: sort, then the loop; never raises and satisfies the specification ---- *)
Theorem naive_match_spec decr m2o thr (cs : list qcand) : NoDup cs ->
  exists M, naive_match decr m2o thr cs = Ok M /\
    P1 Q m2o M /\ P2 Q (fun s => beats decr s thr) cs M /\
    P3 Q (fun s => beats decr s thr) m2o cs M /\ P4 Q (better_eq decr) (fun s => beats decr s thr) m2o cs M.
Proof.
  intros Hnd. unfold naive_match. rewrite greedy_total. eexists. split; [reflexivity|].
  set (S := sort_cands (better_eq decr) cs).
  assert (Hp : Permutation cs S) by apply sort_perm.
  assert (HS : sortedD Q (better_eq decr) S).
  { apply sort_sorted; [apply better_eq_trans|apply better_eq_total]. }
  destruct (greedy_valid Q (better_eq decr) (fun s => beats decr s thr) m2o S HS (Permutation_NoDup Hp Hnd)) as (H1 & H2 & H4).
  assert (H2' : P2 Q (fun s => beats decr s thr) cs (greedy (fun s => beats decr s thr) m2o S)).
  { intros c Hc. destruct (H2 c Hc) as [Hin Hb]. split; [|exact Hb]. exact (Permutation_in _ (Permutation_sym Hp) Hin). }
  assert (H4' : P4 Q (better_eq decr) (fun s => beats decr s thr) m2o cs (greedy (fun s => beats decr s thr) m2o S)).
  { intros c Hc Hb Hn. apply H4; [exact (Permutation_in _ Hp Hc)|exact Hb|exact Hn]. }
  repeat split; [exact H1|apply H2'; assumption|apply H2'; assumption| |exact H4'].
  apply (P4_P3 Q (better_eq decr) (fun s => beats decr s thr) m2o cs _ H4' qcand_eq_dec).
Qed.

(* a stricter threshold can only remove matches *)
Theorem naive_match_mono decr m2o t' t (cs : list qcand) M M' :
  stricter_thr decr t' t -> naive_match decr m2o t cs = Ok M -> naive_match decr m2o t' cs = Ok M' ->
  forall c, In c M' -> In c M.
Proof.
  intros Hst. unfold naive_match. rewrite !greedy_total. intros [= <-] [= <-].
  apply (greedy_threshold_mono Q (better_eq decr) (fun s => beats decr s t) m2o (fun s => beats decr s t')).
  - intros s. apply beats_stricter. exact Hst.
  - intros a b. apply beats_up.
  - apply sort_sorted; [apply better_eq_trans|apply better_eq_total].
Qed.

(* the matching is determined by the specification when competing candidates have distinct scores *)
Theorem naive_match_unique decr m2o thr (cs M M' : list qcand) :
  competing_distinct Q (better_eq decr) (fun s => beats decr s thr) m2o cs ->
  valid Q (better_eq decr) (fun s => beats decr s thr) m2o cs M ->
  valid Q (better_eq decr) (fun s => beats decr s thr) m2o cs M' ->
  forall c, In c M <-> In c M'.
Proof.
  apply valid_unique; [apply better_eq_refl|apply better_eq_trans|apply better_eq_total|apply qcand_eq_dec].
Qed.

(* ---- candidates are exactly the overlapping label pairs ---- *)
Lemma pair_eqb_spec a b : pair_eqb a b = true <-> a = b.
Proof. unfold pair_eqb. rewrite andb_true_iff, !Z.eqb_eq. destruct a, b; cbn. split; [intros [-> ->]; reflexivity|intros [= -> ->]; auto]. Qed.

Lemma ins_pair_In x y l : In y (ins_pair x l) <-> y = x \/ In y l.
Proof.
  induction l as [|z l IH]; cbn [ins_pair]; [cbn; intuition congruence|].
  destruct (pair_eqb x z) eqn:E.
  - apply pair_eqb_spec in E. subst. cbn. intuition congruence.
  - destruct (pair_ltb x z); cbn [In]; [intuition congruence|]. rewrite IH. intuition congruence.
Qed.

(* NoDup and sortedness together, for lists built by the fold *)
Definition pair_lt (a b : Z * Z) : Prop := pair_ltb a b = true.
Lemma pair_lt_trans a b c : pair_lt a b -> pair_lt b c -> pair_lt a c.
Proof.
  unfold pair_lt, pair_ltb. rewrite !orb_true_iff, !andb_true_iff, !Z.ltb_lt, !Z.eqb_eq. intros H1 H2.
  destruct H1 as [H1|[H1 H1']], H2 as [H2|[H2 H2']]; [left; lia|left; lia|left; lia|right; split; lia].
Qed.
Lemma pair_lt_irrefl a : ~ pair_lt a a.
Proof. unfold pair_lt, pair_ltb. rewrite orb_true_iff, andb_true_iff, !Z.ltb_lt. lia. Qed.
Lemma pair_trichotomy a b : pair_eqb a b = false -> pair_ltb a b = false -> pair_lt b a.
Proof.
  unfold pair_lt, pair_eqb, pair_ltb. rewrite !andb_false_iff, !orb_false_iff, !andb_false_iff, orb_true_iff, andb_true_iff,
    !Z.ltb_lt, !Z.ltb_ge, !Z.eqb_neq, Z.eqb_eq. intros H1 [H2 H3]. destruct (Z.eq_dec (snd a) (snd b)) as [E|E].
  - right. split; [lia|]. destruct H1 as [H1|H1]; [|lia]. destruct H3 as [H3|H3]; [lia|lia].
  - left. lia.
Qed.

Definition psorted := StronglySorted pair_lt.
Lemma ins_pair_sorted x l : psorted l -> psorted (ins_pair x l).
Proof.
  induction l as [|z l IH]; intros Hs; cbn [ins_pair]; [repeat constructor|].
  destruct (pair_eqb x z) eqn:E; [exact Hs|]. inversion Hs as [|? ? Hs' Hall]; subst.
  destruct (pair_ltb x z) eqn:L.
  - constructor; [exact Hs|]. constructor; [exact L|]. rewrite Forall_forall in *. intros y Hy.
    eapply pair_lt_trans; [exact L|now apply Hall].
  - constructor; [now apply IH|]. rewrite Forall_forall in *. intros y Hy. apply ins_pair_In in Hy as [->|Hy].
    + now apply pair_trichotomy.
    + now apply Hall.
Qed.
Lemma psorted_NoDup l : psorted l -> NoDup l.
Proof.
  induction l as [|z l IH]; intros Hs; [constructor|]. inversion Hs as [|? ? Hs' Hall]; subst.
  constructor; [|now apply IH]. intros Hin. rewrite Forall_forall in Hall. exact (pair_lt_irrefl z (Hall z Hin)).
Qed.

Lemma overlap_pairs_sorted a : psorted (overlap_pairs a).
Proof.
  unfold overlap_pairs. induction (filter (fun v => nz (fst v) && nz (snd v)) a) as [|x l IH]; cbn [fold_right];
    [constructor|now apply ins_pair_sorted].
Qed.
Lemma overlap_pairs_NoDup a : NoDup (overlap_pairs a).
Proof. apply psorted_NoDup, overlap_pairs_sorted. Qed.

(* a pair is a candidate iff some voxel carries both labels (both non-zero): the instances overlap *)
Lemma overlap_pairs_spec a rp :
  In rp (overlap_pairs a) <-> (In rp a /\ fst rp <> 0 /\ snd rp <> 0).
Proof.
  unfold overlap_pairs. transitivity (In rp (filter (fun v => nz (fst v) && nz (snd v)) a)).
  - induction (filter (fun v => nz (fst v) && nz (snd v)) a) as [|x l IH]; cbn [fold_right]; [reflexivity|].
    rewrite ins_pair_In, IH. cbn. intuition congruence.
  - rewrite filter_In, andb_true_iff. unfold nz. rewrite !negb_true_iff, !Z.eqb_neq. reflexivity.
Qed.

Lemma candidates_NoDup m a : NoDup (candidates m a).
Proof.
  unfold candidates. apply FinFun.Injective_map_NoDup; [|apply overlap_pairs_NoDup].
  intros x y [= _ H]. exact H.
Qed.
Lemma candidates_overlap m a c : In c (candidates m a) ->
  In (snd c) a /\ cref c <> 0 /\ cpred c <> 0 /\ fst c = score_overlap m a (snd c).
Proof.
  unfold candidates. rewrite in_map_iff. intros (rp & <- & Hin). apply overlap_pairs_spec in Hin.
  unfold cref, cpred. cbn. tauto.
Qed.
