(* Aggregator: the session invariant (constructor + call phase), preserved by every step of the
   component under any lock state of its siblings, by crash and by normal exit. *)
From Coq Require Import Permutation.
From Pan Require Import Base.Common Model.Aggregator Proofs.AggBase Proofs.AggInv.

Definition hout (h : Z) (R : list row) (o : file line) : Prop := o = Some (LH h :: map lrow R).
Definition wf_out (o : file line) : Prop :=
  o = None \/ o = Some [] \/ exists h R, NoDup (names R) /\ o = Some (LH h :: map lrow R).

Definition SInv (R0 : list row) (s : ast) : Prop :=
  NoDup (names R0) /\
  match ctor s with
  | C0 | CFail => wf_out (out s) /\ rows_of (out s) = R0 /\ all_idle (calls s)
  | CWriteH => out s = Some [] /\ R0 = [] /\ all_idle (calls s)
  | CBuf => hout (hdr s) R0 (out s) /\ all_idle (calls s)
  | CBufCreate => hout (hdr s) R0 (out s) /\ buf s = None /\ all_idle (calls s)
  | CAcqE | CAcqF | CLoad => hout (hdr s) R0 (out s) /\ buf s = Some [] /\ all_idle (calls s)
  | CCopy ids => hout (hdr s) R0 (out s) /\ buf s = Some [] /\ ids = names R0 /\ all_idle (calls s)
  | CRelF | CRelE => hout (hdr s) R0 (out s) /\ buf s = Some (names R0) /\ all_idle (calls s)
  | CDone => exists b rows, buf s = Some b /\ hout (hdr s) rows (out s) /\ CI (hdr s) R0 b rows (calls s)
  end.

Lemma rows_of_lines_lrow R : rows_of_lines (map lrow R) = R.
Proof. induction R as [|[n p] R IH]; simpl; [reflexivity|]. now rewrite IH. Qed.
Lemma rows_of_hout h R : rows_of (Some (LH h :: map lrow R)) = R.
Proof. simpl. apply rows_of_lines_lrow. Qed.
Lemma load_ids_hout h R : load_ids true (LH h :: map lrow R) = names R.
Proof. unfold load_ids, names. simpl. rewrite map_map. reflexivity. Qed.
Lemma is_row_lrow R : forallb is_row (map lrow R) = true.
Proof. induction R; simpl; auto. Qed.

Lemma wf_outb_spec o : wf_outb o = true <-> wf_out o.
Proof.
  unfold wf_out. destruct o as [[|[h|n p] l]|]; simpl.
  - split; auto.
  - rewrite andb_true_iff, nodupb_spec. split.
    + intros [A B]. right. right. exists h, (rows_of_lines l). split; auto. f_equal. f_equal.
      clear B. induction l as [|[h'|n p] l IH]; simpl in *; try discriminate; auto. f_equal. auto.
    + intros [H|[H|[h' [R [Hnd H]]]]]; try discriminate. inversion H; subst.
      rewrite is_row_lrow, rows_of_lines_lrow. auto.
  - split; [discriminate|]. intros [H|[H|[h' [R [Hnd H]]]]]; discriminate.
  - split; auto.
Qed.

(* idle calls: nothing owned, nothing written, no lock held *)
Lemma idle_absB t : idle t = true -> absB t = mkab (crow t) false false.
Proof. unfold idle, absB, owns, wrote. destruct (cp t); try discriminate; reflexivity. Qed.
Lemma idle_cnt (f : call -> bool) cs :
  (forall t, idle t = true -> f t = false) -> all_idle cs -> cnt f cs = 0%nat.
Proof.
  intros Hf. induction cs as [|t cs IH]; intros Hi; [reflexivity|].
  unfold cnt in *. simpl. rewrite Hf by (apply Hi; now left). apply IH. intros u Hu. apply Hi. now right.
Qed.
Lemma idle_not_inE t : idle t = true -> inE t = false.
Proof. unfold idle, inE. destruct (cp t); try discriminate; reflexivity. Qed.
Lemma idle_not_inF t : idle t = true -> inF t = false.
Proof. unfold idle, inF. destruct (cp t); try discriminate; reflexivity. Qed.

Lemma CI_init h R0 cs : NoDup (names R0) -> all_idle cs -> CI h R0 (names R0) R0 cs.
Proof.
  intros Hnd Hi.
  assert (HA : forall a, In a (map absB cs) -> a_owns a = false /\ a_wrote a = false).
  { intros a Ha. apply in_map_iff in Ha as [t [<- Ht]]. rewrite idle_absB by now apply Hi. split; reflexivity. }
  assert (Hown : owners (map absB cs) = []).
  { unfold owners. replace (filter a_owns (map absB cs)) with (@nil ab); [reflexivity|].
    symmetry. induction (map absB cs) as [|a l IH]; [reflexivity|]. simpl.
    destruct (HA a) as [-> _]; [now left|]. apply IH. intros x Hx. apply HA. now right. }
  constructor.
  - constructor; auto.
    + rewrite Hown. constructor.
    + intros x. split; [now left|]. intros [H|[a [Ha [Ho _]]]]; auto.
      destruct (HA a Ha) as [E _]. congruence.
    + intros r. split; [now left|]. intros [H|[a [Ha [Hw _]]]]; auto.
      destruct (HA a Ha) as [_ E]. congruence.
    + intros a Ha Ho. destruct (HA a Ha) as [E _]. congruence.
    + exists []. now rewrite app_nil_r.
  - intros t d Ht Hp. specialize (Hi t Ht). unfold idle in Hi. rewrite Hp in Hi. discriminate.
  - intros t Ht Hp. specialize (Hi t Ht). unfold idle in Hi. rewrite Hp in Hi. discriminate.
  - intros t sn Ht [Hp|Hp]; specialize (Hi t Ht); unfold idle in Hi; rewrite Hp in Hi; discriminate.
  - rewrite (idle_cnt inE); auto. apply idle_not_inE.
  - rewrite (idle_cnt inF); auto. apply idle_not_inF.
Qed.

Theorem astep_SInv xE xF R0 s s' : astep xE xF s s' -> SInv R0 s -> SInv R0 s'.
Proof.
  intros Hs [Hnd HI]. split; [exact Hnd|]. destruct Hs as [o b h c cs o' b' c' Hc | o b h l1 t l2 b' o' t' Hl];
    cbn [ctor out buf hdr calls] in *.
  - destruct c; cbn [cstep] in Hc.
    + (* C0 *)
      destruct HI as [Hwf [HR Hi]].
      destruct o as [[|l rest]|].
      * simpl in HR. inversion Hc; subst. auto.
      * destruct Hwf as [H|[H|[h0 [R [HndR H]]]]]; try discriminate. inversion H; subst l rest. clear H.
        rewrite rows_of_hout in HR. subst R. simpl in Hc. destruct (h0 =? h) eqn:E.
        -- apply Z.eqb_eq in E. subst h0. inversion Hc; subst. split; [reflexivity|exact Hi].
        -- inversion Hc; subst. repeat split; auto.
           ++ right. right. exists h0, R0. auto.
           ++ apply rows_of_hout.
      * simpl in HR. inversion Hc; subst. auto.
    + destruct HI as [Ho [HR Hi]]. inversion Hc; subst. split; [reflexivity|exact Hi].
    + destruct HI as [Ho Hi]. destruct b; inversion Hc; subst; auto.
    + destruct HI as [Ho [Hb Hi]]. inversion Hc; subst. auto.
    + destruct HI as [Ho [Hb Hi]]. destruct (xE || existsb inE cs); inversion Hc; subst. auto.
    + destruct HI as [Ho [Hb Hi]]. destruct (xF || existsb inF cs); inversion Hc; subst. auto.
    + destruct HI as [Ho [Hb Hi]]. unfold hout in Ho. subst o. rewrite load_ids_hout in Hc.
      replace (nodupb (names R0)) with true in Hc by (symmetry; now apply nodupb_spec).
      inversion Hc; subst. repeat split; auto.
    + destruct HI as [Ho [Hb [Hids Hi]]]. inversion Hc; subst. repeat split; auto.
    + destruct HI as [Ho [Hb Hi]]. inversion Hc; subst. auto.
    + destruct HI as [Ho [Hb Hi]]. inversion Hc; subst. exists (names R0), R0.
      split; [reflexivity|split; [exact Ho|now apply CI_init]].
    + discriminate.
    + discriminate.
  - destruct HI as [bb [rows [Hb [Ho HCI]]]]. unfold hout in Ho. subst b o.
    destruct (lstep_inv _ _ _ _ _ _ _ _ _ _ _ _ HCI Hl) as [b2 [rows2 [-> [-> HCI2]]]].
    exists b2, rows2. split; [reflexivity|split; [reflexivity|exact HCI2]].
Qed.

Lemma SInv_wf_out R0 s : SInv R0 s -> wf_out (out s) /\ exists new, rows_of (out s) = R0 ++ new.
Proof.
  intros [Hnd HI].
  assert (G : forall h, hout h R0 (out s) -> wf_out (out s) /\ exists new, rows_of (out s) = R0 ++ new).
  { intros h Ho. unfold hout in Ho. rewrite Ho. split; [right; right; eauto|].
    exists []. rewrite rows_of_hout. now rewrite app_nil_r. }
  destruct (ctor s); try (destruct HI as [Ho _]; now apply (G (hdr s))).
  - destruct HI as [Hwf [HR _]]. split; auto. exists []. now rewrite app_nil_r.
  - destruct HI as [Ho [HR _]]. rewrite Ho, HR. split; [right; now left|now exists []].
  - destruct HI as [b [rows [Hb [Ho HCI]]]]. unfold hout in Ho. rewrite Ho. rewrite rows_of_hout.
    destruct HCI as [Hpb _ _ _ _ _]. split.
    + right. right. exists (hdr s), rows. split; auto. apply (pb_rows_nd _ _ _ _ Hpb).
    + apply (pb_ext _ _ _ _ Hpb).
  - destruct HI as [Hwf [HR _]]. split; auto. exists []. now rewrite app_nil_r.
Qed.

Lemma session_SInv o b h cs : wf_out o -> all_idle cs -> SInv (rows_of o) (session o b h cs).
Proof.
  intros Hwf Hi. split; [|cbn; auto].
  destruct Hwf as [->|[->|[h0 [R [Hnd ->]]]]]; try (simpl; constructor). now rewrite rows_of_hout.
Qed.

Theorem sstep_SInv R0 s s' : sstep s s' -> SInv R0 s -> SInv (rows_of (out s)) s'.
Proof.
  intros Hs HI. apply SInv_wf_out in HI as [Hwf _].
  destruct Hs; now apply session_SInv.
Qed.

(* ------------------------------------------------------------------ monotonicity in the siblings' locks *)
Lemma lstep_mono xE xF b o others t r : lstep xE xF b o others t = Some r -> lstep false false b o others t = Some r.
Proof.
  unfold lstep. destruct (cp t) as [| |[|]| | | | | |sk| | |sn|sn]; auto; simpl.
  - destruct xE; simpl; [discriminate|auto].
  - destruct xF; simpl; [discriminate|auto].
  - destruct xF; simpl; [discriminate|auto].
Qed.
Lemma cstep_mono xE xF cs h o b c r :
  cstep (xE || existsb inE cs) (xF || existsb inF cs) h o b c = Some r ->
  cstep (false || existsb inE cs) (false || existsb inF cs) h o b c = Some r.
Proof.
  destruct c; simpl; auto.
  - destruct xE; simpl; [discriminate|auto].
  - destruct xF; simpl; [discriminate|auto].
Qed.
Theorem astep_mono xE xF s s' : astep xE xF s s' -> astep false false s s'.
Proof.
  intros [o b h c cs o' b' c' Hc | o b h l1 t l2 b' o' t' Hl].
  - constructor. eapply cstep_mono; eauto.
  - constructor. eapply lstep_mono; eauto.
Qed.

(* ------------------------------------------------------------------ histories *)
Inductive hreach (s0 : ast) : ast -> Prop :=
| HR0 : hreach s0 s0
| HRS s s' : hreach s0 s -> hstep s s' -> hreach s0 s'.
Inductive areach (s0 : ast) : ast -> Prop :=
| AR0 : areach s0 s0
| ARS s s' : areach s0 s -> astep false false s s' -> areach s0 s'.

Lemma hreach_SInv o b h cs s :
  wf_out o -> all_idle cs -> hreach (session o b h cs) s -> exists R0, SInv R0 s.
Proof.
  intros Hwf Hi Hr. induction Hr as [|s s' Hr [R0 IH] [Hs|Hs]].
  - exists (rows_of o). now apply session_SInv.
  - exists R0. eapply astep_SInv; eauto.
  - exists (rows_of (out s)). eapply sstep_SInv; eauto.
Qed.
Lemma areach_SInv R0 s0 s : SInv R0 s0 -> areach s0 s -> SInv R0 s.
Proof. intros H0 Hr. induction Hr; auto. eapply astep_SInv; eauto. Qed.
