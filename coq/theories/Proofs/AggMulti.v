(* Aggregator: deadlock freedom of SEVERAL aggregators sharing the two locks (the constructor takes the
   eval-lock and then the file-lock; a call never waits for the eval-lock while holding the file-lock). *)
From Pan Require Import Base.Common Model.Aggregator Proofs.AggBase Proofs.AggInv Proofs.AggSess Proofs.AggFinal
  Proofs.AggProgress.

Lemma ctor_phase_idle R0 s : SInv R0 s -> ctor s <> CDone -> all_idle (calls s).
Proof.
  intros [_ HI] Hc. destruct (ctor s); try contradiction; tauto.
Qed.

(* whoever holds the file-lock can move, whatever the others do *)
Lemma holderF_steps R0 s xE xF : SInv R0 s -> heldF s = true -> exists s', astep xE xF s s'.
Proof.
  intros HI HF. destruct s as [o b h c cs]. unfold heldF in HF. cbn [ctor calls] in HF.
  destruct (cinF c) eqn:Ec.
  - destruct HI as [Hnd HI]. cbn [ctor out buf hdr calls] in HI.
    destruct c; try discriminate.
    + destruct HI as [Ho _]. unfold hout in Ho. subst o.
      assert (exists r, cstep (xE || existsb inE cs) (xF || existsb inF cs) h (Some (LH h :: map lrow R0)) b CLoad = Some r)
        as [[[o' b'] c'] Hr] by (cbn [cstep]; destruct (nodupb _); eauto).
      eexists. apply A_ctor. exact Hr.
    + eexists. apply A_ctor. reflexivity.
    + eexists. apply A_ctor. reflexivity.
  - simpl in HF. destruct c; try (exfalso;
      assert (Hi : all_idle cs) by (apply (ctor_phase_idle R0 (mkAst o b h _ cs) HI); cbn; discriminate);
      rewrite (all_idle_existsb inF cs idle_not_inF Hi) in HF; discriminate).
    destruct HI as [_ [bb [rows [Hb [Ho HCI]]]]]. cbn [out buf hdr calls ctor] in *. unfold hout in Ho. subst b o.
    apply existsb_exists in HF as [t [Ht HtF]]. apply in_split in Ht as [l1 [l2 ->]].
    assert (exists r, lstep xE xF (Some bb) (Some (LH h :: map lrow rows)) (l1 ++ l2) t = Some r) as [[[b' o'] t'] Hl].
    { unfold lstep, inF in *. destruct (cp t) as [| |[|]| | | | | |sk| | |sn|sn]; try discriminate; eauto. }
    eexists. apply A_call. exact Hl.
Qed.

(* with the file-lock free everywhere, whoever holds the eval-lock can move *)
Lemma holderE_steps R0 s xE : SInv R0 s -> heldE s = true -> heldF s = false -> exists s', astep xE false s s'.
Proof.
  intros HI HE HF. destruct s as [o b h c cs]. unfold heldE in HE. unfold heldF in HF. cbn [ctor calls] in HE, HF.
  apply orb_false_iff in HF as [HcF HF].
  destruct (cinE c) eqn:Ec.
  - assert (exists r, cstep (xE || existsb inE cs) (false || existsb inF cs) h o b c = Some r) as [[[o' b'] c'] Hr].
    { destruct HI as [Hnd HI]. cbn [ctor out buf hdr calls] in HI.
      destruct c; try discriminate; cbn [cstep]; rewrite ?HF; simpl; eauto;
        destruct HI as [Ho _]; unfold hout in Ho; subst o; destruct (nodupb _); eauto. }
    eexists. apply A_ctor. exact Hr.
  - simpl in HE. destruct c; try (exfalso;
      assert (Hi : all_idle cs) by (apply (ctor_phase_idle R0 (mkAst o b h _ cs) HI); cbn; discriminate);
      rewrite (all_idle_existsb inE cs idle_not_inE Hi) in HE; discriminate).
    destruct HI as [_ [bb [rows [Hb [Ho HCI]]]]]. cbn [out buf hdr calls ctor] in *. unfold hout in Ho. subst b o.
    assert (Hnd : nodupb bb = true) by (apply nodupb_spec; apply (pb_claims_nd _ _ _ _ (ci_pb _ _ _ _ _ HCI))).
    apply existsb_exists in HE as [t [Ht HtE]]. apply in_split in Ht as [l1 [l2 ->]].
    assert (exists r, lstep xE false (Some bb) (Some (LH h :: map lrow rows)) (l1 ++ l2) t = Some r) as [[[b' o'] t'] Hl].
    { unfold lstep, inE in *. rewrite Hnd. destruct (cp t) as [| |[|]| | | | | |sk| | |sn|sn]; try discriminate; eauto. }
    eexists. apply A_call. exact Hl.
Qed.

Definition mdone (s : ast) : Prop := all_done s \/ ctor s = CFail.

Lemma existsb_split {A} (f : A -> bool) l : existsb f l = true -> exists l1 x l2, l = l1 ++ x :: l2 /\ f x = true.
Proof.
  intros H. apply existsb_exists in H as [x [Hx Hf]]. apply in_split in Hx as [l1 [l2 E]]. eauto.
Qed.

Theorem mprogress ms :
  Forall (fun s => exists R0, SInv R0 s /\ nofail s) ms ->
  (exists s, In s ms /\ ~ mdone s) -> exists ms', mstep ms ms'.
Proof.
  intros Hall [s0 [Hs0 Hnd0]].
  assert (Hget : forall s, In s ms -> exists R0, SInv R0 s /\ nofail s) by (now apply Forall_forall).
  destruct (existsb heldF ms) eqn:EF.
  - apply existsb_split in EF as [m1 [s [m2 [-> Hf]]]].
    destruct (Hget s) as [R0 [HI _]]; [apply in_mid; now left|].
    destruct (holderF_steps R0 s (others_heldE m1 m2) (others_heldF m1 m2) HI Hf) as [s' Hs].
    eexists. apply M_step. exact Hs.
  - destruct (existsb heldE ms) eqn:EE.
    + apply existsb_split in EE as [m1 [s [m2 [-> He]]]].
      destruct (Hget s) as [R0 [HI _]]; [apply in_mid; now left|].
      assert (HFo : others_heldF m1 m2 = false) by (unfold others_heldF; now apply existsb_mid_false in EF).
      assert (HFs : heldF s = false).
      { rewrite existsb_app in EF. simpl in EF. apply orb_false_iff in EF as [_ EF]. now apply orb_false_iff in EF as [EF _]. }
      destruct (holderE_steps R0 s (others_heldE m1 m2) HI He HFs) as [s' Hs].
      eexists. apply M_step. rewrite HFo. exact Hs.
    + apply in_split in Hs0 as [m1 [m2 ->]].
      destruct (Hget s0) as [R0 [HI [Hnf _]]]; [apply in_mid; now left|].
      assert (HFo : others_heldF m1 m2 = false) by (unfold others_heldF; now apply existsb_mid_false in EF).
      assert (HEo : others_heldE m1 m2 = false) by (unfold others_heldE; now apply existsb_mid_false in EE).
      destruct (progress R0 s0 HI Hnf) as [s' Hs]; [intros Hd; apply Hnd0; now left|].
      eexists. apply M_step. rewrite HFo, HEo. exact Hs.
Qed.
