(* C10, whole pipeline with the threshold matcher: background voxels (padding, empty margins, embedding at an offset) do
   not influence the result.  Together with pipeline_perm (any re-ordering of the voxels) the result depends only on the
   multiset of non-background voxel label pairs. *)
From Pan Require Import Base.Common Base.Sx Base.Rnd64 Model.MetricTable Model.Metrics Model.EdgeCase Model.Result Model.ZeroCase
  Model.Matcher Model.Merge Model.Relabel Model.Pipeline Proofs.ListFacts Proofs.RelabelFacts Proofs.MetricsFacts Proofs.Matching
  Proofs.MatcherQ Proofs.C04Proofs Proofs.C01Proofs Proofs.Invariance Proofs.PipelineInvariance.
From Coq Require Import Permutation ZifyBool.
Open Scope Z_scope.

Lemma filter_map_comm' {A B} (g : A -> B) (p : B -> bool) l : filter p (map g l) = map g (filter (fun x => p (g x)) l).
Proof. induction l as [|x l IH]; cbn; [reflexivity|]. destruct (p (g x)); cbn; now rewrite IH. Qed.

Lemma relabel_strip M a : nonneg_arr a -> wf_matching M a ->
  map_instance_labels M (strip a) = strip (map_instance_labels M a).
Proof.
  intros Hnn Hwf. unfold map_instance_labels. destruct (strip_labels a) as [-> ->].
  set (lm := full_map M (pred_labels_of a) (maxZ (ref_labels_of a))).
  unfold relabel, strip. rewrite filter_map_comm'. f_equal. apply filter_ext_in. intros v Hv.
  unfold is_bg. cbn [fst snd]. f_equal. f_equal.
  pose proof (relabel_foreground M a Hnn Hwf v Hv) as H. fold lm in H.
  destruct (new_label lm (snd v) =? 0) eqn:E1, (snd v =? 0) eqn:E2; try reflexivity; exfalso.
  - apply Z.eqb_eq in E1. apply Z.eqb_neq in E2. tauto.
  - apply Z.eqb_neq in E1. apply Z.eqb_eq in E2. tauto.
Qed.

Theorem pipeline_strip_naive x c a : nonneg_arr a -> (c_matcher c = 0 \/ c_matcher c = 1 \/ c_matcher c = 2) ->
  pipeline x c (strip a) = pipeline x c a.
Proof.
  intros Hnn [Hk|Hk].
  - unfold pipeline. rewrite Hk. cbn. apply eval_phase_strip.
  - unfold pipeline. assert (E0 : (c_matcher c =? 0) = false) by (destruct Hk as [-> | ->]; reflexivity). rewrite E0.
    destruct (strip_labels a) as [Ep Er]. unfold n_pred_inst, n_ref_inst. rewrite Ep, Er.
    destruct (zero_case _ _); [reflexivity|].
    destruct (match_phase_naive x c a Hk) as (M & HM & Hmp & _ & _ & _ & _ & Hwf).
    rewrite Hmp.
    assert (Hmp' : match_phase x c (strip a) = Ok (map_instance_labels (lmap_of M) (strip a))).
    { unfold match_phase. rewrite cand_list_strip. assert (E3 : (c_matcher c =? 3) = false) by (destruct Hk as [-> | ->]; reflexivity).
      rewrite E3, HM. reflexivity. }
    rewrite Hmp', (relabel_strip _ a Hnn Hwf). apply eval_phase_strip.
Qed.

(* the result depends only on the non-background voxels, up to order *)
Corollary pipeline_foreground_naive x c a a' : nonneg_arr a -> nonneg_arr a' ->
  (c_matcher c = 0 \/ c_matcher c = 1 \/ c_matcher c = 2) ->
  Permutation (strip a) (strip a') -> pipeline x c a = pipeline x c a'.
Proof.
  intros Hn Hn' Hk Hp. rewrite <- (pipeline_strip_naive x c a Hn Hk), <- (pipeline_strip_naive x c a' Hn' Hk). now apply pipeline_perm.
Qed.

(* ---- the merge matcher ---- *)
From Pan Require Import Proofs.MergeFacts.

Lemma merge_wf x c a :
  (forall cd, In cd (cand_list x (c_mmetric c) a) -> fst cd = x_union x (cref cd) [cpred cd]) ->
  let st := merge_match (better_eq (decreasing (c_mmetric c))) Qeq_bool (fun s => beats (decreasing (c_mmetric c)) s (c_mthr c)) (x_union x)
              (cand_list x (c_mmetric c) a) in
  wf_matching (ms_map st) a.
Proof.
  intros Hseed st. set (decr := decreasing (c_mmetric c)) in *.
  destruct (merge_match_inv Q (better_eq decr) (better_eq_refl decr) (better_eq_trans decr) Qeq_bool
              (fun s => beats decr s (c_mthr c)) (fun u v => beats_up decr (c_mthr c) u v) (x_union x) _ Hseed) as [H1 _ _ H4].
  fold st in H1, H4. split; [exact H1|]. intros p r Hin. destruct (H4 p r Hin) as (cd & Hc & Er & Ep).
  assert (Hc' : In cd (cand_list x (c_mmetric c) a)).
  { exact (Permutation_in _ (Permutation_sym (sort_perm Q (better_eq decr) _)) Hc). }
  apply cand_list_pairs, overlap_pairs_spec in Hc' as (Hin' & Hr & Hp). unfold cref, cpred in Er, Ep. subst p r. split.
  - apply pred_labels_spec. split; [exact Hp|]. exists (snd cd). auto.
  - apply ref_labels_spec. split; [exact Hr|]. exists (snd cd). auto.
Qed.

Theorem pipeline_strip_merge x c a : nonneg_arr a -> c_matcher c = 3 ->
  (forall cd, In cd (cand_list x (c_mmetric c) a) -> fst cd = x_union x (cref cd) [cpred cd]) ->
  pipeline x c (strip a) = pipeline x c a.
Proof.
  intros Hnn Hk Hseed. unfold pipeline. rewrite Hk. cbn [Z.eqb Pos.eqb].
  destruct (strip_labels a) as [Ep Er]. unfold n_pred_inst, n_ref_inst. rewrite Ep, Er.
  destruct (zero_case _ _); [reflexivity|].
  unfold match_phase. rewrite Hk. cbn [Z.eqb Pos.eqb]. rewrite cand_list_strip.
  rewrite (relabel_strip _ a Hnn (merge_wf x c a Hseed)). apply eval_phase_strip.
Qed.
