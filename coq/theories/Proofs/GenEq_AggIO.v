(* T1 leaf: the aggregator's file helpers as read by the translator.  The models (Model/Aggregator.v, Model/Tsv.v) work on rows as
   lists of cells: that abstraction is sound only if the SAME csv dialect writes and parses the rows (cells read back = cells
   written, for every printable name, quoting included), names are compared as parsed first cells, writes append and duplicate
   names in the buffer are rejected.  These are the facts pinned here. *)
From Pan Require Import Base.Common Gen.AggIO.
Open Scope Z_scope.

Lemma geneq_dialect : gen_delimiter = 9 /\ gen_lineterminator = 10.
Proof. split; reflexivity. Qed.
Lemma geneq_append : gen_write_appends = true.
Proof. reflexivity. Qed.
Lemma geneq_names : gen_names_are_first_parsed_cells = true /\ gen_duplicates_rejected = true.
Proof. split; reflexivity. Qed.
