(* C01, end to end for the merge matcher: whatever the pipeline returns under MaximizeMergeMatching is explained by the label map
   the merge loop builds (every prediction assigned to at most one reference, every entry an overlapping pair, recorded score =
   combined score of exactly the assigned predictions, meeting the threshold): the evaluated instances are the matched references,
   scored by the set definitions against the UNION of the predictions merged into them. *)
From Pan Require Import Base.Common Base.Sx Base.Rnd64 Model.MetricTable Model.Metrics Model.EdgeCase Model.Result Model.ZeroCase
  Model.Matcher Model.Merge Model.Relabel Model.Pipeline Proofs.ListFacts Proofs.ResultFacts Proofs.Matching Proofs.MatcherQ
  Proofs.MergeFacts Proofs.C04Proofs Proofs.C01Proofs Proofs.PipelineFacts Proofs.C01EndToEnd Proofs.PaddingPipeline.
From Coq Require Import Permutation.
Open Scope Z_scope.

(* the evaluation phase on arrays relabelled by ANY well-formed label map L (the part of the end-to-end statement that does not
   depend on which matcher produced L) *)
Lemma eval_phase_explained x c a L r :
  nonneg_arr a -> wf_matching L a -> overlap_only (c_ems c) ->
  eval_phase x c (map_instance_labels L a) = Ok r ->
  let a' := map_instance_labels L a in
  (forall l, In l (matched_labels a') <-> exists p, In (p, l) L) /\
  let score := fun (m : metric) (l : Z) =>
     match m with DSC => dice (Some (l, preds_of l L)) a | _ => iou (Some (l, preds_of l L)) a end in
  let TP := filter (fun l => passes_decision (c_dm c) (c_dthr c) (fun m => score m l)) (matched_labels a') in
  (zero_case (n_pred_inst a') (n_ref_inst a') = None ->
     o_tp r = Z.of_nat (length TP) /\
     (forall mr, In mr (o_metrics r) -> m_all mr = map (score (m_metric mr)) TP) /\
     o_fp r = n_pred_inst a' - o_tp r /\ o_fn r = n_ref_inst a - o_tp r).
Proof.
  intros Hnn Hwf Ho Hp. cbn zeta.
  split; [exact (matched_labels_relabel L a Hnn Hwf)|].
  intros Hz'. unfold eval_phase in Hp. rewrite Hz' in Hp.
  destruct (evaluate_matched x (c_ems c) (c_dm c) (c_dthr c) (map_instance_labels L a)) as [[tp lists]|] eqn:Ee; [|discriminate].
  destruct (evaluate_matched_overlap _ _ _ _ _ _ _ Ho Ee) as [Htp Hl].
  destruct (panoptica_result_fields _ _ Hp) as (_ & _ & E3 & E4 & E5 & _ & Hall). cbn [r_np r_nr r_tp r_lists] in *.
  assert (Hs : forall m l, In l (matched_labels (map_instance_labels L a)) ->
             ovalue (map_instance_labels L a) m l =
             match m with DSC => dice (Some (l, preds_of l L)) a | _ => iou (Some (l, preds_of l L)) a end).
  { intros m l Hin. apply (matched_labels_relabel L a Hnn Hwf) in Hin as [p Hin].
    destruct (proj2 Hwf p l Hin) as [_ Hr].
    destruct (evaluated_scores L a l Hnn Hwf Hr) as (Ei & Ed & _).
    unfold ovalue. destruct m; assumption. }
  assert (Hf : filter (fun l => passes_decision (c_dm c) (c_dthr c) (fun m => ovalue (map_instance_labels L a) m l))
                 (matched_labels (map_instance_labels L a)) =
               filter (fun l => passes_decision (c_dm c) (c_dthr c)
                   (fun m => match m with DSC => dice (Some (l, preds_of l L)) a | _ => iou (Some (l, preds_of l L)) a end))
                 (matched_labels (map_instance_labels L a))).
  { apply filter_ext_in. intros l Hin. unfold passes_decision. destruct (c_dm c) as [dm|]; [|reflexivity].
    destruct (c_dthr c); [|reflexivity]. now rewrite (Hs dm l Hin). }
  rewrite <- Hf. split; [rewrite E3; exact Htp|]. split.
  - intros mr Hin. rewrite (Hl _ _ (Hall mr Hin)). apply map_ext_in. intros l Hl'. apply Hs.
    apply filter_In in Hl'. tauto.
  - rewrite E4, E5, E3. unfold n_ref_inst. rewrite (ref_labels_relabel L a). split; reflexivity.
Qed.

Theorem end_to_end_merge x c a r :
  nonneg_arr a -> c_matcher c = 3 -> overlap_only (c_ems c) ->
  zero_case (n_pred_inst a) (n_ref_inst a) = None -> pipeline x c a = Ok r ->
  let decr := decreasing (c_mmetric c) in
  let cs := cand_list x (c_mmetric c) a in
  (* the candidates' scores are the combined scores of the single predictions *)
  (forall cd, In cd cs -> fst cd = x_union x (cref cd) [cpred cd]) ->
  let st := merge_match (better_eq decr) Qeq_bool (fun s => beats decr s (c_mthr c)) (x_union x) cs in
  let L := ms_map st in let a' := map_instance_labels L a in
  (* the label map: a function on predictions, made of overlapping pairs ... *)
  NoDup (map fst L) /\
  (forall p l, In (p, l) L -> exists cd, In cd cs /\ cref cd = l /\ cpred cd = p) /\
  (* ... every matched reference carries the combined score of exactly the predictions merged into it, which meets the
     threshold and is at least as good as the score of one of them alone that met it ... *)
  (forall l, (exists p, In (p, l) L) ->
     exists s, lookup_score l (ms_score st) = Some s /\ s = x_union x l (preds_of l L) /\ beats decr s (c_mthr c) = true /\
       exists cd, In cd cs /\ cref cd = l /\ beats decr (fst cd) (c_mthr c) = true /\ In (cpred cd, l) L
                  /\ better_eq decr s (fst cd) = true) /\
  (* ... the evaluated instances are exactly the matched references, scored against the union of their predictions *)
  (forall l, In l (matched_labels a') <-> exists p, In (p, l) L) /\
  let score := fun (m : metric) (l : Z) =>
     match m with DSC => dice (Some (l, preds_of l L)) a | _ => iou (Some (l, preds_of l L)) a end in
  let TP := filter (fun l => passes_decision (c_dm c) (c_dthr c) (fun m => score m l)) (matched_labels a') in
  (zero_case (n_pred_inst a') (n_ref_inst a') = None ->
     o_tp r = Z.of_nat (length TP) /\
     (forall mr, In mr (o_metrics r) -> m_all mr = map (score (m_metric mr)) TP) /\
     o_fp r = n_pred_inst a' - o_tp r /\ o_fn r = n_ref_inst a - o_tp r).
Proof.
  intros Hnn Hk Ho Hz Hp decr cs Hseed st L a'.
  pose proof (merge_wf x c a Hseed) as Hwf. cbn zeta in Hwf. fold decr in Hwf. fold cs in Hwf. fold st in Hwf. fold L in Hwf.
  destruct (merge_match_inv Q (better_eq decr) (better_eq_refl decr) (better_eq_trans decr) Qeq_bool
              (fun s => beats decr s (c_mthr c)) (fun u v => beats_up decr (c_mthr c) u v) (x_union x) cs Hseed) as [H1 H2 H3 H4].
  fold st in H1, H2, H3, H4.
  assert (Hperm : forall cd, In cd (sort_cands (better_eq decr) cs) -> In cd cs).
  { intros cd Hc. exact (Permutation_in _ (Permutation_sym (sort_perm Q (better_eq decr) cs)) Hc). }
  split; [exact H1|].
  split.
  { intros p l Hin. destruct (H4 p l Hin) as (cd & Hc & Hx). exists cd. split; [apply Hperm, Hc|exact Hx]. }
  split.
  { intros l [p Hin].
    assert (Hh : has_ref l (ms_map st) = true).
    { unfold has_ref. apply existsb_exists. exists (p, l). split; [exact Hin|]. cbn. apply Z.eqb_refl. }
    apply H2 in Hh as [s Hs]. exists s. split; [exact Hs|].
    destruct (H3 l s Hs) as (E & Hb & cd & Hc & Hx). split; [exact E|]. split; [exact Hb|].
    exists cd. split; [apply Hperm, Hc|exact Hx]. }
  assert (Hp' : eval_phase x c a' = Ok r).
  { unfold pipeline in Hp. rewrite Hk in Hp. cbn [Z.eqb Pos.eqb] in Hp. rewrite Hz in Hp.
    unfold match_phase in Hp. rewrite Hk in Hp. cbn [Z.eqb Pos.eqb] in Hp. exact Hp. }
  exact (eval_phase_explained x c a L r Hnn Hwf Ho Hp').
Qed.
