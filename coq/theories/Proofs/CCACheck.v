(* The decidable checker decides the specification: for a well-formed map,
   check_cca b m lab n = true  <->  is_cca b m lab n
   (sound because the model's labelling is valid and `lab` induces the same partition;
    complete because the partition and the count are unique). *)
From Pan Require Import Base.Common Model.CCA Proofs.CCASpec Proofs.CCAFacts Proofs.CCASound Proofs.CCAUnique.
Open Scope Z_scope.

Lemma list_eqb_cvox a b : list_eqb cvox_eqb a b = true <-> a = b.
Proof.
  revert b; induction a as [|x a IH]; destruct b as [|y b]; cbn; try (split; congruence).
  rewrite andb_true_iff, cvox_eqb_eq, IH. split; [intros [-> ->]; reflexivity|intros [= -> ->]; auto].
Qed.

Lemma mem_cvox_In c l : mem_cvox c l = true <-> In c l.
Proof.
  unfold mem_cvox. rewrite existsb_exists. split.
  - intros (d&H&E). apply cvox_eqb_eq in E. subst; assumption.
  - intros H. exists c. split; [assumption|apply cvox_eqb_refl].
Qed.
Lemma nodup_cvox_spec l : nodup_cvox l = true <-> NoDup l.
Proof.
  induction l as [|c l IH]; cbn; [split; [constructor|reflexivity]|].
  rewrite andb_true_iff, negb_true_iff, IH. split.
  - intros [H1 H2]. constructor; auto. rewrite <- mem_cvox_In. congruence.
  - intros H. inversion H; subst. split; auto. rewrite <- mem_cvox_In in *. destruct (mem_cvox c l); congruence.
Qed.
Lemma wf_b_spec m : wf_b m = true <-> wf m.
Proof.
  unfold wf_b, wf. rewrite andb_true_iff, nodup_cvox_spec, forallb_forall.
  split; intros [H1 H2]; split; auto; intros p Hp; specialize (H2 p Hp).
  - rewrite negb_true_iff, Z.eqb_neq in H2. assumption.
  - rewrite negb_true_iff, Z.eqb_neq. assumption.
Qed.

Lemma same_partition_spec l0 l :
  same_partition l0 l = true <->
  forall p q, In p (combine l0 l) -> In q (combine l0 l) -> (fst p = fst q <-> snd p = snd q).
Proof.
  unfold same_partition. rewrite forallb_forall. split.
  - intros H p q Hp Hq. specialize (H p Hp). rewrite forallb_forall in H. specialize (H q Hq).
    apply eqb_prop in H. rewrite <- !Z.eqb_eq, H. tauto.
  - intros H p Hp. rewrite forallb_forall. intros q Hq. specialize (H p q Hp Hq).
    destruct (Z.eqb_spec (fst p) (fst q)), (Z.eqb_spec (snd p) (snd q)); cbn; auto; tauto.
Qed.

Lemma labels_in_range_spec lab n : labels_in_range lab n = true <-> forall p, In p lab -> 1 <= snd p <= n.
Proof.
  unfold labels_in_range. rewrite forallb_forall.
  split; intros H p Hp; specialize (H p Hp); rewrite andb_true_iff, Z.leb_le, Z.leb_le in *; assumption.
Qed.
Lemma labels_all_used_spec lab n : 0 <= n ->
  (labels_all_used lab n = true <-> forall k, 1 <= k <= n -> exists c, In (c, k) lab).
Proof.
  intros Hn. unfold labels_all_used. rewrite forallb_forall. split.
  - intros H k Hk. assert (Hin : In k (upto (Z.to_nat n))) by (apply upto_In; lia).
    specialize (H k Hin). apply memZ_In in H. apply in_map_iff in H. destruct H as ([c k']&E&H).
    cbn in E; subst. eauto.
  - intros H k Hk. apply upto_In in Hk. rewrite Z2Nat.id in Hk by assumption.
    destruct (H k Hk) as (c&Hc). apply memZ_In. apply in_map_iff. exists (c, k); auto.
Qed.

Lemma in_two_labellings_r (l0 l : smap) c k :
  map fst l0 = map fst l -> In (c, k) l ->
  exists k0, In (c, k0) l0 /\ In (k0, k) (combine (map snd l0) (map snd l)).
Proof.
  revert l; induction l0 as [|[c1 k1] l0 IH]; destruct l as [|[c2 k2] l]; cbn; try discriminate; try tauto.
  intros [= -> Hm] [[= -> ->]|H]; eauto. destruct (IH _ Hm H) as (k0&?&?); eauto.
Qed.

Section Check.
Variable b : backend.
Variable m : smap.
Hypothesis Hwf : wf m.

(* a labelling with the right label set that induces the model's partition is valid *)
Lemma same_partition_is_cca lab0 n lab :
  is_cca b m lab0 n ->
  map fst lab = map fst m ->
  (forall p, In p lab -> 1 <= snd p <= n) ->
  (forall k, 1 <= k <= n -> exists c, In (c, k) lab) ->
  (forall p q, In p (combine (map snd lab0) (map snd lab)) -> In q (combine (map snd lab0) (map snd lab)) ->
     (fst p = fst q <-> snd p = snd q)) ->
  is_cca b m lab n.
Proof.
  intros H0 Ec Hrange Hused Hp.
  pose proof H0 as (E0&Hn0&_&_&Hadj&Hconn).
  assert (E : map fst lab0 = map fst lab) by congruence.
  assert (Hnd0 : NoDup (map fst lab0)) by (rewrite E0; apply Hwf).
  repeat split; auto.
  - apply Hrange; assumption.
  - apply Hrange; assumption.
  - intros v w Hv Hw A. destruct (Hadj v w Hv Hw A) as (k0&H1&H2).
    destruct (in_two_labellings _ _ _ _ E H1) as (k&Hk&Pk).
    destruct (in_two_labellings _ _ _ _ E H2) as (k'&Hk'&Pk').
    assert (k = k') by (apply (Hp _ _ Pk Pk'); reflexivity). subst k'.
    exists k; auto.
  - intros v w Hv Hw (k&H1&H2). apply Hconn; auto.
    destruct (in_two_labellings_r _ _ _ _ E H1) as (k0&Hk&Pk).
    destruct (in_two_labellings_r _ _ _ _ E H2) as (k0'&Hk'&Pk').
    assert (k0 = k0') by (apply (Hp _ _ Pk Pk'); reflexivity). subst k0'.
    exists k0; auto.
Qed.

Theorem check_cca_sound lab n : check_cca b m lab n = true -> is_cca b m lab n.
Proof.
  unfold check_cca. destruct (same_coords m lab) eqn:Ec; [|discriminate].
  pose proof (cca_sound b m Hwf) as H0. destruct (cca b m) as [lab0 n0]. cbn [fst snd] in H0.
  destruct (Z.eqb_spec n n0) as [->|]; [|discriminate].
  rewrite !andb_true_iff. intros [[Hr Hu] Hp].
  assert (Hn0 : 0 <= n0) by (destruct H0 as (_&?&_); assumption).
  apply list_eqb_cvox in Ec.
  pose proof (proj1 (labels_in_range_spec _ _) Hr) as Hr'.
  pose proof (proj1 (labels_all_used_spec _ _ Hn0) Hu) as Hu'.
  pose proof (proj1 (same_partition_spec _ _) Hp) as Hp'.
  eapply same_partition_is_cca; eauto.
Qed.

Theorem check_cca_complete lab n : is_cca b m lab n -> check_cca b m lab n = true.
Proof.
  intros H. unfold check_cca.
  pose proof H as (Ec&Hn0&Hr&Hu&_).
  replace (same_coords m lab) with true by (symmetry; apply list_eqb_cvox; assumption).
  pose proof (cca_sound b m Hwf) as H0. destruct (cca b m) as [lab0 n0]. cbn [fst snd] in H0.
  rewrite (unique_count b m _ _ _ _ Hwf H H0), Z.eqb_refl.
  assert (n = n0) by (eapply unique_count; eauto). subst n0.
  rewrite !andb_true_iff. repeat split.
  - apply labels_in_range_spec; assumption.
  - apply labels_all_used_spec; assumption.
  - apply same_partition_spec. intros p q. eapply partition_pairs; eauto.
Qed.

Theorem check_cca_iff lab n : check_cca b m lab n = true <-> is_cca b m lab n.
Proof. split; [apply check_cca_sound|apply check_cca_complete]. Qed.
End Check.

Theorem holds_C05_sound b m lab n : holds_C05 b m lab n = true -> wf m /\ is_cca b m lab n.
Proof.
  unfold holds_C05. destruct (wf_b m) eqn:W; [|discriminate]. apply wf_b_spec in W.
  intros H. split; [assumption|apply check_cca_sound; assumption].
Qed.
Theorem holds_C05_complete b m lab n : wf m -> is_cca b m lab n -> holds_C05 b m lab n = true.
Proof.
  intros W H. unfold holds_C05. replace (wf_b m) with true by (symmetry; apply wf_b_spec; assumption).
  apply check_cca_complete; assumption.
Qed.
