(* Facts about the edge case dispatch and the result calculators (C08, C13, C02). *)
From Pan Require Import Base.Common Base.Sx Base.Rnd64 Model.MetricTable Model.EdgeCase Model.Result.
From Coq Require Import ZifyBool.
Open Scope Z_scope.
Ltac fin := repeat split; try reflexivity; lia.

(* ---------- scenario classification: total and exclusive on instance counts ---------- *)
Lemma classify_spec np nr : 0 <= np -> 0 <= nr ->
  (np = 0 /\ nr = 0 /\ classify np nr = Some NO_INSTANCES) \/
  (0 < np /\ nr = 0 /\ classify np nr = Some EMPTY_REF) \/
  (np = 0 /\ 0 < nr /\ classify np nr = Some EMPTY_PRED) \/
  (0 < np /\ 0 < nr /\ classify np nr = Some NORMAL).
Proof.
  intros Hp Hr. unfold classify.
  destruct (np + nr =? 0) eqn:E1; [left; fin|].
  destruct (nr =? 0) eqn:E2; [right; left; fin|].
  destruct (np =? 0) eqn:E3; [right; right; left; fin|].
  destruct (0 <? np) eqn:E4, (0 <? nr) eqn:E5; cbn [andb]; try lia.
  right; right; right; fin.
Qed.

Lemma classify_total np nr : 0 <= np -> 0 <= nr -> exists s, classify np nr = Some s.
Proof. intros Hp Hr. destruct (classify_spec np nr Hp Hr) as [H|[H|[H|H]]]; destruct H as (_ & _ & ->); eauto. Qed.

Lemma metric_eqb_eq a b : metric_eqb a b = true <-> a = b.
Proof. destruct a, b; cbn; split; congruence. Qed.

Lemma handle_zero_tp_zero h m mh np nr s :
  lookup_m m (h_table h) = Some mh -> classify np nr = Some s ->
  handle_zero_tp h m 0 np nr = Ok (true, ecr_value (entry mh s)).
Proof. intros Hl Hc. unfold handle_zero_tp, mh_call. cbn [Z.eqb negb]. now rewrite Hl, Hc. Qed.

Lemma handle_zero_tp_nonzero h m tp np nr : tp <> 0 -> handle_zero_tp h m tp np nr = Ok (false, FNone).
Proof. intros H. unfold handle_zero_tp. destruct (tp =? 0) eqn:E; [lia|reflexivity]. Qed.

(* ---------- zero-TP results ---------- *)
Definition handler_defines (h : handler) (lists : list (metric * list Q)) : Prop :=
  forall m vals, lookup_m m lists = Some vals -> exists mh, lookup_m m (h_table h) = Some mh.
Definition lists_empty (lists : list (metric * list Q)) : Prop :=
  forall m vals, lookup_m m lists = Some vals -> vals = [].

(* what the metric part of a zero-TP result looks like, for any sub-list of the enumeration *)
Lemma build_metrics_zero_tp h np nr lists s rq ms :
  classify np nr = Some s -> handler_defines h lists -> lists_empty lists ->
  exists out, build_metrics {| r_np := np; r_nr := nr; r_tp := 0; r_lists := lists; r_handler := h |} rq ms = Ok out /\
    (forall mr, In mr out -> exists mh, lookup_m (m_metric mr) (h_table h) = Some mh /\
        m_sq mr = ecr_value (entry mh s) /\ m_var mr = ecr_value (h_std h) /\ m_all mr = []) /\
    (forall m, In m ms -> lookup_m m lists <> None -> exists mr, In mr out /\ m_metric mr = m).
Proof.
  intros Hc Hdef Hemp. induction ms as [|m ms IH].
  - exists []. repeat split; cbn; [intros ? []|intros ? []].
  - destruct IH as (out & Hout & Hall & Hex). cbn [build_metrics r_lists r_handler r_tp r_np r_nr].
    destruct (lookup_m m lists) as [vals|] eqn:El.
    + destruct (Hdef m vals El) as [mh Hmh]. pose proof (Hemp m vals El) as ->.
      unfold list_metric. rewrite (handle_zero_tp_zero h m mh np nr s Hmh Hc). rewrite Hout.
      eexists. split; [reflexivity|]. split.
      * intros mr [<-|Hin]; [|now apply Hall]. cbn. exists mh. repeat split; assumption.
      * intros m' [<-|Hin] Hne.
        -- eexists. split; [left; reflexivity|reflexivity].
        -- destruct (Hex m' Hin Hne) as (mr & Hmr & Hm). exists mr. split; [now right|exact Hm].
    + exists out. split; [exact Hout|]. split; [exact Hall|].
      intros m' [<-|Hin] Hne; [congruence|]. now apply Hex.
Qed.

Lemma zero_tp_result h np nr lists :
  0 <= np -> 0 <= nr -> handler_defines h lists -> lists_empty lists ->
  exists s r, classify np nr = Some s /\
    panoptica_result {| r_np := np; r_nr := nr; r_tp := 0; r_lists := lists; r_handler := h |} = Ok r /\
    o_tp r = 0 /\ o_fp r = np /\ o_fn r = nr /\
    (forall mr, In mr (o_metrics r) -> exists mh, lookup_m (m_metric mr) (h_table h) = Some mh /\
        m_sq mr = ecr_value (entry mh s) /\ m_var mr = ecr_value (h_std h) /\ m_all mr = []) /\
    (forall m, lookup_m m lists <> None -> exists mr, In mr (o_metrics r) /\ m_metric mr = m).
Proof.
  intros Hp Hr Hdef Hemp. destruct (classify_total np nr Hp Hr) as [s Hs]. exists s.
  unfold panoptica_result. cbn [r_np r_nr r_tp].
  destruct (build_metrics_zero_tp h np nr lists s (calc_rq np nr 0) all_metrics Hs Hdef Hemp)
    as (out & -> & Hall & Hex).
  eexists. split; [exact Hs|]. split; [reflexivity|]. cbn [o_tp o_fp o_fn o_metrics].
  unfold calc_fp, calc_fn. repeat split; try lia; [exact Hall|].
  intros m Hne. apply Hex; [|exact Hne]. destruct m; cbn; tauto.
Qed.

(* ---------- with at least one true positive the handler has no influence ---------- *)
Definition lists_nonempty (lists : list (metric * list Q)) : Prop :=
  forall m vals, lookup_m m lists = Some vals -> vals <> [].

Lemma list_metric_handler_irrelevant h h' m tp np nr vals :
  tp <> 0 -> vals <> [] -> list_metric h m tp np nr vals = list_metric h' m tp np nr vals.
Proof.
  intros Htp Hne. unfold list_metric. rewrite !handle_zero_tp_nonzero by exact Htp.
  destruct vals; [congruence|reflexivity].
Qed.

Lemma build_metrics_handler_irrelevant h h' np nr tp lists rq ms :
  tp <> 0 -> lists_nonempty lists ->
  build_metrics {| r_np := np; r_nr := nr; r_tp := tp; r_lists := lists; r_handler := h |} rq ms =
  build_metrics {| r_np := np; r_nr := nr; r_tp := tp; r_lists := lists; r_handler := h' |} rq ms.
Proof.
  intros Htp Hne. induction ms as [|m ms IH]; [reflexivity|].
  cbn [build_metrics r_lists r_handler r_tp r_np r_nr].
  destruct (lookup_m m lists) as [vals|] eqn:El; [|exact IH].
  rewrite (list_metric_handler_irrelevant h h' m tp np nr vals Htp (Hne m vals El)), IH. reflexivity.
Qed.

Lemma handler_irrelevant h h' np nr tp lists :
  tp <> 0 -> lists_nonempty lists ->
  panoptica_result {| r_np := np; r_nr := nr; r_tp := tp; r_lists := lists; r_handler := h |} =
  panoptica_result {| r_np := np; r_nr := nr; r_tp := tp; r_lists := lists; r_handler := h' |}.
Proof.
  intros Htp Hne. unfold panoptica_result. cbn [r_np r_nr r_tp].
  now rewrite (build_metrics_handler_irrelevant h h' np nr tp lists _ all_metrics Htp Hne).
Qed.

(* ---------- global binary metrics (C13) ---------- *)
Lemma global_bin_spec h m mh pe re mval :
  lookup_m m (h_table h) = Some mh ->
  global_bin h m pe re mval =
    match pe, re with
    | true, true => Ok (ecr_value (e_noinst mh))
    | true, false => Ok (ecr_value (e_emptypred mh))
    | false, true => Ok (ecr_value (e_emptyref mh))
    | false, false => mval
    end.
Proof.
  intros Hl. unfold global_bin, handle_zero_tp, mh_call. cbn [Z.eqb negb]. rewrite Hl.
  destruct pe, re; reflexivity.
Qed.
