From Pan Require Import Base.Common Model.MetricTable Model.ZeroCase Gen.EvalTP.
Lemma geneq_counts_as_tp_none thr dm score : gen_counts_as_tp None thr dm score = true.
Proof. reflexivity. Qed.
Lemma geneq_counts_as_tp dm thr score :
  gen_counts_as_tp (Some dm) thr dm (score dm) = passes_decision (Some dm) thr score.
Proof. unfold gen_counts_as_tp, passes_decision. destruct thr; reflexivity. Qed.
Lemma geneq_tp_counted_with_lists : gen_tp_counted_with_lists = true.
Proof. reflexivity. Qed.
