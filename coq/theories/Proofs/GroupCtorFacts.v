(* The group constructor establishes the class invariant that Model.Config's round-trip theorems assume, and the object a saved
   configuration is rebuilt into is the same object -- also when the user's dictionary had keys that fold to one name. *)
From Coq Require Import Lia.
From Pan Require Import Base.Common Model.Config Model.GroupCtor Proofs.ConfigFacts Proofs.ConfigExtra.
Open Scope Z_scope.

Lemma dset_keys_in d k g x : In x (map fst (dset d k g)) <-> In x (map fst d) \/ x = k.
Proof.
  induction d as [|[k' g'] t IH]; cbn [dset map fst In].
  - split; [intros [H|[]]; right; symmetry; exact H | intros [[]|H]; left; symmetry; exact H].
  - destruct (str_eqb k k') eqn:E; cbn [map fst In].
    + apply str_eqb_eq in E. subst k'. split; [intros [H|H]; [left; left; exact H | left; right; exact H] | intros [[H|H]|H]; [left; exact H | right; exact H | left; symmetry; exact H]].
    + rewrite IH. tauto.
Qed.

Lemma dset_nodup d k g : NoDup (map fst d) -> NoDup (map fst (dset d k g)).
Proof.
  induction d as [|[k' g'] t IH]; cbn [dset map fst]; intros H.
  - constructor; [intros []|constructor].
  - destruct (str_eqb k k') eqn:E; cbn [map fst]; [exact H|].
    inversion H as [|? ? Hn Ht]; subst. constructor; [|apply IH; exact Ht].
    rewrite dset_keys_in. intros [Hin|He]; [exact (Hn Hin)|].
    subst k'. rewrite str_eqb_refl in E. discriminate.
Qed.

Lemma dset_forall (P : str * lgroup -> Prop) d k g : Forall P d -> (forall k', P (k', g) ) -> Forall P (dset d k g).
Proof.
  intros Hd Hg. induction d as [|[k' g'] t IH]; cbn [dset].
  - constructor; [apply Hg|constructor].
  - inversion Hd; subst. destruct (str_eqb k k'); constructor; auto.
Qed.

Definition lower_key (ng : str * lgroup) : Prop := ascii_str (fst ng) = true /\ lower (fst ng) = fst ng.

Lemma lower_ascii s : ascii_str s = true -> ascii_str (lower s) = true /\ lower (lower s) = lower s.
Proof.
  unfold ascii_str, lower. induction s as [|z s IH]; cbn [forallb map]; [split; reflexivity|].
  intros H. apply andb_true_iff in H. destruct H as [Hz Hs]. destruct (IH Hs) as [IH1 IH2].
  assert (Hr : 0 <= z < 128) by lia. destruct (lower_cp_props z Hr) as [Hb Hi].
  split.
  - apply andb_true_iff. split; [lia|exact IH1].
  - rewrite Hi, IH2. reflexivity.
Qed.

(* invariant of the fold: keys distinct, ASCII and lower case; every value is one of the values given *)
Lemma ctor_fold_inv entries : forall d,
  NoDup (map fst d) -> Forall lower_key d ->
  Forall (fun e => ascii_str (fst e) = true) entries ->
  let d' := fold_left (fun d e => dset d (lower (fst e)) (snd e)) entries d in
  NoDup (map fst d') /\ Forall lower_key d'.
Proof.
  induction entries as [|e es IH]; cbn [fold_left]; intros d Hn Hl He; [split; assumption|].
  inversion He as [|? ? Ha Hes]; subst. apply IH; [apply dset_nodup; exact Hn| |exact Hes].
  (* new or replaced entry keeps a lower-case ASCII key *)
  clear IH Hes He. induction d as [|[k' g'] t IHd]; cbn [dset].
  - constructor; [|constructor]. unfold lower_key; cbn [fst]. apply lower_ascii; exact Ha.
  - inversion Hl; subst. inversion Hn; subst. destruct (str_eqb (lower (fst e)) k'); constructor; auto.
Qed.

Lemma nodupS_of_NoDup l : NoDup l -> nodupS l = true.
Proof.
  induction 1 as [|x l Hn Hd IH]; cbn [nodupS]; [reflexivity|].
  rewrite IH, andb_true_r. destruct (memS x l) eqn:E; [|reflexivity].
  apply memS_In in E. contradiction.
Qed.

Lemma ctor_fold_values entries :
  Forall (fun e => wf_lgroup (snd e) = true) entries -> forall d,
  Forall (fun ng => wf_lgroup (snd ng) = true) d ->
  Forall (fun ng => wf_lgroup (snd ng) = true) (fold_left (fun d e => dset d (lower (fst e)) (snd e)) entries d).
Proof.
  induction 1 as [|e es He Hes IH]; cbn [fold_left]; intros d Hd; [exact Hd|].
  apply IH. apply dset_forall; [exact Hd|]. intros k'. exact He.
Qed.

Theorem ctor_establishes_invariant entries :
  Forall (fun e => ascii_str (fst e) = true) entries ->
  Forall (fun e => wf_lgroup (snd e) = true) entries ->
  wf_groups (GList (ctor_dict entries)) = true.
Proof.
  intros Ha Hw. unfold ctor_dict.
  destruct (ctor_fold_inv entries [] (NoDup_nil _) (Forall_nil _) Ha) as [Hn Hl].
  pose proof (ctor_fold_values entries Hw [] (Forall_nil _)) as Hg.
  cbn [wf_groups]. apply andb_true_iff. split; [|apply nodupS_of_NoDup; exact Hn].
  apply forallb_forall. intros ng Hin.
  rewrite Forall_forall in Hl, Hg. destruct (Hl ng Hin) as [H1 H2].
  unfold wf_name. rewrite H1, H2, str_eqb_refl, (Hg ng Hin). reflexivity.
Qed.

(* re-inserting the entries of a dictionary whose keys are distinct and already lower case rebuilds it *)
Lemma dset_fresh d k g : ~ In k (map fst d) -> dset d k g = d ++ [(k, g)].
Proof.
  induction d as [|[k' g'] t IH]; cbn [dset map fst In app]; intros H; [reflexivity|].
  destruct (str_eqb k k') eqn:E.
  - apply str_eqb_eq in E. subst. exfalso. apply H. left. reflexivity.
  - rewrite IH; [reflexivity|]. intros Hin. apply H. right. exact Hin.
Qed.

Lemma refold_app d : forall acc,
  NoDup (map fst acc ++ map fst d) -> Forall lower_key d ->
  fold_left (fun d e => dset d (lower (fst e)) (snd e)) d acc = acc ++ d.
Proof.
  induction d as [|[k g] t IH]; cbn [fold_left]; intros acc Hn Hl; [rewrite app_nil_r; reflexivity|].
  inversion Hl as [|? ? Hk Ht]; subst. destruct Hk as [_ Hk]. cbn [fst snd] in *. rewrite Hk.
  cbn [map fst] in Hn.
  assert (Hfresh : ~ In k (map fst acc)).
  { intros Hin. apply NoDup_remove_2 in Hn. apply Hn. apply in_or_app. left. exact Hin. }
  rewrite (dset_fresh acc k g Hfresh). rewrite IH; [rewrite <- app_assoc; reflexivity| |exact Ht].
  rewrite map_app. cbn [map fst]. rewrite <- app_assoc. cbn [app]. exact Hn.
Qed.

Theorem ctor_fixed_point d : wf_groups (GList d) = true -> ctor_dict d = d.
Proof.
  cbn [wf_groups]. intros H. apply andb_true_iff in H. destruct H as [Hf Hn].
  unfold ctor_dict. rewrite (refold_app d []); [reflexivity|cbn [map app]; apply nodupS_NoDup; exact Hn|].
  rewrite forallb_forall in Hf. apply Forall_forall. intros ng Hin.
  specialize (Hf ng Hin). apply andb_true_iff in Hf. destruct Hf as [Hw _].
  unfold wf_name in Hw. apply andb_true_iff in Hw. destruct Hw as [H1 H2].
  split; [exact H1|apply str_eqb_eq; exact H2].
Qed.

(* save -> load rebuilds the same dictionary, hence answers for the same labels, whatever keys the user's dictionary had *)
Theorem reconstructed_same entries :
  Forall (fun e => ascii_str (fst e) = true) entries ->
  Forall (fun e => wf_lgroup (snd e) = true) entries ->
  reconstructed entries = ctor_dict entries /\ ctor_labels (ctor_dict entries) = ctor_labels entries.
Proof.
  intros Ha Hw. pose proof (ctor_fixed_point _ (ctor_establishes_invariant entries Ha Hw)) as H.
  unfold reconstructed, ctor_labels. rewrite H. split; reflexivity.
Qed.

(* the labels answered for are those of the groups that are in the object, nothing else *)
Theorem ctor_labels_are_kept_groups entries x :
  In x (ctor_labels entries) <-> exists ng, In ng (ctor_dict entries) /\ In x (g_labels (snd ng)).
Proof. unfold ctor_labels, dict_labels. rewrite in_flat_map. reflexivity. Qed.

(* every group in the object is the LAST entry given for its (folded) name *)
Lemma dget_dset d k g k0 : dget k0 (dset d k g) = if str_eqb k0 k then Some g else dget k0 d.
Proof.
  induction d as [|[k' g'] t IH]; cbn [dset dget].
  - destruct (str_eqb k0 k); reflexivity.
  - destruct (str_eqb k k') eqn:E; cbn [dget].
    + apply str_eqb_eq in E. subst k'. destruct (str_eqb k0 k); reflexivity.
    + rewrite IH. destruct (str_eqb k0 k') eqn:E2; [|reflexivity].
      apply str_eqb_eq in E2. subst k'. destruct (str_eqb k0 k) eqn:E3; [|reflexivity].
      apply str_eqb_eq in E3. subst k0. rewrite str_eqb_refl in E. discriminate.
Qed.

Theorem ctor_last_wins entries e k :
  dget k (ctor_dict (entries ++ [e])) = if str_eqb k (lower (fst e)) then Some (snd e) else dget k (ctor_dict entries).
Proof. unfold ctor_dict. rewrite fold_left_app. cbn [fold_left]. apply dget_dset. Qed.
