(* C08, through the whole pipeline, for inputs WITH instances on both sides: whenever the evaluation ends with zero true positives --
   nothing was matched, or no matched pair passes the decision threshold -- the result is exactly what the handler prescribes for the
   scenario of the two instance counts: tp = 0, fp / fn = the instance counts, every list empty, sq = the handler's entry, std = the
   handler's empty-list value. *)
From Pan Require Import Base.Common Base.Sx Base.Rnd64 Model.MetricTable Model.Metrics Model.EdgeCase Model.Result Model.ZeroCase
  Model.Matcher Model.Merge Model.Relabel Model.Pipeline Proofs.ListFacts Proofs.ResultFacts Proofs.PipelineFacts Proofs.C01EndToEnd.
From Coq Require Import Lia.
Open Scope Z_scope.

Lemma dedup_in_iff m ems : existsb (metric_eqb m) (dedup_metrics ems) = true <-> In m ems.
Proof.
  unfold dedup_metrics. rewrite existsb_exists. split.
  - intros (k & Hk & E). apply metric_eqb_eq in E. subst k. apply filter_In in Hk as [_ Hk]. apply existsb_exists in Hk as (j & Hj & E).
    apply metric_eqb_eq in E. now subst.
  - intros H. exists m. split; [|now apply metric_eqb_eq]. apply filter_In. split; [destruct m; cbn; tauto|].
    apply existsb_exists. exists m. split; [exact H|now apply metric_eqb_eq].
Qed.

Theorem eval_phase_zero_tp x c a r :
  (forall m, In m (c_ems c) -> exists mh, lookup_m m (h_table (c_handler c)) = Some mh) ->
  eval_phase x c a = Ok r -> o_tp r = 0 ->
  exists s, classify (n_pred_inst a) (n_ref_inst a) = Some s /\
    o_fp r = n_pred_inst a /\ o_fn r = n_ref_inst a /\
    (forall mr, In mr (o_metrics r) -> exists mh, lookup_m (m_metric mr) (h_table (c_handler c)) = Some mh /\
        m_sq mr = ecr_value (entry mh s) /\ m_var mr = ecr_value (h_std (c_handler c)) /\ m_all mr = []) /\
    (forall m, In m (c_ems c) -> exists mr, In mr (o_metrics r) /\ m_metric mr = m).
Proof.
  intros Hdef Hp Htp.
  assert (Hnp : 0 <= n_pred_inst a) by (unfold n_pred_inst; lia). assert (Hnr : 0 <= n_ref_inst a) by (unfold n_ref_inst; lia).
  (* in both branches the record handed to panoptica_result has tp = 0 and empty lists over the evaluated metrics *)
  assert (Hrec : exists lists, panoptica_result {| r_np := n_pred_inst a; r_nr := n_ref_inst a; r_tp := 0; r_lists := lists;
                                                   r_handler := c_handler c |} = Ok r
                 /\ handler_defines (c_handler c) lists /\ lists_empty lists
                 /\ (forall m, In m (c_ems c) -> lookup_m m lists <> None)).
  { unfold eval_phase in Hp. destruct (zero_case (n_pred_inst a) (n_ref_inst a)) as [[nr np]|] eqn:Ez.
    - assert (E : nr = n_ref_inst a /\ np = n_pred_inst a).
      { unfold zero_case in Ez. destruct ((n_pred_inst a =? 0) || (n_ref_inst a =? 0)); [injection Ez as <- <-; split; reflexivity|discriminate]. }
      destruct E as [-> ->]. exists (map (fun m => (m, [])) (dedup_metrics (c_ems c))). split; [exact Hp|]. split; [|split].
      + intros m vals Hl. rewrite (lookup_m_map_key (fun _ => @nil Q)) in Hl. destruct (existsb _ _) eqn:E; [|discriminate].
        apply Hdef. now apply dedup_in_iff.
      + intros m vals Hl. rewrite (lookup_m_map_key (fun _ => @nil Q)) in Hl. destruct (existsb _ _); [now injection Hl as <-|discriminate].
      + intros m Hm. rewrite (lookup_m_map_key (fun _ => @nil Q)). rewrite (proj2 (dedup_in_iff m (c_ems c)) Hm). discriminate.
    - destruct (evaluate_matched x (c_ems c) (c_dm c) (c_dthr c) a) as [[tp lists]|] eqn:Ee; [|discriminate].
      destruct (panoptica_result_fields _ _ Hp) as (_ & _ & E3 & _). cbn [r_tp] in E3. rewrite Htp in E3. subst tp.
      exists lists. split; [exact Hp|].
      (* lists = one entry per evaluated metric, over the kept dictionaries, of which there are none *)
      unfold evaluate_matched in Ee. destruct (negb _) in Ee; [discriminate|].
      destruct (all_dicts x a (matched_labels a) (c_ems c)) as [ds|] in Ee; [|discriminate].
      injection Ee as Hlen <-.
      assert (Hk : filter (fun d => passes_decision (c_dm c) (c_dthr c) (fun m => lookup_mq m d)) ds = []).
      { destruct (filter _ ds) as [|d0 t]; [reflexivity|]. cbn [length] in Hlen. lia. }
      rewrite Hk. cbn [map]. split; [|split].
      + intros m vals Hl. rewrite (lookup_m_map_key (fun _ => @nil Q)) in Hl. destruct (existsb _ _) eqn:E; [|discriminate].
        apply Hdef. now apply dedup_in_iff.
      + intros m vals Hl. rewrite (lookup_m_map_key (fun _ => @nil Q)) in Hl. destruct (existsb _ _); [now injection Hl as <-|discriminate].
      + intros m Hm. rewrite (lookup_m_map_key (fun _ => @nil Q)). rewrite (proj2 (dedup_in_iff m (c_ems c)) Hm). discriminate. }
  destruct Hrec as (lists & Hres & Hd & He & Hin).
  destruct (zero_tp_result (c_handler c) (n_pred_inst a) (n_ref_inst a) lists Hnp Hnr Hd He) as (s & r' & Hs & Hres' & H1 & H2 & H3 & H4 & H5).
  rewrite Hres in Hres'. injection Hres' as <-. exists s. split; [exact Hs|]. split; [exact H2|]. split; [exact H3|]. split; [exact H4|].
  intros m Hm. apply H5, Hin, Hm.
Qed.

(* the whole pipeline: matched input directly, unmatched input after the matching phase (a' = the relabelled arrays the matcher
   hands on; their instance counts are those of the input up to the merging of predictions assigned to one reference) *)
Theorem pipeline_zero_tp x c a r :
  (forall m, In m (c_ems c) -> exists mh, lookup_m m (h_table (c_handler c)) = Some mh) ->
  pipeline x c a = Ok r -> o_tp r = 0 ->
  exists a', (c_matcher c = 0 /\ a' = a \/ zero_case (n_pred_inst a) (n_ref_inst a) <> None /\ a' = a
              \/ c_matcher c <> 0 /\ match_phase x c a = Ok a') /\
    exists s, classify (n_pred_inst a') (n_ref_inst a') = Some s /\
      o_fp r = n_pred_inst a' /\ o_fn r = n_ref_inst a' /\
      (forall mr, In mr (o_metrics r) -> exists mh, lookup_m (m_metric mr) (h_table (c_handler c)) = Some mh /\
          m_sq mr = ecr_value (entry mh s) /\ m_var mr = ecr_value (h_std (c_handler c)) /\ m_all mr = []) /\
      (forall m, In m (c_ems c) -> exists mr, In mr (o_metrics r) /\ m_metric mr = m).
Proof.
  intros Hdef Hp Htp. unfold pipeline in Hp. destruct (c_matcher c =? 0) eqn:E0.
  - exists a. split; [left; split; [apply Z.eqb_eq, E0|reflexivity]|]. exact (eval_phase_zero_tp x c a r Hdef Hp Htp).
  - destruct (zero_case (n_pred_inst a) (n_ref_inst a)) as [[nr np]|] eqn:Ez.
    + exists a. split; [right; left; split; [discriminate|reflexivity]|].
      apply (eval_phase_zero_tp x c a r Hdef); [|exact Htp]. unfold eval_phase. rewrite Ez. exact Hp.
    + destruct (match_phase x c a) as [a'|] eqn:Em; [|discriminate].
      exists a'. split; [right; right; split; [apply Z.eqb_neq, E0|reflexivity]|].
      exact (eval_phase_zero_tp x c a' r Hdef Hp Htp).
Qed.
