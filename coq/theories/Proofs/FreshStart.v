(* C04 / C02: where the fresh labels of unmatched predictions may start.  map_instance_labels starts them at
   max(reference labels) + 1.  Any start at or above the largest reference label is safe; the NUMBER of reference
   labels is not (reference labels need not be 1..n: label groups, atlas ids, a missed class leave gaps). *)
From Pan Require Import Base.Common Model.Metrics Model.Relabel Proofs.ListFacts Proofs.RelabelFacts Proofs.C04Proofs.
Open Scope Z_scope.

Lemma fresh_from_any_start M ps s p : In p ps -> has_key p M = false ->
  s + 1 <= new_label (full_map M ps s) p.
Proof.
  intros Hp Hk. unfold new_label, full_map. rewrite lookupZ_app.
  pose proof Hk as Hk'. unfold has_key in Hk'. destruct (lookupZ p M) eqn:E; [discriminate|].
  destruct (assign_fresh_complete (s + 1) ps M p Hp Hk) as [y Hy].
  destruct (lookupZ p (assign_fresh (s + 1) ps M)) as [y'|] eqn:E2.
  - apply lookupZ_In in E2. apply assign_fresh_spec in E2. lia.
  - apply lookupZ_None in E2. exfalso. apply E2. apply in_map_iff. exists (p, y). split; [reflexivity|exact Hy].
Qed.

(* every start s that is at least every reference label gives labels that are no reference label *)
Lemma fresh_start_safe M a s v r :
  (forall r', In r' (ref_labels_of a) -> r' <= s) ->
  In v a -> snd v <> 0 -> has_key (snd v) M = false -> In r (ref_labels_of a) ->
  new_label (full_map M (pred_labels_of a) s) (snd v) <> r.
Proof.
  intros Hs Hv Nv Hk Hr.
  assert (Hp : In (snd v) (pred_labels_of a)) by (apply pred_labels_spec; split; eauto).
  pose proof (fresh_from_any_start M (pred_labels_of a) s (snd v) Hp Hk). pose proof (Hs r Hr). lia.
Qed.

(* the count of reference labels is such a start exactly when no label exceeds it (labels 1..n) ... *)
Lemma fresh_start_count_safe_when_consecutive M a v r :
  (forall r', In r' (ref_labels_of a) -> r' <= Z.of_nat (length (ref_labels_of a))) ->
  In v a -> snd v <> 0 -> has_key (snd v) M = false -> In r (ref_labels_of a) ->
  new_label (full_map M (pred_labels_of a) (Z.of_nat (length (ref_labels_of a)))) (snd v) <> r.
Proof. apply fresh_start_safe. Qed.

(* ... and is refuted on reference labels {1, 3}: the unmatched prediction 9 receives 3, a reference label
   (and the label of the matched prediction 3: two predictions are merged, one reference gains a false partner) *)
Lemma fresh_start_count_refuted :
  let a : arr2 := [(1, 1); (3, 3); (0, 9)] in let M : lmap := [(1, 1); (3, 3)] in
  new_label (full_map M (pred_labels_of a) (Z.of_nat (length (ref_labels_of a)))) 9 = 3 /\
  In 3 (ref_labels_of a) /\
  new_label (full_map M (pred_labels_of a) (maxZ (ref_labels_of a))) 9 = 4.
Proof. vm_compute. repeat split; auto. Qed.

(* ---- how wide the relabelled prediction is: every new label is at most  max(reference labels) + number of prediction labels,
   and an unmatched prediction really exceeds max(reference labels): an array type that holds the reference labels need not
   hold the relabelled prediction (the code widens; casting back to the reference's type is refuted below) *)
Lemma new_label_bound M a v : wf_matching M a -> nonneg_arr a -> In v a ->
  0 <= new_label (full_map M (pred_labels_of a) (maxZ (ref_labels_of a))) (snd v)
    <= maxZ (ref_labels_of a) + Z.of_nat (length (pred_labels_of a)).
Proof.
  intros HM Hn Hv. pose proof (maxZ_nonneg (ref_labels_of a)) as Hm.
  destruct (Z.eq_dec (snd v) 0) as [E0|N0].
  - assert (H0 : new_label (full_map M (pred_labels_of a) (maxZ (ref_labels_of a))) (snd v) = 0).
    { apply (relabel_foreground M a Hn HM v Hv). exact E0. }
    rewrite H0. lia.
  - assert (Hp : In (snd v) (pred_labels_of a)) by (apply pred_labels_spec; split; eauto).
    destruct (has_key (snd v) M) eqn:Hk.
    + unfold has_key in Hk. destruct (lookupZ (snd v) M) as [r|] eqn:E; [|discriminate].
      pose proof (lookupZ_In _ _ _ E) as Hin.
      rewrite (relabel_matched M a HM _ _ Hin).
      destruct HM as [_ HM]. destruct (HM _ _ Hin) as [_ Hr].
      pose proof (maxZ_ge r _ Hr). apply ref_labels_spec in Hr. destruct Hr as [Hr0 (w & Hw & Ew)].
      assert (0 <= r) by (subst r; destruct (Hn w Hw); assumption). lia.
    + pose proof (fresh_from_any_start M _ (maxZ (ref_labels_of a)) _ Hp Hk) as Hlo.
      unfold new_label, full_map in *. rewrite lookupZ_app in *.
      unfold has_key in Hk. destruct (lookupZ (snd v) M) eqn:E; [discriminate|].
      destruct (lookupZ (snd v) (assign_fresh (maxZ (ref_labels_of a) + 1) (pred_labels_of a) M)) as [y|] eqn:E2.
      * apply lookupZ_In in E2. apply assign_fresh_lt in E2. lia.
      * exfalso. destruct (assign_fresh_complete (maxZ (ref_labels_of a) + 1) (pred_labels_of a) M (snd v) Hp) as [y Hy].
        { unfold has_key. now rewrite E. }
        apply lookupZ_None in E2. apply E2. apply in_map_iff. exists (snd v, y). split; [reflexivity|exact Hy].
Qed.

(* casting the relabelled prediction back to the reference's 8-bit type: reference label 255, one unmatched prediction;
   its fresh label 256 becomes 0 -- a foreground voxel turns into background, an instance disappears *)
Lemma narrowing_cast_refuted :
  let a : arr2 := [(255, 7); (0, 9)] in let M : lmap := [(7, 255)] in
  map snd (map_instance_labels M a) = [255; 256] /\
  map (fun x => x mod 2 ^ 8) (map snd (map_instance_labels M a)) = [255; 0].
Proof. vm_compute. split; reflexivity. Qed.
