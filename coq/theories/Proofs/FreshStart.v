(* C04 / C02: where the fresh labels of unmatched predictions may start.  map_instance_labels starts them at
   max(reference labels) + 1.  Any start at or above the largest reference label is safe; the NUMBER of reference
   labels is not (reference labels need not be 1..n: label groups, atlas ids, a missed class leave gaps). *)
From Pan Require Import Base.Common Model.Metrics Model.Relabel Proofs.ListFacts Proofs.RelabelFacts Proofs.C04Proofs.
Open Scope Z_scope.

Lemma fresh_from_any_start M ps s p : In p ps -> has_key p M = false ->
  s + 1 <= new_label (full_map M ps s) p.
Proof.
  intros Hp Hk. unfold new_label, full_map. rewrite lookupZ_app.
  pose proof Hk as Hk'. unfold has_key in Hk'. destruct (lookupZ p M) eqn:E; [discriminate|].
  destruct (assign_fresh_complete (s + 1) ps M p Hp Hk) as [y Hy].
  destruct (lookupZ p (assign_fresh (s + 1) ps M)) as [y'|] eqn:E2.
  - apply lookupZ_In in E2. apply assign_fresh_spec in E2. lia.
  - apply lookupZ_None in E2. exfalso. apply E2. apply in_map_iff. exists (p, y). split; [reflexivity|exact Hy].
Qed.

(* every start s that is at least every reference label gives labels that are no reference label *)
Lemma fresh_start_safe M a s v r :
  (forall r', In r' (ref_labels_of a) -> r' <= s) ->
  In v a -> snd v <> 0 -> has_key (snd v) M = false -> In r (ref_labels_of a) ->
  new_label (full_map M (pred_labels_of a) s) (snd v) <> r.
Proof.
  intros Hs Hv Nv Hk Hr.
  assert (Hp : In (snd v) (pred_labels_of a)) by (apply pred_labels_spec; split; eauto).
  pose proof (fresh_from_any_start M (pred_labels_of a) s (snd v) Hp Hk). pose proof (Hs r Hr). lia.
Qed.

(* the count of reference labels is such a start exactly when no label exceeds it (labels 1..n) ... *)
Lemma fresh_start_count_safe_when_consecutive M a v r :
  (forall r', In r' (ref_labels_of a) -> r' <= Z.of_nat (length (ref_labels_of a))) ->
  In v a -> snd v <> 0 -> has_key (snd v) M = false -> In r (ref_labels_of a) ->
  new_label (full_map M (pred_labels_of a) (Z.of_nat (length (ref_labels_of a)))) (snd v) <> r.
Proof. apply fresh_start_safe. Qed.

(* ... and is refuted on reference labels {1, 3}: the unmatched prediction 9 receives 3, a reference label
   (and the label of the matched prediction 3: two predictions are merged, one reference gains a false partner) *)
Lemma fresh_start_count_refuted :
  let a : arr2 := [(1, 1); (3, 3); (0, 9)] in let M : lmap := [(1, 1); (3, 3)] in
  new_label (full_map M (pred_labels_of a) (Z.of_nat (length (ref_labels_of a)))) 9 = 3 /\
  In 3 (ref_labels_of a) /\
  new_label (full_map M (pred_labels_of a) (maxZ (ref_labels_of a))) 9 = 4.
Proof. vm_compute. repeat split; auto. Qed.
