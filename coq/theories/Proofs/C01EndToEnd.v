(* C01 capstone: the pipeline on unmatched instance input with the threshold matcher and overlap metrics,
   end to end, in terms of the documented definitions. *)
From Pan Require Import Base.Common Base.Sx Base.Rnd64 Model.MetricTable Model.Metrics Model.EdgeCase Model.Result Model.ZeroCase
  Model.Matcher Model.Merge Model.Relabel Model.Pipeline Proofs.ListFacts Proofs.ResultFacts Proofs.Matching Proofs.MatcherQ
  Proofs.C04Proofs Proofs.C01Proofs Proofs.PipelineFacts.
From Coq Require Import ZifyBool.
Open Scope Z_scope.

Definition overlap_only (ems : list metric) : Prop := forall m, In m ems -> m = IOU \/ m = DSC.
Definition ovalue (a : arr2) (m : metric) (l : Z) : Q :=
  match m with DSC => dice (Some (l, [l])) a | _ => iou (Some (l, [l])) a end.

Lemma instance_dict_overlap x a l ems : overlap_only ems ->
  instance_dict x a l ems = Ok (map (fun m => (m, ovalue a m l)) ems).
Proof.
  induction ems as [|m ems IH]; intros Ho; cbn [instance_dict map]; [reflexivity|].
  rewrite IH by (intros m' Hm'; apply Ho; now right).
  destruct (Ho m (or_introl eq_refl)) as [-> | ->]; reflexivity.
Qed.
Lemma all_dicts_overlap x a ls ems : overlap_only ems ->
  all_dicts x a ls ems = Ok (map (fun l => map (fun m => (m, ovalue a m l)) ems) ls).
Proof.
  intros Ho. induction ls as [|l ls IH]; cbn [all_dicts map]; [reflexivity|]. now rewrite (instance_dict_overlap x a l ems Ho), IH.
Qed.

Lemma lookup_mq_map (f : metric -> Q) m ems : existsb (metric_eqb m) ems = true ->
  lookup_mq m (map (fun k => (k, f k)) ems) = f m.
Proof.
  induction ems as [|k ems IH]; cbn [existsb map lookup_mq]; [discriminate|]. intros H.
  destruct (metric_eqb k m) eqn:E; [apply metric_eqb_eq in E; now subst|].
  assert (E' : metric_eqb m k = false).
  { destruct (metric_eqb m k) eqn:E2; [|reflexivity]. apply metric_eqb_eq in E2. subst.
    assert (metric_eqb k k = true) by (now apply metric_eqb_eq). congruence. }
  rewrite E' in H. cbn in H. now apply IH.
Qed.

Lemma filter_map_comm {A B} (g : A -> B) (p : B -> bool) l : filter p (map g l) = map g (filter (fun x => p (g x)) l).
Proof. induction l as [|x l IH]; cbn; [reflexivity|]. destruct (p (g x)); cbn; now rewrite IH. Qed.

Lemma dedup_metrics_in m ems : In m (dedup_metrics ems) -> existsb (metric_eqb m) ems = true.
Proof. unfold dedup_metrics. intros H. apply filter_In in H. tauto. Qed.

(* what evaluate_matched returns when only overlap metrics are evaluated *)
Lemma evaluate_matched_overlap x ems dmo thr a tp lists : overlap_only ems ->
  evaluate_matched x ems dmo thr a = Ok (tp, lists) ->
  let passes := fun l => passes_decision dmo thr (fun m => ovalue a m l) in
  let TP := filter passes (matched_labels a) in
  tp = Z.of_nat (length TP) /\
  forall m vals, lookup_m m lists = Some vals -> vals = map (ovalue a m) TP.
Proof.
  intros Ho. unfold evaluate_matched.
  destruct (match dmo with None => true | Some dm => existsb (metric_eqb dm) ems && match thr with Some _ => true | None => false end end) eqn:Ecfg;
    cbn [negb]; [|discriminate].
  rewrite (all_dicts_overlap x a _ ems Ho). intros [= <- <-]. cbn zeta.
  set (dict := fun l => map (fun m => (m, ovalue a m l)) ems).
  assert (Hp : forall l, passes_decision dmo thr (fun m => lookup_mq m (dict l)) = passes_decision dmo thr (fun m => ovalue a m l)).
  { intros l. unfold passes_decision. destruct dmo as [dm|]; [|reflexivity]. destruct thr as [t|]; [|reflexivity].
    apply andb_true_iff in Ecfg as [Hin _]. unfold dict. now rewrite (lookup_mq_map (fun m => ovalue a m l) dm ems Hin). }
  rewrite (filter_map_comm dict). rewrite (filter_ext _ _ Hp). split; [now rewrite map_length|].
  intros m vals Hm. rewrite (lookup_m_map_key (fun m => map (lookup_mq m) _)) in Hm.
  destruct (existsb (metric_eqb m) (dedup_metrics ems)) eqn:Ed; [|discriminate]. injection Hm as <-.
  rewrite map_map. apply map_ext. intros l. unfold dict. apply (lookup_mq_map (fun k => ovalue a k l)).
  apply dedup_metrics_in. apply existsb_exists in Ed as (k & Hk & E). apply metric_eqb_eq in E. now subst.
Qed.

(* ------------------------------------------------------------------------------------------------ *)
Theorem end_to_end_overlap x c a r :
  nonneg_arr a -> (c_matcher c = 1 \/ c_matcher c = 2) -> overlap_only (c_ems c) ->
  zero_case (n_pred_inst a) (n_ref_inst a) = None -> pipeline x c a = Ok r ->
  let decr := decreasing (c_mmetric c) in let m2o := c_matcher c =? 2 in
  let cs := cand_list x (c_mmetric c) a in
  exists M,
    (* the matching is a valid best-first matching of the overlapping pairs ... *)
    P1 Q m2o M /\ P2 Q (fun s => beats decr s (c_mthr c)) cs M /\
    P3 Q (fun s => beats decr s (c_mthr c)) m2o cs M /\
    P4 Q (better_eq decr) (fun s => beats decr s (c_mthr c)) m2o cs M /\
    let L := lmap_of M in let a' := map_instance_labels L a in
    (* ... the evaluated instances are exactly the matched references ... *)
    (forall l, In l (matched_labels a') <-> exists p, In (p, l) L) /\
    (* ... scored by the set definitions on (reference l, union of the predictions assigned to l) ... *)
    let score := fun (m : metric) (l : Z) =>
       match m with DSC => dice (Some (l, preds_of l L)) a | _ => iou (Some (l, preds_of l L)) a end in
    let TP := filter (fun l => passes_decision (c_dm c) (c_dthr c) (fun m => score m l)) (matched_labels a') in
    (* ... and, unless relabelling emptied a side, tp is the number of those that pass the decision threshold,
       every reported list holds exactly their scores, fp/fn count the rest *)
    (zero_case (n_pred_inst a') (n_ref_inst a') = None ->
       o_tp r = Z.of_nat (length TP) /\
       (forall mr, In mr (o_metrics r) -> m_all mr = map (score (m_metric mr)) TP) /\
       o_fp r = n_pred_inst a' - o_tp r /\ o_fn r = n_ref_inst a - o_tp r).
Proof.
  intros Hnn Hk Ho Hz Hp decr m2o cs.
  destruct (match_phase_naive x c a Hk) as (M & _ & Hmp & H1 & H2 & H3 & H4 & Hwf).
  exists M. repeat (split; [assumption|]). cbn zeta.
  split; [exact (matched_labels_relabel (lmap_of M) a Hnn Hwf)|].
  intros Hz'. unfold pipeline in Hp.
  assert (E0 : (c_matcher c =? 0) = false) by (destruct Hk as [-> | ->]; reflexivity).
  rewrite E0, Hz, Hmp in Hp. unfold eval_phase in Hp. rewrite Hz' in Hp.
  destruct (evaluate_matched x (c_ems c) (c_dm c) (c_dthr c) (map_instance_labels (lmap_of M) a)) as [[tp lists]|] eqn:Ee; [|discriminate].
  destruct (evaluate_matched_overlap _ _ _ _ _ _ _ Ho Ee) as [Htp Hl].
  destruct (panoptica_result_fields _ _ Hp) as (_ & _ & E3 & E4 & E5 & _ & Hall). cbn [r_np r_nr r_tp r_lists] in *.
  (* scores on the relabelled arrays = scores against the union of the assigned predictions *)
  assert (Hs : forall m l, In l (matched_labels (map_instance_labels (lmap_of M) a)) ->
             ovalue (map_instance_labels (lmap_of M) a) m l =
             match m with DSC => dice (Some (l, preds_of l (lmap_of M))) a | _ => iou (Some (l, preds_of l (lmap_of M))) a end).
  { intros m l Hin. apply (matched_labels_relabel (lmap_of M) a Hnn Hwf) in Hin as [p Hin].
    destruct (proj2 Hwf p l Hin) as [_ Hr].
    destruct (evaluated_scores (lmap_of M) a l Hnn Hwf Hr) as (Ei & Ed & _).
    unfold ovalue. destruct m; assumption. }
  assert (Hf : filter (fun l => passes_decision (c_dm c) (c_dthr c) (fun m => ovalue (map_instance_labels (lmap_of M) a) m l))
                 (matched_labels (map_instance_labels (lmap_of M) a)) =
               filter (fun l => passes_decision (c_dm c) (c_dthr c)
                   (fun m => match m with DSC => dice (Some (l, preds_of l (lmap_of M))) a | _ => iou (Some (l, preds_of l (lmap_of M))) a end))
                 (matched_labels (map_instance_labels (lmap_of M) a))).
  { apply filter_ext_in. intros l Hin. unfold passes_decision. destruct (c_dm c) as [dm|]; [|reflexivity].
    destruct (c_dthr c); [|reflexivity]. now rewrite (Hs dm l Hin). }
  rewrite <- Hf. split; [rewrite E3; exact Htp|]. split.
  - intros mr Hin. rewrite (Hl _ _ (Hall mr Hin)). apply map_ext_in. intros l Hl'. apply Hs.
    apply filter_In in Hl'. tauto.
  - rewrite E4, E5, E3. unfold n_ref_inst. rewrite (ref_labels_relabel (lmap_of M) a). split; reflexivity.
Qed.
