(* Lemma library for Model/Stats.v: names, association lists, mapR, permutation- and Qeq-invariance of
   sum / length / mean / variance / min / max. *)
From Pan Require Import Base.Common Model.Stats.
From Coq Require Import Permutation Qfield.
Open Scope Q_scope.

(* ---------------------------------------------------------------- names *)
Lemma name_eqb_eq a b : name_eqb a b = true <-> a = b.
Proof.
  revert b; induction a as [|x a IH]; destruct b as [|y b]; cbn; try (split; congruence).
  rewrite andb_true_iff, Z.eqb_eq, IH. split; [intros [-> ->]; reflexivity | intros [= -> ->]; auto].
Qed.
Lemma name_eqb_refl a : name_eqb a a = true.
Proof. apply name_eqb_eq; reflexivity. Qed.
Lemma name_eqb_neq a b : name_eqb a b = false <-> a <> b.
Proof.
  split.
  - intros H E. apply name_eqb_eq in E. congruence.
  - intros H. destruct (name_eqb a b) eqn:E; [apply name_eqb_eq in E; contradiction|reflexivity].
Qed.
Lemma name_eqb_sym a b : name_eqb a b = name_eqb b a.
Proof.
  destruct (name_eqb a b) eqn:E.
  - apply name_eqb_eq in E; subst. symmetry; apply name_eqb_refl.
  - symmetry. apply name_eqb_neq. apply name_eqb_neq in E. congruence.
Qed.
Lemma name_eq_dec (a b : name) : {a = b} + {a <> b}.
Proof. destruct (name_eqb a b) eqn:E; [left; apply name_eqb_eq; exact E|right; apply name_eqb_neq; exact E]. Qed.
Lemma memn_In x l : memn x l = true <-> In x l.
Proof.
  unfold memn. rewrite existsb_exists. split.
  - intros [y [Hy E]]. apply name_eqb_eq in E. subst. exact Hy.
  - intros H. exists x. split; [exact H|apply name_eqb_refl].
Qed.
Lemma memn_false x l : memn x l = false <-> ~ In x l.
Proof.
  split.
  - intros H Hin. apply memn_In in Hin. congruence.
  - intros H. destruct (memn x l) eqn:E; [apply memn_In in E; contradiction|reflexivity].
Qed.

(* ---------------------------------------------------------------- association lists *)
Lemma map_fst_pair {B} (f : name -> B) L : map fst (map (fun x => (x, f x)) L) = L.
Proof. induction L as [|x L IH]; cbn; [reflexivity|rewrite IH; reflexivity]. Qed.
Lemma alookup_map {B} (f : name -> B) k L :
  alookup k (map (fun x => (x, f x)) L) = if memn k L then Some (f k) else None.
Proof.
  induction L as [|x L IH]; cbn; [reflexivity|].
  rewrite (name_eqb_sym k x). destruct (name_eqb x k) eqn:E; cbn.
  - apply name_eqb_eq in E. subst. reflexivity.
  - exact IH.
Qed.

(* ---------------------------------------------------------------- mapR *)
Lemma mapR_ok_map {A B} (f : A -> res B) (h : A -> B) l :
  (forall x, In x l -> f x = Ok (h x)) -> mapR f l = Ok (map h l).
Proof.
  induction l as [|x l IH]; intros H; cbn; [reflexivity|].
  rewrite (H x (or_introl eq_refl)), IH; [reflexivity|]. intros y Hy. apply H. right; exact Hy.
Qed.
Lemma mapR_ext_in {A B} (f f' : A -> res B) l :
  (forall x, In x l -> f x = f' x) -> mapR f l = mapR f' l.
Proof.
  induction l as [|x l IH]; intros H; cbn; [reflexivity|].
  rewrite (H x (or_introl eq_refl)), IH; [reflexivity|]. intros y Hy. apply H. right; exact Hy.
Qed.
Lemma mapR_ok_inv {A B} (f : A -> res B) l r :
  mapR f l = Ok r -> forall x, In x l -> exists y, f x = Ok y.
Proof.
  revert r; induction l as [|a l IH]; intros r H x Hx; [destruct Hx|].
  cbn in H. destruct (f a) as [y|e] eqn:Fa; [|discriminate].
  destruct (mapR f l) as [r'|e] eqn:Fl; [|discriminate].
  destruct Hx as [<-|Hx]; [exists y; exact Fa|exact (IH r' eq_refl x Hx)].
Qed.
Lemma mapR_err_uniform {A B} (f : A -> res B) c l :
  (forall x, In x l -> f x = Err c \/ exists y, f x = Ok y) ->
  (exists x, In x l /\ f x = Err c) -> mapR f l = Err c.
Proof.
  induction l as [|a l IH]; intros Hall [x [Hx Fx]]; [destruct Hx|].
  cbn. destruct (Hall a (or_introl eq_refl)) as [Ea|[y Ea]]; rewrite Ea; [reflexivity|].
  destruct Hx as [<-|Hx]; [congruence|].
  rewrite IH; [reflexivity| |exists x; split; assumption].
  intros z Hz. apply Hall. right; exact Hz.
Qed.
Lemma mapR_rel {A B} (R : B -> B -> Prop) (f f' : A -> res B) l r :
  (forall x y, In x l -> f x = Ok y -> exists y', f' x = Ok y' /\ R y y') ->
  mapR f l = Ok r -> exists r', mapR f' l = Ok r' /\ Forall2 R r r'.
Proof.
  revert r; induction l as [|a l IH]; intros r H Hm; cbn in Hm.
  - injection Hm as <-. exists []. split; [reflexivity|constructor].
  - destruct (f a) as [y|e] eqn:Fa; [|discriminate].
    destruct (mapR f l) as [r0|e] eqn:Fl; [|discriminate]. injection Hm as <-.
    destruct (H a y (or_introl eq_refl) Fa) as [y' [Fa' Ry]].
    destruct (IH r0) as [r0' [Fl' Rr]]; [intros x z Hx; apply H; right; exact Hx|reflexivity|].
    exists (y' :: r0'). cbn. rewrite Fa', Fl'. split; [reflexivity|constructor; assumption].
Qed.

(* ---------------------------------------------------------------- sums *)
Lemma qsum_cons x l : qsum (x :: l) == x + qsum l.
Proof. unfold qsum. cbn [fold_right]. apply Qred_correct. Qed.
Lemma qsum_nil : qsum [] = 0.
Proof. reflexivity. Qed.
Lemma qsum_perm l l' : Permutation l l' -> qsum l == qsum l'.
Proof.
  induction 1.
  - reflexivity.
  - rewrite !qsum_cons, IHPermutation. reflexivity.
  - rewrite !qsum_cons. ring.
  - etransitivity; eassumption.
Qed.
Lemma qsum_map_ext (f f' : Q -> Q) l : (forall x, f x == f' x) -> qsum (map f l) == qsum (map f' l).
Proof. intros E. induction l as [|z l IH]; cbn [map]; [reflexivity|]. rewrite !qsum_cons, IH, (E z). reflexivity. Qed.
Lemma qsum_map_perm_ext (f f' : Q -> Q) l l' :
  Permutation l l' -> (forall x, f x == f' x) -> qsum (map f l) == qsum (map f' l').
Proof.
  intros P E. rewrite (qsum_perm _ _ (Permutation_map f P)). apply qsum_map_ext. exact E.
Qed.
Lemma qsum_Forall2 l l' : Forall2 Qeq l l' -> qsum l == qsum l'.
Proof. induction 1; [reflexivity|]. rewrite !qsum_cons, H, IHForall2. reflexivity. Qed.
Lemma qsum_map_Forall2 (f f' : Q -> Q) l l' :
  Forall2 Qeq l l' -> (forall x y, x == y -> f x == f' y) -> qsum (map f l) == qsum (map f' l').
Proof. intros F E. induction F; cbn [map]; [reflexivity|]. rewrite !qsum_cons, (E x y H), IHF. reflexivity. Qed.

Lemma Forall2_len {A B} (R : A -> B -> Prop) l l' : Forall2 R l l' -> length l = length l'.
Proof. induction 1; cbn; congruence. Qed.
Lemma qlen_eq l l' : length l = length l' -> qlen l = qlen l'.
Proof. unfold qlen. intros ->. reflexivity. Qed.

Lemma sqdev_comp a a' x x' : a == a' -> x == x' -> sqdev a x == sqdev a' x'.
Proof. unfold sqdev. intros -> ->. reflexivity. Qed.
Lemma sqdev_eq a x : sqdev a x == (x - a) * (x - a).
Proof. apply Qred_correct. Qed.
Lemma mean_eq l : mean l == qsum l / qlen l.
Proof. apply Qred_correct. Qed.
Lemma var_ddof_eq d l : var_ddof d l == qsum (map (sqdev (mean l)) l) / inject_Z (Z.of_nat (length l) - d).
Proof. apply Qred_correct. Qed.

(* the relation under which the statistics are invariant: same multiset, or elementwise Qeq *)
Lemma mean_perm l l' : Permutation l l' -> mean l == mean l'.
Proof.
  intros P. rewrite !mean_eq, (qsum_perm _ _ P), (qlen_eq _ _ (Permutation_length P)). reflexivity.
Qed.
Lemma var_perm d l l' : Permutation l l' -> var_ddof d l == var_ddof d l'.
Proof.
  intros P. rewrite !var_ddof_eq. rewrite (Permutation_length P).
  rewrite (qsum_map_perm_ext (sqdev (mean l)) (sqdev (mean l')) l l' P); [reflexivity|].
  intros x. apply sqdev_comp; [apply mean_perm; exact P|reflexivity].
Qed.
Lemma mean_Forall2 l l' : Forall2 Qeq l l' -> mean l == mean l'.
Proof.
  intros F. rewrite !mean_eq, (qsum_Forall2 _ _ F), (qlen_eq _ _ (Forall2_len _ _ _ F)). reflexivity.
Qed.
Lemma var_Forall2 d l l' : Forall2 Qeq l l' -> var_ddof d l == var_ddof d l'.
Proof.
  intros F. rewrite !var_ddof_eq. rewrite (Forall2_len _ _ _ F).
  rewrite (qsum_map_Forall2 (sqdev (mean l)) (sqdev (mean l')) l l' F); [reflexivity|].
  intros x y E. apply sqdev_comp; [apply mean_Forall2; exact F|exact E].
Qed.

(* ---------------------------------------------------------------- min / max *)
Lemma qmin_l_spec l : forall cur,
  In (qmin_l cur l) (cur :: l) /\ forall x, In x (cur :: l) -> qmin_l cur l <= x.
Proof.
  induction l as [|y t IH]; intros cur; cbn [qmin_l].
  - split; [left; reflexivity|]. intros x [<-|[]]. apply Qle_refl.
  - destruct (Qle_bool cur y) eqn:E.
    + destruct (IH cur) as [Hin Hle]. split.
      * destruct Hin as [H|H]; [left; exact H|right; right; exact H].
      * intros x [<-|[<-|Hx]].
        -- apply Hle. left; reflexivity.
        -- apply Qle_trans with cur; [apply Hle; left; reflexivity|apply Qle_bool_iff; exact E].
        -- apply Hle. right; exact Hx.
    + destruct (IH y) as [Hin Hle].
      assert (Hyc : y <= cur).
      { apply Qlt_le_weak. apply Qnot_le_lt. intros H. apply Qle_bool_iff in H. congruence. }
      split.
      * right. exact Hin.
      * intros x [<-|[<-|Hx]].
        -- apply Qle_trans with y; [apply Hle; left; reflexivity|exact Hyc].
        -- apply Hle. left; reflexivity.
        -- apply Hle. right; exact Hx.
Qed.
Lemma qmax_l_spec l : forall cur,
  In (qmax_l cur l) (cur :: l) /\ forall x, In x (cur :: l) -> x <= qmax_l cur l.
Proof.
  induction l as [|y t IH]; intros cur; cbn [qmax_l].
  - split; [left; reflexivity|]. intros x [<-|[]]. apply Qle_refl.
  - destruct (Qle_bool y cur) eqn:E.
    + destruct (IH cur) as [Hin Hle]. split.
      * destruct Hin as [H|H]; [left; exact H|right; right; exact H].
      * intros x [<-|[<-|Hx]].
        -- apply Hle. left; reflexivity.
        -- apply Qle_trans with cur; [apply Qle_bool_iff; exact E|apply Hle; left; reflexivity].
        -- apply Hle. right; exact Hx.
    + destruct (IH y) as [Hin Hle].
      assert (Hyc : cur <= y).
      { apply Qlt_le_weak. apply Qnot_le_lt. intros H. apply Qle_bool_iff in H. congruence. }
      split.
      * right. exact Hin.
      * intros x [<-|[<-|Hx]].
        -- apply Qle_trans with y; [exact Hyc|apply Hle; left; reflexivity].
        -- apply Hle. left; reflexivity.
        -- apply Hle. right; exact Hx.
Qed.

(* l is contained in l' up to Qeq *)
Definition qsub (l l' : list Q) : Prop := forall x, In x l -> exists y, In y l' /\ x == y.
Lemma qsub_perm l l' : Permutation l l' -> qsub l l'.
Proof. intros P x Hx. exists x. split; [eapply Permutation_in; eassumption|reflexivity]. Qed.
Lemma qsub_Forall2 l l' : Forall2 Qeq l l' -> qsub l l'.
Proof.
  induction 1; intros z Hz; [destruct Hz|].
  destruct Hz as [<-|Hz]; [exists y; split; [left; reflexivity|exact H]|].
  destruct (IHForall2 z Hz) as [w [Hw E]]. exists w. split; [right; exact Hw|exact E].
Qed.
Lemma qsub_Forall2_rev l l' : Forall2 Qeq l l' -> qsub l' l.
Proof.
  induction 1; intros z Hz; [destruct Hz|].
  destruct Hz as [<-|Hz]; [exists x; split; [left; reflexivity|symmetry; exact H]|].
  destruct (IHForall2 z Hz) as [w [Hw E]]. exists w. split; [right; exact Hw|exact E].
Qed.
Lemma min_unique l l' m m' :
  In m l -> (forall x, In x l -> m <= x) -> In m' l' -> (forall x, In x l' -> m' <= x) ->
  qsub l l' -> qsub l' l -> m == m'.
Proof.
  intros Hm Hl Hm' Hl' S S'. apply Qle_antisym.
  - destruct (S' m' Hm') as [y [Hy E]]. rewrite E. apply Hl. exact Hy.
  - destruct (S m Hm) as [y [Hy E]]. rewrite E. apply Hl'. exact Hy.
Qed.
Lemma max_unique l l' m m' :
  In m l -> (forall x, In x l -> x <= m) -> In m' l' -> (forall x, In x l' -> x <= m') ->
  qsub l l' -> qsub l' l -> m == m'.
Proof.
  intros Hm Hl Hm' Hl' S S'. apply Qle_antisym.
  - destruct (S m Hm) as [y [Hy E]]. rewrite E. apply Hl'. exact Hy.
  - destruct (S' m' Hm') as [y [Hy E]]. rewrite E. apply Hl. exact Hy.
Qed.

(* ---------------------------------------------------------------- ValueSummary *)
Definition vs_equiv (v v' : vsum) : Prop :=
  vs_avg v == vs_avg v' /\ vs_var v == vs_var v' /\ vs_min v == vs_min v' /\ vs_max v == vs_max v'.

Lemma value_summary_ok l : l <> [] -> exists v, value_summary l = Ok v.
Proof. destruct l; [congruence|]. intros _. eexists. reflexivity. Qed.
Lemma value_summary_empty l : value_summary l = Err E_VALUE <-> l = [].
Proof. destruct l; cbn; split; congruence. Qed.
Lemma value_summary_fields l v : value_summary l = Ok v ->
  vs_values v = l /\ vs_avg v = mean l /\ vs_var v = variance l /\
  (In (vs_min v) l /\ forall x, In x l -> vs_min v <= x) /\
  (In (vs_max v) l /\ forall x, In x l -> x <= vs_max v).
Proof.
  destruct l as [|x t]; cbn; [discriminate|]. intros [= <-]. cbn.
  repeat split; try reflexivity; try apply qmin_l_spec; try apply qmax_l_spec.
Qed.

Lemma value_summary_invariant l l' v :
  value_summary l = Ok v -> length l = length l' -> mean l == mean l' -> variance l == variance l' ->
  qsub l l' -> qsub l' l -> exists v', value_summary l' = Ok v' /\ vs_equiv v v'.
Proof.
  intros Hv Hlen Hmean Hvar S S'.
  destruct (value_summary_ok l') as [v' Hv'].
  { destruct l; [discriminate|]. destruct l'; [discriminate|congruence]. }
  exists v'. split; [exact Hv'|].
  destruct (value_summary_fields _ _ Hv) as (_ & A & V & (Mi & Ml) & (Xi & Xl)).
  destruct (value_summary_fields _ _ Hv') as (_ & A' & V' & (Mi' & Ml') & (Xi' & Xl')).
  unfold vs_equiv. rewrite A, A', V, V'. repeat split; try assumption.
  - eapply min_unique; eassumption.
  - eapply max_unique; eassumption.
Qed.
Lemma value_summary_perm l l' v : value_summary l = Ok v -> Permutation l l' ->
  exists v', value_summary l' = Ok v' /\ vs_equiv v v' /\ Permutation (vs_values v) (vs_values v').
Proof.
  intros Hv P.
  destruct (value_summary_invariant l l' v Hv (Permutation_length P) (mean_perm _ _ P) (var_perm 0 _ _ P)
              (qsub_perm _ _ P) (qsub_perm _ _ (Permutation_sym P))) as [v' [Hv' E]].
  exists v'. repeat split; try assumption; try apply E.
  destruct (value_summary_fields _ _ Hv) as (-> & _). destruct (value_summary_fields _ _ Hv') as (-> & _).
  exact P.
Qed.
Lemma value_summary_Forall2 l l' v : value_summary l = Ok v -> Forall2 Qeq l l' ->
  exists v', value_summary l' = Ok v' /\ vs_equiv v v'.
Proof.
  intros Hv F.
  exact (value_summary_invariant l l' v Hv (Forall2_len _ _ _ F) (mean_Forall2 _ _ F) (var_Forall2 0 _ _ F)
           (qsub_Forall2 _ _ F) (qsub_Forall2_rev _ _ F)).
Qed.

(* mean and variance are what their names say *)
Lemma qlen_pos x t : 0 < qlen (x :: t).
Proof. unfold qlen. change 0 with (inject_Z 0). rewrite <- Zlt_Qlt. cbn [length]. lia. Qed.
Lemma mean_times_len l : l <> [] -> mean l * qlen l == qsum l.
Proof.
  destruct l as [|x t]; [congruence|]. intros _. rewrite mean_eq. field.
  intros H. pose proof (qlen_pos x t) as P. rewrite H in P. apply Qlt_irrefl in P. exact P.
Qed.
Lemma qlen_cons x t : qlen (x :: t) == qlen t + 1.
Proof. unfold qlen. cbn [length]. rewrite Nat2Z.inj_succ, <- Z.add_1_r, inject_Z_plus. reflexivity. Qed.
Lemma qsum_sqdev a l :
  qsum (map (sqdev a) l) == qsum (map (fun x => x * x) l) - 2 * a * qsum l + qlen l * a * a.
Proof.
  induction l as [|x t IH].
  - cbn. unfold qlen. cbn. ring.
  - cbn [map]. rewrite !qsum_cons, IH, qlen_cons, sqdev_eq. ring.
Qed.
Lemma variance_mean_of_squares l : l <> [] ->
  variance l == mean (map (fun x => x * x) l) - mean l * mean l.
Proof.
  destruct l as [|x t]; [congruence|]. intros _.
  unfold variance. rewrite var_ddof_eq, qsum_sqdev. rewrite Z.sub_0_r. fold (qlen (x :: t)).
  rewrite !mean_eq.
  assert (L : qlen (map (fun x0 => x0 * x0) (x :: t)) = qlen (x :: t)) by (unfold qlen; rewrite map_length; reflexivity). rewrite L.
  pose proof (qlen_pos x t) as P.
  field. intros H. rewrite H in P. apply Qlt_irrefl in P. exact P.
Qed.
