(* C12 x C10: the result of a class group in a grouped evaluation -- the whole instance pipeline on the arrays restricted to the
   group -- depends only on the voxels where one of the two arrays carries a label of the group, as a multiset of
   (reference label, prediction label) pairs: neither the other groups' voxels nor the background nor the position or order of
   anything matters. *)
From Pan Require Import Base.Common Model.MetricTable Model.Metrics Model.Matcher Model.Pipeline Model.Groups Proofs.GroupsFacts
  Proofs.C04Proofs Proofs.Invariance Proofs.PipelineInvariance Proofs.PaddingPipeline.
From Coq Require Import Permutation Lia.
Open Scope Z_scope.

Lemma extract_nonneg ls b x : 0 <= x -> 0 <= extract ls b x.
Proof.
  intro H. unfold extract. destruct (memZ x ls); [|lia]. destruct b; [|exact H]. destruct (x =? 0); lia.
Qed.
Lemma extract_arr_nonneg g a : nonneg_arr a -> nonneg_arr (extract_arr g a).
Proof.
  intros Hn v Hv. unfold extract_arr in Hv. apply in_map_iff in Hv as (w & <- & Hw). destruct (Hn w Hw) as [H1 H2].
  cbn [fst snd]. split; apply extract_nonneg; assumption.
Qed.

Theorem group_entry_foreground x c g a a' :
  nonneg_arr a -> nonneg_arr a' -> (c_matcher c = 0 \/ c_matcher c = 1 \/ c_matcher c = 2) ->
  Permutation (strip (extract_arr g a)) (strip (extract_arr g a')) ->
  pipeline x c (extract_arr g a) = pipeline x c (extract_arr g a').
Proof.
  intros Hn Hn' Hk Hp. apply pipeline_foreground_naive; try assumption; apply extract_arr_nonneg; assumption.
Qed.

(* the grouped evaluation as a whole: if for every group the two inputs have the same group voxels (as multisets), the grouped
   results are identical, group by group *)
Theorem grouped_results_foreground x (cf : bool -> cfg) matched gs a a' :
  nonneg_arr a -> nonneg_arr a' -> (forall b, c_matcher (cf b) = 0 \/ c_matcher (cf b) = 1 \/ c_matcher (cf b) = 2) ->
  labels_defined gs a = labels_defined gs a' ->
  (forall g, In g gs -> Permutation (strip (extract_arr g a)) (strip (extract_arr g a'))) ->
  evaluate_groups _ (fun single arr => pipeline x (cf single) arr) matched gs a =
  evaluate_groups _ (fun single arr => pipeline x (cf single) arr) matched gs a'.
Proof.
  intros Hn Hn' Hk Hd Hp. unfold evaluate_groups. rewrite Hd. destruct (labels_defined gs a'); [|reflexivity].
  f_equal. apply map_ext_in. intros g Hg. f_equal. apply group_entry_foreground; auto.
Qed.
