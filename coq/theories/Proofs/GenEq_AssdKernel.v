(* T1 leaf: what the translator read off panoptica/metrics/assd.py is what Model/Assd.v assumes about the way the (modelled)
   numeric kernels are called. *)
From Pan Require Import Base.Common Model.Metrics Gen.AssdKernel.
From Coq Require Import ZifyBool.
Open Scope Z_scope.

(* the exported kernel selects reference voxels by the reference index and prediction voxels by the prediction index:
   the same masks as Metric.__call__ with a one-element prediction list (Model.Metrics.select) *)
Lemma geneq_kernel_masks ri pi a :
  select ri [pi] a = map (fun v => (b2z (gen_kernel_ref_mask (fst v) ri), b2z (gen_kernel_pred_mask (snd v) pi))) a.
Proof.
  unfold select, gen_kernel_ref_mask, gen_kernel_pred_mask. apply map_ext. intros v. unfold memZ. cbn [existsb]. now rewrite orb_false_r.
Qed.

(* border = voxels of the mask removed by one erosion with the face-neighbour structure (connectivity 1): Model.Assd.is_border *)
Lemma geneq_connectivity : gen_default_connectivity = 1.
Proof. reflexivity. Qed.
Lemma geneq_border : gen_border_is_mask_minus_erosion = true.
Proof. reflexivity. Qed.

(* a directed value is the plain mean of the distances from the prediction's border voxels to the nearest reference border voxel,
   ASSD the mean of the two directed values with the roles exchanged: Model.Assd.assd_lists / Proofs.AssdR.assd_R *)
Lemma geneq_directed : gen_distances_from_prediction_border_to_reference_border = true /\ gen_directed_is_plain_mean = true.
Proof. split; reflexivity. Qed.
Lemma geneq_symmetric_mean : gen_assd_is_mean_of_both_directions = true.
Proof. reflexivity. Qed.

(* a distance is the square root of the summed squared offsets to the nearest reference border voxel, computed on the whole array in
   one piece: Model.Assd's exact squared distances (the square root is taken by the harness with 50 digits) *)
Lemma geneq_distance : gen_distance_is_sqrt_of_summed_squared_offsets = true.
Proof. reflexivity. Qed.
