(* Aggregator: the C16 statements for a constructed aggregator [ready h R0 cs]. *)
From Coq Require Import Permutation.
From Pan Require Import Base.Common Model.Aggregator Proofs.AggBase Proofs.AggInv Proofs.AggSess Proofs.AggFinal
  Proofs.AggProgress Proofs.AggOracle.

Lemma astep_ctor_done xE xF s s' : astep xE xF s s' -> ctor s = CDone -> ctor s' = CDone.
Proof.
  intros [o b h c cs o' b' c' Hc | o b h l1 t l2 b' o' t' Hl]; cbn [ctor]; auto.
  intros ->. discriminate.
Qed.
Lemma areach_ctor_done s0 s : areach s0 s -> ctor s0 = CDone -> ctor s = CDone.
Proof. induction 1 as [|s s' Hr IH Hs]; auto. intros Hc0. eapply astep_ctor_done; eauto. Qed.

Section Ready.
Variables (h : Z) (R0 : list row) (cs : list call).
Hypothesis R0_ok : NoDup (names R0).
Hypothesis cs_idle : all_idle cs.

Lemma ready_reach_facts s : areach (ready h R0 cs) s -> SInv R0 s /\ ctor s = CDone /\ hdr s = h /\ nofail s.
Proof.
  intros Hr. split; [exact (areach_SInv _ _ _ (ready_SInv h R0 cs R0_ok cs_idle) Hr)|].
  split; [exact (areach_ctor_done _ _ Hr eq_refl)|].
  split; [exact (proj2 (areach_cids _ _ Hr))|].
  exact (areach_nofail R0 _ _ (ready_SInv h R0 cs R0_ok cs_idle) (ready_nofail h R0 cs) Hr).
Qed.

Lemma c16_invariant s : areach (ready h R0 cs) s ->
  exists b rows,
    buf s = Some b /\ out s = Some (LH h :: map lrow rows)
    /\ NoDup b /\ NoDup (names rows) /\ incl (names rows) b
    /\ NoDup (map cn (filter owns (calls s)))
    /\ (forall x, In x b <-> In x (names rows) \/ In x (map cn (filter owns (calls s))))
    /\ (forall x, In x (map cn (filter owns (calls s))) -> ~ In x (names rows))
    /\ (cnt inE (calls s) <= 1)%nat /\ (cnt inF (calls s) <= 1)%nat
    /\ (exists new, rows = R0 ++ new).
Proof.
  intros Hr. destruct (ready_reach_facts s Hr) as [HI [Hc [Hh _]]]. rewrite <- Hh. now apply call_phase_facts.
Qed.

Lemma c16_progress s : areach (ready h R0 cs) s -> ~ all_done s -> exists s', astep false false s s'.
Proof.
  intros Hr Hnd. destruct (ready_reach_facts s Hr) as [HI [Hc [Hh [Hnf _]]]]. now apply (progress R0).
Qed.

Lemma c16_terminates n s : asteps n (ready h R0 cs) s ->
  (n + measure s <= measure (ready h R0 cs))%nat /\ ((forall s', ~ astep false false s s') -> all_done s).
Proof.
  intros Hs. split; [now apply schedule_bounded|].
  apply (maximal_schedule_done R0 (ready h R0 cs)); auto using ready_SInv, ready_nofail.
  now apply asteps_areach in Hs.
Qed.

Lemma c16_measure_bound : (measure (ready h R0 cs) <= 8 * length cs)%nat.
Proof.
  unfold measure. cbn [ctor calls ready cpc_measure]. induction cs as [|t l IH]; simpl; [lia|].
  assert (Hi : idle t = true) by (apply cs_idle; now left).
  assert (pc_measure (cp t) <= 8)%nat by (unfold idle in Hi; destruct (cp t); try discriminate; simpl; lia).
  assert (all_idle l) by (intros u Hu; apply cs_idle; now right).
  simpl in IH. specialize (IH H0). lia.
Qed.

Lemma c16_final_rows s : areach (ready h R0 cs) s -> all_done s ->
  exists new, out s = Some (LH h :: map lrow (R0 ++ new))
    /\ NoDup (names (R0 ++ new))
    /\ (forall x, In x (names (R0 ++ new)) <-> In x (names R0) \/ exists t, In t cs /\ is_eval t = true /\ cn t = x)
    /\ (forall r, In r new -> exists t, In t cs /\ is_eval t = true /\ crow t = r).
Proof. intros Hr Hd. exact (final_general R0 _ s (ready_SInv h R0 cs R0_ok cs_idle) Hr Hd). Qed.

Lemma c16_schedule_independent : consistent cs -> forall s1 s2,
  areach (ready h R0 cs) s1 -> all_done s1 -> areach (ready h R0 cs) s2 -> all_done s2 ->
  Permutation (rows_of (out s1)) (rows_of (out s2)).
Proof. intros Hc s1 s2. exact (final_schedule_independent R0 _ s1 s2 (ready_SInv h R0 cs R0_ok cs_idle) Hc). Qed.

Lemma c16_reader s t sn : areach (ready h R0 cs) s ->
  In t (calls s) -> cp t = RRead sn \/ cp t = RDone sn ->
  exists k rest, sn = LH h :: map lrow k /\ NoDup (names k)
                 /\ out s = Some (sn ++ map lrow rest) /\ wf_outb (Some sn) = true.
Proof.
  intros Hr Ht Hp. destruct (ready_reach_facts s Hr) as [HI [Hc [Hh _]]]. rewrite <- Hh.
  now apply (reader_sees_complete_rows R0 s t sn).
Qed.

Lemma c16_oracles s : areach (ready h R0 cs) s ->
  call_phaseb h (out s) (buf s) = true
  /\ (forall s', astep false false s s' -> monob (out s) (out s') = true)
  /\ (all_done s -> finalb h R0 (submitted cs) (out s) = true).
Proof.
  intros Hr. destruct (ready_reach_facts s Hr) as [HI [Hc [Hh _]]]. split; [|split].
  - rewrite <- Hh. now apply (oracle_call_phase R0).
  - intros s' Hs. apply (oracle_mono R0); auto. now left.
  - intros Hd. exact (oracle_final R0 _ s (ready_SInv h R0 cs R0_ok cs_idle) Hr Hd).
Qed.
End Ready.
