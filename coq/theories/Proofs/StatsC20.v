(* C20: the dataset table (of_rows) and its summaries. *)
From Pan Require Import Base.Common Model.Stats Proofs.StatsFacts.
From Coq Require Import Permutation.
Open Scope Q_scope.

Definition finite_values (rows : rowtab) (g m : name) : list Q := somes (column rows g m).
Definition row_named (rows : rowtab) (s : name) := find (fun r => name_eqb (fst r) s) rows.

Section Table.
  Variables (G M : list name).

  Lemma groupnames_of_rows rows : groupnames (of_rows G M rows) = G.
  Proof. unfold groupnames, of_rows. cbn. apply (map_fst_pair (fun g => map (fun m => (m, column rows g m)) M)). Qed.
  Lemma metricnames_of_rows rows : G <> [] -> metricnames (of_rows G M rows) = M.
  Proof.
    unfold metricnames, of_rows. cbn. destruct G as [|g0 G']; [congruence|]. intros _. cbn.
    apply (map_fst_pair (fun m => column rows g0 m)).
  Qed.

  Lemma get_of_rows rows g m : In g G -> In m M ->
    get (of_rows G M rows) g m = Ok (column rows g m).
  Proof.
    intros Hg Hm. assert (HG : G <> []) by (intros E; rewrite E in Hg; exact Hg).
    unfold get. rewrite groupnames_of_rows, (metricnames_of_rows rows HG).
    apply memn_In in Hg. apply memn_In in Hm. rewrite Hg, Hm. cbn [negb].
    unfold of_rows. cbn [st_vd].
    rewrite (alookup_map (fun g => map (fun m => (m, column rows g m)) M)), Hg.
    rewrite (alookup_map (fun m => column rows g m)), Hm. reflexivity.
  Qed.

  Lemma get_summary_of_rows rows g m : In g G -> In m M ->
    get_summary (of_rows G M rows) g m = value_summary (finite_values rows g m).
  Proof. intros Hg Hm. unfold get_summary, get_vals. rewrite (get_of_rows rows g m Hg Hm). reflexivity. Qed.

  (* values entering the summary: the finite entries of the column; a multiset under row permutation *)
  Lemma finite_values_perm rows rows' g m : Permutation rows rows' ->
    Permutation (finite_values rows g m) (finite_values rows' g m).
  Proof.
    intros P. unfold finite_values, somes, column. apply Permutation_flat_map. apply Permutation_map. exact P.
  Qed.

  Lemma summary_values rows g m v : In g G -> In m M ->
    get_summary (of_rows G M rows) g m = Ok v ->
    vs_values v = finite_values rows g m /\
    vs_avg v = mean (finite_values rows g m) /\ vs_var v = variance (finite_values rows g m) /\
    (In (vs_min v) (finite_values rows g m) /\ forall x, In x (finite_values rows g m) -> vs_min v <= x) /\
    (In (vs_max v) (finite_values rows g m) /\ forall x, In x (finite_values rows g m) -> x <= vs_max v).
  Proof. intros Hg Hm. rewrite (get_summary_of_rows rows g m Hg Hm). apply value_summary_fields. Qed.

  Lemma summary_defined_iff rows g m : In g G -> In m M ->
    (get_summary (of_rows G M rows) g m = Err E_VALUE <-> finite_values rows g m = []) /\
    (finite_values rows g m <> [] -> exists v, get_summary (of_rows G M rows) g m = Ok v).
  Proof.
    intros Hg Hm. rewrite (get_summary_of_rows rows g m Hg Hm).
    split; [apply value_summary_empty|apply value_summary_ok].
  Qed.

  Lemma summary_perm rows rows' g m v : In g G -> In m M -> Permutation rows rows' ->
    get_summary (of_rows G M rows) g m = Ok v ->
    exists v', get_summary (of_rows G M rows') g m = Ok v' /\ vs_equiv v v' /\
               Permutation (vs_values v) (vs_values v').
  Proof.
    intros Hg Hm P. rewrite !(get_summary_of_rows _ g m Hg Hm). intros Hv.
    exact (value_summary_perm _ _ v Hv (finite_values_perm rows rows' g m P)).
  Qed.

  (* ---- get_one_subject *)
  Lemma index_find (rows : rowtab) s :
    match row_named rows s with
    | Some r => exists i, index_of s (map fst rows) = Some i /\ nth_error rows i = Some r
    | None => index_of s (map fst rows) = None
    end.
  Proof.
    unfold row_named. induction rows as [|r rows IH]; cbn; [reflexivity|].
    destruct (name_eqb (fst r) s) eqn:E.
    - exists O. split; reflexivity.
    - destruct (find _ rows) as [r'|].
      + destruct IH as [i [Hi Hn]]. exists (S i). rewrite Hi. split; [reflexivity|exact Hn].
      + rewrite IH. reflexivity.
  Qed.

  Lemma get_one_subject_of_rows rows s :
    get_one_subject (of_rows G M rows) s =
    match row_named rows s with
    | None => Err E_ASSERT
    | Some r => Ok (map (fun g => (g, map (fun m => (m, snd r g m)) M)) G)
    end.
  Proof.
    unfold get_one_subject. cbn [st_subjects of_rows]. pose proof (index_find rows s) as H.
    destruct (row_named rows s) as [r|]; [|rewrite H; reflexivity].
    destruct H as [i [-> Hn]]. fold (of_rows G M rows). rewrite groupnames_of_rows.
    destruct G as [|g0 G'] eqn:EG; [reflexivity|]. rewrite <- EG.
    assert (HG : G <> []) by (rewrite EG; discriminate).
    rewrite (metricnames_of_rows rows HG).
    apply mapR_ok_map. intros g Hg.
    rewrite (mapR_ok_map _ (fun m => (m, snd r g m))); [reflexivity|].
    intros m Hm. rewrite (get_of_rows rows g m Hg Hm). unfold column.
    rewrite (map_nth_error (fun r0 => snd r0 g m) i rows Hn). reflexivity.
  Qed.

  Lemma row_named_nodup (rows : rowtab) s f : NoDup (map fst rows) -> In (s, f) rows ->
    row_named rows s = Some (s, f).
  Proof.
    unfold row_named. induction rows as [|r rows IH]; intros ND Hin; [destruct Hin|]. cbn.
    cbn in ND. inversion ND as [|? ? Hnot ND']; subst.
    destruct Hin as [->|Hin].
    - cbn. rewrite name_eqb_refl. reflexivity.
    - destruct (name_eqb (fst r) s) eqn:E.
      + apply name_eqb_eq in E. exfalso. apply Hnot. rewrite E.
        change s with (fst (s, f)). apply in_map. exact Hin.
      + apply IH; assumption.
  Qed.

  (* ---- across groups *)
  Lemma group_avgs_of_rows rows m : In m M ->
    (forall g, In g G -> finite_values rows g m <> []) ->
    group_avgs (of_rows G M rows) m = Ok (map (fun g => mean (finite_values rows g m)) G).
  Proof.
    intros Hm Hfin. unfold group_avgs. rewrite groupnames_of_rows. apply mapR_ok_map. intros g Hg.
    rewrite (get_summary_of_rows rows g m Hg Hm).
    destruct (value_summary_ok _ (Hfin g Hg)) as [v Hv]. rewrite Hv.
    destruct (value_summary_fields _ _ Hv) as (_ & -> & _). reflexivity.
  Qed.

  Definition across_entry (rows : rowtab) (m : name) : res (name * vsum) :=
    match value_summary (map (fun g => mean (finite_values rows g m)) G) with
    | Err e => Err e | Ok v => Ok (m, v) end.

  Lemma across_of_rows rows : G <> [] ->
    (forall g m, In g G -> In m M -> finite_values rows g m <> []) ->
    get_summary_across_groups (of_rows G M rows) = mapR (across_entry rows) M.
  Proof.
    intros HG Hfin. unfold get_summary_across_groups. rewrite (metricnames_of_rows rows HG).
    apply mapR_ext_in. intros m Hm.
    rewrite (group_avgs_of_rows rows m Hm (fun g Hg => Hfin g m Hg Hm)). reflexivity.
  Qed.

  Lemma across_ok rows : G <> [] ->
    (forall g m, In g G -> In m M -> finite_values rows g m <> []) ->
    exists r, get_summary_across_groups (of_rows G M rows) = Ok r /\ map fst r = M /\
      forall m v, In (m, v) r -> value_summary (map (fun g => mean (finite_values rows g m)) G) = Ok v.
  Proof.
    intros HG Hfin. rewrite (across_of_rows rows HG Hfin). clear Hfin.
    induction M as [|m M' IH].
    - exists []. repeat split. intros m v [].
    - destruct IH as [r [Hr [Hf Hv]]].
      destruct (value_summary_ok (map (fun g => mean (finite_values rows g m)) G)) as [v Hvm].
      { destruct G; [congruence|discriminate]. }
      exists ((m, v) :: r). cbn. unfold across_entry at 1. rewrite Hvm, Hr. repeat split.
      + cbn. rewrite Hf. reflexivity.
      + intros m' v' [[= <- <-]|Hin]; [exact Hvm|exact (Hv m' v' Hin)].
  Qed.

  (* one column without a finite value makes the whole call raise (observation O3) *)
  Lemma across_err rows g m : In g G -> In m M -> finite_values rows g m = [] ->
    get_summary_across_groups (of_rows G M rows) = Err E_VALUE.
  Proof.
    intros Hg Hm Hnil. assert (HG : G <> []) by (intros E; rewrite E in Hg; exact Hg).
    unfold get_summary_across_groups. rewrite (metricnames_of_rows rows HG).
    assert (Hga : forall m', In m' M ->
              group_avgs (of_rows G M rows) m' = Err E_VALUE \/ exists l, group_avgs (of_rows G M rows) m' = Ok l /\ l <> []).
    { intros m' Hm'. unfold group_avgs. rewrite groupnames_of_rows.
      destruct (mapR _ G) as [l|e] eqn:Em.
      - right. exists l. split; [reflexivity|]. destruct G; [congruence|]. cbn in Em.
        destruct (get_summary _ _ _); [|discriminate]. destruct (mapR _ _); [|discriminate].
        injection Em as <-. discriminate.
      - left. f_equal.
        assert (X : forall L, (forall x, In x L -> In x G) -> forall e', mapR (fun g0 : name =>
                   match get_summary (of_rows G M rows) g0 m' with Err e0 => Err e0 | Ok v => Ok (vs_avg v) end) L = Err e' -> e' = E_VALUE).
        { induction L as [|a L IHL]; intros Hsub e' HE; cbn in HE; [discriminate|].
          rewrite (get_summary_of_rows rows a m' (Hsub a (or_introl eq_refl)) Hm') in HE.
          destruct (value_summary (finite_values rows a m')) as [v|e0] eqn:Ev.
          - destruct (mapR _ L) as [r|e1] eqn:EL; [discriminate|]. injection HE as <-.
            apply IHL; [intros x Hx; apply Hsub; right; exact Hx|reflexivity].
          - injection HE as <-. destruct (finite_values rows a m'); cbn in Ev; congruence. }
        exact (X G (fun x Hx => Hx) e Em). }
    apply mapR_err_uniform.
    - intros m' Hm'. destruct (Hga m' Hm') as [->|[l [-> Hl]]]; [left; reflexivity|].
      right. destruct (value_summary_ok l Hl) as [v ->]. eexists; reflexivity.
    - exists m. split; [exact Hm|].
      assert (E : group_avgs (of_rows G M rows) m = Err E_VALUE).
      { unfold group_avgs. rewrite groupnames_of_rows. apply mapR_err_uniform.
        - intros g' Hg'. rewrite (get_summary_of_rows rows g' m Hg' Hm).
          destruct (finite_values rows g' m) as [|x t]; [left; reflexivity|right; eexists; reflexivity].
        - exists g. split; [exact Hg|]. rewrite (get_summary_of_rows rows g m Hg Hm), Hnil. reflexivity. }
      rewrite E. reflexivity.
  Qed.

  Lemma across_perm rows rows' r : G <> [] -> Permutation rows rows' ->
    (forall g m, In g G -> In m M -> finite_values rows g m <> []) ->
    get_summary_across_groups (of_rows G M rows) = Ok r ->
    exists r', get_summary_across_groups (of_rows G M rows') = Ok r' /\
      Forall2 (fun a b => fst a = fst b /\ vs_equiv (snd a) (snd b)) r r'.
  Proof.
    intros HG P Hfin.
    assert (Hfin' : forall g m, In g G -> In m M -> finite_values rows' g m <> []).
    { intros g m Hg Hm E. apply (Hfin g m Hg Hm).
      pose proof (finite_values_perm rows rows' g m P) as PP. rewrite E in PP.
      apply Permutation_sym, Permutation_nil in PP. exact PP. }
    rewrite (across_of_rows rows HG Hfin), (across_of_rows rows' HG Hfin').
    apply mapR_rel. intros m y Hm. unfold across_entry.
    destruct (value_summary (map (fun g => mean (finite_values rows g m)) G)) as [v|e] eqn:Ev; [|discriminate].
    intros [= <-].
    destruct (value_summary_Forall2 _ (map (fun g => mean (finite_values rows' g m)) G) v Ev) as [v' [Ev' Eq]].
    { clear Ev. induction G as [|g G' IHG]; cbn; constructor.
      - apply mean_perm. apply finite_values_perm. exact P.
      - destruct G' as [|g1 G'']; [constructor|]. apply IHG; try discriminate.
        + intros; apply Hfin; [right|]; assumption.
        + intros; apply Hfin'; [right|]; assumption. }
    rewrite Ev'. exists (m, v'). repeat split; apply Eq.
  Qed.
End Table.
