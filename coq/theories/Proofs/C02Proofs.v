(* C02: arithmetic consistency of a result (exact rationals; the code rounds each IEEE operation). *)
From Pan Require Import Base.Common Base.Sx Base.Rnd64 Model.MetricTable Model.EdgeCase Model.Result Model.Metrics
  Proofs.ResultFacts Proofs.MetricsFacts.
From Coq Require Import Qfield Lqa ZifyBool.
Open Scope Z_scope.

(* with tp > 0 the aggregates are the mean and the population variance of the list *)
Lemma list_metric_nonedge h m tp np nr vals : tp <> 0 -> vals <> [] ->
  list_metric h m tp np nr vals = Ok {| l_all := vals; l_avg := FQ (meanQ vals); l_var := FQ (varQ vals) |}.
Proof.
  intros Htp Hne. unfold list_metric. rewrite (handle_zero_tp_nonzero h m tp np nr Htp).
  destruct vals; [congruence|reflexivity].
Qed.

(* rq = tp / (tp + fp/2 + fn/2) = 2tp / (2tp + fp + fn) *)
Lemma rq_exact_eq tp fp fn : 0 < 2 * tp + fp + fn -> (rq_exact tp fp fn == qdiv (2 * tp) (2 * tp + fp + fn))%Q.
Proof.
  intros H. unfold rq_exact, qdiv. rewrite !inject_Z_plus, !inject_Z_mult.
  assert (Hn : ~ (inject_Z 2 * inject_Z tp + inject_Z fp + inject_Z fn == 0)%Q).
  { intro E. rewrite <- inject_Z_mult, <- !inject_Z_plus in E. unfold Qeq in E. cbn [Qnum Qden inject_Z] in E. lia. }
  field. split; [exact Hn|].
  intro E. apply Hn. change (inject_Z 2) with 2%Q. lra.
Qed.

Lemma qdiv_pos n d : 0 < n -> 0 < d -> (0 < qdiv n d)%Q.
Proof.
  intros Hn Hd. unfold qdiv. apply Qlt_shift_div_l; [unfold Qlt, inject_Z; cbn [Qnum Qden]; lia|].
  setoid_replace (0 * inject_Z d)%Q with 0%Q by ring. unfold Qlt, inject_Z; cbn [Qnum Qden]; lia.
Qed.

Lemma rq_range tp np nr : 0 < tp -> tp <= np -> tp <= nr ->
  (0 < rq_exact tp (calc_fp np tp) (calc_fn nr tp) /\ rq_exact tp (calc_fp np tp) (calc_fn nr tp) <= 1)%Q.
Proof.
  intros H0 H1 H2. unfold calc_fp, calc_fn. rewrite rq_exact_eq by lia.
  destruct (qdiv_pos_le1 (2 * tp) (2 * tp + (np - tp) + (nr - tp))) as [Ha Hb]; try lia.
  split; [|exact Hb]. apply qdiv_pos; lia.
Qed.
Lemma rq_one_iff tp np nr : 0 < tp -> tp <= np -> tp <= nr ->
  ((rq_exact tp (calc_fp np tp) (calc_fn nr tp) == 1)%Q <-> (np = tp /\ nr = tp)).
Proof.
  intros H0 H1 H2. unfold calc_fp, calc_fn. rewrite rq_exact_eq by lia. rewrite qdiv_eq_1 by lia. lia.
Qed.

(* means *)
Definition all_in (lo hi : Q) (l : list Q) : Prop := forall x, In x l -> (lo <= x <= hi)%Q.
Lemma sumQ_bounds lo hi l : all_in lo hi l -> (lo * lenQ l <= sumQ l /\ sumQ l <= hi * lenQ l)%Q.
Proof.
  unfold lenQ. induction l as [|x l IH]; intros H; cbn [sumQ fold_right length].
  - cbn. split; ring_simplify; apply Qle_refl.
  - destruct (H x (or_introl eq_refl)) as [Hl Hh]. destruct IH as [I1 I2]; [intros y Hy; apply H; now right|].
    rewrite Nat2Z.inj_succ. unfold Z.succ. rewrite inject_Z_plus. change (inject_Z 1) with 1%Q. unfold sumQ in *. split; nra.
Qed.
Lemma lenQ_pos l : l <> [] -> (0 < lenQ l)%Q.
Proof. intros H. unfold lenQ, Qlt, inject_Z. cbn. destruct l; [congruence|]. cbn [length]. lia. Qed.
Lemma meanQ_bounds lo hi l : l <> [] -> all_in lo hi l -> (lo <= meanQ l <= hi)%Q.
Proof.
  intros Hne H. destruct (sumQ_bounds lo hi l H) as [H1 H2]. pose proof (lenQ_pos l Hne) as Hp. unfold meanQ. split.
  - apply Qle_shift_div_l; [exact Hp|exact H1].
  - apply Qle_shift_div_r; [exact Hp|exact H2].
Qed.

(* pointwise order carries over to the means (lists of equal length) *)
Lemma sumQ_le l1 l2 : Forall2 Qle l1 l2 -> (sumQ l1 <= sumQ l2)%Q.
Proof. induction 1 as [|x y l1 l2 Hxy _ IH]; cbn [sumQ fold_right]; [apply Qle_refl|unfold sumQ in *; lra]. Qed.
Lemma meanQ_le l1 l2 : l1 <> [] -> Forall2 Qle l1 l2 -> (meanQ l1 <= meanQ l2)%Q.
Proof.
  intros Hne HF. pose proof (sumQ_le _ _ HF) as Hs. unfold meanQ. assert (El : lenQ l1 = lenQ l2).
  { unfold lenQ. f_equal. f_equal. clear -HF. induction HF; cbn; congruence. }
  rewrite <- El. pose proof (lenQ_pos l1 Hne) as Hp.
  apply Qle_shift_div_l; [exact Hp|]. unfold Qdiv. rewrite <- Qmult_assoc, (Qmult_comm (/ lenQ l1)), Qmult_inv_r; [lra|].
  intro E. rewrite E in Hp. apply (Qlt_irrefl 0 Hp).
Qed.

(* product of two numbers of [0,1] *)
Lemma mul_unit a b : (0 <= a <= 1)%Q -> (0 <= b <= 1)%Q -> (0 <= a * b <= 1)%Q.
Proof. intros [A0 A1] [B0 B1]. split; [apply Qmult_le_0_compat; assumption|]. nra. Qed.

Lemma inj_pos d : 0 < d -> (0 < inject_Z d)%Q.
Proof. intros H. unfold Qlt, inject_Z; cbn [Qnum Qden]; lia. Qed.
Lemma qdiv_le a b c d : 0 < b -> 0 < d -> a * d <= c * b -> (qdiv a b <= qdiv c d)%Q.
Proof.
  intros Hb Hd H. unfold qdiv. apply Qle_shift_div_l; [now apply inj_pos|].
  unfold Qdiv. rewrite <- Qmult_assoc, (Qmult_comm (/ _)), Qmult_assoc.
  apply Qle_shift_div_r; [now apply inj_pos|]. rewrite <- !inject_Z_mult. now rewrite <- Zle_Qle.
Qed.

(* per instance, Dice is at least IoU (exact quotients of the same pair of masks) *)
Lemma dice_ge_iou a : binary a ->
  (iou_exact (n_inter a) (n_union a) <= dice_exact (sum_ref a) (sum_pred a) (n_inter a))%Q.
Proof.
  intros Hb. rewrite (dice_exact_binary a Hb). unfold iou_exact.
  pose proof (union_inter a). pose proof (n_inter_le_ref a). pose proof (n_inter_le_pred a).
  pose proof (n_inter_nonneg a). pose proof (n_union_nonneg a).
  destruct (n_union a =? 0) eqn:E1; destruct (n_ref a + n_pred a =? 0) eqn:E2; try lia.
  - apply Qle_refl.
  - apply qdiv_le; try lia. nia.
Qed.
