(* T1 leaf: the label selection translated from _Metric.__call__ is the model's [metric_input]. *)
From Pan Require Import Base.Common Model.Metrics Gen.MetricCall.
From Coq Require Import ZifyBool.
Open Scope Z_scope.

(* selection applies exactly when BOTH indices are given (the model: an option of a pair) *)
Lemma geneq_select_when ri pi : gen_select_when ri pi = ri && pi.
Proof. destruct ri, pi; reflexivity. Qed.

(* the selected masks *)
Lemma geneq_select ri pis a :
  metric_input (Some (ri, pis)) a = map (fun v => (b2z (gen_ref_mask (fst v) ri), b2z (gen_pred_mask (snd v) pis))) a.
Proof. unfold metric_input, select, gen_ref_mask, gen_pred_mask. apply map_ext. intros v. reflexivity. Qed.
Lemma geneq_no_select a : metric_input None a = a.
Proof. reflexivity. Qed.

(* the metric function receives (reference mask, prediction mask) in this order: the voxel pairs of the model are (ref, pred) *)
Lemma geneq_call_order : gen_call_order = [0; 1].
Proof. reflexivity. Qed.
