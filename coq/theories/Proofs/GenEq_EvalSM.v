From Pan Require Import Base.Common Model.EvaluatorSM Gen.EvalSM.
Lemma geneq_effective ctor call : gen_effective ctor call = effective ctor call.
Proof. destruct call; reflexivity. Qed.
Lemma geneq_timing ctor eff : gen_start_cond ctor eff = eff /\ gen_stop_cond ctor eff = eff.
Proof. destruct ctor, eff; split; reflexivity. Qed.
(* hence the timing statements can never raise *)
Lemma geneq_timing_never_raises ctor eff : exists t, timing (gen_start_cond ctor eff) (gen_stop_cond ctor eff) = Ok t.
Proof. destruct ctor, eff; eexists; reflexivity. Qed.
Lemma geneq_copies : gen_copies = true. Proof. reflexivity. Qed.
Lemma geneq_no_state : gen_evaluate_assigns_no_state = true /\ gen_logging_only_prints = true.
Proof. split; reflexivity. Qed.
