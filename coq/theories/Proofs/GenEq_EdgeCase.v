(* T1 tie for utils/edge_case_handling.py *)
From Pan Require Import Base.Common Base.Sx Model.MetricTable Model.EdgeCase Gen.EdgeCase.
From Coq Require Import ZifyBool.
Open Scope Z_scope.

Lemma geneq_ecr_value r : gen_ecr_value r = ecr_value r.
Proof. destruct r; reflexivity. Qed.

Lemma geneq_mk_mhandler d a b c e :
  mk_mhandler d a b c e =
  if gen_mk_assert d a b c e then
    match gen_mk_fill d a b c e NO_INSTANCES, gen_mk_fill d a b c e EMPTY_PRED,
          gen_mk_fill d a b c e EMPTY_REF, gen_mk_fill d a b c e NORMAL with
    | Some w, Some x, Some y, Some z => Ok {| e_noinst := w; e_emptypred := x; e_emptyref := y; e_normal := z |}
    | _, _, _, _ => Err E_ASSERT
    end
  else Err E_ASSERT.
Proof. destruct d, a, b, c, e; reflexivity. Qed.

Lemma geneq_mh_dispatch tp np nr :
  gen_mh_dispatch tp np nr = if negb (tp =? 0) then Some None else option_map Some (classify np nr).
Proof.
  (* robust against reordering of the (mutually exclusive) branches: contradictory cases are discharged arithmetically *)
  unfold gen_mh_dispatch, classify.
  repeat match goal with |- context[if ?c then _ else _] => destruct c eqn:? end;
    cbn [negb option_map andb] in *; first [reflexivity | discriminate | exfalso; lia].
Qed.

Lemma geneq_mh_call h tp np nr :
  mh_call h tp np nr =
  match gen_mh_dispatch tp np nr with
  | None => Err E_NOTIMPL
  | Some None => Ok (false, gen_ecr_value NONE)
  | Some (Some s) => Ok (true, gen_ecr_value (entry h s))
  end.
Proof.
  rewrite geneq_mh_dispatch. unfold mh_call. destruct (tp =? 0); cbn [negb]; [|reflexivity].
  destruct (classify np nr) as [s|]; cbn [option_map]; [|reflexivity].
  destruct (entry h s); reflexivity.
Qed.

Lemma geneq_hzt_args tp np nr : gen_hzt_args tp np nr = (tp, np, nr).
Proof. reflexivity. Qed.

Lemma geneq_default_table :
  gen_default_table = map (fun p => (fst p, Ok (snd p))) (h_table default_handler)
  /\ gen_default_std = h_std default_handler.
Proof. split; vm_compute; reflexivity. Qed.
