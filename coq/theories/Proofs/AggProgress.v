(* Aggregator: deadlock freedom, termination measure, no spurious constructor failure,
   non-interference of sibling aggregators, soundness of the executable scheduler. *)
From Coq Require Import Permutation.
From Pan Require Import Base.Common Model.Aggregator Proofs.AggBase Proofs.AggInv Proofs.AggSess Proofs.AggFinal.

(* ------------------------------------------------------------------ progress *)
Lemma all_idle_existsb (f : call -> bool) cs :
  (forall t, idle t = true -> f t = false) -> all_idle cs -> existsb f cs = false.
Proof.
  intros Hf Hi. apply cnt_zero_existsb. now apply idle_cnt.
Qed.

Lemma all_doneb_spec s : all_doneb s = true <-> all_done s.
Proof.
  unfold all_doneb, all_done. destruct (ctor s); try (split; [discriminate|intros [H _]; discriminate]).
  rewrite forallb_forall. split; [intros H; split; auto|intros [_ H]; auto].
Qed.

Lemma existsb_mid_false {A} (f : A -> bool) l1 t l2 :
  existsb f (l1 ++ t :: l2) = false -> existsb f (l1 ++ l2) = false.
Proof.
  rewrite !existsb_app. simpl. intros H. apply orb_false_iff in H as [A1 B]. apply orb_false_iff in B as [_ B].
  now rewrite A1, B.
Qed.

Lemma call_progress h R0 b rows cs :
  CI h R0 b rows cs -> (exists t, In t cs /\ finished t = false) ->
  exists l1 t l2 r, cs = l1 ++ t :: l2 /\ lstep false false (Some b) (Some (LH h :: map lrow rows)) (l1 ++ l2) t = Some r.
Proof.
  intros HCI [t0 [Ht0 Hf0]].
  assert (Hnd : nodupb b = true) by (apply nodupb_spec; apply (pb_claims_nd _ _ _ _ (ci_pb _ _ _ _ _ HCI))).
  destruct (existsb inE cs) eqn:EE.
  - apply existsb_exists in EE as [t [Ht HtE]]. apply in_split in Ht as [l1 [l2 E]].
    exists l1, t, l2. unfold lstep, inE in *. rewrite Hnd.
    destruct (cp t) as [| |[|]| | | | | |sk| | |sn|sn]; try discriminate; eauto.
  - destruct (existsb inF cs) eqn:EF.
    + apply existsb_exists in EF as [t [Ht HtF]]. apply in_split in Ht as [l1 [l2 E]].
      exists l1, t, l2. unfold lstep, inF in *.
      destruct (cp t) as [| |[|]| | | | | |sk| | |sn|sn]; try discriminate; eauto.
    + apply in_split in Ht0 as [l1 [l2 E]]. exists l1, t0, l2. subst cs.
      apply existsb_mid_false in EE as EE'. apply existsb_mid_false in EF as EF'.
      rewrite existsb_app in EE, EF. simpl in EE, EF.
      apply orb_false_iff in EE as [_ EE]. apply orb_false_iff in EE as [EE _].
      apply orb_false_iff in EF as [_ EF]. apply orb_false_iff in EF as [EF _].
      unfold lstep. rewrite EE', EF'. unfold inE, inF, finished in *.
      destruct (cp t0) as [| |[|]| | | | | |sk| | |sn|sn]; try discriminate; simpl; eauto.
Qed.

Theorem progress R0 s :
  SInv R0 s -> ctor s <> CFail -> ~ all_done s -> exists s', astep false false s s'.
Proof.
  intros [Hnd HI] Hnf Hnd'. destruct s as [o b h c cs]. cbn [ctor out buf hdr calls] in *.
  assert (Hc : c <> CDone -> (exists r, cstep (false || existsb inE cs) (false || existsb inF cs) h o b c = Some r) ->
               exists s', astep false false (mkAst o b h c cs) s').
  { intros _ [[[o' b'] c'] Hr]. eexists. constructor. exact Hr. }
  destruct c; try (apply Hc; [discriminate|]); cbn [cstep].
  - destruct o as [[|l rest]|]; eauto. destruct (line_eqb l (LH h)); eauto.
  - eauto.
  - destruct b; eauto.
  - eauto.
  - destruct HI as [_ [_ Hi]]. rewrite (all_idle_existsb inE cs idle_not_inE Hi). simpl. eauto.
  - destruct HI as [_ [_ Hi]]. rewrite (all_idle_existsb inF cs idle_not_inF Hi). simpl. eauto.
  - destruct HI as [Ho _]. unfold hout in Ho. subst o. destruct (nodupb _); eauto.
  - eauto.
  - eauto.
  - eauto.
  - (* call phase *)
    destruct HI as [bb [rows [Hb [Ho HCI]]]]. unfold hout in Ho. subst b o.
    assert (Hex : exists t, In t cs /\ finished t = false).
    { destruct (forallb finished cs) eqn:EA.
      - exfalso. apply Hnd'. split; [reflexivity|]. now apply forallb_forall.
      - clear - EA. induction cs as [|t cs IH]; [discriminate|]. simpl in EA.
        destruct (finished t) eqn:Ef; [|exists t; split; [now left|exact Ef]].
        destruct (IH EA) as [u [Hu Hf]]. exists u. split; [now right|exact Hf]. }
    destruct (call_progress _ _ _ _ _ HCI Hex) as [l1 [t [l2 [[[b' o'] t'] [E Hl]]]]]. subst cs.
    eexists. apply A_call. exact Hl.
  - congruence.
Qed.

(* ------------------------------------------------------------------ the constructor does not fail when the header matches *)
Definition hdr_ok (s : ast) : Prop :=
  match out s with Some (l :: _) => l = LH (hdr s) | _ => True end.
Definition nofail (s : ast) : Prop := ctor s <> CFail /\ (ctor s = C0 -> hdr_ok s).

Lemma astep_nofail xE xF R0 s s' : astep xE xF s s' -> SInv R0 s -> nofail s -> nofail s'.
Proof.
  intros Hs [Hnd HI] [Hnf Hok].
  destruct Hs as [o b h c cs o' b' c' Hc | o b h l1 t l2 b' o' t' Hl]; cbn [ctor out buf hdr calls] in *.
  - destruct c; cbn [cstep] in Hc;
      repeat match type of Hc with
             | (if ?c then _ else _) = _ => destruct c eqn:?
             | match ?c with _ => _ end = _ => destruct c eqn:?
             end; try discriminate; inversion Hc; subst; split; try discriminate; try congruence.
    + (* C0 with a mismatching first line: excluded by hdr_ok *)
      exfalso. specialize (Hok eq_refl). unfold hdr_ok in Hok. cbn in Hok. subst.
      match goal with H : line_eqb _ _ = false |- _ => simpl in H; rewrite Z.eqb_refl in H; discriminate end.
    + (* CLoad cannot find duplicates *)
      exfalso. destruct HI as [Ho _]. unfold hout in Ho. inversion Ho; subst.
      match goal with H : nodupb _ = false |- _ => rewrite load_ids_hout in H;
        assert (nodupb (names R0) = true) by (now apply nodupb_spec); congruence end.
  - split; discriminate.
Qed.

Lemma areach_nofail R0 s0 s : SInv R0 s0 -> nofail s0 -> areach s0 s -> nofail s.
Proof.
  intros HI Hn Hr. induction Hr; auto.
  eapply astep_nofail; eauto. eapply areach_SInv; eauto.
Qed.

(* ------------------------------------------------------------------ termination measure *)
Definition msum (l : list call) : nat := fold_right (fun t a => pc_measure (cp t) + a)%nat 0%nat l.
Lemma msum_app l1 l2 : msum (l1 ++ l2) = (msum l1 + msum l2)%nat.
Proof. induction l1; simpl; auto. unfold msum in *. simpl. rewrite IHl1. lia. Qed.

Lemma lstep_measure xE xF b o others t b' o' t' :
  lstep xE xF b o others t = Some (b', o', t') -> (pc_measure (cp t') < pc_measure (cp t))%nat.
Proof.
  unfold lstep. intros Hl.
  destruct (cp t) as [| |[|]| | | | | |sk| | |sn|sn];
    repeat match type of Hl with
           | (if ?c then _ else _) = _ => destruct c
           | match ?c with _ => _ end = _ => destruct c
           end; try discriminate; inversion Hl; subst; simpl; lia.
Qed.
Lemma cstep_measure eE eF h o b c o' b' c' :
  cstep eE eF h o b c = Some (o', b', c') -> (cpc_measure c' < cpc_measure c)%nat.
Proof.
  intros Hc. destruct c; cbn [cstep] in Hc;
    repeat match type of Hc with
           | (if ?c then _ else _) = _ => destruct c
           | match ?c with _ => _ end = _ => destruct c
           end; try discriminate; inversion Hc; subst; simpl; lia.
Qed.

Theorem astep_measure xE xF s s' : astep xE xF s s' -> (measure s' < measure s)%nat.
Proof.
  intros [o b h c cs o' b' c' Hc | o b h l1 t l2 b' o' t' Hl]; unfold measure; cbn [ctor calls].
  - apply cstep_measure in Hc. lia.
  - apply lstep_measure in Hl. fold (msum (l1 ++ t' :: l2)). fold (msum (l1 ++ t :: l2)).
    rewrite !msum_app. simpl. lia.
Qed.

Inductive asteps : nat -> ast -> ast -> Prop :=
| AS0 s : asteps 0 s s
| ASS n s s' s'' : asteps n s s' -> astep false false s' s'' -> asteps (S n) s s''.

Theorem schedule_bounded n s s' : asteps n s s' -> (n + measure s' <= measure s)%nat.
Proof. induction 1; [lia|]. apply astep_measure in H0. lia. Qed.

Lemma asteps_areach n s s' : asteps n s s' -> areach s s'.
Proof. induction 1; [constructor|econstructor; eauto]. Qed.

(* a schedule that cannot be extended has finished every call *)
Theorem maximal_schedule_done R0 s0 s :
  SInv R0 s0 -> nofail s0 -> areach s0 s -> (forall s', ~ astep false false s s') -> all_done s.
Proof.
  intros HI Hn Hr Hmax. destruct (all_doneb s) eqn:E; [now apply all_doneb_spec|]. exfalso.
  destruct (progress R0 s) as [s' Hs].
  - eapply areach_SInv; eauto.
  - apply (areach_nofail R0 s0 s); auto.
  - intros Hd. apply all_doneb_spec in Hd. congruence.
  - exact (Hmax s' Hs).
Qed.

(* ------------------------------------------------------------------ non-interference *)
Lemma Forall2_refl {A} (R : A -> A -> Prop) l : (forall x, R x x) -> Forall2 R l l.
Proof. intros H. induction l; constructor; auto. Qed.

Theorem mstep_projects ms ms' :
  mstep ms ms' -> Forall2 (fun s s' => s' = s \/ hstep s s') ms ms'.
Proof.
  intros [m1 s m2 s' Hs | m1 s m2 s' Hs | ms0 ms0' Hall].
  - apply Forall2_app; [apply Forall2_refl; auto|]. constructor; [|apply Forall2_refl; auto].
    right. left. eapply astep_mono; eauto.
  - apply Forall2_app; [apply Forall2_refl; auto|]. constructor; [|apply Forall2_refl; auto].
    right. now right.
  - induction Hall as [|s s' l l' [h' [cs' [Hi ->]]] Hl IH]; constructor; auto.
    right. right. now constructor.
Qed.

Inductive mreach (m0 : list ast) : list ast -> Prop :=
| MR0 : mreach m0 m0
| MRS m m' : mreach m0 m -> mstep m m' -> mreach m0 m'.

Lemma hreach_trans s0 s1 s2 : hreach s0 s1 -> hreach s1 s2 -> hreach s0 s2.
Proof. intros H1 H2. induction H2; auto. econstructor; eauto. Qed.

Theorem mreach_projects m0 m : mreach m0 m -> Forall2 hreach m0 m.
Proof.
  induction 1 as [|m m' Hr IH Hs].
  - apply Forall2_refl. constructor.
  - apply mstep_projects in Hs. clear Hr. revert m' Hs. induction IH as [|a b la lb Hab Hl IH']; intros m' Hs.
    + inversion Hs. constructor.
    + inversion Hs; subst. constructor; [|now apply IH'].
      destruct H1 as [->|H1]; auto. econstructor; eauto.
Qed.

(* ------------------------------------------------------------------ buffer file names *)
Lemma buf_name_inj a b : buf_name a = buf_name b -> a = b.
Proof. unfold buf_name. apply app_inv_head. Qed.
Lemma buf_name_neq a : buf_name a <> a.
Proof.
  unfold buf_name. intros H. apply (f_equal (@length Z)) in H. rewrite app_length in H.
  unfold buf_prefix in H. simpl in H. lia.
Qed.
Lemma file_names_disjoint (outs : list (list Z)) :
  NoDup outs -> (forall a b, In a outs -> In b outs -> b <> buf_name a) ->
  NoDup (outs ++ map buf_name outs).
Proof.
  intros Hnd Hcl. induction outs as [|a l IH]; [constructor|].
  inversion Hnd; subst. simpl. constructor.
  - rewrite in_app_iff. intros [H|H]; [contradiction|]. simpl in H. destruct H as [H|H].
    + now apply buf_name_neq in H.
    + apply in_map_iff in H as [b [E Hb]]. apply (Hcl b a); [now right|now left|auto].
  - apply NoDup_mid_add.
    + apply IH; auto. intros x y Hx Hy. apply Hcl; now right.
    + rewrite in_app_iff. intros [H|H].
      * apply (Hcl a (buf_name a)); [now left|now right|reflexivity].
      * apply in_map_iff in H as [b [E Hb]]. apply buf_name_inj in E. now subst.
Qed.

(* ------------------------------------------------------------------ the executable scheduler follows the relation *)
Lemma split_at_spec {A} i (l : list A) l1 t l2 : split_at i l = Some (l1, t, l2) -> l = l1 ++ t :: l2.
Proof.
  revert i l1. induction l as [|x l IH]; intros i l1 H; [destruct i; simpl in H; discriminate|]. destruct i; simpl in H.
  - now inversion H.
  - destruct (split_at i l) as [[[a y] c]|] eqn:E; [|discriminate]. inversion H; subst.
    simpl. f_equal. now apply IH with (i := i).
Qed.

Lemma exec_comp_sound xE xF s who : exec_comp xE xF s who = s \/ astep xE xF s (exec_comp xE xF s who).
Proof.
  unfold exec_comp. destruct who as [i|].
  - destruct (ctor s) eqn:Ec; auto. destruct (split_at i (calls s)) as [[[l1 t] l2]|] eqn:E; auto.
    destruct (lstep xE xF (buf s) (out s) (l1 ++ l2) t) as [[[b' o'] t']|] eqn:El; auto.
    right. apply split_at_spec in E. destruct s as [o b h c cs]. cbn [ctor calls out buf hdr] in *. subst.
    now constructor.
  - destruct (cstep _ _ _ _ _ _) as [[[o' b'] c']|] eqn:E; auto.
    right. destruct s as [o b h c cs]. cbn [ctor calls out buf hdr] in *. now constructor.
Qed.

Lemma reset_calls_idle cs : all_idle (reset_calls cs).
Proof.
  intros t Ht. apply in_map_iff in Ht as [u [<- _]]. unfold idle, setpc. cbn. now destruct (is_eval u).
Qed.

Theorem exec_event_sound ms e : exec_event ms e = ms \/ mstep ms (exec_event ms e).
Proof.
  destruct e as [k i|k|k h cs|k h cs|hc]; cbn [exec_event].
  - destruct (split_at k ms) as [[[m1 s] m2]|] eqn:E; auto. apply split_at_spec in E. subst.
    destruct (exec_comp_sound (others_heldE m1 m2) (others_heldF m1 m2) s (Some i)) as [->|H]; auto.
    right. now constructor.
  - destruct (split_at k ms) as [[[m1 s] m2]|] eqn:E; auto. apply split_at_spec in E. subst.
    destruct (exec_comp_sound (others_heldE m1 m2) (others_heldF m1 m2) s None) as [->|H]; auto.
    right. now constructor.
  - destruct (split_at k ms) as [[[m1 s] m2]|] eqn:E; auto. apply split_at_spec in E. subst.
    right. apply M_sess. constructor. apply reset_calls_idle.
  - destruct (split_at k ms) as [[[m1 s] m2]|] eqn:E; auto. apply split_at_spec in E. subst.
    destruct (all_doneb s) eqn:Ed; auto. right. apply M_sess. constructor; [now apply all_doneb_spec|apply reset_calls_idle].
  - right. apply M_crash_all. revert hc. induction ms as [|s ms IH]; intros hc; simpl; [constructor|].
    destruct hc as [|[h cs] hc]; constructor; auto.
    + exists (hdr s), []. split; [intros t []|reflexivity].
    + exists h, (reset_calls cs). split; [apply reset_calls_idle|reflexivity].
Qed.
