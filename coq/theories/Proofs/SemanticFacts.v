(* Semantic input end to end: the result is determined by the connected components, not by the order in which a
   backend numbers them -- two valid component labellings of the same maps give equivalent results whenever the
   matching is determined (competing candidates meeting the threshold have distinct scores).  With a tie the numbering
   decides which of the tied pairs is matched: that is exactly known finding D15. *)
From Pan Require Import Base.Common Base.Sx Base.Rnd64 Model.MetricTable Model.Metrics Model.EdgeCase Model.Result Model.ZeroCase
  Model.Matcher Model.Relabel Model.Pipeline Model.CCA Model.Semantic Proofs.ListFacts Proofs.CCASpec Proofs.CCAFacts Proofs.CCAUnique
  Proofs.CCAApprox Proofs.Matching Proofs.MatcherQ Proofs.C04Proofs Proofs.Invariance Proofs.ResultEquiv Proofs.RenameInvariance Proofs.RenameUnmatched.
From Coq Require Import Permutation ZifyBool.
Open Scope Z_scope.

(* ---- lookups in sparse maps ---- *)
Lemma slookup_In c k l : NoDup (map fst l) -> In (c, k) l -> slookup c l = k.
Proof.
  induction l as [|[w j] l IH]; intros Hn Hin; [destruct Hin|]. cbn [slookup]. cbn [map fst] in Hn. inversion Hn as [|? ? Hw Hn']; subst.
  destruct Hin as [[= -> ->]|Hin]; [now rewrite cvox_eqb_refl|].
  destruct (cvox_eqb c w) eqn:E; [|now apply IH]. apply cvox_eqb_eq in E. subst w. exfalso. apply Hw. apply in_map_iff. exists (c, k). auto.
Qed.
Lemma slookup_notin c l : ~ In c (map fst l) -> slookup c l = 0.
Proof.
  induction l as [|[w j] l IH]; intros Hn; [reflexivity|]. cbn [slookup]. cbn [map fst] in Hn.
  destruct (cvox_eqb c w) eqn:E; [apply cvox_eqb_eq in E; subst; exfalso; apply Hn; now left|]. apply IH. intros H. apply Hn. now right.
Qed.
Lemma slookup_cases c l : slookup c l = 0 \/ In (c, slookup c l) l.
Proof.
  induction l as [|[w j] l IH]; [now left|]. cbn [slookup]. destruct (cvox_eqb c w) eqn:E.
  - apply cvox_eqb_eq in E. subst. right. now left.
  - destruct IH as [H|H]; [now left|right; now right].
Qed.
Lemma slookup_relabel f c l : f 0 = 0 -> slookup c (CCASpec.relabel f l) = f (slookup c l).
Proof.
  intros H0. induction l as [|[w j] l IH]; unfold CCASpec.relabel; cbn [map slookup fst snd]; [now rewrite H0|]. destruct (cvox_eqb c w); [reflexivity|exact IH].
Qed.

(* a labelling with the same voxels is the pointwise image of the other *)
Lemma same_voxels_pointwise (l l' : smap) : map fst l' = map fst l -> NoDup (map fst l) ->
  l' = map (fun p => (fst p, slookup (fst p) l')) l.
Proof.
  revert l'. induction l as [|[c k] l IH]; intros l' E Hn; destruct l' as [|[c' k'] l']; try discriminate; [reflexivity|].
  cbn [map fst] in E. injection E as -> E. cbn [map fst] in Hn. inversion Hn as [|? ? Hc Hn']; subst.
  cbn [map fst snd slookup]. rewrite cvox_eqb_refl. f_equal. rewrite (IH l' E Hn') at 1. apply map_ext_in. intros p Hp. f_equal.
  destruct (cvox_eqb (fst p) c) eqn:Ec; [|reflexivity]. apply cvox_eqb_eq in Ec. exfalso. apply Hc. rewrite <- Ec. now apply in_map.
Qed.

(* ---- the renaming between two labellings with the same partition ---- *)
Definition ren (l l' : smap) (k : Z) : Z :=
  match find (fun p => snd p =? k) l with Some p => slookup (fst p) l' | None => 0 end.

Section TwoLabellings.
  Variables (b : backend) (m l l' : smap) (n n' : Z).
  Hypothesis W : wf m.
  Hypothesis H1 : is_cca b m l n.
  Hypothesis H2 : is_cca b m l' n'.

  Lemma lab_nodup : NoDup (map fst l) /\ NoDup (map fst l').
  Proof. destruct H1 as (E1 & _). destruct H2 as (E2 & _). rewrite E1, E2. split; exact (proj1 W). Qed.
  Lemma lab_same_voxels : map fst l' = map fst l.
  Proof. destruct H1 as (E1 & _). destruct H2 as (E2 & _). congruence. Qed.
  Lemma lab_pos p : In p l -> 1 <= snd p.
  Proof. intros H. destruct H1 as (_ & _ & Hr & _). specialize (Hr p H). lia. Qed.
  Lemma lab_pos' p : In p l' -> 1 <= snd p.
  Proof. intros H. destruct H2 as (_ & _ & Hr & _). specialize (Hr p H). lia. Qed.
  Lemma same_partition v w : same_label l v w <-> same_label l' v w.
  Proof. destruct (unique_partition b m W l n l' n' H1 H2 v w) as [A B]. split; assumption. Qed.

  Lemma in_l'_of_l p : In p l -> In (fst p, slookup (fst p) l') l'.
  Proof.
    intros Hp. destruct (slookup_cases (fst p) l') as [E|H]; [|exact H]. exfalso.
    assert (Hin : In (fst p) (map fst l')) by (rewrite lab_same_voxels; now apply in_map).
    apply in_map_iff in Hin as ([c k'] & Ec & Hq). cbn [fst] in Ec. subst c.
    rewrite (slookup_In (fst p) k' l' (proj2 lab_nodup) Hq) in E. apply lab_pos' in Hq. cbn in Hq. lia.
  Qed.

  Lemma ren_spec p : In p l -> slookup (fst p) l' = ren l l' (snd p).
  Proof.
    intros Hp. unfold ren. destruct (find (fun q => snd q =? snd p) l) as [q|] eqn:E.
    - apply find_some in E as [Hq Eq]. apply Z.eqb_eq in Eq.
      assert (Hs : same_label l (fst q) (fst p)).
      { exists (snd p). split; [rewrite <- Eq; destruct q; exact Hq|destruct p; exact Hp]. }
      apply same_partition in Hs as (k' & Ha & Hb).
      rewrite (slookup_In _ _ _ (proj2 lab_nodup) Ha), (slookup_In _ _ _ (proj2 lab_nodup) Hb). reflexivity.
    - apply (find_none _ _ E) in Hp. apply Z.eqb_neq in Hp. congruence.
  Qed.

  Lemma relabelled : l' = CCASpec.relabel (ren l l') l.
  Proof.
    rewrite (same_voxels_pointwise l l' lab_same_voxels (proj1 lab_nodup)) at 1. unfold CCASpec.relabel. apply map_ext_in. intros p Hp.
    f_equal. now apply ren_spec.
  Qed.

  Lemma ren_nonzero p : In p l -> ren l l' (snd p) <> 0.
  Proof.
    intros Hp. rewrite <- ren_spec by exact Hp. pose proof (in_l'_of_l p Hp) as H. apply lab_pos' in H. cbn [snd] in H. lia.
  Qed.
  Lemma ren_zero : ren l l' 0 = 0.
  Proof.
    unfold ren. destruct (find (fun p => snd p =? 0) l) as [q|] eqn:E; [|reflexivity].
    apply find_some in E as [Hq Eq]. apply Z.eqb_eq in Eq. apply lab_pos in Hq. lia.
  Qed.
  Lemma ren_inj p q : In p l -> In q l -> ren l l' (snd p) = ren l l' (snd q) -> snd p = snd q.
  Proof.
    intros Hp Hq E. rewrite <- !ren_spec in E by assumption.
    assert (Hs : same_label l' (fst p) (fst q)).
    { exists (slookup (fst p) l'). split; [now apply in_l'_of_l|rewrite E; now apply in_l'_of_l]. }
    apply same_partition in Hs as (k & Ha & Hb).
    assert (Ep : snd p = k) by (rewrite <- (slookup_In _ _ _ (proj1 lab_nodup) Ha); symmetry; apply slookup_In; [exact (proj1 lab_nodup)|destruct p; exact Hp]).
    assert (Eq : snd q = k) by (rewrite <- (slookup_In _ _ _ (proj1 lab_nodup) Hb); symmetry; apply slookup_In; [exact (proj1 lab_nodup)|destruct q; exact Hq]).
    congruence.
  Qed.

  (* injective on the labels that occur, and on the background *)
  Lemma ren_inj_on vals : (forall y, In y vals -> y = 0 \/ exists p, In p l /\ snd p = y) -> inj_on (ren l l') (0 :: vals).
  Proof.
    intros Hv y z Hy Hz E.
    assert (Hc : forall u, In u (0 :: vals) -> u = 0 \/ exists p, In p l /\ snd p = u) by (intros u [<-|Hu]; [now left|now apply Hv]).
    destruct (Hc y Hy) as [->|(p & Hp & <-)], (Hc z Hz) as [->|(q & Hq & <-)]; [reflexivity| | |].
    - rewrite ren_zero in E. symmetry in E. now apply ren_nonzero in E.
    - rewrite ren_zero in E. now apply ren_nonzero in E.
    - now apply ren_inj.
  Qed.
End TwoLabellings.

(* ---- the joined voxel list under a renaming of the two labellings ---- *)
Lemma filter_map_comm2 {A B} (g : A -> B) (p : B -> bool) l : filter p (map g l) = map g (filter (fun x => p (g x)) l).
Proof. induction l as [|x l IH]; cbn; [reflexivity|]. destruct (p (g x)); cbn; now rewrite IH. Qed.

Lemma join_relabel fr fp lr lp : fr 0 = 0 -> fp 0 = 0 ->
  (forall e, In e lp -> (fr (slookup (fst e) lr) =? 0) = (slookup (fst e) lr =? 0)) ->
  join (CCASpec.relabel fr lr) (CCASpec.relabel fp lp) = rename fr fp (join lr lp).
Proof.
  intros Hr0 Hp0 Hz. unfold join, rename. rewrite map_app. f_equal.
  - transitivity (map (fun e : cvox * Z => (fr (snd e), fp (slookup (fst e) lp))) lr).
    + change (CCASpec.relabel fr lr) with (map (fun p : cvox * Z => (fst p, fr (snd p))) lr). rewrite map_map. apply map_ext. intros e.
      cbn [fst snd]. now rewrite slookup_relabel.
    + rewrite map_map. reflexivity.
  - transitivity (map (fun e : cvox * Z => (0, fp (snd e))) (filter (fun e => slookup (fst e) lr =? 0) lp)).
    + change (CCASpec.relabel fp lp) with (map (fun p : cvox * Z => (fst p, fp (snd p))) lp). rewrite filter_map_comm2, map_map. cbn [fst snd].
      f_equal. apply filter_ext_in. intros e He. rewrite slookup_relabel by exact Hr0. now apply Hz.
    + rewrite map_map. apply map_ext. intros e. cbn [fst snd]. now rewrite Hr0.
Qed.

Lemma join_fst lr lp y : In y (map fst (join lr lp)) -> y = 0 \/ exists p, In p lr /\ snd p = y.
Proof.
  unfold join. rewrite map_app, in_app_iff, !map_map. cbn [fst]. intros [H|H]; apply in_map_iff in H as (e & <- & He); [right; eauto|now left].
Qed.
Lemma join_snd lr lp y : In y (map snd (join lr lp)) -> y = 0 \/ exists p, In p lp /\ snd p = y.
Proof.
  unfold join. rewrite map_app, in_app_iff, !map_map. cbn [snd]. intros [H|H]; apply in_map_iff in H as (e & <- & He).
  - destruct (slookup_cases (fst e) lp) as [E|Hin]; [now left|right; eauto].
  - apply filter_In in He as [He _]. right. eauto.
Qed.

Lemma join_nonneg lr lp : (forall p, In p lr -> 1 <= snd p) -> (forall p, In p lp -> 1 <= snd p) -> nonneg_arr (join lr lp).
Proof.
  intros Hr Hp v Hv.
  assert (H1 : In (fst v) (map fst (join lr lp))) by now apply in_map.
  assert (H2 : In (snd v) (map snd (join lr lp))) by now apply in_map.
  apply join_fst in H1 as [->|(p & Hin & <-)]; apply join_snd in H2 as [->|(q & Hq & <-)]; try specialize (Hr _ Hin); try specialize (Hp _ Hq); lia.
Qed.

(* ---- the result does not depend on how the components are numbered ---- *)
Theorem semantic_numbering_independent b pred ref lp np lp' np' lr nr lr' nr' x x' c :
  wf pred -> wf ref ->
  is_cca b pred lp np -> is_cca b pred lp' np' -> is_cca b ref lr nr -> is_cca b ref lr' nr' ->
  (c_matcher c = 1 \/ c_matcher c = 2) ->
  (* the geometric metric values supplied for the two runs agree on corresponding instances *)
  (forall rp, In rp (overlap_pairs (join lr lp)) -> x_pair x' (ren lr lr' (fst rp), ren lp lp' (snd rp)) = x_pair x rp) ->
  (forall m l, In l (ref_labels_of (join lr lp)) -> x_inst x' m (ren lr lr' l) = x_inst x m l) ->
  competing_distinct Q (better_eq (decreasing (c_mmetric c))) (fun s => beats (decreasing (c_mmetric c)) s (c_mthr c))
    (c_matcher c =? 2) (cand_list x (c_mmetric c) (join lr lp)) ->
  res_rel result_equiv (pipeline x c (join lr lp)) (pipeline x' c (join lr' lp')).
Proof.
  intros Wp Wr Hp Hp' Hr Hr' Hk Hxp Hxi Hties.
  set (fr := ren lr lr'). set (fp := ren lp lp').
  assert (Er : lr' = CCASpec.relabel fr lr) by exact (relabelled b ref lr lr' nr nr' Wr Hr Hr').
  assert (Ep : lp' = CCASpec.relabel fp lp) by exact (relabelled b pred lp lp' np np' Wp Hp Hp').
  assert (Hr0 : fr 0 = 0) by exact (ren_zero b ref lr lr' nr Hr).
  assert (Hp0 : fp 0 = 0) by exact (ren_zero b pred lp lp' np Hp).
  assert (Hz : forall e, In e lp -> (fr (slookup (fst e) lr) =? 0) = (slookup (fst e) lr =? 0)).
  { intros e _. destruct (slookup_cases (fst e) lr) as [E|Hin]; [now rewrite E, Hr0|].
    pose proof (ren_nonzero b ref lr lr' nr nr' Wr Hr Hr' _ Hin) as Hn. cbn [snd] in Hn. fold fr in Hn.
    pose proof (lab_pos b ref lr nr Hr _ Hin) as Hpos. cbn [snd] in Hpos.
    destruct (fr (slookup (fst e) lr) =? 0) eqn:E1, (slookup (fst e) lr =? 0) eqn:E2; try reflexivity; lia. }
  rewrite Er, Ep, (join_relabel fr fp lr lp Hr0 Hp0 Hz).
  apply pipeline_naive_rename; try assumption.
  - apply join_nonneg; [exact (lab_pos b ref lr nr Hr)|exact (lab_pos b pred lp np Hp)].
  - rewrite <- (join_relabel fr fp lr lp Hr0 Hp0 Hz), <- Er, <- Ep.
    apply join_nonneg; [exact (lab_pos b ref lr' nr' Hr')|exact (lab_pos b pred lp' np' Hp')].
  - apply (ren_inj_on b ref lr lr' nr nr' Wr Hr Hr'). apply join_fst.
  - apply (ren_inj_on b pred lp lp' np np' Wp Hp Hp'). apply join_snd.
Qed.

(* in particular for the labellings the model computes: approximate_instances followed by the pipeline *)
Corollary semantic_pipeline_unfold bk nd x c pred ref : wf pred -> wf ref -> (forall p, In p pred \/ In p ref -> 0 < snd p) ->
  exists lp np lr nr,
    is_cca (pick_backend bk nd) pred lp np /\ is_cca (pick_backend bk nd) ref lr nr /\
    semantic_pipeline bk nd x c pred ref = pipeline x c (join lr lp).
Proof.
  intros Wp Wr Hpos. destruct (approx_ok bk nd pred ref Wp Wr Hpos) as (lp & np & lr & nr & E & H1 & H2).
  exists lp, np, lr, nr. split; [exact H1|]. split; [exact H2|]. unfold semantic_pipeline. now rewrite E.
Qed.
