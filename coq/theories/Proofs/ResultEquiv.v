(* Equivalence of result objects up to the order of the per-instance value lists.
   A permutation of the instances (label renaming, exchange of roles after sorting, ...) permutes
   every per-metric list in the same way; the averages, variances and products are then equal as
   rationals (Qeq).  [result_equiv] is the relation in which the pipeline-level invariance theorems
   of C09 / C11 are stated. *)
From Pan Require Import Base.Common Base.Sx Base.Rnd64 Model.MetricTable Model.EdgeCase Model.Result.
From Coq Require Import Permutation Qfield Setoid Morphisms.
Open Scope Z_scope.

Definition feq (a b : fval) : Prop :=
  match a, b with
  | FQ x, FQ y => (x == y)%Q
  | FInf, FInf | FNInf, FNInf | FNan, FNan | FNone, FNone => True
  | _, _ => False
  end.
Definition ofeq (a b : option fval) : Prop :=
  match a, b with Some x, Some y => feq x y | None, None => True | _, _ => False end.

Lemma feq_refl a : feq a a.
Proof. destruct a; cbn; auto. reflexivity. Qed.
Lemma feq_sym a b : feq a b -> feq b a.
Proof. destruct a, b; cbn; auto. intros H. now symmetry. Qed.
Lemma feq_trans a b c : feq a b -> feq b c -> feq a c.
Proof. destruct a, b, c; cbn; auto; try tauto. intros H1 H2. now rewrite H1. Qed.
Lemma ofeq_refl a : ofeq a a.
Proof. destruct a; cbn; auto using feq_refl. Qed.

Definition mres_equiv (p q : mres) : Prop :=
  m_metric p = m_metric q /\ feq (m_sq p) (m_sq q) /\ feq (m_var p) (m_var q) /\
  ofeq (m_pq p) (m_pq q) /\ Permutation (m_all p) (m_all q).
Definition result_equiv (r s : result) : Prop :=
  o_np r = o_np s /\ o_nr r = o_nr s /\ o_tp r = o_tp s /\ o_fp r = o_fp s /\ o_fn r = o_fn s /\
  o_prec r = o_prec s /\ o_rec r = o_rec s /\ o_rq r = o_rq s /\ Forall2 mres_equiv (o_metrics r) (o_metrics s).
Definition res_rel {A} (R : A -> A -> Prop) (x y : res A) : Prop :=
  match x, y with Ok a, Ok b => R a b | Err e, Err e' => e = e' | _, _ => False end.

Lemma mres_equiv_refl p : mres_equiv p p.
Proof. repeat split; auto using feq_refl, ofeq_refl. Qed.
Lemma result_equiv_refl r : result_equiv r r.
Proof.
  repeat split; auto. induction (o_metrics r); constructor; auto using mres_equiv_refl.
Qed.

(* ---- sums, means, variances of permuted lists ---- *)
Lemma sumQ_perm l l' : Permutation l l' -> (sumQ l == sumQ l')%Q.
Proof.
  induction 1 as [|x l l' _ IH|x y l|l l' l'' _ IH1 _ IH2]; cbn [sumQ fold_right].
  - reflexivity.
  - fold (sumQ l). fold (sumQ l'). now rewrite IH.
  - fold (sumQ l). ring.
  - now rewrite IH1.
Qed.
Lemma lenQ_perm l l' : Permutation l l' -> lenQ l = lenQ l'.
Proof. intros H. unfold lenQ. now rewrite (Permutation_length H). Qed.
Lemma meanQ_perm l l' : Permutation l l' -> (meanQ l == meanQ l')%Q.
Proof. intros H. unfold meanQ. now rewrite (sumQ_perm _ _ H), (lenQ_perm _ _ H). Qed.

Lemma sumQ_map_ext (f g : Q -> Q) l : (forall x, f x == g x)%Q -> (sumQ (map f l) == sumQ (map g l))%Q.
Proof.
  intros H. induction l as [|x l IH]; cbn [map sumQ fold_right]; [reflexivity|].
  fold (sumQ (map f l)). fold (sumQ (map g l)). now rewrite IH, H.
Qed.
Lemma varQ_perm l l' : Permutation l l' -> (varQ l == varQ l')%Q.
Proof.
  intros H. unfold varQ. rewrite (lenQ_perm _ _ H).
  assert (E : (sumQ (map (fun x => (x - meanQ l) * (x - meanQ l)) l) ==
               sumQ (map (fun x => (x - meanQ l') * (x - meanQ l')) l'))%Q).
  { rewrite (sumQ_perm _ _ (Permutation_map (fun x => (x - meanQ l) * (x - meanQ l))%Q H)).
    apply sumQ_map_ext. intros x. now rewrite (meanQ_perm _ _ H). }
  now rewrite E.
Qed.

(* ---- fmul respects feq ---- *)
Lemma Qeq_bool_comp x y z : (x == y)%Q -> Qeq_bool x z = Qeq_bool y z.
Proof.
  intros H. destruct (Qeq_bool x z) eqn:E1, (Qeq_bool y z) eqn:E2; auto.
  - apply Qeq_bool_iff in E1. assert (y == z)%Q by now rewrite <- H. apply Qeq_bool_iff in H0. congruence.
  - apply Qeq_bool_iff in E2. assert (x == z)%Q by now rewrite H. apply Qeq_bool_iff in H0. congruence.
Qed.
Lemma Qle_bool_comp x y z : (x == y)%Q -> Qle_bool z x = Qle_bool z y.
Proof.
  intros H. destruct (Qle_bool z x) eqn:E1, (Qle_bool z y) eqn:E2; auto.
  - apply Qle_bool_iff in E1. assert (z <= y)%Q by now rewrite <- H. apply Qle_bool_iff in H0. congruence.
  - apply Qle_bool_iff in E2. assert (z <= x)%Q by now rewrite H. apply Qle_bool_iff in H0. congruence.
Qed.
Lemma fmul_feq a a' b : feq a a' -> ofeq (fmul a b) (fmul a' b).
Proof.
  destruct a, a'; cbn [feq]; try tauto; intros H; try apply ofeq_refl.
  destruct b; cbn [fmul ofeq feq]; auto.
  - now rewrite H.
  - rewrite (Qeq_bool_comp _ _ 0 H), (Qle_bool_comp _ _ 0 H). apply feq_refl.
  - rewrite (Qeq_bool_comp _ _ 0 H), (Qle_bool_comp _ _ 0 H). apply feq_refl.
Qed.

(* ---- the result object ---- *)
Definition lists_equiv (l l' : list (metric * list Q)) : Prop :=
  Forall2 (fun p q => fst p = fst q /\ Permutation (snd p) (snd q)) l l'.

Lemma lookup_m_equiv m l l' : lists_equiv l l' ->
  match lookup_m m l, lookup_m m l' with
  | Some v, Some v' => Permutation v v' | None, None => True | _, _ => False end.
Proof.
  induction 1 as [|[k v] [k' v'] l l' [Ek Hp] _ IH]; cbn [lookup_m]; [exact I|].
  cbn [fst snd] in Ek, Hp. subst k'. destruct (metric_eqb k m); [exact Hp|exact IH].
Qed.

Lemma list_metric_equiv h m tp np nr v v' : Permutation v v' ->
  match list_metric h m tp np nr v, list_metric h m tp np nr v' with
  | Ok s, Ok s' => Permutation (l_all s) (l_all s') /\ feq (l_avg s) (l_avg s') /\ feq (l_var s) (l_var s')
  | Err e, Err e' => e = e'
  | _, _ => False
  end.
Proof.
  intros H. unfold list_metric. destruct (handle_zero_tp h m tp np nr) as [[is_edge ev]|e]; [|reflexivity].
  cbn [l_all l_avg l_var]. split; [exact H|].
  destruct v as [|q v].
  - apply Permutation_nil in H. subst v'. split; apply feq_refl.
  - destruct v' as [|q' v']; [apply Permutation_sym, Permutation_nil in H; discriminate|].
    split.
    + destruct is_edge; [apply feq_refl|]. cbn [feq]. now apply meanQ_perm.
    + cbn [feq]. now apply varQ_perm.
Qed.

Lemma build_metrics_equiv i i' rq ms :
  r_np i = r_np i' -> r_nr i = r_nr i' -> r_tp i = r_tp i' -> r_handler i = r_handler i' ->
  lists_equiv (r_lists i) (r_lists i') ->
  res_rel (Forall2 mres_equiv) (build_metrics i rq ms) (build_metrics i' rq ms).
Proof.
  intros E1 E2 E3 E4 HL. induction ms as [|m ms IH]; cbn [build_metrics]; [constructor|].
  pose proof (lookup_m_equiv m _ _ HL) as Hl.
  destruct (lookup_m m (r_lists i)) as [v|], (lookup_m m (r_lists i')) as [v'|]; try contradiction; [|exact IH].
  pose proof (list_metric_equiv (r_handler i) m (r_tp i) (r_np i) (r_nr i) v v' Hl) as Hm.
  rewrite <- E1, <- E2, <- E3, <- E4.
  destruct (list_metric (r_handler i) m (r_tp i) (r_np i) (r_nr i) v) as [s|e],
           (list_metric (r_handler i) m (r_tp i) (r_np i) (r_nr i) v') as [s'|e']; try contradiction; [|exact Hm].
  destruct Hm as (Ha & Hg & Hv).
  destruct (build_metrics i rq ms) as [r|e], (build_metrics i' rq ms) as [r'|e']; cbn [res_rel] in IH |- *; try contradiction; [|exact IH].
  constructor; [|exact IH]. unfold mres_equiv. cbn [m_metric m_sq m_var m_pq m_all]. repeat split; auto.
  destruct (has_pq m); [now apply fmul_feq|exact I].
Qed.

Theorem panoptica_result_equiv i i' :
  r_np i = r_np i' -> r_nr i = r_nr i' -> r_tp i = r_tp i' -> r_handler i = r_handler i' ->
  lists_equiv (r_lists i) (r_lists i') ->
  res_rel result_equiv (panoptica_result i) (panoptica_result i').
Proof.
  intros E1 E2 E3 E4 HL. unfold panoptica_result. rewrite <- E1, <- E2, <- E3.
  pose proof (build_metrics_equiv i i' (calc_rq (r_np i) (r_nr i) (r_tp i)) all_metrics E1 E2 E3 E4 HL) as H.
  destruct (build_metrics i _ all_metrics) as [r|e], (build_metrics i' _ all_metrics) as [r'|e']; cbn [res_rel] in H |- *; try contradiction; [|exact H].
  unfold result_equiv. cbn. repeat split; auto.
Qed.
