From Pan Require Import Base.Common Model.Metrics Model.Groups Proofs.ListFacts.
From Coq Require Import ZifyBool.
Open Scope Z_scope.

Lemma extract_plain ls x : extract ls false x = if memZ x ls then x else 0.
Proof. reflexivity. Qed.
Lemma extract_in ls x : In x ls -> extract ls false x = x.
Proof. intros H. unfold extract. now rewrite (proj2 (memZ_spec x ls) H). Qed.
Lemma extract_out ls b x : ~ In x ls -> extract ls b x = 0.
Proof. intros H. unfold extract. destruct (memZ x ls) eqn:E; [apply memZ_spec in E; contradiction|reflexivity]. Qed.
Lemma extract_merge ls x : In x ls -> x <> 0 -> extract ls true x = 1.
Proof. intros H Hn. unfold extract. rewrite (proj2 (memZ_spec x ls) H). destruct (x =? 0) eqn:E; [lia|reflexivity]. Qed.
Lemma extract_idem ls x : ~ In 0 ls -> extract ls false (extract ls false x) = extract ls false x.
Proof.
  intros H0. unfold extract. destruct (memZ x ls) eqn:E; [now rewrite E|].
  destruct (memZ 0 ls) eqn:E0; [apply memZ_spec in E0; contradiction|reflexivity].
Qed.

(* two voxels agree w.r.t. a group when they are equal wherever one of them carries a label of the group *)
Definition agree (ls : list Z) (x y : Z) : Prop := (In x ls \/ In y ls) -> x = y.
Lemma extract_agree ls b x y : agree ls x y -> extract ls b x = extract ls b y.
Proof.
  intros H. unfold extract. destruct (memZ x ls) eqn:Ex, (memZ y ls) eqn:Ey.
  - apply memZ_spec in Ex. now rewrite (H (or_introl Ex)).
  - apply memZ_spec in Ex. rewrite (H (or_introl Ex)) in Ex. apply memZ_spec in Ex. congruence.
  - apply memZ_spec in Ey. rewrite <- (H (or_intror Ey)) in Ey. apply memZ_spec in Ey. congruence.
  - reflexivity.
Qed.

(* non-interference: inputs that agree on the group's voxels have the same extraction, hence the same result *)
Theorem extract_arr_noninterference g a a' :
  Forall2 (fun v w => agree (g_labels g) (fst v) (fst w) /\ agree (g_labels g) (snd v) (snd w)) a a' ->
  extract_arr g a = extract_arr g a'.
Proof.
  induction 1 as [|v w a a' [H1 H2] _ IH]; cbn [extract_arr map]; [reflexivity|].
  unfold extract_arr in IH. rewrite IH. now rewrite (extract_agree _ _ _ _ H1), (extract_agree _ _ _ _ H2).
Qed.

Lemma labels_defined_spec gs a : labels_defined gs a = true <->
  forall v, In v a -> (fst v = 0 \/ In (fst v) (all_labels gs)) /\ (snd v = 0 \/ In (snd v) (all_labels gs)).
Proof.
  unfold labels_defined. rewrite forallb_forall. split; intros H v Hv; specialize (H v Hv).
  - rewrite andb_true_iff, !orb_true_iff, !Z.eqb_eq, !memZ_spec in H. exact H.
  - rewrite andb_true_iff, !orb_true_iff, !Z.eqb_eq, !memZ_spec. exact H.
Qed.
