(* C09 for the merge matcher, whole pipeline: when no two candidates have equally good scores, renaming the labels by maps that are
   injective on the labels that occur gives an equivalent result (the candidates are then visited in the same order, every
   merge decision is taken on the same combined scores, and the relabelled arrays again differ by a renaming). *)
From Pan Require Import Base.Common Base.Sx Base.Rnd64 Model.MetricTable Model.Metrics Model.EdgeCase Model.Result Model.ZeroCase
  Model.Matcher Model.Merge Model.Relabel Model.Pipeline Proofs.ListFacts Proofs.RelabelFacts Proofs.MetricsFacts Proofs.Matching
  Proofs.MatcherQ Proofs.MergeFacts Proofs.C04Proofs Proofs.C01Proofs Proofs.Invariance Proofs.PipelineInvariance Proofs.ResultEquiv
  Proofs.RenameInvariance Proofs.RenameUnmatched Proofs.PaddingPipeline.
From Coq Require Import Permutation Sorted ZifyBool.
Open Scope Z_scope.

(* ---- a best-first list is determined by its members when no two members are equally good ---- *)
Section SortedUnique.
  Variable geb : Q -> Q -> bool.
  Hypothesis geb_trans : forall a b c, geb a b = true -> geb b c = true -> geb a c = true.
  Notation sd := (sortedD Q geb).
  Definition strict_scores (l : list qcand) : Prop :=
    forall c d, In c l -> In d l -> c <> d -> ~ (geb (fst c) (fst d) = true /\ geb (fst d) (fst c) = true).

  Lemma sorted_unique (l l' : list qcand) : sd l -> sd l' -> NoDup l -> NoDup l' -> Permutation l l' -> strict_scores l -> l = l'.
  Proof.
    revert l'. induction l as [|c l IH]; intros l' Hs Hs' Hn Hn' Hp Hst.
    - apply Permutation_nil in Hp. now subst.
    - destruct l' as [|d l']; [apply Permutation_sym, Permutation_nil in Hp; discriminate|].
      inversion Hs as [|? ? Hsl Hall]; subst. inversion Hs' as [|? ? Hsl' Hall']; subst.
      inversion Hn as [|? ? Hc Hnl]; subst. inversion Hn' as [|? ? Hd Hnl']; subst.
      rewrite Forall_forall in Hall, Hall'.
      assert (E : c = d).
      { destruct (qcand_eq_dec c d) as [E|N]; [exact E|exfalso].
        assert (Hd_in : In d l).
        { assert (H : In d (c :: l)) by (apply (Permutation_in _ (Permutation_sym Hp)); now left). destruct H as [E|H]; [now subst|exact H]. }
        assert (Hc_in : In c l').
        { assert (H : In c (d :: l')) by (apply (Permutation_in _ Hp); now left). destruct H as [E|H]; [now subst|exact H]. }
        apply (Hst c d); [now left|now right|exact N|]. split; [apply Hall; exact Hd_in|apply Hall'; exact Hc_in]. }
      subst d. f_equal. apply IH; try assumption.
      + now apply Permutation_cons_inv in Hp.
      + intros u v Hu Hv. apply Hst; now right.
  Qed.
End SortedUnique.

(* ---- the merge loop under a renaming ---- *)
Lemma eqb_inj_on f L x y : inj_on f L -> In x L -> In y L -> (f x =? f y) = (x =? y).
Proof.
  intros Hf Hx Hy. destruct (Z.eqb_spec (f x) (f y)) as [E|E], (Z.eqb_spec x y) as [E'|E']; try reflexivity.
  - apply Hf in E; [contradiction|exact Hx|exact Hy].
  - rewrite E' in E. contradiction.
Qed.
Lemma existsb_map_in {A B} (g : A -> B) (p : B -> bool) (q : A -> bool) l :
  (forall x, In x l -> p (g x) = q x) -> existsb p (map g l) = existsb q l.
Proof.
  induction l as [|x l IH]; intros H; cbn [map existsb]; [reflexivity|]. rewrite H by now left. f_equal. apply IH. intros y Hy. apply H. now right.
Qed.

Section MergeRename.
  Variables (sr sp : Z -> Z).
  Variables (PL RL : list Z).
  Hypothesis Hp : inj_on sp PL.
  Hypothesis Hr : inj_on sr RL.
  Variable geb : Q -> Q -> bool.
  Variable beats : Q -> bool.
  Variables (su su' : Z -> list Z -> Q).
  Hypothesis Hsu : forall r ps, In r RL -> incl ps PL -> su' (sr r) (map sp ps) = su r ps.

  Definition st_in (st : mstate Q) : Prop :=
    (forall e, In e (ms_map st) -> In (fst e) PL /\ In (snd e) RL) /\ (forall e, In e (ms_score st) -> In (fst e) RL).
  Definition ren_st (st : mstate Q) : mstate Q :=
    {| ms_map := map (fun e => (sp (fst e), sr (snd e))) (ms_map st); ms_score := map (fun e => (sr (fst e), snd e)) (ms_score st) |}.

  Lemma has_pred_ren st p : st_in st -> In p PL -> has_pred (sp p) (ms_map (ren_st st)) = has_pred p (ms_map st).
  Proof.
    intros [Hm _] Hin. unfold has_pred, ren_st. cbn [ms_map]. apply existsb_map_in. intros e He. cbn [fst].
    apply eqb_inj_on with (L := PL); [exact Hp|now apply Hm|exact Hin].
  Qed.
  Lemma has_ref_ren st r : st_in st -> In r RL -> has_ref (sr r) (ms_map (ren_st st)) = has_ref r (ms_map st).
  Proof.
    intros [Hm _] Hin. unfold has_ref, ren_st. cbn [ms_map]. apply existsb_map_in. intros e He. cbn [snd].
    apply eqb_inj_on with (L := RL); [exact Hr|now apply Hm|exact Hin].
  Qed.
  Lemma preds_of_ren st r : st_in st -> In r RL -> preds_of (sr r) (ms_map (ren_st st)) = map sp (preds_of r (ms_map st)).
  Proof.
    intros [Hm _] Hin. unfold preds_of, ren_st. cbn [ms_map]. revert Hm. induction (ms_map st) as [|e M IH]; intros Hm; [reflexivity|].
    cbn [map filter snd fst]. rewrite (eqb_inj_on sr RL (snd e) r Hr); [|apply (Hm e); now left|exact Hin].
    assert (Hm' : forall e0, In e0 M -> In (fst e0) PL /\ In (snd e0) RL) by (intros e0 H0; apply Hm; now right).
    specialize (IH Hm'). destruct (snd e =? r); cbn [map fst]; now rewrite IH.
  Qed.

  Lemma lookup_score_ren st r : st_in st -> In r RL -> lookup_score (sr r) (ms_score (ren_st st)) = lookup_score r (ms_score st).
  Proof.
    intros [_ Hs] Hin. unfold ren_st. cbn [ms_score]. revert Hs. induction (ms_score st) as [|[k v] l IH]; intros Hs; [reflexivity|].
    cbn [map lookup_score fst snd]. rewrite (eqb_inj_on sr RL k r Hr); [|apply (Hs (k, v)); now left|exact Hin].
    destruct (k =? r); [reflexivity|]. apply IH. intros e He. apply Hs. now right.
  Qed.
  Lemma update_score_ren l r s : (forall e, In e l -> In (fst e) RL) -> In r RL ->
    update_score Q (sr r) s (map (fun e : Z * Q => (sr (fst e), snd e)) l) = map (fun e : Z * Q => (sr (fst e), snd e)) (update_score Q r s l).
  Proof.
    intros Hs Hin. induction l as [|[k v] l IH]; [reflexivity|]. cbn [map update_score fst snd].
    rewrite (eqb_inj_on sr RL k r Hr); [|apply (Hs (k, v)); now left|exact Hin].
    destruct (k =? r); cbn [map fst snd]; [reflexivity|]. f_equal. apply IH. intros e He. apply Hs. now right.
  Qed.

  Lemma merge_step_ren st c : st_in st -> In (cpred c) PL -> In (cref c) RL ->
    (forall e, In e (ms_map st) -> True) ->
    merge_step geb Qeq_bool beats su' (ren_st st) (mapc Q (fun rp => (sr (fst rp), sp (snd rp))) c) =
      ren_st (merge_step geb Qeq_bool beats su st c) /\ st_in (merge_step geb Qeq_bool beats su st c).
  Proof.
    intros Hst Hpc Hrc _. pose proof Hst as [Hm Hs].
    assert (Hps : incl (preds_of (cref c) (ms_map st) ++ [cpred c]) PL).
    { intros p Hin. apply in_app_or in Hin as [Hin|[<-|[]]]; [|exact Hpc]. unfold preds_of in Hin. apply in_map_iff in Hin as (e & <- & He).
      apply filter_In in He as [He _]. now apply Hm. }
    unfold merge_step. unfold mapc, cref, cpred. cbn [fst snd]. fold (cref c). fold (cpred c).
    rewrite (lookup_score_ren st (cref c) Hst Hrc), (has_pred_ren st (cpred c) Hst Hpc).
    assert (Hin_new : forall st', ms_map st' = ms_map st ++ [(cpred c, cref c)] ->
              (forall e, In e (ms_score st') -> In (fst e) RL) -> st_in st').
    { intros st' E Hs'. split; [|exact Hs']. intros e He. rewrite E in He. apply in_app_or in He as [He|[<-|[]]]; [now apply Hm|split; assumption]. }
    destruct (lookup_score (cref c) (ms_score st)) as [old|] eqn:El.
    - rewrite (has_ref_ren st (cref c) Hst Hrc), (preds_of_ren st (cref c) Hst Hrc).
      replace (map sp (preds_of (cref c) (ms_map st)) ++ [sp (cpred c)]) with (map sp (preds_of (cref c) (ms_map st) ++ [cpred c])) by (now rewrite map_app).
      rewrite (Hsu (cref c) _ Hrc Hps).
      destruct (merge_action _ _ _ _ _); split; try reflexivity; try exact Hst.
      + unfold ren_st. cbn [ms_map ms_score]. rewrite map_app. cbn [map fst snd]. f_equal. apply update_score_ren; [exact Hs|exact Hrc].
      + apply Hin_new; [reflexivity|]. cbn [ms_score]. intros e He.
        assert (G : forall l, (forall e0, In e0 l -> In (fst e0) RL) -> forall e0, In e0 (update_score Q (cref c) (su (cref c) (preds_of (cref c) (ms_map st) ++ [cpred c])) l) -> In (fst e0) RL).
        { induction l as [|[k v] l IHl]; intros Hl e0 H0; [destruct H0|]. cbn [update_score] in H0. destruct (k =? cref c).
          - destruct H0 as [<-|H0]; [apply (Hl (k, v)); now left|apply Hl; now right].
          - destruct H0 as [<-|H0]; [apply (Hl (k, v)); now left|apply IHl; [intros; apply Hl; now right|exact H0]]. }
        exact (G _ Hs e He).
      + unfold ren_st. cbn [ms_map ms_score]. rewrite !map_app. reflexivity.
      + apply Hin_new; [reflexivity|]. cbn [ms_score]. intros e He. apply in_app_or in He as [He|[<-|[]]]; [now apply Hs|exact Hrc].
    - destruct (merge_action _ false _ false false); split; try reflexivity; try exact Hst.
      + unfold ren_st. cbn [ms_map ms_score]. rewrite !map_app. reflexivity.
      + apply Hin_new; [reflexivity|]. cbn [ms_score]. intros e He. apply in_app_or in He as [He|[<-|[]]]; [now apply Hs|exact Hrc].
  Qed.
  Lemma merge_fold_ren l st : st_in st -> (forall c, In c l -> In (cpred c) PL /\ In (cref c) RL) ->
    fold_left (merge_step geb Qeq_bool beats su') (map (mapc Q (fun rp => (sr (fst rp), sp (snd rp)))) l) (ren_st st) =
      ren_st (fold_left (merge_step geb Qeq_bool beats su) l st) /\ st_in (fold_left (merge_step geb Qeq_bool beats su) l st).
  Proof.
    revert st. induction l as [|c l IH]; intros st Hst Hl; cbn [map fold_left]; [split; [reflexivity|exact Hst]|].
    destruct (Hl c (or_introl eq_refl)) as [Hpc Hrc].
    destruct (merge_step_ren st c Hst Hpc Hrc (fun _ _ => I)) as [E Hst']. rewrite E. apply IH; [exact Hst'|]. intros d Hd. apply Hl. now right.
  Qed.
End MergeRename.

Lemma sortedD_map geb (g : Z * Z -> Z * Z) l : sortedD Q geb l -> sortedD Q geb (map (mapc Q g) l).
Proof.
  induction 1 as [|c l Hs IH Hall]; cbn [map]; constructor; [exact IH|]. rewrite Forall_forall in *. intros d Hd.
  apply in_map_iff in Hd as (d0 & <- & Hd0). unfold mapc. cbn [fst]. now apply Hall.
Qed.

Lemma NoDup_map_inj_in {A B} (g : A -> B) l : (forall u v, In u l -> In v l -> g u = g v -> u = v) -> NoDup l -> NoDup (map g l).
Proof.
  intros Hg. induction 1 as [|u l Hu Hn IH]; cbn [map]; constructor.
  - intros H. apply in_map_iff in H as (v & E & Hv). apply Hg in E; [subst; contradiction|now right|now left].
  - apply IH. intros a b Ha Hb. apply Hg; now right.
Qed.

Theorem pipeline_merge_rename sr sp a x x' c :
  nonneg_arr a -> nonneg_arr (rename sr sp a) -> c_matcher c = 3 ->
  inj_on sr (0 :: map fst a) -> inj_on sp (0 :: map snd a) -> sr 0 = 0 -> sp 0 = 0 ->
  (forall rp, In rp (overlap_pairs a) -> x_pair x' (sr (fst rp), sp (snd rp)) = x_pair x rp) ->
  (forall m l, In l (ref_labels_of a) -> x_inst x' m (sr l) = x_inst x m l) ->
  (forall r ps, In r (ref_labels_of a) -> incl ps (pred_labels_of a) -> x_union x' (sr r) (map sp ps) = x_union x r ps) ->
  (forall cd, In cd (cand_list x (c_mmetric c) a) -> fst cd = x_union x (cref cd) [cpred cd]) ->
  strict_scores (better_eq (decreasing (c_mmetric c))) (cand_list x (c_mmetric c) a) ->
  res_rel result_equiv (pipeline x c a) (pipeline x' c (rename sr sp a)).
Proof.
  intros Hnn Hnn' Hk Hr Hp Hr0 Hp0 Hxp Hxi Hxu Hseed Hstrict.
  set (decr := decreasing (c_mmetric c)) in *. set (f := fun rp : Z * Z => (sr (fst rp), sp (snd rp))).
  set (cs := cand_list x (c_mmetric c) a) in *. set (cs' := cand_list x' (c_mmetric c) (rename sr sp a)).
  set (PL := pred_labels_of a). set (RL := ref_labels_of a).
  assert (HpL : inj_on sp PL).
  { eapply inj_on_incl; [|exact Hp]. intros p Hin. right. now apply pred_labels_in. }
  assert (HrL : inj_on sr RL).
  { eapply inj_on_incl; [|exact Hr]. intros r Hin. right. now apply ref_labels_in. }
  assert (Hlab : forall cd, In cd cs -> In (cpred cd) PL /\ In (cref cd) RL).
  { intros cd Hc. apply cand_list_pairs, overlap_pairs_spec in Hc as (Hin & Hrn & Hpn). unfold cpred, cref. split.
    - apply pred_labels_spec. split; [exact Hpn|]. exists (snd cd). auto.
    - apply ref_labels_spec. split; [exact Hrn|]. exists (snd cd). auto. }
  assert (Hmem : forall d, In d (map (mapc Q f) cs) <-> In d cs').
  { intros d. symmetry. apply (cand_list_rename sr sp a Hr Hp Hr0 Hp0 x x' Hxp). }
  assert (Hinj : forall u v, In u cs -> In v cs -> mapc Q f u = mapc Q f v -> u = v).
  { intros u v Hu Hv E. destruct u as [s k], v as [s' k']. unfold mapc in E. cbn [fst snd] in E.
    assert (Es : s = s') by congruence. assert (Ek : f k = f k') by congruence. subst s'. unfold f in Ek.
    apply (f_inj_pairs sr sp a Hr Hp) in Ek; [now subst|exact (cand_list_pairs x _ a _ Hu)|exact (cand_list_pairs x _ a _ Hv)]. }
  assert (Hnd : NoDup (map (mapc Q f) cs)).
  { apply NoDup_map_inj_in; [exact Hinj|apply cand_list_NoDup]. }
  (* the candidates are visited in the same order *)
  assert (Hsort : sort_cands (better_eq decr) cs' = map (mapc Q f) (sort_cands (better_eq decr) cs)).
  { symmetry. apply (sorted_unique (better_eq decr)).
    - apply sortedD_map. apply sort_sorted; [apply better_eq_trans|apply better_eq_total].
    - apply sort_sorted; [apply better_eq_trans|apply better_eq_total].
    - eapply Permutation_NoDup; [apply Permutation_map; apply sort_perm|exact Hnd].
    - eapply Permutation_NoDup; [apply sort_perm|apply cand_list_NoDup].
    - eapply Permutation_trans; [apply Permutation_sym, Permutation_map, sort_perm|].
      eapply Permutation_trans; [|apply sort_perm]. apply NoDup_Permutation; [exact Hnd|apply cand_list_NoDup|exact Hmem].
    - intros u v Hu Hv Hne. apply in_map_iff in Hu as (u0 & <- & Hu0). apply in_map_iff in Hv as (v0 & <- & Hv0).
      unfold mapc. cbn [fst]. apply Hstrict.
      + exact (Permutation_in _ (Permutation_sym (sort_perm Q (better_eq decr) cs)) Hu0).
      + exact (Permutation_in _ (Permutation_sym (sort_perm Q (better_eq decr) cs)) Hv0).
      + intros ->. now apply Hne. }
  unfold pipeline. rewrite Hk. cbn [Z.eqb Pos.eqb].
  destruct (n_inst_rename sr sp a Hr Hp Hr0 Hp0) as [En Em]. rewrite En, Em.
  destruct (zero_case (n_pred_inst a) (n_ref_inst a)) as [[nr np]|].
  { apply panoptica_result_equiv; cbn [r_np r_nr r_tp r_handler r_lists]; auto. apply lists_equiv_refl. }
  unfold match_phase. rewrite Hk. cbn [Z.eqb Pos.eqb]. fold decr. fold cs. fold cs'.
  set (bt := fun s => beats decr s (c_mthr c)).
  assert (Hfold := merge_fold_ren sr sp PL RL HpL HrL (better_eq decr) bt (x_union x) (x_union x')
                     (fun r ps Hrin Hps => Hxu r ps Hrin Hps) (sort_cands (better_eq decr) cs) {| ms_map := []; ms_score := [] |}).
  destruct Hfold as [Ef _].
  { split; intros e [] . }
  { intros cd Hc. apply Hlab. exact (Permutation_in _ (Permutation_sym (sort_perm Q (better_eq decr) cs)) Hc). }
  set (st := merge_match (better_eq decr) Qeq_bool bt (x_union x) cs).
  assert (Est : merge_match (better_eq decr) Qeq_bool bt (x_union x') cs' = ren_st sr sp st).
  { unfold merge_match. rewrite Hsort. exact Ef. }
  rewrite Est.
  assert (Hwf : wf_matching (ms_map st) a) by exact (merge_wf x c a Hseed).
  assert (Hwf' : wf_matching (ms_map (ren_st sr sp st)) (rename sr sp a)).
  { destruct Hwf as [Hfun Hin]. split.
    - unfold ren_st. cbn [ms_map]. rewrite map_map. cbn [fst]. rewrite <- (map_map fst sp). apply NoDup_map_inj_on; [|exact Hfun].
      eapply inj_on_incl; [|exact HpL]. intros p Hpin. apply in_map_iff in Hpin as ([p0 r0] & <- & He). exact (proj1 (Hin p0 r0 He)).
    - intros p' r' He. unfold ren_st in He. cbn [ms_map] in He. apply in_map_iff in He as ([p0 r0] & [= <- <-] & He). destruct (Hin p0 r0 He) as [H1 H2]. cbn [fst snd]. split.
      + apply (pred_labels_rename_in sr sp a Hp Hp0). now apply in_map.
      + apply (ref_labels_rename_in sr sp a Hr Hr0). now apply in_map. }
  apply (eval_after_matching_rename sr sp a (ms_map st) (ms_map (ren_st sr sp st)) Hr Hp Hr0 Hp0 Hnn Hnn' Hwf Hwf'); [|exact Hxi].
  intros p' r'. unfold ren_st. cbn [ms_map]. rewrite in_map_iff. split.
  - intros ([p0 r0] & [= <- <-] & He). exists p0, r0. auto.
  - intros (p0 & r0 & He & -> & ->). exists (p0, r0). auto.
Qed.

