(* The whole geometry-free pipeline is invariant under any permutation of the voxels
   (flips, axis permutations, any change of memory order). *)
From Pan Require Import Base.Common Model.MetricTable Model.Metrics Model.EdgeCase Model.Result Model.ZeroCase
  Model.Matcher Model.Merge Model.Relabel Model.Pipeline Proofs.ListFacts Proofs.MetricsFacts Proofs.MatcherQ Proofs.Invariance.
From Coq Require Import Permutation Sorted ZifyBool.
Open Scope Z_scope.

(* ---- np.unique is canonical ---- *)
Lemma insZ_sorted x l : StronglySorted Z.le l -> StronglySorted Z.le (insZ x l).
Proof.
  induction l as [|y l IH]; intros Hs; cbn [insZ]; [repeat constructor|].
  inversion Hs as [|? ? Hs' Hall]; subst. destruct (x <=? y) eqn:E.
  - constructor; [exact Hs|]. constructor; [lia|]. rewrite Forall_forall in *. intros z Hz. specialize (Hall z Hz). lia.
  - constructor; [now apply IH|]. rewrite Forall_forall in *. intros z Hz.
    apply (Permutation_in _ (Permutation_sym (insZ_perm x l))) in Hz. destruct Hz as [<-|Hz]; [lia|now apply Hall].
Qed.
Lemma sortZ_sorted l : StronglySorted Z.le (sortZ l).
Proof. unfold sortZ. induction l as [|x l IH]; cbn [fold_right]; [constructor|now apply insZ_sorted]. Qed.

Lemma sorted_NoDup_ext l l' : StronglySorted Z.le l -> StronglySorted Z.le l' -> NoDup l -> NoDup l' ->
  (forall x, In x l <-> In x l') -> l = l'.
Proof.
  revert l'. induction l as [|x l IH]; intros l' Hs Hs' Hn Hn' Hin.
  - destruct l' as [|y l']; [reflexivity|]. exfalso. apply (Hin y). now left.
  - destruct l' as [|y l']; [exfalso; apply (Hin x); now left|].
    inversion Hs as [|? ? Hsl Hall]; subst. inversion Hs' as [|? ? Hsl' Hall']; subst.
    inversion Hn as [|? ? Hx Hnl]; subst. inversion Hn' as [|? ? Hy Hnl']; subst.
    rewrite Forall_forall in Hall, Hall'.
    assert (x = y).
    { destruct (proj1 (Hin x) (or_introl eq_refl)) as [->|Hx']; [reflexivity|].
      destruct (proj2 (Hin y) (or_introl eq_refl)) as [->|Hy']; [reflexivity|].
      specialize (Hall y Hy'). specialize (Hall' x Hx'). lia. }
    subst y. f_equal. apply IH; try assumption. intros z. split; intros Hz.
    + destruct (proj1 (Hin z) (or_intror Hz)) as [<-|H']; [contradiction|exact H'].
    + destruct (proj2 (Hin z) (or_intror Hz)) as [<-|H']; [contradiction|exact H'].
Qed.

Lemma uniqueZ_ext l l' : (forall x, In x l <-> In x l') -> uniqueZ l = uniqueZ l'.
Proof.
  intros H. apply sorted_NoDup_ext; try apply uniqueZ_NoDup; try (unfold uniqueZ; apply sortZ_sorted).
  intros x. rewrite !uniqueZ_In. apply H.
Qed.

Lemma labels_perm a a' : Permutation a a' ->
  pred_labels_of a = pred_labels_of a' /\ ref_labels_of a = ref_labels_of a'.
Proof.
  intros H. unfold pred_labels_of, ref_labels_of. split; apply uniqueZ_ext; intros x; rewrite !filter_In, !in_map_iff;
    split; intros [(v & E & Hv) Hn]; (split; [exists v; split; [exact E|]|exact Hn]);
    [exact (Permutation_in _ H Hv)|exact (Permutation_in _ (Permutation_sym H) Hv)|exact (Permutation_in _ H Hv)|exact (Permutation_in _ (Permutation_sym H) Hv)].
Qed.

(* ---- evaluation phase ---- *)
Lemma instance_value_perm x a a' l m : Permutation a a' -> instance_value x a l m = instance_value x a' l m.
Proof.
  intros H. destruct (metrics_perm (Some (l, [l])) a a' H) as (E1 & E2 & E3). unfold instance_value. destruct m; congruence.
Qed.
Lemma instance_dict_perm x a a' l ems : Permutation a a' -> instance_dict x a l ems = instance_dict x a' l ems.
Proof.
  intros H. induction ems as [|m ems IH]; cbn [instance_dict]; [reflexivity|]. now rewrite (instance_value_perm x a a' l m H), IH.
Qed.
Lemma all_dicts_perm x a a' ls ems : Permutation a a' -> all_dicts x a ls ems = all_dicts x a' ls ems.
Proof.
  intros H. induction ls as [|l ls IH]; cbn [all_dicts]; [reflexivity|]. now rewrite (instance_dict_perm x a a' l ems H), IH.
Qed.

Theorem eval_phase_perm x c a a' : Permutation a a' -> eval_phase x c a = eval_phase x c a'.
Proof.
  intros H. destruct (labels_perm a a' H) as [Ep Er].
  unfold eval_phase, n_pred_inst, n_ref_inst, evaluate_matched, matched_labels. rewrite Ep, Er.
  now rewrite (all_dicts_perm x a a' _ (c_ems c) H).
Qed.

(* ---- matching phase ---- *)
Lemma cand_list_perm x m a a' : Permutation a a' -> cand_list x m a = cand_list x m a'.
Proof.
  intros H. unfold cand_list. destruct m; try apply (candidates_perm _ a a' H). now rewrite (overlap_pairs_perm a a' H).
Qed.
Lemma map_instance_labels_perm M a a' : Permutation a a' ->
  Permutation (map_instance_labels M a) (map_instance_labels M a').
Proof.
  intros H. destruct (labels_perm a a' H) as [Ep Er]. unfold map_instance_labels. rewrite Ep, Er. unfold relabel. now apply Permutation_map.
Qed.
Lemma match_phase_perm x c a a' b : Permutation a a' -> match_phase x c a = Ok b ->
  exists b', match_phase x c a' = Ok b' /\ Permutation b b'.
Proof.
  intros H. unfold match_phase. rewrite (cand_list_perm x (c_mmetric c) a a' H).
  destruct (c_matcher c =? 3).
  - intros [= <-]. eexists. split; [reflexivity|]. now apply map_instance_labels_perm.
  - destruct (naive_match _ _ _ _) as [M|e]; [|discriminate]. intros [= <-]. eexists. split; [reflexivity|].
    now apply map_instance_labels_perm.
Qed.
Lemma match_phase_perm_err x c a a' e : Permutation a a' -> match_phase x c a = Err e -> match_phase x c a' = Err e.
Proof.
  intros H. unfold match_phase. rewrite (cand_list_perm x (c_mmetric c) a a' H).
  destruct (c_matcher c =? 3); [discriminate|]. destruct (naive_match _ _ _ _) as [M|e']; [discriminate|]. now intros [= <-].
Qed.

(* ---- the pipeline ---- *)
Theorem pipeline_perm x c a a' : Permutation a a' -> pipeline x c a = pipeline x c a'.
Proof.
  intros H. unfold pipeline. destruct (c_matcher c =? 0); [now apply eval_phase_perm|].
  destruct (labels_perm a a' H) as [Ep Er]. unfold n_pred_inst, n_ref_inst. rewrite Ep, Er.
  destruct (zero_case _ _) as [[nr np]|]; [reflexivity|].
  destruct (match_phase x c a) as [b|e] eqn:Em.
  - destruct (match_phase_perm x c a a' b H Em) as (b' & -> & Hb). now apply eval_phase_perm.
  - now rewrite (match_phase_perm_err x c a a' e H Em).
Qed.

(* ---- background voxels (padding, cropping of empty margins) ---- *)
Lemma strip_labels a : pred_labels_of (strip a) = pred_labels_of a /\ ref_labels_of (strip a) = ref_labels_of a.
Proof.
  unfold pred_labels_of, ref_labels_of, strip. split; apply uniqueZ_ext; intros x; rewrite !filter_In, !in_map_iff; split.
  - intros [(v & E & Hv) Hn]. apply filter_In in Hv as [Hv _]. split; [eauto|exact Hn].
  - intros [(v & E & Hv) Hn]. split; [|exact Hn]. exists v. split; [exact E|]. apply filter_In. split; [exact Hv|].
    unfold is_bg. subst x. unfold nz in Hn. apply negb_true_iff in Hn. now rewrite Hn, andb_false_r.
  - intros [(v & E & Hv) Hn]. apply filter_In in Hv as [Hv _]. split; [eauto|exact Hn].
  - intros [(v & E & Hv) Hn]. split; [|exact Hn]. exists v. split; [exact E|]. apply filter_In. split; [exact Hv|].
    unfold is_bg. subst x. unfold nz in Hn. apply negb_true_iff in Hn. now rewrite Hn.
Qed.

Lemma instance_value_strip x a l m : l <> 0 -> instance_value x (strip a) l m = instance_value x a l m.
Proof.
  intros Hl. assert (Hn : ~ In 0 [l]) by (intros [E|[]]; congruence).
  destruct (metrics_strip l [l] a Hl Hn) as (E1 & E2 & E3). unfold instance_value. destruct m; congruence.
Qed.
Lemma instance_dict_strip x a l ems : l <> 0 -> instance_dict x (strip a) l ems = instance_dict x a l ems.
Proof.
  intros Hl. induction ems as [|m ems IHe]; cbn [instance_dict]; [reflexivity|].
  now rewrite (instance_value_strip x a l m Hl), IHe.
Qed.
Lemma all_dicts_strip x a ls ems : (forall l, In l ls -> l <> 0) -> all_dicts x (strip a) ls ems = all_dicts x a ls ems.
Proof.
  intros H. induction ls as [|l ls IH]; cbn [all_dicts]; [reflexivity|].
  rewrite (instance_dict_strip x a l ems (H l (or_introl eq_refl))), IH; [reflexivity|]. intros l' Hl'. apply H. now right.
Qed.

Theorem eval_phase_strip x c a : eval_phase x c (strip a) = eval_phase x c a.
Proof.
  destruct (strip_labels a) as [Ep Er]. unfold eval_phase, n_pred_inst, n_ref_inst, evaluate_matched, matched_labels.
  rewrite Ep, Er. rewrite all_dicts_strip; [reflexivity|].
  intros l Hl. apply filter_In in Hl as [Hl _]. apply C04Proofs.pred_labels_spec in Hl. tauto.
Qed.

(* same result for any two voxel lists with the same non-background voxels up to order *)
Theorem eval_phase_foreground x c a a' : Permutation (strip a) (strip a') -> eval_phase x c a = eval_phase x c a'.
Proof. intros H. rewrite <- (eval_phase_strip x c a), <- (eval_phase_strip x c a'). now apply eval_phase_perm. Qed.

Theorem pipeline_matched_foreground x c a a' : c_matcher c = 0 -> Permutation (strip a) (strip a') ->
  pipeline x c a = pipeline x c a'.
Proof. intros Hm H. unfold pipeline. rewrite Hm. cbn. now apply eval_phase_foreground. Qed.

Lemma cand_list_strip x m a : cand_list x m (strip a) = cand_list x m a.
Proof. unfold cand_list. destruct m; try (symmetry; apply candidates_strip). now rewrite <- (overlap_pairs_strip a). Qed.
