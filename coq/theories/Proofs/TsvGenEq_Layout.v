(* T1 tie: the table layout read off panoptica_aggregator.py / panoptica_result.py on every run is the
   model's, and panoptica's whole universe of metric keys satisfies C18's side condition keys_ok
   (no key contains '-', no key twice) -- with and without the computation_time column. *)
From Pan Require Import Base.Common Base.Sx Model.Stats Model.Tsv Gen.TsvLayout Proofs.TsvFacts.

Lemma geneq_ctime : gen_ctime = CTIME.
Proof. reflexivity. Qed.
Lemma geneq_keys_copied : gen_keys_copied = true.       (* D9: the evaluator's cached list is not extended *)
Proof. reflexivity. Qed.
Lemma geneq_agg_keys ev lt : gen_agg_keys ev lt = agg_keys ev lt.
Proof. reflexivity. Qed.
Lemma geneq_keys_ok : keys_ok (agg_keys gen_result_keys true) = true /\ keys_ok (agg_keys gen_result_keys false) = true.
Proof. vm_compute. split; reflexivity. Qed.
(* every sub-selection of an ok key list is ok *)
Lemma keys_ok_sub K K' : keys_ok K = true -> NoDup K' -> (forall k, In k K' -> In k K) -> keys_ok K' = true.
Proof.
  intros H ND Hsub. apply keys_ok_spec in H. destruct H as [Hd _]. apply keys_ok_spec. split; [|exact ND].
  intros k Hk. apply Hd. apply Hsub. exact Hk.
Qed.
Lemma geneq_header G K : gen_header G K = header G K.
Proof.
  unfold gen_header, header, pairs. f_equal. rewrite map_flat_map. apply flat_map_ext. intros g.
  rewrite map_map. apply map_ext. intros m. reflexivity.
Qed.
Lemma geneq_row_layout : gen_row_group_major = true /\ gen_missing_cell = missing_cell.
Proof. split; reflexivity. Qed.
