(* C02 for the whole pipeline: the bookkeeping identities hold for every result the pipeline can return
   (every input type that reaches it as instance maps, every matcher, metric, threshold, decision metric, handler). *)
From Pan Require Import Base.Common Base.Sx Base.Rnd64 Model.MetricTable Model.Metrics Model.EdgeCase Model.Result Model.ZeroCase
  Model.Matcher Model.Merge Model.Relabel Model.Pipeline Proofs.ResultFacts Proofs.PipelineFacts.
From Coq Require Import ZifyBool.
Open Scope Z_scope.

Lemma lookup_m_empty_lists m ms vals : lookup_m m (map (fun k : metric => (k, @nil Q)) ms) = Some vals -> vals = [].
Proof.
  induction ms as [|k ms IH]; cbn [map lookup_m]; [discriminate|]. destruct (metric_eqb k m); [now intros [= <-]|exact IH].
Qed.

Theorem pipeline_bookkeeping x c a r : pipeline x c a = Ok r ->
  o_tp r + o_fp r = o_np r /\ o_tp r + o_fn r = o_nr r /\ 0 <= o_tp r <= Z.min (o_np r) (o_nr r) /\
  (forall mr, In mr (o_metrics r) -> Z.of_nat (length (m_all mr)) = o_tp r).
Proof.
  assert (Hev : forall b, eval_phase x c b = Ok r ->
            o_tp r + o_fp r = o_np r /\ o_tp r + o_fn r = o_nr r /\ 0 <= o_tp r <= Z.min (o_np r) (o_nr r) /\
            (forall mr, In mr (o_metrics r) -> Z.of_nat (length (m_all mr)) = o_tp r)).
  { intros b Hb. destruct (eval_phase_bookkeeping x c b r Hb) as (E1 & E2 & E3 & E4 & E5 & E6). rewrite E4, E5. auto. }
  unfold pipeline. destruct (c_matcher c =? 0); [apply Hev|].
  destruct (zero_case (n_pred_inst a) (n_ref_inst a)) as [[nr np]|] eqn:Ez.
  - intros Hp. unfold zero_case in Ez. destruct (_ || _); [|discriminate]. injection Ez as <- <-.
    destruct (panoptica_result_fields _ _ Hp) as (E1 & E2 & E3 & E4 & E5 & _ & Hl). cbn [r_np r_nr r_tp r_lists] in *.
    assert (0 <= n_pred_inst a /\ 0 <= n_ref_inst a) by (unfold n_pred_inst, n_ref_inst; lia).
    rewrite E1, E2, E3, E4, E5. repeat split; try lia.
    intros mr Hin. specialize (Hl mr Hin). apply lookup_m_empty_lists in Hl. now rewrite Hl.
  - destruct (match_phase x c a) as [b|e]; [apply Hev|discriminate].
Qed.
