From Pan Require Import Base.Common Model.EvaluatorSM.
Open Scope Z_scope.

Section Facts.
  Variables (Cfg Input Res Yaml : Type).
  Variable eval : Cfg -> Input -> Res.
  Variable keys_of : Cfg -> list Z.
  Variable save : Cfg -> Yaml.
  Variable TIME_KEY : Z.
  (* as in the repaired source: both conditions are the effective per-call flag, the aggregator copies *)
  Let start_cond := fun (_ eff : bool) => eff.
  Let stop_cond := fun (_ eff : bool) => eff.
  Notation stepc := (step Cfg Input Res Yaml eval keys_of save TIME_KEY start_cond stop_cond true).
  Notation runc := (run Cfg Input Res Yaml eval keys_of save TIME_KEY start_cond stop_cond true).
  Notation finalc := (final Cfg Input Res Yaml eval keys_of save TIME_KEY start_cond stop_cond true).
  Notation estate := (estate Cfg).

  Definition Inv (c : Cfg) (g : bool) (s : estate) : Prop :=
    e_cfg Cfg s = c /\ e_ctor_sgt Cfg s = g /\ (e_cache Cfg s = None \/ e_cache Cfg s = Some (keys_of c)).

  Lemma fill_inv c g s : Inv c g s -> fill Cfg keys_of s = keys_of c.
  Proof. intros (E & _ & [H|H]); unfold fill; rewrite H; [now rewrite E|reflexivity]. Qed.

  Lemma step_inv c g s o : Inv c g s -> Inv c g (fst (stepc s o)).
  Proof.
    intros HI. pose proof (fill_inv c g s HI) as Hf. destruct HI as (E1 & E2 & E3).
    destruct o as [x ops| |lt| |]; cbn [step fst].
    - unfold timing, start_cond, stop_cond. destruct (effective _ _); cbn; repeat split; assumption.
    - repeat split; cbn; try assumption. right. now rewrite Hf.
    - repeat split; cbn; try assumption. right. now rewrite Hf.
    - repeat split; assumption.
    - repeat split; assumption.
  Qed.

  (* what each operation returns in a state satisfying the invariant: a function of the configuration,
     the operation's own arguments and nothing else *)
  Definition expected (c : Cfg) (g : bool) (o : op Input) : out Res Yaml :=
    match o with
    | Evaluate _ x ops => OResult Res Yaml (eval c x) (effective g (o_save_group_times ops))
    | MetricKeys _ => OKeys Res Yaml (keys_of c)
    | NewAggregator _ lt => OAgg Res Yaml (if lt then keys_of c ++ [TIME_KEY] else keys_of c)
    | NewEvaluator _ => ONone Res Yaml
    | SaveConfig _ => OConfig Res Yaml (save c)
    end.

  Lemma step_out c g s o : Inv c g s -> snd (stepc s o) = expected c g o.
  Proof.
    intros HI. pose proof (fill_inv c g s HI) as Hf. destruct HI as (E1 & E2 & E3).
    destruct o as [x ops| |lt| |]; cbn [step snd expected].
    - unfold timing, start_cond, stop_cond. rewrite E1, E2. destruct (effective g _); reflexivity.
    - now rewrite Hf.
    - now rewrite Hf.
    - reflexivity.
    - now rewrite E1.
  Qed.

  (* every operation of every history returns what it would return on a fresh evaluator *)
  Theorem history_independent c g s ops : Inv c g s -> runc s ops = map (expected c g) ops.
  Proof.
    revert s. induction ops as [|o ops IH]; intros s HI; cbn [run map]; [reflexivity|].
    pose proof (step_out c g s o HI) as Ho. pose proof (step_inv c g s o HI) as Hs.
    destruct (stepc s o) as [s' r]. cbn [fst snd] in *. rewrite Ho, (IH s' Hs). reflexivity.
  Qed.

  Theorem evaluate_never_raises c g s ops : Inv c g s ->
    forall r, In r (runc s ops) -> forall code, r <> OErr Res Yaml code.
  Proof.
    intros HI r Hin code E. rewrite (history_independent c g s ops HI) in Hin. apply in_map_iff in Hin as (o & Ho & _).
    subst r. destruct o; discriminate.
  Qed.

  Theorem keys_and_config_stable c g s ops : Inv c g s ->
    let s' := finalc s ops in
    snd (stepc s' (MetricKeys Input)) = OKeys Res Yaml (keys_of c) /\ snd (stepc s' (SaveConfig Input)) = OConfig Res Yaml (save c).
  Proof.
    intros HI. assert (HF : Inv c g (finalc s ops)).
    { revert s HI. induction ops as [|o ops IH]; intros s HI; cbn [final]; [exact HI|]. apply IH. now apply step_inv. }
    cbn zeta. split; [exact (step_out c g _ (MetricKeys Input) HF)|exact (step_out c g _ (SaveConfig Input) HF)].
  Qed.
End Facts.

(* the two historical defects, as behaviours of the same machine with the other flag values *)
Lemma aliasing_would_leak :
  let keys := fun (_ : unit) => [1; 2] in
  run unit unit unit unit (fun _ _ => tt) keys (fun _ => tt) 99 (fun _ e => e) (fun _ e => e) false
      {| e_cfg := tt; e_ctor_sgt := false; e_cache := None |} [NewAggregator unit true; MetricKeys unit]
  = [OAgg unit unit [1; 2; 99]; OKeys unit unit [1; 2; 99]].
Proof. reflexivity. Qed.
Lemma mismatched_timing_flags_would_raise :
  run unit unit unit unit (fun _ _ => tt) (fun _ => []) (fun _ => tt) 99 (fun ctor _ => ctor) (fun _ e => e) true
      {| e_cfg := tt; e_ctor_sgt := false; e_cache := None |}
      [Evaluate unit tt {| o_result_all := true; o_save_group_times := Some true; o_log_times := None; o_verbose := None |}]
  = [OErr unit unit E_UNBOUND].
Proof. reflexivity. Qed.
