(* C11, result level: the result object of the exchanged problem (prediction and reference swapped, the edge
   case handler's EMPTY_PRED / EMPTY_REF entries swapped with them) is the mirror image of the original one:
   num_pred <-> num_ref, fp <-> fn, precision <-> recall, the same tp, rq, per-instance lists, sq, std, pq. *)
From Pan Require Import Base.Common Base.Sx Base.Rnd64 Model.MetricTable Model.EdgeCase Model.Result Proofs.Rnd64Facts Proofs.ResultEquiv.
From Coq Require Import Permutation Qfield ZifyBool.
Open Scope Z_scope.

(* ---- the handler with the roles of the two sides exchanged ---- *)
Definition mirror_mh (e : mhandler) : mhandler :=
  {| e_noinst := e_noinst e; e_emptypred := e_emptyref e; e_emptyref := e_emptypred e; e_normal := e_normal e |}.
Definition mirror_handler (h : handler) : handler :=
  {| h_table := map (fun kv => (fst kv, mirror_mh (snd kv))) (h_table h); h_std := h_std h |}.

Lemma mirror_mh_invol e : mirror_mh (mirror_mh e) = e.
Proof. destruct e; reflexivity. Qed.

Lemma mh_call_mirror e tp np nr : 0 <= np -> 0 <= nr -> mh_call (mirror_mh e) tp nr np = mh_call e tp np nr.
Proof.
  intros Hp Hr. unfold mh_call, classify. destruct (negb (tp =? 0)); [reflexivity|].
  rewrite (Z.add_comm nr np). destruct (np + nr =? 0) eqn:E0; [reflexivity|].
  destruct (np =? 0) eqn:Ep, (nr =? 0) eqn:Er; cbn [entry mirror_mh e_emptypred e_emptyref]; try reflexivity; try lia.
  rewrite andb_comm. destruct ((0 <? np) && (0 <? nr)); reflexivity.
Qed.

Lemma lookup_m_mirror m l :
  lookup_m m (map (fun kv : metric * mhandler => (fst kv, mirror_mh (snd kv))) l) = option_map mirror_mh (lookup_m m l).
Proof.
  induction l as [|[k v] l IH]; cbn [map lookup_m fst snd option_map]; [reflexivity|]. destruct (metric_eqb k m); [reflexivity|exact IH].
Qed.

Lemma handle_zero_tp_mirror h m tp np nr : 0 <= np -> 0 <= nr ->
  handle_zero_tp (mirror_handler h) m tp nr np = handle_zero_tp h m tp np nr.
Proof.
  intros Hp Hr. unfold handle_zero_tp, mirror_handler. cbn [h_table]. destruct (negb (tp =? 0)); [reflexivity|].
  rewrite lookup_m_mirror. destruct (lookup_m m (h_table h)); cbn [option_map]; [now apply mh_call_mirror|reflexivity].
Qed.

(* ---- mirror image of results ---- *)
Definition result_mirror (r s : result) : Prop :=
  o_np r = o_nr s /\ o_nr r = o_np s /\ o_tp r = o_tp s /\ o_fp r = o_fn s /\ o_fn r = o_fp s /\
  ofeq (o_prec r) (o_rec s) /\ ofeq (o_rec r) (o_prec s) /\ feq (o_rq r) (o_rq s) /\
  Forall2 mres_equiv (o_metrics r) (o_metrics s).

Lemma ofeq_sym a b : ofeq a b -> ofeq b a.
Proof. destruct a, b; cbn; auto using feq_sym. Qed.
Lemma ofeq_trans a b c : ofeq a b -> ofeq b c -> ofeq a c.
Proof. destruct a, b, c; cbn; try tauto. apply feq_trans. Qed.
Lemma mres_equiv_trans p q r : mres_equiv p q -> mres_equiv q r -> mres_equiv p r.
Proof.
  intros (A1 & A2 & A3 & A4 & A5) (B1 & B2 & B3 & B4 & B5). repeat split; [congruence|eapply feq_trans; eauto|eapply feq_trans; eauto|
    eapply ofeq_trans; eauto|eapply Permutation_trans; eauto].
Qed.
Lemma Forall2_mres_trans l1 l2 l3 : Forall2 mres_equiv l1 l2 -> Forall2 mres_equiv l2 l3 -> Forall2 mres_equiv l1 l3.
Proof.
  intros H. revert l3. induction H as [|a b l1 l2 Hab _ IH]; intros l3 H3; inversion H3; subst; constructor.
  - eapply mres_equiv_trans; eauto.
  - now apply IH.
Qed.
Lemma mres_equiv_sym p q : mres_equiv p q -> mres_equiv q p.
Proof.
  intros (A1 & A2 & A3 & A4 & A5). repeat split; [congruence|now apply feq_sym|now apply feq_sym|now apply ofeq_sym|now apply Permutation_sym].
Qed.
Lemma Forall2_mres_sym l1 l2 : Forall2 mres_equiv l1 l2 -> Forall2 mres_equiv l2 l1.
Proof. induction 1; constructor; auto using mres_equiv_sym. Qed.

(* an equivalent result (per-instance lists permuted) on either side keeps the mirror relation *)
Lemma result_mirror_equiv_l r r' s : result_equiv r' r -> result_mirror r s -> result_mirror r' s.
Proof.
  intros (E1 & E2 & E3 & E4 & E5 & E6 & E7 & E8 & E9) (M1 & M2 & M3 & M4 & M5 & M6 & M7 & M8 & M9).
  unfold result_mirror. rewrite E1, E2, E3, E4, E5, E6, E7, E8. repeat split; auto. eapply Forall2_mres_trans; eauto.
Qed.
Lemma result_mirror_equiv_r r s s' : result_mirror r s -> result_equiv s s' -> result_mirror r s'.
Proof.
  intros (M1 & M2 & M3 & M4 & M5 & M6 & M7 & M8 & M9) (E1 & E2 & E3 & E4 & E5 & E6 & E7 & E8 & E9).
  unfold result_mirror. rewrite <- E1, <- E2, <- E3, <- E4, <- E5, <- E6, <- E7, <- E8. repeat split; auto. eapply Forall2_mres_trans; eauto.
Qed.

Lemma fmul_feq_r a b b' : feq b b' -> ofeq (fmul a b) (fmul a b').
Proof.
  destruct b, b'; cbn [feq]; try tauto; intros H; try apply ofeq_refl.
  destruct a; cbn [fmul ofeq feq]; auto.
  - now rewrite H.
  - rewrite (Qeq_bool_comp _ _ 0 H), (Qle_bool_comp _ _ 0 H). apply feq_refl.
  - rewrite (Qeq_bool_comp _ _ 0 H), (Qle_bool_comp _ _ 0 H). apply feq_refl.
Qed.

Definition mirror_rin (i : rin) : rin :=
  {| r_np := r_nr i; r_nr := r_np i; r_tp := r_tp i; r_lists := r_lists i; r_handler := mirror_handler (r_handler i) |}.

Lemma calc_rq_mirror np nr tp : feq (calc_rq np nr tp) (calc_rq nr np tp).
Proof.
  unfold calc_rq. destruct (tp =? 0).
  - rewrite (Z.add_comm nr np). apply feq_refl.
  - cbn [feq]. apply rnd_compat. unfold rq_exact.
    assert (E : (inject_Z tp + (1 # 2) * inject_Z (calc_fp np tp) + (1 # 2) * inject_Z (calc_fn nr tp) ==
                 inject_Z tp + (1 # 2) * inject_Z (calc_fp nr tp) + (1 # 2) * inject_Z (calc_fn np tp))%Q).
    { unfold calc_fp, calc_fn. ring. }
    now rewrite E.
Qed.

Lemma build_metrics_mirror i rq rq' ms : 0 <= r_np i -> 0 <= r_nr i -> feq rq rq' ->
  res_rel (Forall2 mres_equiv) (build_metrics i rq ms) (build_metrics (mirror_rin i) rq' ms).
Proof.
  intros Hp Hr Hq. induction ms as [|m ms IH]; cbn [build_metrics]; [constructor|].
  cbn [mirror_rin r_lists r_handler r_tp r_np r_nr].
  destruct (lookup_m m (r_lists i)) as [vals|]; [|exact IH].
  unfold list_metric. rewrite (handle_zero_tp_mirror (r_handler i) m (r_tp i) (r_np i) (r_nr i) Hp Hr).
  destruct (handle_zero_tp (r_handler i) m (r_tp i) (r_np i) (r_nr i)) as [[is_edge v]|e]; [|reflexivity].
  destruct (build_metrics i rq ms) as [r|e], (build_metrics (mirror_rin i) rq' ms) as [r'|e']; cbn [res_rel] in IH |- *; try contradiction; [|exact IH].
  constructor; [|exact IH]. unfold mres_equiv. cbn [m_metric m_sq m_var m_pq m_all l_all l_avg l_var mirror_handler h_std].
  repeat split; auto using feq_refl. destruct (has_pq m); [now apply fmul_feq_r|exact I].
Qed.

Theorem panoptica_result_mirror i : 0 <= r_np i -> 0 <= r_nr i ->
  res_rel result_mirror (panoptica_result i) (panoptica_result (mirror_rin i)).
Proof.
  intros Hp Hr. unfold panoptica_result. cbn [mirror_rin r_np r_nr r_tp].
  pose proof (build_metrics_mirror i _ _ all_metrics Hp Hr (calc_rq_mirror (r_np i) (r_nr i) (r_tp i))) as H.
  destruct (build_metrics i _ all_metrics) as [r|e], (build_metrics (mirror_rin i) _ all_metrics) as [r'|e']; cbn [res_rel] in H |- *; try contradiction; [|exact H].
  unfold result_mirror. cbn [o_np o_nr o_tp o_fp o_fn o_prec o_rec o_rq o_metrics].
  repeat split; auto using ofeq_refl, calc_rq_mirror.
Qed.
