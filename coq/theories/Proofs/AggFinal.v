(* Aggregator: what an uninterrupted session ends with; independence of the schedule. *)
From Coq Require Import Permutation.
From Pan Require Import Base.Common Model.Aggregator Proofs.AggBase Proofs.AggInv Proofs.AggSess.

Definition cid (t : call) : name * Z * bool := (cn t, ci t, is_eval t).

Lemma lstep_cid xE xF b o others t b' o' t' :
  lstep xE xF b o others t = Some (b', o', t') -> cid t' = cid t.
Proof.
  unfold lstep. intros Hl.
  destruct (cp t) as [| |[|]| | | | | |sk| | |sn|sn] eqn:Hp;
    repeat match type of Hl with
           | (if ?c then _ else _) = _ => destruct c
           | match ?c with _ => _ end = _ => destruct c
           end;
    try discriminate; inversion Hl; subst; unfold cid, is_eval, setpc; cbn [cp cn ci]; rewrite Hp; reflexivity.
Qed.

Lemma astep_cids xE xF s s' : astep xE xF s s' -> map cid (calls s') = map cid (calls s) /\ hdr s' = hdr s.
Proof.
  intros [o b h c cs o' b' c' Hc | o b h l1 t l2 b' o' t' Hl]; cbn [calls hdr]; split; auto.
  rewrite !map_app. cbn [map]. now rewrite (lstep_cid _ _ _ _ _ _ _ _ _ Hl).
Qed.
Lemma areach_cids s0 s : areach s0 s -> map cid (calls s) = map cid (calls s0) /\ hdr s = hdr s0.
Proof.
  induction 1 as [|s s' Hr [IH1 IH2] Hs]; auto.
  destruct (astep_cids _ _ _ _ Hs) as [A B]. split; congruence.
Qed.
Lemma cid_transfer (l l' : list call) t : map cid l = map cid l' -> In t l -> exists t0, In t0 l' /\ cid t0 = cid t.
Proof.
  intros E Ht. assert (In (cid t) (map cid l')) as H by (rewrite <- E; now apply in_map).
  apply in_map_iff in H as [t0 [E0 H0]]. eauto.
Qed.

Lemma wrote_is_eval t : wrote t = true -> is_eval t = true.
Proof. unfold wrote, is_eval. destruct (cp t) as [| |[|]| | | | | |[|]| | |sn|sn]; try discriminate; reflexivity. Qed.
Lemma finished_not_owns t : finished t = true -> owns t = false.
Proof. unfold finished, owns. destruct (cp t); try discriminate; reflexivity. Qed.
Lemma finished_eval t : finished t = true -> is_eval t = true -> exists sk, cp t = Done sk.
Proof. unfold finished, is_eval. destruct (cp t); try discriminate; eauto. Qed.

Lemma nodup_names_app_disjoint (A B : list row) r :
  NoDup (names (A ++ B)) -> In r A -> In r B -> False.
Proof.
  rewrite names_app. induction A as [|a A IH]; intros Hnd HA HB; [destruct HA|].
  simpl in Hnd. inversion Hnd; subst. destruct HA as [->|HA].
  - apply H1. apply in_or_app. right. unfold names. now apply in_map.
  - now apply IH.
Qed.

(* rows of a finished call phase *)
Lemma CI_final h R0 b rows cs :
  CI h R0 b rows cs -> (forall t, In t cs -> finished t = true) ->
  exists new, rows = R0 ++ new /\ NoDup (names (R0 ++ new))
    /\ (forall x, In x (names (R0 ++ new)) <-> In x (names R0) \/ exists t, In t cs /\ is_eval t = true /\ cn t = x)
    /\ (forall r, In r new -> exists t, In t cs /\ is_eval t = true /\ crow t = r).
Proof.
  intros [Hpb Hrd Hsk Hsn _ _] Hfin. destruct Hpb as [Hb Hr Ho Hc Hw Hu [new ->]].
  exists new. split; [reflexivity|split; [exact Hr|split]].
  - intros x. split.
    + intros Hx. apply in_names in Hx as [r [Hr' <-]]. apply Hw in Hr' as [H0|[a [Ha [Hwa Era]]]].
      * left. unfold names. now apply in_map.
      * right. apply in_map_iff in Ha as [t [<- Ht]]. exists t. repeat split; auto.
        -- apply wrote_is_eval. exact Hwa.
        -- now rewrite <- Era.
    + intros [Hx|[t [Ht [He <-]]]].
      * rewrite names_app. apply in_or_app. now left.
      * destruct (finished_eval t (Hfin t Ht) He) as [[|] Hp].
        -- pose proof (Hsk t Ht Hp) as Hin. apply Hc in Hin as [Hin|[a [Ha [Hoa _]]]]; auto.
           apply in_map_iff in Ha as [u [<- Hu']]. exfalso.
           unfold absB, a_owns, mkab in Hoa. cbn in Hoa. rewrite (finished_not_owns u (Hfin u Hu')) in Hoa. discriminate.
        -- apply in_names. exists (crow t). split; auto. apply Hw. right. exists (absB t).
           split; [now apply in_map|]. unfold absB, a_wrote, a_row, mkab, wrote. cbn. rewrite Hp. auto.
  - intros r Hr'. assert (Hin : In r (R0 ++ new)) by (apply in_or_app; now right).
    apply Hw in Hin as [H0|[a [Ha [Hwa Era]]]].
    + exfalso. eapply nodup_names_app_disjoint; eauto.
    + apply in_map_iff in Ha as [t [<- Ht]]. exists t. repeat split; auto. now apply wrote_is_eval.
Qed.

Theorem final_general R0 s0 s :
  SInv R0 s0 -> areach s0 s -> all_done s ->
  exists new, out s = Some (LH (hdr s0) :: map lrow (R0 ++ new))
    /\ NoDup (names (R0 ++ new))
    /\ (forall x, In x (names (R0 ++ new)) <->
                  In x (names R0) \/ exists t, In t (calls s0) /\ is_eval t = true /\ cn t = x)
    /\ (forall r, In r new -> exists t, In t (calls s0) /\ is_eval t = true /\ crow t = r).
Proof.
  intros HI0 Hr [Hc Hfin].
  pose proof (areach_SInv _ _ _ HI0 Hr) as [_ HI].
  destruct (areach_cids _ _ Hr) as [Hids Hh].
  rewrite Hc in HI. destruct HI as [bb [rows [Hb [Ho HCI]]]]. rewrite Hh in *.
  destruct (CI_final _ _ _ _ _ HCI Hfin) as [new [-> [Hnd [Hnames Hnew]]]].
  exists new. split; [exact Ho|split; [exact Hnd|split]].
  - intros x. rewrite Hnames. split; (intros [H|[t [Ht [He En]]]]; [now left|right]).
    + destruct (cid_transfer _ _ t Hids Ht) as [t0 [Ht0 E0]]. inversion E0. exists t0. repeat split; congruence.
    + destruct (cid_transfer _ _ t (eq_sym Hids) Ht) as [t0 [Ht0 E0]]. inversion E0. exists t0. repeat split; congruence.
  - intros r Hr'. destruct (Hnew r Hr') as [t [Ht [He Er]]].
    destruct (cid_transfer _ _ t Hids Ht) as [t0 [Ht0 E0]]. inversion E0. exists t0.
    repeat split; auto; try congruence. unfold crow in *. congruence.
Qed.

Theorem final_session o b h cs s :
  wf_out o -> all_idle cs -> areach (session o b h cs) s -> all_done s ->
  exists new, out s = Some (LH h :: map lrow (rows_of o ++ new))
    /\ NoDup (names (rows_of o ++ new))
    /\ (forall x, In x (names (rows_of o ++ new)) <->
                  In x (names (rows_of o)) \/ exists t, In t cs /\ is_eval t = true /\ cn t = x)
    /\ (forall r, In r new -> exists t, In t cs /\ is_eval t = true /\ crow t = r).
Proof.
  intros Hwf Hi Hr Hd. exact (final_general _ _ _ (session_SInv o b h cs Hwf Hi) Hr Hd).
Qed.

(* same subject name => same input (the same subject submitted more than once) *)
Definition consistent (cs : list call) : Prop :=
  forall t u, In t cs -> In u cs -> is_eval t = true -> is_eval u = true -> cn t = cn u -> ci t = ci u.

Lemma NoDup_app_r {A} (l1 l2 : list A) : NoDup (l1 ++ l2) -> NoDup l2.
Proof. induction l1; simpl; auto. inversion 1; auto. Qed.
Lemma NoDup_names_rows (R : list row) : NoDup (names R) -> NoDup R.
Proof. unfold names. apply NoDup_map_inv. Qed.

Theorem final_schedule_independent R0 s0 s1 s2 :
  SInv R0 s0 -> consistent (calls s0) ->
  areach s0 s1 -> all_done s1 -> areach s0 s2 -> all_done s2 ->
  Permutation (rows_of (out s1)) (rows_of (out s2)).
Proof.
  intros HI0 Hcons Hr1 Hd1 Hr2 Hd2.
  destruct (final_general _ _ _ HI0 Hr1 Hd1) as [n1 [Ho1 [Hnd1 [Hn1 Hp1]]]].
  destruct (final_general _ _ _ HI0 Hr2 Hd2) as [n2 [Ho2 [Hnd2 [Hn2 Hp2]]]].
  set (cs := calls s0) in *.
  rewrite Ho1, Ho2, !rows_of_hout. apply Permutation_app_head.
  assert (G : forall na nb, NoDup (names (R0 ++ na)) ->
     (forall x, In x (names (R0 ++ nb)) <-> In x (names (R0)) \/ exists t, In t cs /\ is_eval t = true /\ cn t = x) ->
     (forall r, In r na -> exists t, In t cs /\ is_eval t = true /\ crow t = r) ->
     (forall r, In r nb -> exists t, In t cs /\ is_eval t = true /\ crow t = r) ->
     forall r, In r na -> In r nb).
  { intros na nb Hnda Hnb Hpa Hpb r Hr. destruct (Hpa r Hr) as [t [Ht [He Er]]].
    assert (Hx : In (fst r) (names (R0 ++ nb))).
    { apply Hnb. right. exists t. repeat split; auto. now rewrite <- Er. }
    rewrite names_app in Hx. apply in_app_or in Hx as [Hx|Hx].
    - exfalso. rewrite names_app in Hnda. apply in_names in Hx as [r0 [Hr0 E0]].
      clear - Hnda Hr Hr0 E0. induction (R0) as [|a A IH]; [destruct Hr0|].
      simpl in Hnda. inversion Hnda; subst. destruct Hr0 as [->|Hr0].
      + apply H1. apply in_or_app. right. rewrite E0. unfold names. now apply in_map.
      + now apply IH.
    - apply in_names in Hx as [r2 [Hr2x E2]]. destruct (Hpb r2 Hr2x) as [u [Hu [Heu Eu]]].
      assert (Hrr : r2 = r); [|rewrite <- Hrr; exact Hr2x].
      destruct r as [n p], r2 as [n2' p2]. simpl in E2. subst n2'. f_equal.
      unfold crow in Er, Eu. inversion Er. inversion Eu. subst.
      apply (Hcons u t); auto; congruence. }
  apply NoDup_Permutation.
  - apply NoDup_names_rows. rewrite names_app in Hnd1. now apply NoDup_app_r in Hnd1.
  - apply NoDup_names_rows. rewrite names_app in Hnd2. now apply NoDup_app_r in Hnd2.
  - intros r. split; apply G; auto.
Qed.
