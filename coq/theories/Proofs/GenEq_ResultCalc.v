(* T1 tie for the calculators of panoptica_result.py *)
From Pan Require Import Base.Common Base.Sx Base.Rnd64 Model.MetricTable Model.EdgeCase Model.Result Gen.ResultCalc.
From Coq Require Import Qfield Lqa.
Open Scope Z_scope.

Lemma geneq_fp np nr tp : gen_fp np nr tp = calc_fp np tp.
Proof. unfold gen_fp, calc_fp. lia. Qed.
Lemma geneq_fn np nr tp : gen_fn np nr tp = calc_fn nr tp.
Proof. unfold gen_fn, calc_fn. lia. Qed.

Lemma Qdiv_eq a b c d : (a == c)%Q -> (b == d)%Q -> (a / b == c / d)%Q.
Proof. intros -> ->. reflexivity. Qed.
(* equality of two quotients by cross-multiplication, also when both denominators vanish (x / 0 = 0 in Q) *)
Lemma Qdiv_cross a b c d : ((b == 0)%Q <-> (d == 0)%Q) -> (a * d == c * b)%Q -> (a / b == c / d)%Q.
Proof.
  intros Hz Hx. destruct (Qeq_dec b 0) as [Eb|Eb].
  - pose proof (proj1 Hz Eb) as Ed. unfold Qdiv. rewrite Eb, Ed. unfold Qinv. cbn. ring.
  - assert (Ed : ~ (d == 0)%Q) by (intro E; apply Eb, Hz, E).
    apply (Qmult_inj_r _ _ (b * d)%Q); [intro E; apply Qmult_integral in E; tauto|].
    transitivity (a * d)%Q; [field; exact Eb|]. rewrite Hx. field. exact Ed.
Qed.

(* rq before its single final rounding *)
Definition fval_equiv (a b : fval) : Prop :=
  match a, b with FQ x, FQ y => (x == y)%Q | FInf, FInf | FNInf, FNInf | FNan, FNan | FNone, FNone => True | _, _ => False end.
Definition calc_rq_exact (np nr tp : Z) : fval :=
  if tp =? 0 then (if 0 <? np + nr then FQ 0 else FNan) else FQ (rq_exact tp (calc_fp np tp) (calc_fn nr tp)).
Lemma calc_rq_is_rounded np nr tp :
  calc_rq np nr tp = match calc_rq_exact np nr tp with FQ q => if tp =? 0 then FQ q else FQ (rnd q) | v => v end.
Proof. unfold calc_rq, calc_rq_exact. destruct (tp =? 0); [destruct (0 <? np + nr)|]; reflexivity. Qed.

Lemma geneq_rq np nr tp : fval_equiv (gen_rq np nr tp) (calc_rq_exact np nr tp).
Proof.
  unfold gen_rq, calc_rq_exact. destruct (tp =? 0); [destruct (0 <? np + nr); cbn; reflexivity|].
  cbn [fval_equiv]. unfold rq_exact. rewrite ?geneq_fp, ?geneq_fn. unfold gen_fp, gen_fn, calc_fp, calc_fn.
  (* robust against algebraically equivalent formulas, e.g. 2tp / (2tp + fp + fn) *)
  first [ apply Qdiv_eq; [reflexivity|ring]
        | apply Qdiv_cross; rewrite ?inject_Z_plus, ?inject_Z_mult, ?inject_Z_opp; unfold Z.sub;
          rewrite ?inject_Z_plus, ?inject_Z_opp; change (inject_Z 2) with 2%Q; [split; intro E; lra|ring] ].
Qed.

Lemma geneq_prec np nr tp : (gen_prec np nr tp == qdiv tp (tp + calc_fp np tp))%Q.
Proof. unfold gen_prec, qdiv. rewrite geneq_fp. reflexivity. Qed.
Lemma geneq_rec np nr tp : (gen_rec np nr tp == qdiv tp (tp + calc_fn nr tp))%Q.
Proof. unfold gen_rec, qdiv. rewrite geneq_fn. reflexivity. Qed.

Lemma geneq_has_pq :
  forallb (fun m => existsb (fun p => metric_eqb (fst p) m && eqb (snd p) (has_pq m)) gen_has_pq) all_metrics = true.
Proof. vm_compute. reflexivity. Qed.

Lemma geneq_global pe re :
  gen_global_guard pe re = (pe || re) /\ gen_global_args pe re = (0, b2z (negb pe), b2z (negb re)).
Proof. destruct pe, re; split; reflexivity. Qed.

Lemma geneq_list_metric_shape : gen_list_metric_shape = true.
Proof. reflexivity. Qed.
