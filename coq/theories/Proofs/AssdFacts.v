(* Lemma library for Model/Assd.v (integers and lists only; closed under the global context). *)
From Coq Require Import ZArith List Bool Lia Permutation.
From Pan Require Import Model.Assd.
Import ListNotations.
Open Scope Z_scope.

(* ------------------------------------------------------------------ generic list helpers *)
Lemma existsb_ext' {A} (f g : A -> bool) l : (forall x, f x = g x) -> existsb f l = existsb g l.
Proof. intros H. induction l as [|x l IH]; simpl; [reflexivity|]. rewrite H, IH. reflexivity. Qed.

Lemma flat_map_ext_in' {A B} (f g : A -> list B) l :
  (forall a, In a l -> f a = g a) -> flat_map f l = flat_map g l.
Proof.
  induction l as [|x l IH]; simpl; intros H; [reflexivity|].
  rewrite (H x) by auto. rewrite IH; auto.
Qed.

Lemma flat_map_map' {A B C} (h : B -> list C) (f : A -> B) l :
  flat_map h (map f l) = flat_map (fun a => h (f a)) l.
Proof. induction l as [|x l IH]; simpl; [reflexivity|]. rewrite IH. reflexivity. Qed.

Lemma filter_map_in {A B} (P : B -> bool) (Q : A -> bool) (f : A -> B) l :
  (forall a, In a l -> P (f a) = Q a) -> filter P (map f l) = map f (filter Q l).
Proof.
  induction l as [|x l IH]; simpl; intros H; [reflexivity|].
  rewrite (H x) by auto. destruct (Q x); simpl; rewrite IH; auto.
Qed.

Lemma Permutation_filter' {A} (f : A -> bool) l l' :
  Permutation l l' -> Permutation (filter f l) (filter f l').
Proof.
  induction 1; simpl.
  - constructor.
  - destruct (f x); auto.
  - destruct (f x), (f y); auto using perm_swap.
  - eapply perm_trans; eauto.
Qed.

(* ------------------------------------------------------------------ voxels *)
Lemma vox_eqb_eq a b : vox_eqb a b = true <-> a = b.
Proof.
  revert b; induction a as [|x a IH]; intros [|y b]; simpl; try (split; congruence).
  rewrite andb_true_iff, Z.eqb_eq, IH. split.
  - intros [-> ->]; reflexivity.
  - intros H; injection H; auto.
Qed.

Lemma mem_vox_In v A : mem_vox v A = true <-> In v A.
Proof.
  unfold mem_vox. rewrite existsb_exists. split.
  - intros (x & Hx & He). apply vox_eqb_eq in He. subst; assumption.
  - intros H. exists v. split; [assumption|apply vox_eqb_eq; reflexivity].
Qed.

Lemma mem_vox_false v A : mem_vox v A = false <-> ~ In v A.
Proof. rewrite <- mem_vox_In. destruct (mem_vox v A); split; congruence. Qed.

Lemma mem_vox_ext v A A' : (forall x, In x A <-> In x A') -> mem_vox v A = mem_vox v A'.
Proof.
  intros H. apply eq_true_iff_eq. rewrite !mem_vox_In. apply H.
Qed.

Lemma sqdist_nonneg a b : 0 <= sqdist a b.
Proof.
  revert b; induction a as [|x a IH]; intros [|y b]; simpl; try lia.
  specialize (IH b). pose proof (Z.square_nonneg (x - y)). lia.
Qed.

Lemma sqdist_refl a : sqdist a a = 0.
Proof. induction a as [|x a IH]; simpl; [reflexivity|]. rewrite IH. lia. Qed.

Lemma sqdist_sym a b : sqdist a b = sqdist b a.
Proof.
  revert b; induction a as [|x a IH]; intros [|y b]; simpl; try reflexivity.
  rewrite (IH b). ring.
Qed.

Lemma sqdist_zero a b : length a = length b -> sqdist a b = 0 -> a = b.
Proof.
  revert b; induction a as [|x a IH]; intros [|y b]; simpl; try discriminate; [reflexivity|].
  intros Hl H. injection Hl as Hl. pose proof (sqdist_nonneg a b).
  assert (x = y) by nia. assert (sqdist a b = 0) by nia.
  f_equal; auto.
Qed.

(* ------------------------------------------------------------------ face neighbours *)
Lemma face_neighbours_length v : length (face_neighbours v) = (2 * length v)%nat.
Proof. induction v as [|x t IH]; [reflexivity|]. cbn [face_neighbours length]. rewrite map_length. unfold vox in *. rewrite IH. lia. Qed.

(* the face neighbours of p are exactly the voxels of the same dimension at Euclidean distance 1 *)
Lemma face_neighbours_spec p n :
  In n (face_neighbours p) <-> length n = length p /\ sqdist n p = 1.
Proof.
  revert n; induction p as [|x t IH]; intros n; simpl.
  - split; [tauto|]. intros [Hl H]. destruct n; simpl in *; discriminate.
  - split.
    + intros [H|[H|H]].
      * subst n. simpl. rewrite sqdist_refl. split; [reflexivity|ring].
      * subst n. simpl. rewrite sqdist_refl. split; [reflexivity|ring].
      * apply in_map_iff in H. destruct H as (m & <- & Hm). apply IH in Hm. destruct Hm as [Hl Hd].
        simpl. rewrite Hl, Hd. split; [reflexivity|ring].
    + intros [Hl Hd]. destruct n as [|y m]; [discriminate|]. simpl in Hl, Hd. injection Hl as Hl.
      pose proof (sqdist_nonneg m t) as Hnn.
      assert (Hc : y - x = 0 \/ y - x = 1 \/ y - x = -1) by nia.
      destruct Hc as [Hc|[Hc|Hc]].
      * right; right. assert (y = x) by lia. subst y. apply in_map. apply IH. split; [assumption|nia].
      * right; left. assert (sqdist m t = 0) by nia. f_equal; [lia|]. symmetry. apply sqdist_zero; auto.
      * left. assert (sqdist m t = 0) by nia. f_equal; [lia|]. symmetry. apply sqdist_zero; auto.
Qed.

Lemma face_neighbours_len p n : In n (face_neighbours p) -> length n = length p.
Proof. intros H. apply face_neighbours_spec in H. tauto. Qed.

(* ------------------------------------------------------------------ border *)
Lemma is_border_spec A p :
  is_border A p = true <-> exists n, In n (face_neighbours p) /\ ~ In n A.
Proof.
  unfold is_border. rewrite existsb_exists. split; intros (n & Hn & H); exists n; split; auto.
  - apply mem_vox_false. apply negb_true_iff. assumption.
  - apply negb_true_iff. apply mem_vox_false. assumption.
Qed.

Lemma border_spec A p :
  In p (border A) <-> In p A /\ exists n, In n (face_neighbours p) /\ ~ In n A.
Proof. unfold border. rewrite filter_In, is_border_spec. tauto. Qed.

Lemma border_incl A p : In p (border A) -> In p A.
Proof. intros H. apply border_spec in H. tauto. Qed.

Lemma is_border_ext A A' p : (forall x, In x A <-> In x A') -> is_border A p = is_border A' p.
Proof.
  intros H. unfold is_border. apply existsb_ext'. intros n. f_equal. apply mem_vox_ext. assumption.
Qed.

(* a non-empty finite set of voxels (dimension >= 1) has a border voxel: one with maximal first coordinate *)
Lemma max_head (A : list vox) :
  A <> [] -> (forall v, In v A -> v <> []) ->
  exists x t, In (x :: t) A /\ forall y s, In (y :: s) A -> y <= x.
Proof.
  induction A as [|v A IH]; [congruence|]. intros _ Hne.
  destruct v as [|x t]; [exfalso; apply (Hne []); simpl; auto|].
  destruct A as [|w A'].
  - exists x, t. split; [simpl; auto|]. intros y s [H|[]]. injection H as -> _. lia.
  - destruct IH as (x' & t' & Hin & Hmax); [congruence|intros u Hu; apply Hne; simpl; auto|].
    destruct (Z_le_gt_dec x x') as [Hle|Hgt].
    + exists x', t'. split; [right; assumption|]. intros y s [H|H].
      * injection H as -> _. assumption.
      * apply (Hmax y s H).
    + exists x, t. split; [left; reflexivity|]. intros y s [H|H].
      * injection H as -> _. lia.
      * specialize (Hmax y s H). lia.
Qed.

Lemma border_nonempty A : A <> [] -> (forall v, In v A -> v <> []) -> border A <> [].
Proof.
  intros Hne Hd. destruct (max_head A Hne Hd) as (x & t & Hin & Hmax).
  assert (Hb : In (x :: t) (border A)).
  { apply border_spec. split; [assumption|]. exists ((x + 1) :: t). split.
    - simpl. right; left; reflexivity.
    - intros H. specialize (Hmax _ _ H). lia. }
  intros E. rewrite E in Hb. destruct Hb.
Qed.

(* ------------------------------------------------------------------ nearest_sq *)
Lemma nearest_sq_none p B : nearest_sq p B = None <-> B = [].
Proof.
  destruct B as [|b t]; simpl; [tauto|]. destruct (nearest_sq p t); split; discriminate.
Qed.

Lemma nearest_sq_some p B d :
  nearest_sq p B = Some d ->
  (exists b, In b B /\ sqdist p b = d) /\ (forall b, In b B -> d <= sqdist p b).
Proof.
  revert d; induction B as [|b t IH]; simpl; intros d; [discriminate|].
  destruct (nearest_sq p t) as [m|] eqn:E.
  - intros H; injection H as <-. destruct (IH m eq_refl) as [(b0 & Hb0 & Hd0) Hmin].
    split.
    + destruct (Z.min_spec (sqdist p b) m) as [[_ ->]|[_ ->]]; [exists b; auto|exists b0; auto].
    + intros c [<-|Hc]; [lia|]. specialize (Hmin c Hc). lia.
  - intros H; injection H as <-. apply nearest_sq_none in E. subst t. split.
    + exists b; simpl; auto.
    + intros c [<-|[]]. lia.
Qed.

Lemma nearest_sq_intro p B d :
  (exists b, In b B /\ sqdist p b = d) -> (forall b, In b B -> d <= sqdist p b) ->
  nearest_sq p B = Some d.
Proof.
  intros (b & Hb & Hd) Hmin. destruct (nearest_sq p B) as [d'|] eqn:E.
  - destruct (nearest_sq_some _ _ _ E) as [(b' & Hb' & Hd') Hmin'].
    specialize (Hmin b' Hb'). specialize (Hmin' b Hb). f_equal. lia.
  - apply nearest_sq_none in E. subst B. destruct Hb.
Qed.

Lemma nearest_sq_nonneg p B d : nearest_sq p B = Some d -> 0 <= d.
Proof.
  intros H. destruct (nearest_sq_some _ _ _ H) as [(b & _ & <-) _]. apply sqdist_nonneg.
Qed.

(* nearest_sq depends on the SET of candidates only *)
Lemma nearest_sq_ext p B B' : (forall b, In b B <-> In b B') -> nearest_sq p B = nearest_sq p B'.
Proof.
  intros H. destruct (nearest_sq p B) as [d|] eqn:E.
  - symmetry. destruct (nearest_sq_some _ _ _ E) as [(b & Hb & Hd) Hmin].
    apply nearest_sq_intro.
    + exists b. split; [apply H; assumption|assumption].
    + intros c Hc. apply Hmin. apply H. assumption.
  - apply nearest_sq_none in E. subst B. symmetry. apply nearest_sq_none.
    destruct B' as [|c B']; [reflexivity|]. exfalso. apply (H c). simpl; auto.
Qed.

(* ------------------------------------------------------------------ asd_sq *)
Definition near0 (B : list vox) (p : vox) : Z :=
  match nearest_sq p B with Some d => d | None => 0 end.

Lemma asd_sq_map A B : border B <> [] -> asd_sq A B = map (near0 (border B)) (border A).
Proof.
  intros Hne. unfold asd_sq. induction (border A) as [|p l IH]; simpl; [reflexivity|].
  rewrite IH. unfold near0. destruct (nearest_sq p (border B)) eqn:E; [reflexivity|].
  apply nearest_sq_none in E. contradiction.
Qed.

Lemma asd_sq_Forall2 A B : border B <> [] ->
  Forall2 (fun p d => nearest_sq p (border B) = Some d) (border A) (asd_sq A B).
Proof.
  intros Hne. rewrite asd_sq_map by assumption. induction (border A) as [|p l IH]; simpl; constructor; auto.
  unfold near0. destruct (nearest_sq p (border B)) eqn:E; [reflexivity|].
  apply nearest_sq_none in E. contradiction.
Qed.

Lemma asd_sq_length A B : border B <> [] -> length (asd_sq A B) = length (border A).
Proof. intros H. rewrite asd_sq_map by assumption. apply map_length. Qed.

Lemma asd_sq_nonneg A B : Forall (fun d => 0 <= d) (asd_sq A B).
Proof.
  unfold asd_sq. apply Forall_forall. intros d Hd. apply in_flat_map in Hd.
  destruct Hd as (p & _ & Hd). destruct (nearest_sq p (border B)) eqn:E; [|destruct Hd].
  destruct Hd as [<-|[]]. eapply nearest_sq_nonneg; eassumption.
Qed.

(* well-formed voxel list: all voxels have dimension n *)
Definition wf (n : nat) (A : list vox) : Prop := forall v, In v A -> length v = n.

Lemma wf_border n A : wf n A -> wf n (border A).
Proof. intros H v Hv. apply H. apply border_incl. assumption. Qed.

Lemma wf_S_nonempty n A : wf (S n) A -> forall v, In v A -> v <> [].
Proof. intros H v Hv E. specialize (H v Hv). subst v. discriminate. Qed.

(* all distances of one direction vanish iff every border voxel of A is a border voxel of B *)
Lemma asd_sq_all_zero n A B : wf n A -> wf n B -> border B <> [] ->
  (Forall (fun d => d = 0) (asd_sq A B) <-> (forall p, In p (border A) -> In p (border B))).
Proof.
  intros HA HB Hne. rewrite asd_sq_map by assumption. rewrite Forall_forall. split.
  - intros H p Hp. specialize (H (near0 (border B) p) (in_map _ _ _ Hp)).
    unfold near0 in H. destruct (nearest_sq p (border B)) as [d|] eqn:E.
    + subst d. destruct (nearest_sq_some _ _ _ E) as [(b & Hb & Hd) _].
      assert (p = b).
      { apply sqdist_zero; [|assumption]. rewrite (wf_border n A HA p Hp), (wf_border n B HB b Hb). reflexivity. }
      subst b. assumption.
    + apply nearest_sq_none in E. contradiction.
  - intros H d Hd. apply in_map_iff in Hd. destruct Hd as (p & <- & Hp).
    unfold near0. rewrite (nearest_sq_intro p (border B) 0); [reflexivity| |].
    + exists p. split; [apply H; assumption|apply sqdist_refl].
    + intros b _. apply sqdist_nonneg.
Qed.

(* ------------------------------------------------------------------ order independence *)
Lemma border_perm A A' : Permutation A A' -> Permutation (border A) (border A').
Proof.
  intros H. unfold border.
  rewrite (filter_ext (is_border A) (is_border A')).
  - apply Permutation_filter'. assumption.
  - intros p. apply is_border_ext. intros x. split; apply Permutation_in; [assumption|apply Permutation_sym; assumption].
Qed.

Lemma asd_sq_perm A A' B B' : Permutation A A' -> Permutation B B' ->
  Permutation (asd_sq A B) (asd_sq A' B').
Proof.
  intros HA HB. unfold asd_sq.
  pose proof (border_perm _ _ HB) as HbB.
  rewrite (flat_map_ext (fun p => match nearest_sq p (border B) with Some d => [d] | None => [] end)
                        (fun p => match nearest_sq p (border B') with Some d => [d] | None => [] end)).
  - apply Permutation_flat_map. apply border_perm. assumption.
  - intros p. rewrite (nearest_sq_ext p (border B) (border B')); [reflexivity|].
    intros b. split; apply Permutation_in; [assumption|apply Permutation_sym; assumption].
Qed.

(* ------------------------------------------------------------------ enclosing box *)
Lemma is_border_dense_eq shape A p :
  (forall v, In v A -> in_box shape v = true) -> is_border_dense shape A p = is_border A p.
Proof.
  intros H. unfold is_border_dense, is_border. apply existsb_ext'. intros n. f_equal.
  destruct (mem_vox n A) eqn:E.
  - apply mem_vox_In in E. rewrite (H n E). reflexivity.
  - apply andb_false_r.
Qed.

Lemma border_dense_eq shape A :
  (forall v, In v A -> in_box shape v = true) -> border_dense shape A = border A.
Proof. intros H. unfold border_dense, border. apply filter_ext. intros p. apply is_border_dense_eq. assumption. Qed.

Lemma asd_sq_dense_eq shape A B :
  (forall v, In v A -> in_box shape v = true) -> (forall v, In v B -> in_box shape v = true) ->
  asd_sq_dense shape A B = asd_sq A B.
Proof. intros HA HB. unfold asd_sq_dense, asd_sq. rewrite !border_dense_eq by assumption. reflexivity. Qed.

Lemma assd_sq_dense_eq shape X Y :
  (forall v, In v X -> in_box shape v = true) -> (forall v, In v Y -> in_box shape v = true) ->
  assd_sq_dense shape X Y = assd_sq X Y.
Proof. intros HX HY. unfold assd_sq_dense, assd_sq. rewrite !asd_sq_dense_eq by assumption. reflexivity. Qed.

(* ------------------------------------------------------------------ grid isometries *)
Section Isometry.
  Variables (n : nat) (f g : vox -> vox).
  Hypothesis Hlen_f : forall v, length v = n -> length (f v) = n.
  Hypothesis Hlen_g : forall v, length v = n -> length (g v) = n.
  Hypothesis Hfg : forall v, length v = n -> f (g v) = v.
  Hypothesis Hd : forall a b, length a = n -> length b = n -> sqdist (f a) (f b) = sqdist a b.

  Lemma iso_inj a b : length a = n -> length b = n -> f a = f b -> a = b.
  Proof.
    intros Ha Hb E. apply sqdist_zero; [congruence|]. rewrite <- Hd by assumption. rewrite E. apply sqdist_refl.
  Qed.

  Lemma iso_wf A : wf n A -> wf n (map f A).
  Proof. intros H v Hv. apply in_map_iff in Hv. destruct Hv as (a & <- & Ha). apply Hlen_f. apply H. assumption. Qed.

  Lemma iso_mem A v : wf n A -> length v = n -> mem_vox (f v) (map f A) = mem_vox v A.
  Proof.
    intros HA Hv. apply eq_true_iff_eq. rewrite !mem_vox_In, in_map_iff. split.
    - intros (a & E & Ha). apply iso_inj in E; [subst; assumption|apply HA; assumption|assumption].
    - intros H. exists v. auto.
  Qed.

  Lemma iso_is_border A v : wf n A -> length v = n -> is_border (map f A) (f v) = is_border A v.
  Proof.
    intros HA Hv. apply eq_true_iff_eq. unfold is_border. rewrite !existsb_exists. split.
    - intros (m & Hm & Hnot). apply face_neighbours_spec in Hm. destruct Hm as [Hl Hdist].
      rewrite (Hlen_f v Hv) in Hl. exists (g m). split.
      + apply face_neighbours_spec. split; [rewrite Hlen_g, Hv; auto|].
        rewrite <- Hd by auto. rewrite Hfg by assumption. assumption.
      + rewrite <- (iso_mem A (g m)) by auto. rewrite Hfg by assumption. assumption.
    - intros (m & Hm & Hnot). apply face_neighbours_spec in Hm. destruct Hm as [Hl Hdist].
      rewrite Hv in Hl. exists (f m). split.
      + apply face_neighbours_spec. split; [rewrite !Hlen_f; auto|]. rewrite Hd by auto. assumption.
      + rewrite iso_mem by auto. assumption.
  Qed.

  Lemma iso_border A : wf n A -> border (map f A) = map f (border A).
  Proof. intros HA. unfold border. apply filter_map_in. intros a Ha. apply iso_is_border; auto. Qed.

  Lemma iso_nearest p B : length p = n -> wf n B -> nearest_sq (f p) (map f B) = nearest_sq p B.
  Proof.
    intros Hp. induction B as [|b t IH]; intros HB; simpl; [reflexivity|].
    rewrite IH by (intros v Hv; apply HB; simpl; auto).
    rewrite Hd by (auto; apply HB; simpl; auto). reflexivity.
  Qed.

  Lemma iso_asd A B : wf n A -> wf n B -> asd_sq (map f A) (map f B) = asd_sq A B.
  Proof.
    intros HA HB. unfold asd_sq. rewrite !iso_border by assumption. rewrite flat_map_map'.
    apply flat_map_ext_in'. intros p Hp.
    rewrite iso_nearest; [reflexivity|apply HA; apply border_incl; assumption|apply wf_border; assumption].
  Qed.

  Lemma iso_assd X Y : wf n X -> wf n Y -> assd_sq (map f X) (map f Y) = assd_sq X Y.
  Proof. intros HX HY. unfold assd_sq. rewrite !iso_asd by assumption. reflexivity. Qed.
End Isometry.

(* ---- translation *)
Lemma vadd_length t v : length (vadd t v) = length v.
Proof. revert t; induction v as [|x v IH]; intros [|d t]; simpl; auto. Qed.

Lemma vadd_inv t v : vadd t (vadd (map Z.opp t) v) = v.
Proof.
  revert t; induction v as [|x v IH]; intros [|d t]; simpl; auto.
  rewrite IH. f_equal. lia.
Qed.

Lemma vadd_sqdist t a b : sqdist (vadd t a) (vadd t b) = sqdist a b.
Proof.
  revert t b; induction a as [|x a IH]; intros t b.
  - destruct t; reflexivity.
  - destruct b as [|y b]; destruct t as [|d t]; simpl; try reflexivity.
    rewrite IH. replace (x + d - (y + d)) with (x - y) by ring. reflexivity.
Qed.

Lemma assd_sq_translate n t X Y : wf n X -> wf n Y ->
  assd_sq (map (vadd t) X) (map (vadd t) Y) = assd_sq X Y.
Proof.
  apply (iso_assd n (vadd t) (vadd (map Z.opp t))); intros.
  - rewrite vadd_length; assumption.
  - rewrite vadd_length; assumption.
  - apply vadd_inv.
  - apply vadd_sqdist.
Qed.

Lemma border_translate n t A : wf n A -> border (map (vadd t) A) = map (vadd t) (border A).
Proof.
  apply (iso_border n (vadd t) (vadd (map Z.opp t))); intros.
  - rewrite vadd_length; assumption.
  - rewrite vadd_length; assumption.
  - apply vadd_inv.
  - apply vadd_sqdist.
Qed.

(* ---- flip of one axis *)
Lemma vflip_length i v : length (vflip i v) = length v.
Proof. revert i; induction v as [|x v IH]; intros [|i]; simpl; auto. Qed.

Lemma vflip_invol i v : vflip i (vflip i v) = v.
Proof.
  revert i; induction v as [|x v IH]; intros [|i]; simpl; auto.
  - f_equal. lia.
  - rewrite IH. reflexivity.
Qed.

Lemma vflip_sqdist i a b : sqdist (vflip i a) (vflip i b) = sqdist a b.
Proof.
  revert i b; induction a as [|x a IH]; intros i b.
  - destruct i; reflexivity.
  - destruct b as [|y b]; destruct i as [|i]; simpl; try reflexivity.
    + ring.
    + rewrite IH. reflexivity.
Qed.

Lemma assd_sq_flip n i X Y : wf n X -> wf n Y ->
  assd_sq (map (vflip i) X) (map (vflip i) Y) = assd_sq X Y.
Proof.
  apply (iso_assd n (vflip i) (vflip i)); intros.
  - rewrite vflip_length; assumption.
  - rewrite vflip_length; assumption.
  - apply vflip_invol.
  - apply vflip_sqdist.
Qed.

Lemma border_flip n i A : wf n A -> border (map (vflip i) A) = map (vflip i) (border A).
Proof.
  apply (iso_border n (vflip i) (vflip i)); intros.
  - rewrite vflip_length; assumption.
  - rewrite vflip_length; assumption.
  - apply vflip_invol.
  - apply vflip_sqdist.
Qed.

(* ---- permutation of the axes *)
Fixpoint index (j : nat) (l : list nat) : nat :=
  match l with [] => O | x :: t => if Nat.eqb j x then O else S (index j t) end.
Definition inv_perm (n : nat) (pi : list nat) : list nat := map (fun j => index j pi) (seq 0 n).

Fixpoint ssum (pi : list nat) (a b : vox) : Z :=
  match pi with [] => 0 | i :: t => (nth i a 0 - nth i b 0) * (nth i a 0 - nth i b 0) + ssum t a b end.

Lemma vperm_sqdist_ssum pi a b : sqdist (vperm pi a) (vperm pi b) = ssum pi a b.
Proof. unfold vperm. induction pi as [|i t IH]; simpl; [reflexivity|]. rewrite IH. reflexivity. Qed.

Lemma ssum_perm pi pi' a b : Permutation pi pi' -> ssum pi a b = ssum pi' a b.
Proof. induction 1; simpl; lia. Qed.

Lemma ssum_shift l x a y b : ssum (map S l) (x :: a) (y :: b) = ssum l a b.
Proof. induction l as [|i l IH]; simpl; [reflexivity|]. rewrite IH. reflexivity. Qed.

Lemma ssum_seq a b : length a = length b -> ssum (seq 0 (length a)) a b = sqdist a b.
Proof.
  revert b; induction a as [|x a IH]; intros [|y b] Hl; simpl in *; try discriminate; [reflexivity|].
  injection Hl as Hl. rewrite <- seq_shift, ssum_shift, IH by assumption. reflexivity.
Qed.

Lemma vperm_length pi v : length (vperm pi v) = length pi.
Proof. apply map_length. Qed.

Lemma vperm_sqdist n pi a b : Permutation pi (seq 0 n) -> length a = n -> length b = n ->
  sqdist (vperm pi a) (vperm pi b) = sqdist a b.
Proof.
  intros HP Ha Hb. rewrite vperm_sqdist_ssum, (ssum_perm _ _ a b HP). subst n. apply ssum_seq. congruence.
Qed.

Lemma index_map_id pi : NoDup pi -> forall m : vox, length m = length pi ->
  map (fun i => nth (index i pi) m 0) pi = m.
Proof.
  induction 1 as [|a pi Hnotin Hnd IH]; intros m Hl.
  - destruct m; [reflexivity|discriminate].
  - destruct m as [|x m]; [discriminate|]. injection Hl as Hl. simpl. rewrite Nat.eqb_refl. f_equal.
    transitivity (map (fun i => nth (index i pi) m 0) pi); [|apply IH; assumption]. apply map_ext_in. intros i Hi.
    destruct (Nat.eqb i a) eqn:E; [apply Nat.eqb_eq in E; subst; contradiction|reflexivity].
Qed.

Lemma vperm_inv n pi m : Permutation pi (seq 0 n) -> length m = n ->
  vperm pi (vperm (inv_perm n pi) m) = m.
Proof.
  intros HP Hm.
  assert (Hnd : NoDup pi) by (eapply Permutation_NoDup; [apply Permutation_sym; eassumption|apply seq_NoDup]).
  assert (Hlen : length pi = n) by (rewrite (Permutation_length HP); apply seq_length).
  rewrite <- (index_map_id pi Hnd m) at 2 by congruence.
  unfold vperm. apply map_ext_in. intros i Hi.
  assert (Hin : (i < n)%nat) by (apply (Permutation_in _ HP) in Hi; apply in_seq in Hi; lia).
  unfold inv_perm.
  rewrite (nth_indep _ 0 ((fun j => nth j m 0) O)) by (rewrite !map_length, seq_length; assumption).
  rewrite (map_nth (fun j => nth j m 0)). f_equal.
  rewrite (nth_indep _ O ((fun j => index j pi) O)) by (rewrite map_length, seq_length; assumption).
  rewrite (map_nth (fun j => index j pi)). rewrite seq_nth by assumption. reflexivity.
Qed.

Lemma assd_sq_permute n pi X Y : Permutation pi (seq 0 n) -> wf n X -> wf n Y ->
  assd_sq (map (vperm pi) X) (map (vperm pi) Y) = assd_sq X Y.
Proof.
  intros HP.
  assert (Hlen : length pi = n) by (rewrite (Permutation_length HP); apply seq_length).
  apply (iso_assd n (vperm pi) (vperm (inv_perm n pi))); intros.
  - rewrite vperm_length; assumption.
  - rewrite vperm_length. unfold inv_perm. rewrite map_length, seq_length. reflexivity.
  - apply vperm_inv; assumption.
  - apply (vperm_sqdist n); assumption.
Qed.

Lemma border_permute n pi A : Permutation pi (seq 0 n) -> wf n A ->
  border (map (vperm pi) A) = map (vperm pi) (border A).
Proof.
  intros HP.
  assert (Hlen : length pi = n) by (rewrite (Permutation_length HP); apply seq_length).
  apply (iso_border n (vperm pi) (vperm (inv_perm n pi))); intros.
  - rewrite vperm_length; assumption.
  - rewrite vperm_length. unfold inv_perm. rewrite map_length, seq_length. reflexivity.
  - apply vperm_inv; assumption.
  - apply (vperm_sqdist n); assumption.
Qed.

(* ---- the per-instance crop: restriction to a box that contains both masks, then translation to the
   box's origin, evaluated with the dense (shape-aware) border *)
Lemma assd_sq_crop n shape t X Y : wf n X -> wf n Y ->
  (forall v, In v X -> in_box shape (vadd t v) = true) ->
  (forall v, In v Y -> in_box shape (vadd t v) = true) ->
  assd_sq_dense shape (map (vadd t) X) (map (vadd t) Y) = assd_sq X Y.
Proof.
  intros HX HY BX BY. rewrite assd_sq_dense_eq.
  - apply (assd_sq_translate n); assumption.
  - intros v Hv. apply in_map_iff in Hv. destruct Hv as (a & <- & Ha). auto.
  - intros v Hv. apply in_map_iff in Hv. destruct Hv as (a & <- & Ha). auto.
Qed.
