(* Base/Rnd64.rnd is monotone, maps [0,1] into [0,1], fixes 0 and 1 and depends only on the rational
   value: what is needed to carry range and order statements from exact quotients to the reported doubles. *)
From Coq Require Import ZArith QArith Qpower Lia ZifyBool Psatz Lqa Qfield.
From Pan Require Import Base.Rnd64.
Open Scope Z_scope.


Lemma bitlen_spec n : 0 < n -> 2 ^ (bitlen n - 1) <= n < 2 ^ bitlen n /\ 1 <= bitlen n.
Proof.
  intros Hn. unfold bitlen. destruct (n =? 0) eqn:E; [lia|].
  pose proof (Z.log2_spec n Hn) as [H1 H2]. pose proof (Z.log2_nonneg n).
  replace (Z.log2 n + 1 - 1) with (Z.log2 n) by lia. replace (Z.succ (Z.log2 n)) with (Z.log2 n + 1) in H2 by lia. lia.
Qed.

Lemma pow2_pos k : 0 <= k -> 0 < 2 ^ k. Proof. intros. apply Z.pow_pos_nonneg; lia. Qed.
Lemma pow2_split a b : 0 <= a -> 0 <= b -> 2 ^ (a + b) = 2 ^ a * 2 ^ b. Proof. intros. apply Z.pow_add_r; lia. Qed.

(* the exponent chosen by rnd_pos: e with 2^e <= n/d < 2^(e+1), stated without negative powers *)
Definition expo (n d : Z) : Z :=
  let e0 := bitlen n - bitlen d in
  let ge := if 0 <=? e0 then d * 2 ^ e0 <=? n else d <=? n * 2 ^ (- e0) in
  if ge then e0 else e0 - 1.
Definition in_binade (n d e : Z) : Prop :=
  if 0 <=? e then d * 2 ^ e <= n < d * 2 ^ (e + 1) else d <= n * 2 ^ (- e) < 2 * d.

Lemma expo_spec n d : 0 < n -> 0 < d -> in_binade n d (expo n d).
Proof.
  intros Hn Hd. destruct (bitlen_spec n Hn) as [[N1 N2] N3]. destruct (bitlen_spec d Hd) as [[D1 D2] D3].
  unfold expo, in_binade. remember (bitlen n) as a eqn:Ea. remember (bitlen d) as b eqn:Eb. clear Ea Eb.
  destruct (0 <=? a - b) eqn:E0.
  - (* a >= b *)
    assert (Hab : 2 ^ a = 2 ^ (b - 1) * 2 ^ (a - b + 1)) by (rewrite <- pow2_split by lia; f_equal; lia).
    pose proof (pow2_pos (a - b) ltac:(lia)). pose proof (pow2_pos (b - 1) ltac:(lia)).
    assert (Hs : 2 ^ (a - b + 1) = 2 * 2 ^ (a - b)) by (rewrite pow2_split by lia; lia).
    destruct (d * 2 ^ (a - b) <=? n) eqn:G.
    + rewrite E0. split; [lia|]. nia.
    + destruct (0 <=? a - b - 1) eqn:E1.
      * replace (a - b - 1 + 1) with (a - b) by lia. split; [|lia].
        assert (2 ^ (a - 1) = 2 ^ b * 2 ^ (a - b - 1)) by (rewrite <- pow2_split by lia; f_equal; lia).
        pose proof (pow2_pos (a - b - 1) ltac:(lia)). nia.
      * assert (a = b) by lia. subst a. replace (- (b - b - 1)) with 1 by lia. replace (b - b) with 0 in * by lia.
        change (2 ^ 1) with 2. change (2 ^ 0) with 1 in *. 
        assert (2 ^ b = 2 * 2 ^ (b - 1)) by (replace b with (1 + (b - 1)) at 1 by lia; rewrite pow2_split by lia; reflexivity). lia.
  - (* a < b *)
    assert (Hba : 2 ^ b = 2 ^ (a - 1) * 2 ^ (b - a + 1)) by (rewrite <- pow2_split by lia; f_equal; lia).
    replace (- (a - b)) with (b - a) by lia.
    pose proof (pow2_pos (b - a) ltac:(lia)). pose proof (pow2_pos (a - 1) ltac:(lia)).
    assert (Hs : 2 ^ (b - a + 1) = 2 * 2 ^ (b - a)) by (rewrite pow2_split by lia; lia).
    assert (Hb1 : 2 ^ (b - 1) = 2 ^ a * 2 ^ (b - a - 1)) by (rewrite <- pow2_split by lia; f_equal; lia).
    pose proof (pow2_pos (b - a - 1) ltac:(lia)).
    assert (Hs2 : 2 ^ (b - a) = 2 * 2 ^ (b - a - 1)) by (replace (b - a) with (1 + (b - a - 1)) at 1 by lia; rewrite pow2_split by lia; reflexivity).
    destruct (d <=? n * 2 ^ (b - a)) eqn:G.
    + rewrite E0. replace (- (a - b)) with (b - a) by lia. split; [lia|]. nia.
    + assert (E1 : (0 <=? a - b - 1) = false) by lia. rewrite E1. replace (- (a - b - 1)) with (b - a + 1) by lia.
      rewrite Hs. split; [nia|lia].
Qed.


(* ---------- round-half-even of A/B at the integer level ---------- *)
Definition rne (A B : Z) : Z :=
  let m := A / B in let r := A mod B in
  if (B <? 2 * r) || ((2 * r =? B) && Z.odd m) then m + 1 else m.

Lemma rne_bounds A B : 0 < B -> A / B <= rne A B <= A / B + 1.
Proof. intros HB. unfold rne. destruct ((B <? 2 * (A mod B)) || ((2 * (A mod B) =? B) && Z.odd (A / B))); lia. Qed.

Lemma rne_mono A1 B1 A2 B2 : 0 < B1 -> 0 < B2 -> A1 * B2 <= A2 * B1 -> rne A1 B1 <= rne A2 B2.
Proof.
  intros H1 H2 Hle.
  pose proof (Z.div_mod A1 B1 ltac:(lia)) as E1. pose proof (Z.mod_pos_bound A1 B1 H1) as R1.
  pose proof (Z.div_mod A2 B2 ltac:(lia)) as E2. pose proof (Z.mod_pos_bound A2 B2 H2) as R2.
  set (m1 := A1 / B1) in *. set (r1 := A1 mod B1) in *. set (m2 := A2 / B2) in *. set (r2 := A2 mod B2) in *.
  assert (Hm : m1 <= m2).
  { destruct (Z_le_gt_dec m1 m2) as [H|H]; [exact H|]. exfalso.
    assert (Hk : m2 + 1 <= m1) by lia.
    assert (B1 * B2 * (m2 + 1) <= B1 * B2 * m1) by (apply Z.mul_le_mono_nonneg_l; nia).
    assert (A1 * B2 = B1 * B2 * m1 + r1 * B2) by (rewrite E1; ring).
    assert (A2 * B1 = B1 * B2 * m2 + r2 * B1) by (rewrite E2; ring).
    assert (r2 * B1 < B2 * B1) by nia. assert (0 <= r1 * B2) by nia. nia. }
  unfold rne. fold m1 r1 m2 r2.
  destruct (Z.eq_dec m1 m2) as [Em|Em].
  - (* same integer part: compare fractional parts r1/B1 <= r2/B2 *)
    assert (Hf : r1 * B2 <= r2 * B1) by nia.
    destruct ((B1 <? 2 * r1) || ((2 * r1 =? B1) && Z.odd m1)) eqn:U1;
    destruct ((B2 <? 2 * r2) || ((2 * r2 =? B2) && Z.odd m2)) eqn:U2; try lia.
    exfalso. rewrite Em in U1.
    apply orb_false_iff in U2 as [U2a U2b]. apply orb_true_iff in U1 as [U1|U1].
    + assert (B1 < 2 * r1) by lia. assert (2 * r2 <= B2) by lia. nia.
    + apply andb_true_iff in U1 as [U1a U1b]. assert (2 * r1 = B1) by lia. assert (2 * r2 <= B2) by lia.
      assert (2 * r2 = B2) by nia. rewrite U1b in U2b. lia.
  - assert (m1 + 1 <= m2) by lia.
    destruct ((B1 <? 2 * r1) || ((2 * r1 =? B1) && Z.odd m1)); destruct ((B2 <? 2 * r2) || ((2 * r2 =? B2) && Z.odd m2)); lia.
Qed.

(* ---------- rnd_pos in terms of expo / rne ---------- *)
Definition scaleA (n d e : Z) : Z := if 0 <=? 52 - e then n * 2 ^ (52 - e) else n.
Definition scaleB (n d e : Z) : Z := if 0 <=? 52 - e then d else d * 2 ^ (- (52 - e)).

Lemma rnd_pos_unfold n d :
  rnd_pos n d =
  let e := expo n d in let s := 52 - e in let m' := rne (scaleA n d e) (scaleB n d e) in
  if 0 <=? s then Qmake m' (Z.to_pos (2 ^ s)) else inject_Z (m' * 2 ^ (- s)).
Proof. reflexivity. Qed.

Lemma scaled_range n d e : 0 < n -> 0 < d -> in_binade n d e ->
  0 < scaleB n d e /\ 2 ^ 52 * scaleB n d e <= scaleA n d e < 2 ^ 53 * scaleB n d e.
Proof.
  intros Hn Hd Hb. unfold in_binade, scaleA, scaleB in *.
  destruct (0 <=? 52 - e) eqn:Es.
  - split; [lia|]. destruct (0 <=? e) eqn:Ee.
    + assert (E1 : 2 ^ 52 = 2 ^ e * 2 ^ (52 - e)) by (rewrite <- pow2_split by lia; f_equal; lia).
      assert (E2 : 2 ^ 53 = 2 ^ (e + 1) * 2 ^ (52 - e)) by (rewrite <- pow2_split by lia; f_equal; lia).
      pose proof (pow2_pos (52 - e) ltac:(lia)). pose proof (pow2_pos e ltac:(lia)). rewrite E1, E2. nia.
    + assert (E1 : 2 ^ (52 - e) = 2 ^ 52 * 2 ^ (- e)) by (rewrite <- pow2_split by lia; f_equal; lia).
      change (2 ^ 53) with (2 * 2 ^ 52). pose proof (pow2_pos (- e) ltac:(lia)). rewrite E1.
      assert (0 < 2 ^ 52) by reflexivity. nia.
  - assert (Ee : (0 <=? e) = true) by lia. rewrite Ee in Hb. replace (- (52 - e)) with (e - 52) by lia.
    pose proof (pow2_pos (e - 52) ltac:(lia)).
    assert (E1 : 2 ^ e = 2 ^ 52 * 2 ^ (e - 52)) by (rewrite <- pow2_split by lia; f_equal; lia).
    assert (E2 : 2 ^ (e + 1) = 2 ^ 53 * 2 ^ (e - 52)) by (rewrite <- pow2_split by lia; f_equal; lia).
    split; [nia|]. rewrite E1, E2 in Hb. nia.
Qed.

Lemma rne_range A B : 0 < B -> 2 ^ 52 * B <= A < 2 ^ 53 * B -> 2 ^ 52 <= rne A B <= 2 ^ 53.
Proof.
  intros HB [H1 H2]. pose proof (rne_bounds A B HB).
  assert (2 ^ 52 <= A / B) by (apply Z.div_le_lower_bound; lia).
  assert (A / B < 2 ^ 53) by (apply Z.div_lt_upper_bound; lia). lia.
Qed.


Definition qp (e : Z) : Q := (2 # 1) ^ e.
Lemma two_nz : ~ (2 # 1 == 0)%Q. Proof. unfold Qeq; cbn; lia. Qed.
Lemma qp_pos e : (0 < qp e)%Q. Proof. apply Qpower_0_lt. reflexivity. Qed.
Lemma qp_add a b : (qp (a + b) == qp a * qp b)%Q. Proof. apply Qpower_plus, two_nz. Qed.
Lemma qp_nonneg_Z k : 0 <= k -> (qp k == inject_Z (2 ^ k))%Q.
Proof. intros H. unfold qp. rewrite (Zpower_Qpower 2 k H). reflexivity. Qed.
Lemma qp_opp k : (qp (- k) == / qp k)%Q. Proof. apply Qpower_opp. Qed.
Lemma qp_le a b : a <= b -> (qp a <= qp b)%Q.
Proof. intros H. apply Qpower_le_compat_l; [exact H|]. unfold Qle; cbn; lia. Qed.
Lemma qp_lt_inv a b : (qp a < qp b)%Q -> a < b.
Proof. intros H. apply (Qpower_lt_compat_l_inv (2 # 1)); [exact H|]. unfold Qlt; cbn; lia. Qed.

Definition qv (n d : Z) : Q := (inject_Z n / inject_Z d)%Q.
Lemma inj_nz d : 0 < d -> ~ (inject_Z d == 0)%Q. Proof. intros H. unfold Qeq, inject_Z; cbn; lia. Qed.
Lemma inj_pos' d : 0 < d -> (0 < inject_Z d)%Q. Proof. intros H. unfold Qlt, inject_Z; cbn; lia. Qed.

(* the binade of n/d in terms of rational powers of two *)
Lemma in_binade_Q n d e : 0 < n -> 0 < d -> in_binade n d e -> (qp e <= qv n d < qp (e + 1))%Q.
Proof.
  intros Hn Hd Hb. unfold in_binade in Hb. unfold qv. pose proof (inj_pos' d Hd) as Hdp.
  destruct (0 <=? e) eqn:Ee.
  - rewrite (qp_nonneg_Z e) by lia. rewrite (qp_nonneg_Z (e + 1)) by lia. destruct Hb as [H1 H2]. split.
    + apply Qle_shift_div_l; [exact Hdp|]. rewrite <- inject_Z_mult, <- Zle_Qle. lia.
    + apply Qlt_shift_div_r; [exact Hdp|]. rewrite <- inject_Z_mult, <- Zlt_Qlt. lia.
  - (* e < 0: qp e = 1 / 2^(-e) *)
    assert (He : e = - (- e)) by lia. destruct Hb as [H1 H2].
    pose proof (qp_pos (- e)) as Hp. assert (Hq : (qp (- e) == inject_Z (2 ^ (- e)))%Q) by (apply qp_nonneg_Z; lia).
    assert (E1 : (qp e == / qp (- e))%Q) by (rewrite He at 1; apply qp_opp).
    assert (E2 : (qp (e + 1) == 2 * / qp (- e))%Q).
    { rewrite qp_add, E1. unfold qp at 2. cbn. ring. }
    rewrite E1, E2, Hq. pose proof (pow2_pos (- e) ltac:(lia)) as Hpp. pose proof (inj_pos' _ Hpp) as Hpq.
    split.
    + apply Qle_shift_div_l; [exact Hdp|].
      setoid_replace (/ inject_Z (2 ^ - e) * inject_Z d)%Q with (inject_Z d / inject_Z (2 ^ - e))%Q by (unfold Qdiv; ring).
      apply Qle_shift_div_r; [exact Hpq|]. rewrite <- inject_Z_mult, <- Zle_Qle. lia.
    + apply Qlt_shift_div_r; [exact Hdp|].
      setoid_replace (2 * / inject_Z (2 ^ - e) * inject_Z d)%Q with ((2 * inject_Z d) / inject_Z (2 ^ - e))%Q by (field; apply inj_nz; exact Hpp).
      apply Qlt_shift_div_l; [exact Hpq|]. rewrite <- inject_Z_mult. change 2%Q with (inject_Z 2). rewrite <- inject_Z_mult, <- Zlt_Qlt. lia.
Qed.

(* value of rnd_pos: m' * 2^(e-52) *)
Lemma rnd_pos_value n d : 0 < n -> 0 < d ->
  (rnd_pos n d == inject_Z (rne (scaleA n d (expo n d)) (scaleB n d (expo n d))) * qp (expo n d - 52))%Q.
Proof.
  intros Hn Hd. rewrite rnd_pos_unfold. cbn zeta. set (e := expo n d). set (m' := rne _ _).
  destruct (0 <=? 52 - e) eqn:Es.
  - replace (e - 52) with (- (52 - e)) by lia. rewrite qp_opp, (qp_nonneg_Z (52 - e)) by lia.
    pose proof (pow2_pos (52 - e) ltac:(lia)) as Hp.
    unfold Qeq, Qmult, Qinv, inject_Z. cbn [Qnum Qden]. destruct (2 ^ (52 - e)) as [|p|p] eqn:E; try lia. cbn. lia.
  - replace (- (52 - e)) with (e - 52) by lia. rewrite (qp_nonneg_Z (e - 52)) by lia. rewrite inject_Z_mult. reflexivity.
Qed.

Lemma rnd_pos_in_binade n d : 0 < n -> 0 < d ->
  (qp (expo n d) <= rnd_pos n d <= qp (expo n d + 1))%Q.
Proof.
  intros Hn Hd. rewrite (rnd_pos_value n d Hn Hd). set (e := expo n d).
  destruct (scaled_range n d e Hn Hd (expo_spec n d Hn Hd)) as [HB HR].
  pose proof (rne_range _ _ HB HR) as [M1 M2]. set (m' := rne _ _) in *.
  assert (E1 : (qp e == inject_Z (2 ^ 52) * qp (e - 52))%Q).
  { rewrite <- (qp_nonneg_Z 52) by lia. rewrite <- qp_add. replace (52 + (e - 52)) with e by lia. reflexivity. }
  assert (E2 : (qp (e + 1) == inject_Z (2 ^ 53) * qp (e - 52))%Q).
  { rewrite <- (qp_nonneg_Z 53) by lia. rewrite <- qp_add. replace (53 + (e - 52)) with (e + 1) by lia. reflexivity. }
  rewrite E1, E2. pose proof (qp_pos (e - 52)) as Hp. split; apply Qmult_le_compat_r; try (apply Qlt_le_weak; exact Hp); rewrite <- Zle_Qle; lia.
Qed.

(* ---------- monotonicity on positive rationals ---------- *)
Theorem rnd_pos_mono n1 d1 n2 d2 : 0 < n1 -> 0 < d1 -> 0 < n2 -> 0 < d2 -> n1 * d2 <= n2 * d1 ->
  (rnd_pos n1 d1 <= rnd_pos n2 d2)%Q.
Proof.
  intros Hn1 Hd1 Hn2 Hd2 Hle.
  pose proof (expo_spec n1 d1 Hn1 Hd1) as B1. pose proof (expo_spec n2 d2 Hn2 Hd2) as B2.
  pose proof (in_binade_Q _ _ _ Hn1 Hd1 B1) as [L1 U1]. pose proof (in_binade_Q _ _ _ Hn2 Hd2 B2) as [L2 U2].
  set (e1 := expo n1 d1) in *. set (e2 := expo n2 d2) in *.
  assert (Hq : (qv n1 d1 <= qv n2 d2)%Q).
  { unfold qv. apply Qle_shift_div_l; [now apply inj_pos'|].
    setoid_replace (inject_Z n1 / inject_Z d1 * inject_Z d2)%Q with ((inject_Z n1 * inject_Z d2) / inject_Z d1)%Q by (field; now apply inj_nz).
    apply Qle_shift_div_r; [now apply inj_pos'|]. rewrite <- !inject_Z_mult, <- Zle_Qle. exact Hle. }
  assert (He : e1 <= e2).
  { assert (qp e1 < qp (e2 + 1))%Q by (eapply Qle_lt_trans; [exact L1|eapply Qle_lt_trans; [exact Hq|exact U2]]).
    apply qp_lt_inv in H. lia. }
  destruct (Z.eq_dec e1 e2) as [Ee|Ee].
  - (* same binade: same scaling, rne is monotone *)
    rewrite (rnd_pos_value n1 d1 Hn1 Hd1), (rnd_pos_value n2 d2 Hn2 Hd2). fold e1 e2. rewrite <- Ee.
    apply Qmult_le_compat_r; [|apply Qlt_le_weak, qp_pos]. rewrite <- Zle_Qle.
    destruct (scaled_range n1 d1 e1 Hn1 Hd1 B1) as [HB1 _]. rewrite Ee in B1. fold e2 in B2.
    destruct (scaled_range n2 d2 e1 Hn2 Hd2 ltac:(rewrite Ee; exact B2)) as [HB2 _].
    apply rne_mono; try assumption. unfold scaleA, scaleB. destruct (0 <=? 52 - e1) eqn:Es.
    + pose proof (pow2_pos (52 - e1) ltac:(lia)). nia.
    + pose proof (pow2_pos (- (52 - e1)) ltac:(lia)). nia.
  - (* lower binade: separated by a power of two *)
    pose proof (rnd_pos_in_binade n1 d1 Hn1 Hd1) as [_ R1]. pose proof (rnd_pos_in_binade n2 d2 Hn2 Hd2) as [R2 _]. fold e1 in R1. fold e2 in R2.
    eapply Qle_trans; [exact R1|]. eapply Qle_trans; [|exact R2]. apply qp_le. lia.
Qed.


Lemma rnd_pos_positive n d : 0 < n -> 0 < d -> (0 < rnd_pos n d)%Q.
Proof. intros Hn Hd. destruct (rnd_pos_in_binade n d Hn Hd) as [H _]. eapply Qlt_le_trans; [apply qp_pos|exact H]. Qed.

Lemma rnd_cases q :
  (Qnum q = 0 /\ rnd q = 0%Q) \/
  (0 < Qnum q /\ rnd q = rnd_pos (Qnum q) (Zpos (Qden q))) \/
  (Qnum q < 0 /\ rnd q = Qopp (rnd_pos (- Qnum q) (Zpos (Qden q)))).
Proof.
  unfold rnd. destruct (Qnum q =? 0) eqn:E0; [left; split; [lia|reflexivity]|].
  destruct (0 <? Qnum q) eqn:E1; [right; left|right; right]; split; try reflexivity; lia.
Qed.

(* IEEE rounding is monotone *)
Theorem rnd_mono q1 q2 : (q1 <= q2)%Q -> (rnd q1 <= rnd q2)%Q.
Proof.
  intros H. unfold Qle in H.
  destruct (rnd_cases q1) as [[N1 ->]|[[N1 ->]|[N1 ->]]], (rnd_cases q2) as [[N2 ->]|[[N2 ->]|[N2 ->]]];
    try (exfalso; nia).
  - apply Qle_refl.
  - apply Qlt_le_weak, rnd_pos_positive; lia.
  - apply rnd_pos_mono; lia.
  - apply Qlt_le_weak. setoid_replace 0%Q with (- 0)%Q by reflexivity. apply Qopp_lt_compat, rnd_pos_positive; lia.
  - eapply Qle_trans with 0%Q.
    + apply Qlt_le_weak. setoid_replace 0%Q with (- 0)%Q by reflexivity. apply Qopp_lt_compat, rnd_pos_positive; lia.
    + apply Qlt_le_weak, rnd_pos_positive; lia.
  - apply Qopp_le_compat. apply rnd_pos_mono; lia.
Qed.

(* hence it is a function of the rational value, not of its representation *)
Corollary rnd_compat q1 q2 : (q1 == q2)%Q -> (rnd q1 == rnd q2)%Q.
Proof. intros E. apply Qle_antisym; apply rnd_mono; rewrite E; apply Qle_refl. Qed.

Lemma rnd_0 : rnd 0 = 0%Q. Proof. reflexivity. Qed.
Lemma rnd_1 : (rnd 1 == 1)%Q. Proof. vm_compute. reflexivity. Qed.

Corollary rnd_unit_interval q : (0 <= q <= 1)%Q -> (0 <= rnd q <= 1)%Q.
Proof.
  intros [H0 H1]. split.
  - rewrite <- rnd_0. now apply rnd_mono.
  - rewrite <- rnd_1. now apply rnd_mono.
Qed.
Corollary rnd_nonneg q : (0 <= q)%Q -> (0 <= rnd q)%Q.
Proof. intros H. rewrite <- rnd_0. now apply rnd_mono. Qed.
Corollary rnd_pos_strict q : (0 < q)%Q -> (0 < rnd q)%Q.
Proof.
  intros H. destruct (rnd_cases q) as [[N _]|[[N ->]|[N _]]]; unfold Qlt in H; cbn in H; try lia.
  apply rnd_pos_positive; lia.
Qed.
