(* Relational specification of best-first thresholded matching; the greedy loop satisfies it,
   the specification determines the matching when competing candidates have distinct scores,
   a stricter threshold can only remove matches, the loop never raises.  Generic in the score. *)
From Pan Require Import Base.Common Model.Matcher.
From Coq Require Import Sorted Permutation.
Open Scope Z_scope.

Section Spec.
  Variable score : Type.
  Variable geb : score -> score -> bool.
  Definition ge (a b : score) : Prop := geb a b = true.
  Definition gt (a b : score) : Prop := ge a b /\ ~ ge b a.
  Hypothesis geb_refl : forall a, ge a a.
  Hypothesis geb_trans : forall a b c, ge a b -> ge b c -> ge a c.
  Hypothesis geb_total : forall a b, ge a b \/ ge b a.
  Variable beats : score -> bool.
  Variable m2o : bool.
  Notation cand := (cand score).

  Definition conf (c d : cand) : Prop := conflictb m2o c d = true.
  Lemma conf_sym c d : conf c d -> conf d c.
  Proof.
    unfold conf, conflictb, same_predb, competingb. destruct m2o.
    - rewrite !Z.eqb_eq. congruence.
    - rewrite !orb_true_iff, !Z.eqb_eq. intros [H|H]; [left|right]; congruence.
  Qed.
  (* conflict only looks at the label pair *)
  Lemma conf_pair c d d' : snd d = snd d' -> conf c d -> conf c d'.
  Proof. unfold conf, conflictb, same_predb, competingb, cref, cpred. intros ->. auto. Qed.

  (* P1: conflict-free (a function pred -> ref; injective unless many-to-one) *)
  Definition P1 (M : list cand) := forall c d, In c M -> In d M -> conf c d -> c = d.
  (* P2: sound: only candidates that meet the threshold *)
  Definition P2 (cs M : list cand) := forall c, In c M -> In c cs /\ beats (fst c) = true.
  (* P3: maximal: no candidate meeting the threshold is left without a conflicting assignment *)
  Definition P3 (cs M : list cand) :=
    forall c, In c cs -> beats (fst c) = true -> exists d, In d M /\ conf c d.
  (* P4: best-first: an unmatched candidate meeting the threshold is blocked by a matched,
     conflicting candidate whose score is at least as good *)
  Definition P4 (cs M : list cand) :=
    forall c, In c cs -> beats (fst c) = true -> ~ In c M ->
      exists d, In d M /\ conf c d /\ ge (fst d) (fst c).
  Definition valid cs M := P1 M /\ P2 cs M /\ P4 cs M.

  Lemma conf_refl c : conf c c.
  Proof. unfold conf, conflictb, same_predb, competingb. destruct m2o; rewrite ?Z.eqb_refl; reflexivity. Qed.

  Lemma P4_P3 cs M : P4 cs M -> (forall c d : cand, {c = d} + {c <> d}) -> P3 cs M.
  Proof.
    intros H4 dec c Hc Hb. destruct (in_dec dec c M) as [Hin|Hn].
    - exists c. split; [exact Hin|apply conf_refl].
    - destruct (H4 c Hc Hb Hn) as (d & Hd & Hcf & _). eauto.
  Qed.

  (* ---------------- the loop ---------------- *)
  Lemma code_condition (M : list cand) (c : cand) :
    (existsb (competingb c) M && negb m2o) || existsb (same_predb c) M = existsb (conflictb m2o c) M.
  Proof.
    unfold conflictb. destruct m2o; cbn [negb].
    - rewrite andb_false_r. reflexivity.
    - rewrite andb_true_r. destruct (existsb (same_predb c) M) eqn:E; [|now rewrite orb_false_r].
      rewrite orb_true_r. symmetry. apply existsb_exists in E as (d & Hd & Hs). apply existsb_exists.
      exists d. split; [exact Hd|]. unfold competingb, same_predb in *. rewrite Hs. apply orb_true_r.
  Qed.

  Lemma step_res_ok (M : list cand) (c : cand) : step_res beats m2o M c = Ok (step beats m2o M c).
  Proof.
    unfold step_res, step. rewrite code_condition.
    destruct (existsb (conflictb m2o c) M) eqn:E; [reflexivity|].
    destruct (beats (fst c)); [|reflexivity]. unfold add_entry.
    destruct (existsb (fun d => (cpred d =? cpred c) && negb (cref d =? cref c)) M) eqn:E2; [|reflexivity].
    exfalso. apply existsb_exists in E2 as (d & Hd & Hx). apply andb_true_iff in Hx as [Hp _].
    assert (existsb (conflictb m2o c) M = true); [|congruence].
    apply existsb_exists. exists d. split; [exact Hd|]. apply Z.eqb_eq in Hp.
    unfold conflictb, same_predb, competingb. rewrite Hp, Z.eqb_refl. destruct m2o; [reflexivity|apply orb_true_r].
  Qed.

  Lemma greedy_res_ok (cs : list cand) : forall M : list cand, greedy_res beats m2o cs M = Ok (fold_left (step beats m2o) cs M).
  Proof. induction cs as [|c cs IH]; intros M; cbn [greedy_res fold_left]; [reflexivity|]. now rewrite step_res_ok, IH. Qed.

  (* the loop never raises *)
  Theorem greedy_total (cs : list cand) : greedy_res beats m2o cs [] = Ok (greedy beats m2o cs).
  Proof. apply greedy_res_ok. Qed.

  Definition sortedD := StronglySorted (fun a b : cand => ge (fst a) (fst b)).

  Record Inv (pre post M : list cand) : Prop := {
    i1 : P1 M;
    i2 : forall c, In c M -> In c pre /\ beats (fst c) = true;
    i4 : forall c, In c pre -> beats (fst c) = true -> ~ In c M ->
           exists d, In d M /\ conf c d /\ ge (fst d) (fst c) }.

  Lemma sorted_app_ge pre c post :
    sortedD (pre ++ c :: post) -> forall d, In d pre -> ge (fst d) (fst c).
  Proof.
    induction pre as [|a pre IH]; cbn; intros Hs d Hd; [contradiction|].
    inversion Hs as [|? ? Hs' Hall]; subst. destruct Hd as [<-|Hd].
    - rewrite Forall_forall in Hall. apply Hall. apply in_or_app. right. now left.
    - now apply IH.
  Qed.

  Lemma step_inv pre c post M :
    sortedD (pre ++ c :: post) -> NoDup (pre ++ c :: post) ->
    Inv pre (c :: post) M -> Inv (pre ++ [c]) post (step beats m2o M c).
  Proof.
    intros Hs Hnd [H1 H2 H4]. unfold step.
    assert (HcM : ~ In c M).
    { intros HcM. apply H2 in HcM as [Hc _]. apply NoDup_remove_2 in Hnd. apply Hnd. apply in_or_app. now left. }
    destruct (existsb (conflictb m2o c) M) eqn:E.
    - apply existsb_exists in E as [d [HdM Hcomp]]. constructor; auto.
      + intros x Hx. destruct (H2 x Hx) as [Hp Hb]. split; auto. apply in_or_app. now left.
      + intros x Hx Hb Hn. apply in_app_or in Hx as [Hx|[<-|[]]]; [now apply H4|].
        exists d. repeat split; auto. apply (sorted_app_ge pre c post Hs). now apply H2.
    - assert (Hnc : forall d, In d M -> ~ conf c d).
      { intros d Hd Hcomp. assert (existsb (conflictb m2o c) M = true) as F by (apply existsb_exists; eauto). congruence. }
      destruct (beats (fst c)) eqn:Eb.
      + constructor.
        * intros x y Hx Hy Hcomp.
          apply in_app_or in Hx as [Hx|[<-|[]]]; apply in_app_or in Hy as [Hy|[<-|[]]]; auto.
          -- exfalso. apply (Hnc x Hx). now apply conf_sym.
          -- exfalso. now apply (Hnc y Hy).
        * intros x Hx. apply in_app_or in Hx as [Hx|[<-|[]]].
          -- destruct (H2 x Hx). split; auto. apply in_or_app. now left.
          -- split; auto. apply in_or_app. right. now left.
        * intros x Hx Hb Hn. apply in_app_or in Hx as [Hx|[<-|[]]].
          -- destruct (H4 x Hx Hb) as [d [Hd [Hc Hg]]].
             { intros Hin. apply Hn. apply in_or_app. now left. }
             exists d. repeat split; auto. apply in_or_app. now left.
          -- exfalso. apply Hn. apply in_or_app. right. now left.
      + constructor; auto.
        * intros x Hx. destruct (H2 x Hx). split; auto. apply in_or_app. now left.
        * intros x Hx Hb Hn. apply in_app_or in Hx as [Hx|[<-|[]]]; [now apply H4|congruence].
  Qed.

  Lemma fold_inv post : forall pre M,
    sortedD (pre ++ post) -> NoDup (pre ++ post) -> Inv pre post M ->
    Inv (pre ++ post) [] (fold_left (step beats m2o) post M).
  Proof.
    induction post as [|c post IH]; cbn [fold_left]; intros pre M Hs Hnd HI.
    - now rewrite app_nil_r.
    - replace (pre ++ c :: post) with ((pre ++ [c]) ++ post) by (rewrite <- app_assoc; reflexivity).
      apply IH; [rewrite <- app_assoc; exact Hs|rewrite <- app_assoc; exact Hnd|now apply step_inv].
  Qed.

  Theorem greedy_valid cs :
    sortedD cs -> NoDup cs -> valid cs (greedy beats m2o cs).
  Proof.
    intros Hs Hnd. destruct (fold_inv cs [] [] Hs Hnd) as [H1 H2 H4].
    { constructor; [intros c d []|intros c []|intros c []]. }
    cbn in *. repeat split; auto; apply H2; auto.
  Qed.

  (* ---------------- uniqueness ---------------- *)
  Definition competing_distinct (cs : list cand) :=
    forall c d, In c cs -> In d cs -> beats (fst c) = true -> beats (fst d) = true ->
      conf c d -> c <> d -> gt (fst c) (fst d) \/ gt (fst d) (fst c).

  Lemma exists_best (l : list cand) : l <> [] -> exists b, In b l /\ forall x, In x l -> ge (fst b) (fst x).
  Proof.
    induction l as [|a l IH]; [congruence|]. intros _. destruct l as [|a' l'].
    - exists a. split; [now left|]. intros x [<-|[]]. apply geb_refl.
    - destruct IH as [b [Hb Hbest]]; [congruence|]. destruct (geb_total (fst a) (fst b)) as [H|H].
      + exists a. split; [now left|]. intros x [<-|Hx]; [apply geb_refl|].
        eapply geb_trans; [exact H|]. now apply Hbest.
      + exists b. split; [now right|]. intros x [<-|Hx]; [exact H|]. now apply Hbest.
  Qed.

  Hypothesis cand_eq_dec : forall c d : cand, {c = d} + {c <> d}.

  Theorem valid_unique cs M M' :
    competing_distinct cs -> valid cs M -> valid cs M' -> forall c, In c M <-> In c M'.
  Proof.
    intros Hcd [H1 [H2 H4]] [H1' [H2' H4']].
    set (inb := fun (L : list cand) c => if in_dec cand_eq_dec c L then true else false).
    set (D := filter (fun c => negb (inb M' c)) M ++ filter (fun c => negb (inb M c)) M').
    assert (HD : forall c, In c D <-> (In c M /\ ~ In c M') \/ (In c M' /\ ~ In c M)).
    { intros c. unfold D. rewrite in_app_iff, !filter_In. unfold inb. split.
      - intros [[Hc Hn]|[Hc Hn]]; [left|right]; split; auto;
          destruct (in_dec cand_eq_dec c _); cbn in Hn; congruence.
      - intros [[Hc Hn]|[Hc Hn]]; [left|right]; split; auto;
          destruct (in_dec cand_eq_dec c _); cbn; auto; contradiction. }
    destruct D as [|d0 D0] eqn:ED.
    - intros c. split; intros Hc.
      + destruct (in_dec cand_eq_dec c M') as [|Hn]; auto.
        exfalso. assert (In c []) as F by (apply HD; left; auto). destruct F.
      + destruct (in_dec cand_eq_dec c M) as [|Hn]; auto.
        exfalso. assert (In c []) as F by (apply HD; right; auto). destruct F.
    - exfalso. destruct (exists_best (d0 :: D0)) as [e [He Hbest]]; [congruence|].
      assert (Hstep : forall A B, P1 A -> P2 cs A -> P2 cs B -> P4 cs B -> In e A -> ~ In e B ->
                 (forall x, (In x B /\ ~ In x A) -> ge (fst e) (fst x)) -> False).
      { intros A B HA1 HA2 HB2 HB4 HeA HeB Hmax.
        destruct (HA2 e HeA) as [Hecs Heb]. destruct (HB4 e Hecs Heb HeB) as [e' [He'B [Hcomp Hge]]].
        assert (e <> e') as Hne by (intros ->; contradiction).
        destruct (in_dec cand_eq_dec e' A) as [He'A|He'A].
        - apply Hne. now apply HA1.
        - destruct (HB2 e' He'B) as [He'cs He'b].
          destruct (Hcd e e' Hecs He'cs Heb He'b Hcomp Hne) as [[Hg1 Hg2]|[Hg1 Hg2]].
          + contradiction.
          + apply Hg2. apply Hmax. split; auto. }
      apply HD in He. destruct He as [[HeM HeM']|[HeM' HeM]].
      + apply (Hstep M M'); auto. intros x [Hx Hnx]. apply Hbest. apply HD. right. split; auto.
      + apply (Hstep M' M); auto. intros x [Hx Hnx]. apply Hbest. apply HD. left. split; auto.
  Qed.

  (* ---------------- the stable sort ---------------- *)
  Lemma ins_perm c l : Permutation (c :: l) (ins geb c l).
  Proof.
    induction l as [|d l IH]; cbn [ins]; [reflexivity|]. destruct (geb (fst c) (fst d)); [reflexivity|].
    rewrite perm_swap. now apply perm_skip.
  Qed.
  Lemma sort_perm l : Permutation l (sort_cands geb l).
  Proof.
    unfold sort_cands. induction l as [|c l IH]; cbn [fold_right]; [reflexivity|].
    rewrite <- ins_perm. now apply perm_skip.
  Qed.
  Lemma ins_sorted c l : sortedD l -> sortedD (ins geb c l).
  Proof.
    induction l as [|d l IH]; intros Hs; cbn [ins].
    - constructor; [constructor|constructor].
    - inversion Hs as [|? ? Hs' Hall]; subst. destruct (geb (fst c) (fst d)) eqn:E.
      + constructor; [exact Hs|]. constructor; [exact E|].
        rewrite Forall_forall in *. intros x Hx. eapply geb_trans; [exact E|now apply Hall].
      + assert (Hdc : ge (fst d) (fst c)).
        { destruct (geb_total (fst c) (fst d)) as [H|H]; [unfold ge in H; congruence|exact H]. }
        constructor; [now apply IH|]. rewrite Forall_forall in *. intros x Hx.
        apply (Permutation_in _ (Permutation_sym (ins_perm c l))) in Hx. destruct Hx as [<-|Hx]; [exact Hdc|now apply Hall].
  Qed.
  Lemma sort_sorted l : sortedD (sort_cands geb l).
  Proof. unfold sort_cands. induction l as [|c l IH]; cbn [fold_right]; [constructor|now apply ins_sorted]. Qed.

  (* ---------------- threshold monotonicity ---------------- *)
  Variable beats' : score -> bool.                      (* a stricter threshold *)
  Hypothesis stricter : forall s, beats' s = true -> beats s = true.
  Hypothesis beats'_up : forall a b, ge a b -> beats' b = true -> beats' a = true.

  Lemma fold_step_grows cs : forall M c, In c M -> In c (fold_left (step beats m2o) cs M).
  Proof.
    induction cs as [|x cs IH]; intros M c Hc; cbn [fold_left]; [exact Hc|]. apply IH. unfold step.
    destruct (existsb (conflictb m2o x) M); [exact Hc|]. destruct (beats (fst x)); [apply in_or_app; now left|exact Hc].
  Qed.

  Lemma fold_no_beats cs : (forall c, In c cs -> beats' (fst c) = false) ->
    forall M, fold_left (step beats' m2o) cs M = M.
  Proof.
    induction cs as [|x cs IH]; intros Hall M; cbn [fold_left]; [reflexivity|].
    rewrite IH by (intros c Hc; apply Hall; now right). unfold step.
    destruct (existsb (conflictb m2o x) M); [reflexivity|]. now rewrite (Hall x (or_introl eq_refl)).
  Qed.

  Lemma mono_fold cs : sortedD cs ->
    forall M, (forall c, In c (fold_left (step beats' m2o) cs M) -> In c (fold_left (step beats m2o) cs M)).
  Proof.
    induction cs as [|x cs IH]; intros Hs M c Hc; cbn [fold_left] in *; [exact Hc|].
    inversion Hs as [|? ? Hs' Hall]; subst. destruct (beats' (fst x)) eqn:Eb'.
    - (* x meets both thresholds: the two loops take the same step *)
      assert (Est : step beats' m2o M x = step beats m2o M x).
      { unfold step. destruct (existsb (conflictb m2o x) M); [reflexivity|]. now rewrite Eb', (stricter _ Eb'). }
      rewrite Est in Hc. now apply IH.
    - (* x fails the strict threshold; so does everything after it (sorted, upward closed) *)
      assert (Hrest : forall d, In d cs -> beats' (fst d) = false).
      { intros d Hd. destruct (beats' (fst d)) eqn:E; [|reflexivity]. rewrite Forall_forall in Hall.
        rewrite (beats'_up _ _ (Hall d Hd) E) in Eb'. discriminate. }
      rewrite (fold_no_beats cs Hrest) in Hc.
      assert (Hst : step beats' m2o M x = M).
      { unfold step. destruct (existsb (conflictb m2o x) M); [reflexivity|]. now rewrite Eb'. }
      rewrite Hst in Hc. apply fold_step_grows. unfold step.
      destruct (existsb (conflictb m2o x) M); [exact Hc|]. destruct (beats (fst x)); [apply in_or_app; now left|exact Hc].
  Qed.

  Theorem greedy_threshold_mono cs : sortedD cs ->
    forall c, In c (greedy beats' m2o cs) -> In c (greedy beats m2o cs).
  Proof. intros Hs c. unfold greedy. now apply mono_fold. Qed.

  (* ---------------- the decidable checker reflects the specification ---------------- *)
  Variable score_eqb : score -> score -> bool.
  Hypothesis score_eqb_spec : forall a b, score_eqb a b = true <-> a = b.

  Lemma cand_eqb_spec c d : cand_eqb score_eqb c d = true <-> c = d.
  Proof.
    unfold cand_eqb, cref, cpred. rewrite !andb_true_iff, !Z.eqb_eq, score_eqb_spec.
    destruct c as [s [r p]], d as [s' [r' p']]; cbn. split; [intros [[-> ->] ->]; reflexivity|intros [= -> -> ->]; auto].
  Qed.
  Lemma memc_spec c l : memc score_eqb c l = true <-> In c l.
  Proof.
    unfold memc. rewrite existsb_exists. split.
    - intros (d & Hd & He). apply cand_eqb_spec in He. now subst.
    - intros H. exists c. split; [exact H|now apply cand_eqb_spec].
  Qed.

  Theorem check_valid_sound cs M :
    check_valid beats geb score_eqb m2o cs M = true -> P1 M /\ P2 cs M /\ P3 cs M /\ P4 cs M.
  Proof.
    unfold check_valid. rewrite !andb_true_iff. intros [[[H1 H2] H3] H4]. repeat split.
    - intros c d Hc Hd Hcf. unfold check_P1 in H1. rewrite forallb_forall in H1.
      specialize (H1 c Hc). rewrite forallb_forall in H1. specialize (H1 d Hd).
      unfold conf in Hcf. rewrite Hcf in H1. cbn in H1. now apply cand_eqb_spec.
    - unfold check_P2 in H2. rewrite forallb_forall in H2. apply H2 in H. apply andb_true_iff in H as [Hm _]. now apply memc_spec.
    - unfold check_P2 in H2. rewrite forallb_forall in H2. apply H2 in H. now apply andb_true_iff in H as [_ Hb].
    - intros c Hc Hb. unfold check_P3 in H3. rewrite forallb_forall in H3. specialize (H3 c Hc). rewrite Hb in H3.
      cbn in H3. apply existsb_exists in H3 as (d & Hd & Hcf). exists d. split; assumption.
    - intros c Hc Hb Hn. unfold check_P4 in H4. rewrite forallb_forall in H4. specialize (H4 c Hc). rewrite Hb in H4.
      destruct (memc score_eqb c M) eqn:Em; [apply memc_spec in Em; contradiction|]. cbn in H4.
      apply existsb_exists in H4 as (d & Hd & Hx). apply andb_true_iff in Hx as [Hcf Hg]. exists d. repeat split; assumption.
  Qed.
End Spec.

(* the loop adds a candidate at most once, and assigned predictions are pairwise distinct *)
Section NoDupResult.
  Variable score : Type.
  Variable beats : score -> bool.
  Variable m2o : bool.
  Notation cand := (cand score).

  Lemma step_NoDup_preds (M : list cand) c : NoDup (map cpred M) -> NoDup (map cpred (step beats m2o M c)).
  Proof.
    intros Hnd. unfold step. destruct (existsb (conflictb m2o c) M) eqn:E; [exact Hnd|].
    destruct (beats (fst c)); [|exact Hnd]. rewrite map_app. cbn [map].
    assert (Hn : ~ In (cpred c) (map cpred M)).
    { intros Hin. apply in_map_iff in Hin as (d & Hd & Hin).
      assert (existsb (conflictb m2o c) M = true); [|congruence]. apply existsb_exists. exists d. split; [exact Hin|].
      unfold conflictb, same_predb, competingb. rewrite Hd, Z.eqb_refl. destruct m2o; [reflexivity|apply orb_true_r]. }
    clear E. induction M as [|d M IH]; cbn [map app]; [constructor; [intros []|constructor]|].
    cbn [map] in Hnd, Hn. inversion Hnd as [|? ? Hd Hnd']; subst. constructor.
    - intros Hin. apply in_app_or in Hin as [Hin|[Hin|[]]]; [contradiction|]. apply Hn. left. congruence.
    - apply IH; [exact Hnd'|]. intros Hin. apply Hn. now right.
  Qed.
  Lemma greedy_NoDup_preds cs : NoDup (map cpred (greedy beats m2o cs)).
  Proof.
    unfold greedy. assert (H : forall M, NoDup (map cpred M) -> NoDup (map cpred (fold_left (step beats m2o) cs M))).
    { induction cs as [|c cs IH]; intros M HM; cbn [fold_left]; [exact HM|]. apply IH. now apply step_NoDup_preds. }
    apply H. constructor.
  Qed.
End NoDupResult.
