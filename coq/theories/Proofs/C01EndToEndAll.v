(* C01, end to end for EVERY instance metric (no restriction to the overlap metrics): IoU / Dice / RVD lists hold the set-definition
   scores against the union of the assigned predictions, ASSD / clDice lists hold the geometric values of the evaluated instances
   (whose conformance to the definitions is Props/C07 and Props/C06), for the threshold matcher and for the merge matcher. *)
From Pan Require Import Base.Common Base.Sx Base.Rnd64 Model.MetricTable Model.Metrics Model.EdgeCase Model.Result Model.ZeroCase
  Model.Matcher Model.Merge Model.Relabel Model.Pipeline Proofs.ListFacts Proofs.ResultFacts Proofs.Matching Proofs.MatcherQ
  Proofs.MergeFacts Proofs.C04Proofs Proofs.C01Proofs Proofs.PipelineFacts Proofs.C01EndToEnd Proofs.PaddingPipeline.
From Coq Require Import Permutation.
Open Scope Z_scope.

Definition valq (x : ext) (a : arr2) (m : metric) (l : Z) : Q :=
  match instance_value x a l m with Ok v => v | Err _ => 0%Q end.

Lemma instance_dict_values x a l ems : forall d, instance_dict x a l ems = Ok d ->
  d = map (fun m => (m, valq x a m l)) ems /\ forall m, In m ems -> instance_value x a l m = Ok (valq x a m l).
Proof.
  induction ems as [|m ems IH]; intros d H; cbn [instance_dict map] in *.
  - injection H as <-. split; [reflexivity|intros m []].
  - destruct (instance_value x a l m) as [v|e] eqn:Ev; [|discriminate].
    destruct (instance_dict x a l ems) as [r|e]; [|discriminate]. injection H as <-.
    destruct (IH r eq_refl) as [-> Hall]. split.
    + cbn [map]. f_equal. unfold valq. rewrite Ev. reflexivity.
    + intros m' [<-|Hm']; [unfold valq; rewrite Ev; reflexivity|apply Hall, Hm'].
Qed.
Lemma all_dicts_values x a ems : forall ls ds, all_dicts x a ls ems = Ok ds ->
  ds = map (fun l => map (fun m => (m, valq x a m l)) ems) ls
  /\ forall l m, In l ls -> In m ems -> instance_value x a l m = Ok (valq x a m l).
Proof.
  induction ls as [|l ls IH]; intros ds H; cbn [all_dicts map] in *.
  - injection H as <-. split; [reflexivity|intros l m []].
  - destruct (instance_dict x a l ems) as [d|e] eqn:Ed; [|discriminate].
    destruct (all_dicts x a ls ems) as [r|e]; [|discriminate]. injection H as <-.
    destruct (instance_dict_values x a l ems d Ed) as [-> Hd]. destruct (IH r eq_refl) as [-> Hr]. split; [reflexivity|].
    intros l' m [<-|Hl'] Hm; [apply Hd, Hm|apply Hr; assumption].
Qed.

Lemma evaluate_matched_values x ems dmo thr a tp lists :
  evaluate_matched x ems dmo thr a = Ok (tp, lists) ->
  let passes := fun l => passes_decision dmo thr (fun m => valq x a m l) in
  let TP := filter passes (matched_labels a) in
  tp = Z.of_nat (length TP) /\
  (forall m vals, lookup_m m lists = Some vals -> vals = map (valq x a m) TP) /\
  (forall l m, In l (matched_labels a) -> In m ems -> instance_value x a l m = Ok (valq x a m l)).
Proof.
  unfold evaluate_matched.
  destruct (match dmo with None => true | Some dm => existsb (metric_eqb dm) ems && match thr with Some _ => true | None => false end end) eqn:Ecfg;
    cbn [negb]; [|discriminate].
  destruct (all_dicts x a (matched_labels a) ems) as [ds|e] eqn:Ed; [|discriminate].
  destruct (all_dicts_values x a ems _ ds Ed) as [-> Hok]. intros [= <- <-]. cbn zeta.
  set (dict := fun l => map (fun m => (m, valq x a m l)) ems).
  assert (Hp : forall l, passes_decision dmo thr (fun m => lookup_mq m (dict l)) = passes_decision dmo thr (fun m => valq x a m l)).
  { intros l. unfold passes_decision. destruct dmo as [dm|]; [|reflexivity]. destruct thr as [t|]; [|reflexivity].
    apply andb_true_iff in Ecfg as [Hin _]. unfold dict. now rewrite (lookup_mq_map (fun m => valq x a m l) dm ems Hin). }
  rewrite (filter_map_comm dict). rewrite (filter_ext _ _ Hp). split; [now rewrite map_length|]. split; [|exact Hok].
  intros m vals Hm. rewrite (lookup_m_map_key (fun m => map (lookup_mq m) _)) in Hm.
  destruct (existsb (metric_eqb m) (dedup_metrics ems)) eqn:Edd; [|discriminate]. injection Hm as <-.
  rewrite map_map. apply map_ext. intros l. unfold dict. apply (lookup_mq_map (fun k => valq x a k l)).
  apply dedup_metrics_in. apply existsb_exists in Edd as (k & Hk & E). apply metric_eqb_eq in E. now subst.
Qed.

(* the score a list entry of metric m for the evaluated instance l stands for, in terms of the ORIGINAL arrays and the label map *)
Definition escore (x : ext) (L : lmap) (a : arr2) (m : metric) (l : Z) : Q :=
  match m with
  | DSC => dice (Some (l, preds_of l L)) a
  | IOU => iou (Some (l, preds_of l L)) a
  | RVD => match rvd (Some (l, preds_of l L)) a with Ok q => q | Err _ => 0%Q end
  | ASSD => x_inst x ASSD l
  | clDSC => x_inst x clDSC l
  end.

Lemma eval_phase_explained_all x c a L r :
  nonneg_arr a -> wf_matching L a ->
  eval_phase x c (map_instance_labels L a) = Ok r ->
  let a' := map_instance_labels L a in
  (forall l, In l (matched_labels a') <-> exists p, In (p, l) L) /\
  let TP := filter (fun l => passes_decision (c_dm c) (c_dthr c) (fun m => escore x L a m l)) (matched_labels a') in
  (zero_case (n_pred_inst a') (n_ref_inst a') = None ->
     o_tp r = Z.of_nat (length TP) /\
     (forall mr, In mr (o_metrics r) -> m_all mr = map (escore x L a (m_metric mr)) TP) /\
     (* the relative volume difference of every evaluated instance is defined (its reference is not empty) *)
     (In RVD (c_ems c) -> forall l, In l (matched_labels a') -> rvd (Some (l, preds_of l L)) a = Ok (escore x L a RVD l)) /\
     o_fp r = n_pred_inst a' - o_tp r /\ o_fn r = n_ref_inst a - o_tp r).
Proof.
  intros Hnn Hwf Hp. cbn zeta.
  split; [exact (matched_labels_relabel L a Hnn Hwf)|].
  intros Hz'. unfold eval_phase in Hp. rewrite Hz' in Hp.
  destruct (evaluate_matched x (c_ems c) (c_dm c) (c_dthr c) (map_instance_labels L a)) as [[tp lists]|] eqn:Ee; [|discriminate].
  destruct (evaluate_matched_values _ _ _ _ _ _ _ Ee) as (Htp & Hl & Hok).
  destruct (panoptica_result_fields _ _ Hp) as (_ & _ & E3 & E4 & E5 & _ & Hall). cbn [r_np r_nr r_tp r_lists] in *.
  set (a' := map_instance_labels L a) in *.
  (* values on the relabelled arrays = scores in terms of the original arrays and the label map, for the metrics evaluated *)
  assert (Hs : forall m l, In l (matched_labels a') -> In m (c_ems c) -> valq x a' m l = escore x L a m l
             /\ (m = RVD -> rvd (Some (l, preds_of l L)) a = Ok (escore x L a RVD l))).
  { intros m l Hin Hm. pose proof (Hok l m Hin Hm) as Hv.
    apply (matched_labels_relabel L a Hnn Hwf) in Hin as [p Hin].
    destruct (proj2 Hwf p l Hin) as [_ Hr].
    destruct (evaluated_scores L a l Hnn Hwf Hr) as (Ei & Ed & Erv). fold a' in Ei, Ed, Erv.
    unfold valq, escore. destruct m; cbn [instance_value] in *; try (split; [first [exact Ed|exact Ei|reflexivity]|intros; discriminate]).
    rewrite Erv in Hv. rewrite Erv. rewrite Hv. split; [reflexivity|intros _; reflexivity]. }
  (* the decision metric is among the evaluated ones (checked by evaluate_matched) *)
  assert (Hdm : forall dm, c_dm c = Some dm -> c_dthr c <> None -> In dm (c_ems c)).
  { intros dm Edm Hthr. unfold evaluate_matched in Ee. rewrite Edm in Ee.
    destruct (existsb (metric_eqb dm) (c_ems c)) eqn:Ex; [|cbn in Ee; discriminate].
    apply existsb_exists in Ex as (k & Hk & E). apply metric_eqb_eq in E. now subst. }
  assert (Hf : filter (fun l => passes_decision (c_dm c) (c_dthr c) (fun m => valq x a' m l)) (matched_labels a') =
               filter (fun l => passes_decision (c_dm c) (c_dthr c) (fun m => escore x L a m l)) (matched_labels a')).
  { apply filter_ext_in. intros l Hin. unfold passes_decision. destruct (c_dm c) as [dm|] eqn:Edm; [|reflexivity].
    destruct (c_dthr c) as [t|] eqn:Et; [|reflexivity].
    assert (Hin' : In dm (c_ems c)) by (apply (Hdm dm eq_refl); discriminate).
    now rewrite (proj1 (Hs dm l Hin Hin')). }
  rewrite <- Hf. split; [rewrite E3; exact Htp|]. split; [|split].
  - intros mr Hin. pose proof (Hall mr Hin) as Hlk. rewrite (Hl _ _ Hlk). apply map_ext_in. intros l Hl'.
    apply filter_In in Hl' as [Hl' _]. apply Hs; [exact Hl'|].
    (* the key of a reported list is an evaluated metric *)
    unfold evaluate_matched in Ee.
    destruct (negb _) in Ee; [discriminate|]. destruct (all_dicts _ _ _ _) in Ee; [|discriminate]. injection Ee as _ <-.
    rewrite (lookup_m_map_key (fun m => map (lookup_mq m) _)) in Hlk.
    destruct (existsb (metric_eqb (m_metric mr)) (dedup_metrics (c_ems c))) eqn:Edd; [|discriminate].
    apply existsb_exists in Edd as (k & Hk & E). apply metric_eqb_eq in E. subst k.
    apply dedup_metrics_in in Hk. apply existsb_exists in Hk as (k & Hk & E). apply metric_eqb_eq in E. now subst.
  - intros Hrvd l Hin. exact (proj2 (Hs RVD l Hin Hrvd) eq_refl).
  - rewrite E4, E5, E3. unfold n_ref_inst, a'. rewrite (ref_labels_relabel L a). split; reflexivity.
Qed.

(* ---- threshold matcher, every metric ---- *)
Theorem end_to_end_all x c a r :
  nonneg_arr a -> (c_matcher c = 1 \/ c_matcher c = 2) ->
  zero_case (n_pred_inst a) (n_ref_inst a) = None -> pipeline x c a = Ok r ->
  let decr := decreasing (c_mmetric c) in let m2o := c_matcher c =? 2 in
  let cs := cand_list x (c_mmetric c) a in
  exists M,
    P1 Q m2o M /\ P2 Q (fun s => beats decr s (c_mthr c)) cs M /\
    P3 Q (fun s => beats decr s (c_mthr c)) m2o cs M /\
    P4 Q (better_eq decr) (fun s => beats decr s (c_mthr c)) m2o cs M /\
    let L := lmap_of M in let a' := map_instance_labels L a in
    (forall l, In l (matched_labels a') <-> exists p, In (p, l) L) /\
    let TP := filter (fun l => passes_decision (c_dm c) (c_dthr c) (fun m => escore x L a m l)) (matched_labels a') in
    (zero_case (n_pred_inst a') (n_ref_inst a') = None ->
       o_tp r = Z.of_nat (length TP) /\
       (forall mr, In mr (o_metrics r) -> m_all mr = map (escore x L a (m_metric mr)) TP) /\
       (In RVD (c_ems c) -> forall l, In l (matched_labels a') -> rvd (Some (l, preds_of l L)) a = Ok (escore x L a RVD l)) /\
       o_fp r = n_pred_inst a' - o_tp r /\ o_fn r = n_ref_inst a - o_tp r).
Proof.
  intros Hnn Hk Hz Hp decr m2o cs.
  destruct (match_phase_naive x c a Hk) as (M & _ & Hmp & H1 & H2 & H3 & H4 & Hwf).
  exists M. repeat (split; [assumption|]).
  assert (Hp' : eval_phase x c (map_instance_labels (lmap_of M) a) = Ok r).
  { unfold pipeline in Hp.
    assert (E0 : (c_matcher c =? 0) = false) by (destruct Hk as [-> | ->]; reflexivity).
    rewrite E0, Hz, Hmp in Hp. exact Hp. }
  exact (eval_phase_explained_all x c a (lmap_of M) r Hnn Hwf Hp').
Qed.

(* ---- merge matcher, every metric ---- *)
Theorem end_to_end_merge_all x c a r :
  nonneg_arr a -> c_matcher c = 3 ->
  zero_case (n_pred_inst a) (n_ref_inst a) = None -> pipeline x c a = Ok r ->
  let decr := decreasing (c_mmetric c) in
  let cs := cand_list x (c_mmetric c) a in
  (forall cd, In cd cs -> fst cd = x_union x (cref cd) [cpred cd]) ->
  let st := merge_match (better_eq decr) Qeq_bool (fun s => beats decr s (c_mthr c)) (x_union x) cs in
  let L := ms_map st in let a' := map_instance_labels L a in
  wf_matching L a /\
  (forall l, In l (matched_labels a') <-> exists p, In (p, l) L) /\
  let TP := filter (fun l => passes_decision (c_dm c) (c_dthr c) (fun m => escore x L a m l)) (matched_labels a') in
  (zero_case (n_pred_inst a') (n_ref_inst a') = None ->
     o_tp r = Z.of_nat (length TP) /\
     (forall mr, In mr (o_metrics r) -> m_all mr = map (escore x L a (m_metric mr)) TP) /\
     (In RVD (c_ems c) -> forall l, In l (matched_labels a') -> rvd (Some (l, preds_of l L)) a = Ok (escore x L a RVD l)) /\
     o_fp r = n_pred_inst a' - o_tp r /\ o_fn r = n_ref_inst a - o_tp r).
Proof.
  intros Hnn Hk Hz Hp decr cs Hseed st L a'.
  pose proof (merge_wf x c a Hseed) as Hwf. cbn zeta in Hwf. fold decr in Hwf. fold cs in Hwf. fold st in Hwf. fold L in Hwf.
  split; [exact Hwf|].
  assert (Hp' : eval_phase x c a' = Ok r).
  { unfold pipeline in Hp. rewrite Hk in Hp. cbn [Z.eqb Pos.eqb] in Hp. rewrite Hz in Hp.
    unfold match_phase in Hp. rewrite Hk in Hp. cbn [Z.eqb Pos.eqb] in Hp. exact Hp. }
  exact (eval_phase_explained_all x c a L r Hnn Hwf Hp').
Qed.
