(* Further facts for C19: the tables of the current source pass the side condition; whatever loads is a
   state of the constructors (well formed), hence re-saves and re-loads to itself; the default-filling
   constructor of MetricZeroTPEdgeCaseHandling; label normalisation is idempotent; keyword order is
   irrelevant; tables with a dropped key / wrong attribute / equal tags are rejected and really break. *)
From Coq Require Import Permutation.
From Coq Require String.
Import String.StringSyntax.
From Pan Require Import Base.Common Model.MetricTable Model.Config Proofs.ConfigFacts Proofs.ConfigRoundTrip.
Open Scope Z_scope.
Local Open Scope string_scope.

Lemma model_tables_ok : tables_ok model_tables = true.
Proof. vm_compute. reflexivity. Qed.

(* ------------------------------------------------------------------ sorted(set(.)) *)
Definition lb (x : Z) (l : list Z) : Prop := forall y, In y l -> x < y.
Fixpoint SS (l : list Z) : Prop := match l with [] => True | x :: t => lb x t /\ SS t end.   (* strictly increasing *)

Lemma memZ_In x l : memZ x l = true <-> In x l.
Proof.
  unfold memZ. rewrite existsb_exists. split.
  - intros [y [Hy E]]. apply Z.eqb_eq in E. subst. exact Hy.
  - intros H. exists x. split; [exact H|apply Z.eqb_refl].
Qed.

Lemma In_dedupZ y l : In y (dedupZ l) <-> In y l.
Proof.
  induction l as [|x t IH]; simpl; [tauto|].
  destruct (memZ x t) eqn:E.
  - rewrite IH. split; [tauto|]. intros [->|H]; [apply memZ_In; exact E|exact H].
  - simpl. rewrite IH. tauto.
Qed.

Lemma NoDup_dedupZ l : NoDup (dedupZ l).
Proof.
  induction l as [|x t IH]; simpl; [constructor|].
  destruct (memZ x t) eqn:E; [exact IH|].
  constructor; [|exact IH]. rewrite In_dedupZ. intros H. apply memZ_In in H. congruence.
Qed.

Lemma In_insZ y x l : In y (insZ x l) <-> y = x \/ In y l.
Proof.
  induction l as [|z t IH]; simpl; [intuition|].
  destruct (x <=? z); simpl; [intuition|]. rewrite IH. intuition.
Qed.

Lemma In_sortZ y l : In y (sortZ l) <-> In y l.
Proof.
  unfold sortZ. induction l as [|x t IH]; simpl; [tauto|]. rewrite In_insZ, IH. intuition.
Qed.

Lemma SS_insZ x l : SS l -> ~ In x l -> SS (insZ x l).
Proof.
  induction l as [|z t IH]; simpl; intros Hs Hn.
  - split; [intros y []|exact I].
  - destruct Hs as [Hlb Hs]. destruct (x <=? z) eqn:E.
    + apply Z.leb_le in E. assert (x < z) by (assert (x <> z) by (intros ->; apply Hn; left; reflexivity); lia).
      simpl. split; [|split; assumption].
      intros y [<-|Hy]; [assumption|]. specialize (Hlb y Hy). lia.
    + apply Z.leb_gt in E. simpl. split.
      * intros y Hy. apply In_insZ in Hy as [->|Hy]; [exact E|apply Hlb, Hy].
      * apply IH; [exact Hs|]. intros H. apply Hn. right. exact H.
Qed.

Lemma SS_sortZ l : NoDup l -> SS (sortZ l).
Proof.
  unfold sortZ. induction l as [|x t IH]; simpl; intros Hn; [exact I|].
  inversion Hn as [|? ? Hx Ht]; subst. apply SS_insZ; [apply IH, Ht|].
  intros H. apply Hx. apply (In_sortZ x t). exact H.
Qed.

Lemma SS_uniqueZ l : SS (uniqueZ l).
Proof. unfold uniqueZ. apply SS_sortZ, NoDup_dedupZ. Qed.

Lemma dedupZ_SS l : SS l -> dedupZ l = l.
Proof.
  induction l as [|x t IH]; simpl; intros Hs; [reflexivity|]. destruct Hs as [Hlb Hs].
  destruct (memZ x t) eqn:E.
  - apply memZ_In in E. specialize (Hlb x E). lia.
  - rewrite (IH Hs). reflexivity.
Qed.

Lemma sortZ_SS l : SS l -> sortZ l = l.
Proof.
  unfold sortZ. induction l as [|x t IH]; simpl; intros Hs; [reflexivity|]. destruct Hs as [Hlb Hs].
  rewrite (IH Hs). destruct t as [|z t']; [reflexivity|]. simpl.
  assert (x < z) by (apply Hlb; left; reflexivity).
  destruct (x <=? z) eqn:E; [reflexivity|]. apply Z.leb_gt in E. lia.
Qed.

Lemma uniqueZ_fix l : SS l -> uniqueZ l = l.
Proof. intros H. unfold uniqueZ. rewrite (dedupZ_SS l H). apply sortZ_SS, H. Qed.

(* sorted(set(sorted(set(l)))) = sorted(set(l)) *)
Theorem uniqueZ_idem l : uniqueZ (uniqueZ l) = uniqueZ l.
Proof. apply uniqueZ_fix, SS_uniqueZ. Qed.

Lemma list_eqbZ_refl l : list_eqbZ l l = true.
Proof. induction l as [|x t IH]; simpl; [reflexivity|]. rewrite Z.eqb_refl, IH. reflexivity. Qed.

(* wf_lgroup's label condition is "strictly increasing" *)
Lemma wf_labels_SS l : list_eqbZ (uniqueZ l) l = true <-> SS l.
Proof.
  split.
  - intros H. apply list_eqbZ_eq in H. rewrite <- H. apply SS_uniqueZ.
  - intros H. rewrite (uniqueZ_fix l H). apply list_eqbZ_refl.
Qed.

(* ------------------------------------------------------------------ names *)
Lemma lower_cp_props z : 0 <= z < 128 -> 0 <= lower_cp z < 128 /\ lower_cp (lower_cp z) = lower_cp z.
Proof.
  intros Hz. unfold lower_cp.
  destruct ((65 <=? z) && (z <=? 90)) eqn:E.
  - apply andb_true_iff in E as [E1 E2]. apply Z.leb_le in E1, E2. split; [lia|].
    assert (H : (65 <=? z + 32) && (z + 32 <=? 90) = false).
    { apply andb_false_iff. right. apply Z.leb_gt. lia. }
    rewrite H. reflexivity.
  - split; [lia|]. rewrite E. reflexivity.
Qed.

Lemma wf_name_lower n : ascii_str n = true -> wf_name (lower n) = true.
Proof.
  unfold wf_name, ascii_str, lower. intros H. rewrite forallb_forall in H.
  apply andb_true_iff. split.
  - apply forallb_forall. intros z Hz. apply in_map_iff in Hz as [z0 [<- Hz0]].
    specialize (H z0 Hz0). apply andb_true_iff in H as [H1 H2]. apply Z.leb_le in H1. apply Z.ltb_lt in H2.
    destruct (lower_cp_props z0 (conj H1 H2)) as [[A B] _].
    apply andb_true_iff. split; [apply Z.leb_le; exact A|apply Z.ltb_lt; exact B].
  - apply str_eqb_eq. rewrite map_map. apply map_ext_in. intros z Hz.
    specialize (H z Hz). apply andb_true_iff in H as [H1 H2]. apply Z.leb_le in H1. apply Z.ltb_lt in H2.
    apply (lower_cp_props z (conj H1 H2)).
Qed.

(* ------------------------------------------------------------------ whatever loads is well formed *)
Lemma mapM_Forall {A B} (f : A -> res B) (P : B -> Prop) l ys :
  mapM f l = Ok ys -> (forall x y, f x = Ok y -> P y) -> Forall P ys.
Proof.
  revert ys. induction l as [|x t IH]; simpl; intros ys H HP.
  - inversion H. constructor.
  - destruct (f x) as [y|] eqn:E; [|discriminate]. simpl in H.
    destruct (mapM f t) as [ys'|] eqn:E'; [|discriminate]. simpl in H. inversion H; subst.
    constructor; [apply (HP x), E|apply IH; [reflexivity|exact HP]].
Qed.

Ltac inv_bind H :=
  match type of H with
  | rbind ?r _ = Ok _ => let E := fresh "E" in destruct r eqn:E; [cbn [rbind] in H|discriminate H]
  end.

Lemma build_wf k st g : build_lgroup k st = Ok g -> wf_lgroup g = true.
Proof.
  unfold build_lgroup. intros H.
  inv_bind H. unfold assertR in H.
  destruct (negb (length (uniqueZ a) =? 0)%nat) eqn:W2; [cbn [rbind] in H|discriminate H].
  destruct (forallb (fun v => 0 <? v) (uniqueZ a)) eqn:W3; [cbn [rbind] in H|discriminate H].
  inv_bind H.
  destruct (negb a0 || (length (uniqueZ a) =? 1)%nat) eqn:W4; [cbn [rbind] in H|discriminate H].
  inversion H; subst. unfold wf_lgroup. cbn [g_labels g_single].
  rewrite uniqueZ_idem, list_eqbZ_refl, W2, W3, W4. reflexivity.
Qed.

Lemma dec_lgroup_wf T y g : dec_lgroup T y = Ok g -> wf_lgroup g = true.
Proof.
  unfold dec_lgroup. intros H. destruct y; try discriminate. destruct tag; try discriminate.
  destruct (str_eqb s (ct_cls (t_lg T))).
  - inv_bind H. apply (build_wf _ _ _ H).
  - destruct (str_eqb s (ct_cls (t_lmg T))); [|discriminate]. inv_bind H. apply (build_wf _ _ _ H).
Qed.

Lemma dec_groups_wf T y g : dec_groups T y = Ok g -> wf_groups g = true.
Proof.
  unfold dec_groups. intros H. destruct y; try discriminate. destruct tag; try discriminate.
  destruct (str_eqb s (ct_cls (t_noscg T))).
  - inv_bind H. inversion H. reflexivity.
  - destruct (str_eqb s (ct_cls (t_scg T))); [|discriminate].
    inv_bind H. inv_bind H. inversion H; subst. clear H.
    inv_bind E0. unfold dec_gdict in E0. destruct a1; try discriminate. destruct tag; try discriminate.
    inv_bind E0. destruct (nodupS (map fst a1)) eqn:Hn; [|discriminate]. inversion E0; subst.
    simpl. rewrite Hn, andb_true_r. apply forallb_forall. apply Forall_forall.
    apply (mapM_Forall _ _ _ _ E2). intros [k v] [n g]. simpl.
    destruct k; try discriminate. destruct (ascii_str s0) eqn:Ha; [|discriminate].
    intros Hd. inv_bind Hd. inversion Hd; subst. simpl.
    rewrite (wf_name_lower _ Ha), (dec_lgroup_wf _ _ _ E3). reflexivity.
Qed.

Lemma dec_handler_wf T y h : dec_handler T y = Ok h -> wf_handler h = true.
Proof.
  unfold dec_handler. intros H. inv_bind H. inv_bind H. inv_bind H. inversion H; subst. clear H.
  inv_bind E0. unfold dec_htable in E0. destruct a2; try discriminate. destruct tag; try discriminate.
  inv_bind E0. destruct (nodup_metrics (map fst a2)) eqn:Hn; [|discriminate]. inversion E0; subst.
  exact Hn.
Qed.

(* every tree that loads yields a state of the constructors -- for any tables *)
Theorem decode_wf T y c : decode T y = Ok c -> wf_config c = true.
Proof.
  unfold decode. intros H.
  inv_bind H. do 12 (inv_bind H). unfold assertR in H.
  match type of H with rbind (if ?b then _ else _) _ = _ =>
    destruct b eqn:Wd; [cbn [rbind] in H|discriminate H] end.
  inversion H; subst. clear H. unfold wf_config. cbn [c_handler c_groups c_dmetric c_dthr].
  rewrite Wd, andb_true_r.
  match goal with E : rbind _ (dec_handler _) = Ok _ |- _ => inv_bind E; rewrite (dec_handler_wf _ _ _ E) end.
  match goal with E : rbind _ (dec_groups _) = Ok _ |- _ => inv_bind E; rewrite (dec_groups_wf _ _ _ E) end.
  reflexivity.
Qed.

(* load -> save -> load is the identity on everything that loads (shipped files with `null` groups or
   omitted keys included) *)
Theorem decode_stable T : tables_ok T = true -> forall y c,
  decode T y = Ok c -> decode T (encode T c) = Ok c.
Proof. intros HT y c H. apply (rt_config T HT). apply (decode_wf T y c H). Qed.

(* ------------------------------------------------------------------ MetricZeroTPEdgeCaseHandling(default_result, ...) *)
Definition mzh_call (T : tables) (d no ep er nm : option ecres) : yaml :=
  YMap (Some (ct_cls (t_mzh T)))
    [(YStr (zs "default_result"), enc_opt (enc_ecres T) d);
     (YStr (zs "no_instances_result"), enc_opt (enc_ecres T) no);
     (YStr (zs "empty_prediction_result"), enc_opt (enc_ecres T) ep);
     (YStr (zs "empty_reference_result"), enc_opt (enc_ecres T) er);
     (YStr (zs "normal"), enc_opt (enc_ecres T) nm)].
Definition fill (o d : option ecres) : option ecres := match o with Some x => Some x | None => d end.
Definition mzh_built (d no ep er nm : option ecres) : res mzh :=
  match fill no d, fill ep d, fill er d, fill nm d with
  | Some a, Some b, Some c, Some e => Ok {| mz_no := a; mz_ep := b; mz_er := c; mz_normal := e |}
  | _, _, _, _ => Err E_ASSERT
  end.

Lemma mzh_fill_none d no ep er : dec_mzh model_tables (mzh_call model_tables d no ep er None) = mzh_built d no ep er None.
Proof. destruct d as [[]|], no as [[]|], ep as [[]|], er as [[]|]; vm_compute; reflexivity. Qed.
Lemma mzh_fill_some d no ep er x : dec_mzh model_tables (mzh_call model_tables d no ep er (Some x)) = mzh_built d no ep er (Some x).
Proof. destruct x, d as [[]|], no as [[]|], ep as [[]|], er as [[]|]; vm_compute; reflexivity. Qed.

(* the constructor fills unspecified scenarios with the default; only the four filled entries are
   emitted; loading them (default_result = None) gives the same table *)
Theorem mzh_fill d no ep er nm :
  dec_mzh model_tables (mzh_call model_tables d no ep er nm) = mzh_built d no ep er nm
  /\ forall z, mzh_built d no ep er nm = Ok z ->
       enc_mzh model_tables z =
         YMap (Some (zs "MetricZeroTPEdgeCaseHandling"))
           [(YStr (zs "empty_prediction_result"), enc_ecres model_tables (mz_ep z));
            (YStr (zs "empty_reference_result"), enc_ecres model_tables (mz_er z));
            (YStr (zs "no_instances_result"), enc_ecres model_tables (mz_no z));
            (YStr (zs "normal"), enc_ecres model_tables (mz_normal z))]
       /\ dec_mzh model_tables (enc_mzh model_tables z) = Ok z.
Proof.
  split.
  - destruct nm; [apply mzh_fill_some|apply mzh_fill_none].
  - intros z _. split; [reflexivity|apply (rt_mzh model_tables model_tables_ok)].
Qed.

(* ------------------------------------------------------------------ keyword order is irrelevant *)
Lemma map_keys_perm m m' : Permutation m m' ->
  match map_keys m, map_keys m' with
  | Some k, Some k' => Permutation k k'
  | None, None => True
  | _, _ => False
  end.
Proof.
  induction 1 as [|[k v] m m' Hp IH|[k1 v1] [k2 v2] m|m1 m2 m3 H1 IH1 H2 IH2]; simpl.
  - constructor.
  - destruct k; try exact I; destruct (map_keys m), (map_keys m'); try contradiction; try exact I.
    constructor. exact IH.
  - destruct k1, k2; try exact I; destruct (map_keys m); try exact I; try apply perm_swap; apply Permutation_refl.
  - destruct (map_keys m1), (map_keys m2), (map_keys m3); try contradiction; try exact I.
    eapply Permutation_trans; eassumption.
Qed.

Lemma memS_perm x l l' : Permutation l l' -> memS x l = memS x l'.
Proof.
  intros Hp. destruct (memS x l) eqn:E.
  - symmetry. apply memS_In. apply (Permutation_in _ Hp). apply memS_In. exact E.
  - destruct (memS x l') eqn:E'; [|reflexivity]. apply memS_In in E'.
    apply (Permutation_in _ (Permutation_sym Hp)) in E'. apply memS_In in E'. congruence.
Qed.

Lemma nodupS_perm l l' : Permutation l l' -> nodupS l = nodupS l'.
Proof.
  induction 1 as [|x l l' Hp IH|x y l|l1 l2 l3 H1 IH1 H2 IH2]; simpl.
  - reflexivity.
  - rewrite IH, (memS_perm x l l' Hp). reflexivity.
  - rewrite (str_eqb_sym y x). destruct (str_eqb x y), (memS x l), (memS y l), (nodupS l); reflexivity.
  - congruence.
Qed.

Lemma forallb_perm {A} (f : A -> bool) l l' : Permutation l l' -> forallb f l = forallb f l'.
Proof.
  induction 1 as [|x l l' Hp IH|x y l|l1 l2 l3 H1 IH1 H2 IH2]; simpl; try congruence.
  destruct (f x), (f y); reflexivity.
Qed.

Lemma mget_In k m ks : map_keys m = Some ks -> NoDup ks ->
  forall y, mget k m = Some y <-> In (YStr k, y) m.
Proof.
  revert ks. induction m as [|[k0 v0] m IH]; simpl; intros ks Hk Hn y.
  - split; [discriminate|contradiction].
  - destruct k0; try discriminate. destruct (map_keys m) as [ks'|] eqn:E; [|discriminate].
    inversion Hk; subst. inversion Hn as [|? ? Hs Hn']; subst.
    destruct (str_eqb s k) eqn:Es.
    + apply str_eqb_eq in Es. subst. split.
      * intros H. inversion H. left. reflexivity.
      * intros [H|H]; [inversion H; reflexivity|]. exfalso. apply Hs.
        clear - E H. revert ks' E. induction m as [|[k1 v1] m IHm]; simpl; intros ks' E; [contradiction|].
        destruct k1; try discriminate. destruct (map_keys m) eqn:E'; [|discriminate]. inversion E; subst.
        destruct H as [H|H]; [inversion H; left; reflexivity|right; apply (IHm H _ eq_refl)].
    + rewrite (IH ks' eq_refl Hn' y). split; [intros H; right; exact H|].
      intros [H|H]; [inversion H; subst; rewrite str_eqb_refl in Es; discriminate|exact H].
Qed.

Lemma mget_perm k m m' ks : Permutation m m' -> map_keys m = Some ks -> NoDup ks -> mget k m = mget k m'.
Proof.
  intros Hp Hk Hn.
  pose proof (map_keys_perm m m' Hp) as Hkp. rewrite Hk in Hkp.
  destruct (map_keys m') as [ks'|] eqn:Hk'; [|contradiction].
  assert (Hn' : NoDup ks') by (apply (Permutation_NoDup Hkp Hn)).
  destruct (mget k m) as [y|] eqn:E.
  - symmetry. apply (mget_In k m' ks' Hk' Hn'). apply (Permutation_in _ Hp).
    apply (mget_In k m ks Hk Hn). exact E.
  - destruct (mget k m') as [y|] eqn:E'; [|reflexivity].
    apply (mget_In k m' ks' Hk' Hn') in E'. apply (Permutation_in _ (Permutation_sym Hp)) in E'.
    apply (mget_In k m ks Hk Hn) in E'. congruence.
Qed.

Lemma mapM_ext {A B} (f g : A -> res B) l : (forall x, f x = g x) -> mapM f l = mapM g l.
Proof. intros H. induction l as [|x t IH]; simpl; [reflexivity|]. rewrite H, IH. reflexivity. Qed.

(* cls( **data ) does not depend on the order of the mapping's entries *)
Theorem bind_args_perm ct m m' : Permutation m m' -> bind_args ct m = bind_args ct m'.
Proof.
  intros Hp. unfold bind_args.
  pose proof (map_keys_perm m m' Hp) as Hkp.
  destruct (map_keys m) as [ks|] eqn:Hk, (map_keys m') as [ks'|] eqn:Hk'; try contradiction; [|reflexivity].
  rewrite <- (nodupS_perm ks ks' Hkp), <- (forallb_perm _ ks ks' Hkp).
  destruct (nodupS ks) eqn:Hn; [|reflexivity]. simpl.
  destruct (forallb _ ks); [|reflexivity]. simpl.
  apply nodupS_NoDup in Hn.
  assert (Hm : forall k, mget k m = mget k m') by (intros k; apply (mget_perm k m m' ks Hp Hk Hn)).
  apply mapM_ext. intros p. unfold stored, arg. rewrite Hm.
  destruct (p_kind p); try reflexivity.
  destruct (find_param q (ct_params ct)); [rewrite Hm|]; reflexivity.
Qed.

Theorem decode_kwargs_order T tag m m' : Permutation m m' ->
  decode T (YMap tag m) = decode T (YMap tag m').
Proof.
  intros Hp. unfold decode, dec_obj. destruct tag as [t|]; [|reflexivity].
  destruct (str_eqb t (ct_cls (t_ev T))); [|reflexivity]. rewrite (bind_args_perm _ m m' Hp). reflexivity.
Qed.

(* ------------------------------------------------------------------ the side condition is not vacuous:
   defective tables are rejected, and the round trip really fails for them *)
Definition without_key (k : str) (ct : ctable) : ctable :=
  {| ct_cls := ct_cls ct; ct_repr := filter (fun ka => negb (str_eqb (fst ka) k)) (ct_repr ct); ct_params := ct_params ct |}.
Definition set_naive (T : tables) (ct : ctable) : tables :=
  {| t_ev := t_ev T; t_naive := ct; t_merge := t_merge T; t_cc := t_cc T; t_mzh := t_mzh T; t_ech := t_ech T;
     t_lg := t_lg T; t_lmg := t_lmg T; t_any := t_any T; t_scg := t_scg T; t_noscg := t_noscg T;
     e_metric := e_metric T; e_input := e_input T; e_backend := e_backend T; e_ecres := e_ecres T; e_zerotp := e_zerotp T;
     f_tag_is_class_name := f_tag_is_class_name T; f_load_by_kwargs := f_load_by_kwargs T;
     f_enum_out_by_name := f_enum_out_by_name T; f_enum_in_by_name := f_enum_in_by_name T; f_no_override := f_no_override T |}.
Definition set_ev (T : tables) (ct : ctable) : tables :=
  {| t_ev := ct; t_naive := t_naive T; t_merge := t_merge T; t_cc := t_cc T; t_mzh := t_mzh T; t_ech := t_ech T;
     t_lg := t_lg T; t_lmg := t_lmg T; t_any := t_any T; t_scg := t_scg T; t_noscg := t_noscg T;
     e_metric := e_metric T; e_input := e_input T; e_backend := e_backend T; e_ecres := e_ecres T; e_zerotp := e_zerotp T;
     f_tag_is_class_name := f_tag_is_class_name T; f_load_by_kwargs := f_load_by_kwargs T;
     f_enum_out_by_name := f_enum_out_by_name T; f_enum_in_by_name := f_enum_in_by_name T; f_no_override := f_no_override T |}.
Definition set_lmg (T : tables) (ct : ctable) : tables :=
  {| t_ev := t_ev T; t_naive := t_naive T; t_merge := t_merge T; t_cc := t_cc T; t_mzh := t_mzh T; t_ech := t_ech T;
     t_lg := t_lg T; t_lmg := ct; t_any := t_any T; t_scg := t_scg T; t_noscg := t_noscg T;
     e_metric := e_metric T; e_input := e_input T; e_backend := e_backend T; e_ecres := e_ecres T; e_zerotp := e_zerotp T;
     f_tag_is_class_name := f_tag_is_class_name T; f_load_by_kwargs := f_load_by_kwargs T;
     f_enum_out_by_name := f_enum_out_by_name T; f_enum_in_by_name := f_enum_in_by_name T; f_no_override := f_no_override T |}.

(* NaiveThresholdMatching._yaml_repr without allow_many_to_one *)
Definition T_drop_m2o := set_naive model_tables (without_key (zs "allow_many_to_one") (t_naive model_tables)).
(* Panoptica_Evaluator._yaml_repr reading __global_metrics for instance_metrics *)
Definition T_wrong_attr := set_ev model_tables
  {| ct_cls := ct_cls (t_ev model_tables);
     ct_repr := map (fun ka => if str_eqb (fst ka) (zs "instance_metrics") then (fst ka, A_ev_glob) else ka)
                    (ct_repr (t_ev model_tables));
     ct_params := ct_params (t_ev model_tables) |}.
(* LabelMergeGroup serialised under LabelGroup's tag *)
Definition T_same_tag := set_lmg model_tables
  {| ct_cls := ct_cls (t_lg model_tables); ct_repr := ct_repr (t_lmg model_tables); ct_params := ct_params (t_lmg model_tables) |}.

Definition default_config : config :=
  match decode model_tables (YMap (Some (zs "Panoptica_Evaluator")) []) with Ok c => c | Err _ =>
    {| c_input := IT_MATCHED; c_approx := None; c_matcher := None; c_handler := {| h_table := []; h_std := R_NAN |};
       c_groups := GNone; c_inst := []; c_glob := []; c_dmetric := None; c_dthr := None;
       c_sgt := false; c_log := false; c_verbose := false |} end.
Definition with_matcher (c : config) (m : matcher) : config :=
  {| c_input := c_input c; c_approx := c_approx c; c_matcher := Some m; c_handler := c_handler c; c_groups := c_groups c;
     c_inst := c_inst c; c_glob := c_glob c; c_dmetric := c_dmetric c; c_dthr := c_dthr c;
     c_sgt := c_sgt c; c_log := c_log c; c_verbose := c_verbose c |}.
Definition with_groups (c : config) (g : groups) : config :=
  {| c_input := c_input c; c_approx := c_approx c; c_matcher := c_matcher c; c_handler := c_handler c; c_groups := g;
     c_inst := c_inst c; c_glob := c_glob c; c_dmetric := c_dmetric c; c_dthr := c_dthr c;
     c_sgt := c_sgt c; c_log := c_log c; c_verbose := c_verbose c |}.

Definition res_is {A} (r : res A) (p : A -> bool) : bool := match r with Ok a => p a | Err _ => false end.

Lemma defective_tables_detected :
  tables_ok T_drop_m2o = false /\ tables_ok T_wrong_attr = false /\ tables_ok T_same_tag = false.
Proof. vm_compute. repeat split; reflexivity. Qed.

(* ... and each defect loses a setting on a concrete configuration *)
Lemma drop_m2o_breaks :
  let c := with_matcher default_config (MNaive IOU (NFlt (1 # 2)) true) in
  wf_config c = true
  /\ res_is (decode T_drop_m2o (encode T_drop_m2o c))
            (fun c' => match c_matcher c' with Some (MNaive _ _ false) => true | _ => false end) = true.
Proof. vm_compute. split; reflexivity. Qed.

Lemma wrong_attr_breaks :
  let c := default_config in
  wf_config c = true
  /\ res_is (decode T_wrong_attr (encode T_wrong_attr c))
            (fun c' => match c_inst c', c_inst c with [DSC], [DSC; IOU; ASSD; RVD] => true | _, _ => false end) = true.
Proof. vm_compute. split; reflexivity. Qed.

Lemma same_tag_breaks :
  let g := {| g_kind := GMerge; g_labels := [1; 2]; g_single := false |} in
  let c := with_groups default_config (GList [(zs "a", g)]) in
  wf_config c = true
  /\ res_is (decode T_same_tag (encode T_same_tag c))
            (fun c' => match c_groups c' with GList [(_, g')] => match g_kind g' with GPlain => true | _ => false end
                                            | _ => false end) = true.
Proof. vm_compute. split; reflexivity. Qed.
