(* Generic facts about table-driven (de)serialisation: for ANY class table that passes ct_ok against the
   model's expectation, loading what was emitted restores every state attribute. *)
From Pan Require Import Base.Common Model.MetricTable Model.Config.
Open Scope Z_scope.

(* ------------------------------------------------------------------ strings *)
Lemma str_eqb_refl a : str_eqb a a = true.
Proof. induction a as [|x a IH]; simpl; [reflexivity|]. rewrite Z.eqb_refl, IH. reflexivity. Qed.

Lemma str_eqb_eq a b : str_eqb a b = true <-> a = b.
Proof.
  split; [|intros ->; apply str_eqb_refl].
  revert b. induction a as [|x a IH]; intros [|y b]; simpl; try discriminate; [reflexivity|].
  intros H. apply andb_true_iff in H as [H1 H2]. apply Z.eqb_eq in H1. f_equal; [exact H1|apply IH, H2].
Qed.

Lemma str_eqb_neq a b : str_eqb a b = false <-> a <> b.
Proof.
  split.
  - intros H E. apply str_eqb_eq in E. congruence.
  - intros H. destruct (str_eqb a b) eqn:E; [apply str_eqb_eq in E; contradiction|reflexivity].
Qed.

Lemma str_eqb_sym a b : str_eqb a b = str_eqb b a.
Proof.
  destruct (str_eqb a b) eqn:E.
  - apply str_eqb_eq in E. subst. symmetry. apply str_eqb_refl.
  - symmetry. apply str_eqb_neq. apply str_eqb_neq in E. congruence.
Qed.

Lemma memS_In x l : memS x l = true <-> In x l.
Proof.
  unfold memS. rewrite existsb_exists. split.
  - intros [y [Hy E]]. apply str_eqb_eq in E. subst. exact Hy.
  - intros H. exists x. split; [exact H|apply str_eqb_refl].
Qed.

Lemma nodupS_NoDup l : nodupS l = true -> NoDup l.
Proof.
  induction l as [|x l IH]; simpl; intros H; [constructor|].
  apply andb_true_iff in H as [H1 H2]. constructor; [|apply IH, H2].
  intros Hin. apply memS_In in Hin. rewrite Hin in H1. discriminate.
Qed.

Lemma index_of_nth l : nodupS l = true -> forall i, (i < length l)%nat -> index_of (nth i l []) l = Some i.
Proof.
  induction l as [|y l IH]; simpl; intros Hnd i Hi; [inversion Hi|].
  apply andb_true_iff in Hnd as [H1 H2].
  destruct i as [|i]; [rewrite str_eqb_refl; reflexivity|].
  assert (Hlt : (i < length l)%nat) by (apply Nat.succ_lt_mono; exact Hi).
  assert (Hne : str_eqb y (nth i l []) = false).
  { apply str_eqb_neq. intros E. apply negb_true_iff in H1.
    assert (Hm : memS y l = true) by (apply memS_In; rewrite E; apply nth_In; exact Hlt).
    congruence. }
  rewrite Hne, (IH H2 i Hlt). reflexivity.
Qed.

(* ------------------------------------------------------------------ enums *)
Lemma dec_enc_enum {A} (E : etable) (all : list A) (n i : nat) (a : A) :
  enum_ok E n = true -> (i < n)%nat -> nth_error all i = Some a ->
  dec_enum E all (enc_enum E i) = Ok a.
Proof.
  unfold enum_ok, dec_enum, enc_enum. intros H Hi Hn.
  apply andb_true_iff in H as [Hl Hnd]. apply Nat.eqb_eq in Hl.
  rewrite str_eqb_refl, index_of_nth by (try exact Hnd; rewrite Hl; exact Hi).
  rewrite Hn. reflexivity.
Qed.

(* ------------------------------------------------------------------ mapM *)
Lemma mapM_map {A B} (d : B -> res A) (e : A -> B) (l : list A) :
  (forall x, In x l -> d (e x) = Ok x) -> mapM d (map e l) = Ok l.
Proof.
  induction l as [|x l IH]; simpl; intros H; [reflexivity|].
  rewrite (H x (or_introl eq_refl)). simpl. rewrite IH by (intros y Hy; apply H; right; exact Hy). reflexivity.
Qed.

Lemma mapM_ok_map {A B} (f : A -> res B) (g : A -> B) (l : list A) :
  (forall x, In x l -> f x = Ok (g x)) -> mapM f l = Ok (map g l).
Proof.
  induction l as [|x l IH]; simpl; intros H; [reflexivity|].
  rewrite (H x (or_introl eq_refl)). simpl. rewrite IH by (intros y Hy; apply H; right; exact Hy). reflexivity.
Qed.

(* ------------------------------------------------------------------ attribute stores and mappings *)
Lemma aget_cons_eq a y t : aget a ((a, y) :: t) = Some y.
Proof. simpl. rewrite str_eqb_refl. reflexivity. Qed.
Lemma aget_cons_ne k a y t : str_eqb k a = false -> aget a ((k, y) :: t) = aget a t.
Proof. intros H. simpl. rewrite H. reflexivity. Qed.

Lemma aget_in a (f : fields) : In a (map fst f) -> exists y, aget a f = Some y.
Proof.
  induction f as [|[k y] f IH]; simpl; intros H; [contradiction|].
  destruct (str_eqb k a) eqn:E; [eexists; reflexivity|].
  destruct H as [H|H]; [apply str_eqb_neq in E; contradiction|apply IH, H].
Qed.

Lemma sget_of a st y : aget a st = Some y -> sget a st = Ok y.
Proof. unfold sget. intros ->. reflexivity. Qed.

Lemma aget_map_params (v : param -> yaml) ps p :
  NoDup (map p_attr ps) -> In p ps -> aget (p_attr p) (map (fun q => (p_attr q, v q)) ps) = Some (v p).
Proof.
  induction ps as [|q ps IH]; simpl; intros Hnd Hin; [contradiction|].
  inversion Hnd as [|? ? Hq Hnd']; subst.
  destruct Hin as [->|Hin]; [rewrite str_eqb_refl; reflexivity|].
  assert (Hne : str_eqb (p_attr q) (p_attr p) = false).
  { apply str_eqb_neq. intros E. apply Hq. rewrite E. apply in_map, Hin. }
  rewrite Hne. apply IH; assumption.
Qed.

Lemma map_keys_emit repr f : map_keys (emit repr f) = Some (map fst repr).
Proof. unfold emit. induction repr as [|[k a] r IH]; simpl; [reflexivity|]. rewrite IH. reflexivity. Qed.

Lemma mget_emit_notin k repr f : ~ In k (map fst repr) -> mget k (emit repr f) = None.
Proof.
  induction repr as [|[k' a] r IH]; simpl; intros H; [reflexivity|].
  destruct (str_eqb k' k) eqn:E; [apply str_eqb_eq in E; subst; exfalso; apply H; left; reflexivity|].
  apply IH. intros Hin. apply H. right. exact Hin.
Qed.

Lemma mget_emit_in k a repr f :
  NoDup (map fst repr) -> In (k, a) repr -> mget k (emit repr f) = Some (aget_or_raise a f).
Proof.
  induction repr as [|[k' a'] r IH]; simpl; intros Hnd Hin; [contradiction|].
  inversion Hnd as [|? ? Hk Hnd']; subst.
  destruct Hin as [Hin|Hin].
  - inversion Hin; subst. rewrite str_eqb_refl. reflexivity.
  - assert (Hne : str_eqb k' k = false).
    { apply str_eqb_neq. intros E. subst. apply Hk. change k with (fst (k, a)). apply in_map, Hin. }
    rewrite Hne. apply IH; assumption.
Qed.

Lemma find_param_some q ps pq : find_param q ps = Some pq -> In pq ps /\ p_name pq = q.
Proof.
  unfold find_param. intros H. apply find_some in H as [H1 H2]. apply str_eqb_eq in H2. split; assumption.
Qed.

Lemma params_same_name ps p p' :
  NoDup (map p_name ps) -> In p ps -> In p' ps -> p_name p = p_name p' -> p = p'.
Proof.
  induction ps as [|q ps IH]; simpl; intros Hnd H1 H2 E; [contradiction|].
  inversion Hnd as [|? ? Hq Hnd']; subst.
  destruct H1 as [->|H1], H2 as [->|H2]; [reflexivity| | |apply IH; assumption].
  - exfalso. apply Hq. rewrite E. apply in_map, H2.
  - exfalso. apply Hq. rewrite <- E. apply in_map, H1.
Qed.

(* values that survive `p if p is not None else ...` unchanged *)
Definition passes (k : kind) (y : yaml) : bool :=
  match k with KOrParam _ | KOrNew _ => negb (is_null y) | _ => true end.

Definition stored_val ps m p : yaml := match stored ps m p with Ok y => y | Err _ => YNull end.

Section ClassRoundTrip.
Variables (spec : list (str * kind)) (ct : ctable) (f : fields).
Hypothesis Hok : ct_ok spec ct = true.
Hypothesis Hdom : map fst f = map fst spec.
Hypothesis Hpass : forall a k y, In (a, k) spec -> aget a f = Some y -> passes k y = true.

Let m := emit (ct_repr ct) f.
Let keys := map fst (ct_repr ct).
Let ps := ct_params ct.

Lemma ct_ok_parts :
  NoDup keys /\ NoDup (map p_name ps) /\ NoDup (map p_attr ps)
  /\ (forall k a, In (k, a) (ct_repr ct) -> exists p, In p ps /\ p_name p = k /\ p_attr p = a)
  /\ (forall k a, In (k, a) (ct_repr ct) -> In a (map fst spec))
  /\ (forall p, In p ps -> is_some (p_default p) = true \/ In (p_name p) keys)
  /\ (forall p q, In p ps -> p_kind p = KOrParam q ->
        exists pq, find_param q ps = Some pq /\ (is_some (p_default pq) = true \/ In q keys))
  /\ (forall a k, In (a, k) spec -> exists p, In p ps /\ p_attr p = a /\ p_kind p = k /\ In (p_name p) keys).
Proof.
  pose proof Hok as H0. unfold ct_ok in H0. fold keys ps in H0.
  repeat rewrite andb_true_iff in H0.
  destruct H0 as [[[[[[[[H1 H2] H3] H4] H5] H6] H7] H8] H9].
  rewrite forallb_forall in H4, H5, H6, H7, H8.
  split; [apply nodupS_NoDup; exact H1|].
  split; [apply nodupS_NoDup; exact H2|].
  split; [apply nodupS_NoDup; exact H3|].
  split.
  { intros k a Hin. specialize (H4 _ Hin). apply existsb_exists in H4. destruct H4 as [p [Hp E]].
    apply andb_true_iff in E as [E1 E2]. apply str_eqb_eq in E1, E2. simpl in E1, E2. exists p. auto. }
  split.
  { intros k a Hin. specialize (H5 _ Hin). apply memS_In in H5. exact H5. }
  split.
  { intros p Hp. specialize (H6 _ Hp). apply orb_true_iff in H6. destruct H6 as [H|H];
      [left; exact H|right; apply memS_In; exact H]. }
  split.
  { intros p q Hp Hk. specialize (H7 _ Hp). rewrite Hk in H7.
    destruct (find_param q ps) as [pq|] eqn:Ef; [|discriminate].
    exists pq. split; [reflexivity|]. apply orb_true_iff in H7. destruct H7 as [H|H];
      [left; exact H|right; apply memS_In; exact H]. }
  intros a k Hin. specialize (H8 _ Hin). apply existsb_exists in H8. destruct H8 as [p [Hp E]].
  apply andb_true_iff in E as [E E3]. apply andb_true_iff in E as [E1 E2].
  apply str_eqb_eq in E1. simpl in E1, E2, E3. apply memS_In in E3.
  exists p. repeat split; try assumption.
  destruct (p_kind p), k; simpl in E2; try discriminate; try reflexivity;
    apply str_eqb_eq in E2; subst; reflexivity.
Qed.

Lemma arg_emitted p a : In p ps -> In (p_name p, a) (ct_repr ct) -> arg m p = Ok (aget_or_raise a f).
Proof.
  intros Hp Hin. destruct ct_ok_parts as (Hnk & _). unfold arg, m.
  rewrite (mget_emit_in _ _ _ _ Hnk Hin). reflexivity.
Qed.

Lemma arg_total p : (is_some (p_default p) = true \/ In (p_name p) keys) -> exists y, arg m p = Ok y.
Proof.
  intros H. unfold arg. destruct (mget (p_name p) m) as [y|] eqn:E; [eexists; reflexivity|].
  destruct H as [H|H].
  - destruct (p_default p); [eexists; reflexivity|discriminate].
  - exfalso. unfold keys in H. apply in_map_iff in H as [[k a] [Hk Hin]]. simpl in Hk. subst k.
    destruct ct_ok_parts as (Hnk & _). unfold m in E. rewrite (mget_emit_in _ _ _ _ Hnk Hin) in E. discriminate.
Qed.

Lemma stored_total p : In p ps -> exists y, stored ps m p = Ok y.
Proof.
  intros Hp. destruct ct_ok_parts as (_ & _ & _ & _ & _ & Hreq & Hor & _).
  unfold stored. destruct (arg_total p (Hreq p Hp)) as [y ->]. simpl.
  destruct (p_kind p) eqn:Ek; try (eexists; reflexivity).
  destruct (is_null y); [|eexists; reflexivity].
  destruct (Hor p q Hp Ek) as [pq [Ef Hq]]. rewrite Ef.
  apply arg_total. destruct (find_param_some q ps pq Ef) as [_ Hn]. rewrite Hn. exact Hq.
Qed.

Lemma stored_state a k y : In (a, k) spec -> aget a f = Some y ->
  exists p, In p ps /\ p_attr p = a /\ stored ps m p = Ok y.
Proof.
  intros Hin Hy.
  destruct ct_ok_parts as (Hnk & Hnn & _ & Hrepr & _ & _ & _ & Hspec).
  destruct (Hspec a k Hin) as [p [Hp [Ha [Hk Hkey]]]].
  exists p. split; [exact Hp|]. split; [exact Ha|].
  unfold keys in Hkey. apply in_map_iff in Hkey as [[k' a'] [E Hin']]. simpl in E. subst k'.
  destruct (Hrepr _ _ Hin') as [p' [Hp' [En Ea]]].
  assert (p' = p) by (apply (params_same_name ps); assumption). subst p'.
  rewrite Ha in Ea. subst a'.
  unfold stored. rewrite (arg_emitted p a Hp Hin'). simpl.
  unfold aget_or_raise. rewrite Hy.
  specialize (Hpass a k y Hin Hy). rewrite Hk.
  destruct k; simpl in Hpass; try reflexivity.
  - apply negb_true_iff in Hpass. rewrite Hpass. reflexivity.
  - apply negb_true_iff in Hpass. rewrite Hpass. reflexivity.
Qed.

Theorem bind_emit :
  exists st, bind_args ct m = Ok st /\ forall a y, In a (map fst spec) -> aget a f = Some y -> sget a st = Ok y.
Proof.
  destruct ct_ok_parts as (Hnk & Hnn & Hna & Hrepr & _ & _ & _ & _).
  exists (map (fun p => (p_attr p, stored_val ps m p)) ps). split.
  - unfold bind_args, m. rewrite map_keys_emit. fold keys.
    assert (Hk1 : nodupS keys = true).
    { pose proof Hok as H0. unfold ct_ok in H0. fold keys ps in H0. repeat rewrite andb_true_iff in H0.
      destruct H0 as [[[[[[[[H1 _] _] _] _] _] _] _] _]. exact H1. }
    rewrite Hk1. simpl.
    assert (Hk2 : forallb (fun k => existsb (fun p => str_eqb (p_name p) k) (ct_params ct)) keys = true).
    { apply forallb_forall. intros k Hk. unfold keys in Hk. apply in_map_iff in Hk as [[k' a] [E Hin]].
      simpl in E. subst k'. destruct (Hrepr _ _ Hin) as [p [Hp [En _]]].
      apply existsb_exists. exists p. split; [exact Hp|]. apply str_eqb_eq. exact En. }
    rewrite Hk2. simpl. fold ps. fold m.
    apply mapM_ok_map. intros p Hp. unfold stored_val.
    destruct (stored_total p Hp) as [y ->]. reflexivity.
  - intros a y Ha Hy. apply in_map_iff in Ha as [[a' k] [E Hin]]. simpl in E. subst a'.
    destruct (stored_state a k y Hin Hy) as [p [Hp [Hattr Hst]]].
    apply sget_of. rewrite <- Hattr.
    rewrite (aget_map_params (stored_val ps m) ps p Hna Hp). unfold stored_val. rewrite Hst. reflexivity.
Qed.

(* loading what was emitted: every state attribute reads back the emitted value *)
Theorem dec_enc_obj :
  exists st, dec_obj ct (enc_obj ct f) = Ok st
             /\ forall a y, In a (map fst spec) -> aget a f = Some y -> sget a st = Ok y.
Proof.
  unfold dec_obj, enc_obj. rewrite str_eqb_refl. exact bind_emit.
Qed.
End ClassRoundTrip.
