(* C04: relabelling after matching preserves both segmentations. *)
From Pan Require Import Base.Common Model.Metrics Model.Relabel.
From Coq Require Import ZifyBool.
Open Scope Z_scope.

Lemma lookupZ_In p v l : lookupZ p l = Some v -> In (p, v) l.
Proof.
  induction l as [|[k w] l IH]; cbn [lookupZ]; [discriminate|]. destruct (k =? p) eqn:E.
  - intros [= <-]. apply Z.eqb_eq in E. subst. now left.
  - intros H. right. now apply IH.
Qed.
Lemma lookupZ_app p l1 l2 : lookupZ p (l1 ++ l2) = match lookupZ p l1 with Some v => Some v | None => lookupZ p l2 end.
Proof. induction l1 as [|[k w] l1 IH]; cbn [app lookupZ]; [reflexivity|]. destruct (k =? p); [reflexivity|exact IH]. Qed.
Lemma lookupZ_NoDup p v l : NoDup (map fst l) -> In (p, v) l -> lookupZ p l = Some v.
Proof.
  induction l as [|[k w] l IH]; intros Hnd Hin; [destruct Hin|]. cbn [map fst] in Hnd. inversion Hnd as [|? ? Hk Hnd']; subst.
  cbn [lookupZ]. destruct Hin as [[= -> ->]|Hin]; [now rewrite Z.eqb_refl|].
  destruct (k =? p) eqn:E; [|now apply IH]. apply Z.eqb_eq in E. subst k. exfalso. apply Hk.
  apply in_map_iff. exists (p, v). split; [reflexivity|exact Hin].
Qed.
Lemma lookupZ_None p l : lookupZ p l = None <-> ~ In p (map fst l).
Proof.
  induction l as [|[k w] l IH]; cbn [lookupZ map fst]; [split; [intros _ []|reflexivity]|].
  destruct (k =? p) eqn:E.
  - apply Z.eqb_eq in E. subst. split; [discriminate|]. intros H. exfalso. apply H. now left.
  - rewrite IH. apply Z.eqb_neq in E. cbn. tauto.
Qed.

(* ---- fresh labels ---- *)
Lemma assign_fresh_spec n ps M p y : In (p, y) (assign_fresh n ps M) -> In p ps /\ has_key p M = false /\ n <= y.
Proof.
  revert n. induction ps as [|q ps IH]; intros n Hin; cbn [assign_fresh] in Hin; [destruct Hin|].
  destruct (has_key q M) eqn:E.
  - destruct (IH n Hin) as (H1 & H2 & H3). repeat split; [now right|exact H2|exact H3].
  - destruct Hin as [[= -> ->]|Hin]; [repeat split; [now left|exact E|lia]|].
    destruct (IH (n + 1) Hin) as (H1 & H2 & H3). repeat split; [now right|exact H2|lia].
Qed.
Lemma assign_fresh_lt n ps M p y : In (p, y) (assign_fresh n ps M) -> y < n + Z.of_nat (length ps).
Proof.
  revert n. induction ps as [|q ps IH]; intros n Hin; cbn [assign_fresh] in Hin; [destruct Hin|]. cbn [length].
  destruct (has_key q M); [specialize (IH n Hin); lia|].
  destruct Hin as [[= -> ->]|Hin]; [lia|]. specialize (IH (n + 1) Hin). lia.
Qed.
(* values are strictly increasing along the list, hence pairwise distinct *)
Lemma assign_fresh_values_NoDup n ps M : NoDup (map snd (assign_fresh n ps M)).
Proof.
  revert n. induction ps as [|q ps IH]; intros n; cbn [assign_fresh]; [constructor|].
  destruct (has_key q M); [apply IH|]. cbn [map snd]. constructor; [|apply IH].
  intros Hin. apply in_map_iff in Hin as ([p y] & Hy & Hin). cbn in Hy. subst y.
  destruct (assign_fresh_spec _ _ _ _ _ Hin) as (_ & _ & H). lia.
Qed.
Lemma assign_fresh_keys_NoDup n ps M : NoDup ps -> NoDup (map fst (assign_fresh n ps M)).
Proof.
  revert n. induction ps as [|q ps IH]; intros n Hnd; cbn [assign_fresh]; [constructor|].
  inversion Hnd as [|? ? Hq Hnd']; subst. destruct (has_key q M); [now apply IH|]. cbn [map fst]. constructor; [|now apply IH].
  intros Hin. apply in_map_iff in Hin as ([p y] & Hp & Hin). cbn in Hp. subst p.
  destruct (assign_fresh_spec _ _ _ _ _ Hin) as (H & _). contradiction.
Qed.
Lemma assign_fresh_complete n ps M p : In p ps -> has_key p M = false -> exists y, In (p, y) (assign_fresh n ps M).
Proof.
  revert n. induction ps as [|q ps IH]; intros n Hin Hk; [destruct Hin|]. cbn [assign_fresh].
  destruct Hin as [->|Hin].
  - rewrite Hk. eexists. now left.
  - destruct (has_key q M); [now apply IH|]. destruct (IH (n + 1) Hin Hk) as [y Hy]. exists y. now right.
Qed.

Lemma NoDup_snd_inj {A B} (L : list (A * B)) p q y : NoDup (map snd L) -> In (p, y) L -> In (q, y) L -> p = q.
Proof.
  induction L as [|[k w] L IH]; intros Hv H1 H2; [destruct H1|].
  cbn [map snd] in Hv. inversion Hv as [|? ? Hw Hv']; subst.
  destruct H1 as [E1|H1], H2 as [E2|H2].
  - congruence.
  - inversion E1; subst. exfalso. apply Hw. apply in_map_iff. exists (q, y). auto.
  - inversion E2; subst. exfalso. apply Hw. apply in_map_iff. exists (p, y). auto.
  - now apply IH.
Qed.

(* ---- the relabelled prediction ---- *)
Section Relabel.
  Variables (M : lmap) (pls : list Z) (maxref : Z).
  (* the matching is a function on prediction labels and maps into the reference labels 1..maxref *)
  Hypothesis M_fun : NoDup (map fst M).
  Hypothesis M_refs : forall p r, In (p, r) M -> 0 < r <= maxref.
  Hypothesis pls_nodup : NoDup pls.
  Hypothesis pls_pos : forall p, In p pls -> p <> 0.
  Hypothesis M_keys : forall p r, In (p, r) M -> In p pls.
  Notation lm := (full_map M pls maxref).

  Lemma matched_label p r : In (p, r) M -> new_label lm p = r.
  Proof. intros Hin. unfold new_label, full_map. rewrite lookupZ_app, (lookupZ_NoDup p r M M_fun Hin). reflexivity. Qed.

  Lemma unmatched_label p : In p pls -> has_key p M = false ->
    exists y, new_label lm p = y /\ maxref < y /\ In (p, y) (assign_fresh (maxref + 1) pls M).
  Proof.
    intros Hin Hk. destruct (assign_fresh_complete (maxref + 1) pls M p Hin Hk) as [y Hy]. exists y.
    unfold new_label, full_map. rewrite lookupZ_app. unfold has_key in Hk. destruct (lookupZ p M); [discriminate|].
    rewrite (lookupZ_NoDup p y _ (assign_fresh_keys_NoDup _ _ _ pls_nodup) Hy).
    destruct (assign_fresh_spec _ _ _ _ _ Hy) as (_ & _ & H). repeat split; [lia|exact Hy].
  Qed.

  Lemma background_kept : new_label lm 0 = 0.
  Proof.
    unfold new_label, full_map. rewrite lookupZ_app.
    destruct (lookupZ 0 M) as [v|] eqn:E; [apply lookupZ_In in E; apply M_keys in E; apply pls_pos in E; congruence|].
    destruct (lookupZ 0 (assign_fresh (maxref + 1) pls M)) as [v|] eqn:E2; [|reflexivity].
    apply lookupZ_In in E2. destruct (assign_fresh_spec _ _ _ _ _ E2) as (H & _). apply pls_pos in H. congruence.
  Qed.

  Lemma foreground_kept p : In p pls -> 0 <= maxref -> new_label lm p <> 0.
  Proof.
    intros Hin Hm. destruct (has_key p M) eqn:Hk.
    - unfold has_key in Hk. destruct (lookupZ p M) as [r|] eqn:E; [|discriminate]. apply lookupZ_In in E.
      rewrite (matched_label p r E). specialize (M_refs p r E). lia.
    - destruct (unmatched_label p Hin Hk) as (y & -> & Hy & _). lia.
  Qed.

  (* two prediction instances receive the same new label iff they were the same instance or are
     matched to the same reference *)
  Lemma same_label_iff p q : In p pls -> In q pls ->
    (new_label lm p = new_label lm q <-> (p = q \/ exists r, In (p, r) M /\ In (q, r) M)).
  Proof.
    intros Hp Hq. split.
    - intros Heq. destruct (has_key p M) eqn:Kp, (has_key q M) eqn:Kq.
      + unfold has_key in Kp, Kq. destruct (lookupZ p M) as [r|] eqn:Ep; [|discriminate]. destruct (lookupZ q M) as [r'|] eqn:Eq; [|discriminate].
        apply lookupZ_In in Ep, Eq. rewrite (matched_label p r Ep), (matched_label q r' Eq) in Heq. subst r'. right. eauto.
      + exfalso. unfold has_key in Kp. destruct (lookupZ p M) as [r|] eqn:Ep; [|discriminate]. apply lookupZ_In in Ep.
        destruct (unmatched_label q Hq Kq) as (y & Ey & Hy & _). rewrite (matched_label p r Ep), Ey in Heq. specialize (M_refs p r Ep). lia.
      + exfalso. unfold has_key in Kq. destruct (lookupZ q M) as [r|] eqn:Eq; [|discriminate]. apply lookupZ_In in Eq.
        destruct (unmatched_label p Hp Kp) as (y & Ey & Hy & _). rewrite (matched_label q r Eq), Ey in Heq. specialize (M_refs q r Eq). lia.
      + left. destruct (unmatched_label p Hp Kp) as (y & Ey & _ & Hiny). destruct (unmatched_label q Hq Kq) as (y' & Ey' & _ & Hiny').
        rewrite Ey, Ey' in Heq. subst y'.
        (* distinct keys have distinct fresh values *)
        exact (NoDup_snd_inj _ p q y (assign_fresh_values_NoDup (maxref + 1) pls M) Hiny Hiny').
    - intros [->|(r & H1 & H2)]; [reflexivity|]. now rewrite (matched_label p r H1), (matched_label q r H2).
  Qed.

  (* fresh labels avoid every reference label and every matched label *)
  Lemma fresh_outside_refs p : In p pls -> has_key p M = false -> maxref < new_label lm p.
  Proof. intros Hin Hk. destruct (unmatched_label p Hin Hk) as (y & -> & Hy & _). exact Hy. Qed.
End Relabel.

Lemma relabel_ref_unchanged lm a : map fst (relabel lm a) = map fst a.
Proof. unfold relabel. rewrite map_map. reflexivity. Qed.
Lemma relabel_length lm a : length (relabel lm a) = length a.
Proof. unfold relabel. apply map_length. Qed.
