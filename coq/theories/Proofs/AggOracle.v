(* Aggregator: the boolean oracles the harness evaluates on OBSERVED file states are exactly the
   invariants / final-state predicates proved for the model. *)
From Coq Require Import Permutation.
From Pan Require Import Base.Common Model.Aggregator Proofs.AggBase Proofs.AggInv Proofs.AggSess Proofs.AggFinal
  Proofs.AggProgress.

(* a constructed aggregator: header, old rows R0, their names as claims, calls not started *)
Definition ready (h : Z) (R0 : list row) (cs : list call) : ast :=
  mkAst (Some (LH h :: map lrow R0)) (Some (names R0)) h CDone cs.
Lemma ready_SInv h R0 cs : NoDup (names R0) -> all_idle cs -> SInv R0 (ready h R0 cs).
Proof.
  intros Hnd Hi. split; auto. cbn. exists (names R0), R0. split; [reflexivity|split; [reflexivity|now apply CI_init]].
Qed.
Lemma ready_nofail h R0 cs : nofail (ready h R0 cs).
Proof. split; cbn; discriminate. Qed.

Lemma owners_calls cs : owners (map absB cs) = map cn (filter owns cs).
Proof.
  unfold owners. induction cs as [|t cs IH]; [reflexivity|]. simpl.
  unfold a_owns at 1. unfold absB at 1. cbn. destruct (owns t); simpl; now rewrite IH.
Qed.

(* the call-phase facts in plain terms *)
Theorem call_phase_facts R0 s :
  SInv R0 s -> ctor s = CDone ->
  exists b rows,
    buf s = Some b /\ out s = Some (LH (hdr s) :: map lrow rows)
    /\ NoDup b /\ NoDup (names rows) /\ incl (names rows) b
    /\ NoDup (map cn (filter owns (calls s)))
    /\ (forall x, In x b <-> In x (names rows) \/ In x (map cn (filter owns (calls s))))
    /\ (forall x, In x (map cn (filter owns (calls s))) -> ~ In x (names rows))
    /\ (cnt inE (calls s) <= 1)%nat /\ (cnt inF (calls s) <= 1)%nat
    /\ (exists new, rows = R0 ++ new).
Proof.
  intros [_ HI] Hc. rewrite Hc in HI. destruct HI as [b [rows [Hb [Ho [Hpb Hrd Hsk Hsn HmE HmF]]]]].
  destruct Hpb as [H1 H2 H3 H4 H5 H6 H7]. exists b, rows. rewrite owners_calls in H3.
  assert (Hown : forall x, In x (map cn (filter owns (calls s))) <->
                 exists a, In a (map absB (calls s)) /\ a_owns a = true /\ a_name a = x).
  { intros x. rewrite <- owners_calls. apply in_owners. }
  split; [exact Hb|]. split; [exact Ho|]. split; [exact H1|]. split; [exact H2|].
  split. { intros x Hx. apply H4. now left. }
  split; [exact H3|].
  split. { intros x. rewrite H4, Hown. reflexivity. }
  split. { intros x Hx. apply Hown in Hx as [a [Ha [Hoa <-]]]. now apply H6. }
  split; [exact HmE|]. split; [exact HmF|exact H7].
Qed.

Theorem reader_sees_complete_rows R0 s t sn :
  SInv R0 s -> ctor s = CDone -> In t (calls s) -> cp t = RRead sn \/ cp t = RDone sn ->
  exists k rest, sn = LH (hdr s) :: map lrow k /\ NoDup (names k)
                 /\ out s = Some (sn ++ map lrow rest) /\ wf_outb (Some sn) = true.
Proof.
  intros [_ HI] Hc Ht Hp. rewrite Hc in HI. destruct HI as [b [rows [Hb [Ho HCI]]]].
  destruct (ci_snap _ _ _ _ _ HCI t sn Ht Hp) as [k [rest [E1 E2]]].
  pose proof (pb_rows_nd _ _ _ _ (ci_pb _ _ _ _ _ HCI)) as Hnd. subst rows. rewrite names_app in Hnd.
  assert (Hk : NoDup (names k)).
  { clear - Hnd. induction (names k) as [|a l IH]; [constructor|]. simpl in Hnd. inversion Hnd; subst.
    constructor; auto. intros H. apply H1. apply in_or_app. now left. }
  exists k, rest. split; [exact E1|split; [exact Hk|split]].
  - unfold hout in Ho. rewrite Ho, E1. simpl. now rewrite map_app.
  - rewrite E1. simpl. rewrite is_row_lrow, rows_of_lines_lrow. simpl. now apply nodupb_spec.
Qed.

(* ------------------------------------------------------------------ oracles hold on every model state *)
Theorem oracle_wf R0 s : SInv R0 s -> wf_outb (out s) = true.
Proof. intros H. apply wf_outb_spec. now apply SInv_wf_out in H as [H _]. Qed.

Theorem oracle_call_phase R0 s : SInv R0 s -> ctor s = CDone -> call_phaseb (hdr s) (out s) (buf s) = true.
Proof.
  intros HI Hc. destruct (call_phase_facts R0 s HI Hc) as [b [rows [Hb [Ho [H1 [H2 [H3 _]]]]]]].
  unfold call_phaseb. rewrite Hb, Ho, Z.eqb_refl, is_row_lrow, rows_of_lines_lrow. simpl.
  apply nodupb_spec in H1, H2. apply subsetn_spec in H3. now rewrite H1, H2, H3.
Qed.

Lemma monob_refl o : monob o o = true.
Proof. destruct o as [l|]; simpl; auto. apply prefixb_spec. exists []. now rewrite app_nil_r. Qed.
Lemma monob_fappend o xs : monob o (fappend o xs) = true.
Proof. destruct o as [l|]; simpl; auto. apply prefixb_spec. eauto. Qed.

Theorem oracle_mono R0 s s' : SInv R0 s -> hstep s s' -> monob (out s) (out s') = true.
Proof.
  intros HI [Hs|Hs].
  - destruct Hs as [o b h c cs o' b' c' Hc | o b h l1 t l2 b' o' t' Hl]; cbn [out].
    + destruct c; cbn [cstep] in Hc;
        repeat match type of Hc with
               | (if ?c then _ else _) = _ => destruct c
               | match ?c with _ => _ end = _ => destruct c
               end; try discriminate; inversion Hc; subst;
        first [apply monob_refl | apply monob_fappend | reflexivity].
    + unfold lstep in Hl.
      destruct (cp t) as [| |[|]| | | | | |sk| | |sn|sn];
        repeat match type of Hl with
               | (if ?c then _ else _) = _ => destruct c
               | match ?c with _ => _ end = _ => destruct c
               end; try discriminate; inversion Hl; subst;
        first [apply monob_refl | apply monob_fappend].
  - destruct Hs; cbn [session out]; apply monob_refl.
Qed.

Definition submitted (cs : list call) : list row := map crow (filter is_eval cs).
Lemma in_submitted_names x cs : In x (names (submitted cs)) <-> exists t, In t cs /\ is_eval t = true /\ cn t = x.
Proof.
  unfold submitted, names. rewrite map_map. rewrite in_map_iff. split.
  - intros [t [E Ht]]. apply filter_In in Ht as [Ht He]. eauto.
  - intros [t [Ht [He E]]]. exists t. split; auto. apply filter_In. auto.
Qed.

Theorem oracle_final R0 s0 s :
  SInv R0 s0 -> areach s0 s -> all_done s -> finalb (hdr s0) R0 (submitted (calls s0)) (out s) = true.
Proof.
  intros HI Hr Hd. destruct (final_general _ _ _ HI Hr Hd) as [new [Ho [Hnd [Hn Hp]]]].
  unfold finalb. rewrite Ho, Z.eqb_refl, is_row_lrow, rows_of_lines_lrow. simpl.
  apply nodupb_spec in Hnd. rewrite Hnd. simpl.
  replace (prefixb (map lrow R0) (map lrow (R0 ++ new))) with true
    by (symmetry; apply prefixb_spec; exists (map lrow new); apply map_app). simpl.
  replace (subsetn (names (R0 ++ new)) (names R0 ++ names (submitted (calls s0)))) with true.
  2:{ symmetry. apply subsetn_spec. intros x Hx. apply Hn in Hx. apply in_or_app.
      destruct Hx as [Hx|Hx]; [now left|right]. now apply in_submitted_names. }
  replace (subsetn (names R0 ++ names (submitted (calls s0))) (names (R0 ++ new))) with true.
  2:{ symmetry. apply subsetn_spec. intros x Hx. apply Hn. apply in_app_or in Hx as [Hx|Hx]; [now left|right].
      now apply in_submitted_names. }
  simpl. apply forallb_forall. intros r Hr'. apply existsb_exists. exists r. split; [|now apply row_eqb_eq].
  apply in_app_or in Hr' as [H|H]; apply in_or_app; [now left|right].
  destruct (Hp r H) as [t [Ht [He <-]]]. unfold submitted. apply in_map. apply filter_In. auto.
Qed.

(* conversely: what the final oracle says about an observed file *)
Theorem finalb_meaning h old sub o :
  finalb h old sub o = true ->
  exists rs, o = Some (LH h :: map lrow rs) /\ NoDup (names rs)
    /\ (exists new, rs = old ++ new)
    /\ (forall x, In x (names rs) <-> In x (names old) \/ In x (names sub))
    /\ (forall r, In r rs -> In r old \/ In r sub).
Proof.
  unfold finalb. destruct o as [[|[h'|n p] l]|]; try discriminate.
  rewrite !andb_true_iff. intros [[[[[[A B] C] D] E] F] G].
  apply Z.eqb_eq in A. subst h'. apply nodupb_spec in C. apply subsetn_spec in E, F.
  assert (Hl : l = map lrow (rows_of_lines l)).
  { clear - B. induction l as [|[h'|n p] l IH]; simpl in *; try discriminate; auto. f_equal. auto. }
  exists (rows_of_lines l). split; [now rewrite <- Hl|split; [exact C|split; [|split]]].
  - apply prefixb_spec in D as [r Hr]. exists (rows_of_lines r). rewrite Hr.
    clear. induction old as [|[n p] old IH]; simpl; auto. now rewrite IH.
  - intros x. split.
    + intros Hx. apply E in Hx. now apply in_app_or in Hx.
    + intros Hx. apply F. now apply in_or_app.
  - intros r Hr. rewrite forallb_forall in G. apply G in Hr. apply existsb_exists in Hr as [r' [Hr' E']].
    apply row_eqb_eq in E'. subst. now apply in_app_or.
Qed.
