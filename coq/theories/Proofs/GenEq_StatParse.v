(* T1 tie: what harness/translate/units_stats.py reads off panoptica_statistics.py on every run is the
   model's: the header split call, the slices of the loops, the missing-value condition (as a function
   of the 5-way value class), the first-appearance metric list, ValueSummary's statistics, the None filter. *)
From Pan Require Import Base.Common Base.Sx Model.Stats Model.Tsv Gen.StatParse.

Lemma geneq_first_cell : gen_first_cell = SUBJ.
Proof. reflexivity. Qed.
Lemma geneq_header_split : gen_header_split = header_split.
Proof. reflexivity. Qed.
(* the model reads header[1:], rows[1:], r[1:] (pattern matching on the first cell / first row) *)
Lemma geneq_slices : gen_header_skip = 1%nat /\ gen_row_skip = row_skip /\ gen_cell_skip = 1%nat.
Proof. repeat split; reflexivity. Qed.
Lemma geneq_metric_order : gen_metric_order_first_appearance = true.
Proof. reflexivity. Qed.
Lemma geneq_empty_is_missing : gen_empty_is_missing = true.
Proof. reflexivity. Qed.
Lemma geneq_keep c : gen_keep c = keep c.
Proof. destruct c; reflexivity. Qed.
Lemma geneq_stat_table : gen_stat_table = stat_table.
Proof. reflexivity. Qed.
Lemma geneq_removes_nones : gen_summary_removes_nones = summary_removes_nones.
Proof. reflexivity. Qed.
