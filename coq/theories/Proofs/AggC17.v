(* Aggregator: the C17 statements (histories of sessions, crashes, restarts, siblings). *)
From Coq Require Import Permutation.
From Pan Require Import Base.Common Model.Aggregator Proofs.AggBase Proofs.AggInv Proofs.AggSess Proofs.AggFinal
  Proofs.AggProgress Proofs.AggOracle.

(* the four initial states of the property *)
Lemma wf_out_initial_states h0 R :
  wf_out None /\ wf_out (Some []) /\ wf_out (Some [LH h0]) /\ (NoDup (names R) -> wf_out (Some (LH h0 :: map lrow R))).
Proof.
  split; [now left|split; [right; now left|split]].
  - right. right. exists h0, []. split; [constructor|reflexivity].
  - intros H. right. right. eauto.
Qed.

Lemma c17_invariant o b h cs s :
  wf_out o -> all_idle cs -> hreach (session o b h cs) s -> wf_out (out s) /\ wf_outb (out s) = true.
Proof.
  intros Hwf Hi Hr. destruct (hreach_SInv _ _ _ _ _ Hwf Hi Hr) as [R0 HI].
  split; [now apply SInv_wf_out in HI as [H _]|now apply (oracle_wf R0)].
Qed.

Lemma c17_rows_never_altered o b h cs s s' :
  wf_out o -> all_idle cs -> hreach (session o b h cs) s -> hstep s s' -> monob (out s) (out s') = true.
Proof.
  intros Hwf Hi Hr Hs. destruct (hreach_SInv _ _ _ _ _ Hwf Hi Hr) as [R0 HI]. now apply (oracle_mono R0).
Qed.

Lemma sstep_nofail_iff s s0 : sstep s s0 -> (nofail s0 <-> hdr_ok s0).
Proof.
  intros Hs. destruct Hs; unfold nofail; cbn [session ctor]; split.
  - intros [_ Hk]. now apply Hk.
  - intros Hk. split; [discriminate|auto].
  - intros [_ Hk]. now apply Hk.
  - intros Hk. split; [discriminate|auto].
Qed.

(* after ANY history, a restarted session that runs uninterrupted *)
Lemma c17_restart o b h cs sp s0 s :
  wf_out o -> all_idle cs -> hreach (session o b h cs) sp -> sstep sp s0 -> areach s0 s -> all_done s ->
  exists new, out s = Some (LH (hdr s0) :: map lrow (rows_of (out sp) ++ new))
    /\ NoDup (names (rows_of (out sp) ++ new))
    /\ (forall x, In x (names (rows_of (out sp) ++ new)) <->
                  In x (names (rows_of (out sp))) \/ exists t, In t (calls s0) /\ is_eval t = true /\ cn t = x)
    /\ (forall r, In r new -> exists t, In t (calls s0) /\ is_eval t = true /\ crow t = r)
    /\ finalb (hdr s0) (rows_of (out sp)) (submitted (calls s0)) (out s) = true.
Proof.
  intros Hwf Hi Hr Hs Ha Hd. destruct (hreach_SInv _ _ _ _ _ Hwf Hi Hr) as [R0 HI].
  pose proof (sstep_SInv _ _ _ Hs HI) as HI0.
  destruct (final_general _ _ _ HI0 Ha Hd) as [new [A [B [C D]]]].
  exists new. repeat split; auto; try (apply C). exact (oracle_final _ _ _ HI0 Ha Hd).
Qed.

Lemma c17_restart_completes o b h cs sp s0 n s :
  wf_out o -> all_idle cs -> hreach (session o b h cs) sp -> sstep sp s0 -> hdr_ok s0 -> asteps n s0 s ->
  (n + measure s <= measure s0)%nat /\ ctor s <> CFail
  /\ ((forall s', ~ astep false false s s') -> all_done s).
Proof.
  intros Hwf Hi Hr Hs Hok Ha. destruct (hreach_SInv _ _ _ _ _ Hwf Hi Hr) as [R0 HI].
  pose proof (sstep_SInv _ _ _ Hs HI) as HI0. apply (sstep_nofail_iff _ _ Hs) in Hok.
  split; [now apply schedule_bounded|]. apply asteps_areach in Ha. split.
  - exact (proj1 (areach_nofail _ _ _ HI0 Hok Ha)).
  - now apply (maximal_schedule_done (rows_of (out sp)) s0).
Qed.

(* a session whose setup differs from the file's header fails in the constructor and touches nothing *)
Lemma c17_header_mismatch h0 rest b h cs s :
  h0 <> h -> areach (session (Some (LH h0 :: rest)) b h cs) s ->
  out s = Some (LH h0 :: rest) /\ buf s = b /\ (ctor s = C0 \/ ctor s = CFail).
Proof.
  intros Hne Hr. remember (session (Some (LH h0 :: rest)) b h cs) as s0 eqn:E0.
  induction Hr as [|s s' Hr IH Hs]; [subst; cbn; auto|].
  destruct IH as [Ho [Hb Hc]]. destruct (areach_cids _ _ Hr) as [_ Hh]. rewrite E0 in Hh. cbn in Hh.
  destruct Hs as [o b0 hh c cs0 o' b' c' Hcs | o b0 hh l1 t l2 b' o' t' Hl]; cbn [out buf ctor hdr] in *.
  - subst. destruct Hc as [->| ->]; cbn [cstep] in Hcs; [|discriminate].
    simpl in Hcs. replace (h0 =? h) with false in Hcs by (symmetry; now apply Z.eqb_neq).
    inversion Hcs; subst. auto.
  - destruct Hc; discriminate.
Qed.

(* the oracles at every point of any history *)
Lemma c17_oracle_call_phase o b h cs s :
  wf_out o -> all_idle cs -> hreach (session o b h cs) s -> ctor s = CDone ->
  call_phaseb (hdr s) (out s) (buf s) = true.
Proof.
  intros Hwf Hi Hr Hc. destruct (hreach_SInv _ _ _ _ _ Hwf Hi Hr) as [R0 HI]. now apply (oracle_call_phase R0).
Qed.
