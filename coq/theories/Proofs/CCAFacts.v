(* Basic facts: coordinate equality, symmetry/irreflexivity of adjacency, the path relation,
   list plumbing (combine/map, memZ, dedupZ, firsts, index_of). *)
From Pan Require Import Base.Common Model.CCA Proofs.CCASpec.
Open Scope Z_scope.

(* ---------------------------------------------------------------- coordinates *)
Lemma cvox_eqb_eq a b : cvox_eqb a b = true <-> a = b.
Proof.
  revert b; induction a as [|x a IH]; destruct b as [|y b]; cbn; try (split; congruence).
  rewrite andb_true_iff, Z.eqb_eq, IH. split; [intros [-> ->]; reflexivity | intros [= -> ->]; auto].
Qed.
Lemma cvox_eqb_refl a : cvox_eqb a a = true.
Proof. apply cvox_eqb_eq; reflexivity. Qed.
Lemma cvox_eqb_sym a b : cvox_eqb a b = cvox_eqb b a.
Proof. revert b; induction a; destruct b; cbn; auto. rewrite Z.eqb_sym, IHa. reflexivity. Qed.

Lemma cheb_sym a b : cheb_le1 a b = cheb_le1 b a.
Proof.
  revert b; induction a as [|x a IH]; destruct b as [|y b]; cbn; auto.
  rewrite IH. replace (Z.abs (y - x)) with (Z.abs (x - y)) by lia. reflexivity.
Qed.
Lemma manh_sym a b : manh a b = manh b a.
Proof.
  revert b; induction a as [|x a IH]; destruct b as [|y b]; cbn; auto.
  rewrite IH. replace (Z.abs (y - x)) with (Z.abs (x - y)) by lia. reflexivity.
Qed.
Lemma manh_refl a : manh a a = Some 0.
Proof. induction a as [|x a IH]; cbn; auto. rewrite IH. f_equal. lia. Qed.

Lemma adjacent_sym b v w : adjacent b v w = adjacent b w v.
Proof.
  destruct b; unfold adjacent.
  - rewrite cheb_sym, cvox_eqb_sym, Z.eqb_sym. reflexivity.
  - rewrite manh_sym. reflexivity.
Qed.
Lemma adjacent_irrefl b v : adjacent b v v = false.
Proof.
  destruct b; unfold adjacent.
  - rewrite cvox_eqb_refl. cbn. rewrite andb_false_r. reflexivity.
  - rewrite manh_refl. reflexivity.
Qed.
Lemma adjacent_cc3d_same_label v w : adjacent Cc3d v w = true -> snd v = snd w.
Proof. unfold adjacent. rewrite !andb_true_iff, Z.eqb_eq. tauto. Qed.
Lemma adjacent_scipy_labels c d s s' t t' : adjacent Scipy (c, s) (d, t) = adjacent Scipy (c, s') (d, t').
Proof. reflexivity. Qed.

(* ---------------------------------------------------------------- paths *)
Section Conn.
Variable b : backend.

Lemma conn_in_l m v w : conn b m v w -> In v m.
Proof. destruct 1; assumption. Qed.
Lemma conn_in_r m v w : conn b m v w -> In w m.
Proof. induction 1; assumption. Qed.
Lemma conn_trans m u v w : conn b m u v -> conn b m v w -> conn b m u w.
Proof. induction 1; intros; auto. eapply conn_step; eauto. Qed.
Lemma conn_one m v w : In v m -> In w m -> adjacent b v w = true -> conn b m v w.
Proof. intros. eapply conn_step; eauto. apply conn_refl; assumption. Qed.
Lemma conn_sym m v w : conn b m v w -> conn b m w v.
Proof.
  induction 1; [apply conn_refl; assumption|].
  eapply conn_trans; [eassumption|]. apply conn_one; auto. rewrite adjacent_sym; assumption.
Qed.
Lemma conn_mono m m' v w : incl m m' -> conn b m v w -> conn b m' v w.
Proof. intros Hi; induction 1; [apply conn_refl; auto|eapply conn_step; eauto]. Qed.
End Conn.

(* ---------------------------------------------------------------- combine / map *)
Lemma in_combine_map_r {A B C} (f : B -> C) (l : list A) (l' : list B) a c :
  In (a, c) (combine l (map f l')) <-> exists x, In (a, x) (combine l l') /\ c = f x.
Proof.
  revert l'; induction l as [|y l IH]; destruct l' as [|y' l']; cbn; try (split; [tauto|intros (?&[]&_)]).
  rewrite IH. split.
  - intros [[= <- <-]|(x&H&->)]; eauto.
  - intros (x&[[= <- <-]|H]&->); eauto.
Qed.
Lemma in_combine_map_l {A B C} (f : A -> C) (l : list A) (l' : list B) c y :
  In (c, y) (combine (map f l) l') <-> exists x, In (x, y) (combine l l') /\ c = f x.
Proof.
  revert l'; induction l as [|a l IH]; destruct l' as [|y' l']; cbn; try (split; [tauto|intros (?&[]&_)]).
  rewrite IH. split.
  - intros [[= <- <-]|(x&H&->)]; eauto.
  - intros (x&[[= <- <-]|H]&->); eauto.
Qed.
Lemma in_combine_ex_r {A B} (l : list A) (l' : list B) a :
  length l = length l' -> In a l -> exists y, In (a, y) (combine l l').
Proof.
  revert l'; induction l as [|x l IH]; destruct l' as [|y l']; cbn; try discriminate; try tauto.
  intros [= Hl] [->|H]; eauto. destruct (IH _ Hl H) as (z&?); eauto.
Qed.
Lemma in_combine_ex_l {A B} (l : list A) (l' : list B) y :
  length l = length l' -> In y l' -> exists a, In (a, y) (combine l l').
Proof.
  revert l'; induction l as [|x l IH]; destruct l' as [|y' l']; cbn; try discriminate; try tauto.
  intros [= Hl] [->|H]; eauto. destruct (IH _ Hl H) as (z&?); eauto.
Qed.
Lemma map_fst_combine {A B} (l : list A) (l' : list B) :
  length l = length l' -> map fst (combine l l') = l.
Proof.
  revert l'; induction l as [|x l IH]; destruct l' as [|y l']; cbn; try discriminate; auto.
  intros [= Hl]. rewrite IH; auto.
Qed.
Lemma map_snd_combine {A B} (l : list A) (l' : list B) :
  length l = length l' -> map snd (combine l l') = l'.
Proof.
  revert l'; induction l as [|x l IH]; destruct l' as [|y l']; cbn; try discriminate; auto.
  intros [= Hl]. rewrite IH; auto.
Qed.
Lemma combine_fst_snd {A B} (l : list (A * B)) : combine (map fst l) (map snd l) = l.
Proof. induction l as [|[a b] l IH]; cbn; congruence. Qed.

(* a labelling over NoDup coordinates is functional *)
Lemma nodup_fst_functional {A B} (l : list (A * B)) a x y :
  NoDup (map fst l) -> In (a, x) l -> In (a, y) l -> x = y.
Proof.
  induction l as [|[a' z] l IH]; cbn; [tauto|]. intros Hn. inversion Hn as [|? ? Hni Hn']; subst.
  intros [[= -> ->]|H1] [[= ->]|H2]; auto.
  - exfalso; apply Hni. apply (in_map fst) in H2. exact H2.
  - subst. exfalso; apply Hni. apply (in_map fst) in H1. exact H1.
Qed.
Lemma nodup_fst_eq {A B} (l : list (A * B)) p q :
  NoDup (map fst l) -> In p l -> In q l -> fst p = fst q -> p = q.
Proof.
  destruct p as [a x], q as [a' y]; cbn. intros Hn Hp Hq <-. f_equal. eapply nodup_fst_functional; eauto.
Qed.

(* two labellings of the same coordinate list, position by position *)
Lemma in_two_labellings (l1 l2 : smap) c k :
  map fst l1 = map fst l2 -> In (c, k) l1 -> exists k', In (c, k') l2 /\ In (k, k') (combine (map snd l1) (map snd l2)).
Proof.
  revert l2; induction l1 as [|[c1 k1] l1 IH]; destruct l2 as [|[c2 k2] l2]; cbn; try discriminate; try tauto.
  intros [= <- Hm] [[= -> ->]|H]; eauto. destruct (IH _ Hm H) as (k'&?&?); eauto.
Qed.
Lemma in_combine_labellings (l1 l2 : smap) k1 k2 :
  map fst l1 = map fst l2 -> In (k1, k2) (combine (map snd l1) (map snd l2)) ->
  exists c, In (c, k1) l1 /\ In (c, k2) l2.
Proof.
  revert l2; induction l1 as [|[c1 a1] l1 IH]; destruct l2 as [|[c2 a2] l2]; cbn; try discriminate; try tauto.
  intros [= <- Hm] [[= -> ->]|H]; eauto. destruct (IH _ Hm H) as (c&?&?); eauto.
Qed.

(* ---------------------------------------------------------------- memZ / dedupZ *)
Lemma memZ_In x l : memZ x l = true <-> In x l.
Proof.
  unfold memZ. rewrite existsb_exists. split.
  - intros (y&H&E). apply Z.eqb_eq in E. subst; assumption.
  - intros H. exists x. split; [assumption|apply Z.eqb_refl].
Qed.
Lemma memZ_false x l : memZ x l = false <-> ~ In x l.
Proof. rewrite <- memZ_In. destruct (memZ x l); split; congruence. Qed.
Lemma dedupZ_In x l : In x (dedupZ l) <-> In x l.
Proof.
  induction l as [|y l IH]; cbn; [tauto|]. destruct (memZ y l) eqn:E.
  - rewrite IH. apply memZ_In in E. split; [auto|intros [->|]; auto].
  - cbn. rewrite IH. tauto.
Qed.
Lemma dedupZ_NoDup l : NoDup (dedupZ l).
Proof.
  induction l as [|y l IH]; cbn; [constructor|]. destruct (memZ y l) eqn:E; auto.
  constructor; auto. rewrite dedupZ_In. apply memZ_false; assumption.
Qed.

(* ---------------------------------------------------------------- firsts / index_of *)
Lemma firsts_In x l : In x (firsts l) <-> In x l.
Proof.
  induction l as [|y l IH]; cbn; [tauto|]. rewrite filter_In, IH, negb_true_iff, Z.eqb_neq.
  destruct (Z.eq_dec y x); [subst; tauto|]. split; [tauto|]. intros [?|?]; [tauto|]. right; split; auto.
Qed.
Lemma NoDup_filter {A} (f : A -> bool) l : NoDup l -> NoDup (filter f l).
Proof.
  induction 1 as [|x l Hni Hn IH]; cbn; [constructor|]. destruct (f x); auto.
  constructor; auto. rewrite filter_In. tauto.
Qed.
Lemma firsts_NoDup l : NoDup (firsts l).
Proof.
  induction l as [|y l IH]; cbn; constructor.
  - rewrite filter_In, negb_true_iff, Z.eqb_neq. tauto.
  - apply NoDup_filter; assumption.
Qed.
Lemma index_of_lt x l : In x l -> (index_of x l < length l)%nat.
Proof.
  induction l as [|y l IH]; cbn; [tauto|]. destruct (Z.eqb_spec x y); [lia|].
  intros [->|H]; [congruence|]. specialize (IH H). lia.
Qed.
Lemma nth_index_of x l d : In x l -> nth (index_of x l) l d = x.
Proof.
  induction l as [|y l IH]; cbn; [tauto|]. destruct (Z.eqb_spec x y); [auto|].
  intros [->|H]; [congruence|auto].
Qed.
Lemma index_of_inj x y l : In x l -> In y l -> index_of x l = index_of y l -> x = y.
Proof.
  intros Hx Hy E. rewrite <- (nth_index_of x l 0 Hx), <- (nth_index_of y l 0 Hy), E. reflexivity.
Qed.
Lemma index_of_nth i l d : NoDup l -> (i < length l)%nat -> index_of (nth i l d) l = i.
Proof.
  revert i; induction l as [|y l IH]; cbn; [lia|]. intros i Hn Hi. inversion Hn as [|? ? Hni Hn']; subst.
  destruct i as [|i]; [rewrite Z.eqb_refl; reflexivity|].
  destruct (Z.eqb_spec (nth i l d) y) as [E|E].
  - exfalso; apply Hni. rewrite <- E. apply nth_In. lia.
  - f_equal. apply IH; auto. lia.
Qed.

(* ---------------------------------------------------------------- upto *)
Lemma upto_In k n : In k (upto n) <-> 1 <= k <= Z.of_nat n.
Proof.
  induction n as [|n IH]; [cbn; lia|]. cbn [upto In]. rewrite IH. lia.
Qed.
Lemma upto_NoDup n : NoDup (upto n).
Proof.
  induction n as [|n IH]; cbn [upto]; constructor; auto. rewrite upto_In. lia.
Qed.
Lemma upto_length n : length (upto n) = n.
Proof. induction n; cbn [upto length]; auto. Qed.
