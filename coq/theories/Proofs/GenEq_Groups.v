From Pan Require Import Base.Common Model.Metrics Model.Groups Gen.Groups.
Open Scope Z_scope.
Lemma geneq_extract ls b x : gen_extract (memZ x ls) b x = extract ls b x.
Proof. reflexivity. Qed.
Lemma geneq_binar k : gen_binar (is_merge k) = is_merge k.
Proof. reflexivity. Qed.
Lemma geneq_use_single k matched :
  gen_use_single (match k with GSingle => true | _ => false end) matched = use_single k matched.
Proof. destruct k, matched; reflexivity. Qed.
(* every score passes the forced threshold, in the metric's own direction *)
From Pan Require Import Model.MetricTable.
Lemma geneq_single_threshold m s : 0 <= Qnum s ->
  match gen_single_threshold false (negb (decreasing m)) with Some t => metric_beats m s t = true | None => decreasing m = true end.
Proof.
  intros Hs. unfold gen_single_threshold, metric_beats, beats. destruct (decreasing m); cbn [negb orb]; [reflexivity|].
  apply Qle_bool_iff. unfold Qle. cbn. lia.
Qed.

(* the labels the constructed class groups answer for: those of the groups kept in the dictionary (Model/GroupCtor.v) *)
From Pan Require Import Model.Config Model.GroupCtor.
Lemma geneq_ctor_labels d : gen_ctor_labels (map (fun ng => (fst ng, Config.g_labels (snd ng))) d) = dict_labels d.
Proof. unfold gen_ctor_labels, dict_labels. induction d as [|ng t IH]; cbn [map flat_map snd]; [reflexivity|]. rewrite IH. reflexivity. Qed.
