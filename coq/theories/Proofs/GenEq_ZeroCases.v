From Pan Require Import Base.Common Model.ZeroCase Gen.ZeroCases.
Open Scope Z_scope.
Lemma geneq_zero_case np nr : gen_zero_case np nr = zero_case np nr.
Proof.
  unfold gen_zero_case, zero_case.
  destruct (np =? 0) eqn:E1, (nr =? 0) eqn:E2; cbn [andb orb];
    try apply Z.eqb_eq in E1; try apply Z.eqb_eq in E2; subst; reflexivity.
Qed.
