(* Range and order statements about the REPORTED doubles (one IEEE rounding of the exact quotients). *)
From Pan Require Import Base.Common Base.Sx Base.Rnd64 Model.MetricTable Model.Metrics Model.EdgeCase Model.Result
  Proofs.MetricsFacts Proofs.C06Proofs Proofs.C02Proofs Proofs.Rnd64Facts Proofs.ResultFacts.
Open Scope Z_scope.

Lemma dice_reported_range a : binary a -> (0 <= dice None a <= 1)%Q.
Proof. intros Hb. unfold dice, metric_input, dice_raw. apply rnd_unit_interval. now apply dice_range. Qed.
Lemma iou_reported_range sel a : (0 <= iou sel a <= 1)%Q.
Proof. unfold iou, iou_raw. apply rnd_unit_interval. apply iou_range. Qed.
Lemma dice_sel_reported_range ri pis a : (0 <= dice (Some (ri, pis)) a <= 1)%Q.
Proof. unfold dice, metric_input, dice_raw. apply rnd_unit_interval. apply dice_range. apply select_binary. Qed.

(* per instance the reported Dice is at least the reported IoU *)
Lemma dice_ge_iou_reported ri pis a : (iou (Some (ri, pis)) a <= dice (Some (ri, pis)) a)%Q.
Proof.
  unfold iou, dice, metric_input, iou_raw, dice_raw. apply rnd_mono. apply dice_ge_iou. apply select_binary.
Qed.

(* identical non-empty masks score exactly 1.0 *)
Lemma dice_iou_identical_reported a : binary a -> same_masks a -> nonempty_masks a ->
  (dice None a == 1)%Q /\ (iou None a == 1)%Q.
Proof.
  intros Hb Hs Hn. unfold dice, iou, metric_input, dice_raw, iou_raw. split.
  - rewrite <- rnd_1. apply rnd_compat. apply (dice_one_iff a Hb). now split.
  - rewrite <- rnd_1. apply rnd_compat. apply (iou_one_iff a). now split.
Qed.

(* rq as reported lies in (0, 1] when tp > 0 *)
Lemma rq_reported_range tp np nr : 0 < tp -> tp <= np -> tp <= nr ->
  exists q, calc_rq np nr tp = FQ q /\ (0 < q <= 1)%Q.
Proof.
  intros H0 H1 H2. exists (rnd (rq_exact tp (calc_fp np tp) (calc_fn nr tp))). split.
  - unfold calc_rq. destruct (tp =? 0) eqn:E; [apply Z.eqb_eq in E; lia|reflexivity].
  - destruct (rq_range tp np nr H0 H1 H2) as [Ha Hb]. split; [now apply rnd_pos_strict|].
    apply rnd_unit_interval. split; [apply Qlt_le_weak; exact Ha|exact Hb].
Qed.
