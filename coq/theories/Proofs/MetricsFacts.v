(* Facts about the overlap metrics: the model's formulas are the set-theoretic definitions. *)
From Pan Require Import Base.Common Base.Rnd64 Model.Metrics.
From Coq Require Import Qfield Lra.
Open Scope Z_scope.

(* ---- counting ---- *)
Lemma cntZ_nonneg {A} (f : A -> bool) l : 0 <= cntZ f l.
Proof. induction l as [|x l IH]; cbn [cntZ]; [lia|]. destruct (f x); cbn [b2z]; lia. Qed.

Lemma cntZ_ext {A} (f g : A -> bool) l : (forall x, In x l -> f x = g x) -> cntZ f l = cntZ g l.
Proof.
  induction l as [|x l IH]; intros H; cbn [cntZ]; [reflexivity|].
  rewrite (H x (or_introl eq_refl)), IH; [reflexivity|]. intros y Hy. apply H. now right.
Qed.

Lemma cntZ_zero_iff {A} (f : A -> bool) l : cntZ f l = 0 <-> forall x, In x l -> f x = false.
Proof.
  induction l as [|x l IH]; cbn [cntZ]; [split; [intros _ y []|reflexivity]|].
  pose proof (cntZ_nonneg f l). split.
  - intros H0 y [<-|Hy]; [destruct (f x); cbn [b2z] in H0; [lia|reflexivity]|].
    apply IH; [destruct (f x); cbn [b2z] in H0; lia|exact Hy].
  - intros Hall. rewrite (Hall x (or_introl eq_refl)). cbn [b2z].
    rewrite (proj2 IH); [lia|]. intros y Hy. apply Hall. now right.
Qed.

Lemma cntZ_map {A B} (g : A -> B) (f : B -> bool) l : cntZ f (map g l) = cntZ (fun x => f (g x)) l.
Proof. induction l as [|x l IH]; cbn [cntZ map]; [reflexivity|]. now rewrite IH. Qed.

Lemma cntZ_length {A} (f : A -> bool) l : cntZ f l = Z.of_nat (length (filter f l)).
Proof.
  induction l as [|x l IH]; cbn [cntZ filter]; [reflexivity|].
  destruct (f x); cbn [b2z length]; lia.
Qed.

(* inclusion-exclusion on a list of voxels *)
Lemma incl_excl {A} (f g : A -> bool) l :
  cntZ (fun x => f x || g x) l + cntZ (fun x => f x && g x) l = cntZ f l + cntZ g l.
Proof.
  induction l as [|x l IH]; cbn [cntZ]; [reflexivity|].
  destruct (f x), (g x); cbn [b2z orb andb]; lia.
Qed.

Lemma memZ_In x l : memZ x l = true <-> In x l.
Proof.
  unfold memZ. rewrite existsb_exists. split.
  - intros [y [Hy He]]. apply Z.eqb_eq in He. now subst.
  - intros H. exists x. split; [exact H|apply Z.eqb_refl].
Qed.

(* ---- binary masks ---- *)
Definition is01 (x : Z) : Prop := x = 0 \/ x = 1.
Definition binary (a : arr2) : Prop := forall v, In v a -> is01 (fst v) /\ is01 (snd v).

Lemma select_binary ri pis a : binary (select ri pis a).
Proof.
  intros v Hv. unfold select in Hv. apply in_map_iff in Hv. destruct Hv as [w [<- _]].
  cbn [fst snd]. unfold is01. split.
  - destruct (fst w =? ri); cbn [b2z]; auto.
  - destruct (memZ (snd w) pis); cbn [b2z]; auto.
Qed.

Definition n_ref (a : arr2) : Z := cntZ (fun v => nz (fst v)) a.     (* |X| *)
Definition n_pred (a : arr2) : Z := cntZ (fun v => nz (snd v)) a.    (* |Y| *)

Lemma sum_ref_binary a : binary a -> sum_ref a = n_ref a.
Proof.
  unfold sum_ref, n_ref. induction a as [|v a IH]; intros Hb; cbn [map sumZ cntZ]; [reflexivity|].
  rewrite IH; [|intros w Hw; apply Hb; now right].
  destruct (Hb v (or_introl eq_refl)) as [[H|H] _]; rewrite H; reflexivity.
Qed.
Lemma sum_pred_binary a : binary a -> sum_pred a = n_pred a.
Proof.
  unfold sum_pred, n_pred. induction a as [|v a IH]; intros Hb; cbn [map sumZ cntZ]; [reflexivity|].
  rewrite IH; [|intros w Hw; apply Hb; now right].
  destruct (Hb v (or_introl eq_refl)) as [_ [H|H]]; rewrite H; reflexivity.
Qed.

Lemma union_inter a : n_union a + n_inter a = n_ref a + n_pred a.
Proof. unfold n_union, n_inter, n_ref, n_pred. apply (incl_excl (fun v => nz (fst v)) (fun v => nz (snd v))). Qed.

Lemma n_inter_le_ref a : n_inter a <= n_ref a.
Proof.
  unfold n_inter, n_ref. induction a as [|v a IH]; cbn [cntZ]; [lia|].
  destruct (nz (fst v)), (nz (snd v)); cbn [b2z andb]; lia.
Qed.
Lemma n_inter_le_pred a : n_inter a <= n_pred a.
Proof.
  unfold n_inter, n_pred. induction a as [|v a IH]; cbn [cntZ]; [lia|].
  destruct (nz (fst v)), (nz (snd v)); cbn [b2z andb]; lia.
Qed.
Lemma n_inter_nonneg a : 0 <= n_inter a. Proof. apply cntZ_nonneg. Qed.
Lemma n_ref_nonneg a : 0 <= n_ref a. Proof. apply cntZ_nonneg. Qed.
Lemma n_pred_nonneg a : 0 <= n_pred a. Proof. apply cntZ_nonneg. Qed.
Lemma n_union_nonneg a : 0 <= n_union a. Proof. apply cntZ_nonneg. Qed.

(* counts of a selection are the cardinalities of the selected voxel sets *)
Lemma n_ref_select ri pis a : n_ref (select ri pis a) = cntZ (fun v => fst v =? ri) a.
Proof.
  unfold n_ref, select. rewrite cntZ_map. apply cntZ_ext. intros v _. cbn [fst].
  destruct (fst v =? ri); reflexivity.
Qed.
Lemma n_pred_select ri pis a : n_pred (select ri pis a) = cntZ (fun v => memZ (snd v) pis) a.
Proof.
  unfold n_pred, select. rewrite cntZ_map. apply cntZ_ext. intros v _. cbn [snd].
  destruct (memZ (snd v) pis); reflexivity.
Qed.
Lemma n_inter_select ri pis a :
  n_inter (select ri pis a) = cntZ (fun v => (fst v =? ri) && memZ (snd v) pis) a.
Proof.
  unfold n_inter, select. rewrite cntZ_map. apply cntZ_ext. intros v _. cbn [fst snd].
  destruct (fst v =? ri), (memZ (snd v) pis); reflexivity.
Qed.
Lemma n_union_select ri pis a :
  n_union (select ri pis a) = cntZ (fun v => (fst v =? ri) || memZ (snd v) pis) a.
Proof.
  unfold n_union, select. rewrite cntZ_map. apply cntZ_ext. intros v _. cbn [fst snd].
  destruct (fst v =? ri), (memZ (snd v) pis); reflexivity.
Qed.

(* ---- rational helpers ---- *)
Lemma qdiv_pos_le1 n d : 0 <= n -> n <= d -> 0 < d -> (0 <= qdiv n d /\ qdiv n d <= 1)%Q.
Proof.
  intros Hn Hnd Hd. unfold qdiv, Qdiv, Qinv, Qmult, Qle, inject_Z. cbn [Qnum Qden].
  destruct d as [|p|p]; try lia. cbn. split; nia.
Qed.

Lemma qdiv_eq_1 n d : 0 < d -> (qdiv n d == 1)%Q <-> n = d.
Proof.
  intros Hd. unfold qdiv, Qdiv, Qinv, Qmult, Qeq, inject_Z. cbn [Qnum Qden].
  destruct d as [|p|p]; try lia. cbn. split; nia.
Qed.

Lemma qdiv_cross a b c d : b <> 0 -> d <> 0 -> a * d = c * b -> (qdiv a b == qdiv c d)%Q.
Proof.
  intros Hb Hd H. unfold qdiv. 
  assert (Hb' : ~ (inject_Z b == 0)%Q) by (unfold Qeq, inject_Z; cbn; lia).
  assert (Hd' : ~ (inject_Z d == 0)%Q) by (unfold Qeq, inject_Z; cbn; lia).
  apply (Qmult_inj_r _ _ (inject_Z b * inject_Z d)%Q).
  - intro E. apply Qmult_integral in E. tauto.
  - transitivity (inject_Z a * inject_Z d)%Q; [field; exact Hb'|].
    transitivity (inject_Z c * inject_Z b)%Q; [|field; exact Hd'].
    rewrite <- !inject_Z_mult. now rewrite H.
Qed.

(* ---- the definitions, on binary masks ---- *)
Lemma dice_exact_binary a : binary a ->
  dice_exact (sum_ref a) (sum_pred a) (n_inter a) =
  if n_ref a + n_pred a =? 0 then 0%Q else qdiv (2 * n_inter a) (n_ref a + n_pred a).
Proof.
  intros Hb. rewrite (sum_ref_binary a Hb), (sum_pred_binary a Hb). unfold dice_exact.
  pose proof (n_ref_nonneg a). pose proof (n_pred_nonneg a).
  destruct (n_ref a =? 0) eqn:E1, (n_pred a =? 0) eqn:E2, (n_ref a + n_pred a =? 0) eqn:E3;
    cbn [andb]; try reflexivity; lia.
Qed.

Lemma dice_iou_relation a : binary a -> 0 < n_union a ->
  (dice_exact (sum_ref a) (sum_pred a) (n_inter a) ==
   2 * iou_exact (n_inter a) (n_union a) / (1 + iou_exact (n_inter a) (n_union a)))%Q.
Proof.
  intros Hb Hu. rewrite (dice_exact_binary a Hb). unfold iou_exact.
  pose proof (union_inter a) as HU. pose proof (n_inter_nonneg a) as Hi.
  destruct (n_ref a + n_pred a =? 0) eqn:E1; [lia|]. destruct (n_union a =? 0) eqn:E2; [lia|].
  rewrite <- HU. unfold qdiv.
  assert (H1 : ~ (inject_Z (n_union a) == 0)%Q) by (unfold Qeq, inject_Z; cbn; lia).
  assert (H3 : ~ (inject_Z (n_union a) + inject_Z (n_inter a) == 0)%Q).
  { rewrite <- inject_Z_plus. unfold Qeq, inject_Z; cbn; lia. }
  rewrite inject_Z_mult, inject_Z_plus.
  field. split; [exact H1|exact H3].
Qed.

Definition swap2 (a : arr2) : arr2 := map (fun v => (snd v, fst v)) a.
Lemma swap_counts a :
  sum_ref (swap2 a) = sum_pred a /\ sum_pred (swap2 a) = sum_ref a /\
  n_inter (swap2 a) = n_inter a /\ n_union (swap2 a) = n_union a.
Proof.
  unfold sum_ref, sum_pred, n_inter, n_union, swap2. rewrite !map_map, !cntZ_map. cbn [fst snd].
  repeat split; try (f_equal; apply map_ext; reflexivity);
    apply cntZ_ext; intros v _; [apply andb_comm|apply orb_comm].
Qed.

Lemma dice_symmetric a : dice_raw (swap2 a) = dice_raw a.
Proof.
  unfold dice_raw. destruct (swap_counts a) as (-> & -> & -> & _). unfold dice_exact.
  rewrite (Z.add_comm (sum_pred a)), (andb_comm (sum_pred a =? 0)). reflexivity.
Qed.
Lemma iou_symmetric a : iou_raw (swap2 a) = iou_raw a.
Proof. unfold iou_raw. destruct (swap_counts a) as (_ & _ & -> & ->). reflexivity. Qed.

Lemma dice_range a : binary a ->
  (0 <= dice_exact (sum_ref a) (sum_pred a) (n_inter a) <= 1)%Q.
Proof.
  intros Hb. rewrite (dice_exact_binary a Hb).
  pose proof (n_inter_le_ref a). pose proof (n_inter_le_pred a). pose proof (n_inter_nonneg a).
  destruct (n_ref a + n_pred a =? 0) eqn:E; [split; unfold Qle; cbn; lia|].
  apply qdiv_pos_le1; lia.
Qed.
Lemma iou_range a : (0 <= iou_exact (n_inter a) (n_union a) <= 1)%Q.
Proof.
  unfold iou_exact. pose proof (union_inter a). pose proof (n_inter_le_ref a).
  pose proof (n_inter_le_pred a). pose proof (n_inter_nonneg a). pose proof (n_union_nonneg a).
  pose proof (n_ref_nonneg a). pose proof (n_pred_nonneg a).
  destruct (n_union a =? 0) eqn:E; [split; unfold Qle; cbn; lia|].
  apply qdiv_pos_le1; lia.
Qed.

(* identical non-empty masks: X = Y as voxel sets, X non-empty *)
Definition same_masks (a : arr2) : Prop := forall v, In v a -> nz (fst v) = nz (snd v).
Definition nonempty_masks (a : arr2) : Prop := exists v, In v a /\ (nz (fst v) || nz (snd v)) = true.

Lemma same_masks_counts a : same_masks a <-> n_inter a = n_union a.
Proof.
  unfold same_masks, n_inter, n_union. induction a as [|v a IH]; cbn [cntZ].
  - split; [reflexivity|intros _ w []].
  - assert (Hle : cntZ (fun v => nz (fst v) && nz (snd v)) a <= cntZ (fun v => nz (fst v) || nz (snd v)) a).
    { clear. induction a as [|w a IH]; cbn [cntZ]; [lia|].
      destruct (nz (fst w)), (nz (snd w)); cbn [b2z andb orb]; lia. }
    split.
    + intros H. rewrite (proj1 IH); [|intros w Hw; apply H; now right].
      rewrite (H v (or_introl eq_refl)). destruct (nz (snd v)); reflexivity.
    + intros H w [<-|Hw].
      * destruct (nz (fst v)), (nz (snd v)); cbn [b2z andb orb] in H; try reflexivity; lia.
      * apply IH; [|exact Hw]. destruct (nz (fst v)), (nz (snd v)); cbn [b2z andb orb] in H; lia.
Qed.

Lemma nonempty_counts a : nonempty_masks a <-> 0 < n_union a.
Proof.
  unfold nonempty_masks. pose proof (n_union_nonneg a) as Hn. split.
  - intros [v [Hv Hnz]]. destruct (Z.eq_dec (n_union a) 0) as [E|E]; [|lia].
    unfold n_union in E. rewrite cntZ_zero_iff in E. rewrite (E v Hv) in Hnz. discriminate.
  - intros Hpos. destruct (existsb (fun v => nz (fst v) || nz (snd v)) a) eqn:Ex.
    + apply existsb_exists in Ex. exact Ex.
    + exfalso. assert (n_union a = 0); [|lia]. unfold n_union. apply cntZ_zero_iff.
      intros v Hv. destruct (nz (fst v) || nz (snd v)) eqn:E; [|reflexivity].
      rewrite <- Ex. symmetry. apply existsb_exists. exists v. split; assumption.
Qed.

Lemma iou_one_iff a :
  (iou_exact (n_inter a) (n_union a) == 1)%Q <-> (same_masks a /\ nonempty_masks a).
Proof.
  rewrite same_masks_counts, nonempty_counts. unfold iou_exact.
  pose proof (n_union_nonneg a).
  destruct (n_union a =? 0) eqn:E.
  - split; [intros HQ; unfold Qeq in HQ; cbn in HQ; lia|lia].
  - rewrite qdiv_eq_1 by lia. lia.
Qed.

Lemma dice_one_iff a : binary a ->
  (dice_exact (sum_ref a) (sum_pred a) (n_inter a) == 1)%Q <-> (same_masks a /\ nonempty_masks a).
Proof.
  intros Hb. rewrite (dice_exact_binary a Hb), same_masks_counts, nonempty_counts.
  pose proof (union_inter a). pose proof (n_inter_le_ref a). pose proof (n_inter_le_pred a).
  pose proof (n_inter_nonneg a). pose proof (n_union_nonneg a).
  destruct (n_ref a + n_pred a =? 0) eqn:E.
  - split; [intros HQ; unfold Qeq in HQ; cbn in HQ; lia|lia].
  - rewrite qdiv_eq_1 by lia. lia.
Qed.

Lemma rvd_exact_spec sr sp : sr <> 0 -> rvd_exact sr sp = Ok (qdiv (sp - sr) sr).
Proof.
  intros H. unfold rvd_exact. destruct (sr =? 0) eqn:E; [lia|]. cbn [andb]. reflexivity.
Qed.
