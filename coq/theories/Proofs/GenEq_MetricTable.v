(* T1 tie: the functions translated from metrics/metrics.py equal the model's. *)
From Pan Require Import Base.Common Model.MetricTable Gen.MetricTable.
Lemma geneq_beats_Metric decr s t : gen_beats_Metric decr s t = beats decr s t.
Proof. unfold gen_beats_Metric, beats. destruct decr, (Qle_bool s t), (Qle_bool t s); reflexivity. Qed.
Lemma geneq_beats__Metric decr s t : gen_beats__Metric decr s t = beats decr s t.
Proof. unfold gen_beats__Metric, beats. destruct decr, (Qle_bool s t), (Qle_bool t s); reflexivity. Qed.
Lemma geneq_decreasing m : gen_decreasing m = decreasing m.
Proof. destruct m; reflexivity. Qed.
Lemma geneq_metric_function :
  forallb (fun m => existsb (fun p => metric_eqb (fst p) m
        && (fix eqb (a b : list Z) := match a, b with [], [] => true | x :: a', y :: b' => (x =? y) && eqb a' b' | _, _ => false end)
             (snd p) (metric_function_name m)) gen_metric_function) all_metrics = true.
Proof. vm_compute. reflexivity. Qed.
