(* T1 tie for the crops: whatever the bounding-box arithmetic of _get_bbox_nd looks like syntactically, the
   slice [start, stop) it produces contains every index between the first and the last non-zero index of
   the axis and starts inside the array -- so cropping never removes a foreground voxel, which is what makes
   "crop = identity on the voxel list" (Model.Pipeline, Props/C10, C07_crop_invariant) applicable.
   Proved about the GENERATED functions for all lo <= hi < shape at the padding the code actually passes. *)
From Pan Require Import Base.Common Gen.Crop.
Open Scope Z_scope.
Lemma geneq_crop_contains_support lo hi shape :
  0 <= lo -> lo <= hi -> hi < shape ->
  0 <= gen_crop_start lo hi gen_px_pad shape <= lo /\ hi < gen_crop_stop lo hi gen_px_pad shape.
Proof. unfold gen_crop_start, gen_crop_stop, gen_px_pad. lia. Qed.
Lemma geneq_same_crop : gen_same_crop_for_both_arrays = true. Proof. reflexivity. Qed.
