(* Lemma library for Model/Tsv.v: the '-' split inverts the join, first-appearance lists, and the
   loader's row loop on a table of the written shape. *)
From Pan Require Import Base.Common Base.Sx Model.Stats Model.Tsv Proofs.StatsFacts Proofs.StatsC20.
Open Scope Z_scope.

(* ---------------------------------------------------------------- rsplit inverts join *)
Lemma rsplit_none sep c : ~ In sep c -> rsplit sep c = None.
Proof.
  induction c as [|x t IH]; intros H; cbn; [reflexivity|].
  rewrite IH by (intros Hin; apply H; right; exact Hin).
  destruct (Z.eqb_spec x sep) as [->|]; [exfalso; apply H; left; reflexivity|reflexivity].
Qed.
Lemma rsplit_join sep g m : ~ In sep m -> rsplit sep (g ++ sep :: m) = Some (g, m).
Proof.
  intros H. induction g as [|x g IH]; cbn.
  - rewrite (rsplit_none sep m H), Z.eqb_refl. reflexivity.
  - rewrite IH. reflexivity.
Qed.
Lemma rsplit_some sep c : forall a b, rsplit sep c = Some (a, b) -> c = a ++ sep :: b /\ ~ In sep b.
Proof.
  induction c as [|x t IH]; intros a b H; cbn in H; [discriminate|].
  destruct (rsplit sep t) as [[a' b']|] eqn:E.
  - injection H as <- <-. destruct (IH a' b' eq_refl) as [-> Hn]. split; [reflexivity|exact Hn].
  - destruct (Z.eqb_spec x sep) as [->|]; [|discriminate]. injection H as <- <-.
    split; [reflexivity|]. intros Hin.
    assert (X : forall c, In sep c -> rsplit sep c <> None).
    { clear. induction c as [|y c IHc]; intros Hin; [destruct Hin|]. cbn.
      destruct (rsplit sep c) as [[? ?]|] eqn:E; [discriminate|].
      destruct Hin as [->|Hin]; [rewrite Z.eqb_refl; discriminate|]. exfalso. exact (IHc Hin eq_refl). }
    exact (X t Hin E).
Qed.
Lemma rsplit_none_iff sep c : rsplit sep c = None <-> ~ In sep c.
Proof.
  split; [|apply rsplit_none]. intros H Hin.
  induction c as [|y c IHc]; [destruct Hin|]. cbn in H.
  destruct (rsplit sep c) as [[? ?]|] eqn:E; [discriminate|].
  destruct Hin as [->|Hin]; [rewrite Z.eqb_refl in H; discriminate|]. exact (IHc eq_refl Hin).
Qed.

Lemma join_inj g1 m1 g2 m2 : ~ In DASH m1 -> ~ In DASH m2 -> join g1 m1 = join g2 m2 -> g1 = g2 /\ m1 = m2.
Proof.
  intros H1 H2 E. pose proof (rsplit_join DASH g1 m1 H1) as R1. pose proof (rsplit_join DASH g2 m2 H2) as R2.
  unfold join in E. rewrite E in R1. rewrite R1 in R2. injection R2 as -> ->. split; reflexivity.
Qed.
Lemma split_cell_join g m : ~ In DASH m -> split_cell (join g m) = Ok (g, m).
Proof. intros H. unfold split_cell, header_split, split_by, join. cbn [fst snd]. rewrite (rsplit_join DASH g m H). reflexivity. Qed.
(* a header cell without '-' makes the loader fail; otherwise the metric part is what follows the last '-' *)
Lemma split_cell_spec c :
  match split_cell c with
  | Ok (g, m) => c = join g m /\ ~ In DASH m
  | Err e => e = E_INDEX /\ ~ In DASH c
  end.
Proof.
  unfold split_cell, header_split, split_by. cbn [fst snd].
  destruct (rsplit DASH c) as [[a b]|] eqn:E; cbn.
  - apply rsplit_some in E. exact E.
  - split; [reflexivity|apply rsplit_none_iff; exact E].
Qed.

(* ---------------------------------------------------------------- side conditions *)
Lemma nodupb_NoDup l : nodupb l = true <-> NoDup l.
Proof.
  induction l as [|x t IH]; cbn; [split; [constructor|reflexivity]|].
  rewrite andb_true_iff, negb_true_iff, memn_false, IH. split.
  - intros [A B]. constructor; assumption.
  - intros H. inversion H; subst. split; assumption.
Qed.
Lemma keys_ok_spec keys : keys_ok keys = true <-> (forall k, In k keys -> ~ In DASH k) /\ NoDup keys.
Proof.
  unfold keys_ok. rewrite andb_true_iff, nodupb_NoDup, forallb_forall. split; intros [A B]; (split; [|exact B]).
  - intros k Hk Hin. specialize (A k Hk). rewrite negb_true_iff in A.
    assert (X : existsb (Z.eqb DASH) k = true) by (apply existsb_exists; exists DASH; split; [exact Hin|apply Z.eqb_refl]).
    congruence.
  - intros k Hk. rewrite negb_true_iff. destruct (existsb (Z.eqb DASH) k) eqn:E; [|reflexivity].
    apply existsb_exists in E. destruct E as [y [Hy Ey]]. apply Z.eqb_eq in Ey. subst y. exfalso. exact (A k Hk Hy).
Qed.

(* ---------------------------------------------------------------- pairs *)
Lemma in_pairs G K g m : In (g, m) (pairs G K) <-> In g G /\ In m K.
Proof.
  unfold pairs. rewrite in_flat_map. split.
  - intros [g' [Hg' Hin]]. apply in_map_iff in Hin. destruct Hin as [m' [[= -> ->] Hm']]. split; assumption.
  - intros [Hg Hm]. exists g. split; [exact Hg|]. apply in_map. exact Hm.
Qed.
Lemma NoDup_app_intro {A} (a b : list A) : NoDup a -> NoDup b -> (forall x, In x a -> ~ In x b) -> NoDup (a ++ b).
Proof.
  induction a as [|x a IH]; intros Ha Hb Hd; cbn; [exact Hb|].
  inversion Ha; subst. constructor.
  - rewrite in_app_iff. intros [H|H]; [contradiction|]. exact (Hd x (or_introl eq_refl) H).
  - apply IH; [assumption|assumption|]. intros y Hy. apply Hd. right; exact Hy.
Qed.
Lemma NoDup_pairs G K : NoDup G -> NoDup K -> NoDup (pairs G K).
Proof.
  intros HG HK. induction G as [|g G IH]; cbn; [constructor|]. inversion HG; subst.
  apply NoDup_app_intro.
  - clear -HK. induction K as [|m K IHK]; cbn; [constructor|]. inversion HK; subst. constructor.
    + intros Hin. apply in_map_iff in Hin. destruct Hin as [m' [[= ->] Hm']]. contradiction.
    + apply IHK. assumption.
  - apply IH. assumption.
  - intros [g' m'] Hin Hin2. apply in_map_iff in Hin. destruct Hin as [m0 [[= <- <-] _]].
    apply (in_pairs G K g m0) in Hin2. destruct Hin2 as [Hg _]. contradiction.
Qed.
Lemma map_flat_map {A B C} (f : B -> C) (h : A -> list B) l :
  map f (flat_map h l) = flat_map (fun x => map f (h x)) l.
Proof. induction l as [|x l IH]; cbn; [reflexivity|]. rewrite map_app, IH. reflexivity. Qed.

(* ---------------------------------------------------------------- first-appearance lists *)
Lemma nub_first_app {A} (key : A -> name) a : forall seen b,
  NoDup (map key a) -> (forall x, In x a -> ~ In (key x) seen) ->
  nub_first key seen (a ++ b) = a ++ nub_first key (rev (map key a) ++ seen) b.
Proof.
  induction a as [|x a IH]; intros seen b ND Hd; cbn; [reflexivity|].
  cbn in ND. inversion ND as [|? ? Hx ND']; subst.
  assert (E : memn (key x) seen = false) by (apply memn_false; apply Hd; left; reflexivity).
  rewrite E. f_equal. rewrite IH.
  - rewrite <- app_assoc. reflexivity.
  - exact ND'.
  - intros y Hy [Hin|Hin].
    + apply Hx. rewrite Hin. apply in_map. exact Hy.
    + apply (Hd y (or_intror Hy) Hin).
Qed.
Lemma nub_first_seen {A} (key : A -> name) seen b :
  (forall x, In x b -> In (key x) seen) -> nub_first key seen b = [].
Proof.
  induction b as [|x b IH]; intros H; cbn; [reflexivity|].
  assert (E : memn (key x) seen = true) by (apply memn_In; apply H; left; reflexivity).
  rewrite E. apply IH. intros y Hy. apply H. right; exact Hy.
Qed.
Lemma nub_first_nodup {A} (key : A -> name) l : NoDup (map key l) -> nub_first key [] l = l.
Proof.
  intros ND. rewrite <- (app_nil_r l) at 1. rewrite nub_first_app; [cbn; apply app_nil_r|exact ND|].
  intros x _ [].
Qed.
Lemma nub_first_NoDup {A} (key : A -> name) l : forall seen,
  NoDup (map key (nub_first key seen l)) /\ forall x, In x (nub_first key seen l) -> ~ In (key x) seen.
Proof.
  induction l as [|x l IH]; intros seen; cbn; [split; [constructor|intros ? []]|].
  destruct (memn (key x) seen) eqn:E; [apply IH|].
  destruct (IH (key x :: seen)) as [ND Hd]. split.
  - cbn. constructor; [|exact ND]. intros Hin. apply in_map_iff in Hin. destruct Hin as [y [Ey Hy]].
    apply (Hd y Hy). left. symmetry. exact Ey.
  - intros y [<-|Hy]; [apply memn_false; exact E|]. intros Hin. apply (Hd y Hy). right. exact Hin.
Qed.
Lemma nub_first_In {A} (key : A -> name) l : forall seen x,
  In x l -> ~ In (key x) seen -> exists y, In y (nub_first key seen l) /\ key y = key x.
Proof.
  induction l as [|a l IH]; intros seen x Hin Hs; [destruct Hin|]. cbn.
  destruct (memn (key a) seen) eqn:E.
  - destruct Hin as [->|Hin]; [apply memn_In in E; contradiction|]. apply IH; assumption.
  - destruct Hin as [->|Hin]; [exists x; split; [left; reflexivity|reflexivity]|].
    destruct (name_eq_dec (key a) (key x)) as [Ek|Ek].
    + exists a. split; [left; reflexivity|exact Ek].
    + destruct (IH (key a :: seen) x Hin) as [y [Hy Ey]]; [intros [H|H]; contradiction|].
      exists y. split; [right; exact Hy|exact Ey].
Qed.

(* the loader's metric list for the written header is the key list *)
Lemma metric_names_written G K : G <> [] -> NoDup K ->
  nub_first (fun x => x) [] (map snd (pairs G K)) = K.
Proof.
  intros HG HK. destruct G as [|g G]; [congruence|]. cbn. rewrite map_app.
  assert (E : map snd (map (pair g) K) = K) by (rewrite map_map; cbn; apply map_id). rewrite E.
  rewrite nub_first_app; [|rewrite map_id; exact HK|intros x _ []].
  rewrite nub_first_seen; [apply app_nil_r|].
  intros x Hx. rewrite map_id, app_nil_r. apply in_rev. rewrite rev_involutive.
  apply in_map_iff in Hx. destruct Hx as [[g' m'] [<- Hp]]. apply in_pairs in Hp. apply Hp.
Qed.

(* ---------------------------------------------------------------- the value dictionary *)
Definition eshape (F : name -> name -> col) (G K : list name) : vdict :=
  map (fun g => (g, map (fun m => (m, F g m)) K)) G.
Lemma eshape_ext_in F F' G K : (forall g m, In g G -> In m K -> F g m = F' g m) -> eshape F G K = eshape F' G K.
Proof.
  intros H. unfold eshape. apply map_ext_in. intros g Hg. f_equal. apply map_ext_in. intros m Hm.
  rewrite (H g m Hg Hm). reflexivity.
Qed.
Lemma of_rows_eshape G K rows : st_vd (of_rows G K rows) = eshape (column rows) G K.
Proof. reflexivity. Qed.

Lemma upd_map {B} (h : name -> B) k f L :
  upd k f (map (fun x => (x, h x)) L) = map (fun x => (x, if name_eqb x k then f (h x) else h x)) L.
Proof. unfold upd. rewrite map_map. apply map_ext. intros x. cbn. destruct (name_eqb x k); reflexivity. Qed.
Lemma has_key_map {B} (h : name -> B) k L : has_key k (map (fun x => (x, h x)) L) = memn k L.
Proof.
  unfold has_key, memn. induction L as [|x L IH]; cbn; [reflexivity|]. rewrite IH, (name_eqb_sym x k). reflexivity.
Qed.

Definition entry := ((name * name) * option Q)%type.
Definition put_e (K : list name) (vd : vdict) (e : entry) : vdict :=
  put K (fst (fst e)) (snd (fst e)) (snd e) vd.
Definition key_eqb (a b : name * name) : bool := name_eqb (fst a) (fst b) && name_eqb (snd a) (snd b).
Lemma key_eqb_eq a b : key_eqb a b = true <-> a = b.
Proof.
  destruct a as [a1 a2], b as [b1 b2]. unfold key_eqb. cbn. rewrite andb_true_iff, !name_eqb_eq.
  split; [intros [-> ->]; reflexivity|intros [= -> ->]; auto].
Qed.
Definition step_G (Gc : list name) (g : name) : list name := if memn g Gc then Gc else Gc ++ [g].
Definition GL (Gc : list name) (L : list entry) : list name :=
  fold_left (fun Gc e => step_G Gc (fst (fst e))) L Gc.
Definition hits (L : list entry) (g m : name) : col :=
  map snd (filter (fun e => key_eqb (fst e) (g, m)) L).
Definition FL (F : name -> name -> col) (Gc : list name) (L : list entry) (g m : name) : col :=
  (if memn g Gc then F g m else []) ++ hits L g m.

Lemma memn_app x a b : memn x (a ++ b) = memn x a || memn x b.
Proof. unfold memn. apply existsb_app. Qed.

Lemma put_eshape K F Gc g m v :
  put K g m v (eshape F Gc K) = eshape (FL F Gc [((g, m), v)]) (step_G Gc g) K.
Proof.
  unfold put, ensure_group, step_G. unfold eshape at 1 2. rewrite has_key_map.
  destruct (memn g Gc) eqn:Hg.
  - rewrite upd_map. unfold eshape. apply map_ext_in. intros g' Hg'. f_equal.
    assert (Mg : memn g' Gc = true) by (apply memn_In; exact Hg').
    destruct (name_eqb g' g) eqn:E.
    + rewrite upd_map. apply map_ext. intros m'. f_equal. unfold FL, hits. cbn. rewrite Mg.
      unfold key_eqb. cbn. rewrite (name_eqb_sym g g'), E, (name_eqb_sym m m'). cbn.
      destruct (name_eqb m' m); cbn; [reflexivity|rewrite app_nil_r; reflexivity].
    + apply map_ext. intros m'. f_equal. unfold FL, hits. cbn. rewrite Mg.
      unfold key_eqb. cbn. rewrite (name_eqb_sym g g'), E. cbn. rewrite app_nil_r. reflexivity.
  - unfold eshape. rewrite map_app. unfold upd at 1. rewrite map_app. f_equal.
    + rewrite map_map. apply map_ext_in. intros g' Hg'. cbn.
      assert (Mg : memn g' Gc = true) by (apply memn_In; exact Hg').
      assert (E : name_eqb g' g = false).
      { apply name_eqb_neq. intros ->. congruence. }
      rewrite E. f_equal. apply map_ext. intros m'. f_equal. unfold FL, hits. cbn. rewrite Mg.
      unfold key_eqb. cbn. rewrite (name_eqb_sym g g'), E. cbn. rewrite app_nil_r. reflexivity.
    + cbn. rewrite name_eqb_refl. f_equal. f_equal.
      rewrite map_map. apply map_ext. intros m'. cbn.
      unfold FL, hits. cbn. rewrite Hg. unfold key_eqb. cbn. rewrite name_eqb_refl, (name_eqb_sym m m'). cbn.
      destruct (name_eqb m' m); reflexivity.
Qed.

Lemma memn_step_G x Gc g : memn x (step_G Gc g) = memn x Gc || name_eqb x g.
Proof.
  unfold step_G. destruct (memn g Gc) eqn:Hg.
  - destruct (name_eqb x g) eqn:E; [|rewrite orb_false_r; reflexivity].
    apply name_eqb_eq in E. subst. rewrite Hg. reflexivity.
  - rewrite memn_app. cbn. rewrite orb_false_r. reflexivity.
Qed.

Lemma fold_put K : forall L F Gc,
  fold_left (put_e K) L (eshape F Gc K) = eshape (FL F Gc L) (GL Gc L) K.
Proof.
  induction L as [|e L IH]; intros F Gc; cbn [fold_left].
  - unfold GL. cbn. apply eshape_ext_in. intros g m Hg _. unfold FL, hits. cbn.
    apply memn_In in Hg. rewrite Hg, app_nil_r. reflexivity.
  - destruct e as [[g m] v]. unfold put_e at 2. cbn [fst snd]. rewrite put_eshape, IH.
    unfold GL. cbn [fold_left fst]. fold (GL (step_G Gc g) L).
    apply eshape_ext_in. intros g' m' _ _. unfold FL. rewrite memn_step_G. unfold hits. cbn [filter fst].
    unfold key_eqb at 1 3. cbn [fst snd]. rewrite (name_eqb_sym g' g).
    destruct (memn g' Gc) eqn:Mg; cbn [orb].
    + destruct (name_eqb g g' && name_eqb m m'); cbn; rewrite <- ?app_assoc; cbn; rewrite ?app_nil_r; reflexivity.
    + destruct (name_eqb g g'); cbn; [|reflexivity].
      destruct (name_eqb m m'); cbn; reflexivity.
Qed.

(* ---------------------------------------------------------------- groups met while reading one row *)
Lemma GL_app Gc L1 L2 : GL Gc (L1 ++ L2) = GL (GL Gc L1) L2.
Proof. unfold GL. apply fold_left_app. Qed.
Lemma GL_block (val : name * name -> option Q) g K Gc : K <> [] ->
  GL Gc (map (fun m => ((g, m), val (g, m))) K) = step_G Gc g.
Proof.
  intros HK. destruct K as [|m K]; [congruence|]. unfold GL. cbn [map fold_left fst].
  assert (X : forall L G0, memn g G0 = true ->
            fold_left (fun Gc0 (e : entry) => step_G Gc0 (fst (fst e))) (map (fun m0 => ((g, m0), val (g, m0))) L) G0 = G0).
  { induction L as [|a L IHL]; intros G0 H0; cbn; [reflexivity|]. unfold step_G at 2. rewrite H0. apply IHL. exact H0. }
  apply X. rewrite memn_step_G, name_eqb_refl. apply orb_true_r.
Qed.
Definition entries (val : name * name -> option Q) (G K : list name) : list entry :=
  map (fun p => (p, val p)) (pairs G K).
Lemma entries_cons val g G K :
  entries val (g :: G) K = map (fun m => ((g, m), val (g, m))) K ++ entries val G K.
Proof. unfold entries, pairs. cbn. rewrite map_app, map_map. reflexivity. Qed.
Lemma GL_entries_new val K : K <> [] -> forall G2 G1, NoDup (G1 ++ G2) ->
  GL G1 (entries val G2 K) = G1 ++ G2.
Proof.
  intros HK. induction G2 as [|g G2 IH]; intros G1 ND.
  - unfold entries, GL. cbn. rewrite app_nil_r. reflexivity.
  - rewrite entries_cons, GL_app, (GL_block val g K G1 HK). unfold step_G.
    assert (E : memn g G1 = false).
    { apply memn_false. intros Hin. apply NoDup_remove_2 in ND. apply ND. apply in_or_app. left. exact Hin. }
    rewrite E, IH; rewrite <- app_assoc; [reflexivity|exact ND].
Qed.
Lemma GL_entries_old val K G : K <> [] -> forall G2, (forall g, In g G2 -> In g G) ->
  GL G (entries val G2 K) = G.
Proof.
  intros HK. induction G2 as [|g G2 IH]; intros Hsub.
  - reflexivity.
  - rewrite entries_cons, GL_app, (GL_block val g K G HK). unfold step_G.
    assert (E : memn g G = true) by (apply memn_In; apply Hsub; left; reflexivity).
    rewrite E. apply IH. intros g' Hg'. apply Hsub. right; exact Hg'.
Qed.

Lemma filter_unique (P : list (name * name)) p : NoDup P -> In p P ->
  filter (fun q => key_eqb q p) P = [p].
Proof.
  induction P as [|q P IH]; intros ND Hin; [destruct Hin|]. inversion ND; subst. cbn.
  destruct (key_eqb q p) eqn:E.
  - apply key_eqb_eq in E. subst q. f_equal.
    clear -H1. induction P as [|r P IHP]; cbn; [reflexivity|].
    destruct (key_eqb r p) eqn:E; [apply key_eqb_eq in E; subst; exfalso; apply H1; left; reflexivity|].
    apply IHP. intros Hin. apply H1. right; exact Hin.
  - destruct Hin as [->|Hin]; [|apply IH; assumption].
    assert (X : key_eqb p p = true) by (apply key_eqb_eq; reflexivity). congruence.
Qed.
Lemma hits_entries val G K g m : NoDup (pairs G K) -> In (g, m) (pairs G K) ->
  hits (entries val G K) g m = [val (g, m)].
Proof.
  intros ND Hin. unfold hits, entries.
  assert (X : forall P, filter (fun e : entry => key_eqb (fst e) (g, m)) (map (fun p => (p, val p)) P)
                        = map (fun p => (p, val p)) (filter (fun q => key_eqb q (g, m)) P)).
  { induction P as [|q P IHP]; cbn; [reflexivity|]. destruct (key_eqb q (g, m)); cbn; rewrite IHP; reflexivity. }
  rewrite X, (filter_unique _ _ ND Hin). reflexivity.
Qed.

(* ---------------------------------------------------------------- the loader on a written table *)
Section Written.
  Variable print : fval -> name.
  Variable parse : name -> option fval.
  (* ASSUMED (validated by the harness, not proved): csv.writer emits '' for None; the text of any other
     value is non-empty and float() of it gives the value back (repr/float round trip; nan, inf, -inf) *)
  Hypothesis print_none : print FNone = [].
  Hypothesis print_nonempty : forall v, v <> FNone -> print v <> [].
  Hypothesis parse_print : forall v, v <> FNone -> parse (print v) = Some v.

  Lemma cell_value_cell_of d k : cell_value parse (cell_of print d k) = Ok (value_of d k).
  Proof.
    unfold cell_of, value_of. destruct (alookup k d) as [v|]; [|reflexivity].
    destruct v; try (unfold cell_value;
      match goal with |- context[print ?v] =>
        let E := fresh in let N := fresh in
        assert (N : v <> FNone) by discriminate;
        destruct (print v) eqn:E; [exfalso; exact (print_nonempty v N E)|];
        rewrite <- E, (parse_print v N); reflexivity end).
    rewrite print_none. reflexivity.
  Qed.

  Variables (G K : list name).
  Hypothesis G_nodup : NoDup G.
  Hypothesis K_nodup : NoDup K.
  Hypothesis G_nonempty : G <> [].
  Hypothesis K_nonempty : K <> [].

  Definition val_of (sr : subject) (p : name * name) : option Q := value_of (snd sr (fst p)) (snd p).
  Definition colF (S : list subject) (g m : name) : col := map (fun sr => value_of (snd sr g) m) S.

  Lemma row_cells_written (sr : subject) : forall P vd,
    row_cells parse K P (map (fun p => cell_of print (snd sr (fst p)) (snd p)) P) vd
    = Ok (fold_left (put_e K) (map (fun p => (p, val_of sr p)) P) vd).
  Proof.
    induction P as [|[g m] P IH]; intros vd; cbn [map row_cells fold_left]; [reflexivity|].
    cbn [fst snd]. rewrite cell_value_cell_of, IH. reflexivity.
  Qed.

  Definition Gcur (S : list subject) : list name := match S with [] => [] | _ => G end.

  Lemma one_row S sr :
    fold_left (put_e K) (entries (val_of sr) G K) (eshape (colF S) (Gcur S) K)
    = eshape (colF (S ++ [sr])) G K.
  Proof.
    rewrite fold_put.
    assert (EG : GL (Gcur S) (entries (val_of sr) G K) = G).
    { destruct S; cbn [Gcur].
      - apply (GL_entries_new (val_of sr) K K_nonempty G []). exact G_nodup.
      - apply GL_entries_old; [exact K_nonempty|auto]. }
    rewrite EG. apply eshape_ext_in. intros g m Hg Hm. unfold FL.
    rewrite hits_entries; [|apply NoDup_pairs; assumption|apply in_pairs; split; assumption].
    unfold colF. rewrite map_app. cbn. f_equal.
    destruct S; cbn [Gcur]; [reflexivity|]. apply memn_In in Hg. rewrite Hg. reflexivity.
  Qed.

  Lemma rows_loop_written : forall subs S names,
    rows_loop parse K (pairs G K) (map (row print G K) subs) names (eshape (colF S) (Gcur S) K)
    = Ok (names ++ map fst subs, eshape (colF (S ++ subs)) (Gcur (S ++ subs)) K).
  Proof.
    induction subs as [|sr subs IH]; intros S names; cbn [map rows_loop].
    - rewrite !app_nil_r. reflexivity.
    - unfold row at 1. rewrite row_cells_written. fold (entries (val_of sr) G K). rewrite one_row.
      assert (E : G = Gcur (S ++ [sr])) by (destruct S; reflexivity).
      replace (eshape (colF (S ++ [sr])) G K) with (eshape (colF (S ++ [sr])) (Gcur (S ++ [sr])) K) by (rewrite <- E; reflexivity).
      rewrite IH. rewrite <- !app_assoc. reflexivity.
  Qed.

  Hypothesis K_ok : forall k, In k K -> ~ In DASH k.

  Lemma header_keys : mapR split_cell (map (fun p => join (fst p) (snd p)) (pairs G K)) = Ok (pairs G K).
  Proof.
    assert (X : forall P, (forall p, In p P -> In (snd p) K) ->
                mapR split_cell (map (fun p => join (fst p) (snd p)) P) = Ok P).
    { induction P as [|[g m] P IH]; intros H; cbn [map mapR fst snd]; [reflexivity|].
      rewrite split_cell_join by (apply K_ok; apply (H (g, m)); left; reflexivity).
      rewrite IH; [reflexivity|]. intros p Hp. apply H. right; exact Hp. }
    apply X. intros [g m] Hp. apply in_pairs in Hp. apply Hp.
  Qed.

  Lemma mk_stat_of_rows (rows : rowtab) : mk_stat (map fst rows) (eshape (column rows) G K) = Ok (of_rows G K rows).
  Proof.
    unfold mk_stat.
    assert (Hcell : forall g m, In g G -> In m K ->
              get {| st_subjects := map fst rows; st_vd := eshape (column rows) G K |} g m = Ok (column rows g m)).
    { intros g m Hg Hm. exact (Proofs.StatsC20.get_of_rows G K rows g m Hg Hm). }
    assert (Hm : metricnames {| st_subjects := map fst rows; st_vd := eshape (column rows) G K |} = K).
    { exact (Proofs.StatsC20.metricnames_of_rows G K rows G_nonempty). }
    assert (E : eshape (column rows) G K <> []) by (intros E; apply map_eq_nil in E; exact (G_nonempty E)).
    assert (F : forallb (fun ggd : name * gdict =>
       Nat.eqb (length K) (length (snd ggd)) &&
       forallb (fun m => match get {| st_subjects := map fst rows; st_vd := eshape (column rows) G K |} (fst ggd) m with
                         | Ok c => Nat.eqb (length c) (length (map fst rows)) | Err _ => false end) K)
       (eshape (column rows) G K) = true).
    { apply forallb_forall. intros [g gd] Hin. unfold eshape in Hin. apply in_map_iff in Hin.
      destruct Hin as [g' [[= <- <-] Hg']]. cbn [fst snd]. rewrite map_length, Nat.eqb_refl. cbn [andb].
      apply forallb_forall. intros m Hmk. rewrite (Hcell g' m Hg' Hmk). unfold column.
      rewrite !map_length. apply Nat.eqb_refl. }
    cbv zeta. destruct (eshape (column rows) G K) eqn:Es; [congruence|].
    rewrite Hm. match goal with |- (if ?b then _ else _) = _ => replace b with true by (symmetry; exact F) end. rewrite <- Es. reflexivity.
  Qed.

  Lemma colF_column subs : forall g m, colF subs g m = column (table_of subs) g m.
  Proof. intros g m. unfold colF, column, table_of. rewrite map_map. reflexivity. Qed.

  (* the file written for the subject sequence `subs` loads as the table of the recorded subjects *)
  Lemma load_write subs : subs <> [] ->
    load parse (write print G K subs) = Ok (of_rows G K (table_of (recorded subs))).
  Proof.
    intros Hs. unfold write, load, header. rewrite name_eqb_refl. cbn [negb].
    rewrite header_keys. rewrite (metric_names_written G K G_nonempty K_nodup).
    cbn [skipn row_skip].
    pose proof (rows_loop_written (recorded subs) [] []) as R. cbn [Gcur app] in R.
    change (eshape (colF []) [] K) with (@nil (name * gdict)) in R. rewrite R. clear R.
    assert (NE : recorded subs <> []).
    { unfold recorded. destruct subs as [|s subs]; [congruence|]. cbn. discriminate. }
    assert (E : Gcur (recorded subs) = G) by (destruct (recorded subs); [congruence|reflexivity]).
    rewrite E. cbn [app].
    rewrite (eshape_ext_in _ (column (table_of (recorded subs))) G K (fun g m _ _ => colF_column (recorded subs) g m)).
    assert (N : map fst (recorded subs) = map fst (table_of (recorded subs))).
    { unfold table_of. rewrite map_map. reflexivity. }
    rewrite N. apply mk_stat_of_rows.
  Qed.

  (* header-only file: the loader raises (observation O1) *)
  Lemma load_header_only : load parse (write print G K []) = Err E_INDEX.
  Proof.
    unfold write, load, header. rewrite name_eqb_refl. cbn [negb]. rewrite header_keys. reflexivity.
  Qed.
End Written.

Lemma recorded_nodup (subs : list subject) : NoDup (map fst subs) -> recorded subs = subs.
Proof. apply nub_first_nodup. Qed.

Lemma toy_codec_ok :
  toy_print FNone = [] /\ (forall v, v <> FNone -> toy_print v <> []) /\
  (forall v, v <> FNone -> toy_parse (toy_print v) = Some v).
Proof.
  split; [reflexivity|]. split.
  - intros v H. destruct v; cbn; congruence.
  - intros v H. destruct v as [[n d]| | | |]; try reflexivity; congruence.
Qed.

(* lower-casing + dict insertion: the resulting group names are distinct and cover every given name *)
Lemma class_group_names_spec lower given :
  NoDup (class_group_names lower given) /\
  (forall g, In g given -> In (lower g) (class_group_names lower given)) /\
  (forall x, In x (class_group_names lower given) -> exists g, In g given /\ x = lower g).
Proof.
  unfold class_group_names. split; [|split].
  - pose proof (nub_first_NoDup (fun x : name => x) (map lower given) []) as [ND _].
    rewrite map_id in ND. exact ND.
  - intros g Hg. destruct (nub_first_In (fun x : name => x) (map lower given) [] (lower g)) as [y [Hy Ey]].
    + apply in_map. exact Hg.
    + intros [].
    + cbn in Ey. subst y. exact Hy.
  - intros x Hx.
    assert (X : forall l seen y, In y (nub_first (fun x : name => x) seen l) -> In y l).
    { induction l as [|a l IH]; intros seen y Hy; cbn in Hy; [destruct Hy|].
      destruct (memn a seen); [right; exact (IH _ _ Hy)|]. destruct Hy as [<-|Hy]; [left; reflexivity|right; exact (IH _ _ Hy)]. }
    apply X in Hx. apply in_map_iff in Hx. destruct Hx as [g [<- Hg]]. exists g. split; [exact Hg|reflexivity].
Qed.

Lemma recorded_spec (subs : list subject) :
  NoDup (map fst (recorded subs)) /\
  (forall sr, In sr (recorded subs) -> In sr subs) /\
  (forall sr, In sr subs -> exists sr', In sr' (recorded subs) /\ fst sr' = fst sr).
Proof.
  unfold recorded. split; [apply (nub_first_NoDup fst subs [])|split].
  - assert (X : forall l seen (y : subject), In y (nub_first fst seen l) -> In y l).
    { induction l as [|a l IH]; intros seen y Hy; cbn in Hy; [destruct Hy|].
      destruct (memn (fst a) seen); [right; exact (IH _ _ Hy)|]. destruct Hy as [<-|Hy]; [left; reflexivity|right; exact (IH _ _ Hy)]. }
    intros sr. apply X.
  - intros sr Hsr. apply (nub_first_In fst subs [] sr Hsr). intros [].
Qed.

Lemma value_of_spec d m q : value_of d m = Some q <-> alookup m d = Some (FQ q).
Proof.
  unfold value_of. destruct (alookup m d) as [v|]; [|split; discriminate].
  destruct v; cbn; split; congruence.
Qed.
