(* T1 tie: the functions translated from instance_approximator.py / numpy_utils.py / _functionals.py
   equal the model's (Model/CCA.v).  The automation decides linear integer case splits, so harmless
   rewrites of the Python (`n_dim > 2`, `not n_dim < 3`, swapped branches with a negated test,
   `max_value <= 255`) still prove; a changed threshold, direction or member does not. *)
From Pan Require Import Base.Common Model.CCA Gen.Backend.
Open Scope Z_scope.

Ltac bool_to_prop :=
  repeat match goal with
         | H : (_ && _) = true |- _ => apply andb_true_iff in H; destruct H
         | H : (_ || _) = false |- _ => apply orb_false_iff in H; destruct H
         | H : negb _ = true |- _ => apply negb_true_iff in H
         | H : negb _ = false |- _ => apply negb_false_iff in H
         | H : (_ <=? _) = true |- _ => apply Z.leb_le in H
         | H : (_ <=? _) = false |- _ => apply Z.leb_gt in H
         | H : (_ <? _) = true |- _ => apply Z.ltb_lt in H
         | H : (_ <? _) = false |- _ => apply Z.ltb_ge in H
         | H : (_ =? _) = true |- _ => apply Z.eqb_eq in H
         | H : (_ =? _) = false |- _ => apply Z.eqb_neq in H
         end.
Ltac split_conds :=
  repeat match goal with
         | |- context[if ?c then _ else _] => destruct c eqn:?
         | |- context[?a <=? ?b] => destruct (a <=? b) eqn:?
         | |- context[?a <? ?b] => destruct (a <? b) eqn:?
         | |- context[?a =? ?b] => destruct (a =? b) eqn:?
         end.
Ltac decide_cases := split_conds; cbn; bool_to_prop; try reflexivity; try (exfalso; lia); try lia.

Lemma geneq_default_backend ndim : gen_default_backend ndim = default_backend ndim.
Proof. unfold gen_default_backend, default_backend. decide_cases. Qed.

Lemma geneq_negative_ok v : gen_negative_ok v = negative_ok v.
Proof. unfold gen_negative_ok, negative_ok. decide_cases. Qed.

Lemma geneq_smallest_fitting_uint v : gen_smallest_fitting_uint v = smallest_fitting_uint v.
Proof. unfold gen_smallest_fitting_uint, smallest_fitting_uint. decide_cases. Qed.

Lemma geneq_backend_call b : gen_backend_call b = backend_call b.
Proof. destruct b; vm_compute; reflexivity. Qed.
