(* Aggregator: the program counters of the model are derived from the instruction lists (which T1
   re-extracts from the source): flattening a program gives, in order, the file operations with the
   locks held around them, and these are exactly the (locks, instruction) of the file-operating
   program counters; the file effect of a step is the effect of the instruction at its counter. *)
From Pan Require Import Base.Common Model.Aggregator.

Fixpoint flat1 (ctx : list lockid) (i : instr) : list (list lockid * instr) :=
  match i with
  | IWith l body =>
      (fix go (b : list instr) := match b with [] => [] | x :: t => flat1 (ctx ++ [l]) x ++ go t end) body
  | IIf _ th el =>
      (fix go (b : list instr) := match b with [] => [] | x :: t => flat1 ctx x ++ go t end) th
      ++ (fix go (b : list instr) := match b with [] => [] | x :: t => flat1 ctx x ++ go t end) el
  | ISetContinue | IAssertHeader | IAtexit => []
  | x => [(ctx, x)]
  end.
Definition flat (p : list instr) : list (list lockid * instr) := flat_map (flat1 []) p.

Definition at_pc (p : pc) : list (list lockid * instr) :=
  match pc_instr p with Some i => [(pc_locks p, i)] | None => [] end.
Definition at_cpc (c : cpc) (out_absent buf_exists : bool) : list (list lockid * instr) :=
  match cpc_instr c out_absent buf_exists with Some i => [(cpc_locks c, i)] | None => [] end.

Lemma evaluate_pcs_from_program :
  flat prog_evaluate = flat_map at_pc [Start; HoldE; ReadE true; ReadE false; ClaimedE; Evaluating; WantF; HoldF; WroteF; Done false].
Proof. reflexivity. Qed.
Lemma stat_pcs_from_program : flat prog_stat = flat_map at_pc [RStart; RHold; RRead []; RDone []].
Proof. reflexivity. Qed.
Lemma ctor_pcs_from_program :
  flat prog_ctor = at_cpc C0 true false ++ at_cpc C0 false false ++ at_cpc CWriteH false false
                   ++ at_cpc CBuf false true ++ at_cpc CBufCreate false false ++ at_cpc CAcqE false false
                   ++ at_cpc CAcqF false false ++ at_cpc CLoad false false ++ at_cpc (CCopy []) false false
                   ++ at_cpc CRelF false false ++ at_cpc CRelE false false ++ at_cpc CDone false false.
Proof. reflexivity. Qed.

(* file effect of an instruction executed by call t *)
Definition instr_effect (i : instr) (t : call) (b : file name) (o : file line) : file name * file line :=
  match i with
  | IWrite FBuf WClaim => (fappend b [cn t], o)
  | IWrite FOut WRow => (b, fappend o [lrow (crow t)])
  | _ => (b, o)
  end.
Lemma lstep_effect xE xF b o others t b' o' t' :
  lstep xE xF b o others t = Some (b', o', t') ->
  (b', o') = match pc_instr (cp t) with Some i => instr_effect i t b o | None => (b, o) end.
Proof.
  unfold lstep. intros Hl.
  destruct (cp t) as [| |[|]| | | | | |sk| | |sn|sn];
    repeat match type of Hl with
           | (if ?c then _ else _) = _ => destruct c
           | match ?c with _ => _ end = _ => destruct c
           end; try discriminate; inversion Hl; subst; reflexivity.
Qed.
(* a step changes a lock only at the counters where the program enters / leaves a `with` block *)
Lemma lstep_locks xE xF b o others t b' o' t' :
  lstep xE xF b o others t = Some (b', o', t') ->
  pc_locks (cp t') = pc_locks (cp t)
  \/ (cp t = Start /\ pc_locks (cp t') = [LkE]) \/ (cp t = WantF /\ pc_locks (cp t') = [LkF])
  \/ (cp t = RStart /\ pc_locks (cp t') = [LkF])
  \/ pc_locks (cp t') = [].
Proof.
  unfold lstep. intros Hl.
  destruct (cp t) as [| |[|]| | | | | |sk| | |sn|sn] eqn:Hp;
    repeat match type of Hl with
           | (if ?c then _ else _) = _ => destruct c
           | match ?c with _ => _ end = _ => destruct c
           end; try discriminate; inversion Hl; subst; cbn; auto 6.
Qed.
