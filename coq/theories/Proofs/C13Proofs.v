(* C13: global binary metrics depend only on the two foregrounds. *)
From Pan Require Import Base.Common Base.Sx Model.MetricTable Model.EdgeCase Model.Result Model.Metrics
  Proofs.ResultFacts Proofs.MetricsFacts.
Open Scope Z_scope.

(* binarisation in the result constructor: arr[arr != 0] = 1 *)
Definition binarise (a : arr2) : arr2 := map (fun v => (b2z (nz (fst v)), b2z (nz (snd v)))) a.
Definition fg_ref_empty (a : arr2) : bool := sum_ref (binarise a) =? 0.
Definition fg_pred_empty (a : arr2) : bool := sum_pred (binarise a) =? 0.

Section Global.
  (* the metric applied to the two binarised arrays: any function of them (Dice/IoU/RVD of
     Model.Metrics, ASSD of Model.Assd, clDice with skimage's skeletons) *)
  Variable F : arr2 -> res fval.

  Definition global_value (h : handler) (m : metric) (a : arr2) : res fval :=
    global_bin h m (fg_pred_empty a) (fg_ref_empty a) (F (binarise a)).

  (* same foregrounds -> same value, whatever the instance labels *)
  Lemma global_value_foreground h m a a' :
    binarise a = binarise a' -> global_value h m a = global_value h m a'.
  Proof. intros E. unfold global_value, fg_pred_empty, fg_ref_empty. now rewrite E. Qed.

  Lemma binarise_relabel (f g : Z -> Z) a :
    (forall x, f x = 0 <-> x = 0) -> (forall x, g x = 0 <-> x = 0) ->
    binarise (map (fun v => (f (fst v), g (snd v))) a) = binarise a.
  Proof.
    intros Hf Hg. unfold binarise. rewrite map_map. apply map_ext. intros [r p]. cbn [fst snd].
    assert (Hn : forall k x, (k x = 0 <-> x = 0) -> nz (k x) = nz x).
    { intros k x Hk. unfold nz. destruct (Z.eqb_spec (k x) 0) as [E|E], (Z.eqb_spec x 0) as [E'|E']; try reflexivity.
      - apply Hk in E. contradiction. - apply Hk in E'. contradiction. }
    now rewrite (Hn f r (Hf r)), (Hn g p (Hg p)).
  Qed.

  Lemma global_value_relabel h m (f g : Z -> Z) a :
    (forall x, f x = 0 <-> x = 0) -> (forall x, g x = 0 <-> x = 0) ->
    global_value h m (map (fun v => (f (fst v), g (snd v))) a) = global_value h m a.
  Proof. intros Hf Hg. apply global_value_foreground. now apply binarise_relabel. Qed.

  Lemma global_value_empty h m mh a : lookup_m m (h_table h) = Some mh ->
    global_value h m a =
      match fg_pred_empty a, fg_ref_empty a with
      | true, true => Ok (ecr_value (e_noinst mh))
      | true, false => Ok (ecr_value (e_emptypred mh))
      | false, true => Ok (ecr_value (e_emptyref mh))
      | false, false => F (binarise a)
      end.
  Proof. intros Hl. unfold global_value. now rewrite (global_bin_spec h m mh _ _ _ Hl). Qed.
End Global.

(* emptiness flags really say "no foreground voxel" *)
Lemma fg_pred_empty_spec a : fg_pred_empty a = true <-> forall v, In v a -> snd v = 0.
Proof.
  unfold fg_pred_empty, sum_pred, binarise. rewrite map_map. cbn [snd]. rewrite Z.eqb_eq. split.
  - intros H v Hv. induction a as [|w a IH]; [destruct Hv|]. cbn [map sumZ] in H.
    assert (0 <= sumZ (map (fun x => b2z (nz (snd x))) a)).
    { clear. induction a as [|u a IH]; cbn [map sumZ]; [lia|]. destruct (nz (snd u)); cbn [b2z]; lia. }
    destruct Hv as [<-|Hv].
    + destruct (nz (snd w)) eqn:En; cbn [b2z] in H; [lia|]. unfold nz in En. apply negb_false_iff, Z.eqb_eq in En. exact En.
    + apply IH; [|exact Hv]. destruct (nz (snd w)); cbn [b2z] in H; lia.
  - intros H. induction a as [|w a IH]; [reflexivity|]. cbn [map sumZ].
    rewrite IH by (intros v Hv; apply H; now right). rewrite (H w (or_introl eq_refl)). reflexivity.
Qed.
Lemma fg_ref_empty_spec a : fg_ref_empty a = true <-> forall v, In v a -> fst v = 0.
Proof.
  unfold fg_ref_empty, sum_ref, binarise. rewrite map_map. cbn [fst]. rewrite Z.eqb_eq. split.
  - intros H v Hv. induction a as [|w a IH]; [destruct Hv|]. cbn [map sumZ] in H.
    assert (0 <= sumZ (map (fun x => b2z (nz (fst x))) a)).
    { clear. induction a as [|u a IH]; cbn [map sumZ]; [lia|]. destruct (nz (fst u)); cbn [b2z]; lia. }
    destruct Hv as [<-|Hv].
    + destruct (nz (fst w)) eqn:En; cbn [b2z] in H; [lia|]. unfold nz in En. apply negb_false_iff, Z.eqb_eq in En. exact En.
    + apply IH; [|exact Hv]. destruct (nz (fst w)); cbn [b2z] in H; lia.
  - intros H. induction a as [|w a IH]; [reflexivity|]. cbn [map sumZ].
    rewrite IH by (intros v Hv; apply H; now right). rewrite (H w (or_introl eq_refl)). reflexivity.
Qed.
