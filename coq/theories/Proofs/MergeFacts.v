(* C14: invariants of the merge matcher's loop, for every candidate list and every score function. *)
From Pan Require Import Base.Common Model.Matcher Model.Merge Proofs.Matching.
From Coq Require Import Permutation.
Open Scope Z_scope.

Section MergeProofs.
  Variable score : Type.
  Variable geb : score -> score -> bool.
  Notation ge a b := (geb a b = true).
  Hypothesis geb_refl : forall a, ge a a.
  Hypothesis geb_trans : forall a b c, ge a b -> ge b c -> ge a c.
  Variable score_eqb : score -> score -> bool.
  Variable beats : score -> bool.
  Hypothesis beats_up : forall a b, ge a b -> beats b = true -> beats a = true.
  Variable score_union : Z -> list Z -> score.
  Notation cand := (cand score).
  Notation mstate := (mstate score).
  Notation step := (merge_step geb score_eqb beats score_union).

  (* ---- list bookkeeping ---- *)
  Lemma NoDup_app_single {A} (l : list A) (x : A) : NoDup l -> ~ In x l -> NoDup (l ++ [x]).
  Proof.
    induction l as [|y l IH]; intros Hnd Hn; cbn; [constructor; [intros []|constructor]|].
    inversion Hnd as [|? ? Hy Hnd']; subst. constructor.
    - intros Hin. apply in_app_or in Hin as [Hin|[<-|[]]]; [contradiction|]. apply Hn. now left.
    - apply IH; [exact Hnd'|]. intros Hin. apply Hn. now right.
  Qed.
  Lemma has_pred_app p M e : has_pred p (M ++ [e]) = has_pred p M || (fst e =? p).
  Proof. unfold has_pred. rewrite existsb_app. cbn. now rewrite orb_false_r. Qed.
  Lemma has_ref_app r M e : has_ref r (M ++ [e]) = has_ref r M || (snd e =? r).
  Proof. unfold has_ref. rewrite existsb_app. cbn. now rewrite orb_false_r. Qed.
  Lemma preds_of_app r M p r' :
    preds_of r (M ++ [(p, r')]) = if r' =? r then preds_of r M ++ [p] else preds_of r M.
  Proof.
    unfold preds_of. rewrite filter_app, map_app. cbn [filter snd]. destruct (r' =? r); cbn; [reflexivity|now rewrite app_nil_r].
  Qed.
  Lemma has_pred_In p M : has_pred p M = true <-> exists r, In (p, r) M.
  Proof.
    unfold has_pred. rewrite existsb_exists. split.
    - intros ([p' r] & Hin & He). cbn in He. apply Z.eqb_eq in He. subst. eauto.
    - intros [r Hin]. exists (p, r). split; [exact Hin|apply Z.eqb_refl].
  Qed.
  Lemma has_ref_In r M : has_ref r M = true <-> exists p, In (p, r) M.
  Proof.
    unfold has_ref. rewrite existsb_exists. split.
    - intros ([p r'] & Hin & He). cbn in He. apply Z.eqb_eq in He. subst. eauto.
    - intros [p Hin]. exists (p, r). split; [exact Hin|apply Z.eqb_refl].
  Qed.
  Lemma lookup_app_new r r' s (l : list (Z * score)) :
    lookup_score r (l ++ [(r', s)]) =
      match lookup_score r l with Some v => Some v | None => if r' =? r then Some s else None end.
  Proof.
    induction l as [|[k v] l IH]; cbn [app lookup_score]; [reflexivity|]. destruct (k =? r); [reflexivity|exact IH].
  Qed.
  Lemma lookup_update r r' s (l : list (Z * score)) :
    lookup_score r (update_score score r' s l) =
      if r' =? r then (match lookup_score r l with Some _ => Some s | None => None end) else lookup_score r l.
  Proof.
    induction l as [|[k v] l IH]; cbn [update_score lookup_score]; [destruct (r' =? r); reflexivity|].
    destruct (k =? r') eqn:E1; cbn [lookup_score].
    - apply Z.eqb_eq in E1. subst k. destruct (r' =? r) eqn:E2; [reflexivity|reflexivity].
    - rewrite IH. destruct (k =? r) eqn:E3; [|reflexivity].
      apply Z.eqb_eq in E3. subst k. rewrite Z.eqb_sym in E1. now rewrite E1.
  Qed.

  (* ---- the invariant ---- *)
  Record MInv (pre : list cand) (st : mstate) : Prop := {
    mi_nodup : NoDup (map fst (ms_map st));
    mi_ref : forall r, has_ref r (ms_map st) = true <-> exists s, lookup_score r (ms_score st) = Some s;
    mi_score : forall r s, lookup_score r (ms_score st) = Some s ->
        s = score_union r (preds_of r (ms_map st)) /\ beats s = true /\
        exists c, In c pre /\ cref c = r /\ beats (fst c) = true /\ In (cpred c, r) (ms_map st) /\ ge s (fst c);
    mi_entries : forall p r, In (p, r) (ms_map st) -> exists c, In c pre /\ cref c = r /\ cpred c = p }.

  Lemma MInv_weaken pre c st : MInv pre st -> MInv (pre ++ [c]) st.
  Proof.
    intros [H1 H2 H3 H4]. constructor; auto.
    - intros r s Hl. destruct (H3 r s Hl) as (E & Hb & d & Hd & Hx). repeat split; auto.
      exists d. split; [apply in_or_app; now left|exact Hx].
    - intros p r Hin. destruct (H4 p r Hin) as (d & Hd & Hx). exists d. split; [apply in_or_app; now left|exact Hx].
  Qed.

  Definition seed_ok (c : cand) : Prop := fst c = score_union (cref c) [cpred c].

  Lemma preds_of_none r M : has_ref r M = false -> preds_of r M = [].
  Proof.
    unfold has_ref, preds_of. induction M as [|e M IH]; cbn [existsb filter map]; [reflexivity|].
    intros H. apply orb_false_iff in H as [H1 H2]. rewrite H1. now apply IH.
  Qed.

  Lemma step_inv pre c st : seed_ok c -> MInv pre st -> MInv (pre ++ [c]) (step st c).
  Proof.
    intros seed_score HI. pose proof (MInv_weaken pre c st HI) as HW. destruct HI as [H1 H2 H3 H4].
    unfold merge_step. set (r := cref c). set (p := cpred c). set (M := ms_map st).
    destruct (lookup_score r (ms_score st)) as [old|] eqn:El.
    - (* the reference already has a score *)
      assert (Hcr : has_ref r M = true) by (apply H2; eauto).
      unfold merge_action. destruct (has_pred p M) eqn:Ep; [exact HW|]. rewrite Hcr.
      set (new := score_union r (preds_of r M ++ [p])).
      destruct (score_eqb new old) eqn:Ee; cbn [negb andb]; [exact HW|].
      destruct (geb new old) eqn:Eg; [|exact HW].
      destruct (H3 r old El) as (Eold & Hbold & d & Hd & Hdr & Hdb & Hdin & Hdge).
      constructor; cbn [ms_map ms_score].
      + rewrite map_app. cbn. apply NoDup_app_single; [exact H1|].
        intros Hin. apply in_map_iff in Hin as ([p' r'] & Hp' & Hin). cbn in Hp'. subst p'.
        assert (has_pred p M = true) by (apply has_pred_In; eauto). congruence.
      + intros r'. rewrite has_ref_app, lookup_update. cbn [snd]. destruct (r =? r') eqn:Err.
        * apply Z.eqb_eq in Err. subst r'. rewrite El, orb_true_r. split; eauto.
        * rewrite orb_false_r. apply H2.
      + intros r' s. rewrite lookup_update, preds_of_app. fold r. destruct (r =? r') eqn:Err.
        * apply Z.eqb_eq in Err. subst r'. rewrite El. intros [= <-]. split; [reflexivity|].
          split; [apply (beats_up new old Eg Hbold)|].
          exists d. split; [apply in_or_app; now left|]. repeat split; auto; [apply in_or_app; now left|].
          eapply geb_trans; eassumption.
        * intros Hl. destruct (H3 r' s Hl) as (E & Hb & d' & Hd' & Hx1 & Hx2 & Hx3 & Hx4). repeat split; auto.
          exists d'. split; [apply in_or_app; now left|]. repeat split; auto. apply in_or_app. now left.
      + intros p' r' Hin. apply in_app_or in Hin as [Hin|[[= <- <-]|[]]].
        * destruct (H4 p' r' Hin) as (d' & Hd' & Hx). exists d'. split; [apply in_or_app; now left|exact Hx].
        * exists c. split; [apply in_or_app; right; now left|split; reflexivity].
    - (* no score recorded for the reference: it is not matched yet *)
      assert (Hcr : has_ref r M = false).
      { destruct (has_ref r M) eqn:E; [|reflexivity]. apply H2 in E as [s Hs]. congruence. }
      unfold merge_action. destruct (has_pred p M) eqn:Ep; [exact HW|].
      destruct (beats (fst c)) eqn:Eb; [|exact HW].
      constructor; cbn [ms_map ms_score].
      + rewrite map_app. cbn. apply NoDup_app_single; [exact H1|].
        intros Hin. apply in_map_iff in Hin as ([p' r'] & Hp' & Hin). cbn in Hp'. subst p'.
        assert (has_pred p M = true) by (apply has_pred_In; eauto). congruence.
      + intros r'. rewrite has_ref_app, lookup_app_new. cbn [snd]. destruct (lookup_score r' (ms_score st)) as [v|] eqn:El'.
        * assert (has_ref r' M = true) by (apply H2; eauto). rewrite H. cbn. split; eauto.
        * assert (Hn : has_ref r' M = false).
          { destruct (has_ref r' M) eqn:E; [|reflexivity]. apply H2 in E as [s Hs]. congruence. }
          rewrite Hn. cbn. destruct (r =? r'); split; eauto; try discriminate. intros [s Hs]. discriminate.
      + intros r' s. rewrite lookup_app_new, preds_of_app. fold r. destruct (lookup_score r' (ms_score st)) as [v|] eqn:El'.
        * intros [= <-]. assert (Hne : (r =? r') = false).
          { destruct (r =? r') eqn:E; [|reflexivity]. apply Z.eqb_eq in E. subst r'. congruence. }
          rewrite Hne. destruct (H3 r' v El') as (E & Hb & d' & Hd' & Hx1 & Hx2 & Hx3 & Hx4). repeat split; auto.
          exists d'. split; [apply in_or_app; now left|]. repeat split; auto. apply in_or_app. now left.
        * destruct (r =? r') eqn:Err; [|discriminate]. apply Z.eqb_eq in Err. subst r'. intros [= <-].
          rewrite (preds_of_none r M Hcr). cbn [app]. split; [exact seed_score|]. split; [exact Eb|].
          exists c. split; [apply in_or_app; right; now left|]. repeat split; auto; try (apply in_or_app; right; now left).
      + intros p' r' Hin. apply in_app_or in Hin as [Hin|[[= <- <-]|[]]].
        * destruct (H4 p' r' Hin) as (d' & Hd' & Hx). exists d'. split; [apply in_or_app; now left|exact Hx].
        * exists c. split; [apply in_or_app; right; now left|split; reflexivity].
  Qed.

  Lemma fold_inv post : forall pre st, (forall c, In c post -> seed_ok c) ->
    MInv pre st -> MInv (pre ++ post) (fold_left step post st).
  Proof.
    induction post as [|c post IH]; intros pre st Hs HI; cbn [fold_left]; [now rewrite app_nil_r|].
    replace (pre ++ c :: post) with ((pre ++ [c]) ++ post) by (rewrite <- app_assoc; reflexivity).
    apply IH; [intros d Hd; apply Hs; now right|]. apply step_inv; [apply Hs; now left|exact HI].
  Qed.

  Lemma MInv_init : MInv [] {| ms_map := []; ms_score := [] |}.
  Proof.
    constructor; cbn; [constructor| |discriminate|intros ? ? []].
    intros r. split; [discriminate|intros [s Hs]; discriminate].
  Qed.

  Theorem merge_match_inv cs : (forall c, In c cs -> seed_ok c) ->
    MInv (sort_cands geb cs) (merge_match geb score_eqb beats score_union cs).
  Proof.
    intros Hs. unfold merge_match. apply (fold_inv (sort_cands geb cs) [] _); [|exact MInv_init].
    intros c Hc. apply Hs. exact (Permutation_in _ (Permutation_sym (sort_perm score geb cs)) Hc).
  Qed.
End MergeProofs.

(* every single merge strictly improves the reference's combined score (trace level) *)
Section MergeTrace.
  Variable score : Type.
  Variable geb : score -> score -> bool.
  Hypothesis geb_refl : forall a, geb a a = true.
  Hypothesis geb_trans : forall a b c, geb a b = true -> geb b c = true -> geb a c = true.
  Variable score_eqb : score -> score -> bool.
  Variable beats : score -> bool.
  Hypothesis beats_up : forall a b, geb a b = true -> beats b = true -> beats a = true.
  Variable score_union : Z -> list Z -> score.

  Theorem merge_strictly_improves pre c (st : mstate score) :
    MInv score geb beats score_union pre st -> seed_ok score score_union c ->
    has_ref (cref c) (ms_map st) = true ->
    ms_map (merge_step geb score_eqb beats score_union st c) <> ms_map st ->
    ms_map (merge_step geb score_eqb beats score_union st c) = ms_map st ++ [(cpred c, cref c)] /\
    geb (score_union (cref c) (preds_of (cref c) (ms_map st) ++ [cpred c])) (score_union (cref c) (preds_of (cref c) (ms_map st))) = true /\
    score_eqb (score_union (cref c) (preds_of (cref c) (ms_map st) ++ [cpred c])) (score_union (cref c) (preds_of (cref c) (ms_map st))) = false /\
    lookup_score (cref c) (ms_score st) = Some (score_union (cref c) (preds_of (cref c) (ms_map st))) /\
    lookup_score (cref c) (ms_score (merge_step geb score_eqb beats score_union st c))
      = Some (score_union (cref c) (preds_of (cref c) (ms_map st) ++ [cpred c])).
  Proof.
    intros HI Hseed Href Hchg. destruct HI as [H1 H2 H3 H4].
    destruct (proj1 (H2 (cref c)) Href) as [old Hold]. destruct (H3 (cref c) old Hold) as (Eold & _).
    unfold merge_step in *. rewrite Hold in *. rewrite Href in *. unfold merge_action in *.
    destruct (has_pred (cpred c) (ms_map st)); [cbn in Hchg; congruence|].
    destruct (score_eqb (score_union (cref c) (preds_of (cref c) (ms_map st) ++ [cpred c])) old) eqn:Ee; cbn [negb andb] in *; [cbn in Hchg; congruence|].
    destruct (geb (score_union (cref c) (preds_of (cref c) (ms_map st) ++ [cpred c])) old) eqn:Eg; [|cbn in Hchg; congruence].
    cbn [ms_map ms_score]. rewrite <- Eold. repeat split; try assumption.
    rewrite (lookup_update score (cref c) (cref c)). rewrite Z.eqb_refl, Hold. reflexivity.
  Qed.
End MergeTrace.
