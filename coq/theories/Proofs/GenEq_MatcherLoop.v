(* T1 tie for the matcher loops, the label-map predicates and the pair code. *)
From Pan Require Import Base.Common Model.Matcher Model.Merge Gen.MatcherLoop Proofs.Matching.
From Coq Require Import ZifyBool.
Open Scope Z_scope.

Definition act_of (g : gen_action) : action := match g with GSkip => ASkip | GAdd => AAdd | GNone => ANone end.
Lemma geneq_contains_or pin rin : gen_contains_or pin rin = (pin || rin).
Proof. destruct pin, rin; reflexivity. Qed.
(* cp / cr: the prediction / the reference of the candidate is already in the label map; the source may ask through contains_or,
   contains_pred, contains_ref in any combination -- what matters is the action as a function of the two memberships *)
Lemma geneq_naive_step m2o cp cr beat : act_of (gen_naive_step m2o cp cr beat) = naive_action m2o (cp || cr) cp beat.
Proof. unfold gen_naive_step, gen_contains_or. destruct m2o, cp, cr, beat; reflexivity. Qed.

(* the model's step is this decision table applied to the label-map predicates *)
Lemma step_res_is_action {score} (beats : score -> bool) m2o (M : list (cand score)) c :
  step_res beats m2o M c =
  match act_of (gen_naive_step m2o (existsb (same_predb c) M) (existsb (fun d => cref c =? cref d) M) (beats (fst c))) with
  | ASkip => Ok M | AAdd => add_entry M c | ANone => Ok M end.
Proof.
  rewrite geneq_naive_step. unfold step_res, naive_action.
  assert (E : existsb (competingb c) M = existsb (same_predb c) M || existsb (fun d => cref c =? cref d) M).
  { induction M as [|d M IH]; cbn [existsb]; [reflexivity|]. rewrite IH. unfold competingb, same_predb.
    destruct (cref c =? cref d), (cpred c =? cpred d), (existsb (fun d0 => cpred c =? cpred d0) M),
      (existsb (fun d0 => cref c =? cref d0) M); reflexivity. }
  rewrite E. destruct ((existsb (same_predb c) M || existsb (fun d => cref c =? cref d) M) && negb m2o || existsb (same_predb c) M);
    [reflexivity|]. destruct (beats (fst c)); reflexivity.
Qed.

Definition mact_of (g : gen_maction) : maction := match g with MSkip => BSkip | MMerge => BMerge | MSeed => BSeed | MNone => BNone end.
Lemma geneq_merge_step decr cp cr beat nb ne :
  mact_of (gen_merge_step decr cp cr beat nb ne) = merge_action cp cr beat nb ne.
Proof. destruct decr, cp, cr, beat, nb, ne; reflexivity. Qed.

Lemma geneq_sort : gen_sort_best_first_stable = true. Proof. reflexivity. Qed.

(* the pair code is decoded correctly for every label magnitude (unbounded integers; the width is checked below) *)
Lemma geneq_code p r maxref : gen_code p r maxref = pair_code p r maxref /\ gen_decode (gen_code p r maxref) maxref = pair_decode (pair_code p r maxref) maxref.
Proof. split; reflexivity. Qed.
Lemma pair_code_roundtrip p r maxref : 0 < r <= maxref -> 0 <= p ->
  pair_decode (pair_code p r maxref) maxref = (r, p) /\ (gen_keep (pair_code p r maxref) maxref = true <-> 1 <= p).
Proof.
  intros Hr Hp. unfold pair_code, pair_decode, gen_keep. destruct (r =? 0) eqn:E; [lia|].
  assert (Hm : 0 < maxref + 1) by lia.
  rewrite Z.add_comm, Z.mod_add, Z.div_add by lia. rewrite Z.mod_small, Z.div_small by lia.
  split; [f_equal; lia|]. rewrite Z.ltb_lt. nia.
Qed.
(* the code fits in the 64-bit array for labels below 2^24 *)
Lemma pair_code_fits p r maxref : 0 <= p < 2 ^ 24 -> 0 <= r <= maxref -> maxref < 2 ^ 24 ->
  0 <= pair_code p r maxref < 2 ^ gen_code_width.
Proof.
  intros Hp Hr Hm. unfold pair_code, gen_code_width. destruct (r =? 0); [split; [lia|reflexivity]|].
  change (2 ^ 24) with 16777216 in *. change (2 ^ 64) with 18446744073709551616. nia.
Qed.
Lemma geneq_fresh maxref : gen_fresh_start maxref = maxref + 1. Proof. reflexivity. Qed.
Lemma geneq_map_labels : gen_map_labels_is_lut_in_wide_dtype = true. Proof. reflexivity. Qed.
