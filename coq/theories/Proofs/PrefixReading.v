(* C18: why the loader has to split every header cell at its LAST '-' and may not recognise a group's cells by the prefix
   "<group>-": group names are arbitrary, and a group whose name extends another group's name by "-..." (organ, organ-left)
   owns cells that begin with the other group's prefix; read by prefix they yield a "metric" containing a '-', which is no key. *)
From Pan Require Import Base.Common Base.Sx Model.Stats Model.Tsv Proofs.TsvFacts.
Open Scope Z_scope.

Fixpoint strip_prefix (p c : name) : option name :=
  match p, c with
  | [], _ => Some c
  | x :: p', y :: c' => if x =? y then strip_prefix p' c' else None
  | _ :: _, [] => None
  end.

Lemma strip_prefix_app p s : strip_prefix p (p ++ s) = Some s.
Proof. induction p as [|x p IH]; cbn [strip_prefix app]; [reflexivity|]. now rewrite Z.eqb_refl. Qed.

(* the cells of group g ++ "-" ++ rest begin with g's prefix; the remainder is rest ++ "-" ++ m: it contains a '-' ... *)
Lemma prefix_reading_of_extended_group g rest m :
  strip_prefix (g ++ [DASH]) (join (g ++ DASH :: rest) m) = Some (join rest m) /\ In DASH (join rest m).
Proof.
  split.
  - unfold join. replace ((g ++ DASH :: rest) ++ DASH :: m) with ((g ++ [DASH]) ++ (rest ++ DASH :: m)).
    + apply strip_prefix_app.
    + rewrite <- !app_assoc. reflexivity.
  - unfold join. apply in_or_app. right. now left.
Qed.

(* ... whereas the split at the last '-' returns the group and the key, whatever the group is called *)
Lemma last_dash_reading_of_extended_group g rest m : ~ In DASH m ->
  split_cell (join (g ++ DASH :: rest) m) = Ok (g ++ DASH :: rest, m).
Proof. intros H. now apply split_cell_join. Qed.

(* "organ", "organ-left", key "sq" *)
Lemma prefix_reading_refuted :
  let organ := [111; 114; 103; 97; 110] in let left := [108; 101; 102; 116] in let sq := [115; 113] in
  strip_prefix (organ ++ [DASH]) (join (organ ++ DASH :: left) sq) = Some (left ++ DASH :: sq) /\
  split_cell (join (organ ++ DASH :: left) sq) = Ok (organ ++ DASH :: left, sq).
Proof. vm_compute. split; reflexivity. Qed.
