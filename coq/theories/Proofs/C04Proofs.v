(* C04 at the level of the arrays: match_instances' relabelling. *)
From Pan Require Import Base.Common Model.Metrics Model.Relabel Proofs.ListFacts Proofs.RelabelFacts.
From Coq Require Import ZifyBool.
Open Scope Z_scope.

Definition nonneg_arr (a : arr2) : Prop := forall v, In v a -> 0 <= fst v /\ 0 <= snd v.
(* a matching: functional on prediction labels, between labels that occur *)
Definition wf_matching (M : lmap) (a : arr2) : Prop :=
  NoDup (map fst M) /\ forall p r, In (p, r) M -> In p (pred_labels_of a) /\ In r (ref_labels_of a).

Lemma pred_labels_spec a p : In p (pred_labels_of a) <-> (p <> 0 /\ exists v, In v a /\ snd v = p).
Proof.
  unfold pred_labels_of. rewrite uniqueZ_In, filter_In, in_map_iff. unfold nz. rewrite negb_true_iff, Z.eqb_neq.
  split; [intros [(v & E & Hv) Hn]; split; eauto|intros [Hn (v & Hv & E)]; split; eauto].
Qed.
Lemma ref_labels_spec a r : In r (ref_labels_of a) <-> (r <> 0 /\ exists v, In v a /\ fst v = r).
Proof.
  unfold ref_labels_of. rewrite uniqueZ_In, filter_In, in_map_iff. unfold nz. rewrite negb_true_iff, Z.eqb_neq.
  split; [intros [(v & E & Hv) Hn]; split; eauto|intros [Hn (v & Hv & E)]; split; eauto].
Qed.

Section Arr.
  Variables (M : lmap) (a : arr2).
  Hypothesis Hnn : nonneg_arr a.
  Hypothesis HM : wf_matching M a.
  Let pls := pred_labels_of a.
  Let maxref := maxZ (ref_labels_of a).
  Let lm := full_map M pls maxref.

  Lemma M_refs_ok p r : In (p, r) M -> 0 < r <= maxref.
  Proof.
    intros Hin. destruct HM as [_ H]. destruct (H p r Hin) as [_ Hr]. pose proof (maxZ_ge r _ Hr).
    apply ref_labels_spec in Hr as [Hn (v & Hv & E)]. destruct (Hnn v Hv). unfold maxref. lia.
  Qed.
  Lemma pls_pos p : In p pls -> p <> 0.
  Proof. intros H. apply pred_labels_spec in H. tauto. Qed.
  Lemma M_keys_ok p r : In (p, r) M -> In p pls.
  Proof. intros Hin. destruct HM as [_ H]. now destruct (H p r Hin). Qed.

  Lemma arr_new_label v : In v a -> snd v <> 0 -> In (snd v) pls.
  Proof. intros Hv Hn. apply pred_labels_spec. split; eauto. Qed.

  (* the matched prediction has the same foreground as the input *)
  Lemma relabel_foreground v : In v a -> (new_label lm (snd v) = 0 <-> snd v = 0).
  Proof.
    intros Hv. destruct (Z.eq_dec (snd v) 0) as [E|E].
    - rewrite E. split; [reflexivity|intros _]. apply (background_kept M pls maxref); [apply pls_pos|apply M_keys_ok].
    - split; [|contradiction]. intros H0. exfalso.
      apply (foreground_kept M pls maxref (proj1 HM) M_refs_ok (uniqueZ_NoDup _) (snd v) (arr_new_label v Hv E)); [apply maxZ_nonneg|exact H0].
  Qed.

  Lemma relabel_partition v w : In v a -> In w a -> snd v <> 0 -> snd w <> 0 ->
    (new_label lm (snd v) = new_label lm (snd w) <->
     (snd v = snd w \/ exists r, In (snd v, r) M /\ In (snd w, r) M)).
  Proof.
    intros Hv Hw Nv Nw. apply (same_label_iff M pls maxref (proj1 HM) M_refs_ok (uniqueZ_NoDup _));
      [apply arr_new_label|apply arr_new_label]; assumption.
  Qed.

  Lemma relabel_matched p r : In (p, r) M -> new_label lm p = r.
  Proof. apply (matched_label M pls maxref (proj1 HM)). Qed.

  Lemma relabel_fresh v r : In v a -> snd v <> 0 -> has_key (snd v) M = false -> In r (ref_labels_of a) ->
    new_label lm (snd v) <> r.
  Proof.
    intros Hv Nv Hk Hr. pose proof (maxZ_ge r _ Hr).
    pose proof (fresh_outside_refs M pls maxref (uniqueZ_NoDup _) (snd v) (arr_new_label v Hv Nv) Hk). unfold lm, maxref, pls in *. lia.
  Qed.
End Arr.
