(* Facts about the small list vocabulary of Base/Common.v (np.unique, max). *)
From Pan Require Import Base.Common.
From Coq Require Import Permutation ZifyBool.
Open Scope Z_scope.

Lemma memZ_spec x l : memZ x l = true <-> In x l.
Proof.
  unfold memZ. rewrite existsb_exists. split.
  - intros (y & Hy & E). apply Z.eqb_eq in E. now subst.
  - intros H. exists x. split; [exact H|apply Z.eqb_refl].
Qed.
Lemma dedupZ_In x l : In x (dedupZ l) <-> In x l.
Proof.
  induction l as [|y l IH]; cbn [dedupZ]; [reflexivity|]. destruct (memZ y l) eqn:E.
  - rewrite IH. apply memZ_spec in E. cbn. split; [auto|intros [<-|H]; auto].
  - cbn. now rewrite IH.
Qed.
Lemma dedupZ_NoDup l : NoDup (dedupZ l).
Proof.
  induction l as [|y l IH]; cbn [dedupZ]; [constructor|]. destruct (memZ y l) eqn:E; [exact IH|].
  constructor; [|exact IH]. rewrite dedupZ_In. intros H. apply memZ_spec in H. congruence.
Qed.
Lemma insZ_perm x l : Permutation (x :: l) (insZ x l).
Proof.
  induction l as [|y l IH]; cbn [insZ]; [reflexivity|]. destruct (x <=? y); [reflexivity|].
  rewrite perm_swap. now apply perm_skip.
Qed.
Lemma sortZ_perm l : Permutation l (sortZ l).
Proof. unfold sortZ. induction l as [|x l IH]; cbn [fold_right]; [reflexivity|]. rewrite <- insZ_perm. now apply perm_skip. Qed.
Lemma uniqueZ_In x l : In x (uniqueZ l) <-> In x l.
Proof.
  unfold uniqueZ. split; intros H.
  - apply dedupZ_In. exact (Permutation_in _ (Permutation_sym (sortZ_perm _)) H).
  - apply dedupZ_In in H. exact (Permutation_in _ (sortZ_perm _) H).
Qed.
Lemma uniqueZ_NoDup l : NoDup (uniqueZ l).
Proof. unfold uniqueZ. exact (Permutation_NoDup (sortZ_perm _) (dedupZ_NoDup l)). Qed.
Lemma maxZ_ge x l : In x l -> x <= maxZ l.
Proof. unfold maxZ. induction l as [|y l IH]; intros Hin; [destruct Hin|]. destruct Hin as [<-|H]; cbn [fold_right]; [lia|specialize (IH H); lia]. Qed.
Lemma maxZ_nonneg l : 0 <= maxZ l.
Proof. unfold maxZ. induction l as [|y l IH]; cbn [fold_right]; lia. Qed.
