(* "Above an overlap of one half a segment has at most one partner" (Kirillov et al., Panoptic Segmentation): true for IoU, as exact
   quotients and as the reported doubles, in both directions; false for Dice (Dice > 1/2 only means IoU > 1/3).  This is why the default
   configuration (IoU >= 0.5 ... strictly: > 0.5) has no competing candidates, and why a shortcut that drops the "reference already
   matched" test is wrong for every other increasing metric. *)
From Coq Require Import Lia ZifyBool.
From Pan Require Import Base.Common Base.Rnd64 Model.Metrics Proofs.Rnd64Facts.
Open Scope Z_scope.

Definition cnt_pred (p : Z) (a : arr2) : Z := cntZ (fun v => snd v =? p) a.
Definition cnt_ref (r : Z) (a : arr2) : Z := cntZ (fun v => fst v =? r) a.

Lemma memZ_single x p : memZ x [p] = (x =? p).
Proof. unfold memZ. cbn [existsb]. rewrite orb_false_r. reflexivity. Qed.

Lemma cnt_map {A B} (g : B -> bool) (h : A -> B) l : cntZ g (map h l) = cntZ (fun x => g (h x)) l.
Proof. induction l as [|x l IH]; cbn [map cntZ]; [reflexivity|]. rewrite IH. reflexivity. Qed.
Lemma cnt_le {A} (f g : A -> bool) l : (forall x, f x = true -> g x = true) -> cntZ f l <= cntZ g l.
Proof.
  intros H. induction l as [|x l IH]; cbn [cntZ]; [lia|]. specialize (H x).
  destruct (f x), (g x); unfold b2z; try lia; discriminate (H eq_refl).
Qed.
Lemma cnt_add_le {A} (f1 f2 g : A -> bool) l :
  (forall x, f1 x = true -> f2 x = true -> False) -> (forall x, f1 x = true \/ f2 x = true -> g x = true) ->
  cntZ f1 l + cntZ f2 l <= cntZ g l.
Proof.
  intros Hd Hg. induction l as [|x l IH]; cbn [cntZ]; [lia|]. specialize (Hd x). specialize (Hg x).
  destruct (f1 x), (f2 x), (g x); unfold b2z; try lia;
    try (exfalso; apply Hd; reflexivity); try discriminate (Hg (or_introl eq_refl)); try discriminate (Hg (or_intror eq_refl)).
Qed.
Lemma cnt_nonneg {A} (f : A -> bool) l : 0 <= cntZ f l.
Proof. induction l as [|x l IH]; cbn [cntZ]; [lia|]. destruct (f x); unfold b2z; lia. Qed.

Lemma nz_b2z b : nz (b2z b) = b. Proof. destruct b; reflexivity. Qed.

Lemma union_ge_pred r p a : cnt_pred p a <= n_union (select r [p] a).
Proof.
  unfold cnt_pred, n_union, select. rewrite cnt_map. apply cnt_le. intros v H. cbn [fst snd].
  rewrite !nz_b2z, memZ_single, H. apply orb_true_r.
Qed.
Lemma union_ge_ref r p a : cnt_ref r a <= n_union (select r [p] a).
Proof.
  unfold cnt_ref, n_union, select. rewrite cnt_map. apply cnt_le. intros v H. cbn [fst snd].
  rewrite !nz_b2z, H. reflexivity.
Qed.
Lemma inter_nonneg r p a : 0 <= n_inter (select r [p] a).
Proof. apply cnt_nonneg. Qed.
(* the overlaps of one prediction with two different references are disjoint *)
Lemma inters_le_pred r1 r2 p a : r1 <> r2 ->
  n_inter (select r1 [p] a) + n_inter (select r2 [p] a) <= cnt_pred p a.
Proof.
  intros Hne. unfold n_inter, cnt_pred, select. rewrite !cnt_map. apply cnt_add_le; intros v; cbn [fst snd]; rewrite !nz_b2z, !memZ_single.
  - intros H1 H2. apply andb_true_iff in H1, H2. apply Hne. lia.
  - intros [H|H]; apply andb_true_iff in H; tauto.
Qed.
Lemma inters_le_ref r p1 p2 a : p1 <> p2 ->
  n_inter (select r [p1] a) + n_inter (select r [p2] a) <= cnt_ref r a.
Proof.
  intros Hne. unfold n_inter, cnt_ref, select. rewrite !cnt_map. apply cnt_add_le; intros v; cbn [fst snd]; rewrite !nz_b2z, !memZ_single.
  - intros H1 H2. apply andb_true_iff in H1, H2. apply Hne. lia.
  - intros [H|H]; apply andb_true_iff in H; tauto.
Qed.

(* exact quotient above one half: twice the intersection exceeds the union *)
Lemma iou_exact_half ni nu : 0 <= ni -> (1 # 2 < iou_exact ni nu)%Q -> nu < 2 * ni.
Proof.
  unfold iou_exact, qdiv. destruct (nu =? 0) eqn:E; [intros _ H; unfold Qlt in H; cbn in H; lia|].
  intros Hn H. destruct (Z_lt_le_dec 0 nu) as [Hp|Hp].
  - assert (Hq : (inject_Z ni / inject_Z nu == ni # Z.to_pos nu)%Q).
    { unfold Qdiv, Qinv, inject_Z, Qmult, Qeq. cbn. destruct nu as [|q|q]; try lia. cbn. lia. }
    rewrite Hq in H. unfold Qlt in H. cbn in H. rewrite Z2Pos.id in H by lia. lia.
  - (* negative "union" cannot occur; the quotient is then <= 0 *)
    exfalso. assert (nu < 0) by lia. destruct nu as [|q|q]; try lia.
    unfold Qdiv, Qinv, inject_Z, Qmult, Qlt in H. cbn in H. lia.
Qed.

Lemma rnd_half : (rnd (1 # 2) == 1 # 2)%Q. Proof. vm_compute. reflexivity. Qed.
Lemma rnd_above_half q : (1 # 2 < rnd q)%Q -> (1 # 2 < q)%Q.
Proof.
  intros H. destruct (Qlt_le_dec (1 # 2) q) as [Hq|Hq]; [exact Hq|].
  exfalso. apply rnd_mono in Hq. rewrite rnd_half in Hq. apply (Qlt_irrefl (1 # 2)). eapply Qlt_le_trans; eassumption.
Qed.

Theorem iou_above_half_unique_reference a p r1 r2 : r1 <> r2 ->
  (1 # 2 < iou (Some (r1, [p])) a)%Q -> (1 # 2 < iou (Some (r2, [p])) a)%Q -> False.
Proof.
  unfold iou, iou_raw, metric_input. intros Hne H1 H2.
  apply rnd_above_half in H1. apply rnd_above_half in H2.
  apply iou_exact_half in H1; [|apply inter_nonneg]. apply iou_exact_half in H2; [|apply inter_nonneg].
  pose proof (union_ge_pred r1 p a). pose proof (union_ge_pred r2 p a). pose proof (inters_le_pred r1 r2 p a Hne). lia.
Qed.

Theorem iou_above_half_unique_prediction a r p1 p2 : p1 <> p2 ->
  (1 # 2 < iou (Some (r, [p1])) a)%Q -> (1 # 2 < iou (Some (r, [p2])) a)%Q -> False.
Proof.
  unfold iou, iou_raw, metric_input. intros Hne H1 H2.
  apply rnd_above_half in H1. apply rnd_above_half in H2.
  apply iou_exact_half in H1; [|apply inter_nonneg]. apply iou_exact_half in H2; [|apply inter_nonneg].
  pose proof (union_ge_ref r p1 a). pose proof (union_ge_ref r p2 a). pose proof (inters_le_ref r p1 p2 a Hne). lia.
Qed.

(* Dice: a reference of nine voxels predicted as 5 + 4 -- both halves score above 0.6 *)
Definition split9 : arr2 := [(1,1);(1,1);(1,1);(1,1);(1,1);(1,2);(1,2);(1,2);(1,2)].
Theorem dice_above_half_not_unique :
  (6 # 10 < dice (Some (1%Z, [1%Z])) split9)%Q /\ (6 # 10 < dice (Some (1%Z, [2%Z])) split9)%Q.
Proof. split; vm_compute; reflexivity. Qed.

(* ---- consequence for the threshold matcher: with IoU and a threshold above one half there is no competition at all; the matching
   is exactly the set of candidates that meet the threshold (one-to-one and many-to-one alike) *)
From Pan Require Import Model.Matcher Model.MetricTable Proofs.Matching Proofs.MatcherQ.

Lemma beats_above_half thr s : (1 # 2 < thr)%Q -> beats false s thr = true -> (1 # 2 < s)%Q.
Proof. unfold beats. intros Ht Hb. apply Qle_bool_iff in Hb. eapply Qlt_le_trans; eassumption. Qed.

Lemma iou_candidates_no_competition m2o thr a (c d : qcand) : (1 # 2 < thr)%Q ->
  In c (candidates IOU a) -> In d (candidates IOU a) ->
  beats false (fst c) thr = true -> beats false (fst d) thr = true ->
  conflictb m2o c d = true -> c = d.
Proof.
  intros Ht Hc Hd Bc Bd Hcf.
  destruct (candidates_overlap IOU a c Hc) as (_ & _ & _ & Sc). destruct (candidates_overlap IOU a d Hd) as (_ & _ & _ & Sd).
  pose proof (beats_above_half thr _ Ht Bc) as Lc. pose proof (beats_above_half thr _ Ht Bd) as Ld.
  rewrite Sc in Lc. rewrite Sd in Ld. unfold score_overlap in Lc, Ld.
  destruct c as [sc [rc pc]], d as [sd [rd pd]]. cbn [fst snd] in *.
  destruct (Z.eq_dec rc rd) as [Er|Er], (Z.eq_dec pc pd) as [Ep|Ep].
  - subst. reflexivity.
  - subst rd. exfalso. exact (iou_above_half_unique_prediction a rc pc pd Ep Lc Ld).
  - subst pd. exfalso. exact (iou_above_half_unique_reference a pc rc rd Er Lc Ld).
  - exfalso. unfold conflictb, same_predb, competingb, cref, cpred in Hcf. cbn [fst snd] in Hcf. destruct m2o; lia.
Qed.

Theorem iou_above_half_all_matched m2o thr a M : (1 # 2 < thr)%Q ->
  naive_match false m2o thr (candidates IOU a) = Ok M ->
  forall c, In c M <-> (In c (candidates IOU a) /\ beats false (fst c) thr = true).
Proof.
  intros Ht HM. destruct (naive_match_spec false m2o thr (candidates IOU a) (candidates_NoDup IOU a)) as (M' & HM' & _ & H2 & H3 & _).
  rewrite HM in HM'. injection HM' as <-.
  intros c. split; [apply H2|]. intros [Hc Bc].
  destruct (H3 c Hc Bc) as (d & Hd & Hcf). destruct (H2 d Hd) as [Hdc Bd].
  rewrite (iou_candidates_no_competition m2o thr a c d Ht Hc Hdc Bc Bd Hcf). exact Hd.
Qed.
