(* Bookkeeping facts of the evaluation phase (C02, C08 at pipeline level). *)
From Pan Require Import Base.Common Base.Sx Base.Rnd64 Model.MetricTable Model.Metrics Model.EdgeCase Model.Result
  Model.ZeroCase Model.Matcher Model.Relabel Model.Pipeline Proofs.ListFacts Proofs.ResultFacts.
From Coq Require Import ZifyBool.
Open Scope Z_scope.

Lemma build_metrics_all i rq ms out : build_metrics i rq ms = Ok out ->
  forall mr, In mr out -> lookup_m (m_metric mr) (r_lists i) = Some (m_all mr).
Proof.
  revert out. induction ms as [|m ms IH]; intros out H mr Hin; cbn [build_metrics] in H.
  - injection H as <-. destruct Hin.
  - destruct (lookup_m m (r_lists i)) as [vals|] eqn:El; [|now apply (IH out)].
    destruct (list_metric (r_handler i) m (r_tp i) (r_np i) (r_nr i) vals) as [s|] eqn:Es; [|discriminate].
    destruct (build_metrics i rq ms) as [rest|] eqn:Er; [|discriminate]. injection H as <-.
    destruct Hin as [<-|Hin]; [|now apply (IH rest)]. cbn [m_metric m_all].
    unfold list_metric in Es. destruct (handle_zero_tp _ _ _ _ _) as [[e v]|]; [|discriminate]. injection Es as <-. exact El.
Qed.

Lemma panoptica_result_fields i r : panoptica_result i = Ok r ->
  o_np r = r_np i /\ o_nr r = r_nr i /\ o_tp r = r_tp i /\ o_fp r = r_np i - r_tp i /\ o_fn r = r_nr i - r_tp i /\
  o_rq r = calc_rq (r_np i) (r_nr i) (r_tp i) /\
  (forall mr, In mr (o_metrics r) -> lookup_m (m_metric mr) (r_lists i) = Some (m_all mr)).
Proof.
  unfold panoptica_result. destruct (build_metrics i _ all_metrics) as [ms|] eqn:E; [|discriminate].
  intros [= <-]. cbn. unfold calc_fp, calc_fn. repeat split. exact (build_metrics_all i _ _ ms E).
Qed.

(* ---- lengths ---- *)
Lemma all_dicts_length x a ls ems ds : all_dicts x a ls ems = Ok ds -> length ds = length ls.
Proof.
  revert ds. induction ls as [|l ls IH]; intros ds H; cbn [all_dicts] in H; [now injection H as <-|].
  destruct (instance_dict x a l ems); [|discriminate]. destruct (all_dicts x a ls ems) as [r|]; [|discriminate].
  injection H as <-. cbn. f_equal. now apply IH.
Qed.

Lemma lookup_m_map_key {A} (f : metric -> A) m ms :
  lookup_m m (map (fun k => (k, f k)) ms) = if existsb (metric_eqb m) ms then Some (f m) else None.
Proof.
  induction ms as [|k ms IH]; cbn [map lookup_m existsb]; [reflexivity|].
  destruct (metric_eqb k m) eqn:E.
  - apply metric_eqb_eq in E. subst k. assert (metric_eqb m m = true) by (now apply metric_eqb_eq). now rewrite H.
  - assert (metric_eqb m k = false).
    { destruct (metric_eqb m k) eqn:E'; [|reflexivity]. apply metric_eqb_eq in E'. subst. 
      assert (metric_eqb k k = true) by (now apply metric_eqb_eq). congruence. }
    rewrite H. exact IH.
Qed.

Lemma filter_length_le {A} (f : A -> bool) l : (length (filter f l) <= length l)%nat.
Proof. induction l as [|x l IH]; cbn; [lia|]. destruct (f x); cbn; lia. Qed.

Lemma matched_labels_le a :
  (length (matched_labels a) <= length (pred_labels_of a))%nat /\
  (length (matched_labels a) <= length (ref_labels_of a))%nat.
Proof.
  split; [apply filter_length_le|]. apply NoDup_incl_length.
  - unfold matched_labels. apply NoDup_filter. apply uniqueZ_NoDup.
  - intros p Hp. unfold matched_labels in Hp. apply filter_In in Hp as [_ H]. now apply memZ_spec in H.
Qed.

Lemma evaluate_matched_bookkeeping x ems dmo thr a tp lists :
  evaluate_matched x ems dmo thr a = Ok (tp, lists) ->
  0 <= tp <= n_pred_inst a /\ tp <= n_ref_inst a /\
  (forall m vals, lookup_m m lists = Some vals -> Z.of_nat (length vals) = tp).
Proof.
  unfold evaluate_matched. destruct (negb _); [discriminate|].
  destruct (all_dicts x a (matched_labels a) ems) as [dicts|] eqn:Ed; [|discriminate].
  intros [= <- <-]. pose proof (all_dicts_length _ _ _ _ _ Ed) as Hl. destruct (matched_labels_le a) as [H1 H2].
  pose proof (filter_length_le (fun d => passes_decision dmo thr (fun m => lookup_mq m d)) dicts).
  unfold n_pred_inst, n_ref_inst. repeat split; try lia.
  intros m vals Hm. rewrite (lookup_m_map_key (fun m => map (lookup_mq m) _)) in Hm.
  destruct (existsb (metric_eqb m) (dedup_metrics ems)); [|discriminate]. injection Hm as <-. now rewrite map_length.
Qed.

Lemma zero_case_counts np nr nr' np' : zero_case np nr = Some (nr', np') -> nr' = nr /\ np' = np /\ (np = 0 \/ nr = 0).
Proof. unfold zero_case. destruct ((np =? 0) || (nr =? 0)) eqn:E; [|discriminate]. intros [= <- <-]. repeat split. lia. Qed.

(* the evaluation phase keeps the books: counts, list lengths *)
Theorem eval_phase_bookkeeping x c a r : eval_phase x c a = Ok r ->
  o_tp r + o_fp r = n_pred_inst a /\ o_tp r + o_fn r = n_ref_inst a /\
  0 <= o_tp r <= Z.min (n_pred_inst a) (n_ref_inst a) /\
  o_np r = n_pred_inst a /\ o_nr r = n_ref_inst a /\
  (forall mr, In mr (o_metrics r) -> Z.of_nat (length (m_all mr)) = o_tp r).
Proof.
  unfold eval_phase. assert (Hp : 0 <= n_pred_inst a) by (unfold n_pred_inst; lia).
  assert (Hr : 0 <= n_ref_inst a) by (unfold n_ref_inst; lia).
  destruct (zero_case (n_pred_inst a) (n_ref_inst a)) as [[nr np]|] eqn:Ez.
  - destruct (zero_case_counts _ _ _ _ Ez) as (-> & -> & _). intros H.
    destruct (panoptica_result_fields _ _ H) as (E1 & E2 & E3 & E4 & E5 & _ & Hall). cbn [r_np r_nr r_tp r_lists] in *.
    repeat split; try lia. intros mr Hin. specialize (Hall mr Hin). rewrite E3.
    rewrite (lookup_m_map_key (fun _ => @nil Q)) in Hall.
    match type of Hall with (if ?b then _ else _) = _ => destruct b end; [|discriminate]. injection Hall as <-. reflexivity.
  - destruct (evaluate_matched x (c_ems c) (c_dm c) (c_dthr c) a) as [[tp lists]|] eqn:Ee; [|discriminate]. intros H.
    destruct (evaluate_matched_bookkeeping _ _ _ _ _ _ _ Ee) as (H1 & H2 & H3).
    destruct (panoptica_result_fields _ _ H) as (E1 & E2 & E3 & E4 & E5 & _ & Hall). cbn [r_np r_nr r_tp r_lists] in *.
    repeat split; try lia. intros mr Hin. rewrite E3. exact (H3 _ _ (Hall mr Hin)).
Qed.

(* an instance failing the decision threshold is in neither list nor tp: tp counts exactly the kept dictionaries *)
Lemma evaluate_matched_tp_is_kept x ems dmo thr a tp lists dicts :
  all_dicts x a (matched_labels a) ems = Ok dicts -> evaluate_matched x ems dmo thr a = Ok (tp, lists) ->
  tp = Z.of_nat (length (filter (fun d => passes_decision dmo thr (fun m => lookup_mq m d)) dicts)).
Proof. intros Hd. unfold evaluate_matched. rewrite Hd. destruct (negb _); [discriminate|]. intros [= <- _]. reflexivity. Qed.

(* ---- zero-instance inputs through the whole pipeline (C08 at pipeline level) ---- *)
Lemma pipeline_zero_instances x c a : (n_pred_inst a = 0 \/ n_ref_inst a = 0) ->
  pipeline x c a =
  panoptica_result {| r_np := n_pred_inst a; r_nr := n_ref_inst a; r_tp := 0;
                      r_lists := map (fun m => (m, [])) (dedup_metrics (c_ems c)); r_handler := c_handler c |}.
Proof.
  intros H. assert (Ez : zero_case (n_pred_inst a) (n_ref_inst a) = Some (n_ref_inst a, n_pred_inst a)).
  { unfold zero_case. destruct ((n_pred_inst a =? 0) || (n_ref_inst a =? 0)) eqn:E; [reflexivity|lia]. }
  unfold pipeline, eval_phase. rewrite Ez. destruct (c_matcher c =? 0); reflexivity.
Qed.

Theorem pipeline_zero_instances_result x c a :
  (n_pred_inst a = 0 \/ n_ref_inst a = 0) ->
  (forall m, In m (c_ems c) -> exists mh, lookup_m m (h_table (c_handler c)) = Some mh) ->
  exists s r, classify (n_pred_inst a) (n_ref_inst a) = Some s /\ pipeline x c a = Ok r /\
    o_tp r = 0 /\ o_fp r = n_pred_inst a /\ o_fn r = n_ref_inst a /\
    (forall mr, In mr (o_metrics r) -> exists mh, lookup_m (m_metric mr) (h_table (c_handler c)) = Some mh /\
        m_sq mr = ecr_value (entry mh s) /\ m_var mr = ecr_value (h_std (c_handler c)) /\ m_all mr = []) /\
    (forall m, In m (c_ems c) -> exists mr, In mr (o_metrics r) /\ m_metric mr = m).
Proof.
  intros Hz Hdef. rewrite (pipeline_zero_instances x c a Hz).
  assert (Hp : 0 <= n_pred_inst a) by (unfold n_pred_inst; lia). assert (Hr : 0 <= n_ref_inst a) by (unfold n_ref_inst; lia).
  assert (Hin : forall m, existsb (metric_eqb m) (dedup_metrics (c_ems c)) = true <-> In m (c_ems c)).
  { intros m. unfold dedup_metrics. rewrite existsb_exists. split.
    - intros (k & Hk & E). apply metric_eqb_eq in E. subst k. apply filter_In in Hk as [_ Hk]. apply existsb_exists in Hk as (j & Hj & E).
      apply metric_eqb_eq in E. now subst.
    - intros H. exists m. split; [|now apply metric_eqb_eq]. apply filter_In. split; [destruct m; cbn; tauto|].
      apply existsb_exists. exists m. split; [exact H|now apply metric_eqb_eq]. }
  destruct (zero_tp_result (c_handler c) (n_pred_inst a) (n_ref_inst a) (map (fun m => (m, [])) (dedup_metrics (c_ems c))) Hp Hr)
    as (s & r & Hs & Hres & H1 & H2 & H3 & H4 & H5).
  - intros m vals Hl. rewrite (lookup_m_map_key (fun _ => @nil Q)) in Hl. destruct (existsb _ _) eqn:E; [|discriminate].
    apply Hdef. now apply Hin.
  - intros m vals Hl. rewrite (lookup_m_map_key (fun _ => @nil Q)) in Hl. destruct (existsb _ _); [now injection Hl as <-|discriminate].
  - exists s, r. repeat split; try assumption. intros m Hm. apply H5. rewrite (lookup_m_map_key (fun _ => @nil Q)).
    rewrite (proj2 (Hin m) Hm). discriminate.
Qed.
