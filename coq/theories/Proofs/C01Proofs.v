(* C01: composition -- what the evaluation phase sees after matching and relabelling. *)
From Pan Require Import Base.Common Model.Metrics Model.Relabel Model.Merge Model.Pipeline
  Proofs.ListFacts Proofs.RelabelFacts Proofs.C04Proofs Proofs.MetricsFacts.
From Coq Require Import ZifyBool Permutation.
Open Scope Z_scope.

Lemma preds_of_In p l (M : lmap) : In p (preds_of l M) <-> In (p, l) M.
Proof.
  unfold preds_of. rewrite in_map_iff. split.
  - intros ([p' r] & E & Hin). cbn in E. subst p'. apply filter_In in Hin as [Hin Hr]. cbn in Hr. apply Z.eqb_eq in Hr. now subst.
  - intros Hin. exists (p, l). split; [reflexivity|]. apply filter_In. split; [exact Hin|]. cbn. apply Z.eqb_refl.
Qed.

Lemma M_functional (M : lmap) p r r' : NoDup (map fst M) -> In (p, r) M -> In (p, r') M -> r = r'.
Proof. intros Hnd H1 H2. pose proof (lookupZ_NoDup p r M Hnd H1). pose proof (lookupZ_NoDup p r' M Hnd H2). congruence. Qed.

Section Compose.
  Variables (M : lmap) (a : arr2).
  Hypothesis Hnn : nonneg_arr a.
  Hypothesis HM : wf_matching M a.
  Notation lm := (full_map M (pred_labels_of a) (maxZ (ref_labels_of a))).

  (* a voxel's new prediction label is the reference label l exactly when its old label is assigned to l *)
  Lemma new_label_is_ref v l : In v a -> In l (ref_labels_of a) ->
    (new_label lm (snd v) = l <-> In (snd v) (preds_of l M)).
  Proof.
    intros Hv Hl. rewrite preds_of_In. pose proof (maxZ_ge l _ Hl) as Hle.
    assert (Hl0 : l <> 0) by (apply ref_labels_spec in Hl; tauto).
    destruct (Z.eq_dec (snd v) 0) as [E0|E0].
    - pose proof (proj2 (relabel_foreground M a Hnn HM v Hv) E0) as Hz. rewrite Hz, E0.
      split; [intros E; congruence|]. intros Hin. destruct HM as [_ H]. destruct (H 0 l Hin) as [Hp _].
      apply pred_labels_spec in Hp. tauto.
    - destruct (has_key (snd v) M) eqn:Hk.
      + unfold has_key in Hk. destruct (lookupZ (snd v) M) as [r|] eqn:El; [|discriminate]. apply lookupZ_In in El.
        rewrite (relabel_matched M a HM _ _ El). split; [intros <-; exact El|]. intros Hin. exact (M_functional M _ _ _ (proj1 HM) El Hin).
      + split.
        * intros E. exfalso. apply (relabel_fresh M a v l Hv E0 Hk Hl). exact E.
        * intros Hin. exfalso. unfold has_key in Hk. rewrite (lookupZ_NoDup _ _ M (proj1 HM) Hin) in Hk. discriminate.
  Qed.

  (* the masks compared for a matched reference l: reference l against the union of the predictions assigned to l *)
  Lemma select_relabel l : In l (ref_labels_of a) ->
    select l [l] (map_instance_labels M a) = select l (preds_of l M) a.
  Proof.
    intros Hl. unfold map_instance_labels, relabel, select. rewrite map_map. apply map_ext_in. intros v Hv. cbn [fst snd].
    f_equal. f_equal. destruct (memZ (snd v) (preds_of l M)) eqn:E.
    - apply memZ_spec in E. apply (new_label_is_ref v l Hv Hl) in E. rewrite E. cbn. now rewrite Z.eqb_refl.
    - cbn. rewrite orb_false_r. destruct (new_label lm (snd v) =? l) eqn:E2; [|reflexivity].
      apply Z.eqb_eq in E2. apply (new_label_is_ref v l Hv Hl) in E2. apply memZ_spec in E2. congruence.
  Qed.

  Lemma ref_labels_relabel : ref_labels_of (map_instance_labels M a) = ref_labels_of a.
  Proof. unfold ref_labels_of, map_instance_labels. now rewrite relabel_ref_unchanged. Qed.

  (* the evaluated instances are exactly the matched references *)
  Lemma matched_labels_relabel l :
    In l (matched_labels (map_instance_labels M a)) <-> exists p, In (p, l) M.
  Proof.
    unfold matched_labels. rewrite filter_In, memZ_spec, ref_labels_relabel, pred_labels_spec. split.
    - intros [[Hn0 (w & Hw & Ew)] Hl]. unfold map_instance_labels, relabel in Hw. apply in_map_iff in Hw as (v & <- & Hv).
      cbn [snd] in Ew. apply (new_label_is_ref v l Hv Hl) in Ew. apply preds_of_In in Ew. eauto.
    - intros [p Hin]. destruct HM as [Hf H]. destruct (H p l Hin) as [Hp Hl]. split; [|exact Hl].
      split; [apply ref_labels_spec in Hl; tauto|]. apply pred_labels_spec in Hp as [Hp0 (v & Hv & Ev)].
      exists (fst v, new_label lm (snd v)). split.
      + unfold map_instance_labels, relabel. apply in_map_iff. exists v. split; [reflexivity|exact Hv].
      + cbn [snd]. apply (new_label_is_ref v l Hv Hl). apply preds_of_In. now rewrite Ev.
  Qed.
End Compose.

(* per-instance overlap metrics after matching = the set definitions on (reference l, union of assigned predictions) *)
Theorem evaluated_scores M a l : nonneg_arr a -> wf_matching M a -> In l (ref_labels_of a) ->
  iou (Some (l, [l])) (map_instance_labels M a) = iou (Some (l, preds_of l M)) a /\
  dice (Some (l, [l])) (map_instance_labels M a) = dice (Some (l, preds_of l M)) a /\
  rvd (Some (l, [l])) (map_instance_labels M a) = rvd (Some (l, preds_of l M)) a.
Proof.
  intros Hn Hw Hl. unfold iou, dice, rvd, metric_input. rewrite (select_relabel M a Hn Hw l Hl). repeat split.
Qed.

(* ---- the matching phase of the pipeline (threshold matcher) ---- *)
From Pan Require Import Model.MetricTable Model.Matcher Proofs.Matching Proofs.MatcherQ.

Lemma cand_list_NoDup x m a : NoDup (cand_list x m a).
Proof.
  unfold cand_list. destruct m; try apply candidates_NoDup.
  apply FinFun.Injective_map_NoDup; [|apply overlap_pairs_NoDup]. intros p q [= _ H]. exact H.
Qed.
Lemma cand_list_pairs x m a c : In c (cand_list x m a) -> In (snd c) (overlap_pairs a).
Proof.
  unfold cand_list, candidates. destruct m; rewrite in_map_iff; intros (rp & <- & H); exact H.
Qed.

Definition lmap_of (M : list qcand) : lmap := map (fun d => (cpred d, cref d)) M.

Theorem match_phase_naive x c a : (c_matcher c = 1 \/ c_matcher c = 2) ->
  let decr := decreasing (c_mmetric c) in let m2o := c_matcher c =? 2 in
  let cs := cand_list x (c_mmetric c) a in
  exists M, naive_match decr m2o (c_mthr c) cs = Ok M /\
    match_phase x c a = Ok (map_instance_labels (lmap_of M) a) /\
    P1 Q m2o M /\ P2 Q (fun s => beats decr s (c_mthr c)) cs M /\
    P3 Q (fun s => beats decr s (c_mthr c)) m2o cs M /\
    P4 Q (better_eq decr) (fun s => beats decr s (c_mthr c)) m2o cs M /\
    wf_matching (lmap_of M) a.
Proof.
  intros Hk decr m2o cs.
  destruct (naive_match_spec decr m2o (c_mthr c) cs (cand_list_NoDup x (c_mmetric c) a)) as (M & HM & H1 & H2 & H3 & H4).
  exists M. split; [exact HM|]. split.
  - unfold match_phase. assert (E3 : (c_matcher c =? 3) = false) by (destruct Hk as [-> | ->]; reflexivity).
    rewrite E3. fold decr. fold cs. fold m2o. rewrite HM. reflexivity.
  - split; [exact H1|]. split; [exact H2|]. split; [exact H3|]. split; [exact H4|]. split; [|intros p r H; split].
    + (* functional on predictions *)
      unfold lmap_of. rewrite map_map. cbn [fst].
      unfold naive_match in HM. rewrite greedy_total in HM. injection HM as <-. apply greedy_NoDup_preds.
    + unfold lmap_of in H. apply in_map_iff in H as (d & [= <- <-] & Hd). destruct (H2 d Hd) as [Hin _].
      apply cand_list_pairs, overlap_pairs_spec in Hin. apply pred_labels_spec. destruct Hin as (Hin & _ & Hp).
      split; [exact Hp|]. exists (snd d). split; [exact Hin|reflexivity].
    + unfold lmap_of in H. apply in_map_iff in H as (d & [= <- <-] & Hd). destruct (H2 d Hd) as [Hin _].
      apply cand_list_pairs, overlap_pairs_spec in Hin. apply ref_labels_spec. destruct Hin as (Hin & Hr & _).
      split; [exact Hr|]. exists (snd d). split; [exact Hin|reflexivity].
Qed.
