(* T1 tie: the mask-level formulas translated from dice.py / iou.py / relative_volume_difference.py
   are, as rational functions of the four counts, the model's exact formulas. *)
From Pan Require Import Base.Common Model.Metrics Gen.MetricFormulas Proofs.MetricsFacts.
From Coq Require Import Qfield.
Open Scope Z_scope.

Ltac split_ifs :=
  repeat match goal with
         | |- context[if ?c then _ else _] => destruct c eqn:?
         end.

Lemma Qeqb_inj a b : Qeq_bool (inject_Z a) (inject_Z b) = (a =? b).
Proof. unfold Qeq_bool, inject_Z. cbn [Qnum Qden]. rewrite !Z.mul_1_r. unfold Zeq_bool.
  destruct (Z.compare_spec a b); destruct (Z.eqb_spec a b); try reflexivity; lia. Qed.

Lemma qdiv_same a b c d : a = c -> b = d -> (qdiv a b == qdiv c d)%Q.
Proof. intros -> ->. reflexivity. Qed.

Lemma geneq_dice sr sp ni nu : (gen_dice sr sp ni nu == dice_exact sr sp ni)%Q.
Proof.
  unfold gen_dice, dice_exact; rewrite ?Qeqb_inj; split_ifs; try reflexivity; try discriminate; try lia;
    fold (qdiv (2 * ni) (sr + sp)); try (apply qdiv_same; lia).
Qed.
Lemma geneq_iou sr sp ni nu : (gen_iou sr sp ni nu == iou_exact ni nu)%Q.
Proof.
  unfold gen_iou, iou_exact; rewrite ?Qeqb_inj; split_ifs; try reflexivity; try discriminate; try lia;
    fold (qdiv ni nu); try (apply qdiv_same; lia).
Qed.
(* rvd: wherever python does not raise (sr <> 0, or both zero) *)
Lemma geneq_rvd sr sp ni nu q : rvd_exact sr sp = Ok q -> (gen_rvd sr sp ni nu == q)%Q.
Proof.
  unfold gen_rvd, rvd_exact; rewrite ?Qeqb_inj.
  (* either operand order of the both-empty test is accepted *)
  destruct (sr =? 0) eqn:Er; destruct (sp =? 0) eqn:Ep; cbn [andb]; try discriminate; intros [= <-]; try reflexivity;
    unfold qdiv; rewrite <- ?inject_Z_plus, <- ?inject_Z_opp; unfold Qminus;
    rewrite <- inject_Z_opp, <- inject_Z_plus; reflexivity.
Qed.
