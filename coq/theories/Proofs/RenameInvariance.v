(* C09 at the level of the whole evaluation of a matched pair: renaming the labels by maps that are
   injective on the labels that occur (and keep the background, and keep "same label on both sides"
   exactly for the same pairs) gives an equivalent result object -- the same counts, the per-instance
   lists permuted, averages/variances/products equal as rationals.  No tie hypothesis is needed for
   matched input: there is no matching step. *)
From Pan Require Import Base.Common Base.Sx Base.Rnd64 Model.MetricTable Model.Metrics Model.EdgeCase Model.Result Model.ZeroCase
  Model.Matcher Model.Merge Model.Relabel Model.Pipeline Proofs.ListFacts Proofs.MetricsFacts Proofs.C04Proofs
  Proofs.Invariance Proofs.ResultEquiv.
From Coq Require Import Permutation ZifyBool.
Open Scope Z_scope.

Definition inj_on (f : Z -> Z) (l : list Z) : Prop := forall x y, In x l -> In y l -> f x = f y -> x = y.

Lemma inj_on_incl f l l' : incl l' l -> inj_on f l -> inj_on f l'.
Proof. intros Hi H x y Hx Hy. apply H; auto. Qed.

Lemma NoDup_map_inj_on f l : inj_on f l -> NoDup l -> NoDup (map f l).
Proof.
  intros Hf. induction 1 as [|x l Hx Hn IH]; cbn [map]; constructor.
  - rewrite in_map_iff. intros (y & E & Hy). apply Hf in E; [|now right|now left]. now subst.
  - apply IH. eapply inj_on_incl; [|exact Hf]. intros z Hz. now right.
Qed.

(* ---- label selection under a locally injective renaming ---- *)
Lemma select_rename_local sr sp r ps a :
  inj_on sr (r :: map fst a) -> inj_on sp (ps ++ map snd a) ->
  select (sr r) (map sp ps) (rename sr sp a) = select r ps a.
Proof.
  intros Hr Hp. unfold select, rename. rewrite map_map. apply map_ext_in. intros v Hv. cbn [fst snd]. f_equal.
  - f_equal. destruct (fst v =? r) eqn:E.
    + apply Z.eqb_eq in E. rewrite E. apply Z.eqb_refl.
    + apply Z.eqb_neq. intros E'. apply Hr in E'; [apply Z.eqb_neq in E; contradiction| |now left].
      right. apply in_map_iff. eauto.
  - f_equal. destruct (memZ (snd v) ps) eqn:E.
    + apply memZ_spec. apply memZ_spec in E. now apply in_map.
    + destruct (memZ (sp (snd v)) (map sp ps)) eqn:E'; [|reflexivity]. apply memZ_spec, in_map_iff in E' as (p & Ep & Hin).
      apply Hp in Ep; [| apply in_or_app; now left | apply in_or_app; right; apply in_map_iff; eauto].
      subst p. apply memZ_spec in Hin. congruence.
Qed.

Section Rename.
  Variables (sr sp : Z -> Z) (a : arr2).
  Hypothesis Hr : inj_on sr (0 :: map fst a).
  Hypothesis Hp : inj_on sp (0 :: map snd a).
  Hypothesis Hr0 : sr 0 = 0.
  Hypothesis Hp0 : sp 0 = 0.
  (* a reference and a prediction instance carry the same label after renaming iff they did before *)
  Hypothesis Hcompat : forall r p, In r (ref_labels_of a) -> In p (pred_labels_of a) -> (sr r = sp p <-> r = p).

  Let a' := rename sr sp a.

  Lemma sr_nz r : In r (map fst a) -> (sr r <> 0 <-> r <> 0).
  Proof.
    intros H. split; intros Hn E; apply Hn; [now subst|]. rewrite <- Hr0 in E. apply Hr in E; auto; [now right|now left].
  Qed.
  Lemma sp_nz p : In p (map snd a) -> (sp p <> 0 <-> p <> 0).
  Proof.
    intros H. split; intros Hn E; apply Hn; [now subst|]. rewrite <- Hp0 in E. apply Hp in E; auto; [now right|now left].
  Qed.

  Lemma ref_labels_in r : In r (ref_labels_of a) -> In r (map fst a).
  Proof. intros H. apply ref_labels_spec in H as [_ (v & Hv & E)]. apply in_map_iff. eauto. Qed.
  Lemma pred_labels_in p : In p (pred_labels_of a) -> In p (map snd a).
  Proof. intros H. apply pred_labels_spec in H as [_ (v & Hv & E)]. apply in_map_iff. eauto. Qed.

  Lemma ref_labels_rename_in y : In y (ref_labels_of a') <-> In y (map sr (ref_labels_of a)).
  Proof.
    rewrite in_map_iff, ref_labels_spec. unfold a', rename. split.
    - intros [Hn (v & Hv & E)]. apply in_map_iff in Hv as (w & <- & Hw). cbn [fst] in E. exists (fst w). split; [exact E|].
      apply ref_labels_spec. split; [|eauto]. apply sr_nz; [apply in_map_iff; eauto|congruence].
    - intros (r & <- & Hin). pose proof (ref_labels_in r Hin) as Hm. apply ref_labels_spec in Hin as [Hn (v & Hv & E)].
      split; [now apply sr_nz|]. exists (sr (fst v), sp (snd v)). split; [apply in_map_iff; eauto|cbn [fst]; congruence].
  Qed.
  Lemma pred_labels_rename_in y : In y (pred_labels_of a') <-> In y (map sp (pred_labels_of a)).
  Proof.
    rewrite in_map_iff, pred_labels_spec. unfold a', rename. split.
    - intros [Hn (v & Hv & E)]. apply in_map_iff in Hv as (w & <- & Hw). cbn [snd] in E. exists (snd w). split; [exact E|].
      apply pred_labels_spec. split; [|eauto]. apply sp_nz; [apply in_map_iff; eauto|congruence].
    - intros (p & <- & Hin). pose proof (pred_labels_in p Hin) as Hm. apply pred_labels_spec in Hin as [Hn (v & Hv & E)].
      split; [now apply sp_nz|]. exists (sr (fst v), sp (snd v)). split; [apply in_map_iff; eauto|cbn [snd]; congruence].
  Qed.

  Lemma inj_ref_labels : inj_on sr (ref_labels_of a).
  Proof. eapply inj_on_incl; [|exact Hr]. intros r H. right. now apply ref_labels_in. Qed.
  Lemma inj_pred_labels : inj_on sp (pred_labels_of a).
  Proof. eapply inj_on_incl; [|exact Hp]. intros r H. right. now apply pred_labels_in. Qed.

  Lemma ref_labels_rename : Permutation (map sr (ref_labels_of a)) (ref_labels_of a').
  Proof.
    apply NoDup_Permutation; [apply NoDup_map_inj_on; [exact inj_ref_labels|apply uniqueZ_NoDup]|apply uniqueZ_NoDup|].
    intros y. symmetry. apply ref_labels_rename_in.
  Qed.
  Lemma pred_labels_rename : Permutation (map sp (pred_labels_of a)) (pred_labels_of a').
  Proof.
    apply NoDup_Permutation; [apply NoDup_map_inj_on; [exact inj_pred_labels|apply uniqueZ_NoDup]|apply uniqueZ_NoDup|].
    intros y. symmetry. apply pred_labels_rename_in.
  Qed.

  Lemma n_inst_rename : n_pred_inst a' = n_pred_inst a /\ n_ref_inst a' = n_ref_inst a.
  Proof.
    unfold n_pred_inst, n_ref_inst.
    rewrite <- (Permutation_length pred_labels_rename), <- (Permutation_length ref_labels_rename), !map_length. auto.
  Qed.

  Lemma matched_labels_spec b l : In l (matched_labels b) <-> In l (pred_labels_of b) /\ In l (ref_labels_of b).
  Proof. unfold matched_labels. rewrite filter_In, memZ_spec. tauto. Qed.
  Lemma matched_labels_NoDup b : NoDup (matched_labels b).
  Proof. unfold matched_labels. apply NoDup_filter, uniqueZ_NoDup. Qed.

  Lemma matched_labels_rename : Permutation (map sp (matched_labels a)) (matched_labels a').
  Proof.
    apply NoDup_Permutation.
    - apply NoDup_map_inj_on; [|apply matched_labels_NoDup].
      eapply inj_on_incl; [|exact inj_pred_labels]. intros l H. now apply matched_labels_spec in H.
    - apply matched_labels_NoDup.
    - intros y. rewrite matched_labels_spec, pred_labels_rename_in, ref_labels_rename_in, !in_map_iff. split.
      + intros (l & <- & Hl). apply matched_labels_spec in Hl as [H1 H2]. split; [eauto|].
        exists l. split; [|exact H2]. now apply (Hcompat l l H2 H1).
      + intros [(p & <- & Hpin) (r & E & Hrin)]. apply (Hcompat r p Hrin Hpin) in E. subst r.
        exists p. split; [reflexivity|]. now apply matched_labels_spec.
  Qed.

  (* ---- per-instance values ---- *)
  Variables (x x' : ext).
  Hypothesis Hext : forall m l, In l (matched_labels a) -> x_inst x' m (sp l) = x_inst x m l.

  Lemma instance_value_rename l m : In l (matched_labels a) -> instance_value x' a' (sp l) m = instance_value x a l m.
  Proof.
    intros Hl. pose proof Hl as Hl'. apply matched_labels_spec in Hl' as [H1 H2].
    assert (Es : sp l = sr l) by (symmetry; now apply (Hcompat l l H2 H1)).
    assert (Esel : select (sp l) [sp l] a' = select l [l] a).
    { rewrite Es at 1. change [sp l] with (map sp [l]). apply select_rename_local.
      - eapply inj_on_incl; [|exact Hr]. intros z [<-|Hz]; right; [now apply ref_labels_in|exact Hz].
      - eapply inj_on_incl; [|exact Hp]. intros z Hz. cbn [app] in Hz. destruct Hz as [<-|Hz]; right; [now apply pred_labels_in|exact Hz]. }
    unfold instance_value, iou, dice, rvd, metric_input. rewrite Esel. destruct m; try reflexivity; now rewrite Hext.
  Qed.
  Lemma instance_dict_rename l ems : In l (matched_labels a) -> instance_dict x' a' (sp l) ems = instance_dict x a l ems.
  Proof.
    intros Hl. induction ems as [|m ems IH]; cbn [instance_dict]; [reflexivity|]. now rewrite instance_value_rename, IH.
  Qed.
  Lemma all_dicts_rename ls ems : (forall l, In l ls -> In l (matched_labels a)) ->
    all_dicts x' a' (map sp ls) ems = all_dicts x a ls ems.
  Proof.
    intros H. induction ls as [|l ls IH]; cbn [map all_dicts]; [reflexivity|].
    rewrite instance_dict_rename, IH; auto; intros; apply H; now (left + right).
  Qed.
End Rename.

(* ---- all_dicts over a permuted label list ---- *)
Lemma instance_value_err x a l m e : instance_value x a l m = Err e -> e = E_ZERODIV.
Proof.
  unfold instance_value, rvd, rvd_raw, rvd_exact. destruct m; try discriminate.
  destruct (_ && _); [discriminate|]. destruct (_ =? 0); [now intros [= <-]|discriminate].
Qed.
Lemma instance_dict_err x a l ems e : instance_dict x a l ems = Err e -> e = E_ZERODIV.
Proof.
  induction ems as [|m ems IH]; cbn [instance_dict]; [discriminate|].
  destruct (instance_value x a l m) eqn:E; [|intros [= <-]; eapply instance_value_err; eauto].
  destruct (instance_dict x a l ems); [discriminate|]. intros [= <-]. now apply IH.
Qed.

Definition dicts_of (x : ext) (a : arr2) (ems : list metric) (ls : list Z) : list (res (list (metric * Q))) :=
  map (fun l => instance_dict x a l ems) ls.
Fixpoint collect {A} (l : list (res A)) : res (list A) :=
  match l with
  | [] => Ok []
  | Err c :: _ => Err c
  | Ok d :: t => match collect t with Err c => Err c | Ok r => Ok (d :: r) end
  end.
Lemma all_dicts_collect x a ls ems : all_dicts x a ls ems = collect (dicts_of x a ems ls).
Proof.
  induction ls as [|l ls IH]; cbn [all_dicts dicts_of map collect]; [reflexivity|].
  destruct (instance_dict x a l ems); [|reflexivity]. fold (dicts_of x a ems ls). now rewrite IH.
Qed.
Lemma collect_perm {A} (l l' : list (res A)) : Permutation l l' -> (forall e, In (Err e) l -> e = E_ZERODIV) ->
  match collect l, collect l' with
  | Ok r, Ok r' => Permutation r r'
  | Err e, Err e' => e = e'
  | _, _ => False
  end.
Proof.
  induction 1 as [|y l l' Hp IH|y z l|l l' l'' H1 IH1 H2 IH2]; intros He; cbn [collect].
  - constructor.
  - destruct y as [d|c]; [|reflexivity]. assert (He' : forall e, In (Err e) l -> e = E_ZERODIV) by (intros; apply He; now right).
    specialize (IH He'). destruct (collect l), (collect l'); try contradiction; [now constructor|exact IH].
  - destruct y as [d|c], z as [d'|c']; cbn [collect].
    + destruct (collect l); [apply perm_swap|reflexivity].
    + reflexivity.
    + reflexivity.
    + rewrite (He c), (He c'); auto; [now left|right; now left].
  - specialize (IH1 He). assert (He' : forall e, In (Err e) l' -> e = E_ZERODIV).
    { intros e Hin. apply He. eapply Permutation_in; [apply Permutation_sym; exact H1|exact Hin]. }
    specialize (IH2 He'). destruct (collect l), (collect l'), (collect l''); try contradiction; try congruence.
    eapply Permutation_trans; eauto.
Qed.

Lemma all_dicts_perm_labels x a ls ls' ems : Permutation ls ls' ->
  match all_dicts x a ls ems, all_dicts x a ls' ems with
  | Ok r, Ok r' => Permutation r r'
  | Err e, Err e' => e = e'
  | _, _ => False
  end.
Proof.
  intros H. rewrite !all_dicts_collect. apply collect_perm; [unfold dicts_of; now apply Permutation_map|].
  intros e Hin. unfold dicts_of in Hin. apply in_map_iff in Hin as (l & E & _). eapply instance_dict_err; eauto.
Qed.

(* ---- the third phase and the result object ---- *)
Lemma filter_perm {A} (f : A -> bool) l l' : Permutation l l' -> Permutation (filter f l) (filter f l').
Proof.
  induction 1 as [|y l l' _ IH|y z l|l l' l'' _ IH1 _ IH2]; cbn [filter].
  - constructor.
  - destruct (f y); [now constructor|exact IH].
  - destruct (f y), (f z); try apply Permutation_refl. apply perm_swap.
  - eapply Permutation_trans; eauto.
Qed.
Lemma kept_lists_equiv (f : list (metric * Q) -> bool) d d' ms : Permutation d d' ->
  lists_equiv (map (fun m => (m, map (lookup_mq m) (filter f d))) ms) (map (fun m => (m, map (lookup_mq m) (filter f d'))) ms).
Proof.
  intros H. induction ms as [|m ms IH]; cbn [map]; constructor; [|exact IH]. cbn [fst snd]. split; [reflexivity|].
  apply Permutation_map. now apply filter_perm.
Qed.
Lemma filter_perm_length {A} (f : A -> bool) l l' : Permutation l l' -> length (filter f l) = length (filter f l').
Proof. intros H. apply Permutation_length. now apply filter_perm. Qed.

Lemma lists_equiv_refl l : lists_equiv l l.
Proof. induction l; constructor; auto. Qed.

Theorem eval_phase_rename sr sp a x x' c :
  inj_on sr (0 :: map fst a) -> inj_on sp (0 :: map snd a) -> sr 0 = 0 -> sp 0 = 0 ->
  (forall r p, In r (ref_labels_of a) -> In p (pred_labels_of a) -> (sr r = sp p <-> r = p)) ->
  (forall m l, In l (matched_labels a) -> x_inst x' m (sp l) = x_inst x m l) ->
  res_rel result_equiv (eval_phase x c a) (eval_phase x' c (rename sr sp a)).
Proof.
  intros Hr Hp Hr0 Hp0 Hc Hx.
  destruct (n_inst_rename sr sp a Hr Hp Hr0 Hp0) as [En Em].
  unfold eval_phase. rewrite En, Em.
  destruct (zero_case (n_pred_inst a) (n_ref_inst a)) as [[nr np]|].
  { apply panoptica_result_equiv; cbn [r_np r_nr r_tp r_handler r_lists]; auto. apply lists_equiv_refl. }
  unfold evaluate_matched. destruct (negb _); [reflexivity|].
  pose proof (all_dicts_perm_labels x' (rename sr sp a) _ _ (c_ems c) (matched_labels_rename sr sp a Hr Hp Hr0 Hp0 Hc)) as Hperm.
  rewrite (all_dicts_rename sr sp a Hr Hp Hc x x' Hx (matched_labels a) (c_ems c) (fun l H => H)) in Hperm.
  destruct (all_dicts x a (matched_labels a) (c_ems c)) as [d|e],
           (all_dicts x' (rename sr sp a) (matched_labels (rename sr sp a)) (c_ems c)) as [d'|e']; try contradiction; [|exact Hperm].
  apply panoptica_result_equiv; cbn [r_np r_nr r_tp r_handler r_lists]; auto.
  - f_equal. now apply filter_perm_length.
  - now apply kept_lists_equiv.
Qed.

(* matched input, one injective map for both arrays (the reading of C09 for matched pairs) *)
Corollary pipeline_matched_rename s a x x' c : c_matcher c = 0 ->
  inj_on s (0 :: map fst a ++ map snd a) -> s 0 = 0 ->
  (forall m l, In l (matched_labels a) -> x_inst x' m (s l) = x_inst x m l) ->
  res_rel result_equiv (pipeline x c a) (pipeline x' c (rename s s a)).
Proof.
  intros Hm Hs H0 Hx. unfold pipeline. rewrite Hm. cbn [Z.eqb].
  apply eval_phase_rename; auto.
  - eapply inj_on_incl; [|exact Hs]. intros z [<-|Hz]; [now left|right; apply in_or_app; now left].
  - eapply inj_on_incl; [|exact Hs]. intros z [<-|Hz]; [now left|right; apply in_or_app; now right].
  - intros r p Hrin Hpin. split; [|congruence]. intros E. apply Hs in E; auto; right; apply in_or_app.
    + left. apply ref_labels_spec in Hrin as [_ (v & Hv & Ev)]. apply in_map_iff. eauto.
    + right. apply pred_labels_spec in Hpin as [_ (v & Hv & Ev)]. apply in_map_iff. eauto.
Qed.
