(* C09 for unmatched instance input with the threshold matcher, whole pipeline: when competing
   candidates that meet the threshold have distinct scores (the matching is determined), renaming the
   reference labels and the prediction labels by two independent maps that are injective on the labels
   that occur and keep the background gives an equivalent result object. *)
From Pan Require Import Base.Common Base.Sx Base.Rnd64 Model.MetricTable Model.Metrics Model.EdgeCase Model.Result Model.ZeroCase
  Model.Matcher Model.Merge Model.Relabel Model.Pipeline Proofs.ListFacts Proofs.RelabelFacts Proofs.MetricsFacts Proofs.Matching
  Proofs.MatcherQ Proofs.C04Proofs Proofs.C01Proofs Proofs.Invariance Proofs.ResultEquiv Proofs.RenameInvariance.
From Coq Require Import Permutation ZifyBool.
Open Scope Z_scope.

(* ---- transport of the matching specification along a map that is injective / conflict-preserving
        on the candidates that occur ---- *)
Section TransportLocal.
  Variable score : Type.
  Variable geb : score -> score -> bool.
  Variable beats : score -> bool.
  Variable m2o : bool.
  Notation cand := (cand score).
  Variable f : Z * Z -> Z * Z.
  Variable cs : list cand.
  Notation mc := (mapc score f).
  Hypothesis f_conf : forall c d, In c cs -> In d cs -> conflictb m2o (mc c) (mc d) = conflictb m2o c d.
  Hypothesis f_inj : forall c d, In c cs -> In d cs -> f (snd c) = f (snd d) -> snd c = snd d.

  Lemma mapc_inj_local c d : In c cs -> In d cs -> mc c = mc d -> c = d.
  Proof.
    intros Hc Hd. destruct c as [s k], d as [s' k']. unfold mapc. cbn [fst snd]. intros [= -> E].
    apply (f_inj (s', k) (s', k') Hc Hd) in E. cbn [snd] in E. now subst.
  Qed.

  Lemma valid_transport_local M :
    valid score geb beats m2o cs M -> valid score geb beats m2o (map mc cs) (map mc M).
  Proof.
    intros (H1 & H2 & H4). repeat split.
    - intros c d Hc Hd Hcf. apply in_map_iff in Hc as (c0 & <- & Hc0). apply in_map_iff in Hd as (d0 & <- & Hd0).
      unfold conf in Hcf. rewrite f_conf in Hcf by (now apply H2). now rewrite (H1 c0 d0 Hc0 Hd0 Hcf).
    - apply in_map_iff in H as (c0 & <- & Hc0). apply in_map. now apply H2.
    - apply in_map_iff in H as (c0 & <- & Hc0). cbn. now apply H2.
    - intros c Hc Hb Hn. apply in_map_iff in Hc as (c0 & <- & Hc0).
      destruct (H4 c0 Hc0 Hb) as (d & Hd & Hcf & Hg); [intros Hin; apply Hn; now apply in_map|].
      exists (mc d). repeat split; [now apply in_map| |exact Hg]. unfold conf. rewrite f_conf; [exact Hcf|exact Hc0|now apply H2].
  Qed.

  Lemma competing_distinct_transport_local :
    competing_distinct score geb beats m2o cs -> competing_distinct score geb beats m2o (map mc cs).
  Proof.
    intros H c d Hc Hd Bc Bd Hcf Hne. apply in_map_iff in Hc as (c0 & <- & Hc0). apply in_map_iff in Hd as (d0 & <- & Hd0).
    apply (H c0 d0 Hc0 Hd0 Bc Bd); [unfold conf in *; now rewrite f_conf in Hcf|]. intros ->. now apply Hne.
  Qed.
End TransportLocal.

(* valid / competing_distinct only look at the members of the candidate list *)
Lemma valid_members {score} geb beats m2o (cs cs' M : list (cand score)) : (forall c, In c cs <-> In c cs') ->
  valid score geb beats m2o cs M -> valid score geb beats m2o cs' M.
Proof.
  intros E (H1 & H2 & H4). repeat split; [exact H1|apply E; now apply H2|now apply H2|].
  intros c Hc. apply H4. now apply E.
Qed.
Lemma competing_distinct_members {score} geb beats m2o (cs cs' : list (cand score)) : (forall c, In c cs <-> In c cs') ->
  competing_distinct score geb beats m2o cs -> competing_distinct score geb beats m2o cs'.
Proof. intros E H c d Hc Hd. apply H; now apply E. Qed.

Section Unmatched.
  Variables (sr sp : Z -> Z) (a : arr2).
  Hypothesis Hr : inj_on sr (0 :: map fst a).
  Hypothesis Hp : inj_on sp (0 :: map snd a).
  Hypothesis Hr0 : sr 0 = 0.
  Hypothesis Hp0 : sp 0 = 0.
  Let a' := rename sr sp a.
  Let f := fun rp : Z * Z => (sr (fst rp), sp (snd rp)).

  Lemma in_fst v : In v a -> In (fst v) (0 :: map fst a).
  Proof. intros H. right. now apply in_map. Qed.
  Lemma in_snd v : In v a -> In (snd v) (0 :: map snd a).
  Proof. intros H. right. now apply in_map. Qed.

  Lemma overlap_pairs_rename_local rp' :
    In rp' (overlap_pairs a') <-> exists rp, In rp (overlap_pairs a) /\ rp' = f rp.
  Proof.
    rewrite overlap_pairs_spec. unfold a', rename. rewrite in_map_iff. split.
    - intros [(v & <- & Hv) [Hn1 Hn2]]. cbn [fst snd] in Hn1, Hn2. exists v. split; [|destruct v; reflexivity].
      apply overlap_pairs_spec. split; [exact Hv|]. split; intros E; [apply Hn1|apply Hn2]; rewrite E; assumption.
    - intros (rp & Hin & ->). apply overlap_pairs_spec in Hin as (Hin & H1 & H2). split; [exists rp; split; [destruct rp; reflexivity|exact Hin]|].
      unfold f. cbn [fst snd]. split; intros E.
      + rewrite <- Hr0 in E. apply Hr in E; [contradiction|now apply in_fst|now left].
      + rewrite <- Hp0 in E. apply Hp in E; [contradiction|now apply in_snd|now left].
  Qed.

  Lemma f_inj_pairs rp rq : In rp (overlap_pairs a) -> In rq (overlap_pairs a) -> f rp = f rq -> rp = rq.
  Proof.
    intros H1 H2. apply overlap_pairs_spec in H1 as (H1 & _). apply overlap_pairs_spec in H2 as (H2 & _).
    unfold f. intros [= E1 E2]. apply Hr in E1; [|now apply in_fst|now apply in_fst]. apply Hp in E2; [|now apply in_snd|now apply in_snd].
    destruct rp, rq. cbn in *. congruence.
  Qed.

  Lemma score_overlap_rename m rp : In rp (overlap_pairs a) -> score_overlap m a' (f rp) = score_overlap m a rp.
  Proof.
    intros Hin. apply overlap_pairs_spec in Hin as (Hin & _).
    assert (E : select (sr (fst rp)) [sp (snd rp)] a' = select (fst rp) [snd rp] a).
    { change [sp (snd rp)] with (map sp [snd rp]). apply select_rename_local.
      - eapply inj_on_incl; [|exact Hr]. intros z [<-|Hz]; [now apply in_fst|now right].
      - eapply inj_on_incl; [|exact Hp]. intros z Hz. cbn [app] in Hz. destruct Hz as [<-|Hz]; [now apply in_snd|now right]. }
    unfold score_overlap, f, iou, dice, metric_input. cbn [fst snd]. rewrite E. reflexivity.
  Qed.

  Variables (x x' : ext).
  Hypothesis Hxp : forall rp, In rp (overlap_pairs a) -> x_pair x' (f rp) = x_pair x rp.

  Lemma cand_list_rename m c' :
    In c' (cand_list x' m a') <-> In c' (map (mapc Q f) (cand_list x m a)).
  Proof.
    assert (G : forall (s' : Z * Z -> Q) (s : Z * Z -> Q), (forall rp, In rp (overlap_pairs a) -> s' (f rp) = s rp) ->
                In c' (map (fun rp => (s' rp, rp)) (overlap_pairs a')) <-> In c' (map (mapc Q f) (map (fun rp => (s rp, rp)) (overlap_pairs a)))).
    { intros s' s Hs. rewrite map_map, !in_map_iff. unfold mapc. cbn [fst snd]. split.
      - intros (rp' & <- & Hin). apply overlap_pairs_rename_local in Hin as (rp & Hin & ->). exists rp. split; [now rewrite Hs|exact Hin].
      - intros (rp & <- & Hin). exists (f rp). split; [now rewrite Hs|]. apply overlap_pairs_rename_local. eauto. }
    unfold cand_list, candidates. destruct m; try (apply G; intros rp Hin; now apply score_overlap_rename).
    apply G. exact Hxp.
  Qed.

  Lemma conf_rename m2o m (c d : qcand) : In c (cand_list x m a) -> In d (cand_list x m a) ->
    conflictb m2o (mapc Q f c) (mapc Q f d) = conflictb m2o c d.
  Proof.
    intros Hc Hd. apply cand_list_pairs, overlap_pairs_spec in Hc as (Hc & _). apply cand_list_pairs, overlap_pairs_spec in Hd as (Hd & _).
    unfold conflictb, same_predb, competingb, mapc, cref, cpred, f. cbn [fst snd].
    assert (E1 : (sr (fst (snd c)) =? sr (fst (snd d))) = (fst (snd c) =? fst (snd d))).
    { destruct (Z.eqb_spec (sr (fst (snd c))) (sr (fst (snd d)))) as [E|E], (Z.eqb_spec (fst (snd c)) (fst (snd d))) as [E'|E']; try reflexivity;
        [apply Hr in E; [contradiction|now apply in_fst|now apply in_fst]|rewrite E' in E; contradiction]. }
    assert (E2 : (sp (snd (snd c)) =? sp (snd (snd d))) = (snd (snd c) =? snd (snd d))).
    { destruct (Z.eqb_spec (sp (snd (snd c))) (sp (snd (snd d)))) as [E|E], (Z.eqb_spec (snd (snd c)) (snd (snd d))) as [E'|E']; try reflexivity;
        [apply Hp in E; [contradiction|now apply in_snd|now apply in_snd]|rewrite E' in E; contradiction]. }
    rewrite E1, E2. reflexivity.
  Qed.
End Unmatched.

(* ---- the relabelled arrays of the two runs differ by a renaming again ---- *)
Lemma has_key_iff p (M : lmap) : has_key p M = true <-> exists r, In (p, r) M.
Proof.
  unfold has_key. destruct (lookupZ p M) as [r|] eqn:E.
  - split; [intros _; exists r; now apply lookupZ_In|reflexivity].
  - split; [discriminate|]. intros [r Hin]. apply lookupZ_None in E. exfalso. apply E. apply in_map_iff. exists (p, r). auto.
Qed.

Section Tau.
  Variables (sr sp : Z -> Z) (a : arr2) (L L' : lmap).
  Hypothesis Hr : inj_on sr (0 :: map fst a).
  Hypothesis Hp : inj_on sp (0 :: map snd a).
  Hypothesis Hr0 : sr 0 = 0.
  Hypothesis Hp0 : sp 0 = 0.
  Let a' := rename sr sp a.
  Hypothesis Hnn : nonneg_arr a.
  Hypothesis Hnn' : nonneg_arr a'.
  Hypothesis Hwf : wf_matching L a.
  Hypothesis Hwf' : wf_matching L' a'.
  Hypothesis HL : forall p' r', In (p', r') L' <-> exists p r, In (p, r) L /\ p' = sp p /\ r' = sr r.

  Let pls := pred_labels_of a.
  Let mx := maxZ (ref_labels_of a).
  Let g := new_label (full_map L pls mx).
  Let pls' := pred_labels_of a'.
  Let mx' := maxZ (ref_labels_of a').
  Let g' := new_label (full_map L' pls' mx').

  Lemma sp_pls p : In p pls -> In (sp p) pls'.
  Proof. intros H. apply (pred_labels_rename_in sr sp a Hp Hp0). now apply in_map. Qed.
  Lemma sp_inj_pls p q : In p pls -> In q pls -> sp p = sp q -> p = q.
  Proof. intros H1 H2. apply Hp; right; now apply pred_labels_in. Qed.
  Lemma sr_inj_refs r s : In r (ref_labels_of a) -> In s (ref_labels_of a) -> sr r = sr s -> r = s.
  Proof. intros H1 H2. apply Hr; right; now apply ref_labels_in. Qed.

  Lemma g_matched p r : In (p, r) L -> g p = r.
  Proof. apply matched_label. exact (proj1 Hwf). Qed.
  Lemma g'_matched p r : In (p, r) L -> g' (sp p) = sr r.
  Proof. intros H. apply matched_label; [exact (proj1 Hwf')|]. apply HL. eauto. Qed.
  Lemma g_bg : g 0 = 0.
  Proof. apply background_kept; [apply pls_pos|apply (M_keys_ok L a Hwf)]. Qed.
  Lemma g'_bg : g' 0 = 0.
  Proof. apply background_kept; [apply pls_pos|apply (M_keys_ok L' a' Hwf')]. Qed.
  Lemma g_fg p : In p pls -> g p <> 0.
  Proof.
    intros H. apply foreground_kept; [exact (proj1 Hwf)|apply (M_refs_ok L a Hnn Hwf)|apply uniqueZ_NoDup|exact H|apply maxZ_nonneg].
  Qed.
  Lemma g'_fg p : In p pls -> g' (sp p) <> 0.
  Proof.
    intros H. apply foreground_kept; [exact (proj1 Hwf')|apply (M_refs_ok L' a' Hnn' Hwf')|apply uniqueZ_NoDup|now apply sp_pls|apply maxZ_nonneg].
  Qed.

  Lemma key_rename p : In p pls -> has_key (sp p) L' = has_key p L.
  Proof.
    intros Hin. destruct (has_key p L) eqn:E.
    - apply has_key_iff in E as [r Hr']. apply has_key_iff. exists (sr r). apply HL. eauto.
    - destruct (has_key (sp p) L') eqn:E'; [|reflexivity]. apply has_key_iff in E' as [r' Hr']. apply HL in Hr' as (q & r & Hq & Es & _).
      apply sp_inj_pls in Es; [|exact Hin|apply (M_keys_ok L a Hwf q r Hq)]. subst q.
      assert (has_key p L = true) by (apply has_key_iff; eauto). congruence.
  Qed.

  Lemma K p q : In p pls -> In q pls -> (g p = g q <-> g' (sp p) = g' (sp q)).
  Proof.
    intros H1 H2. unfold g, g'.
    rewrite (same_label_iff L pls mx (proj1 Hwf) (M_refs_ok L a Hnn Hwf) (uniqueZ_NoDup _) p q H1 H2).
    rewrite (same_label_iff L' pls' mx' (proj1 Hwf') (M_refs_ok L' a' Hnn' Hwf') (uniqueZ_NoDup _) (sp p) (sp q) (sp_pls p H1) (sp_pls q H2)).
    split.
    - intros [->|(r & Hp1 & Hq1)]; [now left|]. right. exists (sr r). split; apply HL; eauto.
    - intros [E|(r' & Hp1 & Hq1)]; [left; now apply sp_inj_pls|]. right.
      apply HL in Hp1 as (p1 & r1 & Hin1 & Es1 & ->). apply HL in Hq1 as (q1 & r2 & Hin2 & Es2 & Er).
      apply sp_inj_pls in Es1; [|exact H1|apply (M_keys_ok L a Hwf p1 r1 Hin1)].
      apply sp_inj_pls in Es2; [|exact H2|apply (M_keys_ok L a Hwf q1 r2 Hin2)]. subst p1 q1.
      apply sr_inj_refs in Er; [|apply (proj2 Hwf p r1 Hin1)|apply (proj2 Hwf q r2 Hin2)]. subst r2. eauto.
  Qed.
  Lemma K0 p q : In p (0 :: pls) -> In q (0 :: pls) -> (g p = g q <-> g' (sp p) = g' (sp q)).
  Proof.
    intros [<-|H1] [<-|H2].
    - tauto.
    - rewrite Hp0, g_bg, g'_bg. pose proof (g_fg q H2). pose proof (g'_fg q H2). split; congruence.
    - rewrite Hp0, g_bg, g'_bg. pose proof (g_fg p H1). pose proof (g'_fg p H1). split; congruence.
    - now apply K.
  Qed.

  Definition tau (y : Z) : Z :=
    match find (fun p => g p =? y) (0 :: pls) with Some p => g' (sp p) | None => 0 end.
  Lemma tau_g p : In p (0 :: pls) -> tau (g p) = g' (sp p).
  Proof.
    intros Hin. unfold tau. destruct (find (fun q => g q =? g p) (0 :: pls)) as [q|] eqn:E.
    - apply find_some in E as [Hq Eq]. apply Z.eqb_eq in Eq. now apply K0.
    - apply (find_none _ _ E) in Hin. apply Z.eqb_neq in Hin. congruence.
  Qed.
  Lemma tau_0 : tau 0 = 0.
  Proof. rewrite <- g_bg at 1. rewrite tau_g by now left. now rewrite Hp0, g'_bg. Qed.

  Lemma snd_in_pls v : In v a -> In (snd v) (0 :: pls).
  Proof. intros Hv. destruct (Z.eq_dec (snd v) 0) as [E|E]; [left; congruence|right; now apply arr_new_label]. Qed.

  Let b := map_instance_labels L a.
  Let b' := map_instance_labels L' a'.

  Lemma relabelled_rename : b' = rename sr tau b.
  Proof.
    unfold b', b, map_instance_labels, relabel, a', rename. rewrite !map_map. apply map_ext_in. intros v Hv. cbn [fst snd].
    f_equal. fold a'. fold pls'. fold mx'. fold g'. fold pls. fold mx. fold g. symmetry. apply tau_g. now apply snd_in_pls.
  Qed.

  Lemma snd_b y : In y (0 :: map snd b) -> exists p, In p (0 :: pls) /\ y = g p.
  Proof.
    intros [<-|H]; [exists 0; split; [now left|now rewrite g_bg]|].
    unfold b, map_instance_labels, relabel in H. rewrite map_map in H. apply in_map_iff in H as (v & <- & Hv). cbn [snd].
    exists (snd v). split; [now apply snd_in_pls|reflexivity].
  Qed.
  Lemma tau_inj : inj_on tau (0 :: map snd b).
  Proof.
    intros y z Hy Hz E. apply snd_b in Hy as (p & Hpin & ->). apply snd_b in Hz as (q & Hqin & ->).
    rewrite !tau_g in E by assumption. now apply K0.
  Qed.
  Lemma sr_inj_b : inj_on sr (0 :: map fst b).
  Proof. unfold b, map_instance_labels. now rewrite relabel_ref_unchanged. Qed.

  Lemma tau_compat r q : In r (ref_labels_of b) -> In q (pred_labels_of b) -> (sr r = tau q <-> r = q).
  Proof.
    intros Hrin Hqin. unfold b in Hrin. rewrite ref_labels_relabel in Hrin.
    apply pred_labels_spec in Hqin as [Hq0 (w & Hw & Ew)].
    unfold b, map_instance_labels, relabel in Hw. apply in_map_iff in Hw as (v & <- & Hv). cbn [snd] in Ew.
    fold pls in Ew. fold mx in Ew. fold g in Ew. subst q.
    assert (Hin : In (snd v) pls).
    { destruct (snd_in_pls v Hv) as [E|H]; [|exact H]. rewrite <- E, g_bg in Hq0. contradiction. }
    rewrite tau_g by now right. destruct (has_key (snd v) L) eqn:Ek.
    - apply has_key_iff in Ek as [r0 Hr0']. rewrite (g_matched _ _ Hr0'), (g'_matched _ _ Hr0'). split; [|congruence].
      apply sr_inj_refs; [exact Hrin|apply (proj2 Hwf _ _ Hr0')].
    - pose proof (fresh_outside_refs L pls mx (uniqueZ_NoDup _) (snd v) Hin Ek) as H1. fold g in H1.
      pose proof (key_rename (snd v) Hin) as Ek'. rewrite Ek in Ek'.
      pose proof (fresh_outside_refs L' pls' mx' (uniqueZ_NoDup _) (sp (snd v)) (sp_pls _ Hin) Ek') as H2. fold g' in H2.
      pose proof (maxZ_ge r _ Hrin) as H3. fold mx in H3.
      assert (H4 : sr r <= mx').
      { apply maxZ_ge. apply (ref_labels_rename_in sr sp a Hr Hr0). now apply in_map. }
      split; intros E; lia.
  Qed.

  Lemma tau_matched l : In l (matched_labels b) -> tau l = sr l /\ In l (ref_labels_of a).
  Proof.
    intros H. apply (matched_labels_relabel L a Hnn Hwf) in H as [p Hin].
    rewrite <- (g_matched p l Hin) at 1. rewrite tau_g; [|right; apply (M_keys_ok L a Hwf p l Hin)].
    split; [now apply g'_matched|apply (proj2 Hwf p l Hin)].
  Qed.

  Theorem eval_after_matching_rename x x' c :
    (forall m l, In l (ref_labels_of a) -> x_inst x' m (sr l) = x_inst x m l) ->
    res_rel result_equiv (eval_phase x c b) (eval_phase x' c b').
  Proof.
    intros Hxi. rewrite relabelled_rename. apply eval_phase_rename.
    - exact sr_inj_b.
    - exact tau_inj.
    - exact Hr0.
    - exact tau_0.
    - exact tau_compat.
    - intros m l Hl. destruct (tau_matched l Hl) as [-> Hin]. now apply Hxi.
  Qed.
End Tau.

(* ---- the pipeline ---- *)
Theorem pipeline_naive_rename sr sp a x x' c :
  nonneg_arr a -> nonneg_arr (rename sr sp a) -> (c_matcher c = 1 \/ c_matcher c = 2) ->
  inj_on sr (0 :: map fst a) -> inj_on sp (0 :: map snd a) -> sr 0 = 0 -> sp 0 = 0 ->
  (forall rp, In rp (overlap_pairs a) -> x_pair x' (sr (fst rp), sp (snd rp)) = x_pair x rp) ->
  (forall m l, In l (ref_labels_of a) -> x_inst x' m (sr l) = x_inst x m l) ->
  competing_distinct Q (better_eq (decreasing (c_mmetric c))) (fun s => beats (decreasing (c_mmetric c)) s (c_mthr c))
    (c_matcher c =? 2) (cand_list x (c_mmetric c) a) ->
  res_rel result_equiv (pipeline x c a) (pipeline x' c (rename sr sp a)).
Proof.
  intros Hnn Hnn' Hk Hr Hp Hr0 Hp0 Hxp Hxi Hties.
  set (f := fun rp : Z * Z => (sr (fst rp), sp (snd rp))).
  set (decr := decreasing (c_mmetric c)) in *. set (m2o := c_matcher c =? 2) in *.
  set (cs := cand_list x (c_mmetric c) a) in *. set (cs' := cand_list x' (c_mmetric c) (rename sr sp a)).
  unfold pipeline. assert (E0 : (c_matcher c =? 0) = false) by (destruct Hk as [-> | ->]; reflexivity). rewrite E0.
  destruct (n_inst_rename sr sp a Hr Hp Hr0 Hp0) as [En Em]. rewrite En, Em.
  destruct (zero_case (n_pred_inst a) (n_ref_inst a)) as [[nr np]|].
  { apply panoptica_result_equiv; cbn [r_np r_nr r_tp r_handler r_lists]; auto. apply lists_equiv_refl. }
  destruct (match_phase_naive x c a Hk) as (M & _ & Hmp & H1 & H2 & _ & H4 & Hwf).
  destruct (match_phase_naive x' c (rename sr sp a) Hk) as (M' & _ & Hmp' & H1' & H2' & _ & H4' & Hwf').
  rewrite Hmp, Hmp'. fold decr in H2, H4, H2', H4'. fold m2o in H1, H2, H4, H1', H2', H4'. fold cs in H2, H4. fold cs' in H2', H4'.
  assert (Hmem : forall d, In d (map (mapc Q f) cs) <-> In d cs').
  { intros d. symmetry. apply (cand_list_rename sr sp a Hr Hp Hr0 Hp0 x x' Hxp). }
  assert (Hconf : forall u v : qcand, In u cs -> In v cs -> conflictb m2o (mapc Q f u) (mapc Q f v) = conflictb m2o u v).
  { intros u v. apply (conf_rename sr sp a Hr Hp x m2o). }
  assert (HMM : forall d, In d M' <-> In d (map (mapc Q f) M)).
  { apply (naive_match_unique decr m2o (c_mthr c) cs').
    - apply (competing_distinct_members _ _ _ _ _ Hmem). now apply competing_distinct_transport_local.
    - split; [exact H1'|split; [exact H2'|exact H4']].
    - apply (valid_members _ _ _ _ _ _ Hmem). apply valid_transport_local; [exact Hconf|]. split; [exact H1|split; [exact H2|exact H4]]. }
  apply (eval_after_matching_rename sr sp a (lmap_of M) (lmap_of M') Hr Hp Hr0 Hp0 Hnn Hnn' Hwf Hwf'); [|exact Hxi].
  intros p' r'. unfold lmap_of. rewrite in_map_iff. split.
  - intros (d' & [= <- <-] & Hd'). apply HMM in Hd'. apply in_map_iff in Hd' as (d & <- & Hd).
    exists (cpred d), (cref d). split; [apply in_map_iff; eauto|]. split; reflexivity.
  - intros (p & r & Hin & -> & ->). apply in_map_iff in Hin as (d & [= <- <-] & Hd).
    exists (mapc Q f d). split; [reflexivity|]. apply HMM. now apply in_map.
Qed.
