(* C12 -- class groups are evaluated independently and completely.
   [run single arr] is the evaluation without groups (single = as one already-matched instance with the
   decision threshold forced to 0.0); gs the groups; a the (reference, prediction) voxel list. *)
From Pan Require Import Base.Common Model.Metrics Model.Groups Proofs.GroupsFacts.
From Pan Require Import Model.Pipeline Proofs.C04Proofs Proofs.Invariance Proofs.GroupsPipeline.
From Coq Require Import Permutation.
Open Scope Z_scope.

(* the result of each group is the ungrouped evaluation of the arrays restricted to its labels *)
Theorem C12_group_result_is_restricted_evaluation : forall R (run : bool -> arr2 -> R) matched gs a out,
  evaluate_groups R run matched gs a = Ok out ->
  out = map (fun g => (g_name g, run (use_single (g_kind g) matched) (extract_arr g a))) gs.
Proof. intros R run matched gs a out. unfold evaluate_groups. destruct (labels_defined gs a); [now intros [= <-]|discriminate]. Qed.

(* restriction keeps exactly the group's labels (binarised for merge groups) and erases the rest *)
Theorem C12_restriction : forall ls x,
  (In x ls -> extract ls false x = x) /\ (~ In x ls -> extract ls false x = 0 /\ extract ls true x = 0) /\
  (In x ls -> x <> 0 -> extract ls true x = 1).
Proof.
  intros ls x. split; [apply extract_in|]. split; [intros H; split; now apply extract_out|apply extract_merge].
Qed.

(* voxels of other groups never influence a group's result *)
Theorem C12_noninterference : forall R (run : bool -> arr2 -> R) matched g a a',
  Forall2 (fun v w => agree (g_labels g) (fst v) (fst w) /\ agree (g_labels g) (snd v) (snd w)) a a' ->
  run (use_single (g_kind g) matched) (extract_arr g a) = run (use_single (g_kind g) matched) (extract_arr g a').
Proof. intros R run matched g a a' H. now rewrite (extract_arr_noninterference g a a' H). Qed.

(* a non-zero label that belongs to no group is rejected, never silently ignored *)
Theorem C12_undefined_label_rejected : forall R (run : bool -> arr2 -> R) matched gs a v,
  In v a -> ((fst v <> 0 /\ ~ In (fst v) (all_labels gs)) \/ (snd v <> 0 /\ ~ In (snd v) (all_labels gs))) ->
  evaluate_groups R run matched gs a = Err E_ASSERT.
Proof.
  intros R run matched gs a v Hv Hbad. unfold evaluate_groups. destruct (labels_defined gs a) eqn:E; [|reflexivity].
  exfalso. pose proof (proj1 (labels_defined_spec gs a) E) as E'. destruct (E' v Hv) as [H1 H2]. destruct Hbad as [[N1 N2]|[N1 N2]]; tauto.
Qed.
Theorem C12_single_instance_mode : forall k matched,
  use_single k matched = true <-> (k = GSingle /\ matched = false).
Proof. intros k matched. destruct k, matched; cbn; split; intros H; try discriminate; try tauto; destruct H; discriminate. Qed.

(* the names of the groups are keys only: two group lists that differ in their names alone (also a user's group called like the
   library's own key for "no groups", `ungrouped`) give the same results, entry by entry, or are rejected alike *)
Theorem C12_group_names_are_keys_only : forall R (run : bool -> arr2 -> R) matched gs gs' a,
  Forall2 (fun g g' => g_kind g = g_kind g' /\ g_labels g = g_labels g') gs gs' ->
  match evaluate_groups R run matched gs a, evaluate_groups R run matched gs' a with
  | Ok out, Ok out' => map snd out = map snd out' /\ map fst out = map g_name gs /\ map fst out' = map g_name gs'
  | Err e, Err e' => e = e'
  | _, _ => False
  end.
Proof.
  intros R run matched gs gs' a H.
  assert (Hl : all_labels gs = all_labels gs').
  { unfold all_labels. induction H as [|g g' t t' [_ Hg] _ IH]; cbn [flat_map]; [reflexivity|]. rewrite Hg, IH. reflexivity. }
  unfold evaluate_groups, labels_defined. rewrite <- Hl.
  destruct (forallb _ a); [|reflexivity].
  rewrite !map_map. cbn [fst snd]. split; [|split; reflexivity]. clear Hl.
  induction H as [|g g' t t' [Hk Hg] _ IH]; cbn [map]; [reflexivity|]. rewrite IH.
  unfold extract_arr. rewrite Hk, Hg. reflexivity.
Qed.

(* with the instance pipeline as the evaluation: the entry of a group depends only on the voxels where one of the arrays carries a
   label of that group, as a multiset of (reference, prediction) label pairs -- the other groups' voxels, the background, positions
   and order are irrelevant (matched input and the threshold matcher; composition with Props/C10) *)
Theorem C12_group_entry_depends_only_on_group_voxels : forall x c g a a',
  nonneg_arr a -> nonneg_arr a' -> (c_matcher c = 0 \/ c_matcher c = 1 \/ c_matcher c = 2) ->
  Permutation (strip (extract_arr g a)) (strip (extract_arr g a')) ->
  pipeline x c (extract_arr g a) = pipeline x c (extract_arr g a').
Proof. exact group_entry_foreground. Qed.
Theorem C12_grouped_evaluation_depends_only_on_group_voxels : forall x (cf : bool -> cfg) matched gs a a',
  nonneg_arr a -> nonneg_arr a' -> (forall b, c_matcher (cf b) = 0 \/ c_matcher (cf b) = 1 \/ c_matcher (cf b) = 2) ->
  labels_defined gs a = labels_defined gs a' ->
  (forall g, In g gs -> Permutation (strip (extract_arr g a)) (strip (extract_arr g a'))) ->
  evaluate_groups _ (fun single arr => pipeline x (cf single) arr) matched gs a =
  evaluate_groups _ (fun single arr => pipeline x (cf single) arr) matched gs a'.
Proof. exact grouped_results_foreground. Qed.
(* non-vacuity: different voxels of another group, an extra background voxel, another order -- same group voxels *)
Example C12_group_voxels_nonvacuous :
  let g1 := {| g_name := [103; 49]; g_kind := GPlain; g_labels := [1; 2] |} in
  let a := [(1, 2); (3, 4); (4, 0); (0, 1)] in let a' := [(0, 1); (0, 0); (1, 2); (3, 3); (0, 4)] in
  Permutation (strip (extract_arr g1 a)) (strip (extract_arr g1 a')) /\ extract_arr g1 a <> extract_arr g1 a'.
Proof. cbv zeta. split; [vm_compute; apply perm_swap|vm_compute; discriminate]. Qed.

Example C12_nonvacuous :
  let g1 := {| g_name := [103; 49]; g_kind := GPlain; g_labels := [1; 2] |} in
  let g2 := {| g_name := [103; 50]; g_kind := GMerge; g_labels := [3; 4] |} in
  let a := [(1, 2); (3, 4); (4, 0); (0, 1)] in
  extract_arr g1 a = [(1, 2); (0, 0); (0, 0); (0, 1)] /\ extract_arr g2 a = [(0, 0); (1, 1); (1, 0); (0, 0)] /\
  evaluate_groups _ (fun _ x => length x) false [g1; g2] ((5, 0) :: a) = Err E_ASSERT /\
  extract_arr g1 [(1, 2); (4, 3); (0, 3); (0, 1)] = extract_arr g1 a.
Proof. vm_compute. repeat split; reflexivity. Qed.
