(* C10 -- results are invariant under padding, translation, flips and axis permutation.
   In the geometry-free model such maps act on the voxel list as a permutation combined with the
   insertion/removal of background voxels (0,0).  ASSD, the only geometry-dependent metric, is
   invariant under translations, flips, axis permutations and the enclosing box by Props/C07. *)
From Pan Require Import Base.Common Model.MetricTable Model.Metrics Model.Matcher Model.Pipeline Proofs.C04Proofs Proofs.Invariance Proofs.PipelineInvariance Proofs.PaddingPipeline.
From Coq Require Import Permutation.
Open Scope Z_scope.

Theorem C10_metrics_permutation_invariant : forall sel a a', Permutation a a' ->
  iou sel a = iou sel a' /\ dice sel a = dice sel a' /\ rvd sel a = rvd sel a'.
Proof. exact metrics_perm. Qed.

Theorem C10_metrics_background_invariant : forall ri pis a, ri <> 0 -> ~ In 0 pis ->
  iou (Some (ri, pis)) a = iou (Some (ri, pis)) (strip a) /\
  dice (Some (ri, pis)) a = dice (Some (ri, pis)) (strip a) /\
  rvd (Some (ri, pis)) a = rvd (Some (ri, pis)) (strip a).
Proof. exact metrics_strip. Qed.

(* the candidate list -- pairs, scores AND order -- is identical, so the matcher sees the same input *)
Theorem C10_candidates_permutation_invariant : forall m a a', Permutation a a' -> candidates m a = candidates m a'.
Proof. exact candidates_perm. Qed.
Theorem C10_candidates_background_invariant : forall m a, candidates m a = candidates m (strip a).
Proof. exact candidates_strip. Qed.

(* END TO END (all counts, all IoU/Dice/RVD based results; ASSD through x, see C07): the result of the
   whole pipeline -- every input type that reaches it as instance maps, every matcher, metric, threshold,
   decision metric, handler -- is unchanged by any permutation of the voxels: flips, axis permutations,
   any memory order *)
Theorem C10_pipeline_permutation_invariant : forall x c a a', Permutation a a' -> pipeline x c a = pipeline x c a'.
Proof. exact pipeline_perm. Qed.

(* the evaluation phase (matched instances) depends only on the non-background voxels, up to order:
   padding, translation in a larger array, cropping empty margins *)
Theorem C10_evaluation_depends_on_foreground_only : forall x c a a',
  Permutation (strip a) (strip a') -> eval_phase x c a = eval_phase x c a'.
Proof. exact eval_phase_foreground. Qed.
Theorem C10_matched_input_padding_invariant : forall x c a a', c_matcher c = 0 ->
  Permutation (strip a) (strip a') -> pipeline x c a = pipeline x c a'.
Proof. exact pipeline_matched_foreground. Qed.
(* END TO END for padding / translation / cropping of empty margins (matched input and unmatched input with the threshold
   matcher, every metric, threshold, decision metric, handler): two label-map pairs with the same non-background voxels, up to
   order, have the same result; [nonneg_arr]: labels are non-negative (fresh labels are numbered past the largest reference label) *)
Theorem C10_pipeline_depends_on_foreground_only : forall x c a a', nonneg_arr a -> nonneg_arr a' ->
  (c_matcher c = 0 \/ c_matcher c = 1 \/ c_matcher c = 2) ->
  Permutation (strip a) (strip a') -> pipeline x c a = pipeline x c a'.
Proof. exact pipeline_foreground_naive. Qed.
(* the same for the merge matcher, provided the supplied combined scores agree with the candidate scores on single predictions *)
Theorem C10_pipeline_merge_matcher_padding_invariant : forall x c a, nonneg_arr a -> c_matcher c = 3 ->
  (forall cd, In cd (cand_list x (c_mmetric c) a) -> fst cd = x_union x (cref cd) [cpred cd]) ->
  pipeline x c (strip a) = pipeline x c a.
Proof. exact pipeline_strip_merge. Qed.
(* and the matcher sees the identical candidate list *)
Theorem C10_candidate_list_padding_invariant : forall x m a, cand_list x m (strip a) = cand_list x m a.
Proof. exact cand_list_strip. Qed.

Example C10_nonvacuous :
  let a := [(0, 0); (1, 1); (1, 2); (0, 0); (2, 2)] in
  let a' := [(2, 2); (1, 2); (1, 1)] in                          (* cropped and mirrored *)
  candidates IOU a = candidates IOU a' /\ Permutation (strip a) a'.
Proof.
  split; [vm_compute; reflexivity|]. cbn.
  apply perm_trans with [(1, 2); (1, 1); (2, 2)]; [apply perm_swap|].
  apply perm_trans with [(1, 2); (2, 2); (1, 1)]; [apply perm_skip, perm_swap|apply perm_swap].
Qed.
