(* C10 -- results are invariant under padding, translation, flips and axis permutation.
   In the geometry-free model such maps act on the voxel list as a permutation combined with the
   insertion/removal of background voxels (0,0).  ASSD, the only geometry-dependent metric, is
   invariant under translations, flips, axis permutations and the enclosing box by Props/C07. *)
From Pan Require Import Base.Common Model.MetricTable Model.Metrics Model.Matcher Proofs.Invariance.
From Coq Require Import Permutation.
Open Scope Z_scope.

Theorem C10_metrics_permutation_invariant : forall sel a a', Permutation a a' ->
  iou sel a = iou sel a' /\ dice sel a = dice sel a' /\ rvd sel a = rvd sel a'.
Proof. exact metrics_perm. Qed.

Theorem C10_metrics_background_invariant : forall ri pis a, ri <> 0 -> ~ In 0 pis ->
  iou (Some (ri, pis)) a = iou (Some (ri, pis)) (strip a) /\
  dice (Some (ri, pis)) a = dice (Some (ri, pis)) (strip a) /\
  rvd (Some (ri, pis)) a = rvd (Some (ri, pis)) (strip a).
Proof. exact metrics_strip. Qed.

(* the candidate list -- pairs, scores AND order -- is identical, so the matcher sees the same input *)
Theorem C10_candidates_permutation_invariant : forall m a a', Permutation a a' -> candidates m a = candidates m a'.
Proof. exact candidates_perm. Qed.
Theorem C10_candidates_background_invariant : forall m a, candidates m a = candidates m (strip a).
Proof. exact candidates_strip. Qed.

Example C10_nonvacuous :
  let a := [(0, 0); (1, 1); (1, 2); (0, 0); (2, 2)] in
  let a' := [(2, 2); (1, 2); (1, 1)] in                          (* cropped and mirrored *)
  candidates IOU a = candidates IOU a' /\ Permutation (strip a) a'.
Proof.
  split; [vm_compute; reflexivity|]. cbn.
  apply perm_trans with [(1, 2); (1, 1); (2, 2)]; [apply perm_swap|].
  apply perm_trans with [(1, 2); (2, 2); (1, 1)]; [apply perm_skip, perm_swap|apply perm_swap].
Qed.
