(* C17 -- aggregation survives crashes, restarts and neighbouring aggregators.
   Property theorems only; proofs live in Proofs/Agg*.v.  Model: Model/Aggregator.v.
   [session o b h cs]: a new process constructs an aggregator with setup/header h on an output file
   in state o and a (possibly stale, arbitrary) buffer file b, and will submit the calls cs.
   [hstep]: a step of the constructor or of a call, OR a crash (kill -9: all calls vanish, locks reset,
   both files stay as they are; possible in EVERY state, i.e. between any two file/lock operations,
   also inside the constructor and between creating a file and writing its header), OR a normal exit
   (atexit removes the buffer); the latter two start a new session with any setup and any calls.
   wf_out = "absent, or empty, or exactly one header followed by complete rows with distinct names". *)
From Coq Require Import Permutation.
From Pan Require Import Base.Common Model.Aggregator Proofs.AggBase Proofs.AggInv Proofs.AggSess Proofs.AggFinal
  Proofs.AggProgress Proofs.AggOracle Proofs.AggC17 Proofs.AggProg Proofs.AggMulti Model.AggHistory Proofs.AggHistoryFacts.

(* the four initial states of the property satisfy the invariant *)
Theorem C17_initial_states : forall h0 R,
  wf_out None /\ wf_out (Some []) /\ wf_out (Some [LH h0]) /\ (NoDup (names R) -> wf_out (Some (LH h0 :: map lrow R))).
Proof. exact wf_out_initial_states. Qed.

(* the invariant is preserved by every step, every crash point and every restart, from every such
   initial state and ANY buffer file content b *)
Theorem C17_invariant_preserved : forall o b h cs s,
  wf_out o -> all_idle cs -> hreach (session o b h cs) s -> wf_out (out s) /\ wf_outb (out s) = true.
Proof. exact c17_invariant. Qed.

(* existing lines are never altered or removed, by any step of any history *)
Theorem C17_rows_never_altered : forall o b h cs s s',
  wf_out o -> all_idle cs -> hreach (session o b h cs) s -> hstep s s' -> monob (out s) (out s') = true.
Proof. exact c17_rows_never_altered. Qed.

(* after ANY history (state sp), a new session s0 that runs uninterrupted to completion ends with:
   header once, the rows present at the restart unchanged and in place (finished subjects skipped),
   plus exactly one row for every other submitted name (unfinished ones evaluated again), each carrying
   the input of a submitted call *)
Theorem C17_restart_yields_exactly_the_subjects : forall o b h cs sp s0 s,
  wf_out o -> all_idle cs -> hreach (session o b h cs) sp -> sstep sp s0 -> areach s0 s -> all_done s ->
  exists new, out s = Some (LH (hdr s0) :: map lrow (rows_of (out sp) ++ new))
    /\ NoDup (names (rows_of (out sp) ++ new))
    /\ (forall x, In x (names (rows_of (out sp) ++ new)) <->
                  In x (names (rows_of (out sp))) \/ exists t, In t (calls s0) /\ is_eval t = true /\ cn t = x)
    /\ (forall r, In r new -> exists t, In t (calls s0) /\ is_eval t = true /\ crow t = r)
    /\ finalb (hdr s0) (rows_of (out sp)) (submitted (calls s0)) (out s) = true.
Proof. exact c17_restart. Qed.

(* ... and such a session does complete: if the file is absent, empty or carries this setup's header,
   the constructor does not fail, every schedule is bounded by the measure, and a schedule that cannot
   be extended has returned from the constructor and from every call *)
Theorem C17_restart_completes : forall o b h cs sp s0 n s,
  wf_out o -> all_idle cs -> hreach (session o b h cs) sp -> sstep sp s0 -> hdr_ok s0 -> asteps n s0 s ->
  (n + measure s <= measure s0)%nat /\ ctor s <> CFail
  /\ ((forall s', ~ astep false false s s') -> all_done s).
Proof. exact c17_restart_completes. Qed.

(* a different setup is rejected by the constructor without touching either file *)
Theorem C17_header_mismatch_rejected : forall h0 rest b h cs s,
  h0 <> h -> areach (session (Some (LH h0 :: rest)) b h cs) s ->
  out s = Some (LH h0 :: rest) /\ buf s = b /\ (ctor s = C0 \/ ctor s = CFail).
Proof. exact c17_header_mismatch. Qed.

(* several aggregators (own output file, own buffer file) sharing the two locks: every step of the
   combined system is, for each aggregator, either no change or a step that aggregator could take
   alone; hence every run of the combined system projects to a history of each aggregator alone, and
   all theorems above hold per aggregator *)
Theorem C17_noninterference_step : forall ms ms',
  mstep ms ms' -> Forall2 (fun s s' => s' = s \/ hstep s s') ms ms'.
Proof. exact mstep_projects. Qed.
Theorem C17_noninterference : forall m0 m, mreach m0 m -> Forall2 hreach m0 m.
Proof. exact mreach_projects. Qed.

(* no deadlock among several aggregators sharing the two locks (the constructor nests file-lock inside
   eval-lock; no call waits for the eval-lock while holding the file-lock): unless every aggregator's
   session has finished (or its constructor rejected the file), some step is enabled *)
Theorem C17_siblings_deadlock_free : forall ms,
  Forall (fun s => exists R0, SInv R0 s /\ nofail s) ms ->
  (exists s, In s ms /\ ~ mdone s) -> exists ms', mstep ms ms'.
Proof. exact mprogress. Qed.

(* the files of different aggregators are different files: the buffer name is derived injectively from
   the output name (T1 ties buf_prefix to the source), provided no output file is itself named like a
   sibling's buffer file *)
Theorem C17_files_disjoint : forall outs : list (list Z),
  NoDup outs -> (forall a b, In a outs -> In b outs -> b <> buf_name a) -> NoDup (outs ++ map buf_name outs).
Proof. exact file_names_disjoint. Qed.

(* the constructor's program counters are derived from the instruction list T1 re-extracts *)
Theorem C17_constructor_counters_from_instructions :
  flat prog_ctor = at_cpc C0 true false ++ at_cpc C0 false false ++ at_cpc CWriteH false false
                   ++ at_cpc CBuf false true ++ at_cpc CBufCreate false false ++ at_cpc CAcqE false false
                   ++ at_cpc CAcqF false false ++ at_cpc CLoad false false ++ at_cpc (CCopy []) false false
                   ++ at_cpc CRelF false false ++ at_cpc CRelE false false ++ at_cpc CDone false false.
Proof. exact ctor_pcs_from_program. Qed.

(* histories of several LIVE sessions of one output file (older aggregator objects stay in use next to newer ones;
   sequential: each submission completes, or is interrupted after its claim, before the next operation). From a file
   holding rows R, after ANY such history over the subjects subs, a fresh session resubmitting every subject ends with
   the earlier rows unchanged and in place, exactly one row per name, each subject present with its payload, no other
   rows -- and whatever is submitted afterwards through any session, old or new, changes nothing *)
Theorem C17_live_sessions_history : forall val subs R ops,
  NoDup (names R) -> (forall r, In r R -> snd r = val (fst r)) -> Forall (op_of val subs) ops ->
  let s1 := qrun (qstart R) ops in
  let s2 := qrun (qstep s1 QNew) (resubmit val subs) in
  (exists mid, qout s1 = R ++ mid) /\ (exists t, qout s2 = qout s1 ++ t)
  /\ NoDup (names (qout s2))
  /\ (forall n, In n subs -> In (n, val n) (qout s2))
  /\ (forall r, In r (qout s2) -> snd r = val (fst r) /\ In (fst r) (names R ++ subs))
  /\ (forall more, Forall (fun o => match o with QNew => False | QOk n _ | QDie n => In n subs end) more ->
        qrun s2 more = s2).
Proof. exact live_sessions_history. Qed.

(* ... and at every moment of every such history the output rows have distinct names, the buffer has distinct entries
   and lists every recorded name (so a recorded subject is never evaluated again) *)
Theorem C17_live_sessions_invariant : forall R ops,
  NoDup (names R) -> QInv (qrun (qstart R) ops).
Proof. intros R ops H. apply qrun_inv, qstart_inv, H. Qed.

(* non-vacuity: an interrupted claim of s2, a second session, s1 through the new and then through the old session;
   the fresh session's resubmission leaves exactly one row per subject *)
Example C17_live_sessions_nonvacuous :
  let s1 := [115; 49] in let s2 := [115; 50] in
  let val := fun n : name => if name_eqb n s1 then 1 else 2 in
  let ops := [QDie s2; QNew; QOk s1 1; QOk s1 1] in
  Forall (op_of val [s1; s2]) ops /\
  qout (qrun (qstep (qrun (qstart []) ops) QNew) (resubmit val [s1; s2])) = [(s1, 1); (s2, 2)].
Proof. cbv zeta. split; [repeat (constructor; [cbn; tauto|]); constructor|vm_compute; reflexivity]. Qed.

Theorem C17_scheduler_sound : forall ms e, exec_event ms e = ms \/ mstep ms (exec_event ms e).
Proof. exact exec_event_sound. Qed.

(* non-vacuity: file with header and row z, stale buffer [q]; session 1 claims "a" and is killed after
   the claim, before the row; session 2 writes the header check, rebuilds the claims, evaluates a and z:
   z skipped, a re-evaluated; a sibling aggregator on an absent file runs interleaved *)
Example C17_nonvacuous :
  let a := [97] in let z := [122] in let q := [113] in
  let s1 := session (Some [LH 7; LR z 1]) (Some [q]) 7 [mkEval a 5] in
  let s2 := session None None 8 [mkEval a 9] in
  let ev := repeat (EvCtor 0) 10 ++ repeat (EvCall 0 0) 4 ++ [EvCtor 1; EvCtor 1]
            ++ [EvCrash 0 7 [mkEval z 1; mkEval a 5]] ++ repeat (EvCtor 0) 10 ++ repeat (EvCtor 1) 10
            ++ [EvCall 0 0; EvCall 1 0; EvCall 0 1] ++ repeat (EvCall 0 0) 3 ++ repeat (EvCall 0 1) 8 ++ repeat (EvCall 1 0) 8 in
  match last (run_events [s1; s2] ev) [] with
  | [x; y] => all_doneb x = true /\ out x = Some [LH 7; LR z 1; LR a 5] /\ buf x = Some [z; a]
              /\ all_doneb y = true /\ out y = Some [LH 8; LR a 9]
  | _ => False
  end.
Proof. vm_compute. repeat split; reflexivity. Qed.
