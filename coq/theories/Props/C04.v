(* C04 -- relabelling after matching preserves both segmentations.
   a: one (reference label, prediction label) pair per voxel (labels non-negative: unsigned dtypes);
   M: any matching (prediction label -> reference label entries, functional, between labels that occur)
   produced by any matcher/option.  Integers are unbounded: after the widening repair the code never
   computes a label in a fixed width, so the statements hold for every dtype and instance count. *)
From Pan Require Import Base.Common Model.Metrics Model.Relabel Proofs.RelabelFacts Proofs.C04Proofs.
From Pan Require Import Proofs.RelabelSeq Proofs.FreshStart.
Open Scope Z_scope.

Definition lm_of (M : lmap) (a : arr2) : lmap := full_map M (pred_labels_of a) (maxZ (ref_labels_of a)).

Theorem C04_reference_unchanged : forall M a, map fst (map_instance_labels M a) = map fst a.
Proof. intros. apply relabel_ref_unchanged. Qed.

Theorem C04_foreground_unchanged : forall M a, nonneg_arr a -> wf_matching M a ->
  forall v, In v a -> (new_label (lm_of M a) (snd v) = 0 <-> snd v = 0).
Proof. intros M a Hn Hw. exact (relabel_foreground M a Hn Hw). Qed.

(* same partition into instances, except that predictions assigned to the same reference are merged *)
Theorem C04_partition_preserved : forall M a, nonneg_arr a -> wf_matching M a ->
  forall v w, In v a -> In w a -> snd v <> 0 -> snd w <> 0 ->
  (new_label (lm_of M a) (snd v) = new_label (lm_of M a) (snd w) <->
   (snd v = snd w \/ exists r, In (snd v, r) M /\ In (snd w, r) M)).
Proof. intros M a Hn Hw. exact (relabel_partition M a Hn Hw). Qed.

Theorem C04_matched_carries_reference_label : forall M a, wf_matching M a ->
  forall p r, In (p, r) M -> new_label (lm_of M a) p = r.
Proof. intros M a Hw. exact (relabel_matched M a Hw). Qed.

(* an unmatched prediction's label differs from every reference label (and, by the partition
   theorem, from every other prediction's label) *)
Theorem C04_unmatched_label_is_fresh : forall M a, nonneg_arr a -> wf_matching M a ->
  forall v r, In v a -> snd v <> 0 -> has_key (snd v) M = false -> In r (ref_labels_of a) ->
  new_label (lm_of M a) (snd v) <> r.
Proof. intros M a _ _. exact (relabel_fresh M a). Qed.

(* non-vacuity: reference label 255, one matched and two unmatched predictions *)
Example C04_nonvacuous :
  let a := [(255, 7); (255, 7); (0, 9); (3, 0); (0, 4)] in
  map_instance_labels [(7, 255)] a = [(255, 255); (255, 255); (0, 257); (3, 0); (0, 256)]
  /\ pred_labels_of a = [4; 7; 9] /\ ref_labels_of a = [3; 255].
Proof. vm_compute. repeat split; reflexivity. Qed.

(* ---- the label map has to be applied AT ONCE (the lookup table of _map_labels is indexed by the ORIGINAL values): applying its entries
   one after the other to the array being rewritten gives the same result exactly when no entry's new label is the old label of a
   later entry -- and a matching does produce such chains (prediction 5 -> reference 7 while another prediction is labelled 7) *)
Theorem C04_sequential_relabelling_equals_table_without_chains : forall lm a,
  chain_free lm -> relabel_seq lm a = relabel lm a.
Proof. exact relabel_seq_equals_table. Qed.

Theorem C04_sequential_relabelling_refuted_on_chains :
  let lm := [(5, 7); (7, 9)] in let a : arr2 := [(7, 5); (9, 7)] in
  relabel lm a = [(7, 7); (9, 9)] /\ relabel_seq lm a = [(7, 9); (9, 9)].
Proof. exact relabel_seq_chain_differs. Qed.


(* ---- where the fresh labels may start: ANY start at or above the largest reference label keeps the unmatched predictions apart from
   every reference label; the number of reference labels is such a start only when no label exceeds it (labels 1..n), and is refuted on
   the reference labels {1, 3}, where the unmatched prediction receives the reference label 3 *)
Theorem C04_any_start_above_the_largest_reference_label_is_fresh : forall M a s v r,
  (forall r', In r' (ref_labels_of a) -> r' <= s) ->
  In v a -> snd v <> 0 -> has_key (snd v) M = false -> In r (ref_labels_of a) ->
  new_label (full_map M (pred_labels_of a) s) (snd v) <> r.
Proof. exact fresh_start_safe. Qed.

Theorem C04_start_at_the_reference_count_refuted :
  let a : arr2 := [(1, 1); (3, 3); (0, 9)] in let M : lmap := [(1, 1); (3, 3)] in
  new_label (full_map M (pred_labels_of a) (Z.of_nat (length (ref_labels_of a)))) 9 = 3 /\
  In 3 (ref_labels_of a) /\
  new_label (full_map M (pred_labels_of a) (maxZ (ref_labels_of a))) 9 = 4.
Proof. exact fresh_start_count_refuted. Qed.

(* ---- how wide the relabelled prediction is: all its labels lie in [0, max(reference labels) + number of prediction labels]; the
   bound is reached, so a type that holds the reference labels need not hold the relabelled prediction: casting it back to the
   reference's 8-bit type is refuted on reference label 255 with one unmatched prediction (fresh label 256 -> 0: the instance vanishes) *)
Theorem C04_new_labels_are_bounded : forall M a v, wf_matching M a -> nonneg_arr a -> In v a ->
  0 <= new_label (lm_of M a) (snd v) <= maxZ (ref_labels_of a) + Z.of_nat (length (pred_labels_of a)).
Proof. exact new_label_bound. Qed.

Theorem C04_narrowing_to_the_reference_type_refuted :
  let a : arr2 := [(255, 7); (0, 9)] in let M : lmap := [(7, 255)] in
  map snd (map_instance_labels M a) = [255; 256] /\
  map (fun x => x mod 2 ^ 8) (map snd (map_instance_labels M a)) = [255; 0].
Proof. exact narrowing_cast_refuted. Qed.
