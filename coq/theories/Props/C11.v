(* C11 -- exchanging prediction and reference mirrors the result. *)
From Pan Require Import Base.Common Model.MetricTable Model.Metrics Model.Matcher Proofs.Matching Proofs.MatcherQ
  Proofs.MetricsFacts Proofs.Invariance.
Open Scope Z_scope.

(* IoU and Dice of a pair are unchanged when the roles are exchanged *)
Theorem C11_symmetric_metrics : forall r p a,
  iou (Some (r, [p])) (swap2 a) = iou (Some (p, [r])) a /\ dice (Some (r, [p])) (swap2 a) = dice (Some (p, [r])) a.
Proof. exact metrics_exchange. Qed.

(* RVD r becomes -r/(1+r) (exact quotients, both volumes non-zero) *)
Theorem C11_rvd_mirrored : forall x y, x <> 0 -> y <> 0 ->
  (qdiv (x - y) y == - (qdiv (y - x) x) / (1 + qdiv (y - x) x))%Q.
Proof. exact rvd_exchange. Qed.

(* one-to-one matching: M is a valid matching of cs iff the exchanged M is one of the exchanged cs, and
   tie-freeness is preserved; with C03's uniqueness the matched pairs mirror each other, hence the same
   tp, fp and fn exchanged (C02: fp = num_pred - tp, fn = num_ref - tp) *)
Theorem C11_matching_mirrored : forall decr thr (cs M : list qcand),
  let f := fun rp : Z * Z => (snd rp, fst rp) in
  valid Q (better_eq decr) (fun s => beats decr s thr) false cs M ->
  valid Q (better_eq decr) (fun s => beats decr s thr) false (map (mapc Q f) cs) (map (mapc Q f) M).
Proof.
  intros decr thr cs M f. apply valid_transport.
  intros c d. apply exchange_conf.
Qed.
Theorem C11_uniqueness_mirrored : forall decr thr (cs : list qcand),
  let f := fun rp : Z * Z => (snd rp, fst rp) in
  competing_distinct Q (better_eq decr) (fun s => beats decr s thr) false cs ->
  competing_distinct Q (better_eq decr) (fun s => beats decr s thr) false (map (mapc Q f) cs).
Proof.
  intros decr thr cs f. apply competing_distinct_transport.
  intros c d. apply exchange_conf.
Qed.

Example C11_nonvacuous :
  let a := [(1, 5); (1, 5); (1, 0); (0, 5)] in
  iou (Some (5, [1])) (swap2 a) = iou (Some (1, [5])) a /\
  match rvd (Some (1, [5])) [(1, 5); (1, 0)], rvd (Some (5, [1])) (swap2 [(1, 5); (1, 0)]) with
  | Ok q, Ok q' => Qeq_bool q (-1 # 2) = true /\ Qeq_bool q' 1 = true /\ Qeq_bool q' (- q / (1 + q)) = true
  | _, _ => False end.
Proof. vm_compute. repeat split; reflexivity. Qed.
