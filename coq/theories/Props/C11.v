(* C11 -- exchanging prediction and reference mirrors the result. *)
From Pan Require Import Base.Common Base.Rnd64 Model.MetricTable Model.Metrics Model.Matcher Model.EdgeCase Model.Result Model.Relabel Model.Pipeline
  Proofs.Matching Proofs.MatcherQ Proofs.MetricsFacts Proofs.C04Proofs Proofs.Invariance Proofs.ResultEquiv Proofs.ExchangeResult Proofs.ExchangeInvariance.
Open Scope Z_scope.

(* IoU and Dice of a pair are unchanged when the roles are exchanged *)
Theorem C11_symmetric_metrics : forall r p a,
  iou (Some (r, [p])) (swap2 a) = iou (Some (p, [r])) a /\ dice (Some (r, [p])) (swap2 a) = dice (Some (p, [r])) a.
Proof. exact metrics_exchange. Qed.

(* RVD r becomes -r/(1+r) (exact quotients, both volumes non-zero) *)
Theorem C11_rvd_mirrored : forall x y, x <> 0 -> y <> 0 ->
  (qdiv (x - y) y == - (qdiv (y - x) x) / (1 + qdiv (y - x) x))%Q.
Proof. exact rvd_exchange. Qed.

(* one-to-one matching: M is a valid matching of cs iff the exchanged M is one of the exchanged cs, and
   tie-freeness is preserved; with C03's uniqueness the matched pairs mirror each other, hence the same
   tp, fp and fn exchanged (C02: fp = num_pred - tp, fn = num_ref - tp) *)
Theorem C11_matching_mirrored : forall decr thr (cs M : list qcand),
  let f := fun rp : Z * Z => (snd rp, fst rp) in
  valid Q (better_eq decr) (fun s => beats decr s thr) false cs M ->
  valid Q (better_eq decr) (fun s => beats decr s thr) false (map (mapc Q f) cs) (map (mapc Q f) M).
Proof.
  intros decr thr cs M f. apply valid_transport.
  intros c d. apply exchange_conf.
Qed.
Theorem C11_uniqueness_mirrored : forall decr thr (cs : list qcand),
  let f := fun rp : Z * Z => (snd rp, fst rp) in
  competing_distinct Q (better_eq decr) (fun s => beats decr s thr) false cs ->
  competing_distinct Q (better_eq decr) (fun s => beats decr s thr) false (map (mapc Q f) cs).
Proof.
  intros decr thr cs f. apply competing_distinct_transport.
  intros c d. apply exchange_conf.
Qed.

Example C11_nonvacuous :
  let a := [(1, 5); (1, 5); (1, 0); (0, 5)] in
  iou (Some (5, [1])) (swap2 a) = iou (Some (1, [5])) a /\
  match rvd (Some (1, [5])) [(1, 5); (1, 0)], rvd (Some (5, [1])) (swap2 [(1, 5); (1, 0)]) with
  | Ok q, Ok q' => Qeq_bool q (-1 # 2) = true /\ Qeq_bool q' 1 = true /\ Qeq_bool q' (- q / (1 + q)) = true
  | _, _ => False end.
Proof. vm_compute. repeat split; reflexivity. Qed.

(* ---- the whole evaluation ----
   [result_mirror r s]: num_pred r = num_ref s and vice versa, the same tp, fp r = fn s and fn r = fp s, precision r = recall s
   and vice versa, the same rq, and per metric the per-instance list permuted, sq, std and pq equal (as rationals).
   [swap2 a]: the voxel list with the two labels of every voxel exchanged.  [mirror_cfg c]: the configuration whose edge case
   handler has its EMPTY_PRED / EMPTY_REF entries exchanged with the roles (the default handler is its own mirror image).
   RVD is excluded from the evaluated metrics here ([no_rvd]): its values transform by r -> -r/(1+r) (C11_rvd_mirrored). *)

(* the result object: exchanging the two instance counts (same tp, same lists) mirrors every derived quantity *)
Theorem C11_result_object_mirrored : forall i, 0 <= r_np i -> 0 <= r_nr i ->
  res_rel result_mirror (panoptica_result i) (panoptica_result (mirror_rin i)).
Proof. exact panoptica_result_mirror. Qed.

(* matched input / the evaluation phase of any input type *)
Theorem C11_evaluation_phase_mirrored : forall x x' c a, no_rvd (c_ems c) ->
  (forall m l, In l (matched_labels a) -> x_inst x' m l = x_inst x m l) ->
  res_rel result_mirror (eval_phase x c a) (eval_phase x' (mirror_cfg c) (swap2 a)).
Proof. exact eval_phase_swap. Qed.

(* unmatched input, one-to-one threshold matcher, symmetric matching metric, matching determined *)
Theorem C11_unmatched_input_pipeline_mirrored : forall x x' c a,
  nonneg_arr a -> c_matcher c = 1 -> no_rvd (c_ems c) ->
  (forall rp, In rp (overlap_pairs a) -> x_pair x' (exch rp) = x_pair x rp) ->
  (forall M, naive_match (decreasing (c_mmetric c)) false (c_mthr c) (cand_list x (c_mmetric c) a) = Ok M ->
     forall m d, In d M -> x_inst x' m (cpred d) = x_inst x m (cref d)) ->
  competing_distinct Q (better_eq (decreasing (c_mmetric c))) (fun s => beats (decreasing (c_mmetric c)) s (c_mthr c)) false
    (cand_list x (c_mmetric c) a) ->
  res_rel result_mirror (pipeline x c a) (pipeline x' (mirror_cfg c) (swap2 a)).
Proof. exact pipeline_exchange. Qed.

Theorem C11_default_handler_is_symmetric : mirror_handler default_handler = default_handler.
Proof. reflexivity. Qed.

(* non-vacuity: two matched pairs, one rejected candidate, one spurious prediction -> (tp, fp, fn) = (2, 1, 0) and (2, 0, 1) *)
Definition ex11_a : arr2 := [(1, 1); (1, 1); (1, 2); (2, 2); (2, 2); (0, 3)].
Definition ex11_x : ext := {| x_inst := fun _ _ => 0%Q; x_pair := fun _ => 0%Q; x_union := fun _ _ => 0%Q |}.
Definition ex11_c : cfg := {| c_matcher := 1; c_mmetric := IOU; c_mthr := (1 # 2)%Q; c_ems := [IOU; DSC]; c_dm := None; c_dthr := None;
                              c_handler := default_handler |}.
Example C11_pipeline_nonvacuous :
  nonneg_arr ex11_a /\ no_rvd (c_ems ex11_c) /\
  competing_distinct Q (better_eq false) (fun s => beats false s (1 # 2)%Q) false (cand_list ex11_x IOU ex11_a) /\
  (exists r, pipeline ex11_x ex11_c ex11_a = Ok r /\ o_tp r = 2 /\ o_fp r = 1 /\ o_fn r = 0) /\
  (exists r, pipeline ex11_x (mirror_cfg ex11_c) (swap2 ex11_a) = Ok r /\ o_tp r = 2 /\ o_fp r = 0 /\ o_fn r = 1).
Proof.
  split; [intros v Hv; cbn in Hv; repeat (destruct Hv as [<-|Hv]; [cbn; lia|]); destruct Hv|].
  split; [intros H; cbn in H; repeat (destruct H as [H|H]; [discriminate|]); exact H|].
  split.
  - intros u v Hu Hv Bu Bv Hcf Hne. vm_compute in Hu, Hv.
    destruct Hu as [<-|[<-|[<-|[]]]]; destruct Hv as [<-|[<-|[<-|[]]]];
      try (vm_compute in Bu; discriminate); try (vm_compute in Bv; discriminate); try (vm_compute in Hcf; discriminate);
      exfalso; apply Hne; reflexivity.
  - split; eexists; (split; [vm_compute; reflexivity|cbn; auto]).
Qed.
