(* C20 -- dataset summaries are the statistics of exactly the recorded finite values.
   Property theorems only; proofs live in Proofs/StatsFacts.v and Proofs/StatsC20.v.

   A dataset is `rows : rowtab` = a list of (subject name, value under every (group, metric)), a value
   being `Some q` (a finite double, as the exact rational) or `None` (missing / NaN / +-inf, mapped by
   the loader -- that mapping is C18's).  `of_rows G M rows` is the Panoptica_Statistic object holding it
   (C18 proves that this is what from_file returns for the file the aggregator wrote).
   finite_values rows g m = the `Some` entries of column (g, m), in subject order.
   Statistics are exact rationals; vs_var is the square of the reported std (population variance, ddof 0).
   Float summation order / last-ulp effects are outside the model (tolerance 2^-30 in the harness). *)
From Pan Require Import Base.Common Model.Stats Proofs.StatsFacts Proofs.StatsC20.
From Coq Require Import Permutation.
Open Scope Q_scope.

(* get returns the column, one entry per subject in subject order *)
Theorem C20_get_is_column : forall G M rows g m, In g G -> In m M ->
  get (of_rows G M rows) g m = Ok (column rows g m).
Proof. exact get_of_rows. Qed.

(* the summary is taken over exactly the finite recorded values; avg / variance / min / max are theirs *)
Theorem C20_summary_of_finite_values : forall G M rows g m v, In g G -> In m M ->
  get_summary (of_rows G M rows) g m = Ok v ->
  vs_values v = finite_values rows g m /\
  vs_avg v = mean (finite_values rows g m) /\ vs_var v = variance (finite_values rows g m) /\
  (In (vs_min v) (finite_values rows g m) /\ forall x, In x (finite_values rows g m) -> vs_min v <= x) /\
  (In (vs_max v) (finite_values rows g m) /\ forall x, In x (finite_values rows g m) -> x <= vs_max v).
Proof. exact summary_values. Qed.

(* mean and variance mean what they say: mean * n = sum, variance = E[x^2] - E[x]^2 (ddof = 0) *)
Theorem C20_mean_variance_definition : forall l, l <> [] ->
  mean l * qlen l == qsum l /\ variance l == mean (map (fun x => x * x) l) - mean l * mean l.
Proof. intros l H. split; [apply mean_times_len; exact H|apply variance_mean_of_squares; exact H]. Qed.

(* the summary exists exactly when the column has at least one finite value; otherwise ValueError *)
Theorem C20_summary_defined_iff : forall G M rows g m, In g G -> In m M ->
  (get_summary (of_rows G M rows) g m = Err E_VALUE <-> finite_values rows g m = []) /\
  (finite_values rows g m <> [] -> exists v, get_summary (of_rows G M rows) g m = Ok v).
Proof. exact summary_defined_iff. Qed.

(* order of the subjects is irrelevant: same multiset of values, equal statistics *)
Theorem C20_summary_row_order_irrelevant : forall G M rows rows' g m v, In g G -> In m M ->
  Permutation rows rows' -> get_summary (of_rows G M rows) g m = Ok v ->
  exists v', get_summary (of_rows G M rows') g m = Ok v' /\ vs_equiv v v' /\
             Permutation (vs_values v) (vs_values v').
Proof. exact summary_perm. Qed.

(* per-subject lookup returns the cells of the FIRST row carrying that name (list.index) ... *)
Theorem C20_get_one_subject : forall G M rows s,
  get_one_subject (of_rows G M rows) s =
  match row_named rows s with
  | None => Err E_ASSERT
  | Some r => Ok (map (fun g => (g, map (fun m => (m, snd r g m)) M)) G)
  end.
Proof. exact get_one_subject_of_rows. Qed.
(* ... which for distinct subject names is that subject's own row *)
Theorem C20_get_one_subject_own_row : forall G M rows s f, NoDup (map fst rows) -> In (s, f) rows ->
  get_one_subject (of_rows G M rows) s = Ok (map (fun g => (g, map (fun m => (m, f g m)) M)) G).
Proof. intros G M rows s f ND Hin. rewrite get_one_subject_of_rows, (row_named_nodup rows s f ND Hin). reflexivity. Qed.

(* across groups: per metric, the same statistics over the per-group averages (groups in order) *)
Theorem C20_across_groups : forall G M rows, G <> [] ->
  (forall g m, In g G -> In m M -> finite_values rows g m <> []) ->
  exists r, get_summary_across_groups (of_rows G M rows) = Ok r /\ map fst r = M /\
    forall m v, In (m, v) r -> value_summary (map (fun g => mean (finite_values rows g m)) G) = Ok v.
Proof. exact across_ok. Qed.
(* the condition is needed: one (group, metric) column without a finite value makes the call raise *)
Theorem C20_across_groups_needs_finite_values : forall G M rows g m, In g G -> In m M ->
  finite_values rows g m = [] -> get_summary_across_groups (of_rows G M rows) = Err E_VALUE.
Proof. exact across_err. Qed.
Theorem C20_across_groups_row_order_irrelevant : forall G M rows rows' r, G <> [] ->
  Permutation rows rows' -> (forall g m, In g G -> In m M -> finite_values rows g m <> []) ->
  get_summary_across_groups (of_rows G M rows) = Ok r ->
  exists r', get_summary_across_groups (of_rows G M rows') = Ok r' /\
    Forall2 (fun a b => fst a = fst b /\ vs_equiv (snd a) (snd b)) r r'.
Proof. exact across_perm. Qed.

(* non-vacuity: 2 groups x 1 metric, 3 subjects, one missing value; summaries and lookups are defined *)
Example C20_nonvacuous :
  let g1 : name := [97%Z] in let g2 : name := [98%Z] in let m : name := [109%Z] in
  let rows : rowtab := [([49%Z], fun g _ => if name_eqb g g1 then Some (1 # 2) else Some 1);
                        ([50%Z], fun g _ => if name_eqb g g1 then None else Some 3);
                        ([51%Z], fun g _ => if name_eqb g g1 then Some (3 # 2) else Some 2)] in
  let st := of_rows [g1; g2] [m] rows in
  match get_summary st g1 m, get_summary_across_groups st, get_one_subject st [50%Z] with
  | Ok v, Ok [(_, a)], Ok [(_, [(_, None)]); (_, [(_, Some x)])] =>
      Qeq_bool (vs_avg v) 1 && Qeq_bool (vs_var v) (1 # 4) && Qeq_bool (vs_min v) (1 # 2) &&
      Qeq_bool (vs_max v) (3 # 2) && Nat.eqb (length (vs_values v)) 2 &&
      Qeq_bool (vs_avg a) (3 # 2) && Qeq_bool (vs_var a) (1 # 4) && Qeq_bool x 3
  | _, _, _ => false
  end = true.
Proof. vm_compute. reflexivity. Qed.
