(* C02 -- result bookkeeping: tp/fp/fn, per-TP lists and sq/rq/pq are mutually consistent.
   (i) for every result of the evaluation phase, for every input, matcher outcome (the matched pair a),
   metric selection and decision metric/threshold; (ii) for every directly constructed result. *)
From Pan Require Import Base.Common Base.Sx Base.Rnd64 Model.MetricTable Model.Metrics Model.EdgeCase Model.Result
  Model.ZeroCase Model.Pipeline Proofs.ResultFacts Proofs.MetricsFacts Proofs.PipelineFacts Proofs.C02Proofs Proofs.Rnd64Facts Proofs.RoundedFacts Proofs.PipelineBookkeeping.
Open Scope Z_scope.

(* tp + fp = number of predicted instances, tp + fn = number of reference instances,
   0 <= tp <= min, every per-instance list has exactly tp entries *)
Theorem C02_counts_and_lists : forall x c a r, eval_phase x c a = Ok r ->
  o_tp r + o_fp r = n_pred_inst a /\ o_tp r + o_fn r = n_ref_inst a /\
  0 <= o_tp r <= Z.min (n_pred_inst a) (n_ref_inst a) /\
  o_np r = n_pred_inst a /\ o_nr r = n_ref_inst a /\
  (forall mr, In mr (o_metrics r) -> Z.of_nat (length (m_all mr)) = o_tp r).
Proof. exact eval_phase_bookkeeping. Qed.

(* ... and for every result of the WHOLE pipeline (zero-instance early exit, any matcher, relabelling, evaluation) *)
Theorem C02_pipeline_bookkeeping : forall x c a r, pipeline x c a = Ok r ->
  o_tp r + o_fp r = o_np r /\ o_tp r + o_fn r = o_nr r /\ 0 <= o_tp r <= Z.min (o_np r) (o_nr r) /\
  (forall mr, In mr (o_metrics r) -> Z.of_nat (length (m_all mr)) = o_tp r).
Proof. exact pipeline_bookkeeping. Qed.

(* ... and the counts are those of the INPUT arrays: tp + fn is the number of reference instances of the input for every matcher
   (matching never changes the reference); for matched input and the one-to-one threshold matcher tp + fp is the number of
   predicted instances of the input (a one-to-one matching relabels the predictions injectively: nothing merges, nothing is lost) *)
From Pan Require Import Proofs.C04Proofs Proofs.InputCounts.
Theorem C02_counts_are_those_of_the_input : forall x c a r, nonneg_arr a -> pipeline x c a = Ok r ->
  o_nr r = n_ref_inst a /\ o_tp r + o_fn r = n_ref_inst a /\
  ((c_matcher c = 0 \/ c_matcher c = 1) -> o_np r = n_pred_inst a /\ o_tp r + o_fp r = n_pred_inst a).
Proof. exact pipeline_counts_of_input. Qed.
(* non-vacuity: two references, one prediction, nothing overlaps: tp 0, fp 1 = the one prediction, fn 2 = the two references *)
Example C02_input_counts_nonvacuous :
  let a := [(1, 0); (2, 0); (2, 0); (0, 7); (0, 0)] in
  let x := {| x_inst := fun _ _ => 0%Q; x_pair := fun _ => 0%Q; x_union := fun _ _ => 0%Q |} in
  let c := {| c_matcher := 1; c_mmetric := IOU; c_mthr := 1 # 2; c_ems := [IOU]; c_dm := None; c_dthr := None; c_handler := default_handler |} in
  match pipeline x c a with Ok r => o_tp r = 0 /\ o_fp r = 1 /\ o_fn r = 2 /\ n_pred_inst a = 1 /\ n_ref_inst a = 2 | Err _ => False end.
Proof. vm_compute. repeat split; reflexivity. Qed.

(* an instance that fails the decision threshold is neither in the lists nor in tp *)
Theorem C02_decision_threshold_filters_tp : forall x ems dmo thr a tp lists dicts,
  all_dicts x a (matched_labels a) ems = Ok dicts -> evaluate_matched x ems dmo thr a = Ok (tp, lists) ->
  tp = Z.of_nat (length (filter (fun d => passes_decision dmo thr (fun m => lookup_mq m d)) dicts)).
Proof. exact evaluate_matched_tp_is_kept. Qed.

(* directly constructed results: the fields are the documented functions of (num_pred, num_ref, tp, lists) *)
Theorem C02_fields : forall i r, panoptica_result i = Ok r ->
  o_np r = r_np i /\ o_nr r = r_nr i /\ o_tp r = r_tp i /\ o_fp r = r_np i - r_tp i /\ o_fn r = r_nr i - r_tp i /\
  o_rq r = calc_rq (r_np i) (r_nr i) (r_tp i) /\
  (forall mr, In mr (o_metrics r) -> lookup_m (m_metric mr) (r_lists i) = Some (m_all mr)).
Proof. exact panoptica_result_fields. Qed.

(* sq_m / sq_m_std are the mean and the population standard deviation (here: its square) of the list *)
Theorem C02_sq_is_mean_and_std : forall h m tp np nr vals, tp <> 0 -> vals <> [] ->
  list_metric h m tp np nr vals = Ok {| l_all := vals; l_avg := FQ (meanQ vals); l_var := FQ (varQ vals) |}.
Proof. exact list_metric_nonedge. Qed.

(* rq = tp / (tp + fp/2 + fn/2) (one IEEE division), in (0,1] when tp > 0, = 1 iff no fp and no fn *)
Theorem C02_rq : forall tp np nr, 0 < tp -> tp <= np -> tp <= nr ->
  calc_rq np nr tp = FQ (rnd (rq_exact tp (np - tp) (nr - tp))) /\
  (0 < rq_exact tp (np - tp) (nr - tp) <= 1)%Q /\
  ((rq_exact tp (np - tp) (nr - tp) == 1)%Q <-> (np = tp /\ nr = tp)).
Proof.
  intros tp np nr H0 H1 H2. split; [|split].
  - unfold calc_rq, calc_fp, calc_fn. destruct (tp =? 0) eqn:E; [apply Z.eqb_eq in E; lia|reflexivity].
  - exact (rq_range tp np nr H0 H1 H2).
  - exact (rq_one_iff tp np nr H0 H1 H2).
Qed.

(* pq_m = sq_m * rq (absent when sq_m is None); both in [0,1] => pq in [0,1] *)
Theorem C02_pq : forall a b, fmul (FQ a) (FQ b) = Some (FQ (a * b)) /\
  ((0 <= a <= 1)%Q -> (0 <= b <= 1)%Q -> (0 <= a * b <= 1)%Q).
Proof. intros a b. split; [reflexivity|apply mul_unit]. Qed.

(* overlap scores in [0,1] => sq in [0,1]; pointwise Dice >= IoU => sq_dsc >= sq *)
Theorem C02_sq_range : forall l, l <> [] -> all_in 0 1 l -> (0 <= meanQ l <= 1)%Q.
Proof. intros l. apply meanQ_bounds. Qed.
Theorem C02_sq_dsc_ge_sq : forall liou ldsc, liou <> [] -> Forall2 Qle liou ldsc -> (meanQ liou <= meanQ ldsc)%Q.
Proof. exact meanQ_le. Qed.
Theorem C02_dice_ge_iou_per_instance : forall a, binary a ->
  (iou_exact (n_inter a) (n_union a) <= dice_exact (sum_ref a) (sum_pred a) (n_inter a))%Q.
Proof. exact dice_ge_iou. Qed.

(* the same for the reported doubles (one IEEE rounding each; rounding is monotone, Proofs/Rnd64Facts.v) *)
Theorem C02_reported_rq_in_unit_interval : forall tp np nr, 0 < tp -> tp <= np -> tp <= nr ->
  exists q, calc_rq np nr tp = FQ q /\ (0 < q <= 1)%Q.
Proof. exact rq_reported_range. Qed.
Theorem C02_reported_dice_ge_iou_per_instance : forall ri pis a, (iou (Some (ri, pis)) a <= dice (Some (ri, pis)) a)%Q.
Proof. exact dice_ge_iou_reported. Qed.
Theorem C02_reported_scores_in_unit_interval : forall ri pis a,
  (0 <= dice (Some (ri, pis)) a <= 1)%Q /\ (0 <= iou (Some (ri, pis)) a <= 1)%Q.
Proof. intros. split; [apply dice_sel_reported_range|apply iou_reported_range]. Qed.

(* non-vacuity: README-style example with a decision threshold: one of two matched instances fails it *)
Example C02_nonvacuous :
  let a := [(1, 1); (1, 1); (1, 1); (1, 1); (2, 0); (2, 0); (2, 0); (2, 2); (0, 0)] in
  let x := {| x_inst := fun _ _ => 0%Q; x_pair := fun _ => 0%Q; x_union := fun _ _ => 0%Q |} in
  let c := {| c_matcher := 0; c_mmetric := IOU; c_mthr := 1 # 2; c_ems := [IOU; DSC];
              c_dm := Some IOU; c_dthr := Some (1 # 2); c_handler := default_handler |} in
  match eval_phase x c a with
  | Ok r => o_tp r = 1 /\ o_fp r = 1 /\ o_fn r = 1 /\ map (fun mr => length (m_all mr)) (o_metrics r) = [1%nat; 1%nat]
  | Err _ => False end.
Proof. vm_compute. repeat split; reflexivity. Qed.
