(* C06 -- Dice, IoU, RVD and clDice equal their set-theoretic definitions.
   Property theorems only; proofs live in Proofs/.  X = voxels whose reference value is the selected
   label, Y = voxels whose prediction value is in the selected label list (their union). *)
From Pan Require Import Base.Common Base.Rnd64 Model.Metrics Proofs.MetricsFacts Proofs.C06Proofs Proofs.Rnd64Facts Proofs.RoundedFacts.
Open Scope Z_scope.

(* the returned double is the correctly rounded quotient of the cardinalities *)
Theorem C06_dice_definition : forall ri pis a,
  dice (Some (ri, pis)) a
  = rnd (if cX ri a + cY pis a =? 0 then 0%Q else qdiv (2 * cI ri pis a) (cX ri a + cY pis a)).
Proof. exact dice_sel_def. Qed.

Theorem C06_iou_definition : forall ri pis a,
  iou (Some (ri, pis)) a = rnd (if cU ri pis a =? 0 then 0%Q else qdiv (cI ri pis a) (cU ri pis a))
  /\ cU ri pis a + cI ri pis a = cX ri a + cY pis a.
Proof. intros. split; [apply iou_sel_def|apply sel_incl_excl]. Qed.

Theorem C06_rvd_definition : forall ri pis a,
  rvd (Some (ri, pis)) a =
    if (cX ri a =? 0) && (cY pis a =? 0) then Ok 0%Q
    else if cX ri a =? 0 then Err E_ZERODIV            (* quotient undefined: python raises *)
    else Ok (rnd (qdiv (cY pis a - cX ri a) (cX ri a))).
Proof. exact rvd_sel_def. Qed.

(* a list of prediction labels selects the union of their voxels *)
Theorem C06_label_list_is_union : forall pis v, inY pis v = true <-> In (snd v) pis.
Proof. exact inY_union. Qed.

(* binary masks without selection *)
Theorem C06_binary_definitions : forall a, binary a ->
  dice None a = rnd (if n_ref a + n_pred a =? 0 then 0%Q else qdiv (2 * n_inter a) (n_ref a + n_pred a))
  /\ iou None a = rnd (if n_union a =? 0 then 0%Q else qdiv (n_inter a) (n_union a))
  /\ (n_ref a <> 0 -> rvd None a = Ok (rnd (qdiv (n_pred a - n_ref a) (n_ref a)))).
Proof. intros a Hb. split; [exact (dice_bin_def a Hb)|split; [exact (iou_bin_def a)|exact (rvd_bin_def a Hb)]]. Qed.

(* consequences, on the exact quotients (the code rounds them once; rnd is monotone, fixes 0 and 1) *)
Theorem C06_dice_iou_relation : forall a, binary a -> 0 < n_union a ->
  (dice_exact (sum_ref a) (sum_pred a) (n_inter a) ==
   2 * iou_exact (n_inter a) (n_union a) / (1 + iou_exact (n_inter a) (n_union a)))%Q.
Proof. exact dice_iou_relation. Qed.

Theorem C06_symmetric : forall a, dice_raw (swap2 a) = dice_raw a /\ iou_raw (swap2 a) = iou_raw a.
Proof. intros a. split; [apply dice_symmetric|apply iou_symmetric]. Qed.

Theorem C06_range : forall a, binary a ->
  (0 <= dice_exact (sum_ref a) (sum_pred a) (n_inter a) <= 1)%Q
  /\ (0 <= iou_exact (n_inter a) (n_union a) <= 1)%Q.
Proof. intros a Hb. split; [apply dice_range; exact Hb|apply iou_range]. Qed.

Theorem C06_one_iff_identical_nonempty : forall a, binary a ->
  ((dice_exact (sum_ref a) (sum_pred a) (n_inter a) == 1)%Q <-> (same_masks a /\ nonempty_masks a))
  /\ ((iou_exact (n_inter a) (n_union a) == 1)%Q <-> (same_masks a /\ nonempty_masks a)).
Proof. intros a Hb. split; [apply dice_one_iff; exact Hb|apply iou_one_iff]. Qed.

(* the same for the doubles actually returned: IEEE rounding (Base/Rnd64.rnd) is monotone and fixes 0 and 1 *)
Theorem C06_rounding_is_monotone : forall q1 q2, (q1 <= q2)%Q -> (rnd q1 <= rnd q2)%Q.
Proof. exact rnd_mono. Qed.
Theorem C06_reported_values_in_unit_interval : forall ri pis a,
  (0 <= dice (Some (ri, pis)) a <= 1)%Q /\ (0 <= iou (Some (ri, pis)) a <= 1)%Q.
Proof. intros. split; [apply dice_sel_reported_range|apply iou_reported_range]. Qed.
Theorem C06_identical_masks_score_one : forall a, binary a -> same_masks a -> nonempty_masks a ->
  (dice None a == 1)%Q /\ (iou None a == 1)%Q.
Proof. exact dice_iou_identical_reported. Qed.

Theorem C06_cldice_harmonic_mean : forall (a : arr4) q, binary4 a -> cldice_exact a = Some q ->
  let skX := cntZ (fun v => fst (snd v)) a in
  let skY := cntZ (fun v => snd (snd v)) a in
  let tprec := qdiv (cntZ (fun v => nz (snd (fst v)) && fst (snd v)) a) skX in
  let tsens := qdiv (cntZ (fun v => nz (fst (fst v)) && snd (snd v)) a) skY in
  skX <> 0 /\ skY <> 0 /\ q = (2 * tprec * tsens / (tprec + tsens))%Q.
Proof. exact cldice_harmonic. Qed.

(* non-vacuity: a concrete label pair with Dice 2/3, IoU 1/2, RVD 0 on label 2 vs labels {5,7} *)
Example C06_nonvacuous :
  let a := [(2, 5); (2, 0); (0, 7); (3, 5); (0, 0)] in
  Qeq_bool (dice (Some (2, [5; 7])) a) (rnd (2 # 5)) = true /\
  Qeq_bool (iou (Some (2, [5; 7])) a) (rnd (1 # 4)) = true /\
  rvd (Some (2, [5; 7])) a = Ok (rnd (1 # 2)) /\ cX 2 a = 2 /\ cY [5; 7] a = 3.
Proof. vm_compute. repeat split; reflexivity. Qed.
