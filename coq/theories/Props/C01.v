(* C01 -- reported panoptic results equal the published definitions, end to end.
   Composition for instance input (layer L2 of DESIGN.md section 6: IoU/Dice/RVD, crops as identity).
   a: (reference label, prediction label) per voxel; c: configuration; x: values of geometry-dependent
   metrics.  The remaining layers are theorems of their own: instances of semantic input are the
   connected components (Props/C05), ASSD is the mean directed surface distance and is crop-invariant
   (Props/C07), zero-TP results (Props/C08), bookkeeping and sq/rq/pq (Props/C02), metric formulas
   (Props/C06), validity/uniqueness of the matching (Props/C03), relabelling (Props/C04). *)
From Pan Require Import Base.Common Base.Rnd64 Model.MetricTable Model.EdgeCase Model.Metrics Model.Matcher Model.Merge Model.Relabel Model.Result
  Model.Pipeline Model.ZeroCase Proofs.Matching Proofs.MatcherQ Proofs.C04Proofs Proofs.C01Proofs Proofs.PipelineFacts Proofs.C01EndToEnd.
Open Scope Z_scope.

(* 1. matching phase: never raises; relabels with a matching M that is a conflict-free, sound,
      maximal, best-first assignment over exactly the overlapping pairs, scored by the matching metric *)
Theorem C01_matching_phase : forall x c a, (c_matcher c = 1 \/ c_matcher c = 2) ->
  let decr := decreasing (c_mmetric c) in let m2o := c_matcher c =? 2 in
  let cs := cand_list x (c_mmetric c) a in
  exists M, naive_match decr m2o (c_mthr c) cs = Ok M /\
    match_phase x c a = Ok (map_instance_labels (lmap_of M) a) /\
    P1 Q m2o M /\ P2 Q (fun s => beats decr s (c_mthr c)) cs M /\
    P3 Q (fun s => beats decr s (c_mthr c)) m2o cs M /\
    P4 Q (better_eq decr) (fun s => beats decr s (c_mthr c)) m2o cs M /\
    wf_matching (lmap_of M) a.
Proof. exact match_phase_naive. Qed.

(* 2. the instances evaluated after relabelling are exactly the matched references ... *)
Theorem C01_evaluated_instances : forall M a, nonneg_arr a -> wf_matching M a ->
  forall l, In l (matched_labels (map_instance_labels M a)) <-> exists p, In (p, l) M.
Proof. exact matched_labels_relabel. Qed.

(* 3. ... each scored by the set definitions on (reference l, union of the predictions assigned to l) *)
Theorem C01_instance_scores : forall M a l, nonneg_arr a -> wf_matching M a -> In l (ref_labels_of a) ->
  iou (Some (l, [l])) (map_instance_labels M a) = iou (Some (l, preds_of l M)) a /\
  dice (Some (l, [l])) (map_instance_labels M a) = dice (Some (l, preds_of l M)) a /\
  rvd (Some (l, [l])) (map_instance_labels M a) = rvd (Some (l, preds_of l M)) a.
Proof. exact evaluated_scores. Qed.

(* 4. the reference instances are untouched by matching *)
Theorem C01_reference_instances : forall M a, ref_labels_of (map_instance_labels M a) = ref_labels_of a.
Proof. exact ref_labels_relabel. Qed.

(* 5. counts, tp/fp/fn and list lengths of whatever the evaluation phase returns *)
Theorem C01_counts : forall x c a r, eval_phase x c a = Ok r ->
  o_tp r + o_fp r = n_pred_inst a /\ o_tp r + o_fn r = n_ref_inst a /\
  0 <= o_tp r <= Z.min (n_pred_inst a) (n_ref_inst a) /\
  o_np r = n_pred_inst a /\ o_nr r = n_ref_inst a /\
  (forall mr, In mr (o_metrics r) -> Z.of_nat (length (m_all mr)) = o_tp r).
Proof. exact eval_phase_bookkeeping. Qed.

(* 6. whenever no two competing candidates that meet the threshold tie, the matching -- hence the
      answer -- is determined by the documented procedure alone *)
Theorem C01_unique_answer : forall decr m2o thr (cs M M' : list qcand),
  competing_distinct Q (better_eq decr) (fun s => beats decr s thr) m2o cs ->
  valid Q (better_eq decr) (fun s => beats decr s thr) m2o cs M ->
  valid Q (better_eq decr) (fun s => beats decr s thr) m2o cs M' ->
  forall c, In c M <-> In c M'.
Proof. exact naive_match_unique. Qed.

(* 7. END TO END, unmatched instance input, threshold matcher (one-to-one or many-to-one), any matching metric,
      any threshold, IoU/Dice as evaluated metrics, optional decision metric/threshold, any handler:
      whatever the pipeline returns is explained by a valid best-first matching M of the overlapping pairs:
      the true positives are the matched references that pass the decision threshold, each per-TP list holds
      exactly their set-definition scores against the union of the predictions assigned to them, tp/fp/fn count
      accordingly (sq/rq/pq then follow by Props/C02, uniqueness of M without ties by theorem 6) *)
Theorem C01_end_to_end : forall x c a r,
  nonneg_arr a -> (c_matcher c = 1 \/ c_matcher c = 2) -> overlap_only (c_ems c) ->
  zero_case (n_pred_inst a) (n_ref_inst a) = None -> pipeline x c a = Ok r ->
  let decr := decreasing (c_mmetric c) in let m2o := c_matcher c =? 2 in
  let cs := cand_list x (c_mmetric c) a in
  exists M,
    P1 Q m2o M /\ P2 Q (fun s => beats decr s (c_mthr c)) cs M /\
    P3 Q (fun s => beats decr s (c_mthr c)) m2o cs M /\
    P4 Q (better_eq decr) (fun s => beats decr s (c_mthr c)) m2o cs M /\
    let L := lmap_of M in let a' := map_instance_labels L a in
    (forall l, In l (matched_labels a') <-> exists p, In (p, l) L) /\
    let score := fun (m : metric) (l : Z) =>
       match m with DSC => dice (Some (l, preds_of l L)) a | _ => iou (Some (l, preds_of l L)) a end in
    let TP := filter (fun l => passes_decision (c_dm c) (c_dthr c) (fun m => score m l)) (matched_labels a') in
    (zero_case (n_pred_inst a') (n_ref_inst a') = None ->
       o_tp r = Z.of_nat (length TP) /\
       (forall mr, In mr (o_metrics r) -> m_all mr = map (score (m_metric mr)) TP) /\
       o_fp r = n_pred_inst a' - o_tp r /\ o_fn r = n_ref_inst a - o_tp r).
Proof. exact end_to_end_overlap. Qed.

(* non-vacuity: the README example shape: two references, prediction 7 overlaps reference 1 (IoU 1/2), prediction 9 is spurious *)
Example C01_nonvacuous :
  let a := [(1, 7); (1, 7); (1, 0); (1, 0); (2, 0); (0, 9); (0, 0)] in
  let x := {| x_inst := fun _ _ => 0%Q; x_pair := fun _ => 0%Q; x_union := fun _ _ => 0%Q |} in
  let c := {| c_matcher := 1; c_mmetric := IOU; c_mthr := 1 # 2; c_ems := [IOU; DSC; RVD];
              c_dm := None; c_dthr := None; c_handler := default_handler |} in
  match pipeline x c a with
  | Ok r => o_tp r = 1 /\ o_fp r = 1 /\ o_fn r = 1 /\
            map (fun mr => map Qred (m_all mr)) (o_metrics r) = [[Qred (rnd (2 # 3))]; [1 # 2]; [(-1) # 2]]
  | Err _ => False end.
Proof. vm_compute. repeat split; reflexivity. Qed.

(* 8. END TO END for the merge matcher (MaximizeMergeMatching): the label map the merge loop builds assigns every prediction to at
      most one reference, consists of overlapping pairs, and every matched reference carries the combined score of exactly the
      predictions merged into it (meeting the threshold, at least as good as one of them alone); the evaluated instances are
      exactly the matched references, and every reported list holds their set-definition scores against the UNION of the
      predictions merged into them; tp/fp/fn count accordingly. Hypothesis: the candidates' scores are the combined scores of the
      single predictions (what the candidate computation and new_combination_score both call: the same metric) *)
From Pan Require Import Proofs.MergeFacts Proofs.C01EndToEndMerge.
Theorem C01_end_to_end_merge_matcher : forall x c a r,
  nonneg_arr a -> c_matcher c = 3 -> overlap_only (c_ems c) ->
  zero_case (n_pred_inst a) (n_ref_inst a) = None -> pipeline x c a = Ok r ->
  let decr := decreasing (c_mmetric c) in
  let cs := cand_list x (c_mmetric c) a in
  (forall cd, In cd cs -> fst cd = x_union x (cref cd) [cpred cd]) ->
  let st := merge_match (better_eq decr) Qeq_bool (fun s => beats decr s (c_mthr c)) (x_union x) cs in
  let L := ms_map st in let a' := map_instance_labels L a in
  NoDup (map fst L) /\
  (forall p l, In (p, l) L -> exists cd, In cd cs /\ cref cd = l /\ cpred cd = p) /\
  (forall l, (exists p, In (p, l) L) ->
     exists s, lookup_score l (ms_score st) = Some s /\ s = x_union x l (preds_of l L) /\ beats decr s (c_mthr c) = true /\
       exists cd, In cd cs /\ cref cd = l /\ beats decr (fst cd) (c_mthr c) = true /\ In (cpred cd, l) L
                  /\ better_eq decr s (fst cd) = true) /\
  (forall l, In l (matched_labels a') <-> exists p, In (p, l) L) /\
  let score := fun (m : metric) (l : Z) =>
     match m with DSC => dice (Some (l, preds_of l L)) a | _ => iou (Some (l, preds_of l L)) a end in
  let TP := filter (fun l => passes_decision (c_dm c) (c_dthr c) (fun m => score m l)) (matched_labels a') in
  (zero_case (n_pred_inst a') (n_ref_inst a') = None ->
     o_tp r = Z.of_nat (length TP) /\
     (forall mr, In mr (o_metrics r) -> m_all mr = map (score (m_metric mr)) TP) /\
     o_fp r = n_pred_inst a' - o_tp r /\ o_fn r = n_ref_inst a - o_tp r).
Proof. exact end_to_end_merge. Qed.

(* non-vacuity: reference 1 is covered by the two fragments 7 and 8 (IoU 1/2 each, threshold 1/4); merging them gives IoU 1 *)
Example C01_merge_nonvacuous :
  let a := [(1, 7); (1, 7); (1, 8); (1, 8); (0, 0)] in
  let x := {| x_inst := fun _ _ => 0%Q; x_pair := fun _ => 0%Q; x_union := fun r ps => iou (Some (r, ps)) a |} in
  let c := {| c_matcher := 3; c_mmetric := IOU; c_mthr := 1 # 4; c_ems := [IOU; DSC];
              c_dm := None; c_dthr := None; c_handler := default_handler |} in
  (forall cd, In cd (cand_list x IOU a) -> fst cd = x_union x (cref cd) [cpred cd]) /\
  match pipeline x c a with
  | Ok r => o_tp r = 1 /\ o_fp r = 0 /\ o_fn r = 0 /\ map (fun mr => map Qred (m_all mr)) (o_metrics r) = [[1 # 1]; [1 # 1]]
  | Err _ => False end.
Proof.
  cbv zeta. split.
  - intros cd Hcd. vm_compute in Hcd. destruct Hcd as [<-|[<-|[]]]; vm_compute; reflexivity.
  - vm_compute. repeat split; reflexivity.
Qed.

(* 9. END TO END for EVERY instance metric (IoU, Dice, RVD, ASSD, clDice in any combination, with or without a decision metric):
      IoU / Dice / RVD entries are the set-definition scores against the union of the assigned predictions (RVD is defined for
      every evaluated instance), ASSD / clDice entries are the geometric values of the evaluated instances supplied to the model
      (x_inst; what they are is Props/C07 and Props/C06). Threshold matcher and merge matcher. *)
From Pan Require Import Proofs.C01EndToEndAll.
Theorem C01_end_to_end_every_metric : forall x c a r,
  nonneg_arr a -> (c_matcher c = 1 \/ c_matcher c = 2) ->
  zero_case (n_pred_inst a) (n_ref_inst a) = None -> pipeline x c a = Ok r ->
  let decr := decreasing (c_mmetric c) in let m2o := c_matcher c =? 2 in
  let cs := cand_list x (c_mmetric c) a in
  exists M,
    P1 Q m2o M /\ P2 Q (fun s => beats decr s (c_mthr c)) cs M /\
    P3 Q (fun s => beats decr s (c_mthr c)) m2o cs M /\
    P4 Q (better_eq decr) (fun s => beats decr s (c_mthr c)) m2o cs M /\
    let L := lmap_of M in let a' := map_instance_labels L a in
    (forall l, In l (matched_labels a') <-> exists p, In (p, l) L) /\
    let TP := filter (fun l => passes_decision (c_dm c) (c_dthr c) (fun m => escore x L a m l)) (matched_labels a') in
    (zero_case (n_pred_inst a') (n_ref_inst a') = None ->
       o_tp r = Z.of_nat (length TP) /\
       (forall mr, In mr (o_metrics r) -> m_all mr = map (escore x L a (m_metric mr)) TP) /\
       (In RVD (c_ems c) -> forall l, In l (matched_labels a') -> rvd (Some (l, preds_of l L)) a = Ok (escore x L a RVD l)) /\
       o_fp r = n_pred_inst a' - o_tp r /\ o_fn r = n_ref_inst a - o_tp r).
Proof. exact end_to_end_all. Qed.

Theorem C01_end_to_end_merge_matcher_every_metric : forall x c a r,
  nonneg_arr a -> c_matcher c = 3 ->
  zero_case (n_pred_inst a) (n_ref_inst a) = None -> pipeline x c a = Ok r ->
  let decr := decreasing (c_mmetric c) in
  let cs := cand_list x (c_mmetric c) a in
  (forall cd, In cd cs -> fst cd = x_union x (cref cd) [cpred cd]) ->
  let st := merge_match (better_eq decr) Qeq_bool (fun s => beats decr s (c_mthr c)) (x_union x) cs in
  let L := ms_map st in let a' := map_instance_labels L a in
  wf_matching L a /\
  (forall l, In l (matched_labels a') <-> exists p, In (p, l) L) /\
  let TP := filter (fun l => passes_decision (c_dm c) (c_dthr c) (fun m => escore x L a m l)) (matched_labels a') in
  (zero_case (n_pred_inst a') (n_ref_inst a') = None ->
     o_tp r = Z.of_nat (length TP) /\
     (forall mr, In mr (o_metrics r) -> m_all mr = map (escore x L a (m_metric mr)) TP) /\
     (In RVD (c_ems c) -> forall l, In l (matched_labels a') -> rvd (Some (l, preds_of l L)) a = Ok (escore x L a RVD l)) /\
     o_fp r = n_pred_inst a' - o_tp r /\ o_fn r = n_ref_inst a - o_tp r).
Proof. exact end_to_end_merge_all. Qed.

(* non-vacuity: all five metrics evaluated, ASSD as decision metric (lower is better, threshold 1): reference 1 / prediction 7
   (IoU 1/2, RVD 0, ASSD 1/2 supplied) is a true positive, reference 2 has no partner, prediction 9 is spurious *)
Example C01_every_metric_nonvacuous :
  let a := [(1, 7); (1, 7); (1, 0); (0, 7); (2, 0); (0, 9); (0, 0)] in
  let x := {| x_inst := fun m _ => match m with ASSD => 1 # 2 | _ => 3 # 4 end; x_pair := fun _ => 0%Q; x_union := fun _ _ => 0%Q |} in
  let c := {| c_matcher := 1; c_mmetric := IOU; c_mthr := 1 # 2; c_ems := [DSC; IOU; ASSD; clDSC; RVD];
              c_dm := Some ASSD; c_dthr := Some (1 # 1); c_handler := default_handler |} in
  match pipeline x c a with
  | Ok r => o_tp r = 1 /\ o_fp r = 1 /\ o_fn r = 1 /\
            map (fun mr => (m_metric mr, map Qred (m_all mr))) (o_metrics r)
            = [(DSC, [Qred (rnd (2 # 3))]); (IOU, [1 # 2]); (ASSD, [1 # 2]); (clDSC, [3 # 4]); (RVD, [0 # 1])]
  | Err _ => False end.
Proof. vm_compute. repeat split; reflexivity. Qed.

(* ================================================================================================ *)
(* C01, semantic input -- the whole path "approximate instances, then the instance pipeline" inside the model:
   [semantic_pipeline] is the composition (Model/Semantic.v), the instances it evaluates are the connected components
   (Props/C05), and the result does not depend on the order in which a backend numbers the components, as long as the
   matching is determined (no two competing candidates with equal score).  With a tie the numbering decides which of the
   tied pairs is matched -- known finding D15. *)
From Pan Require Import Base.Common Base.Rnd64 Model.MetricTable Model.EdgeCase Model.Metrics Model.Matcher Model.Relabel Model.Result
  Model.Pipeline Model.CCA Model.Semantic Proofs.CCASpec Proofs.Matching Proofs.MatcherQ Proofs.ResultEquiv Proofs.SemanticFacts.

(* the semantic path is the instance pipeline applied to the two component labellings *)
Theorem C01_semantic_pipeline_is_composition : forall bk nd x c pred ref,
  wf pred -> wf ref -> (forall p, In p pred \/ In p ref -> 0 < snd p) ->
  exists lp np lr nr,
    is_cca (pick_backend bk nd) pred lp np /\ is_cca (pick_backend bk nd) ref lr nr /\
    semantic_pipeline bk nd x c pred ref = pipeline x c (join lr lp).
Proof. exact semantic_pipeline_unfold. Qed.

(* any two valid component labellings of the two maps give equivalent results (threshold matcher, matching determined) *)
Theorem C01_semantic_result_independent_of_component_numbering :
  forall b pred ref lp np lp' np' lr nr lr' nr' x x' c,
  wf pred -> wf ref ->
  is_cca b pred lp np -> is_cca b pred lp' np' -> is_cca b ref lr nr -> is_cca b ref lr' nr' ->
  (c_matcher c = 1 \/ c_matcher c = 2) ->
  (forall rp, In rp (overlap_pairs (join lr lp)) -> x_pair x' (ren lr lr' (fst rp), ren lp lp' (snd rp)) = x_pair x rp) ->
  (forall m l, In l (ref_labels_of (join lr lp)) -> x_inst x' m (ren lr lr' l) = x_inst x m l) ->
  competing_distinct Q (better_eq (decreasing (c_mmetric c))) (fun s => beats (decreasing (c_mmetric c)) s (c_mthr c))
    (c_matcher c =? 2) (cand_list x (c_mmetric c) (join lr lp)) ->
  res_rel result_equiv (pipeline x c (join lr lp)) (pipeline x' c (join lr' lp')).
Proof. exact semantic_numbering_independent. Qed.

(* non-vacuity: a 1-D pair with two reference components and three prediction components, scipy backend *)
Definition exs_ref : smap := [([0], 1); ([1], 1); ([2], 1); ([5], 1); ([6], 1)].
Definition exs_pred : smap := [([0], 1); ([1], 1); ([3], 1); ([5], 1); ([6], 1); ([8], 1)].
Definition exs_x : ext := {| x_inst := fun _ _ => 0%Q; x_pair := fun _ => 0%Q; x_union := fun _ _ => 0%Q |}.
Definition exs_c : cfg := {| c_matcher := 1; c_mmetric := IOU; c_mthr := (1 # 2)%Q; c_ems := [IOU; DSC]; c_dm := None; c_dthr := None;
                             c_handler := default_handler |}.
Example C01_semantic_nonvacuous :
  exists r, semantic_pipeline None 1 exs_x exs_c exs_pred exs_ref = Ok r /\
            o_np r = 4 /\ o_nr r = 2 /\ o_tp r = 2 /\ o_fp r = 2 /\ o_fn r = 0.
Proof. eexists. split; [vm_compute; reflexivity|cbn; auto]. Qed.
