(* C16 -- concurrent aggregation records every subject exactly once, intact.
   Property theorems only; proofs live in Proofs/Agg*.v.  Model: Model/Aggregator.v.
   [ready h R0 cs] is a constructed aggregator: header h, old rows R0 (duplicate-free names), their
   names as claims, and ANY list cs of evaluate()/make_statistic() calls that have not started.
   [areach s0 s]: s is reached from s0 by ANY schedule of steps of the calls (a blocked call cannot
   move).  Locks are held iff a program counter is in the critical section (inE / inF).
   Assumption of the model (stated in the harness module): one row append is atomic. *)
From Coq Require Import Permutation.
From Pan Require Import Base.Common Model.Aggregator Proofs.AggBase Proofs.AggInv Proofs.AggSess Proofs.AggFinal
  Proofs.AggProgress Proofs.AggOracle Proofs.AggC16 Proofs.AggProg.

Section C16.
Variables (h : Z) (R0 : list row) (cs : list call).
Hypothesis R0_ok : NoDup (names R0).
Hypothesis cs_idle : all_idle cs.

(* in every reachable state: mutual exclusion on both locks; claims duplicate-free; rows duplicate-free,
   complete (header + rows, old rows untouched) and a subset of the claims; a name claimed but not yet
   written belongs to exactly one live call *)
Theorem C16_invariant : forall s, areach (ready h R0 cs) s ->
  exists b rows,
    buf s = Some b /\ out s = Some (LH h :: map lrow rows)
    /\ NoDup b /\ NoDup (names rows) /\ incl (names rows) b
    /\ NoDup (map cn (filter owns (calls s)))
    /\ (forall x, In x b <-> In x (names rows) \/ In x (map cn (filter owns (calls s))))
    /\ (forall x, In x (map cn (filter owns (calls s))) -> ~ In x (names rows))
    /\ (cnt inE (calls s) <= 1)%nat /\ (cnt inF (calls s) <= 1)%nat
    /\ (exists new, rows = R0 ++ new).
Proof. exact (c16_invariant h R0 cs R0_ok cs_idle). Qed.

(* deadlock freedom: unless every call has returned, some call can move *)
Theorem C16_progress : forall s, areach (ready h R0 cs) s -> ~ all_done s -> exists s', astep false false s s'.
Proof. exact (c16_progress h R0 cs R0_ok cs_idle). Qed.

(* every step decreases the measure: a schedule has at most measure(init) <= 8 * #calls steps, and a
   schedule that cannot be extended has returned from every call -- no call blocks forever *)
Theorem C16_terminates : forall n s, asteps n (ready h R0 cs) s ->
  (measure (ready h R0 cs) <= 8 * length cs)%nat
  /\ (n + measure s <= measure (ready h R0 cs))%nat /\ ((forall s', ~ astep false false s s') -> all_done s).
Proof. exact (fun n s Hs => conj (c16_measure_bound h R0 cs cs_idle) (c16_terminates h R0 cs R0_ok cs_idle n s Hs)). Qed.

(* final states: header, the old rows in place, then exactly one row for every distinct submitted name
   not yet present, carrying the input of a submitted call of that name *)
Theorem C16_final_rows : forall s, areach (ready h R0 cs) s -> all_done s ->
  exists new, out s = Some (LH h :: map lrow (R0 ++ new))
    /\ NoDup (names (R0 ++ new))
    /\ (forall x, In x (names (R0 ++ new)) <-> In x (names R0) \/ exists t, In t cs /\ is_eval t = true /\ cn t = x)
    /\ (forall r, In r new -> exists t, In t cs /\ is_eval t = true /\ crow t = r).
Proof. exact (c16_final_rows h R0 cs R0_ok cs_idle). Qed.

(* ... hence the same rows as any other schedule, in particular the sequential one *)
Theorem C16_schedule_independent : consistent cs -> forall s1 s2,
  areach (ready h R0 cs) s1 -> all_done s1 -> areach (ready h R0 cs) s2 -> all_done s2 ->
  Permutation (rows_of (out s1)) (rows_of (out s2)).
Proof. exact (c16_schedule_independent h R0 cs R0_ok cs_idle). Qed.

(* a statistics object sees the header and complete, duplicate-free rows: a prefix of the file *)
Theorem C16_reader_sees_complete_rows : forall s t sn, areach (ready h R0 cs) s ->
  In t (calls s) -> cp t = RRead sn \/ cp t = RDone sn ->
  exists k rest, sn = LH h :: map lrow k /\ NoDup (names k)
                 /\ out s = Some (sn ++ map lrow rest) /\ wf_outb (Some sn) = true.
Proof. exact (c16_reader h R0 cs R0_ok cs_idle). Qed.

(* the run-time oracles evaluated on observed files are consequences of the above *)
Theorem C16_oracles : forall s, areach (ready h R0 cs) s ->
  call_phaseb h (out s) (buf s) = true
  /\ (forall s', astep false false s s' -> monob (out s) (out s') = true)
  /\ (all_done s -> finalb h R0 (submitted cs) (out s) = true).
Proof. exact (c16_oracles h R0 cs R0_ok cs_idle). Qed.
End C16.

(* the program counters are derived from the instruction lists that T1 re-extracts from the source
   (lemmas of GenEq_AggOps: generated programs = model programs): file operations in program order with the locks around them, and
   the file effect of each step is the effect of the instruction at its counter *)
Theorem C16_counters_from_instructions :
  flat prog_evaluate = flat_map at_pc [Start; HoldE; ReadE true; ReadE false; ClaimedE; Evaluating; WantF; HoldF; WroteF; Done false]
  /\ flat prog_stat = flat_map at_pc [RStart; RHold; RRead []; RDone []]
  /\ forall xE xF b o others t b' o' t', lstep xE xF b o others t = Some (b', o', t') ->
       (b', o') = match pc_instr (cp t) with Some i => instr_effect i t b o | None => (b, o) end.
Proof. exact (conj evaluate_pcs_from_program (conj stat_pcs_from_program lstep_effect)). Qed.

(* the executable scheduler used for the correspondence only takes steps of the relation *)
Theorem C16_scheduler_sound : forall ms e, exec_event ms e = ms \/ mstep ms (exec_event ms e).
Proof. exact exec_event_sound. Qed.

(* non-vacuity: two calls colliding on "a" (input 5), one on "b", one reader, old row "z"; a concrete
   interleaved schedule reaches a final state; the file is header, z, a, b *)
Example C16_nonvacuous :
  let a := [97] in let b := [98] in let z := [122] in
  let cs := [mkEval a 5; mkEval a 5; mkEval b 6; mkStat] in
  let sched := [EvCall 0 0; EvCall 0 1; EvCall 0 0; EvCall 0 0; EvCall 0 0; EvCall 0 1; EvCall 0 1; EvCall 0 1;
                EvCall 0 2; EvCall 0 3; EvCall 0 2; EvCall 0 3; EvCall 0 3; EvCall 0 2; EvCall 0 2; EvCall 0 0;
                EvCall 0 2; EvCall 0 0; EvCall 0 2; EvCall 0 0; EvCall 0 2; EvCall 0 0; EvCall 0 2; EvCall 0 2;
                EvCall 0 0; EvCall 0 2] in
  match last (run_events [ready 7 [(z, 1)] cs] sched) [] with
  | [s] => all_doneb s = true /\ out s = Some [LH 7; LR z 1; LR a 5; LR b 6]
           /\ finalb 7 [(z, 1)] (submitted cs) (out s) = true
  | _ => False
  end.
Proof. vm_compute. repeat split; reflexivity. Qed.
