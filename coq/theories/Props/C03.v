(* C03 -- instance matching is a sound, conflict-free, maximal best-first assignment.
   cs: the candidate list (score, (ref, pred)), any list without duplicates; decr: the metric's
   direction; thr: the threshold; m2o: allow_many_to_one.  "conf" = share a prediction (many-to-one)
   or share either partner (one-to-one). *)
From Pan Require Import Base.Common Model.MetricTable Model.Metrics Model.Matcher Proofs.Matching Proofs.MatcherQ.
From Pan Require Import Model.Metrics Model.MetricTable Proofs.HalfUnique.
Open Scope Z_scope.

(* terminates with a result for every input and option (the loop never raises); the result is
   conflict-free (P1), sound (P2), maximal (P3) and best-first (P4) *)
Theorem C03_matching_is_valid : forall decr m2o thr (cs : list qcand), NoDup cs ->
  exists M, naive_match decr m2o thr cs = Ok M /\
    P1 Q m2o M /\ P2 Q (fun s => beats decr s thr) cs M /\
    P3 Q (fun s => beats decr s thr) m2o cs M /\ P4 Q (better_eq decr) (fun s => beats decr s thr) m2o cs M.
Proof. exact naive_match_spec. Qed.

(* scores exactly at the threshold match, in either direction *)
Theorem C03_equality_matches : forall decr t, beats decr t t = true.
Proof. exact beats_at_threshold. Qed.

(* every candidate is a pair of instances sharing a voxel, scored by the matching metric *)
Theorem C03_candidates_overlap : forall m a c, In c (candidates m a) ->
  In (snd c) a /\ cref c <> 0 /\ cpred c <> 0 /\ fst c = score_overlap m a (snd c).
Proof. exact candidates_overlap. Qed.
Theorem C03_candidates_complete : forall a rp,
  In rp (overlap_pairs a) <-> (In rp a /\ fst rp <> 0 /\ snd rp <> 0).
Proof. exact overlap_pairs_spec. Qed.
Theorem C03_candidates_distinct : forall m a, NoDup (candidates m a).
Proof. exact candidates_NoDup. Qed.

(* a stricter threshold can only remove matches *)
Theorem C03_threshold_monotone : forall decr m2o t' t (cs : list qcand) M M',
  stricter_thr decr t' t -> naive_match decr m2o t cs = Ok M -> naive_match decr m2o t' cs = Ok M' ->
  forall c, In c M' -> In c M.
Proof. exact naive_match_mono. Qed.

(* whenever competing candidates have distinct scores the specification has exactly one solution *)
Theorem C03_unique_when_no_ties : forall decr m2o thr (cs M M' : list qcand),
  competing_distinct Q (better_eq decr) (fun s => beats decr s thr) m2o cs ->
  valid Q (better_eq decr) (fun s => beats decr s thr) m2o cs M ->
  valid Q (better_eq decr) (fun s => beats decr s thr) m2o cs M' ->
  forall c, In c M <-> In c M'.
Proof. exact naive_match_unique. Qed.

(* the checker the harness applies to the implementation's matching is sound for the specification *)
Theorem C03_checker_sound : forall decr m2o thr (cs M : list qcand),
  check_valid (fun s => beats decr s thr) (better_eq decr) Qeq_struct m2o cs M = true ->
  P1 Q m2o M /\ P2 Q (fun s => beats decr s thr) cs M /\
  P3 Q (fun s => beats decr s thr) m2o cs M /\ P4 Q (better_eq decr) (fun s => beats decr s thr) m2o cs M.
Proof. intros decr m2o thr cs M. apply check_valid_sound. exact Qeq_struct_spec. Qed.

(* non-vacuity: a prediction spanning two references, threshold hit exactly, one-to-one and many-to-one *)
Example C03_nonvacuous :
  let cs : list qcand := [((1 # 2), (1, 1)); ((1 # 2), (2, 1)); ((3 # 4), (2, 2))] in
  naive_match false false (1 # 2) cs = Ok [((3 # 4), (2, 2)); ((1 # 2), (1, 1))] /\
  naive_match false true (1 # 2) cs = Ok [((3 # 4), (2, 2)); ((1 # 2), (1, 1))] /\
  naive_match false false (3 # 4) cs = Ok [((3 # 4), (2, 2))] /\ NoDup cs.
Proof.
  repeat split; try (vm_compute; reflexivity).
  repeat constructor; cbn; intuition discriminate.
Qed.

(* ---- "above an overlap of one half a segment has at most one partner": true for IoU (exact quotients and reported doubles alike),
   so with IoU and a threshold above one half nothing competes and the matching is exactly the set of candidates meeting the threshold,
   one-to-one or many-to-one; FALSE for Dice (a reference of nine voxels predicted as 5 + 4: both parts score above 0.6), which is
   why the "reference already matched" test cannot be dropped for increasing metrics in general (seeded change C01-m) *)
Theorem C03_iou_above_half_unique_reference : forall a p r1 r2, r1 <> r2 ->
  (1 # 2 < iou (Some (r1, [p])) a)%Q -> (1 # 2 < iou (Some (r2, [p])) a)%Q -> False.
Proof. exact iou_above_half_unique_reference. Qed.

Theorem C03_iou_above_half_unique_prediction : forall a r p1 p2, p1 <> p2 ->
  (1 # 2 < iou (Some (r, [p1])) a)%Q -> (1 # 2 < iou (Some (r, [p2])) a)%Q -> False.
Proof. exact iou_above_half_unique_prediction. Qed.

Theorem C03_iou_above_half_all_matched : forall m2o thr a M, (1 # 2 < thr)%Q ->
  naive_match false m2o thr (candidates IOU a) = Ok M ->
  forall c, In c M <-> (In c (candidates IOU a) /\ beats false (fst c) thr = true).
Proof. exact iou_above_half_all_matched. Qed.

Theorem C03_dice_above_half_competes :
  (6 # 10 < dice (Some (1%Z, [1%Z])) split9)%Q /\ (6 # 10 < dice (Some (1%Z, [2%Z])) split9)%Q.
Proof. exact dice_above_half_not_unique. Qed.
