(* C14 -- the merge matcher only merges when it improves the match.
   For every candidate list cs whose scores are the single-prediction scores (score_union r [p]),
   every direction, every threshold, every combined-score function score_union:
   after the loop (M = label map as (pred, ref) entries, S = score per matched reference) *)
From Pan Require Import Base.Common Model.MetricTable Model.Matcher Model.Merge Proofs.Matching Proofs.MatcherQ Proofs.MergeFacts Proofs.MergeFree.
From Coq Require Import Permutation.
Open Scope Z_scope.

Theorem C14_merge_matcher : forall decr thr (score_union : Z -> list Z -> Q) (cs : list qcand),
  (forall c, In c cs -> fst c = score_union (cref c) [cpred c]) ->
  let st := merge_match (better_eq decr) Qeq_bool (fun s => beats decr s thr) score_union cs in
  (* every prediction is assigned to at most one reference *)
  NoDup (map fst (ms_map st)) /\
  (* every entry is a candidate pair (the instances overlap) *)
  (forall p r, In (p, r) (ms_map st) -> exists c, In c cs /\ cref c = r /\ cpred c = p) /\
  (* a reference is matched iff it has a recorded score, which is the combined score of exactly the
     predictions assigned to it, meets the threshold, and is at least as good as the score of a single
     prediction (the seed) that met the threshold on its own and is among those assigned *)
  (forall r, has_ref r (ms_map st) = true <-> exists s, lookup_score r (ms_score st) = Some s) /\
  (forall r s, lookup_score r (ms_score st) = Some s ->
     s = score_union r (preds_of r (ms_map st)) /\ beats decr s thr = true /\
     exists c, In c cs /\ cref c = r /\ beats decr (fst c) thr = true /\ In (cpred c, r) (ms_map st)
               /\ better_eq decr s (fst c) = true).
Proof.
  intros decr thr score_union cs Hseed st.
  destruct (merge_match_inv Q (better_eq decr) (better_eq_refl decr) (better_eq_trans decr) Qeq_bool
              (fun s => beats decr s thr) (fun a b => beats_up decr thr a b) score_union cs Hseed) as [H1 H2 H3 H4].
  assert (Hp : forall c, In c (sort_cands (better_eq decr) cs) -> In c cs).
  { intros c Hc. exact (Permutation_in _ (Permutation_sym (sort_perm Q (better_eq decr) cs)) Hc). }
  fold st in H1, H2, H3, H4. repeat split.
  - exact H1.
  - intros p r Hin. destruct (H4 p r Hin) as (c & Hc & Hx). exists c. split; [now apply Hp|exact Hx].
  - apply H2.
  - apply H2.
  - destruct (H3 r s H) as (E & _). exact E.
  - destruct (H3 r s H) as (_ & Hb & _). exact Hb.
  - destruct (H3 r s H) as (_ & _ & c & Hc & Hx). exists c. split; [now apply Hp|exact Hx].
Qed.

(* trace level: in any state reached by the loop (invariant MInv over the processed prefix), whenever an iteration
   adds a prediction to an ALREADY matched reference, the combined score after is strictly better (at least as
   good and not equal) than the combined score before, which is the recorded one *)
Theorem C14_every_merge_strictly_improves : forall decr thr (score_union : Z -> list Z -> Q) pre c st,
  MInv Q (better_eq decr) (fun s => beats decr s thr) score_union pre st ->
  fst c = score_union (cref c) [cpred c] ->
  has_ref (cref c) (ms_map st) = true ->
  let st' := merge_step (better_eq decr) Qeq_bool (fun s => beats decr s thr) score_union st c in
  ms_map st' <> ms_map st ->
  ms_map st' = ms_map st ++ [(cpred c, cref c)] /\
  better_eq decr (score_union (cref c) (preds_of (cref c) (ms_map st) ++ [cpred c])) (score_union (cref c) (preds_of (cref c) (ms_map st))) = true /\
  Qeq_bool (score_union (cref c) (preds_of (cref c) (ms_map st) ++ [cpred c])) (score_union (cref c) (preds_of (cref c) (ms_map st))) = false /\
  lookup_score (cref c) (ms_score st) = Some (score_union (cref c) (preds_of (cref c) (ms_map st))) /\
  lookup_score (cref c) (ms_score st') = Some (score_union (cref c) (preds_of (cref c) (ms_map st) ++ [cpred c])).
Proof.
  intros decr thr score_union pre c st HI Hs Hr st'. apply (merge_strictly_improves Q (better_eq decr) Qeq_bool (fun s => beats decr s thr) score_union pre c st HI Hs Hr).
Qed.

(* "at least as good as its best single candidate", in its strongest form: the final score of a matched reference is at least as
   good as the single score of EVERY candidate prediction of that reference that was not given to another reference -- whether it
   was merged in, rejected, or below the threshold (best-first order: its seed scored at least as well, and merges only improve) *)
Theorem C14_final_score_at_least_every_free_candidate : forall decr thr (score_union : Z -> list Z -> Q) (cs : list qcand),
  (forall c, In c cs -> fst c = score_union (cref c) [cpred c]) ->
  let st := merge_match (better_eq decr) Qeq_bool (fun s => beats decr s thr) score_union cs in
  forall c S, In c cs -> lookup_score (cref c) (ms_score st) = Some S ->
    (forall r', In (cpred c, r') (ms_map st) -> r' = cref c) -> better_eq decr S (fst c) = true.
Proof.
  intros decr thr score_union cs Hseed st c S Hc Hl Hfree.
  exact (merge_final_beats_free_candidates Q (better_eq decr) (better_eq_refl decr) (better_eq_trans decr) Qeq_bool
           (fun s => beats decr s thr) (fun a b => beats_up decr thr a b) score_union (better_eq_total decr) cs Hseed c S Hc Hl Hfree).
Qed.

(* a merge is accepted only when the combined score is strictly better in the metric's direction:
   the decision table of one loop iteration (tied to the source by Gen/MatcherLoop) *)
Theorem C14_merge_only_if_strictly_better : forall cp cr beat nb ne,
  merge_action cp cr beat nb ne = BMerge -> cp = false /\ cr = true /\ nb = true /\ ne = false.
Proof. intros cp cr beat nb ne. destruct cp, cr, beat, nb, ne; cbn; intros H; try discriminate H; auto. Qed.
Theorem C14_seed_only_if_threshold_met : forall cp cr beat nb ne,
  merge_action cp cr beat nb ne = BSeed -> cp = false /\ cr = false /\ beat = true.
Proof. intros cp cr beat nb ne. destruct cp, cr, beat, nb, ne; cbn; intros H; try discriminate H; auto. Qed.

(* non-vacuity: reference 1 covered by fragments 1 and 2; merging improves IoU 1/2 -> 1; fragment 3 would worsen it *)
Example C14_nonvacuous :
  let su := fun (r : Z) (ps : list Z) =>
     if (length ps =? 1)%nat then (match ps with [3] => 1 # 10 | _ => 1 # 2 end)
     else if existsb (Z.eqb 3) ps then (2 # 3) else 1%Q in
  let cs : list qcand := [((1 # 2), (1, 1)); ((1 # 2), (1, 2)); ((1 # 10), (1, 3))] in
  let st := merge_match (better_eq false) Qeq_bool (fun s => beats false s (1 # 2)) su cs in
  ms_map st = [(1, 1); (2, 1)] /\ lookup_score 1 (ms_score st) = Some 1%Q.
Proof. vm_compute. split; reflexivity. Qed.

(* non-vacuity of C14_final_score_at_least_every_free_candidate: in the example above fragment 3 (single score 1/10) stays unassigned,
   fragments 1 and 2 are assigned to reference 1; the final score 1 is at least as good as each of the three single scores *)
Example C14_free_candidates_nonvacuous :
  let su := fun (r : Z) (ps : list Z) =>
     if (length ps =? 1)%nat then (match ps with [3] => 1 # 10 | _ => 1 # 2 end)
     else if existsb (Z.eqb 3) ps then (2 # 3) else 1%Q in
  let cs : list qcand := [((1 # 2), (1, 1)); ((1 # 2), (1, 2)); ((1 # 10), (1, 3))] in
  let st := merge_match (better_eq false) Qeq_bool (fun s => beats false s (1 # 2)) su cs in
  (* the seeds are the single scores; every candidate's prediction is free for reference 1; the final score 1 beats them all *)
  forallb (fun c : qcand => Qeq_bool (fst c) (su (cref c) [cpred c])
                            && forallb (fun e : Z * Z => if fst e =? cpred c then snd e =? cref c else true) (ms_map st)
                            && better_eq false 1%Q (fst c)) cs = true
  /\ lookup_score 1 (ms_score st) = Some 1%Q.
Proof. vm_compute. split; reflexivity. Qed.
