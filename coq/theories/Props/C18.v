(* C18 -- what the aggregator writes is what the statistics loader reads.
   Property theorems only; proofs live in Proofs/TsvFacts.v (and Proofs/StatsC20.v for get/get_one_subject).

   Objects (Model/Tsv.v, Model/Stats.v).  Names are code-point lists.  G = the evaluator's group names,
   K = the aggregator's metric keys (evaluator keys, + "computation_time" with log_times), subs = the
   sequence of evaluate() calls: (subject name, group -> result dictionary).  `write` is the table the
   aggregator leaves in the file (header, then one row per recorded subject), `load` is from_file,
   `value_of d m` = the rational of a finite value stored under m in d, None for NaN / +inf / -inf /
   None / absent key.  `table_of` / `of_rows` are C20's dataset and statistics object.

   ASSUMED, not proved (the three hypotheses of the Section; validated by the harness on every run):
   csv.writer writes '' for None, the text of any other value is non-empty, and float(str(v)) == v for
   every double (shortest-repr round trip) and for nan / inf / -inf.  The csv module's quoting of tabs,
   quotes and newlines is below this model (a file is the list of its rows of cells).
   Group names are arbitrary (may contain '-', blanks, upper case, anything); metric keys must not
   contain '-' and must be distinct: `keys_ok`, established for panoptica's key universe in
   Proofs/GenEq_StatParse.v and checked by the harness on every header it sees. *)
From Pan Require Import Base.Common Base.Sx Model.Stats Model.Tsv Proofs.StatsFacts Proofs.StatsC20 Proofs.TsvFacts Proofs.PrefixReading.
Open Scope Z_scope.

(* the loader's split (at the LAST '-') inverts the header's join whenever the key has no '-' ... *)
Theorem C18_split_inverts_join : forall g m, ~ In DASH m -> split_cell (join g m) = Ok (g, m).
Proof. exact split_cell_join. Qed.
(* ... so distinct (group, key) pairs have distinct header cells, whatever the group names are *)
Theorem C18_header_cells_injective : forall g1 m1 g2 m2, ~ In DASH m1 -> ~ In DASH m2 ->
  join g1 m1 = join g2 m2 -> g1 = g2 /\ m1 = m2.
Proof. exact join_inj. Qed.
(* any header cell: either it has no '-' and the loader raises IndexError, or it is read as
   (everything before the last '-', the dash-free rest) *)
Theorem C18_header_cell_reading : forall c,
  match split_cell c with
  | Ok (g, m) => c = join g m /\ ~ In DASH m
  | Err e => e = E_INDEX /\ ~ In DASH c
  end.
Proof. exact split_cell_spec. Qed.
(* the side condition is needed: with a '-' inside a key two different pairs share a cell *)
Example C18_dash_in_key_collides :
  join [97] [98; 45; 99] = join [97; 45; 98] [99] /\ split_cell (join [97] [98; 45; 99]) = Ok ([97; 45; 98], [99]).
Proof. vm_compute. split; reflexivity. Qed.

Theorem C18_missing_value_mapping : forall d m q,
  value_of d m = Some q <-> alookup m d = Some (FQ q).
Proof. exact value_of_spec. Qed.

(* duplicate subject names: only the first call is recorded; distinct names: every call is *)
Theorem C18_recorded_subjects : forall subs : list subject,
  NoDup (map fst (recorded subs)) /\
  (forall sr, In sr (recorded subs) -> In sr subs) /\
  (forall sr, In sr subs -> exists sr', In sr' (recorded subs) /\ fst sr' = fst sr) /\
  (NoDup (map fst subs) -> recorded subs = subs).
Proof.
  intros subs. destruct (recorded_spec subs) as (A & B & C). repeat split; try assumption. apply recorded_nodup.
Qed.

(* group names given as a dict: lower-cased, later duplicates replace earlier ones -> distinct names *)
Theorem C18_group_names_distinct : forall lower given,
  NoDup (class_group_names lower given) /\
  (forall g, In g given -> In (lower g) (class_group_names lower given)) /\
  (forall x, In x (class_group_names lower given) -> exists g, In g given /\ x = lower g).
Proof. exact class_group_names_spec. Qed.

Section Codec.
  Variable print : fval -> name.
  Variable parse : name -> option fval.
  Hypothesis print_none : print FNone = [].
  Hypothesis print_nonempty : forall v, v <> FNone -> print v <> [].
  Hypothesis parse_print : forall v, v <> FNone -> parse (print v) = Some v.

  (* the loader returns exactly the dataset of the recorded subjects: same subject order, groups and
     keys in header order, under (s, g, m) the value written for (s, g, m) -- nothing shifted *)
  Theorem C18_load_write : forall G K (subs : list subject),
    keys_ok K = true -> NoDup G -> G <> [] -> K <> [] -> subs <> [] ->
    load parse (write print G K subs) = Ok (of_rows G K (table_of (recorded subs))).
  Proof.
    intros G K subs HK HG Gn Kn Sn. apply keys_ok_spec in HK. destruct HK as [Kd Knd].
    apply load_write; assumption.
  Qed.

  (* observable form: get and get_one_subject on the loaded object *)
  Theorem C18_roundtrip : forall G K (subs : list subject),
    keys_ok K = true -> NoDup G -> G <> [] -> K <> [] -> subs <> [] -> NoDup (map fst subs) ->
    exists st, load parse (write print G K subs) = Ok st /\
      st_subjects st = map fst subs /\ groupnames st = G /\ metricnames st = K /\
      (forall g m, In g G -> In m K ->
         get st g m = Ok (map (fun sr : subject => value_of (snd sr g) m) subs)) /\
      (forall s r, In (s, r) subs ->
         get_one_subject st s = Ok (map (fun g => (g, map (fun m => (m, value_of (r g) m)) K)) G)).
  Proof.
    intros G K subs HK HG Gn Kn Sn Snd. exists (of_rows G K (table_of subs)).
    pose proof (C18_load_write G K subs HK HG Gn Kn Sn) as L. rewrite (recorded_nodup subs Snd) in L.
    split; [exact L|]. split; [unfold of_rows, table_of; cbn; rewrite map_map; reflexivity|].
    split; [apply groupnames_of_rows|]. split; [apply metricnames_of_rows; exact Gn|]. split.
    - intros g m Hg Hm. rewrite (get_of_rows G K (table_of subs) g m Hg Hm).
      unfold column, table_of. rewrite map_map. reflexivity.
    - intros s r Hin.
      assert (ND : NoDup (map fst (table_of subs))) by (unfold table_of; rewrite map_map; exact Snd).
      assert (Hin' : In (s, fun g m => value_of (r g) m) (table_of subs)).
      { unfold table_of. apply in_map_iff. exists (s, r). split; [reflexivity|exact Hin]. }
      rewrite get_one_subject_of_rows, (row_named_nodup (table_of subs) s _ ND Hin'). reflexivity.
  Qed.

  (* a file holding only the header cannot be loaded (observation O1: IndexError) *)
  Theorem C18_header_only_file : forall G K, keys_ok K = true -> NoDup G -> G <> [] -> K <> [] ->
    load parse (write print G K []) = Err E_INDEX.
  Proof.
    intros G K HK HG Gn Kn. apply keys_ok_spec in HK. destruct HK as [Kd Knd].
    apply load_header_only; assumption.
  Qed.
End Codec.

(* non-vacuity: the codec hypotheses are satisfiable (the engine's reference codec), and on a concrete
   file -- groups "a-b" and "A b", keys "tp","sq", two subjects, one NaN, one absent key, one repeated
   subject name -- the loader returns the written values under the right (subject, group, metric) *)
Example C18_nonvacuous :
  (toy_print FNone = [] /\ (forall v, v <> FNone -> toy_print v <> []) /\
   (forall v, v <> FNone -> toy_parse (toy_print v) = Some v)) /\
  let g1 := [97; 45; 98] in let g2 := [65; 32; 98] in let tp := [116; 112] in let sq := [115; 113] in
  let r1 : name -> rdict := fun g => if name_eqb g g1 then [(tp, FQ 1); (sq, FQ (1 # 2))] else [(tp, FQ 0); (sq, FNan)] in
  let r2 : name -> rdict := fun g => if name_eqb g g1 then [(sq, FQ (3 # 4))] else [(tp, FQ 2); (sq, FInf)] in
  let subs : list subject := [([49], r1); ([50], r2); ([49], r2)] in
  keys_ok [tp; sq] = true /\
  match load toy_parse (write toy_print [g1; g2] [tp; sq] subs) with
  | Ok st => match get st g1 tp, get st g1 sq, get st g2 tp, get st g2 sq with
             | Ok [Some a; None], Ok [Some b; Some c], Ok [Some d; Some e], Ok [None; None] =>
                 Qeq_bool a 1 && Qeq_bool b (1 # 2) && Qeq_bool c (3 # 4) && Qeq_bool d 0 && Qeq_bool e 2
                 && Nat.eqb (length (st_subjects st)) 2
             | _, _, _, _ => false end
  | Err _ => false
  end = true.
Proof. split; [exact toy_codec_ok|]. vm_compute. split; reflexivity. Qed.

(* ---- a group's cells cannot be recognised by the prefix "<group>-": a group whose name extends another's by "-..." owns cells
   beginning with that prefix, and the remainder read as a metric name contains a '-' (no key does); the split at the last '-'
   reads the same cell correctly.  Holds for every pair of such names; witness: organ / organ-left / sq *)
Theorem C18_prefix_reading_misreads_extended_groups : forall g rest m,
  strip_prefix (g ++ [DASH]) (join (g ++ DASH :: rest) m) = Some (join rest m) /\ In DASH (join rest m).
Proof. exact prefix_reading_of_extended_group. Qed.

Theorem C18_last_dash_reading_of_extended_groups : forall g rest m, ~ In DASH m ->
  split_cell (join (g ++ DASH :: rest) m) = Ok (g ++ DASH :: rest, m).
Proof. exact last_dash_reading_of_extended_group. Qed.

Example C18_prefix_reading_refuted :
  let organ := [111; 114; 103; 97; 110] in let left := [108; 101; 102; 116] in let sq := [115; 113] in
  strip_prefix (organ ++ [DASH]) (join (organ ++ DASH :: left) sq) = Some (left ++ DASH :: sq) /\
  split_cell (join (organ ++ DASH :: left) sq) = Ok (organ ++ DASH :: left, sq).
Proof. exact prefix_reading_refuted. Qed.
