(* C08 -- zero-true-positive results are exactly what the edge case handler prescribes.
   Quantified over EVERY handler table (each of the four scenario entries in {INF,NAN,ZERO,ONE,NONE}
   per metric, any empty-list value) and all instance counts; case analysis on the dispatch, not
   enumeration.  C08_pipeline_zero_instances lifts it to the pipeline for inputs with an empty side;
   C08_pipeline_zero_tp to EVERY evaluation that ends with zero true positives, in particular 'instances on both sides,
   nothing matched' and 'matched, but no pair passes the decision threshold'. *)
From Pan Require Import Base.Common Base.Sx Model.MetricTable Model.Metrics Model.EdgeCase Model.Result Model.Pipeline
  Proofs.ResultFacts Proofs.PipelineFacts.
Open Scope Z_scope.

(* the four scenarios are exhaustive and mutually exclusive on (num_pred, num_ref) *)
Theorem C08_scenarios : forall np nr, 0 <= np -> 0 <= nr ->
  (np = 0 /\ nr = 0 /\ classify np nr = Some NO_INSTANCES) \/
  (0 < np /\ nr = 0 /\ classify np nr = Some EMPTY_REF) \/
  (np = 0 /\ 0 < nr /\ classify np nr = Some EMPTY_PRED) \/
  (0 < np /\ 0 < nr /\ classify np nr = Some NORMAL).
Proof. exact classify_spec. Qed.

(* tp = 0: the result exists (no exception), tp = 0, fp/fn are the instance counts, every evaluated
   metric's sq is the handler's entry for the scenario and every sq_std the empty-list value *)
Theorem C08_zero_tp : forall h np nr lists,
  0 <= np -> 0 <= nr -> handler_defines h lists -> lists_empty lists ->
  exists s r, classify np nr = Some s /\
    panoptica_result {| r_np := np; r_nr := nr; r_tp := 0; r_lists := lists; r_handler := h |} = Ok r /\
    o_tp r = 0 /\ o_fp r = np /\ o_fn r = nr /\
    (forall mr, In mr (o_metrics r) -> exists mh, lookup_m (m_metric mr) (h_table h) = Some mh /\
        m_sq mr = ecr_value (entry mh s) /\ m_var mr = ecr_value (h_std h) /\ m_all mr = []) /\
    (forall m, lookup_m m lists <> None -> exists mr, In mr (o_metrics r) /\ m_metric mr = m).
Proof. exact zero_tp_result. Qed.

(* tp > 0: the handler has no influence *)
Theorem C08_handler_irrelevant : forall h h' np nr tp lists,
  tp <> 0 -> lists_nonempty lists ->
  panoptica_result {| r_np := np; r_nr := nr; r_tp := tp; r_lists := lists; r_handler := h |} =
  panoptica_result {| r_np := np; r_nr := nr; r_tp := tp; r_lists := lists; r_handler := h' |}.
Proof. exact handler_irrelevant. Qed.

(* through the whole pipeline: an input with no predicted or no reference instance (any input type that reaches it as
   instance maps, any matcher/threshold/decision metric) never raises and reports exactly the handler's prescription *)
Theorem C08_pipeline_zero_instances : forall x c a,
  (n_pred_inst a = 0 \/ n_ref_inst a = 0) ->
  (forall m, In m (c_ems c) -> exists mh, lookup_m m (h_table (c_handler c)) = Some mh) ->
  exists s r, classify (n_pred_inst a) (n_ref_inst a) = Some s /\ pipeline x c a = Ok r /\
    o_tp r = 0 /\ o_fp r = n_pred_inst a /\ o_fn r = n_ref_inst a /\
    (forall mr, In mr (o_metrics r) -> exists mh, lookup_m (m_metric mr) (h_table (c_handler c)) = Some mh /\
        m_sq mr = ecr_value (entry mh s) /\ m_var mr = ecr_value (h_std (c_handler c)) /\ m_all mr = []) /\
    (forall m, In m (c_ems c) -> exists mr, In mr (o_metrics r) /\ m_metric mr = m).
Proof. exact pipeline_zero_instances_result. Qed.

(* EVERY evaluation that ends with zero true positives (whatever the reason: an empty side, nothing matched, or no matched pair
   passing the decision threshold; every input type that reaches the pipeline as instance maps, every matcher, metric, threshold)
   reports the handler's prescription for the scenario of the two instance counts: fp / fn are the counts (of the arrays the matcher
   hands on), every list is empty, sq is the handler's entry, std its empty-list value, for every evaluated metric *)
From Pan Require Import Proofs.ZeroTpNormal Model.Matcher Model.ZeroCase.
Theorem C08_pipeline_zero_tp : forall x c a r,
  (forall m, In m (c_ems c) -> exists mh, lookup_m m (h_table (c_handler c)) = Some mh) ->
  pipeline x c a = Ok r -> o_tp r = 0 ->
  exists a', (c_matcher c = 0 /\ a' = a \/ zero_case (n_pred_inst a) (n_ref_inst a) <> None /\ a' = a
              \/ c_matcher c <> 0 /\ match_phase x c a = Ok a') /\
    exists s, classify (n_pred_inst a') (n_ref_inst a') = Some s /\
      o_fp r = n_pred_inst a' /\ o_fn r = n_ref_inst a' /\
      (forall mr, In mr (o_metrics r) -> exists mh, lookup_m (m_metric mr) (h_table (c_handler c)) = Some mh /\
          m_sq mr = ecr_value (entry mh s) /\ m_var mr = ecr_value (h_std (c_handler c)) /\ m_all mr = []) /\
      (forall m, In m (c_ems c) -> exists mr, In mr (o_metrics r) /\ m_metric mr = m).
Proof. exact pipeline_zero_tp. Qed.
Theorem C08_evaluation_phase_zero_tp : forall x c a r,
  (forall m, In m (c_ems c) -> exists mh, lookup_m m (h_table (c_handler c)) = Some mh) ->
  eval_phase x c a = Ok r -> o_tp r = 0 ->
  exists s, classify (n_pred_inst a) (n_ref_inst a) = Some s /\
    o_fp r = n_pred_inst a /\ o_fn r = n_ref_inst a /\
    (forall mr, In mr (o_metrics r) -> exists mh, lookup_m (m_metric mr) (h_table (c_handler c)) = Some mh /\
        m_sq mr = ecr_value (entry mh s) /\ m_var mr = ecr_value (h_std (c_handler c)) /\ m_all mr = []) /\
    (forall m, In m (c_ems c) -> exists mr, In mr (o_metrics r) /\ m_metric mr = m).
Proof. exact eval_phase_zero_tp. Qed.

(* non-vacuity: matched instance 1 overlaps imperfectly (IoU 1/2); the decision metric IoU with threshold 1 rejects it: zero true
   positives with one instance on each side -> the NORMAL entries (IoU: INF, Dice: ZERO), std ONE *)
Example C08_zero_tp_by_decision_nonvacuous :
  let h := {| h_table := [(IOU, mh4 NAN ZERO ONE INF); (DSC, mh4 ONE ONE ONE ZERO)]; h_std := ONE |} in
  let a := [(1, 1); (1, 1); (1, 0); (0, 1); (0, 0)] in
  let x := {| x_inst := fun _ _ => 0%Q; x_pair := fun _ => 0%Q; x_union := fun _ _ => 0%Q |} in
  let c := {| c_matcher := 0; c_mmetric := IOU; c_mthr := 1 # 2; c_ems := [IOU; DSC];
              c_dm := Some IOU; c_dthr := Some (1 # 1); c_handler := h |} in
  match pipeline x c a with
  | Ok r => o_tp r = 0 /\ o_fp r = 1 /\ o_fn r = 1 /\ map (fun mr => (m_metric mr, m_sq mr, m_var mr)) (o_metrics r)
                                                          = [(DSC, FQ 0, FQ 1); (IOU, FInf, FQ 1)]
  | Err _ => False
  end.
Proof. vm_compute. repeat split; reflexivity. Qed.

(* non-vacuity: an injective table on a NORMAL zero-TP input *)
Example C08_nonvacuous :
  let h := {| h_table := [(IOU, mh4 NAN ZERO ONE INF)]; h_std := ONE |} in
  match panoptica_result {| r_np := 2; r_nr := 3; r_tp := 0; r_lists := [(IOU, [])]; r_handler := h |} with
  | Ok r => o_fp r = 2 /\ o_fn r = 3 /\ map m_sq (o_metrics r) = [FInf] /\ map m_var (o_metrics r) = [FQ 1]
  | Err _ => False
  end.
Proof. vm_compute. repeat split; reflexivity. Qed.
