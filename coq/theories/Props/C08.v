(* C08 -- zero-true-positive results are exactly what the edge case handler prescribes.
   Quantified over EVERY handler table (each of the four scenario entries in {INF,NAN,ZERO,ONE,NONE}
   per metric, any empty-list value) and all instance counts; case analysis on the dispatch, not
   enumeration.  C08_pipeline_zero_instances lifts it to the pipeline for inputs with an empty side; the
   'instances on both sides, none matched' scenario reaches C08_zero_tp with tp = 0 by C02_counts_and_lists. *)
From Pan Require Import Base.Common Base.Sx Model.MetricTable Model.Metrics Model.EdgeCase Model.Result Model.Pipeline
  Proofs.ResultFacts Proofs.PipelineFacts.
Open Scope Z_scope.

(* the four scenarios are exhaustive and mutually exclusive on (num_pred, num_ref) *)
Theorem C08_scenarios : forall np nr, 0 <= np -> 0 <= nr ->
  (np = 0 /\ nr = 0 /\ classify np nr = Some NO_INSTANCES) \/
  (0 < np /\ nr = 0 /\ classify np nr = Some EMPTY_REF) \/
  (np = 0 /\ 0 < nr /\ classify np nr = Some EMPTY_PRED) \/
  (0 < np /\ 0 < nr /\ classify np nr = Some NORMAL).
Proof. exact classify_spec. Qed.

(* tp = 0: the result exists (no exception), tp = 0, fp/fn are the instance counts, every evaluated
   metric's sq is the handler's entry for the scenario and every sq_std the empty-list value *)
Theorem C08_zero_tp : forall h np nr lists,
  0 <= np -> 0 <= nr -> handler_defines h lists -> lists_empty lists ->
  exists s r, classify np nr = Some s /\
    panoptica_result {| r_np := np; r_nr := nr; r_tp := 0; r_lists := lists; r_handler := h |} = Ok r /\
    o_tp r = 0 /\ o_fp r = np /\ o_fn r = nr /\
    (forall mr, In mr (o_metrics r) -> exists mh, lookup_m (m_metric mr) (h_table h) = Some mh /\
        m_sq mr = ecr_value (entry mh s) /\ m_var mr = ecr_value (h_std h) /\ m_all mr = []) /\
    (forall m, lookup_m m lists <> None -> exists mr, In mr (o_metrics r) /\ m_metric mr = m).
Proof. exact zero_tp_result. Qed.

(* tp > 0: the handler has no influence *)
Theorem C08_handler_irrelevant : forall h h' np nr tp lists,
  tp <> 0 -> lists_nonempty lists ->
  panoptica_result {| r_np := np; r_nr := nr; r_tp := tp; r_lists := lists; r_handler := h |} =
  panoptica_result {| r_np := np; r_nr := nr; r_tp := tp; r_lists := lists; r_handler := h' |}.
Proof. exact handler_irrelevant. Qed.

(* through the whole pipeline: an input with no predicted or no reference instance (any input type that reaches it as
   instance maps, any matcher/threshold/decision metric) never raises and reports exactly the handler's prescription *)
Theorem C08_pipeline_zero_instances : forall x c a,
  (n_pred_inst a = 0 \/ n_ref_inst a = 0) ->
  (forall m, In m (c_ems c) -> exists mh, lookup_m m (h_table (c_handler c)) = Some mh) ->
  exists s r, classify (n_pred_inst a) (n_ref_inst a) = Some s /\ pipeline x c a = Ok r /\
    o_tp r = 0 /\ o_fp r = n_pred_inst a /\ o_fn r = n_ref_inst a /\
    (forall mr, In mr (o_metrics r) -> exists mh, lookup_m (m_metric mr) (h_table (c_handler c)) = Some mh /\
        m_sq mr = ecr_value (entry mh s) /\ m_var mr = ecr_value (h_std (c_handler c)) /\ m_all mr = []) /\
    (forall m, In m (c_ems c) -> exists mr, In mr (o_metrics r) /\ m_metric mr = m).
Proof. exact pipeline_zero_instances_result. Qed.

(* non-vacuity: an injective table on a NORMAL zero-TP input *)
Example C08_nonvacuous :
  let h := {| h_table := [(IOU, mh4 NAN ZERO ONE INF)]; h_std := ONE |} in
  match panoptica_result {| r_np := 2; r_nr := 3; r_tp := 0; r_lists := [(IOU, [])]; r_handler := h |} with
  | Ok r => o_fp r = 2 /\ o_fn r = 3 /\ map m_sq (o_metrics r) = [FInf] /\ map m_var (o_metrics r) = [FQ 1]
  | Err _ => False
  end.
Proof. vm_compute. repeat split; reflexivity. Qed.
