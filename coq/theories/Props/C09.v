(* C09 -- results do not depend on label values, label order or integer dtype.
   sr / sp: any injective maps of the reference / prediction labels that fix the background 0
   (jointly one map for matched input).  Integers are unbounded in the model: after the repairs
   (pair code in 64 bit, LUT widening, crop by logical-or) the code computes no label in a fixed
   width; the dtype-dependence of the implementation is decided by correspondence. *)
From Pan Require Import Base.Common Model.MetricTable Model.Metrics Model.Matcher Proofs.Matching Proofs.MatcherQ Proofs.Invariance.
Open Scope Z_scope.

(* every per-pair overlap metric is unchanged by the renaming *)
Theorem C09_metrics_invariant : forall sr sp r ps a, injective sr -> injective sp ->
  iou (Some (sr r, map sp ps)) (rename sr sp a) = iou (Some (r, ps)) a /\
  dice (Some (sr r, map sp ps)) (rename sr sp a) = dice (Some (r, ps)) a /\
  rvd (Some (sr r, map sp ps)) (rename sr sp a) = rvd (Some (r, ps)) a.
Proof. exact metrics_rename. Qed.

(* the candidate pairs of the renamed maps are the renamed candidate pairs *)
Theorem C09_candidates_invariant : forall sr sp a rp, injective sr -> injective sp -> sr 0 = 0 -> sp 0 = 0 ->
  (In (sr (fst rp), sp (snd rp)) (overlap_pairs (rename sr sp a)) <-> In rp (overlap_pairs a)).
Proof. exact overlap_pairs_rename. Qed.

(* a matching is valid (and the candidate list tie-free) iff its renamed image is: with C03's
   uniqueness the matched pairs of the two runs correspond whenever the matching is determined *)
Theorem C09_matching_spec_invariant : forall decr m2o thr sr sp (cs M : list qcand), injective sr -> injective sp ->
  let f := fun rp : Z * Z => (sr (fst rp), sp (snd rp)) in
  valid Q (better_eq decr) (fun s => beats decr s thr) m2o cs M ->
  valid Q (better_eq decr) (fun s => beats decr s thr) m2o (map (mapc Q f) cs) (map (mapc Q f) M).
Proof.
  intros decr m2o thr sr sp cs M Hr Hp f. apply valid_transport.
  intros c d. apply rename_conf; assumption.
Qed.
Theorem C09_uniqueness_invariant : forall decr m2o thr sr sp (cs : list qcand), injective sr -> injective sp ->
  let f := fun rp : Z * Z => (sr (fst rp), sp (snd rp)) in
  competing_distinct Q (better_eq decr) (fun s => beats decr s thr) m2o cs ->
  competing_distinct Q (better_eq decr) (fun s => beats decr s thr) m2o (map (mapc Q f) cs).
Proof.
  intros decr m2o thr sr sp cs Hr Hp f. apply competing_distinct_transport.
  intros c d. apply rename_conf; assumption.
Qed.

(* non-vacuity: labels 1,2 renamed to 70000, 255 (reference) and 16777215, 3 (prediction) *)
Example C09_nonvacuous :
  let sr := fun x => if x =? 1 then 70000 else if x =? 2 then 255 else x in
  let sp := fun x => if x =? 1 then 16777215 else if x =? 2 then 3 else if x =? 3 then 2 else if x =? 16777215 then 1 else x in
  let a := [(1, 1); (1, 1); (1, 2); (2, 2); (0, 2)] in
  iou (Some (sr 1, [sp 1])) (rename sr sp a) = iou (Some (1, [1])) a /\
  overlap_pairs (rename sr sp a) = [(255, 3); (70000, 3); (70000, 16777215)] /\ overlap_pairs a = [(1, 1); (1, 2); (2, 2)].
Proof. vm_compute. repeat split; reflexivity. Qed.
