(* C09 -- results do not depend on label values, label order or integer dtype.
   sr / sp: any injective maps of the reference / prediction labels that fix the background 0
   (jointly one map for matched input).  Integers are unbounded in the model: after the repairs
   (pair code in 64 bit, LUT widening, crop by logical-or) the code computes no label in a fixed
   width; the dtype-dependence of the implementation is decided by correspondence. *)
From Pan Require Import Base.Common Base.Rnd64 Model.MetricTable Model.Metrics Model.Matcher Model.EdgeCase Model.Result Model.Relabel Model.Pipeline
  Proofs.Matching Proofs.MatcherQ Proofs.C04Proofs Proofs.Invariance Proofs.ResultEquiv Proofs.RenameInvariance Proofs.RenameUnmatched Proofs.RenameMerge.
Open Scope Z_scope.

(* every per-pair overlap metric is unchanged by the renaming *)
Theorem C09_metrics_invariant : forall sr sp r ps a, injective sr -> injective sp ->
  iou (Some (sr r, map sp ps)) (rename sr sp a) = iou (Some (r, ps)) a /\
  dice (Some (sr r, map sp ps)) (rename sr sp a) = dice (Some (r, ps)) a /\
  rvd (Some (sr r, map sp ps)) (rename sr sp a) = rvd (Some (r, ps)) a.
Proof. exact metrics_rename. Qed.

(* the candidate pairs of the renamed maps are the renamed candidate pairs *)
Theorem C09_candidates_invariant : forall sr sp a rp, injective sr -> injective sp -> sr 0 = 0 -> sp 0 = 0 ->
  (In (sr (fst rp), sp (snd rp)) (overlap_pairs (rename sr sp a)) <-> In rp (overlap_pairs a)).
Proof. exact overlap_pairs_rename. Qed.

(* a matching is valid (and the candidate list tie-free) iff its renamed image is: with C03's
   uniqueness the matched pairs of the two runs correspond whenever the matching is determined *)
Theorem C09_matching_spec_invariant : forall decr m2o thr sr sp (cs M : list qcand), injective sr -> injective sp ->
  let f := fun rp : Z * Z => (sr (fst rp), sp (snd rp)) in
  valid Q (better_eq decr) (fun s => beats decr s thr) m2o cs M ->
  valid Q (better_eq decr) (fun s => beats decr s thr) m2o (map (mapc Q f) cs) (map (mapc Q f) M).
Proof.
  intros decr m2o thr sr sp cs M Hr Hp f. apply valid_transport.
  intros c d. apply rename_conf; assumption.
Qed.
Theorem C09_uniqueness_invariant : forall decr m2o thr sr sp (cs : list qcand), injective sr -> injective sp ->
  let f := fun rp : Z * Z => (sr (fst rp), sp (snd rp)) in
  competing_distinct Q (better_eq decr) (fun s => beats decr s thr) m2o cs ->
  competing_distinct Q (better_eq decr) (fun s => beats decr s thr) m2o (map (mapc Q f) cs).
Proof.
  intros decr m2o thr sr sp cs Hr Hp f. apply competing_distinct_transport.
  intros c d. apply rename_conf; assumption.
Qed.

(* non-vacuity: labels 1,2 renamed to 70000, 255 (reference) and 16777215, 3 (prediction) *)
Example C09_nonvacuous :
  let sr := fun x => if x =? 1 then 70000 else if x =? 2 then 255 else x in
  let sp := fun x => if x =? 1 then 16777215 else if x =? 2 then 3 else if x =? 3 then 2 else if x =? 16777215 then 1 else x in
  let a := [(1, 1); (1, 1); (1, 2); (2, 2); (0, 2)] in
  iou (Some (sr 1, [sp 1])) (rename sr sp a) = iou (Some (1, [1])) a /\
  overlap_pairs (rename sr sp a) = [(255, 3); (70000, 3); (70000, 16777215)] /\ overlap_pairs a = [(1, 1); (1, 2); (2, 2)].
Proof. vm_compute. repeat split; reflexivity. Qed.

(* ---- the whole evaluation ----
   [result_equiv]: the same counts, precision/recall/rq, and per metric the per-instance list permuted,
   average, variance and pq equal as rationals.  [inj_on f l]: f is injective on the values in l (the labels
   that occur, and the background 0).  [x], [x']: the geometric metric values (ASSD, clDice) supplied for
   the instances of the two runs; they are required to agree on corresponding instances. *)

(* matched input: one renaming for both arrays; no tie hypothesis (there is no matching step) *)
Theorem C09_matched_input_pipeline_invariant : forall s a x x' c, c_matcher c = 0 ->
  inj_on s (0 :: map fst a ++ map snd a) -> s 0 = 0 ->
  (forall m l, In l (matched_labels a) -> x_inst x' m (s l) = x_inst x m l) ->
  res_rel result_equiv (pipeline x c a) (pipeline x' c (rename s s a)).
Proof. exact pipeline_matched_rename. Qed.

(* matched arrays renamed by two maps that agree exactly on the matched labels (evaluation phase of any input type) *)
Theorem C09_evaluation_phase_invariant : forall sr sp a x x' c,
  inj_on sr (0 :: map fst a) -> inj_on sp (0 :: map snd a) -> sr 0 = 0 -> sp 0 = 0 ->
  (forall r p, In r (ref_labels_of a) -> In p (pred_labels_of a) -> (sr r = sp p <-> r = p)) ->
  (forall m l, In l (matched_labels a) -> x_inst x' m (sp l) = x_inst x m l) ->
  res_rel result_equiv (eval_phase x c a) (eval_phase x' c (rename sr sp a)).
Proof. exact eval_phase_rename. Qed.

(* unmatched input, threshold matcher (one-to-one or many-to-one): independent renamings of the reference and
   the prediction labels; the matching must be determined (competing candidates meeting the threshold have
   distinct scores) -- with a tie, which of the tied pairs is matched depends on the label order *)
Theorem C09_unmatched_input_pipeline_invariant : forall sr sp a x x' c,
  nonneg_arr a -> nonneg_arr (rename sr sp a) -> (c_matcher c = 1 \/ c_matcher c = 2) ->
  inj_on sr (0 :: map fst a) -> inj_on sp (0 :: map snd a) -> sr 0 = 0 -> sp 0 = 0 ->
  (forall rp, In rp (overlap_pairs a) -> x_pair x' (sr (fst rp), sp (snd rp)) = x_pair x rp) ->
  (forall m l, In l (ref_labels_of a) -> x_inst x' m (sr l) = x_inst x m l) ->
  competing_distinct Q (better_eq (decreasing (c_mmetric c))) (fun s => beats (decreasing (c_mmetric c)) s (c_mthr c))
    (c_matcher c =? 2) (cand_list x (c_mmetric c) a) ->
  res_rel result_equiv (pipeline x c a) (pipeline x' c (rename sr sp a)).
Proof. exact pipeline_naive_rename. Qed.

(* unmatched input, merge matcher: no two candidates may be equally good (then the candidates are visited in the same order and
   every merge decision is taken on the same combined scores); [x_union]: combined score of a reference against a list of predictions *)
Theorem C09_unmatched_input_merge_matcher_pipeline_invariant : forall sr sp a x x' c,
  nonneg_arr a -> nonneg_arr (rename sr sp a) -> c_matcher c = 3 ->
  inj_on sr (0 :: map fst a) -> inj_on sp (0 :: map snd a) -> sr 0 = 0 -> sp 0 = 0 ->
  (forall rp, In rp (overlap_pairs a) -> x_pair x' (sr (fst rp), sp (snd rp)) = x_pair x rp) ->
  (forall m l, In l (ref_labels_of a) -> x_inst x' m (sr l) = x_inst x m l) ->
  (forall r ps, In r (ref_labels_of a) -> incl ps (pred_labels_of a) -> x_union x' (sr r) (map sp ps) = x_union x r ps) ->
  (forall cd, In cd (cand_list x (c_mmetric c) a) -> fst cd = x_union x (cref cd) [cpred cd]) ->
  strict_scores (better_eq (decreasing (c_mmetric c))) (cand_list x (c_mmetric c) a) ->
  res_rel result_equiv (pipeline x c a) (pipeline x' c (rename sr sp a)).
Proof. exact pipeline_merge_rename. Qed.

(* non-vacuity of the pipeline theorem: a pair with two matches, a rejected candidate and a spurious prediction;
   reference labels 1,2 -> 70000,255, prediction labels 1,2,3 -> 3,16777215,1 *)
Definition ex_a : arr2 := [(1, 1); (1, 1); (1, 2); (2, 2); (2, 2); (0, 3)].
Definition ex_sr (v : Z) : Z := if v =? 1 then 70000 else if v =? 2 then 255 else v.
Definition ex_sp (v : Z) : Z := if v =? 1 then 3 else if v =? 2 then 16777215 else if v =? 3 then 1 else v.
Definition ex_x : ext := {| x_inst := fun _ _ => 0%Q; x_pair := fun _ => 0%Q; x_union := fun _ _ => 0%Q |}.
Definition ex_c : cfg := {| c_matcher := 1; c_mmetric := IOU; c_mthr := (1 # 2)%Q; c_ems := [IOU; DSC]; c_dm := None; c_dthr := None;
                            c_handler := default_handler |}.
Example C09_pipeline_nonvacuous :
  nonneg_arr ex_a /\ nonneg_arr (rename ex_sr ex_sp ex_a) /\ inj_on ex_sr (0 :: map fst ex_a) /\ inj_on ex_sp (0 :: map snd ex_a) /\
  competing_distinct Q (better_eq false) (fun s => beats false s (1 # 2)%Q) false (cand_list ex_x IOU ex_a) /\
  (exists r, pipeline ex_x ex_c ex_a = Ok r /\ o_tp r = 2 /\ o_fp r = 1 /\ o_fn r = 0) /\
  (exists r, pipeline ex_x ex_c (rename ex_sr ex_sp ex_a) = Ok r /\ o_tp r = 2 /\ o_fp r = 1 /\ o_fn r = 0).
Proof.
  assert (Hnn : forall l : arr2, forallb (fun v => (0 <=? fst v) && (0 <=? snd v)) l = true -> nonneg_arr l).
  { intros l H v Hv. rewrite forallb_forall in H. specialize (H v Hv). lia. }
  assert (Hinj : forall f l, forallb (fun u => forallb (fun v => implb (f u =? f v) (u =? v)) l) l = true -> inj_on f l).
  { intros f l H u v Hu Hv E. rewrite forallb_forall in H. specialize (H u Hu). rewrite forallb_forall in H. specialize (H v Hv).
    rewrite E, Z.eqb_refl in H. cbn in H. lia. }
  split; [apply Hnn; reflexivity|]. split; [apply Hnn; reflexivity|]. split; [apply Hinj; reflexivity|]. split; [apply Hinj; reflexivity|].
  split.
  - intros u v Hu Hv Bu Bv Hcf Hne. vm_compute in Hu, Hv.
    destruct Hu as [<-|[<-|[<-|[]]]]; destruct Hv as [<-|[<-|[<-|[]]]];
      try (vm_compute in Bu; discriminate); try (vm_compute in Bv; discriminate); try (vm_compute in Hcf; discriminate);
      exfalso; apply Hne; reflexivity.
  - split; eexists; (split; [vm_compute; reflexivity|cbn; auto]).
Qed.
