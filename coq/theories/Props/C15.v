(* C15 -- evaluation is pure: no history, option or worker dependence.
   For every configuration c (constructor timing flag g), every history (sequence of evaluate calls with
   any options, metric-key queries, construction of aggregators with or without log_times, construction
   of other objects, config saves) and every state reachable from a fresh evaluator:
   each operation returns exactly what it returns on a fresh evaluator.  eval is the pure pipeline
   function (Model.Pipeline / C01); input mutation cannot be expressed in a pure model and is checked
   on the implementation (byte hashes), as is the process pool (serial vs. multiprocessing). *)
From Pan Require Import Base.Common Model.EvaluatorSM Proofs.EvaluatorSMFacts.
Open Scope Z_scope.

Theorem C15_history_independent : forall Cfg Input Res Yaml eval keys_of save TIME_KEY (c : Cfg) g s ops,
  Inv Cfg keys_of c g s ->
  run Cfg Input Res Yaml eval keys_of save TIME_KEY (fun _ e => e) (fun _ e => e) true s ops
  = map (expected Cfg Input Res Yaml eval keys_of save TIME_KEY c g) ops.
Proof. exact history_independent. Qed.

Theorem C15_options_only_add_timing : forall Cfg Input Res Yaml eval keys_of save TIME_KEY (c : Cfg) g x o,
  expected Cfg Input Res Yaml eval keys_of save TIME_KEY c g (Evaluate Input x o)
  = OResult Res Yaml (eval c x) (effective g (o_save_group_times o)).
Proof. reflexivity. Qed.

Theorem C15_evaluate_never_raises : forall Cfg Input Res Yaml eval keys_of save TIME_KEY (c : Cfg) g s ops,
  Inv Cfg keys_of c g s ->
  forall r, In r (run Cfg Input Res Yaml eval keys_of save TIME_KEY (fun _ e => e) (fun _ e => e) true s ops) ->
  forall code, r <> OErr Res Yaml code.
Proof. exact evaluate_never_raises. Qed.

Theorem C15_keys_and_config_do_not_change_through_use : forall Cfg Input Res Yaml eval keys_of save TIME_KEY (c : Cfg) g s ops,
  Inv Cfg keys_of c g s ->
  let s' := final Cfg Input Res Yaml eval keys_of save TIME_KEY (fun _ e => e) (fun _ e => e) true s ops in
  snd (step Cfg Input Res Yaml eval keys_of save TIME_KEY (fun _ e => e) (fun _ e => e) true s' (MetricKeys Input)) = OKeys Res Yaml (keys_of c) /\
  snd (step Cfg Input Res Yaml eval keys_of save TIME_KEY (fun _ e => e) (fun _ e => e) true s' (SaveConfig Input)) = OConfig Res Yaml (save c).
Proof. exact keys_and_config_stable. Qed.

(* a fresh evaluator satisfies the invariant *)
Example C15_nonvacuous : forall Cfg (keys_of : Cfg -> list Z) c g,
  Inv Cfg keys_of c g {| e_cfg := c; e_ctor_sgt := g; e_cache := None |}.
Proof. intros. repeat split. now left. Qed.
