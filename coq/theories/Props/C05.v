(* C05 -- instance approximation yields exactly the connected components.
   Property theorems only; proofs live in Proofs/CCA*.v.  Specification: Proofs/CCASpec.v
   (`is_cca b m lab n`: same voxels, labels exactly 1..n, adjacent voxels share a label, every class
   is joined by paths of adjacent voxels); model: Model/CCA.v.
   The C libraries (cc3d, scipy.ndimage) are modelled by `adjacent`, not verified: what is proved is
   the model and the checker; the implementation's output is judged by the checker on every run. *)
From Pan Require Import Base.Common Model.CCA Proofs.CCASpec Proofs.CCAFacts Proofs.CCASound
  Proofs.CCAUnique Proofs.CCACheck Proofs.CCAApprox.
Open Scope Z_scope.

(* the model's labelling is a valid component labelling of every well-formed map
   (structural recursion: no fuel, no failure case -- total correctness) *)
Theorem C05_cca_sound : forall b m, wf m -> let (lab, n) := cca b m in is_cca b m lab n.
Proof. exact cca_sound_let. Qed.

(* any two valid labellings have the same count and induce the same partition *)
Theorem C05_unique_partition : forall b m l1 n1 l2 n2, wf m ->
  is_cca b m l1 n1 -> is_cca b m l2 n2 ->
  n1 = n2 /\ forall v w, same_label l1 v w <-> same_label l2 v w.
Proof. intros b m l1 n1 l2 n2 W H1 H2. split; [exact (unique_count b m l1 n1 l2 n2 W H1 H2)|exact (unique_partition b m W l1 n1 l2 n2 H1 H2)]. Qed.

(* a path of adjacent voxels never leaves its class: classes are the equivalence classes of the
   reflexive-transitive closure of adjacency *)
Theorem C05_classes_are_path_components : forall b m lab n, wf m -> is_cca b m lab n ->
  forall v w, In v m -> In w m -> (same_label lab (fst v) (fst w) <-> conn b m v w).
Proof.
  intros b m lab n W H v w Hv Hw. split;
    [destruct H as (_&_&_&_&_&Hc); exact (Hc v w Hv Hw)|exact (conn_same_label b m W lab n v w H)].
Qed.

(* bijective renaming of the labels onto 1..n preserves validity *)
Theorem C05_rename : forall b m lab n f g, is_cca b m lab n ->
  (forall k, 1 <= k <= n -> 1 <= f k <= n /\ g (f k) = k) ->
  (forall k, 1 <= k <= n -> 1 <= g k <= n /\ f (g k) = k) ->
  is_cca b m (relabel f lab) n.
Proof. exact is_cca_rename. Qed.

(* the foreground is unchanged: same voxels in the same order, none relabelled to background *)
Theorem C05_foreground_unchanged : forall b m lab n, is_cca b m lab n ->
  map fst lab = map fst m /\ forall p, In p lab -> snd p <> 0.
Proof. intros b m lab n (E&_&Hr&_). split; [exact E|intros p Hp; specialize (Hr p Hp); lia]. Qed.

(* the count is the number of distinct labels, and it is the model's count *)
Theorem C05_count : forall b m lab n, wf m -> is_cca b m lab n ->
  n = n_distinct_labels lab /\ n = snd (cca b m).
Proof.
  intros b m lab n W H. split; [exact (count_is_distinct_labels b m lab n H)|].
  exact (unique_count b m lab n _ _ W H (cca_sound b m W)).
Qed.

Theorem C05_cc3d_never_joins_different_semantic_labels : forall m lab n c d sc sd,
  is_cca Cc3d m lab n -> In (c, sc) m -> In (d, sd) m -> same_label lab c d -> sc = sd.
Proof. exact cc3d_never_joins_different_semantic_labels. Qed.

Theorem C05_scipy_ignores_labels :
  (forall c d s s' t t', adjacent Scipy (c, s) (d, t) = adjacent Scipy (c, s') (d, t'))
  /\ forall m m', map fst m = map fst m' -> cca Scipy m = cca Scipy m'.
Proof. split; [exact adjacent_scipy_labels|exact scipy_ignores_labels]. Qed.

Theorem C05_default_backend : forall ndim,
  (3 <= ndim -> default_backend ndim = Cc3d) /\ (ndim < 3 -> default_backend ndim = Scipy).
Proof. exact default_backend_rule. Qed.

(* the decidable checker applied to the implementation's output decides the specification *)
Theorem C05_holds_reflect : forall b m lab n, holds_C05 b m lab n = true -> wf m /\ is_cca b m lab n.
Proof. exact holds_C05_sound. Qed.
Theorem C05_holds_complete : forall b m lab n, wf m -> is_cca b m lab n -> holds_C05 b m lab n = true.
Proof. exact holds_C05_complete. Qed.
Theorem C05_check_cca_iff : forall b m lab n, wf m -> (check_cca b m lab n = true <-> is_cca b m lab n).
Proof. intros b m lab n W. exact (check_cca_iff b m W lab n). Qed.

(* approximate_instances: negative labels are rejected; otherwise both maps are labelled by a valid
   CCA under the selected backend and the dtype is the smallest unsigned type fitting the larger count *)
Theorem C05_negative_rejected : forall bk nd pred ref,
  (exists p, (In p pred \/ In p ref) /\ snd p < 0) -> approx_instances bk nd pred ref = Err E_ASSERT.
Proof. exact approx_negative_rejected. Qed.
Theorem C05_approx_instances : forall bk nd pred ref, wf pred -> wf ref ->
  (forall p, In p pred \/ In p ref -> 0 < snd p) ->
  exists lp np lr nr,
    approx_instances bk nd pred ref = Ok ((lp, np), (lr, nr), smallest_fitting_uint (Z.max np nr))
    /\ is_cca (pick_backend bk nd) pred lp np /\ is_cca (pick_backend bk nd) ref lr nr.
Proof. exact approx_ok. Qed.
Theorem C05_dtype_fits : forall v, 0 <= v < 2 ^ 64 -> v < 2 ^ smallest_fitting_uint v.
Proof. exact smallest_fitting_uint_fits. Qed.
Theorem C05_dtype_minimal : forall v w, 0 <= v -> v <> 4294967295 -> In w [8; 16; 32; 64] -> v < 2 ^ w ->
  smallest_fitting_uint v <= w.
Proof. exact smallest_fitting_uint_minimal. Qed.

(* observation (harmless for label counts): the code's third threshold is 2^32 - 1, so that value
   alone is stored in 64 bits although it fits in 32 *)
Example C05_dtype_off_by_one :
  smallest_fitting_uint 4294967295 = 64 /\ 4294967295 < 2 ^ 32 /\ smallest_fitting_uint 4294967294 = 32.
Proof. vm_compute. repeat split; reflexivity. Qed.

(* non-vacuity: a 3x3 map with diagonal contacts and two semantic labels touching.
     1 0 2      cc3d:  {(0,0),(1,1),(2,0)} {(0,2),(1,2)}      -- diagonals joined, labels 1|2 kept apart
     0 1 2      scipy: {(0,0)} {(0,2),(1,2),(1,1)} {(2,0)}    -- diagonals split, (1,1)-(1,2) joined across labels
     1 0 0      the checker accepts a renumbered valid labelling and rejects a wrong backend / a split class *)
Definition ex_map : smap := [([0; 0], 1); ([0; 2], 2); ([1; 1], 1); ([1; 2], 2); ([2; 0], 1)].
Example C05_nonvacuous :
  wf_b ex_map = true
  /\ cca Cc3d ex_map = ([([0; 0], 1); ([0; 2], 2); ([1; 1], 1); ([1; 2], 2); ([2; 0], 1)], 2)
  /\ cca Scipy ex_map = ([([0; 0], 1); ([0; 2], 2); ([1; 1], 2); ([1; 2], 2); ([2; 0], 3)], 3)
  /\ holds_C05 Cc3d ex_map [([0; 0], 2); ([0; 2], 1); ([1; 1], 2); ([1; 2], 1); ([2; 0], 2)] 2 = true
  /\ holds_C05 Scipy ex_map [([0; 0], 2); ([0; 2], 1); ([1; 1], 2); ([1; 2], 1); ([2; 0], 2)] 2 = false
  /\ holds_C05 Cc3d ex_map [([0; 0], 1); ([0; 2], 2); ([1; 1], 3); ([1; 2], 2); ([2; 0], 3)] 3 = false.
Proof. vm_compute. repeat split; reflexivity. Qed.
