(* C07 -- ASSD is the mean of the two directed average surface distances.
   Property theorems only; proofs live in Proofs/AssdFacts.v (integers and lists, closed under the global
   context) and Proofs/AssdRFacts.v (Coq's Reals: the three stdlib axioms of the classical Dedekind reals).

   A mask is the list of its foreground voxels; X = reference, Y = prediction.  `wf n A`: every voxel of A
   has n coordinates (true of every list read off an n-D array).  The model is shape-free: no theorem
   mentions an array shape except the two that show the shape does not matter. *)
From Coq Require Import Reals QArith Qreals ZArith List Permutation.
From Pan Require Import Model.Assd Model.AssdR Proofs.AssdFacts Proofs.AssdRFacts.
Import ListNotations.
Open Scope Z_scope.

(* ---------------------------------------------------------------- the definition *)
(* face neighbours = the 2*ndim voxels of the same dimension at Euclidean distance exactly 1 *)
Theorem C07_face_neighbours : forall p n,
  (In n (face_neighbours p) <-> length n = length p /\ sqdist n p = 1)
  /\ length (face_neighbours p) = (2 * length p)%nat.
Proof. intros p n. split; [apply face_neighbours_spec|apply face_neighbours_length]. Qed.

(* border voxel = foreground voxel with a face neighbour that is not foreground (background or outside the array) *)
Theorem C07_border_definition : forall A p,
  In p (border A) <-> In p A /\ exists n, In n (face_neighbours p) /\ ~ In n A.
Proof. exact border_spec. Qed.

(* nearest_sq is the minimum squared distance, and it is attained; undefined only for the empty set *)
Theorem C07_nearest_is_minimum : forall p B,
  (forall d, nearest_sq p B = Some d <->
     (exists b, In b B /\ sqdist p b = d) /\ (forall b, In b B -> d <= sqdist p b))
  /\ (nearest_sq p B = None <-> B = []).
Proof.
  intros p B. split; [|apply nearest_sq_none]. intros d. split; [apply nearest_sq_some|].
  intros [H1 H2]. apply nearest_sq_intro; assumption.
Qed.

(* one value per border voxel of A, in A's order: the squared distance to the nearest border voxel of B *)
Theorem C07_directed_distances : forall n A B, B <> [] -> wf (S n) B ->
  Forall2 (fun p d => nearest_sq p (border B) = Some d) (border A) (asd_sq A B).
Proof.
  intros n A B HB WB. apply asd_sq_Forall2. apply border_nonempty; [assumption|eapply wf_S_nonempty; eassumption].
Qed.

(* ASSD = mean of the two directed average surface distances *)
Theorem C07_assd_is_mean_of_directed_means : forall X Y,
  assd_sq X Y = (asd_sq X Y, asd_sq Y X) /\
  assd_R (assd_sq X Y) = ((mean_sqrt (asd_sq X Y) + mean_sqrt (asd_sq Y X)) / 2)%R /\
  (forall l, mean_sqrt l = (fold_right (fun d acc => sqrt (IZR d) + acc) 0 l / INR (length l))%R).
Proof. intros X Y. split; [reflexivity|split; [reflexivity|intros l; reflexivity]]. Qed.

(* the executable rational enclosure is sound for every precision k >= 0 (all lists, also empty ones) *)
Theorem C07_enclosure : forall k ls, 0 <= k ->
  (Q2R (assd_lo k ls) <= assd_R ls <= Q2R (assd_hi k ls))%R.
Proof. exact assd_enclosure. Qed.

(* ---------------------------------------------------------------- consequences *)
Theorem C07_symmetric : forall X Y,
  assd_sq Y X = (snd (assd_sq X Y), fst (assd_sq X Y)) /\ assd_R (assd_sq X Y) = assd_R (assd_sq Y X).
Proof. intros X Y. split; [reflexivity|apply assd_R_swap]. Qed.

Theorem C07_nonnegative : forall ls, (0 <= assd_R ls)%R.
Proof. exact assd_R_nonneg. Qed.

Theorem C07_zero_iff_same_border : forall n X Y, X <> [] -> Y <> [] -> wf (S n) X -> wf (S n) Y ->
  (assd_R (assd_sq X Y) = 0%R <-> (forall p, In p (border X) <-> In p (border Y))).
Proof. exact assd_R_zero. Qed.

(* ---------------------------------------------------------------- invariances (lists equal, not just permuted) *)
Theorem C07_translation_invariant : forall n t X Y, wf n X -> wf n Y ->
  assd_sq (map (vadd t) X) (map (vadd t) Y) = assd_sq X Y
  /\ border (map (vadd t) X) = map (vadd t) (border X).
Proof. intros n t X Y WX WY. split; [apply (assd_sq_translate n)|apply (border_translate n)]; assumption. Qed.

(* negating coordinate i; numpy's flip along an axis of extent s is this followed by the translation +(s-1) *)
Theorem C07_flip_invariant : forall n i X Y, wf n X -> wf n Y ->
  assd_sq (map (vflip i) X) (map (vflip i) Y) = assd_sq X Y
  /\ border (map (vflip i) X) = map (vflip i) (border X).
Proof. intros n i X Y WX WY. split; [apply (assd_sq_flip n)|apply (border_flip n)]; assumption. Qed.

(* numpy.transpose(axes = pi) for any permutation pi of 0..n-1 *)
Theorem C07_axis_permutation_invariant : forall n pi X Y, Permutation pi (seq 0 n) -> wf n X -> wf n Y ->
  assd_sq (map (vperm pi) X) (map (vperm pi) Y) = assd_sq X Y
  /\ border (map (vperm pi) X) = map (vperm pi) (border X).
Proof. intros n pi X Y HP WX WY. split; [apply (assd_sq_permute n)|apply (border_permute n)]; assumption. Qed.

(* the enclosing array does not matter: computing borders inside ANY box that contains the masks
   (neighbours outside the box count as background) gives the shape-free result *)
Theorem C07_box_independent : forall shape X Y,
  (forall v, In v X -> in_box shape v = true) -> (forall v, In v Y -> in_box shape v = true) ->
  border_dense shape X = border X /\ assd_sq_dense shape X Y = assd_sq X Y.
Proof. intros shape X Y HX HY. split; [apply border_dense_eq|apply assd_sq_dense_eq]; assumption. Qed.

(* the per-instance crop of instance_evaluator.py:99-106: restrict to a box containing both masks and
   move its corner to the origin (t = - lower corner); any box, any padding, also a box tighter or
   larger than the original array *)
Theorem C07_crop_invariant : forall n shape t X Y, wf n X -> wf n Y ->
  (forall v, In v X -> in_box shape (vadd t v) = true) ->
  (forall v, In v Y -> in_box shape (vadd t v) = true) ->
  assd_sq_dense shape (map (vadd t) X) (map (vadd t) Y) = assd_sq X Y.
Proof. exact assd_sq_crop. Qed.

(* the order in which the voxels of the masks are listed only permutes the two lists *)
Theorem C07_order_independent : forall X X' Y Y', Permutation X X' -> Permutation Y Y' ->
  Permutation (fst (assd_sq X Y)) (fst (assd_sq X' Y')) /\ Permutation (snd (assd_sq X Y)) (snd (assd_sq X' Y')).
Proof. intros X X' Y Y' HX HY. split; apply asd_sq_perm; assumption. Qed.

Theorem C07_mean_order_independent : forall l l', Permutation l l' -> mean_sqrt l = mean_sqrt l'.
Proof. exact mean_sqrt_perm. Qed.

(* ---------------------------------------------------------------- non-vacuity *)
(* X = full 3x3 square (its centre is not a border voxel), Y = two voxels inside it *)
Definition ex_X : list vox := [[0;0];[0;1];[0;2];[1;0];[1;1];[1;2];[2;0];[2;1];[2;2]].
Definition ex_Y : list vox := [[1;1];[1;2]].

Example C07_nonvacuous :
  border ex_X = [[0;0];[0;1];[0;2];[1;0];[1;2];[2;0];[2;1];[2;2]] /\
  border ex_Y = ex_Y /\
  assd_sq ex_X ex_Y = ([2;1;1;1;0;2;1;1], [1;0]) /\
  assd_sq_dense [3;3] ex_X ex_Y = assd_sq ex_X ex_Y /\
  assd_sq (map (vadd [5;-7]) ex_X) (map (vadd [5;-7]) ex_Y) = assd_sq ex_X ex_Y /\
  assd_sq (map (vperm [1%nat;0%nat]) ex_X) (map (vperm [1%nat;0%nat]) ex_Y) = assd_sq ex_X ex_Y /\
  map (vperm [1%nat;0%nat]) ex_Y = [[1;1];[2;1]] /\
  Qle_bool (assd_hi 30 (assd_sq ex_X ex_Y)) (assd_lo 30 (assd_sq ex_X ex_Y)) = false /\
  Qle_bool (7 # 10) (assd_lo 30 (assd_sq ex_X ex_Y)) = true /\
  Qle_bool (assd_hi 30 (assd_sq ex_X ex_Y)) (8 # 10) = true.
Proof. vm_compute. repeat split; reflexivity. Qed.

Example C07_nonvacuous_hyps : ex_X <> [] /\ ex_Y <> [] /\ wf 2 ex_X /\ wf 2 ex_Y /\
  (forall v, In v ex_X -> in_box [3;3] v = true) /\ ~ (forall p, In p (border ex_X) <-> In p (border ex_Y)).
Proof.
  split; [discriminate|]. split; [discriminate|].
  split; [intros v H; simpl in H; repeat (destruct H as [<-|H]; [reflexivity|]); destruct H|].
  split; [intros v H; simpl in H; repeat (destruct H as [<-|H]; [reflexivity|]); destruct H|].
  split; [intros v H; simpl in H; repeat (destruct H as [<-|H]; [reflexivity|]); destruct H|].
  intros H. assert (In [0;0] (border ex_Y)) by (apply H; vm_compute; auto).
  vm_compute in H0. destruct H0 as [E|[E|[]]]; discriminate.
Qed.
