(* C13 -- global binary metrics depend only on the two foregrounds.
   F is the metric applied to the binarised arrays (any function of them). *)
From Pan Require Import Base.Common Base.Rnd64 Base.Sx Model.MetricTable Model.EdgeCase Model.Result Model.Metrics
  Proofs.C13Proofs Proofs.MetricsFacts Proofs.C13Formulas.
From Coq Require Import Permutation.
Open Scope Z_scope.

(* the value is a function of the foregrounds only: independent of the division into instances ... *)
Theorem C13_depends_only_on_foreground : forall F h m a a',
  binarise a = binarise a' -> global_value F h m a = global_value F h m a'.
Proof. exact global_value_foreground. Qed.

(* ... in particular of any relabelling that keeps background background (matching, CCA numbering) *)
Theorem C13_relabelling_irrelevant : forall F h m (f g : Z -> Z) a,
  (forall x, f x = 0 <-> x = 0) -> (forall x, g x = 0 <-> x = 0) ->
  global_value F h m (map (fun v => (f (fst v), g (snd v))) a) = global_value F h m a.
Proof. exact global_value_relabel. Qed.

(* empty prediction / reference / both: the handler's EMPTY_PRED / EMPTY_REF / NO_INSTANCES entry,
   for every handler table that defines the metric; otherwise the metric on the binarised arrays *)
Theorem C13_empty_sides : forall F h m mh a, lookup_m m (h_table h) = Some mh ->
  global_value F h m a =
    match fg_pred_empty a, fg_ref_empty a with
    | true, true => Ok (ecr_value (e_noinst mh))
    | true, false => Ok (ecr_value (e_emptypred mh))
    | false, true => Ok (ecr_value (e_emptyref mh))
    | false, false => F (binarise a)
    end.
Proof. exact global_value_empty. Qed.

Theorem C13_emptiness_flags : forall a,
  (fg_pred_empty a = true <-> forall v, In v a -> snd v = 0) /\
  (fg_ref_empty a = true <-> forall v, In v a -> fst v = 0).
Proof. intros a. split; [apply fg_pred_empty_spec|apply fg_ref_empty_spec]. Qed.

(* the concrete overlap metrics: the global Dice / IoU / RVD of two multi-label maps are the published set
   formulas of the two foregrounds of the ORIGINAL arrays (n_ref = |R|, n_pred = |P|, n_inter = |R n P|,
   n_union = |R u P| count non-zero voxels), one IEEE division each, whatever the instance labels *)
Theorem C13_global_dice_iou_rvd_are_foreground_formulas : forall a,
  dice None (binarise a) =
    rnd (if n_ref a + n_pred a =? 0 then 0%Q else qdiv (2 * n_inter a) (n_ref a + n_pred a)) /\
  iou None (binarise a) = rnd (if n_union a =? 0 then 0%Q else qdiv (n_inter a) (n_union a)) /\
  rvd None (binarise a) = match rvd_exact (n_ref a) (n_pred a) with Ok q => Ok (rnd q) | Err c => Err c end.
Proof. intros a. split; [apply global_dice_formula|split; [apply global_iou_formula|apply global_rvd_formula]]. Qed.

(* hence the reported global entries (handler branches included) are functions of the four foreground
   counts only, and the emptiness flags are "count = 0" *)
Theorem C13_global_overlap_entries_depend_on_counts_only : forall h m a a',
  n_ref a = n_ref a' -> n_pred a = n_pred a' -> n_inter a = n_inter a' -> n_union a = n_union a' ->
  global_value gF_dice h m a = global_value gF_dice h m a' /\
  global_value gF_iou h m a = global_value gF_iou h m a' /\
  global_value gF_rvd h m a = global_value gF_rvd h m a'.
Proof. exact global_overlap_counts. Qed.

Theorem C13_emptiness_flags_are_counts : forall a,
  fg_ref_empty a = (n_ref a =? 0) /\ fg_pred_empty a = (n_pred a =? 0).
Proof. exact fg_flags_counts. Qed.

(* ... in particular they do not depend on where the voxels are (any rearrangement applied to both arrays) *)
Theorem C13_global_overlap_entries_voxel_order_irrelevant : forall h m a a', Permutation a a' ->
  global_value gF_dice h m a = global_value gF_dice h m a' /\
  global_value gF_iou h m a = global_value gF_iou h m a' /\
  global_value gF_rvd h m a = global_value gF_rvd h m a'.
Proof. exact global_overlap_perm. Qed.

(* exchanging prediction and reference leaves global Dice and IoU unchanged *)
Theorem C13_global_dice_iou_symmetric : forall a,
  dice None (binarise (swap2 a)) = dice None (binarise a) /\
  iou None (binarise (swap2 a)) = iou None (binarise a).
Proof. exact global_dice_iou_exchange. Qed.

Example C13_formulas_nonvacuous :
  dice None (binarise [(3, 7); (4, 0); (0, 9); (0, 0)]) = rnd (qdiv 2 4) /\
  iou None (binarise [(3, 7); (4, 0); (0, 9); (0, 0)]) = rnd (qdiv 1 3) /\
  rvd None (binarise [(3, 7); (4, 0); (0, 9); (0, 0)]) = Ok (rnd (qdiv 0 2)) /\
  rvd None (binarise [(0, 7)]) = Err E_ZERODIV.
Proof. vm_compute. repeat split; reflexivity. Qed.

Example C13_nonvacuous :
  let h := {| h_table := [(DSC, mh4 NAN ZERO ONE INF)]; h_std := NAN |} in
  let F := fun a => Ok (FQ (dice None a)) in
  global_value F h DSC [(3, 0); (0, 0)] = Ok (FQ 0) /\         (* empty prediction -> EMPTY_PRED = ZERO *)
  global_value F h DSC [(0, 2); (0, 0)] = Ok (FQ 1) /\         (* empty reference  -> EMPTY_REF = ONE *)
  global_value F h DSC [(0, 0)] = Ok FNan /\                    (* both empty       -> NO_INSTANCES = NAN *)
  global_value F h DSC [(3, 7); (4, 0)] = global_value F h DSC [(1, 1); (1, 0)].
Proof. vm_compute. repeat split; reflexivity. Qed.
