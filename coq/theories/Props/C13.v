(* C13 -- global binary metrics depend only on the two foregrounds.
   F is the metric applied to the binarised arrays (any function of them). *)
From Pan Require Import Base.Common Base.Sx Model.MetricTable Model.EdgeCase Model.Result Model.Metrics
  Proofs.C13Proofs.
Open Scope Z_scope.

(* the value is a function of the foregrounds only: independent of the division into instances ... *)
Theorem C13_depends_only_on_foreground : forall F h m a a',
  binarise a = binarise a' -> global_value F h m a = global_value F h m a'.
Proof. exact global_value_foreground. Qed.

(* ... in particular of any relabelling that keeps background background (matching, CCA numbering) *)
Theorem C13_relabelling_irrelevant : forall F h m (f g : Z -> Z) a,
  (forall x, f x = 0 <-> x = 0) -> (forall x, g x = 0 <-> x = 0) ->
  global_value F h m (map (fun v => (f (fst v), g (snd v))) a) = global_value F h m a.
Proof. exact global_value_relabel. Qed.

(* empty prediction / reference / both: the handler's EMPTY_PRED / EMPTY_REF / NO_INSTANCES entry,
   for every handler table that defines the metric; otherwise the metric on the binarised arrays *)
Theorem C13_empty_sides : forall F h m mh a, lookup_m m (h_table h) = Some mh ->
  global_value F h m a =
    match fg_pred_empty a, fg_ref_empty a with
    | true, true => Ok (ecr_value (e_noinst mh))
    | true, false => Ok (ecr_value (e_emptypred mh))
    | false, true => Ok (ecr_value (e_emptyref mh))
    | false, false => F (binarise a)
    end.
Proof. exact global_value_empty. Qed.

Theorem C13_emptiness_flags : forall a,
  (fg_pred_empty a = true <-> forall v, In v a -> snd v = 0) /\
  (fg_ref_empty a = true <-> forall v, In v a -> fst v = 0).
Proof. intros a. split; [apply fg_pred_empty_spec|apply fg_ref_empty_spec]. Qed.

Example C13_nonvacuous :
  let h := {| h_table := [(DSC, mh4 NAN ZERO ONE INF)]; h_std := NAN |} in
  let F := fun a => Ok (FQ (dice None a)) in
  global_value F h DSC [(3, 0); (0, 0)] = Ok (FQ 0) /\         (* empty prediction -> EMPTY_PRED = ZERO *)
  global_value F h DSC [(0, 2); (0, 0)] = Ok (FQ 1) /\         (* empty reference  -> EMPTY_REF = ONE *)
  global_value F h DSC [(0, 0)] = Ok FNan /\                    (* both empty       -> NO_INSTANCES = NAN *)
  global_value F h DSC [(3, 7); (4, 0)] = global_value F h DSC [(1, 1); (1, 0)].
Proof. vm_compute. repeat split; reflexivity. Qed.
