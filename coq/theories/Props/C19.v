(* C19 -- saving and loading a configuration reproduces the same evaluator.
   Property theorems only; proofs live in Proofs/Config*.v.
   A configuration is the state the constructors produce: `wf_config` are the class invariants (label lists
   strictly increasing and duplicate free = sorted(set(.)), positive, non-empty, one label for single-instance
   groups; group names lower-case ASCII and distinct; one handler entry per metric; a decision metric comes
   with a threshold).  `T` ranges over ALL class tables; `tables_ok T` is the checkable condition
   "emitted keys = accepted constructor parameters, every key reads the attribute its parameter writes, every
   setting is emitted, tags tell the classes apart, enums by name"; the tables re-extracted from the Python
   source on every run are shown to satisfy it (Proofs/GenEq_ConfigTables.v). *)
From Coq Require Import Permutation.
From Coq Require String.
Import String.StringSyntax.
From Pan Require Import Base.Common Model.MetricTable Model.Config
  Proofs.ConfigFacts Proofs.ConfigRoundTrip Proofs.ConfigExtra Model.GroupCtor Proofs.GroupCtorFacts.
Open Scope Z_scope.
Local Open Scope string_scope.

(* load (save c) = c, for every configuration *)
Theorem C19_roundtrip : forall T, tables_ok T = true -> forall c, wf_config c = true ->
  decode T (encode T c) = Ok c.
Proof. exact rt_config. Qed.

(* saving the loaded object reproduces the same tree *)
Theorem C19_resave_same_tree : forall T, tables_ok T = true -> forall c, wf_config c = true ->
  exists c', decode T (encode T c) = Ok c' /\ encode T c' = encode T c.
Proof. exact resave_config. Qed.

(* each configurable component on its own *)
Theorem C19_components : forall T, tables_ok T = true ->
  (forall m, dec_matcher T (enc_matcher T m) = Ok m)
  /\ (forall a, dec_approx T (enc_approx T a) = Ok a)
  /\ (forall z, dec_mzh T (enc_mzh T z) = Ok z)
  /\ (forall h, wf_handler h = true -> dec_handler T (enc_handler T h) = Ok h)
  /\ (forall g, wf_lgroup g = true -> dec_lgroup T (enc_lgroup T g) = Ok g)
  /\ (forall g, wf_groups g = true -> dec_groups T (enc_groups T g) = Ok g)
  /\ dec_any T (enc_any T) = Ok tt.
Proof.
  intros T HT. repeat split;
    [exact (rt_matcher T HT)|exact (rt_approx T HT)|exact (rt_mzh T HT)|exact (rt_handler T HT)
    |exact (rt_lgroup T HT)|exact (rt_groups T HT)|exact (rt_any T HT)].
Qed.

(* enums are saved and loaded by member name *)
Theorem C19_enums : forall T, tables_ok T = true ->
  (forall m, dec_metric T (enc_metric T m) = Ok m) /\ (forall i, dec_input T (enc_input T i) = Ok i)
  /\ (forall b, dec_backend T (enc_backend T b) = Ok b) /\ (forall r, dec_ecres T (enc_ecres T r) = Ok r)
  /\ (forall z, dec_zerotp T (enc_zerotp T z) = Ok z).
Proof.
  intros T HT. repeat split;
    [exact (rt_metric T HT)|exact (rt_input T HT)|exact (rt_backend T HT)|exact (rt_ecres T HT)|exact (rt_zerotp T HT)].
Qed.

(* a LabelMergeGroup comes back as a LabelMergeGroup *)
Theorem C19_group_class_preserved : forall T, tables_ok T = true -> forall g g', wf_lgroup g = true ->
  dec_lgroup T (enc_lgroup T g) = Ok g' -> g_kind g' = g_kind g.
Proof. intros T HT g g' Hwf H. rewrite (rt_lgroup T HT g Hwf) in H. inversion H. reflexivity. Qed.

(* the tables of the current source satisfy the side condition, hence: *)
Theorem C19_source_tables_ok : tables_ok model_tables = true.
Proof. exact model_tables_ok. Qed.

Theorem C19_roundtrip_source : forall c, wf_config c = true ->
  decode model_tables (encode model_tables c) = Ok c.
Proof. exact (rt_config model_tables model_tables_ok). Qed.

(* whatever loads is a state of the constructors, and load -> save -> load is the identity on it
   (hand-written files with `null` groups or omitted keys included) *)
Theorem C19_loaded_is_wellformed : forall T y c, decode T y = Ok c -> wf_config c = true.
Proof. exact decode_wf. Qed.

Theorem C19_load_save_load : forall T, tables_ok T = true -> forall y c,
  decode T y = Ok c -> decode T (encode T c) = Ok c.
Proof. exact decode_stable. Qed.

(* MetricZeroTPEdgeCaseHandling(default_result, four optional results): unspecified scenarios take the
   default; only the four filled entries are emitted; loading them back gives the same table *)
Theorem C19_zero_tp_default_fill : forall d no ep er nm,
  dec_mzh model_tables (mzh_call model_tables d no ep er nm) = mzh_built d no ep er nm
  /\ forall z, mzh_built d no ep er nm = Ok z ->
       enc_mzh model_tables z =
         YMap (Some (zs "MetricZeroTPEdgeCaseHandling"))
           [(YStr (zs "empty_prediction_result"), enc_ecres model_tables (mz_ep z));
            (YStr (zs "empty_reference_result"), enc_ecres model_tables (mz_er z));
            (YStr (zs "no_instances_result"), enc_ecres model_tables (mz_no z));
            (YStr (zs "normal"), enc_ecres model_tables (mz_normal z))]
       /\ dec_mzh model_tables (enc_mzh model_tables z) = Ok z.
Proof. exact mzh_fill. Qed.

(* sorted(set(.)) is idempotent: a label list survives any number of save/load cycles unchanged *)
Theorem C19_label_normalisation_idempotent : forall l, uniqueZ (uniqueZ l) = uniqueZ l.
Proof. exact uniqueZ_idem. Qed.

(* cls( **data ): the order of the keys in the file is irrelevant *)
Theorem C19_key_order_irrelevant : forall T tag m m', Permutation m m' ->
  decode T (YMap tag m) = decode T (YMap tag m').
Proof. exact decode_kwargs_order. Qed.

(* the side condition discriminates: a dropped key, a key reading another attribute, two classes under one
   tag are rejected ... *)
Theorem C19_defective_tables_rejected :
  tables_ok T_drop_m2o = false /\ tables_ok T_wrong_attr = false /\ tables_ok T_same_tag = false.
Proof. exact defective_tables_detected. Qed.

(* non-vacuity: a configuration with every option away from its default is well formed and round-trips;
   and for the defective tables above a setting is really lost *)
Example C19_nonvacuous :
  let c := {| c_input := IT_SEMANTIC; c_approx := Some (ACC (Some B_scipy));
              c_matcher := Some (MMerge DSC (NFlt (3 # 10)));
              c_handler := {| h_table := [(IOU, {| mz_no := R_ONE; mz_ep := R_INF; mz_er := R_NAN; mz_normal := R_NONE |});
                                          (RVD, {| mz_no := R_ZERO; mz_ep := R_ZERO; mz_er := R_ONE; mz_normal := R_NAN |})];
                              h_std := R_ZERO |};
              c_groups := GList [([97], {| g_kind := GMerge; g_labels := [1; 2; 3]; g_single := false |});
                                 ([98; 50], {| g_kind := GPlain; g_labels := [5]; g_single := true |})];
              c_inst := [RVD; DSC]; c_glob := []; c_dmetric := Some IOU; c_dthr := Some (NInt 1);
              c_sgt := true; c_log := true; c_verbose := true |} in
  wf_config c = true /\ decode model_tables (encode model_tables c) = Ok c.
Proof. vm_compute. split; reflexivity. Qed.

Example C19_nonvacuous_defects_lose_settings :
  (let c := with_matcher default_config (MNaive IOU (NFlt (1 # 2)) true) in
   wf_config c = true
   /\ res_is (decode T_drop_m2o (encode T_drop_m2o c))
             (fun c' => match c_matcher c' with Some (MNaive _ _ false) => true | _ => false end) = true)
  /\ (let c := default_config in
      wf_config c = true
      /\ res_is (decode T_wrong_attr (encode T_wrong_attr c))
                (fun c' => match c_inst c', c_inst c with [DSC], [DSC; IOU; ASSD; RVD] => true | _, _ => false end) = true).
Proof. split; [exact drop_m2o_breaks|exact wrong_attr_breaks]. Qed.

(* ---- the constructor of the class groups (Model/GroupCtor.v): a user's dictionary may have keys that fold to ONE group name
   (str(key).lower(): "Lesion" / "lesion", 7 / "7"); the later entry replaces the earlier one.  The constructor establishes the
   class invariant the round-trip theorems start from, the object rebuilt from the saved dictionary is the same object and answers
   for the same labels, and those are the labels of the groups that are IN the object (not of replaced ones). *)
Theorem C19_group_constructor_establishes_invariant : forall entries,
  Forall (fun e => ascii_str (fst e) = true) entries -> Forall (fun e => wf_lgroup (snd e) = true) entries ->
  wf_groups (GList (ctor_dict entries)) = true.
Proof. exact ctor_establishes_invariant. Qed.

Theorem C19_group_constructor_rebuilt_from_saved_dictionary : forall entries,
  Forall (fun e => ascii_str (fst e) = true) entries -> Forall (fun e => wf_lgroup (snd e) = true) entries ->
  reconstructed entries = ctor_dict entries /\ ctor_labels (ctor_dict entries) = ctor_labels entries.
Proof. exact reconstructed_same. Qed.

Theorem C19_group_labels_are_those_of_kept_groups : forall entries x,
  In x (ctor_labels entries) <-> exists ng, In ng (ctor_dict entries) /\ In x (g_labels (snd ng)).
Proof. exact ctor_labels_are_kept_groups. Qed.

Theorem C19_group_constructor_last_entry_wins : forall entries e k,
  dget k (ctor_dict (entries ++ [e])) = if str_eqb k (lower (fst e)) then Some (snd e) else dget k (ctor_dict entries).
Proof. exact ctor_last_wins. Qed.

(* non-vacuity: {"Lesion": [1], "b": [3], "lesion": [2]} -- label 1 is gone, the position of the first key is kept *)
Example C19_group_constructor_nonvacuous :
  let lg l := {| g_kind := GPlain; g_labels := l; g_single := false |} in
  let entries := [([76; 101; 115], lg [1]); ([98], lg [3]); ([108; 101; 115], lg [2])] in
  ctor_dict entries = [([108; 101; 115], lg [2]); ([98], lg [3])] /\ ctor_labels entries = [2; 3]
  /\ defined_for (ctor_labels entries) [1] = false.
Proof. vm_compute. repeat split; reflexivity. Qed.
