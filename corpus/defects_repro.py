"""Concrete witnesses of the defects D1-D14 (DESIGN.md section 7) and D20 (section 12), runnable against any tree:
   PYTHONPATH=<repo> /venv/bin/python corpus/defects_repro.py      prints one line per defect: REPRODUCES / fixed"""
import os, sys, tempfile, io, contextlib, warnings
os.environ["PANOPTICA_CITATION_REMINDER"] = "false"
warnings.simplefilter("ignore")
import numpy as np
from pathlib import Path
from panoptica import Panoptica_Evaluator, InputType, NaiveThresholdMatching, ConnectedComponentsInstanceApproximator
from panoptica.instance_matcher import MaximizeMergeMatching
from panoptica.metrics import Metric
from panoptica.utils.edge_case_handling import EdgeCaseHandler, EdgeCaseResult, MetricZeroTPEdgeCaseHandling
from panoptica.utils.processing_pair import UnmatchedInstancePair
from panoptica.utils.segmentation_class import SegmentationClassGroups
from panoptica.utils.label_group import LabelGroup
from panoptica.panoptica_aggregator import Panoptica_Aggregator
from panoptica.panoptica_statistics import Panoptica_Statistic

def quiet(f, *a, **k):
    with contextlib.redirect_stdout(io.StringIO()):
        return f(*a, **k)

def report(name, bad, detail=""):
    print(f"{name}: {'REPRODUCES' if bad else 'fixed'} {detail}")

def d1():
    ref = np.zeros((1, 12), np.uint8); pred = np.zeros((1, 12), np.uint8)
    ref[0, 0:4] = 1; pred[0, 0:4] = 1            # IoU 1
    ref[0, 6:10] = 2; pred[0, 9:10] = 2          # IoU 0.25
    ev = Panoptica_Evaluator(InputType.MATCHED_INSTANCE, decision_metric=Metric.IOU, decision_threshold=0.5, instance_metrics=[Metric.IOU, Metric.DSC])
    r = quiet(ev.evaluate, pred, ref)["ungrouped"][0]
    n = len(r.get_list_metric(Metric.IOU, __import__("panoptica").metrics.MetricMode.ALL))
    report("D1", r.tp != n, f"tp={r.tp} list_len={n} fp={r.fp} fn={r.fn}")

def d2():
    inj = {m: MetricZeroTPEdgeCaseHandling(no_instances_result=EdgeCaseResult.NAN, empty_prediction_result=EdgeCaseResult.ZERO,
           empty_reference_result=EdgeCaseResult.ONE, normal=EdgeCaseResult.INF) for m in [Metric.DSC, Metric.IOU, Metric.ASSD, Metric.RVD, Metric.clDSC]}
    ev = Panoptica_Evaluator(InputType.MATCHED_INSTANCE, edge_case_handler=EdgeCaseHandler(inj), global_metrics=[Metric.DSC], instance_metrics=[Metric.IOU])
    ref = np.zeros((4, 4), np.uint8); ref[1, 1] = 1
    pred = np.zeros((4, 4), np.uint8)
    r = quiet(ev.evaluate, pred, ref)["ungrouped"][0]       # empty prediction -> should be ZERO (0.0)
    r2 = quiet(ev.evaluate, pred, pred.copy())["ungrouped"][0]  # both empty -> should be NAN
    report("D2", not (r.global_bin_dsc == 0.0 and np.isnan(r2.global_bin_dsc)), f"empty_pred->{r.global_bin_dsc} both_empty->{r2.global_bin_dsc}")

def d3():
    ref = np.array([[1, 1, 2, 2]], np.uint8); pred = np.array([[1, 1, 1, 1]], np.uint8)
    m = NaiveThresholdMatching(matching_metric=Metric.IOU, matching_threshold=0.5, allow_many_to_one=True)
    try:
        quiet(m.match_instances, UnmatchedInstancePair(pred, ref)); report("D3", False)
    except Exception as e:
        report("D3", True, repr(e)[:60])

def d4():
    ref = np.array([[255, 255, 0, 0]], np.uint8); pred = np.array([[0, 0, 7, 7]], np.uint8)
    m = NaiveThresholdMatching()
    out = quiet(m.match_instances, UnmatchedInstancePair(pred, ref))
    report("D4", (out.prediction_arr != 0).sum() != 2, f"relabelled pred={out.prediction_arr.tolist()}")

def d5():
    a = np.zeros((1, 8), np.uint8); a[0, 1:3] = 128; a[0, 5:7] = 3
    ev = Panoptica_Evaluator(InputType.MATCHED_INSTANCE, instance_metrics=[Metric.IOU])
    r = quiet(ev.evaluate, a.copy(), a.copy())["ungrouped"][0]
    n = len(r.get_list_metric(Metric.IOU, __import__("panoptica").metrics.MetricMode.ALL))
    report("D5", not (r.tp == 2 and n == 2), f"tp={r.tp} list_len={n}")

def d6():
    a = np.zeros((1, 6), np.uint32); a[0, 0:2] = 70000; a[0, 3:5] = 5
    ev = Panoptica_Evaluator(InputType.UNMATCHED_INSTANCE, instance_matcher=NaiveThresholdMatching(), instance_metrics=[Metric.IOU])
    try:
        r = quiet(ev.evaluate, a.copy(), a.copy())["ungrouped"][0]
        report("D6", r.tp != 2, f"tp={r.tp}")
    except Exception as e:
        report("D6", True, repr(e)[:80])

def d7():
    # reference = bar of 8; prediction fragments: A overlaps well, B is far-reaching noise that worsens ASSD
    ref = np.zeros((1, 40), np.uint8); ref[0, 0:8] = 1
    pred = np.zeros((1, 40), np.uint8); pred[0, 0:7] = 1; pred[0, 7:8] = 2; pred[0, 8:40] = 2
    m = MaximizeMergeMatching(matching_metric=Metric.ASSD, matching_threshold=5.0)
    up = UnmatchedInstancePair(pred, ref)
    out = quiet(m.match_instances, up)
    before = Metric.ASSD(ref, pred, 1, 1); after = Metric.ASSD(ref, pred, 1, [1, 2])
    merged = len(np.unique(out.prediction_arr[out.prediction_arr != 0])) == 1
    report("D7", merged and after > before, f"assd single={before:.3f} merged={after:.3f} merged={merged}")

def d8():
    ev = Panoptica_Evaluator(InputType.MATCHED_INSTANCE, instance_metrics=[Metric.IOU])
    a = np.ones((2, 2), np.uint8)
    try:
        quiet(ev.evaluate, a, a, save_group_times=True); report("D8", False)
    except UnboundLocalError as e:
        report("D8", True, repr(e)[:60])

def d9():
    ev = Panoptica_Evaluator(InputType.MATCHED_INSTANCE, instance_metrics=[Metric.IOU])
    k0 = list(ev.resulting_metric_keys)
    with tempfile.TemporaryDirectory() as d:
        quiet(Panoptica_Aggregator, ev, Path(d) / "a.tsv", log_times=True)
    report("D9", list(ev.resulting_metric_keys) != k0, f"keys grew by {len(ev.resulting_metric_keys) - len(k0)}")

def d10():
    ev = Panoptica_Evaluator(InputType.MATCHED_INSTANCE, instance_metrics=[Metric.IOU])
    with tempfile.TemporaryDirectory() as d:
        f = Path(d) / "a.tsv"; f.write_text("")
        quiet(Panoptica_Aggregator, ev, f)
        report("D10", not f.read_text().startswith("subject_name"), f"file={f.read_text()[:30]!r}")

def d11():
    ev = Panoptica_Evaluator(InputType.MATCHED_INSTANCE, instance_metrics=[Metric.IOU])
    a = np.ones((2, 2), np.uint8)
    with tempfile.TemporaryDirectory() as d:
        A = quiet(Panoptica_Aggregator, ev, Path(d) / "a.tsv")
        B = quiet(Panoptica_Aggregator, ev, Path(d) / "b.tsv")
        quiet(A.evaluate, a, a, "s1")
        quiet(B.evaluate, a, a, "s1")   # different output file: must be recorded there too
        quiet(A.evaluate, a, a, "s1")   # duplicate for A: must be skipped
        rows_a = (Path(d) / "a.tsv").read_text().strip().split("\n"); rows_b = (Path(d) / "b.tsv").read_text().strip().split("\n")
        report("D11", not (len(rows_a) == 2 and len(rows_b) == 2), f"rows a={len(rows_a)-1} b={len(rows_b)-1}")

def d12():
    groups = SegmentationClassGroups({"left-lung": LabelGroup([1])})
    ev = Panoptica_Evaluator(InputType.MATCHED_INSTANCE, instance_metrics=[Metric.IOU], segmentation_class_groups=groups)
    a = np.ones((2, 2), np.uint8)
    with tempfile.TemporaryDirectory() as d:
        A = quiet(Panoptica_Aggregator, ev, Path(d) / "a.tsv"); quiet(A.evaluate, a, a, "s1")
        try:
            st = quiet(Panoptica_Statistic.from_file, str(Path(d) / "a.tsv")); report("D12", st.get("left-lung", "tp") != [1.0])
        except Exception as e:
            report("D12", True, repr(e)[:60])

def d13():
    ev = Panoptica_Evaluator(InputType.MATCHED_INSTANCE, instance_metrics=[Metric.IOU])
    a = np.ones((2, 2), np.uint8)
    with tempfile.TemporaryDirectory() as d:
        A = quiet(Panoptica_Aggregator, ev, Path(d) / "a.tsv"); quiet(A.evaluate, a, a, "subject_name")
        rows = (Path(d) / "a.tsv").read_text().strip().split("\n")
        report("D13", len(rows) != 2, f"rows={len(rows)-1}")

def d14():
    with tempfile.TemporaryDirectory() as d:
        f = Path(d) / "t.tsv"; f.write_text("subject_name\tg-m\ns1\t1.0\ns2\t-inf\n")
        st = quiet(Panoptica_Statistic.from_file, str(f))
        report("D14", st.get("g", "m") != [1.0, None], f"values={st.get('g','m')}")

def d20():
    # identical squares labelled 2^27+5 (prediction) and 2^27+3 (reference): the pair code passes 2^53 (needs ~0.7 GB for the relabelling table)
    ref = np.zeros((8, 8), np.uint32); pred = np.zeros((8, 8), np.uint32)
    ref[1:4, 1:4] = 2 ** 27 + 3; pred[1:4, 1:4] = 2 ** 27 + 5
    ev = Panoptica_Evaluator(expected_input=InputType.UNMATCHED_INSTANCE, instance_matcher=NaiveThresholdMatching(), verbose=False)
    r = quiet(ev.evaluate, pred, ref, verbose=False)["ungrouped"][0]
    report("D20", (r.tp, r.fp, r.fn) != (1, 0, 0), f"tp/fp/fn={(r.tp, r.fp, r.fn)} expected (1, 0, 0)")

for f in [d1, d2, d3, d4, d5, d6, d7, d8, d9, d10, d11, d12, d13, d14, d20]:
    try:
        f()
    except Exception as e:
        print(f.__name__.upper(), "ERROR", repr(e)[:200])
