"""Markdown tables of the seeded changes (rounds 2 to 9) from seeded/*/meta.json:  harness/seed_report.py > table.md"""
import json
import sys
from pathlib import Path

V = Path(__file__).resolve().parent.parent


def row(sid, m):
    tgt = m["property"]
    ch = m.get("checks", {})
    caught = [c for c, r in ch.items() if r.get("exit") == 1]
    own = ch.get(tgt, {})
    how = "concrete replay" if own.get("exit") == 1 and not own.get("no_failing_input") else (
        "no-failing-input-found (broken obligation)" if own.get("exit") == 1 else "MISSED")
    others = [c for c in caught if c != tgt]
    return f"| {sid} | {m.get('change', '?')} | {m.get('needs_to_manifest', '?')} | {tgt}: {how}" + \
           (f"; also {', '.join(others)}" if others else "") + f" | {m.get('strengthening_after_first_evaluation', '')} |"


def main():
    for rnd, sufs in ((2, "cd"), (3, "ef"), (4, "gh"), (5, "ij"), (6, "kl"), (7, "mn"), (8, "op"), (9, "q")):
        print(f"\n**Round {rnd}**\n")
        print("| id | change | needs, to manifest | caught by (quick tier, applied to /repo) | strengthening after the first evaluation |")
        print("|---|---|---|---|---|")
        for i in range(1, 21):
            for s in sufs:
                sid = f"C{i:02d}-{s}"
                f = V / "seeded" / sid / "meta.json"
                if f.exists():
                    print(row(sid, json.loads(f.read_text())))


if __name__ == "__main__":
    main()
